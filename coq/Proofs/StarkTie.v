(* C01 — tie of the DEEP quotient of Model/Stark.v to C20's model of winter_math::polynom (Model/Polynom.v):
   `syn1` is Polynom.syn_lin, and `polynom::syn_div_in_place(p, 1, z)` — the call made by
   prover/src/composer/mod.rs merge_trace_compositions / add_composition_poly — returns `fst (syn1 p z)` exactly when the
   model's guards (z <> 0, more than one coefficient) hold, and panics otherwise. *)
From Coq Require Import List Arith Bool Lia.
From VBase Require Import FieldOps.
From VModel Require Import Stark.
From VModel Require Polynom.
Import ListNotations.

Section Tie.
Context {F : Type} (O : FOps F).

Lemma syn1_is_syn_lin : forall p r, syn1 O p r = Polynom.syn_lin O p r.
Proof. induction p as [|h t IH]; intros r; [reflexivity|]. cbn [syn1 Polynom.syn_lin]. now rewrite IH. Qed.

Theorem syn_div_in_place_is_syn1 p z : feqb O z (fzero O) = false -> 1 < length p ->
  Polynom.syn_div_in_place O p 1 z = Polynom.Ok (fst (syn1 O p z)).
Proof.
  intros Hz Hl. unfold Polynom.syn_div_in_place, Polynom.syn_div_in_place_full.
  cbn [Nat.eqb]. rewrite Hz.
  replace (1 <? length p) with true by (symmetry; apply Nat.ltb_lt; lia). cbn [negb].
  rewrite <- syn1_is_syn_lin. destruct (syn1 O p z) as [q c]. reflexivity.
Qed.

Theorem syn_div_in_place_panics p z : feqb O z (fzero O) = true \/ length p <= 1 ->
  Polynom.syn_div_in_place O p 1 z = Polynom.Panic.
Proof.
  intros H. unfold Polynom.syn_div_in_place, Polynom.syn_div_in_place_full. cbn [Nat.eqb].
  destruct (feqb O z (fzero O)); [reflexivity|]. destruct H as [H|H]; [discriminate|].
  replace (1 <? length p) with false by (symmetry; apply Nat.ltb_ge; lia). reflexivity.
Qed.
End Tie.
