(* C02 (round 4) — the DEEP composer over main AND auxiliary trace columns (verifier/src/composer.rs,
   compose_trace_columns): which coefficient a column gets, what that buys, and what is lost when auxiliary
   columns reuse the coefficients of the main columns.

   (1) the index map  main i |-> i,  aux j |-> main_width + j  (cc_offset) is injective over all columns and
       enumerates 0 .. main_width + aux_width - 1; deep_trace_at is the sum over ALL columns with exactly these indexes;
   (2) for two assignments of out-of-domain trace values (same openings, same point) the difference of the DEEP
       trace values is the dot product of the coefficient vector with the per-column difference vector, placed at the
       column's index; hence a non-zero difference is annihilated only by the coefficient vectors of a hyperplane:
       not by the unit vector of that column, at most one value of that coordinate for fixed other coordinates, at most
       |F|^(m-1) of |F|^m vectors;
   (3) with the aliased map (aux j |-> j) opposite errors in main column 0 and auxiliary column 0 — in the opened
       values or in the out-of-domain values — leave the DEEP value unchanged for EVERY coefficient vector.
   Generic over every [FOps F] with [FLaws]. *)
From Coq Require Import List Arith Bool Lia Ring Field ZArith.
From VBase Require Import FieldOps ZpOps.
From VModel Require Import Soundness.
From VProofs Require Import ZpLaws SoundnessPoly SoundnessEnforce SoundnessBoundary SoundnessVerifier SoundnessCount.
Import ListNotations.
Local Open Scope nat_scope.

(* ------------------------------------------------------------------ (1) the index map *)
Definition col_in_range (w aw : nat) (c : TraceCol) : Prop :=
  match c with MainCol i => i < w | AuxCol j => j < aw end.
Definition all_cols (w aw : nat) : list TraceCol := map MainCol (seq 0 w) ++ map AuxCol (seq 0 aw).
(* the map without the running offset: auxiliary column j shares the coefficient of main column j *)
Definition aliased_index_aux (main_width j : nat) : nat := j.
Definition aliased_index (c : TraceCol) : nat := match c with MainCol i => i | AuxCol j => j end.

Theorem deep_coeff_index_injective w aw c c' :
  col_in_range w aw c -> col_in_range w aw c' -> deep_coeff_index w c = deep_coeff_index w c' -> c = c'.
Proof.
  destruct c as [i|j], c' as [i'|j']; unfold deep_coeff_index, deep_coeff_index_aux, col_in_range; intros H H' E.
  - now subst.
  - exfalso; lia.
  - exfalso; lia.
  - f_equal. lia.
Qed.

Theorem deep_coeff_index_aux_offset w j : deep_coeff_index w (AuxCol j) = w + j.
Proof. reflexivity. Qed.

Lemma map_add_seq w a n : map (fun j => w + j) (seq a n) = seq (w + a) n.
Proof.
  revert a; induction n as [|n IH]; intros a; cbn [seq map]; [reflexivity|].
  f_equal. rewrite IH. f_equal. lia.
Qed.

Theorem deep_coeff_index_enumerates w aw : map (deep_coeff_index w) (all_cols w aw) = seq 0 (w + aw).
Proof.
  unfold all_cols. rewrite map_app, !map_map, seq_app. f_equal.
  - cbn [deep_coeff_index]. apply map_id.
  - cbn [deep_coeff_index plus]. unfold deep_coeff_index_aux.
    rewrite map_add_seq. f_equal. lia.
Qed.

Corollary deep_coeff_index_NoDup w aw : NoDup (map (deep_coeff_index w) (all_cols w aw)).
Proof. rewrite deep_coeff_index_enumerates. apply seq_NoDup. Qed.

Lemma all_cols_in_range w aw c : In c (all_cols w aw) <-> col_in_range w aw c.
Proof.
  unfold all_cols. rewrite in_app_iff, !in_map_iff. split.
  - intros [[i [<- Hi]]|[j [<- Hj]]]; apply in_seq in Hi || apply in_seq in Hj; cbn; lia.
  - destruct c as [i|j]; cbn; intros H; [left; exists i|right; exists j]; (split; [reflexivity|apply in_seq; lia]).
Qed.

(* the aliased map is NOT injective as soon as both segments have a column *)
Theorem aliased_index_not_injective w aw : 0 < w -> 0 < aw ->
  exists c c', col_in_range w aw c /\ col_in_range w aw c' /\ c <> c' /\ aliased_index c = aliased_index c'.
Proof. intros Hw Ha. exists (MainCol 0), (AuxCol 0). cbn. repeat split; auto. discriminate. Qed.

Section Deep.
Context {F : Type} (O : FOps F) (L : FLaws O).
Local Notation zero := (fzero O).
Local Notation one := (fone O).
Local Infix "+f" := (fadd O) (at level 50, left associativity).
Local Infix "-f" := (fsub O) (at level 50, left associativity).
Local Infix "*f" := (fmul O) (at level 40, left associativity).
Add Ring Fr6 : (FLaws_ring_theory O L).
Add Field Ff6 : (FLaws_field_theory O L).
Local Notation dot := (dot O).
Local Notation diffs := (diffs O).
Local Notation vadd := (vadd O).
Local Notation vscale := (vscale O).
Local Notation unit_vec := (unit_vec O).

(* ---------------------------------------------------------------- deep_trace_at as a sum over all columns *)
Definition col_value (row ar : list F) (c : TraceCol) : F :=
  match c with MainCol i => nth i row zero | AuxCol j => nth j ar zero end.
(* sum over the columns [cols] of (opened value - out-of-domain value) * cc[idx column] *)
Definition col_sum (cc : list F) (idx : TraceCol -> nat) (cols : list TraceCol) (row ar ood aood : list F) : F :=
  fsum O (map (fun c => (col_value row ar c -f col_value ood aood c) *f nth (idx c) cc zero) cols).

Lemma fsum_app a b : fsum O (a ++ b) = fsum O a +f fsum O b.
Proof.
  unfold fsum. induction a as [|x a IH]; cbn [app fold_right]; [ring|]. rewrite IH. ring.
Qed.

Lemma col_terms_as_sum cc idx i row ood : length ood = length row ->
  col_terms O cc idx i row ood =
  fsum O (map (fun j => (nth j row zero -f nth j ood zero) *f nth (idx (i + j)) cc zero) (seq 0 (length row))).
Proof.
  revert i ood; induction row as [|v row IH]; intros i [|o ood] Hl; cbn [length] in Hl; try discriminate; [reflexivity|].
  cbn [col_terms length seq map nth]. rewrite <- seq_shift, map_map. cbn [fsum fold_right].
  rewrite Nat.add_0_r. f_equal. rewrite IH by lia. unfold fsum. f_equal.
  apply map_ext. intros j. cbn [nth]. now rewrite Nat.add_succ_r.
Qed.

Theorem deep_trace_at_index_form C P ax zg row ar x :
  p_aux P = Some ax ->
  length (p_ood_cur P) = length row -> length (p_ood_next P) = length row ->
  length (ax_cur ax) = length ar -> length (ax_next ax) = length ar ->
  x -f c_z C <> zero -> x -f zg <> zero ->
  deep_trace_at O C P zg row (Some ar) x =
  fdiv O (col_sum (cc_deep_trace C) (deep_coeff_index (length row)) (all_cols (length row) (length ar))
                  row ar (p_ood_cur P) (ax_cur ax)) (x -f c_z C) +f
  fdiv O (col_sum (cc_deep_trace C) (deep_coeff_index (length row)) (all_cols (length row) (length ar))
                  row ar (p_ood_next P) (ax_next ax)) (x -f zg).
Proof.
  intros Hax H1 H2 H3 H4 Hz Hzg.
  unfold deep_trace_at, deep_trace_at_gen. rewrite Hax.
  rewrite !col_terms_as_sum by assumption.
  unfold col_sum, all_cols. rewrite !map_app, !fsum_app, !map_map. cbn [col_value deep_coeff_index plus].
  field. split; assumption.
Qed.

(* ---------------------------------------------------------------- dot products *)
Lemma dot_nil_r cs : dot cs [] = zero.
Proof. now destruct cs. Qed.

Lemma dot_app cc u v : dot cc (u ++ v) = dot cc u +f dot (skipn (length u) cc) v.
Proof.
  revert cc; induction u as [|a u IH]; intros cc; cbn [app length skipn].
  - rewrite dot_nil_r. ring.
  - destruct cc as [|c cc]; cbn [Soundness.dot skipn]; [ring|]. rewrite IH. ring.
Qed.

Lemma dot_vadd_r cc u v : length u = length v -> dot cc (vadd u v) = dot cc u +f dot cc v.
Proof.
  revert u v; induction cc as [|c cc IH]; intros [|a u] [|b v] H; cbn in H; try discriminate;
    cbn [Soundness.dot SoundnessPoly.vadd]; try ring.
  rewrite IH by lia. ring.
Qed.

Lemma dot_vscale_r cc a u : dot cc (vscale a u) = a *f dot cc u.
Proof.
  revert u; induction cc as [|c cc IH]; intros [|b u]; unfold SoundnessPoly.vscale; cbn [Soundness.dot map]; try ring.
  fold (vscale a u). rewrite IH. ring.
Qed.

Lemma dot_vadd_l al be D : length al = length be -> dot (vadd al be) D = dot al D +f dot be D.
Proof.
  revert be D; induction al as [|a al IH]; intros [|b be] [|d D] H; cbn in H; try discriminate;
    cbn [Soundness.dot SoundnessPoly.vadd]; try ring.
  rewrite IH by lia. ring.
Qed.

Lemma dot_vscale_l c al D : dot (vscale c al) D = c *f dot al D.
Proof.
  revert D; induction al as [|a al IH]; intros [|d D]; unfold SoundnessPoly.vscale; cbn [Soundness.dot map]; try ring.
  fold (vscale c al). rewrite IH. ring.
Qed.

Lemma dot_zeros_l n D : dot (repeat zero n) D = zero.
Proof. revert D; induction n as [|n IH]; intros [|d D]; cbn [repeat Soundness.dot]; try ring. rewrite IH. ring. Qed.

Lemma dot_unit_vec n k D : n = length D -> k < n -> dot (unit_vec n k) D = nth k D zero.
Proof.
  revert k D; induction n as [|n IH]; intros k [|d D] Hn Hk; cbn in Hn; try lia.
  destruct k as [|k]; cbn [SoundnessPoly.unit_vec Soundness.dot nth].
  - rewrite dot_zeros_l. ring.
  - rewrite IH by lia. ring.
Qed.

Lemma dot_split al D k : length al = length D -> k < length D ->
  dot al D = dot (upd_nth al k zero) D +f nth k al zero *f nth k D zero.
Proof.
  revert D k; induction al as [|a al IH]; intros [|d D] k Hl Hk; cbn in Hl, Hk; try lia.
  destruct k as [|k]; cbn [upd_nth nth Soundness.dot].
  - ring.
  - rewrite (IH D k) by lia. ring.
Qed.

Lemma diffs_length a b : length a = length b -> length (diffs a b) = length a.
Proof. intros H. unfold SoundnessVerifier.diffs. rewrite map_length, combine_length. lia. Qed.

Lemma dot_diffs_sub cc row a a' : length a = length row -> length a' = length row ->
  dot cc (diffs row a) -f dot cc (diffs row a') = dot cc (diffs a' a).
Proof.
  unfold SoundnessVerifier.diffs.
  revert row a a'; induction cc as [|c cc IH]; intros [|v row] [|o a] [|o' a'] H H'; cbn in H, H'; try discriminate;
    cbn [Soundness.dot combine map fst snd]; try ring.
  rewrite <- (IH row a a') by lia. ring.
Qed.

(* ---------------------------------------------------------------- (2) two assignments of out-of-domain values *)
(* the same proof with other out-of-domain trace values *)
Definition with_ood (P : ProofObj) (cur next acur anext : list F) : ProofObj :=
  mkProof (p_modulus P) (p_options P) cur next (p_ood_evals P) (p_q_trace P) (p_q_cons P)
          (match p_aux P with Some ax => Some (mkAuxOpen acur anext (ax_rows ax)) | None => None end) (p_lagrange P).
(* the same coin outputs with other DEEP coefficients of the trace columns *)
Definition with_deep_cc (C : Coins) (cc : list F) : Coins :=
  mkCoins (c_aux_rands C) (cc_trans C) (cc_bnd C) (c_z C) cc (cc_deep_cons C) (c_xs C) (c_lagrange C).

(* per column: (a' - a) / (x - z) + (b' - b) / (x - z g), a / a' the two current-row values, b / b' the next-row values *)
Definition ood_delta (x z zg : F) (cur cur' next next' : list F) : list F :=
  vadd (vscale (finv O (x -f z)) (diffs cur' cur)) (vscale (finv O (x -f zg)) (diffs next' next)).

Lemma ood_delta_length x z zg cur cur' next next' :
  length cur' = length cur -> length next = length cur -> length next' = length cur ->
  length (ood_delta x z zg cur cur' next next') = length cur.
Proof.
  intros H1 H2 H3. unfold ood_delta.
  rewrite (vadd_length O); rewrite ?(vscale_length O), ?diffs_length; lia.
Qed.

Lemma vadd_nth u v i : length u = length v -> nth i (vadd u v) zero = nth i u zero +f nth i v zero.
Proof.
  revert v i; induction u as [|a u IH]; intros [|b v] i H; cbn in H; try discriminate.
  - destruct i; cbn; ring.
  - destruct i as [|i]; cbn [SoundnessPoly.vadd nth]; [reflexivity|]. apply IH. lia.
Qed.

Lemma vscale_nth c u i : nth i (vscale c u) zero = c *f nth i u zero.
Proof.
  unfold SoundnessPoly.vscale. revert i; induction u as [|a u IH]; intros [|i]; cbn [map nth]; try ring. apply IH.
Qed.

Lemma diffs_nth a b i : length a = length b -> nth i (diffs a b) zero = nth i a zero -f nth i b zero.
Proof.
  unfold SoundnessVerifier.diffs.
  revert b i; induction a as [|u a IH]; intros [|v b] i H; cbn in H; try discriminate.
  - destruct i; cbn; ring.
  - destruct i as [|i]; cbn [combine map nth fst snd]; [reflexivity|]. apply IH. lia.
Qed.

Lemma ood_delta_nth x z zg cur cur' next next' i :
  length cur' = length cur -> length next = length cur -> length next' = length cur ->
  nth i (ood_delta x z zg cur cur' next next') zero =
  fdiv O (nth i cur' zero -f nth i cur zero) (x -f z) +f fdiv O (nth i next' zero -f nth i next zero) (x -f zg).
Proof.
  intros H1 H2 H3. unfold ood_delta.
  rewrite vadd_nth, !vscale_nth, !diffs_nth by (rewrite ?(vscale_length O), ?diffs_length; lia).
  rewrite !(fl_div_def O L). ring.
Qed.

(* the delta of column c sits at position deep_coeff_index c of the concatenated vector *)
Lemma delta_at_index (Dm Da : list F) w (c : TraceCol) : length Dm = w -> col_in_range w (length Da) c ->
  nth (deep_coeff_index w c) (Dm ++ Da) zero = col_value Dm Da c.
Proof.
  intros Hl Hc. destruct c as [i|j]; cbn [deep_coeff_index col_value col_in_range] in *.
  - apply app_nth1. lia.
  - unfold deep_coeff_index_aux. rewrite app_nth2 by lia. f_equal. lia.
Qed.

Theorem deep_ood_difference_linear C P ax zg row ar x cur' next' acur' anext' :
  p_aux P = Some ax ->
  length (p_ood_cur P) = length row -> length (p_ood_next P) = length row ->
  length cur' = length row -> length next' = length row ->
  length (ax_cur ax) = length ar -> length (ax_next ax) = length ar ->
  length acur' = length ar -> length anext' = length ar ->
  x -f c_z C <> zero -> x -f zg <> zero ->
  deep_trace_at O C P zg row (Some ar) x -f deep_trace_at O C (with_ood P cur' next' acur' anext') zg row (Some ar) x =
  dot (cc_deep_trace C)
      (ood_delta x (c_z C) zg (p_ood_cur P) cur' (p_ood_next P) next' ++
       ood_delta x (c_z C) zg (ax_cur ax) acur' (ax_next ax) anext').
Proof.
  intros Hax H1 H2 H3 H4 H5 H6 H7 H8 Hz Hzg.
  rewrite !(deep_trace_at_spec O L) by assumption.
  unfold with_ood. cbn [p_aux p_ood_cur p_ood_next]. rewrite Hax. cbn [ax_cur ax_next].
  rewrite dot_app, ood_delta_length by lia. rewrite H1. unfold ood_delta.
  rewrite !dot_vadd_r, !dot_vscale_r by (rewrite ?(vscale_length O), ?diffs_length; lia).
  unfold aux_dot.
  rewrite <- (dot_diffs_sub (cc_deep_trace C) row (p_ood_cur P) cur') by lia.
  rewrite <- (dot_diffs_sub (cc_deep_trace C) row (p_ood_next P) next') by lia.
  rewrite <- (dot_diffs_sub (skipn (length row) (cc_deep_trace C)) ar (ax_cur ax) acur') by lia.
  rewrite <- (dot_diffs_sub (skipn (length row) (cc_deep_trace C)) ar (ax_next ax) anext') by lia.
  field. split; assumption.
Qed.

(* ---------------------------------------------------------------- hyperplanes: the coefficient vectors annihilating
   a vector D with a non-zero coordinate k *)
Section Hyperplane.
Variable D : list F.
Variable k : nat.
Hypothesis Hk : k < length D.
Hypothesis HD : nth k D zero <> zero.

Definition annihilates (cc : list F) : Prop := length cc = length D /\ dot cc D = zero.

Lemma annihilates_subspace :
  (forall al be, annihilates al -> annihilates be -> annihilates (vadd al be)) /\
  (forall c al, annihilates al -> annihilates (vscale c al)) /\
  ~ annihilates (unit_vec (length D) k).
Proof.
  split; [|split].
  - intros al be [Hla Ha] [Hlb Hb]. split.
    + rewrite (vadd_length O); congruence.
    + rewrite dot_vadd_l by congruence. rewrite Ha, Hb. ring.
  - intros c al [Hl Ha]. split.
    + now rewrite (vscale_length O).
    + rewrite dot_vscale_l, Ha. ring.
  - intros [_ H]. rewrite dot_unit_vec in H by (auto; lia). exact (HD H).
Qed.

Lemma annihilates_fiber al be : annihilates al -> annihilates be -> remove_nth k al = remove_nth k be -> al = be.
Proof.
  intros [Hla Ha] [Hlb Hb] Hr.
  assert (Hu : upd_nth al k zero = upd_nth be k zero).
  { rewrite !upd_nth_split by lia. unfold remove_nth in Hr.
    assert (Hl : length (firstn k al) = length (firstn k be)) by (rewrite !firstn_length; lia).
    destruct (app_eq_length _ _ _ _ Hl Hr) as [E1 E2]. rewrite E1, E2. reflexivity. }
  apply (remove_nth_determines al be k zero); try lia; [exact Hr|].
  rewrite (dot_split al D k) in Ha by lia. rewrite (dot_split be D k) in Hb by lia. rewrite Hu in Ha.
  assert (E : (nth k al zero -f nth k be zero) *f nth k D zero = zero).
  { transitivity ((dot (upd_nth be k zero) D +f nth k al zero *f nth k D zero) -f
                  (dot (upd_nth be k zero) D +f nth k be zero *f nth k D zero)); [ring|]. rewrite Ha, Hb. ring. }
  apply (fmul_integral O L) in E. destruct E as [E|E]; [|contradiction].
  now apply (fsub_eq_zero O L).
Qed.

Theorem annihilates_count (elems : list F) : (forall x, In x elems) ->
  forall goods : list (list F), NoDup goods -> (forall al, In al goods -> annihilates al) ->
  length goods <= length elems ^ (length D - 1).
Proof.
  intros Hall goods Hnd Hg. rewrite <- (all_vecs_length elems), <- (map_length (remove_nth k) goods).
  apply NoDup_incl_length.
  - apply NoDup_map_inj_in; [|exact Hnd]. intros a b Ha Hb E. apply annihilates_fiber; auto.
  - intros v Hv. apply in_map_iff in Hv. destruct Hv as [al [<- Hal]].
    destruct (Hg al Hal) as [Hl _].
    rewrite <- Hl, <- (remove_nth_length k al) by lia. apply (all_vecs_complete elems Hall).
Qed.
End Hyperplane.

(* the binding consequence at one query position: if the two assignments differ in some column (in the sense that the
   column's delta at this position is non-zero), the coefficient vectors for which both give the same DEEP value form
   such a hyperplane *)
Theorem deep_ood_binding C P ax zg row ar x cur' next' acur' anext' (c : TraceCol) :
  p_aux P = Some ax ->
  length (p_ood_cur P) = length row -> length (p_ood_next P) = length row ->
  length cur' = length row -> length next' = length row ->
  length (ax_cur ax) = length ar -> length (ax_next ax) = length ar ->
  length acur' = length ar -> length anext' = length ar ->
  x -f c_z C <> zero -> x -f zg <> zero ->
  let Dm := ood_delta x (c_z C) zg (p_ood_cur P) cur' (p_ood_next P) next' in
  let Da := ood_delta x (c_z C) zg (ax_cur ax) acur' (ax_next ax) anext' in
  let m := length row + length ar in
  let same cc := length cc = m /\
                 deep_trace_at O (with_deep_cc C cc) P zg row (Some ar) x =
                 deep_trace_at O (with_deep_cc C cc) (with_ood P cur' next' acur' anext') zg row (Some ar) x in
  col_in_range (length row) (length ar) c -> col_value Dm Da c <> zero ->
  ~ same (unit_vec m (deep_coeff_index (length row) c)) /\
  (forall al be, same al -> same be ->
     remove_nth (deep_coeff_index (length row) c) al = remove_nth (deep_coeff_index (length row) c) be -> al = be) /\
  (forall elems : list F, (forall y, In y elems) ->
   forall goods : list (list F), NoDup goods -> (forall cc, In cc goods -> same cc) -> length goods <= length elems ^ (m - 1)).
Proof.
  intros Hax H1 H2 H3 H4 H5 H6 H7 H8 Hz Hzg Dm Da m same Hc Hne.
  assert (HlDm : length Dm = length row) by (unfold Dm; rewrite ood_delta_length; lia).
  assert (HlDa : length Da = length ar) by (unfold Da; rewrite ood_delta_length; lia).
  assert (HlD : length (Dm ++ Da) = m) by (rewrite app_length; unfold m; lia).
  set (kk := deep_coeff_index (length row) c).
  assert (Hkk : kk < length (Dm ++ Da)).
  { rewrite HlD. unfold kk, m. destruct c as [i|j]; cbn in *; unfold deep_coeff_index_aux; lia. }
  assert (HD : nth kk (Dm ++ Da) zero <> zero).
  { unfold kk. rewrite (delta_at_index Dm Da (length row) c HlDm); [exact Hne|now rewrite HlDa]. }
  assert (Hsame : forall cc, same cc <-> annihilates (Dm ++ Da) cc).
  { intros cc. unfold same, annihilates. rewrite HlD.
    pose proof (deep_ood_difference_linear (with_deep_cc C cc) P ax zg row ar x cur' next' acur' anext'
                  Hax H1 H2 H3 H4 H5 H6 H7 H8 Hz Hzg) as Hlin.
    cbn [with_deep_cc cc_deep_trace c_z] in Hlin. fold Dm Da in Hlin.
    split; intros [Hl E]; (split; [exact Hl|]).
    - rewrite <- Hlin, E. ring.
    - apply (fsub_eq_zero O L). rewrite Hlin. exact E. }
  split; [|split].
  - intros Hs. apply Hsame in Hs. rewrite <- HlD in Hs.
    exact (proj2 (proj2 (annihilates_subspace (Dm ++ Da) kk Hkk HD)) Hs).
  - intros al be Ha Hb Hr. apply (annihilates_fiber (Dm ++ Da) kk Hkk HD); [now apply Hsame|now apply Hsame|exact Hr].
  - intros elems Hall goods Hnd Hg. rewrite <- HlD.
    apply (annihilates_count (Dm ++ Da) kk Hkk HD elems Hall goods Hnd). intros al Hal. now apply Hsame, Hg.
Qed.

(* ---------------------------------------------------------------- (3) the aliased map binds only sums *)
Definition deep_trace_at_aliased : Coins -> ProofObj -> F -> list F -> option (list F) -> F -> F :=
  deep_trace_at_gen O aliased_index_aux.

(* opposite errors e in the OPENED values of main column 0 and auxiliary column 0: the same value, whatever the coin
   outputs (in particular the coefficient vector), the out-of-domain frame and the point *)
Lemma aliased_opened_collision C P ax zg x a a2 b b2 v u e :
  p_aux P = Some ax -> p_ood_cur P = [a] -> p_ood_next P = [a2] -> ax_cur ax = [b] -> ax_next ax = [b2] ->
  deep_trace_at_aliased C P zg [v +f e] (Some [u -f e]) x = deep_trace_at_aliased C P zg [v] (Some [u]) x.
Proof.
  intros Hax H1 H2 H3 H4. unfold deep_trace_at_aliased, deep_trace_at_gen, aliased_index_aux.
  rewrite Hax, H1, H2, H3, H4. cbn [col_terms]. ring.
Qed.

(* opposite errors in the claimed OUT-OF-DOMAIN values (e in the current row, e2 in the next row) *)
Lemma aliased_ood_collision C P ax zg x a a2 b b2 v u e e2 :
  p_aux P = Some ax ->
  deep_trace_at_aliased C (with_ood P [a +f e] [a2 +f e2] [b -f e] [b2 -f e2]) zg [v] (Some [u]) x =
  deep_trace_at_aliased C (with_ood P [a] [a2] [b] [b2]) zg [v] (Some [u]) x.
Proof.
  intros Hax. unfold deep_trace_at_aliased, deep_trace_at_gen, aliased_index_aux, with_ood.
  cbn [p_aux p_ood_cur p_ood_next]. rewrite Hax. cbn [ax_cur ax_next col_terms]. ring.
Qed.

Lemma one_plus_neq : zero +f one <> zero.
Proof. intros H. apply (fl_one_neq_zero O L). rewrite <- H. ring. Qed.

(* REFUTED for the aliased map: "two different assignments are separated by some coefficient vector".  Witness: main
   width 1, auxiliary width 1; opened values (1, 0) against (0, 1), resp. out-of-domain values (a+1, b-1) against
   (a, b): equal DEEP trace values for ALL coin outputs, frames and points *)
Theorem deep_binding_aliased_refuted :
  (exists row row' ar ar' : list F, row <> row' /\ ar <> ar' /\
     forall C P ax zg x a a2 b b2,
       p_aux P = Some ax -> p_ood_cur P = [a] -> p_ood_next P = [a2] -> ax_cur ax = [b] -> ax_next ax = [b2] ->
       deep_trace_at_aliased C P zg row (Some ar) x = deep_trace_at_aliased C P zg row' (Some ar') x) /\
  (exists d : F, d <> zero /\
     forall C P ax zg x a a2 b b2 v u, p_aux P = Some ax ->
       [a +f d] <> [a] /\
       deep_trace_at_aliased C (with_ood P [a +f d] [a2] [b -f d] [b2]) zg [v] (Some [u]) x =
       deep_trace_at_aliased C (with_ood P [a] [a2] [b] [b2]) zg [v] (Some [u]) x).
Proof.
  split.
  - exists [zero +f one], [zero], [one -f one], [one]. split; [|split].
    + intros H. injection H as H. exact (one_plus_neq H).
    + intros H. injection H as H. apply (fl_one_neq_zero O L). rewrite <- H. ring.
    + intros C P ax zg x a a2 b b2 Hax H1 H2 H3 H4.
      exact (aliased_opened_collision C P ax zg x a a2 b b2 zero one one Hax H1 H2 H3 H4).
  - exists one. split; [apply (fl_one_neq_zero O L)|].
    intros C P ax zg x a a2 b b2 v u Hax. split.
    + intros H. injection H as H. apply (fl_one_neq_zero O L).
      transitivity ((a +f one) -f a); [ring|]. rewrite H. ring.
    + pose proof (aliased_ood_collision C P ax zg x a a2 b b2 v u one zero Hax) as E.
      replace (a2 +f zero) with a2 in E by ring. replace (b2 -f zero) with b2 in E by ring. exact E.
Qed.
End Deep.

(* ------------------------------------------------------------------ instances over the 64-bit field *)
Section Instances.
Local Notation O := F64_ops.
Local Notation L := F64_laws.
Local Notation Fe := (Zp P64).
Definition e6 (v : nat) : Fe := fofz O (Z.of_nat v).
Ltac zp_eq := apply zp_val_inj; vm_compute; reflexivity.
Ltac zp_neq := let H := fresh in intro H; apply (f_equal (@zp_val P64)) in H; vm_compute in H; discriminate.

(* one main and one auxiliary column; coefficients (1, 0): the first belongs to the main column, the second to the
   auxiliary column *)
Definition coins_d : @Coins Fe := mkCoins [] [] [] (e6 5) [e6 1; e6 0] [] [] None.
Definition proof_d : @ProofObj Fe :=
  mkProof 7 [] [e6 3] [e6 4] [] [] [] (Some (mkAuxOpen [e6 8] [e6 9] [])) None.

(* the witnesses of deep_binding_aliased_refuted ARE separated by the real index map (aux 0 |-> 1) ... *)
Example real_map_separates :
  deep_trace_at O coins_d proof_d (e6 7) [fadd O (fzero O) (fone O)] (Some [fsub O (fone O) (fone O)]) (e6 10) <>
  deep_trace_at O coins_d proof_d (e6 7) [fzero O] (Some [fone O]) (e6 10).
Proof. zp_neq. Qed.
(* ... and not by the aliased one, for these coins as for all others *)
Example aliased_map_does_not :
  deep_trace_at_aliased O coins_d proof_d (e6 7) [fadd O (fzero O) (fone O)] (Some [fsub O (fone O) (fone O)]) (e6 10) =
  deep_trace_at_aliased O coins_d proof_d (e6 7) [fzero O] (Some [fone O]) (e6 10).
Proof. zp_eq. Qed.

(* the hypotheses of deep_ood_binding are satisfiable: out-of-domain values (3,4 | 8,9) against (4,4 | 8,9) differ in
   main column 0 (index 0); the coefficient vector (0,1) gives both the same DEEP value, the unit vector (1,0) does not *)
Example deep_ood_binding_instance :
  let P := proof_d in let C := coins_d in let zg := e6 7 in let x := e6 10 in
  p_aux P = Some (mkAuxOpen [e6 8] [e6 9] []) /\
  fsub O x (c_z C) <> fzero O /\ fsub O x zg <> fzero O /\
  col_value O (ood_delta O x (c_z C) zg [e6 3] [e6 4] [e6 4] [e6 4]) (ood_delta O x (c_z C) zg [e6 8] [e6 8] [e6 9] [e6 9])
            (MainCol 0) <> fzero O /\
  deep_trace_at O (with_deep_cc C [e6 0; e6 1]) P zg [e6 1] (Some [e6 2]) x =
  deep_trace_at O (with_deep_cc C [e6 0; e6 1]) (with_ood P [e6 4] [e6 4] [e6 8] [e6 9]) zg [e6 1] (Some [e6 2]) x /\
  deep_trace_at O (with_deep_cc C [e6 1; e6 0]) P zg [e6 1] (Some [e6 2]) x <>
  deep_trace_at O (with_deep_cc C [e6 1; e6 0]) (with_ood P [e6 4] [e6 4] [e6 8] [e6 9]) zg [e6 1] (Some [e6 2]) x.
Proof.
  cbv zeta. split; [reflexivity|]. split; [zp_neq|]. split; [zp_neq|]. split; [zp_neq|]. split; [zp_eq|zp_neq].
Qed.
End Instances.
