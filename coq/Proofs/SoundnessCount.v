(* C02 — cardinality form of the ALI counting lemma: over a finite field enumerated by [elems], if some p_j is not
   divisible by d then at most |F|^(k-1) of the |F|^k coefficient vectors make sum_i alpha_i p_i divisible by d. *)
From Coq Require Import List Arith Bool Lia Ring Field.
From VBase Require Import FieldOps.
From VModel Require Import Soundness.
From VProofs Require Import SoundnessPoly SoundnessEnforce SoundnessBoundary SoundnessVerifier.
Import ListNotations.

Section Count.
Context {F : Type} (O : FOps F) (L : FLaws O).
Local Notation zero := (fzero O).
Local Notation one := (fone O).
Local Infix "+f" := (fadd O) (at level 50, left associativity).
Local Infix "*f" := (fmul O) (at level 40, left associativity).
Add Ring Fr5 : (FLaws_ring_theory O L).
Local Notation coeff := (coeff O).
Local Notation padd := (padd O).
Local Notation pscale := (pscale O).
Local Notation lincomb := (lincomb O).
Local Notation peqv := (peqv O).
Local Notation pdivides := (pdivides O).

Definition remove_nth {A} (j : nat) (l : list A) : list A := firstn j l ++ skipn (S j) l.

Lemma remove_nth_length {A} j (l : list A) : j < length l -> length (remove_nth j l) = length l - 1.
Proof. intros H. unfold remove_nth. rewrite app_length, firstn_length, skipn_length. lia. Qed.

Lemma upd_nth_split {A} (l : list A) j v : j < length l -> upd_nth l j v = firstn j l ++ v :: skipn (S j) l.
Proof.
  revert j; induction l as [|x l IH]; intros [|j] H; cbn in *; try lia; [reflexivity|].
  f_equal. apply IH. lia.
Qed.

Lemma nth_split_eq {A} (l : list A) j d : j < length l -> l = firstn j l ++ nth j l d :: skipn (S j) l.
Proof.
  revert j; induction l as [|x l IH]; intros [|j] H; cbn in *; try lia; [reflexivity|].
  f_equal. apply IH. lia.
Qed.

Lemma app_eq_length {A} (a1 a2 b1 b2 : list A) : length a1 = length b1 -> a1 ++ a2 = b1 ++ b2 -> a1 = b1 /\ a2 = b2.
Proof.
  revert b1; induction a1 as [|x a1 IH]; intros [|y b1] Hl E; cbn in *; try lia; [now split|].
  injection E as -> E. destruct (IH b1 ltac:(lia) E) as [-> ->]. now split.
Qed.

Lemma remove_nth_determines {A} (a b : list A) j d : j < length a -> j < length b ->
  remove_nth j a = remove_nth j b -> nth j a d = nth j b d -> a = b.
Proof.
  intros Ha Hb Hr Hn. unfold remove_nth in Hr.
  assert (Hl : length (firstn j a) = length (firstn j b)) by (rewrite !firstn_length; lia).
  destruct (app_eq_length _ _ _ _ Hl Hr) as [E1 E2].
  rewrite (nth_split_eq a j d Ha), (nth_split_eq b j d Hb), E1, E2, Hn. reflexivity.
Qed.

(* the combination splits into the part without coordinate j and alpha_j * p_j *)
Lemma lincomb_split (al : list F) (ps : list (list F)) j : length al = length ps -> j < length ps ->
  peqv (lincomb al ps) (padd (lincomb (upd_nth al j zero) ps) (pscale (nth j al zero) (nth j ps []))).
Proof.
  revert ps j; induction al as [|a al IH]; intros [|p ps] j Hl Hj; cbn in Hl, Hj; try lia.
  destruct j as [|j]; cbn [upd_nth nth Soundness.lincomb]; intros i.
  - rewrite !(coeff_padd O L), !(coeff_pscale O L). ring.
  - rewrite !(coeff_padd O L), (IH ps j ltac:(lia) ltac:(lia) i), !(coeff_padd O L). ring.
Qed.

Variable d : list F.
Variable ps : list (list F).
Variable j : nat.
Hypothesis Hj : j < length ps.
Hypothesis Hbad : ~ pdivides d (nth j ps []).

Definition good (al : list F) : Prop := length al = length ps /\ pdivides d (lincomb al ps).

(* two good vectors that agree outside coordinate j are equal *)
Lemma good_fiber al be : good al -> good be -> remove_nth j al = remove_nth j be -> al = be.
Proof.
  intros [Hla Ha] [Hlb Hb] Hr.
  assert (Hu : upd_nth al j zero = upd_nth be j zero).
  { rewrite !upd_nth_split by lia. unfold remove_nth in Hr.
    assert (Hl : length (firstn j al) = length (firstn j be)) by (rewrite !firstn_length; lia).
    destruct (app_eq_length _ _ _ _ Hl Hr) as [E1 E2]. rewrite E1, E2. reflexivity. }
  apply (remove_nth_determines al be j zero); try lia; [exact Hr|].
  apply (ali_fiber_unique O L d (lincomb (upd_nth al j zero) ps) (nth j ps [])); [exact Hbad| |].
  - apply (pdivides_peqv O (lincomb al ps)); [apply lincomb_split; lia|exact Ha].
  - rewrite Hu. apply (pdivides_peqv O (lincomb be ps)); [apply lincomb_split; lia|exact Hb].
Qed.

(* all vectors of length m over an enumeration of the field *)
Variable elems : list F.
Hypothesis Hall : forall x, In x elems.

Fixpoint all_vecs (m : nat) : list (list F) :=
  match m with
  | 0 => [[]]
  | S m' => map (fun xv => fst xv :: snd xv) (list_prod elems (all_vecs m'))
  end.

Lemma all_vecs_length m : length (all_vecs m) = length elems ^ m.
Proof. induction m as [|m IH]; cbn [all_vecs Nat.pow]; [reflexivity|]. now rewrite map_length, prod_length, IH. Qed.

Lemma all_vecs_complete v : In v (all_vecs (length v)).
Proof.
  induction v as [|x v IH]; cbn [length all_vecs]; [now left|].
  apply in_map_iff. exists (x, v). split; [reflexivity|]. apply in_prod; [apply Hall|exact IH].
Qed.

Theorem ali_counting (goods : list (list F)) :
  NoDup goods -> (forall al, In al goods -> good al) -> length goods <= length elems ^ (length ps - 1).
Proof.
  intros Hnd Hg. rewrite <- all_vecs_length, <- (map_length (remove_nth j) goods).
  apply NoDup_incl_length.
  - apply NoDup_map_inj_in; [|exact Hnd]. intros a b Ha Hb E. apply good_fiber; auto.
  - intros v Hv. apply in_map_iff in Hv. destruct Hv as [al [<- Hal]].
    destruct (Hg al Hal) as [Hl _].
    rewrite <- Hl, <- (remove_nth_length j al) by lia. apply all_vecs_complete.
Qed.

End Count.
