(* C16, field level, part 3: the value polynomial of a boundary constraint (BoundaryConstraint::new /
   evaluate_at in Model/Enforce.v) reproduces the asserted values at the named steps.  stdlib style. *)
From Coq Require Import ZArith List Bool Lia Ring Field Arith.
From VBase Require Import MachInt FieldOps.
From VModel Require Import Enforce.
From VProofs Require Import EnforceSteps EnforceField EnforceDivisor.
Import ListNotations.
Open Scope Z_scope.

(* ------------------------------------------------------------------ inverse DFT interpolates *)
Section Dft.
  Context {F : Type} (Fo : FOps F) (L : FLaws Fo).
  Add Field Ffield4 : (FLaws_field_theory Fo L).
  Notation pn := (pown Fo).
  Notation "0" := (fzero Fo) : F_scope.
  Notation "1" := (fone Fo) : F_scope.
  Infix "+" := (fadd Fo) : F_scope.
  Infix "*" := (fmul Fo) : F_scope.
  Infix "-" := (fsub Fo) : F_scope.
  Local Open Scope F_scope.

  Fixpoint fsum (f : nat -> F) (m : nat) : F :=
    match m with Datatypes.O => 0 | S m' => fsum f m' + f m' end.

  Lemma fsum_ext f h m : (forall i, (i < m)%nat -> f i = h i) -> fsum f m = fsum h m.
  Proof.
    induction m; intros H; cbn [fsum]; [reflexivity|].
    rewrite IHm by (intros; apply H; lia). rewrite H by lia. reflexivity.
  Qed.

  Lemma fsum_add f h m : fsum (fun i => f i + h i) m = fsum f m + fsum h m.
  Proof. induction m; cbn [fsum]; [ring|rewrite IHm; ring]. Qed.

  Lemma fsum_scale c f m : fsum (fun i => c * f i) m = c * fsum f m.
  Proof. induction m; cbn [fsum]; [ring|rewrite IHm; ring]. Qed.

  Lemma fsum_zero m : fsum (fun _ => 0) m = 0.
  Proof. induction m; cbn [fsum]; [reflexivity|rewrite IHm; ring]. Qed.

  Lemma fsum_swap (f : nat -> nat -> F) a b :
    fsum (fun i => fsum (fun k => f i k) b) a = fsum (fun k => fsum (fun i => f i k) a) b.
  Proof.
    induction a; cbn [fsum].
    - rewrite fsum_zero. reflexivity.
    - rewrite IHa, <- fsum_add. reflexivity.
  Qed.

  Lemma fsum_shift f m : fsum f (S m) = f 0%nat + fsum (fun i => f (S i)) m.
  Proof.
    induction m; [cbn [fsum]; ring|].
    change (fsum f (S (S m))) with (fsum f (S m) + f (S m)). rewrite IHm. cbn [fsum]. ring.
  Qed.

  (* sum with a single non-zero term *)
  Lemma fsum_delta (f : nat -> F) j m : (j < m)%nat -> (forall i, (i < m)%nat -> i <> j -> f i = 0) ->
    fsum f m = f j.
  Proof.
    induction m; intros Hj H; [lia|]. cbn [fsum].
    destruct (Nat.eq_dec j m) as [->|Hne].
    - rewrite (fsum_ext f (fun _ => 0)) by (intros; apply H; lia). rewrite fsum_zero. ring.
    - rewrite IHm by (try lia; intros; apply H; lia). rewrite (H m) by lia. ring.
  Qed.

  (* Horner = sum of monomials *)
  Lemma poly_eval_sum p y : poly_eval Fo p y = fsum (fun k => nth k p 0 * pn y k) (length p).
  Proof.
    induction p as [|c r IH]; [reflexivity|].
    change (poly_eval Fo (c :: r) y) with (c + poly_eval Fo r y * y).
    cbn [length]. rewrite fsum_shift, IH. cbn [nth pown].
    assert (E : forall A B, A = B -> c + A = c * 1 + B) by (intros ? ? ->; ring). apply E.
    rewrite (fl_mul_comm Fo L), <- fsum_scale. apply fsum_ext. intros i _. ring.
  Qed.

  (* geometric sums *)
  Lemma geom_telescope r m : (r - 1) * fsum (pn r) m = pn r m - 1.
  Proof. induction m; cbn [fsum pown]; [ring|]. transitivity ((r - 1) * fsum (pn r) m + (r - 1) * pn r m); [ring|]. rewrite IHm. ring. Qed.

  Fixpoint fnat (k : nat) : F := match k with Datatypes.O => 0 | S k' => fnat k' + 1 end.

  Lemma geom_one m : fsum (pn 1) m = fnat m.
  Proof. induction m; cbn [fsum fnat]; [reflexivity|]. rewrite IHm, (pown_1_l Fo L). reflexivity. Qed.

  Lemma geom_zero r m : pn r m = 1 -> r <> 1 -> fsum (pn r) m = 0.
  Proof.
    intros Hm Hr. pose proof (geom_telescope r m) as T. rewrite Hm in T.
    replace (1 - 1) with 0 in T by ring.
    destruct (fmul_eq_0 Fo L _ _ T) as [E|E]; [|exact E].
    exfalso. apply Hr. apply (fsub_eq_0 Fo L). exact E.
  Qed.

  Lemma fnat_mul a b : fnat (a * b) = fnat a * fnat b.
  Proof.
    induction a; cbn [fnat Nat.mul]; [ring|].
    assert (A : forall x y, fnat (x + y) = fnat x + fnat y).
    { intros x y. induction x; cbn [fnat Nat.add]; [ring|rewrite IHx; ring]. }
    rewrite A, IHa. ring.
  Qed.

  Lemma fnat_pow2_neq_0 k : 1 + 1 <> 0 -> fnat (2 ^ k) <> 0.
  Proof.
    intros H2. induction k; [cbn; intros E; apply (fl_one_neq_zero Fo L); rewrite <- E; ring|].
    rewrite Nat.pow_succ_r', fnat_mul. apply (fmul_neq_0 Fo L); [|exact IHk].
    cbn [fnat]. intros E. apply H2. rewrite <- E. ring.
  Qed.

  (* w of exact order m, winv its inverse: the inverse DFT of vals interpolates vals over <w> *)
  Variables (w winv minv : F) (m : nat).
  Hypothesis Hm0 : (0 < m)%nat.
  Hypothesis Hwm : pn w m = 1.
  Hypothesis Hword : forall i, (0 < i < m)%nat -> pn w i <> 1.
  Hypothesis Hwinv : w * winv = 1.
  Hypothesis Hminv : minv * fnat m = 1.

  Lemma winv_pow i : pn w i * pn winv i = 1.
  Proof. rewrite <- (pown_mul_base Fo L), Hwinv. apply (pown_1_l Fo L). Qed.

  Lemma ratio_pow_m i j : pn (pn winv i * pn w j) m = 1.
  Proof.
    rewrite (pown_mul_base Fo L), <- !(pown_mul Fo L), (Nat.mul_comm i m), (Nat.mul_comm j m), !(pown_mul Fo L).
    rewrite Hwm, (pown_1_l Fo L).
    assert (E : pn winv m = 1).
    { pose proof (winv_pow m) as W. rewrite Hwm in W. rewrite <- W. ring. }
    rewrite E, (pown_1_l Fo L). ring.
  Qed.

  Lemma ratio_eq_1 i j : (i < m)%nat -> (j < m)%nat -> pn winv i * pn w j = 1 -> i = j.
  Proof.
    intros Hi Hj E. apply (pown_g_inj Fo L w m Hm0 Hwm Hword); try assumption.
    transitivity (pn w i * (pn winv i * pn w j)); [rewrite E; ring|].
    transitivity ((pn w i * pn winv i) * pn w j); [ring|]. rewrite winv_pow. ring.
  Qed.

  Theorem idft_interpolates (vals : list F) j : length vals = m -> (j < m)%nat ->
    fsum (fun k => (minv * fsum (fun i => nth i vals 0 * pn (pn winv k) i) m) * pn (pn w j) k) m = nth j vals 0.
  Proof.
    intros Hlen Hj.
    rewrite (fsum_ext _ (fun k => minv * fsum (fun i => nth i vals 0 * pn (pn winv i * pn w j) k) m)).
    2:{ intros k _. rewrite <- (fl_mul_assoc Fo L), (fl_mul_comm Fo L _ (pn (pn w j) k)), <- fsum_scale.
        f_equal. apply fsum_ext. intros i _.
        rewrite (pown_mul_base Fo L), <- !(pown_mul Fo L), (Nat.mul_comm k i), (Nat.mul_comm j k). ring. }
    rewrite fsum_scale, fsum_swap.
    rewrite (fsum_ext _ (fun i => nth i vals 0 * fsum (pn (pn winv i * pn w j)) m))
      by (intros i _; apply fsum_scale).
    rewrite (fsum_delta _ j m Hj).
    - replace (pn winv j * pn w j) with 1 by (rewrite (fl_mul_comm Fo L), winv_pow; reflexivity).
      rewrite geom_one. transitivity (nth j vals 0 * (minv * fnat m)); [ring|]. rewrite Hminv. ring.
    - intros i Hi Hne. rewrite geom_zero; [ring|apply ratio_pow_m|].
      intros E. apply Hne. apply (ratio_eq_1 i j Hi Hj E).
  Qed.
End Dft.

Section Values.
  Context {F : Type} (Fo : FOps F) (L : FLaws Fo).
  Variables (g inv_g : F) (n : Z).
  Hypothesis Hpow2 : exists k, 0 <= k /\ n = 2 ^ k.
  Hypothesis Hgn : fpow Fo g n = fone Fo.
  Hypothesis Hord : forall i, 0 < i < n -> fpow Fo g i <> fone Fo.
  Hypothesis Hinv : fmul Fo g inv_g = fone Fo.        (* inv_g = context.trace_domain_generator.inv() *)

  Add Field Ffield3 : (FLaws_field_theory Fo L).
  Notation pw := (fpow Fo).
  Notation pn := (pown Fo).

  Lemma pw_add x a b : 0 <= a -> 0 <= b -> pw x (a + b) = fmul Fo (pw x a) (pw x b).
  Proof. intros. rewrite !(fpow_spec Fo L), Z2Nat.inj_add by lia. apply (pown_add Fo L). Qed.

  Lemma pw_pw' x a b : 0 <= a -> 0 <= b -> pw (pw x a) b = pw x (a * b).
  Proof.
    intros Ha Hb. rewrite !(fpow_spec Fo L), Z2Nat.inj_mul by lia. symmetry. apply (pown_mul Fo L).
  Qed.

  Lemma pw_mul_base x y a : pw (fmul Fo x y) a = fmul Fo (pw x a) (pw y a).
  Proof. rewrite !(fpow_spec Fo L). apply (pown_mul_base Fo L). Qed.

  Lemma g_inv_pow a : fmul Fo (pw g a) (pw inv_g a) = fone Fo.
  Proof. rewrite <- pw_mul_base, Hinv, (fpow_spec Fo L). apply (pown_1_l Fo L). Qed.

  (* single and periodic assertions: the value polynomial is the constant *)
  Theorem constant_value_spec a v x tv :
    bc_evaluate_at Fo (bc_new Fo a [v] inv_g) x tv = fsub Fo tv v.
  Proof. reflexivity. Qed.

  Lemma bc_evaluate_long c x tv : (2 <= length (bc_poly c))%nat ->
    bc_evaluate_at Fo c x tv = fsub Fo tv (poly_eval Fo (bc_poly c) (fmul Fo x (bc_off c))).
  Proof.
    unfold bc_evaluate_at. destruct (bc_poly c) as [|a [|b r]]; cbn [length]; intros; try lia; reflexivity.
  Qed.

  Lemma idft_length winv minv vals : length (idft Fo winv minv vals) = length vals.
  Proof. unfold idft. rewrite map_length, zrange_length. lia. Qed.

  (* sequence assertions: value j is reproduced at the j-th named step, GIVEN that the coefficient list
     computed by the model's inverse DFT interpolates the values over the subgroup generated by w = g^stride *)
  Theorem assertion_value_spec_partial a vals j tv :
    valid a n -> is_sequence a = true -> Z.of_nat (length vals) = a_nvals a -> 0 <= j < a_nvals a ->
    (forall i, 0 <= i < a_nvals a ->
       poly_eval Fo (idft Fo (pw inv_g (a_stride a)) (finv Fo (fofz Fo (a_nvals a))) vals) (pw (pw g (a_stride a)) i)
       = nth (Z.to_nat i) vals (fzero Fo)) ->
    In (a_first a + j * a_stride a) (steps a n) /\
    bc_evaluate_at Fo (bc_new Fo a vals inv_g) (pw g (a_first a + j * a_stride a)) tv
    = fsub Fo tv (nth (Z.to_nat j) vals (fzero Fo)).
  Proof.
    intros Hv Hseq Hlen Hj Hint.
    destruct (valid_cases a n Hv) as (_ & [(S & _ & E1 & _)|(S & P & Ls & Hf & m & Hm & En & [(Pe & Ev & _)|(Pe & Ev & Lm)])]).
    { unfold is_sequence in Hseq. rewrite E1 in Hseq. discriminate. }
    { unfold is_sequence in Hseq. rewrite Ev in Hseq. discriminate. }
    split.
    { apply (steps_spec a n _ Hv). unfold names. rewrite S, Pe. exists j. split; [lia|ring]. }
    assert (Hp : bc_poly (bc_new Fo a vals inv_g)
                 = idft Fo (pw inv_g (a_stride a)) (finv Fo (fofz Fo (a_nvals a))) vals).
    { unfold bc_new. cbn [bc_poly]. rewrite Hlen.
      replace (1 <? a_nvals a) with true by (symmetry; apply Z.ltb_lt; lia). reflexivity. }
    rewrite bc_evaluate_long by (rewrite Hp, idft_length; lia).
    rewrite Hp. unfold bc_new at 1. cbn [bc_off]. rewrite Hlen. f_equal.
    assert (Hx : fmul Fo (pw g (a_first a + j * a_stride a)) (snd (bc_poly_offset Fo a (a_nvals a) inv_g))
                 = pw (pw g (a_stride a)) j).
    { rewrite pw_add by (try lia; apply Z.mul_nonneg_nonneg; lia). rewrite (Z.mul_comm j). rewrite <- (pw_pw' g (a_stride a) j) by lia.
      unfold bc_poly_offset. replace (1 <? a_nvals a) with true by (symmetry; apply Z.ltb_lt; lia). cbn [andb].
      destruct (Z.eqb_spec (a_first a) 0) as [E0|E0]; cbn [negb snd].
      - rewrite E0. cbn [fpow]. ring.
      - pose proof (g_inv_pow (a_first a)) as Hgi.
        transitivity (fmul Fo (fmul Fo (pw g (a_first a)) (pw inv_g (a_first a))) (pw (pw g (a_stride a)) j)); [ring|].
        rewrite Hgi. ring. }
    rewrite Hx. apply Hint. exact Hj.
  Qed.

  (* ---------------------------------------------------------------- the full statement *)
  (* fofz (Self::new / `(len as u64).into()`) is the canonical image of the naturals: not part of FLaws *)
  Hypothesis Hofz : forall k : nat, fofz Fo (Z.of_nat k) = fnat Fo k.

  Lemma nth_map_zrange (h : Z -> F) hi k d : (k < Z.to_nat hi)%nat ->
    nth k (map h (zrange 0 hi)) d = h (Z.of_nat k).
  Proof.
    intros Hk. unfold zrange. rewrite map_map, Z.sub_0_r.
    rewrite (nth_indep _ d (h (0 + Z.of_nat 0))) by (rewrite map_length, seq_length; exact Hk).
    rewrite (map_nth (fun i => h (0 + Z.of_nat i))), seq_nth by exact Hk. reflexivity.
  Qed.

  Lemma two_neq_0 : 4 <= n -> fadd Fo (fone Fo) (fone Fo) <> fzero Fo.
  Proof.
    intros Hn4 H2. destruct Hpow2 as (k & Hk & En).
    assert (Hk1 : 1 <= k).
    { destruct (Z.eq_dec k 0) as [->|]; [cbn in En; lia|lia]. }
    assert (Eh : n = 2 ^ (k - 1) + 2 ^ (k - 1)).
    { rewrite En. replace k with (1 + (k - 1)) at 1 by lia. rewrite Z.pow_add_r by lia. lia. }
    assert (Hp : 0 < 2 ^ (k - 1)) by (apply Z.pow_pos_nonneg; lia).
    set (h := pw g (2 ^ (k - 1))).
    assert (Hh1 : h <> fone Fo) by (apply Hord; lia).
    assert (Hhh : fmul Fo h h = fone Fo).
    { unfold h. rewrite <- pw_add by lia. rewrite <- Eh. exact Hgn. }
    pose proof (sq_eq_1 Fo L h Hhh Hh1) as Hm1.
    apply Hh1. rewrite Hm1.
    transitivity (fadd Fo (fneg Fo (fone Fo)) (fadd Fo (fone Fo) (fone Fo))); [rewrite H2; ring|ring].
  Qed.

  Theorem assertion_value_spec a vals j tv :
    valid a n -> is_sequence a = true -> Z.of_nat (length vals) = a_nvals a -> 0 <= j < a_nvals a ->
    In (a_first a + j * a_stride a) (steps a n) /\
    bc_evaluate_at Fo (bc_new Fo a vals inv_g) (pw g (a_first a + j * a_stride a)) tv
    = fsub Fo tv (nth (Z.to_nat j) vals (fzero Fo)).
  Proof.
    intros Hv Hseq Hlen Hj. apply assertion_value_spec_partial; try assumption.
    destruct (valid_cases a n Hv) as (_ & [(S & _ & E1 & _)|(S & P & Ls & Hf & m & Hm & En & [(Pe & Ev & _)|(Pe & Ev & Lm)])]).
    { unfold is_sequence in Hseq. rewrite E1 in Hseq. discriminate. }
    { unfold is_sequence in Hseq. rewrite Ev in Hseq. discriminate. }
    destruct Hv as [W _]. destruct W as (_ & _ & [[Z0 _]|(_ & _ & _ & Pv)]); [lia|].
    intros i Hi.
    set (M := length vals). assert (HM : Z.of_nat M = a_nvals a) by exact Hlen.
    set (w := pw g (a_stride a)). set (winv := pw inv_g (a_stride a)).
    set (minv := finv Fo (fofz Fo (a_nvals a))).
    assert (Hwm : pn w M = fone Fo).
    { unfold w. rewrite <- (fpow_of_nat Fo L), pw_pw' by lia. rewrite HM, Ev, Z.mul_comm, <- En. exact Hgn. }
    assert (Hword : forall q, (0 < q < M)%nat -> pn w q <> fone Fo).
    { intros q Hq. unfold w. rewrite <- (fpow_of_nat Fo L), pw_pw' by lia. apply Hord. nia. }
    assert (Hwinv : fmul Fo w winv = fone Fo) by apply g_inv_pow.
    assert (Hminv : fmul Fo minv (fnat Fo M) = fone Fo).
    { unfold minv. rewrite <- HM, Hofz. apply (fl_inv_l Fo L).
      destruct Pv as (e & He & Ee).
      assert (EM : M = (2 ^ Z.to_nat e)%nat).
      { apply Nat2Z.inj. rewrite HM, Ee. rewrite Nat2Z.inj_pow, Z2Nat.id by lia. reflexivity. }
      rewrite EM. apply (fnat_pow2_neq_0 Fo L). apply two_neq_0. nia. }
    rewrite (poly_eval_sum Fo L), idft_length. fold M.
    rewrite (fsum_ext Fo _ (fun k => fmul Fo (fmul Fo minv (fsum Fo (fun q => fmul Fo (nth q vals (fzero Fo)) (pn (pn winv k) q)) M))
                                          (pn (pn w (Z.to_nat i)) k))).
    - apply (idft_interpolates Fo L w winv minv M); try assumption; try reflexivity; lia.
    - intros k Hk. unfold idft. fold M. rewrite nth_map_zrange by lia.
      rewrite (poly_eval_sum Fo L). fold M. fold winv. fold minv. rewrite (fpow_of_nat Fo L).
      f_equal. unfold w. rewrite (fpow_spec Fo L (pw g (a_stride a)) i). reflexivity.
  Qed.
End Values.
