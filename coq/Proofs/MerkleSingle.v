(* C10 — tree construction, single-path completeness, binding and totality. *)
From Coq Require Import ZArith List Bool Lia.
From VBase Require Import MachInt.
From VModel Require Import Merkle.
From VProofs Require Import MerkleBase.
Import ListNotations.
Open Scope Z_scope.

Section Single.
Variable D : Type.
Variable D_eqb : D -> D -> bool.
Hypothesis D_eqb_spec : forall a b, D_eqb a b = true <-> a = b.
Variable d0 : D.
Variable merge : D -> D -> D.

Notation mtree := (mtree D).
Notation mt_new := (mt_new D d0 merge).
Notation mt_prove := (mt_prove D).
Notation mt_root := (mt_root D).
Notation verify := (verify D D_eqb merge).
Notation verify_fold := (verify_fold D merge).
Notation prove_up := (prove_up D).
Notation pairs_merge := (pairs_merge D merge).
Notation build_down := (build_down D d0 merge).

Definition znth (l : list D) (i : Z) : D := nth (Z.to_nat i) l d0.

Lemma znth_cons a l i : 0 < i -> znth (a :: l) i = znth l (i - 1).
Proof. intros. unfold znth. replace (Z.to_nat i) with (S (Z.to_nat (i - 1))) by lia. reflexivity. Qed.

Lemma znth_0 a l : znth (a :: l) 0 = a.
Proof. reflexivity. Qed.

Lemma idx_znth (l : list D) i : 0 <= i < zlen l -> idx l i = Ok (znth l i).
Proof. intros. apply idx_Ok. assumption. Qed.

(* value of the node with heap index k: internal nodes 1..N-1, leaves N..2N-1 *)
Definition hval (t : mtree) (k : Z) : D :=
  if k <? zlen (mt_nodes t) then znth (mt_nodes t) k else znth (mt_leaves t) (k - zlen (mt_nodes t)).

Record wf_tree (d : nat) (t : mtree) : Prop := {
  wf_d : (1 <= d)%nat;
  wf_leaves : zlen (mt_leaves t) = 2 ^ Z.of_nat d;
  wf_nodes : zlen (mt_nodes t) = 2 ^ Z.of_nat d;
  wf_merge : forall k, 1 <= k < 2 ^ Z.of_nat d -> hval t k = merge (hval t (2 * k)) (hval t (2 * k + 1)) }.

(* ---------------------------------------------------------------- build_merkle_nodes *)
Lemma pairs_merge_length : forall l, (length (pairs_merge l) = Nat.div2 (length l))%nat.
Proof.
  fix IH 1. intros [|a [|b r]]; try reflexivity. simpl. f_equal. apply IH.
Qed.

Lemma pairs_merge_nth : forall l j, (2 * j + 1 < length l)%nat ->
  nth j (pairs_merge l) d0 = merge (nth (2 * j) l d0) (nth (2 * j + 1) l d0).
Proof.
  fix IH 1. intros [|a [|b r]] j H; simpl in H; try lia.
  destruct j as [|j]; [reflexivity|].
  replace (2 * S j)%nat with (S (S (2 * j))) by lia.
  replace (S (S (2 * j)) + 1)%nat with (S (S (2 * j + 1))) by lia.
  cbn [pairs_merge nth]. apply IH. lia.
Qed.

Section Build.
Variable leaves : list D.
Variable N : Z.

Definition Hv (i : Z) (acc : list D) (m : Z) : D :=
  if m <? N then znth acc (m - i - 1) else znth leaves (m - N).

Definition G (i : Z) (acc : list D) : Prop :=
  zlen acc = N - 1 - i /\
  forall j, i < j < N -> znth acc (j - i - 1) = merge (Hv i acc (2 * j)) (Hv i acc (2 * j + 1)).

Lemma build_down_inv : forall k i acc,
  Z.of_nat k = i -> 2 * i + 1 < N -> G i acc -> G 0 (build_down k i acc).
Proof.
  induction k as [|k IH]; intros i acc Hk Hi HG.
  - simpl. subst i. exact HG.
  - cbn [Merkle.build_down]. apply IH; [lia|lia|].
    destruct HG as [HL HJ]. assert (1 <= i) by lia.
    set (x := merge _ _).
    assert (HH : forall m, i < m -> Hv (i - 1) (x :: acc) m = Hv i acc m).
    { intros m Hm. unfold Hv. destruct (m <? N); [|reflexivity].
      rewrite znth_cons by lia. f_equal. lia. }
    split.
    + rewrite zlen_cons. lia.
    + intros j Hj. destruct (Z.eq_dec j i) as [->|Hne].
      * replace (i - (i - 1) - 1) with 0 by lia. rewrite znth_0.
        rewrite !HH by lia. unfold Hv.
        destruct (Z.ltb_spec (2 * i) N); [|lia]. destruct (Z.ltb_spec (2 * i + 1) N); [|lia].
        subst x. unfold znth. do 2 f_equal; f_equal; lia.
      * rewrite znth_cons by lia. replace (j - (i - 1) - 1 - 1) with (j - i - 1) by lia.
        rewrite !HH by lia. apply HJ. lia.
Qed.
End Build.

Lemma div2_double n : Nat.div2 (2 * n) = n.
Proof. induction n as [|n IH]; [reflexivity|]. replace (2 * S n)%nat with (S (S (2 * n))) by lia. simpl Nat.div2. f_equal. exact IH. Qed.

Theorem build_nodes_spec : forall leaves t,
  mt_new leaves = Ok t ->
  mt_leaves t = leaves /\ exists d, wf_tree d t.
Proof.
  intros leaves t. unfold Merkle.mt_new.
  destruct (Z.ltb_spec (zlen leaves) 2) as [|Hlen]; [discriminate|].
  destruct (is_pow2 (zlen leaves)) eqn:Hp; [|discriminate]. cbn [negb].
  unfold Merkle.build_nodes. set (N := zlen leaves) in *. set (n := N / 2).
  unfold is_pow2 in Hp. apply andb_prop in Hp. destruct Hp as [_ Hp]. apply Z.eqb_eq in Hp.
  set (dz := Z.log2 N) in *.
  assert (Hdz : 1 <= dz) by (apply Z.log2_le_pow2; lia).
  assert (HN : N = 2 * 2 ^ (dz - 1)).
  { rewrite Hp at 1. replace dz with (Z.succ (dz - 1)) at 1 by lia. rewrite Z.pow_succ_r by lia. reflexivity. }
  assert (Hn : n = 2 ^ (dz - 1)).
  { unfold n. rewrite HN. rewrite Z.mul_comm, Z.div_mul by lia. reflexivity. }
  assert (Hnpos : 0 < n) by (rewrite Hn; apply pow2_pos; lia).
  assert (HN2 : N = 2 * n) by lia.
  destruct (Z.leb_spec (2 * n) 0); [lia|].
  cbn [bind]. intros [= <-]. cbn [mt_leaves mt_nodes]. split; [reflexivity|].
  exists (Z.to_nat dz).
  assert (Hlen2 : length leaves = (2 * Z.to_nat n)%nat) by (unfold N, zlen in HN2; lia).
  assert (HG0 : G leaves N (n - 1) (pairs_merge leaves)).
  { split.
    - unfold zlen. rewrite pairs_merge_length, Hlen2, div2_double. lia.
    - intros j Hj. unfold Hv.
      destruct (Z.ltb_spec (2 * j) N); [lia|]. destruct (Z.ltb_spec (2 * j + 1) N); [lia|].
      unfold znth. rewrite pairs_merge_nth by lia. do 2 f_equal; lia. }
  pose proof (build_down_inv leaves N (Z.to_nat (n - 1)) (n - 1) _ ltac:(lia) ltac:(lia) HG0) as [HL HJ].
  set (F := build_down _ _ _) in *.
  constructor; cbn [mt_leaves mt_nodes].
  - lia.
  - rewrite Z2Nat.id by lia. fold N. exact Hp.
  - rewrite Z2Nat.id by lia. rewrite zlen_cons. lia.
  - rewrite Z2Nat.id by lia. rewrite <- Hp. intros k Hk.
    assert (HZ : zlen (d0 :: F) = N) by (rewrite zlen_cons; lia).
    assert (HH : forall m, 1 <= m -> hval {| mt_nodes := d0 :: F; mt_leaves := leaves |} m = Hv leaves N 0 F m).
    { intros m Hm. unfold hval, Hv. cbn [mt_leaves mt_nodes]. rewrite HZ.
      destruct (m <? N); [|reflexivity]. rewrite znth_cons by lia. f_equal. lia. }
    rewrite !HH by lia. unfold Hv at 1. destruct (Z.ltb_spec k N); [|lia].
    rewrite <- HJ by lia. reflexivity.
Qed.

(* error cases of MerkleTree::new *)
Lemma mt_new_too_few leaves : zlen leaves < 2 -> mt_new leaves = Err (TooFewLeaves 2 (zlen leaves)).
Proof. intros. unfold Merkle.mt_new. destruct (Z.ltb_spec (zlen leaves) 2); [reflexivity|lia]. Qed.

Lemma mt_new_not_pow2 leaves : 2 <= zlen leaves -> is_pow2 (zlen leaves) = false ->
  mt_new leaves = Err (NumberOfLeavesNotPowerOfTwo (zlen leaves)).
Proof. intros H P. unfold Merkle.mt_new. destruct (Z.ltb_spec (zlen leaves) 2); [lia|]. rewrite P. reflexivity. Qed.

Lemma mt_new_ok leaves (d : nat) : (1 <= d)%nat -> zlen leaves = 2 ^ Z.of_nat d -> exists t, mt_new leaves = Ok t.
Proof.
  intros Hd HL. unfold Merkle.mt_new.
  assert (2 <= zlen leaves).
  { rewrite HL. change 2 with (2 ^ 1) at 1. apply pow2_le_mono. lia. }
  destruct (Z.ltb_spec (zlen leaves) 2); [lia|].
  assert (P : is_pow2 (zlen leaves) = true).
  { unfold is_pow2. rewrite HL, Z.log2_pow2 by lia. rewrite Z.eqb_refl.
    destruct (Z.ltb_spec 0 (2 ^ Z.of_nat d)); [reflexivity|]. pose proof (pow2_pos (Z.of_nat d)). lia. }
  rewrite P. cbn [negb]. unfold Merkle.build_nodes.
  assert (2 <= 2 * (zlen leaves / 2)).
  { pose proof (Z.div_mod (zlen leaves) 2). pose proof (Z.mod_pos_bound (zlen leaves) 2). lia. }
  destruct (Z.leb_spec (2 * (zlen leaves / 2)) 0); [lia|]. cbn [bind]. eauto.
Qed.

(* ---------------------------------------------------------------- single path: completeness *)
Section Tree.
Variable t : mtree.
Variable d : nat.
Hypothesis WF : wf_tree d t.
Hypothesis Hd : (d <= 62)%nat.   (* a Vec holds at most isize::MAX elements *)

Let N := 2 ^ Z.of_nat d.

Lemma N_pos : 2 <= N.
Proof. unfold N. change 2 with (2 ^ 1) at 1. apply pow2_le_mono. pose proof (wf_d _ _ WF). lia. Qed.

Lemma N_even : N mod 2 = 0.
Proof.
  unfold N. pose proof (wf_d _ _ WF). destruct d as [|d']; [lia|]. rewrite pow2_S.
  rewrite Z.mul_comm. apply Z.mod_mul. lia.
Qed.

Lemma N_small : 2 * N <= usz.
Proof.
  unfold N. rewrite usz_eq. change (2 ^ 64) with (2 * 2 ^ 63).
  assert (2 ^ Z.of_nat d <= 2 ^ 63) by (apply pow2_le_mono; lia). lia.
Qed.

Lemma hval_node k : 0 <= k < N -> hval t k = znth (mt_nodes t) k.
Proof. intros. unfold hval. rewrite (wf_nodes _ _ WF). fold N. destruct (Z.ltb_spec k N); [reflexivity|lia]. Qed.

Lemma hval_leaf k : N <= k -> hval t k = znth (mt_leaves t) (k - N).
Proof. intros. unfold hval. rewrite (wf_nodes _ _ WF). fold N. destruct (Z.ltb_spec k N); [lia|reflexivity]. Qed.

Lemma root_hval : mt_root t = Ok (hval t 1).
Proof.
  unfold Merkle.mt_root. pose proof N_pos. rewrite idx_znth by (rewrite (wf_nodes _ _ WF); fold N; lia).
  rewrite hval_node by lia. reflexivity.
Qed.

(* one climbing step *)
Lemma climb_step k : 2 <= k < 2 * N ->
  (if Z.land k 1 =? 0 then merge (hval t k) (hval t (Z.lxor k 1)) else merge (hval t (Z.lxor k 1)) (hval t k))
  = hval t (k / 2).
Proof.
  intros Hk. pose proof (Z.div_mod k 2 ltac:(lia)). pose proof (Z.mod_pos_bound k 2 ltac:(lia)).
  rewrite (wf_merge _ _ WF (k / 2)) by (fold N; lia).
  rewrite land1. destruct (mod2_cases k) as [E|E]; rewrite E.
  - cbn [Z.eqb]. rewrite lxor1_even by lia. do 2 f_equal; lia.
  - cbn [Z.eqb]. rewrite lxor1_odd by lia. do 2 f_equal; lia.
Qed.

Lemma prove_verify_up : forall (l : nat) k fuel,
  2 ^ Z.of_nat l <= k < 2 ^ (Z.of_nat l + 1) -> 2 ^ (Z.of_nat l + 1) <= N -> (l <= fuel)%nat ->
  exists ps, prove_up fuel (mt_nodes t) k = Ok ps /\ length ps = l /\
             ps = map (fun j => hval t (Z.lxor (k / 2 ^ Z.of_nat j) 1)) (seq 0 l) /\
             verify_fold ps k (hval t k) = hval t 1.
Proof.
  induction l as [|l IH]; intros k fuel Hk HN Hf.
  - change (2 ^ Z.of_nat 0) with 1 in Hk. change (2 ^ (Z.of_nat 0 + 1)) with 2 in Hk.
    assert (k = 1) by lia. subst k. exists []. split; [destruct fuel; reflexivity|]. repeat split; reflexivity.
  - rewrite Nat2Z.inj_succ in *. unfold Z.succ in *.
    assert (0 < 2 ^ Z.of_nat l) by (apply pow2_pos; lia).
    assert (Hk2 : 2 <= k).
    { rewrite Z.pow_add_r in Hk by lia. change (2 ^ 1) with 2 in Hk. lia. }
    destruct fuel as [|fuel]; [lia|]. cbn [Merkle.prove_up].
    destruct (Z.leb_spec k 1); [lia|].
    assert (HkN : k < N). { replace (Z.of_nat l + 1 + 1) with (Z.of_nat l + 2) in * by lia. lia. }
    pose proof (lxor1_nonneg k ltac:(lia)).
    assert (Z.lxor k 1 < N).
    { rewrite lxor1 by lia. destruct (mod2_cases k) as [E|E]; rewrite E; [|lia].
      pose proof N_even. pose proof (Z.div_mod k 2 ltac:(lia)). pose proof (Z.div_mod N 2 ltac:(lia)). lia. }
    rewrite idx_znth by (rewrite (wf_nodes _ _ WF); fold N; lia). cbn [bind].
    rewrite shiftr1.
    destruct (IH (k / 2) fuel) as (ps & E & L & M & V).
    { apply div2_range; [lia|]. replace (Z.of_nat l + 2) with (Z.of_nat l + 1 + 1) by lia. exact Hk. }
    { etransitivity; [|exact HN]. apply pow2_le_mono. lia. }
    { lia. }
    rewrite E. cbn [bind]. eexists. split; [reflexivity|]. split; [simpl; lia|]. split.
    + cbn [seq map]. f_equal.
      * rewrite <- hval_node by lia. change (2 ^ Z.of_nat 0) with 1. rewrite Z.div_1_r. reflexivity.
      * rewrite M. rewrite <- seq_shift, map_map. apply map_ext. intros j.
        rewrite Nat2Z.inj_succ, Z.pow_succ_r by lia. rewrite Z.div_div by lia. reflexivity.
    + cbn [Merkle.verify_fold]. rewrite shiftr1. rewrite <- hval_node by lia.
      rewrite climb_step by lia. exact V.
Qed.

Theorem single_complete_tree : forall i, 0 <= i < N ->
  exists p, mt_prove t i = Ok p /\ length p = S d /\ znth p 0 = znth (mt_leaves t) i /\
            verify (hval t 1) i p = Ok tt.
Proof.
  intros i Hi. pose proof N_pos. pose proof N_even as HNe. pose proof N_small.
  pose proof (wf_d _ _ WF) as Hd1.
  unfold Merkle.mt_prove. rewrite (wf_leaves _ _ WF), (wf_nodes _ _ WF). fold N.
  destruct (Z.leb_spec N i); [lia|].
  pose proof (lxor1_nonneg i ltac:(lia)).
  assert (Hx : Z.lxor i 1 < N).
  { rewrite lxor1 by lia. destruct (mod2_cases i) as [E|E]; rewrite E; [|lia].
    pose proof (Z.div_mod i 2 ltac:(lia)). pose proof (Z.div_mod N 2 ltac:(lia)). lia. }
  rewrite !idx_znth by (rewrite (wf_leaves _ _ WF); fold N; lia). cbn [bind].
  rewrite uadd_Ok by lia. cbn [bind]. rewrite shiftr1.
  set (d' := pred d). assert (Hdd : Z.of_nat d = Z.of_nat (S d')) by (unfold d'; lia).
  assert (HNd : N = 2 * 2 ^ Z.of_nat d') by (unfold N; rewrite Hdd; apply pow2_S).
  assert (0 < 2 ^ Z.of_nat d') by (apply pow2_pos; lia).
  destruct (prove_verify_up d' ((i + N) / 2) 64) as (ps & E & L & _ & V).
  { rewrite Z.pow_add_r by lia. change (2 ^ 1) with 2.
    pose proof (Z.div_mod (i + N) 2 ltac:(lia)). pose proof (Z.mod_pos_bound (i + N) 2 ltac:(lia)). lia. }
  { rewrite Z.pow_add_r by lia. change (2 ^ 1) with 2. lia. }
  { lia. }
  rewrite E. cbn [bind]. eexists. split; [reflexivity|]. split; [simpl; lia|]. split; [reflexivity|].
  unfold Merkle.verify. rewrite !zlen_cons.
  assert (HZ : zlen ps = Z.of_nat d') by (unfold zlen; lia). rewrite HZ.
  destruct (Z.ltb_spec (Z.of_nat d' + 1 + 1) 2); [lia|].
  replace (Z.of_nat d' + 1 + 1 - 1) with (Z.of_nat d) by lia. fold N.
  destruct (Z.leb_spec 64 (Z.of_nat d)); [lia|].
  destruct (Z.leb_spec N i); [lia|].
  rewrite uadd_Ok by lia. rewrite land1.
  assert (HL0 : znth (mt_leaves t) i = hval t (i + N)) by (rewrite hval_leaf by lia; f_equal; lia).
  assert (HL1 : znth (mt_leaves t) (Z.lxor i 1) = hval t (Z.lxor (i + N) 1)).
  { rewrite lxor1_add_even by lia. rewrite hval_leaf by lia. f_equal. lia. }
  assert (HV : hval t ((i + N) / 2) =
               if Z.land (i + N) 1 =? 0 then merge (hval t (i + N)) (hval t (Z.lxor (i + N) 1))
               else merge (hval t (Z.lxor (i + N) 1)) (hval t (i + N))).
  { symmetry. apply climb_step. lia. }
  assert (HM : (i + N) mod 2 = i mod 2).
  { pose proof (Z.div_mod N 2 ltac:(lia)). replace (i + N) with (i + (N / 2) * 2) by lia. apply Z.mod_add. lia. }
  rewrite land1, HM in HV.
  destruct (mod2_cases i) as [Ei|Ei]; rewrite Ei in *; cbn [Z.eqb Z.sub Z.opp Z.add Z.pos_sub Pos.pred_double] in *.
  - rewrite idx_cons_0. rewrite idx_cons_S by lia. cbn [Z.sub Z.add Z.opp Z.pos_sub]. rewrite idx_cons_0. cbn [bind skipn].
    rewrite shiftr1. rewrite HL0, HL1, <- HV, V.
    replace (D_eqb (hval t 1) (hval t 1)) with true by (symmetry; apply D_eqb_spec; reflexivity). reflexivity.
  - rewrite idx_cons_S by lia. cbn [Z.sub Z.add Z.opp Z.pos_sub]. rewrite !idx_cons_0. cbn [bind skipn].
    rewrite shiftr1. rewrite HL0, HL1, <- HV, V.
    replace (D_eqb (hval t 1) (hval t 1)) with true by (symmetry; apply D_eqb_spec; reflexivity). reflexivity.
Qed.

End Tree.

Theorem single_complete : forall leaves t (d : nat) i root,
  mt_new leaves = Ok t -> zlen leaves = 2 ^ Z.of_nat d -> (d <= 62)%nat -> mt_root t = Ok root ->
  0 <= i < zlen leaves ->
  exists p, mt_prove t i = Ok p /\ length p = S d /\ nth_error p 0 = nth_error leaves (Z.to_nat i) /\
            verify root i p = Ok tt.
Proof.
  intros leaves t d i root Hnew Hlen Hd Hroot Hi.
  destruct (build_nodes_spec _ _ Hnew) as [HL [d' WF]].
  assert (d' = d).
  { pose proof (wf_leaves _ _ WF) as E. rewrite HL, Hlen in E. apply Z.pow_inj_r in E; lia. }
  subst d'. rewrite (root_hval t d WF) in Hroot; try assumption. injection Hroot as <-.
  destruct (single_complete_tree t d WF Hd i) as (p & E & L & Z0 & V); [rewrite <- Hlen; exact Hi|].
  exists p. repeat split; try assumption.
  destruct p as [|a p]; [discriminate|]. cbn [nth_error]. unfold znth in Z0. cbn [Z.to_nat nth] in Z0.
  rewrite Z0, HL. symmetry. apply nth_error_nth'. unfold zlen in Hi. lia.
Qed.

(* ---------------------------------------------------------------- binding without collision resistance *)
Definition pair_eqb (x y : D * D) : bool := D_eqb (fst x) (fst y) && D_eqb (snd x) (snd y).

Lemma pair_eqb_spec x y : pair_eqb x y = true <-> x = y.
Proof.
  destruct x as [a b], y as [a' b']. unfold pair_eqb. cbn [fst snd]. rewrite andb_true_iff, !D_eqb_spec.
  split; [intros [-> ->]; reflexivity|intros [= -> ->]; auto].
Qed.

Definition is_collision (c : (D * D) * (D * D)) : Prop :=
  fst c <> snd c /\ merge (fst (fst c)) (snd (fst c)) = merge (fst (snd c)) (snd (snd c)).

(* the input pairs of all merge calls made by verify *)
Fixpoint fold_pairs (ps : list D) (index : Z) (v : D) : list (D * D) :=
  match ps with
  | [] => []
  | p :: r => let pr := if Z.land index 1 =? 0 then (v, p) else (p, v) in
              pr :: fold_pairs r (Z.shiftr index 1) (merge (fst pr) (snd pr))
  end.

Definition verify_pairs (index : Z) (proof : list D) : list (D * D) :=
  let r := Z.land index 1 in
  let a := nth (Z.to_nat r) proof d0 in
  let b := nth (Z.to_nat (1 - r)) proof d0 in
  (a, b) :: fold_pairs (skipn 2 proof) (Z.shiftr (index + 2 ^ (zlen proof - 1)) 1) (merge a b).

Fixpoint find_coll (t1 t2 : list (D * D)) : option ((D * D) * (D * D)) :=
  match t1, t2 with
  | x :: r1, y :: r2 =>
    if pair_eqb x y then find_coll r1 r2
    else if D_eqb (merge (fst x) (snd x)) (merge (fst y) (snd y)) then Some (x, y)
    else find_coll r1 r2
  | _, _ => None
  end.

(* computable collision finder for two openings of the same position *)
Definition find_collision (index : Z) (p1 p2 : list D) : option ((D * D) * (D * D)) :=
  find_coll (verify_pairs index p1) (verify_pairs index p2).

Lemma verify_fold_pairs_step p r index v :
  verify_fold (p :: r) index v =
  verify_fold r (Z.shiftr index 1)
    (merge (fst (if Z.land index 1 =? 0 then (v, p) else (p, v))) (snd (if Z.land index 1 =? 0 then (v, p) else (p, v)))).
Proof. cbn [Merkle.verify_fold]. destruct (Z.land index 1 =? 0); reflexivity. Qed.

Lemma fold_binding : forall ps ps' index v v',
  length ps = length ps' ->
  verify_fold ps index v = verify_fold ps' index v' ->
  (v <> v' \/ ps <> ps') ->
  exists c, find_coll (fold_pairs ps index v) (fold_pairs ps' index v') = Some c /\ is_collision c.
Proof.
  induction ps as [|p r IH]; intros [|p' r'] index v v' HL HV HN; try discriminate.
  - cbn in HV. destruct HN as [HN|HN]; congruence.
  - rewrite !verify_fold_pairs_step in HV. cbn [fold_pairs find_coll].
    set (x := if Z.land index 1 =? 0 then (v, p) else (p, v)) in *.
    set (y := if Z.land index 1 =? 0 then (v', p') else (p', v')) in *.
    destruct (pair_eqb x y) eqn:Exy.
    + apply pair_eqb_spec in Exy. rewrite Exy in HV. rewrite Exy. apply IH; [simpl in HL; lia|exact HV|].
      right. intros ->. subst x y.
      destruct (Z.land index 1 =? 0); injection Exy as -> ->; destruct HN as [HN|HN]; congruence.
    + destruct (D_eqb (merge (fst x) (snd x)) (merge (fst y) (snd y))) eqn:Em.
      * eexists. split; [reflexivity|]. split; cbn [fst snd].
        -- intros E. apply pair_eqb_spec in E. congruence.
        -- apply D_eqb_spec. exact Em.
      * apply IH; [simpl in HL; lia|exact HV|]. left. intros E. apply D_eqb_spec in E. congruence.
Qed.

Lemma verify_Ok_inv root index p :
  verify root index p = Ok tt ->
  2 <= zlen p /\ zlen p - 1 < 64 /\ index < 2 ^ (zlen p - 1) /\
  verify_fold (skipn 2 p) (Z.shiftr (index + 2 ^ (zlen p - 1)) 1)
    (merge (nth (Z.to_nat (Z.land index 1)) p d0) (nth (Z.to_nat (1 - Z.land index 1)) p d0)) = root.
Proof.
  unfold Merkle.verify. destruct (Z.ltb_spec (zlen p) 2); [discriminate|].
  destruct (Z.leb_spec 64 (zlen p - 1)); [discriminate|].
  destruct (Z.leb_spec (2 ^ (zlen p - 1)) index); [discriminate|].
  intros E. apply bind_Ok in E. destruct E as (a & Ea & E). apply bind_Ok in E. destruct E as (b & Eb & E).
  apply bind_Ok in E. destruct E as (s & Es & E). apply uadd_inv in Es. destruct Es as [-> _].
  apply idx_inv in Ea. apply idx_inv in Eb. destruct Ea as [_ Ea], Eb as [_ Eb].
  rewrite (nth_error_nth _ _ d0 Ea), (nth_error_nth _ _ d0 Eb).
  destruct (D_eqb _ root) eqn:Eq; [|discriminate]. apply D_eqb_spec in Eq. repeat split; try lia. exact Eq.
Qed.

Lemma skipn2_eq (p p' : list D) :
  length p = length p' -> (2 <= length p)%nat ->
  nth 0 p d0 = nth 0 p' d0 -> nth 1 p d0 = nth 1 p' d0 -> skipn 2 p = skipn 2 p' -> p = p'.
Proof.
  destruct p as [|a [|b r]]; destruct p' as [|a' [|b' r']]; simpl; intros; try lia. congruence.
Qed.

Lemma D_eq_dec : forall x y : D, {x = y} + {x <> y}.
Proof.
  intros x y. destruct (D_eqb x y) eqn:E.
  - left. apply D_eqb_spec. exact E.
  - right. intros H. apply D_eqb_spec in H. congruence.
Qed.

(* Two openings of the same shape for the same position that both verify against the same root
   are equal, or an explicit collision of merge is computed. *)
Theorem single_binding_paths : forall root index p p',
  verify root index p = Ok tt -> verify root index p' = Ok tt -> length p = length p' ->
  p = p' \/ exists c, find_collision index p p' = Some c /\ is_collision c.
Proof.
  intros root index p p' V V' HL.
  apply verify_Ok_inv in V. apply verify_Ok_inv in V'. destruct V as (L2 & _ & _ & V), V' as (_ & _ & _ & V').
  assert (HZ : zlen p = zlen p') by (unfold zlen; lia).
  rewrite <- HZ in V'. unfold find_collision, verify_pairs. rewrite <- HZ.
  assert (Hr : Z.land index 1 = 0 \/ Z.land index 1 = 1) by (rewrite land1; apply mod2_cases).
  set (r := Z.land index 1) in *.
  set (a := nth (Z.to_nat r) p d0) in *. set (b := nth (Z.to_nat (1 - r)) p d0) in *.
  set (a' := nth (Z.to_nat r) p' d0) in *. set (b' := nth (Z.to_nat (1 - r)) p' d0) in *.
  cbn [find_coll].
  assert (HL2 : length (skipn 2 p) = length (skipn 2 p')) by (rewrite !skipn_length; lia).
  destruct (pair_eqb (a, b) (a', b')) eqn:E0.
  - apply pair_eqb_spec in E0. injection E0 as Ea Eb.
    destruct (list_eq_dec D_eq_dec (skipn 2 p) (skipn 2 p')) as [Es|Es].
    + left. apply skipn2_eq; try assumption; [unfold zlen in L2; lia| |].
      * subst a b a' b'. destruct Hr as [Hr|Hr]; rewrite Hr in *; cbn in Ea, Eb; assumption.
      * subst a b a' b'. destruct Hr as [Hr|Hr]; rewrite Hr in *; cbn in Ea, Eb; assumption.
    + right. rewrite <- Ea, <- Eb. apply fold_binding; [assumption| |right; assumption].
      rewrite V. rewrite Ea, Eb. symmetry. exact V'.
  - right. cbn [fst snd].
    destruct (D_eqb (merge a b) (merge a' b')) eqn:Em.
    + eexists. split; [reflexivity|]. split; cbn [fst snd].
      * intros E. apply pair_eqb_spec in E. congruence.
      * apply D_eqb_spec. exact Em.
    + apply fold_binding; [assumption|congruence|]. left. intros E. apply D_eqb_spec in E. congruence.
Qed.

(* Binding to the tree: an opening of the tree's depth that verifies against the tree's root is the
   honest path (in particular it claims the committed leaf), or a collision is computed from it. *)
Theorem single_binding_tree : forall t (d : nat) i p,
  wf_tree d t -> (d <= 62)%nat ->
  verify (hval t 1) i p = Ok tt -> length p = S d -> 0 <= i ->
  exists hp, mt_prove t i = Ok hp /\
    (p = hp \/ exists c, find_collision i p hp = Some c /\ is_collision c).
Proof.
  intros t d i p WF Hd V HL Hi.
  pose proof (verify_Ok_inv _ _ _ V) as (_ & _ & Hr & _).
  replace (zlen p - 1) with (Z.of_nat d) in Hr by (unfold zlen; lia).
  destruct (single_complete_tree t d WF Hd i ltac:(lia)) as (hp & E & L & _ & V').
  exists hp. split; [exact E|]. apply (single_binding_paths _ _ _ _ V V'). lia.
Qed.

(* ---------------------------------------------------------------- totality *)
Theorem verify_total : forall root index p, verify root index p <> Panic.
Proof.
  intros root index p. unfold Merkle.verify.
  destruct (Z.ltb_spec (zlen p) 2); [discriminate|].
  destruct (Z.leb_spec 64 (zlen p - 1)); [discriminate|].
  destruct (Z.leb_spec (2 ^ (zlen p - 1)) index); [discriminate|].
  assert (Hr : Z.land index 1 = 0 \/ Z.land index 1 = 1) by (rewrite land1; apply mod2_cases).
  assert (2 ^ (zlen p - 1) <= 2 ^ 63) by (apply pow2_le_mono; lia).
  apply bind_not_Panic; [apply idx_not_Panic; lia|]. intros a _.
  apply bind_not_Panic; [apply idx_not_Panic; lia|]. intros b _.
  rewrite uadd_Ok by (rewrite usz_eq; change (2 ^ 64) with (2 * 2 ^ 63); lia). cbn [bind].
  destruct (D_eqb _ _); discriminate.
Qed.

Theorem verify_short : forall root index p, zlen p < 2 -> verify root index p = Err InvalidProof.
Proof. intros. unfold Merkle.verify. destruct (Z.ltb_spec (zlen p) 2); [reflexivity|lia]. Qed.

Theorem verify_long : forall root index p, 65 <= zlen p -> verify root index p = Err InvalidProof.
Proof.
  intros. unfold Merkle.verify. destruct (Z.ltb_spec (zlen p) 2); [reflexivity|].
  destruct (Z.leb_spec 64 (zlen p - 1)); [reflexivity|lia].
Qed.

Theorem verify_out_of_range : forall root index p, 2 <= zlen p <= 64 -> 2 ^ (zlen p - 1) <= index ->
  verify root index p = Err (LeafIndexOutOfBounds (2 ^ (zlen p - 1)) index).
Proof.
  intros. unfold Merkle.verify. destruct (Z.ltb_spec (zlen p) 2); [lia|].
  destruct (Z.leb_spec 64 (zlen p - 1)); [lia|].
  destruct (Z.leb_spec (2 ^ (zlen p - 1)) index); [reflexivity|lia].
Qed.

(* verify accepts exactly when the recomputed value equals the root *)
Theorem verify_Ok_iff : forall root index p,
  verify root index p = Ok tt <->
  2 <= zlen p <= 64 /\ index < 2 ^ (zlen p - 1) /\
  verify_fold (skipn 2 p) (Z.shiftr (index + 2 ^ (zlen p - 1)) 1)
    (merge (nth (Z.to_nat (Z.land index 1)) p d0) (nth (Z.to_nat (1 - Z.land index 1)) p d0)) = root.
Proof.
  intros root index p. split.
  - intros V. apply verify_Ok_inv in V. intuition lia.
  - intros (HL & Hi & HV). unfold Merkle.verify.
    destruct (Z.ltb_spec (zlen p) 2); [lia|].
    destruct (Z.leb_spec 64 (zlen p - 1)); [lia|].
    destruct (Z.leb_spec (2 ^ (zlen p - 1)) index); [lia|].
    assert (Hr : Z.land index 1 = 0 \/ Z.land index 1 = 1) by (rewrite land1; apply mod2_cases).
    assert (2 ^ (zlen p - 1) <= 2 ^ 63) by (apply pow2_le_mono; lia).
    rewrite (idx_Ok _ _ d0) by lia. rewrite (idx_Ok _ _ d0) by lia. cbn [bind].
    rewrite uadd_Ok by (rewrite usz_eq; change (2 ^ 64) with (2 * 2 ^ 63); lia). cbn [bind].
    rewrite HV. replace (D_eqb root root) with true by (symmetry; apply D_eqb_spec; reflexivity). reflexivity.
Qed.

End Single.
