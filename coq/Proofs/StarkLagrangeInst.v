(* C01 — round "Lagrange in the model", part 3: the stage premises of stark_complete_lagrange_partial discharged exactly as
   Proofs/StarkInst.v / StarkFri.v do for the capstone without Lagrange column:
     merkle_complete   <- C10 (merkle_complete_inst)          interp_complete, coset_off_domain <- C09 (interp_complete_inst, ..)
     fri_complete      <- C15 (fri_complete_inst)              cV = cP <- C04 (transcript_agree_inst)
     interp_pts_spec   <- C20_interpolate_spec: the model's interp_pts is polynom::interpolate(xs, ys, true) of Model/Polynom.v
                          (remove_leading_zeros included: it shortens the list and does not change the evaluation).
   Other workers' files are only imported.  stdlib style. *)
From Coq Require Import List Arith Bool ZArith Lia.
From VBase Require Import FieldOps.
From VModel Require Import Stark StarkLagrange.
From VModel Require FFT Merkle Transcript Enforce EnforceLagrange Fri Polynom.
From VProofs Require Import StarkPoly StarkDeep StarkComplete StarkInst StarkFri StarkLagrange.
From VProofs Require FFTSpec FFTOffset PolyBase PolyArith.
From VProps Require C20.
Import ListNotations.

Section InterpPts.
Context {F : Type} (O : FOps F) (L : FLaws O).
Variable dbg : bool.
(* interp_pts_c20 (Model/StarkLagrange.v) = polynom::interpolate(&xs, ood_frame, true) as the composers call it *)
Local Notation interp_pts_c20 := (interp_pts_c20 O dbg).

Lemma polybase_peval_eq : forall p x, PolyBase.peval O p x = peval O p x.
Proof. induction p as [|c t IH]; intros x; [reflexivity|]. cbn [PolyBase.peval peval]. now rewrite IH. Qed.

Theorem interp_pts_c20_spec : forall xs ys, NoDup xs -> length ys = length xs ->
  length (interp_pts_c20 xs ys) <= length xs /\
  forall m, m < length xs -> peval O (interp_pts_c20 xs ys) (nth m xs (fzero O)) = nth m ys (fzero O).
Proof.
  intros xs ys Hnd Hl.
  destruct (C20.C20_interpolate_spec O L dbg xs ys Hnd Hl) as (p & _ & Hpl & Ht & Hev).
  unfold interp_pts_c20. rewrite Ht.
  destruct (PolyArith.remove_leading_zeros_spec O L p) as (Hsplit & _ & Hsame). cbv zeta in Hsplit, Hsame.
  split.
  - rewrite <- Hpl. rewrite Hsplit at 2. rewrite app_length. lia.
  - intros m Hm. rewrite <- polybase_peval_eq, Hsame. apply Hev. exact Hm.
Qed.
End InterpPts.

(* ================================================================================================ all stages instantiated *)
Section FinalLag.
Context {F : Type} (O : FOps F) (L : FLaws O).
Local Notation zero := (fzero O).
Local Notation one := (fone O).
Local Notation "a *f b" := (fmul O a b) (at level 40, left associativity).

Variable D : Type.
Variable D_eqb : D -> D -> bool.
Hypothesis D_eqb_spec : forall a b, D_eqb a b = true <-> a = b.
Variables (d0 : D) (merge : D -> D -> D) (hash_elements : list F -> D).
Variable rou : nat -> F.
Variable K : nat.
Hypothesis K_pos : 1 <= K.
Hypothesis rou_sq : forall k, k < K -> rou (S k) *f rou (S k) = rou k.
Hypothesis rou_1 : rou 1 = fneg O one.
Hypothesis two_nz : fadd O one one <> zero.
Variable gen_offset : F.
Hypothesis offset_nz : gen_offset <> zero.
Variable CS : Type.
Variable cs_reseed : CS -> D -> CS.
Variable cs_draw : CS -> CS * Fri.draw_res F.
Hypothesis draw_total : forall c, exists c' a, cs_draw c = (c', Fri.DrawOk a).
Variable coin0 : CS.
Variable sem : list (Transcript.chal * Transcript.cval) -> @Coin F.
Variables f b remmax a k : nat.
Hypothesis f_pos : 1 <= f.
Hypothesis f_supported : Fri.supported_folding (2 ^ f) = true.
Hypothesis Hlayers : Fri.num_fri_layers (Fri.mkOpts (2 ^ b) (2 ^ f) remmax) (2 ^ a) = Some k.
Hypothesis Hkf : k * f < a.
Hypothesis Hb : b <= a - k * f.
Hypothesis HaK : a <= K.
Hypothesis Ha62 : a <= 62.
Variables (two_adicity : nat) (itw : list F) (kc : nat).
Hypothesis Hta : S kc <= two_adicity.
Hypothesis Hroot : FFTSpec.root_cond O (S kc) (rou (S kc)).
Hypothesis Hget : FFT.get_inv_twiddles O two_adicity rou (2 ^ S kc) = Some itw.
Hypothesis Hn_inv : FFTSpec.two_pow_f O (S kc) *f FFTOffset.n_inv O (S kc) = one.
Variable dbg_fri dbg_interp : bool.
Variable air_eval : F -> list F -> list F -> F.
Variables (cols ce_b : nat) (g : F).

Local Notation v := (a - b).
Local Notation n := (2 ^ (a - b)).
Local Notation lde := (lde_of O rou gen_offset a).
Local Notation MT := (Merkle.mtree D).
Local Notation MN := (list (list D)).
Local Notation FriP := (FriProof D MN).
Local Notation fprove := (fri_prove O rou K gen_offset D hash_elements MT MN (mt_new' D d0 merge) (mt_root' D d0)
                                   (mt_prove_batch' D d0) CS cs_reseed cs_draw f b remmax a coin0).
Local Notation fverify := (fri_verify O rou K gen_offset dbg_fri D D_eqb hash_elements MN (mt_verify_batch' D D_eqb merge)
                                      CS cs_reseed cs_draw f b remmax a coin0).
Local Notation ipts := (interp_pts_c20 O dbg_interp).
Local Notation prove_lag' := (prove_lag O ipts D (Opening D) FriP (commit O D d0 merge hash_elements lde)
                                 (open_prove O D d0 merge hash_elements lde) fprove air_eval
                                 (interp_ce O two_adicity itw kc (rou (S kc)) gen_offset)).
Local Notation verify_lag' := (verify_lag O ipts D (Opening D) FriP (open_ok O D D_eqb merge hash_elements lde) fverify air_eval).

(* stark_complete_lagrange: NO stage premise.  The trace length is n = 2^(a-b) (LDE 2^a, blowup 2^b), v = a - b. *)
Theorem stark_complete_lagrange (dbg : bool) (s : Transcript.shape) (lc : @LagC F) (lcc : F)
    (Ts : list (list F)) (Lp : list F) (Qc : list F) :
  let cP := coin_prover sem s in
  let cV := coin_verifier sem s in
  primitive_root O g n -> fpow O gen_offset (2 ^ S kc) <> one ->
  2 <= v -> v < 64 -> 1 <= cols -> 2 ^ S kc = n * ce_b -> cols <= ce_b ->
  Ts <> [] -> Forall (fun p => length p = n) Ts -> length Lp = n ->
  (* valid ordinary part: the combined (divided) constraint evaluation is a polynomial that fits the composition columns *)
  length Qc <= n * cols ->
  (forall x, ~ In x (domain O g n) -> air_eval x (evals O Ts x) (evals O Ts (x *f g)) = peval O Qc x) ->
  (* the Lagrange constraints as LagrangeKernelTransitionConstraints::new builds them (C16_lagrange_count) *)
  length (EnforceLagrange.l_coef (lc_t lc)) = v -> length (lc_rr lc) = v -> length (EnforceLagrange.l_div (lc_t lc)) = v ->
  (forall idx, idx < v ->
     nth idx (EnforceLagrange.l_div (lc_t lc)) (Enforce.mkD [] []) = Enforce.mkD [((2 ^ Z.of_nat idx)%Z, one)] []) ->
  (* the kernel column is the honest one for the random elements lc_rr the GKR step handed to both sides *)
  (forall i, i < n -> peval O Lp (fpow O g i) = nth i (kernel_col O (lc_rr lc) v) zero) ->
  (* assumptions on the drawn values *)
  ~ In (c_z cP) (domain O g n) -> c_z cP <> zero -> c_z cP *f g <> zero ->
  incl (c_xs cP) lde -> NoDup (c_xs cP) -> c_xs cP <> [] -> length (c_xs cP) <= 255 ->
  (forall x, In x (c_xs cP) -> ~ In x (lag_pts O g (c_z cP) v)) ->
  exists pf, prove_lag' (mkParams n g cols false dbg) v lc cP lcc Ts Lp = Done pf /\
             verify_lag' (mkParams n g cols false dbg) v lc cV lcc pf = VAccept.
Proof.
  intros cP cV Hg Hoce Hv Hv64 Hcols Hsz Hcb HTs HTl HLl HQcl HQc Hcl Hrl Hdl Hds Hhon Hz Hz0 Hzg0 Hxs Hnd Hne H255 Hxz.
  assert (Ha1 : 1 <= a <= 62) by lia.
  destruct (C09.C09_get_inv_twiddles F O L two_adicity rou kc (rou (S kc)) Hta eq_refl Hroot) as (itw' & Hg' & Hitw & Htw & Hinv).
  rewrite Hget in Hg'. injection Hg' as <-. set (winv := FFT.fpow O (rou (S kc)) (2 ^ S kc - 1)) in *.
  assert (Hce : n * cols <= 2 ^ S kc) by (rewrite Hsz; apply Nat.mul_le_mono_l; exact Hcb).
  assert (Hgce : fpow O g (2 ^ S kc) = one).
  { rewrite Hsz, Nat.mul_comm, (fpow_mul O L). destruct Hg as [Hgn _]. rewrite Hgn. apply (fpow_one O L). }
  assert (Hn2 : 2 <= n) by (pose proof (succ_lt_pow2 v Hv); lia).
  apply (stark_complete_lagrange_partial O L D (Opening D) FriP
           (commit O D d0 merge hash_elements lde) (open_prove O D d0 merge hash_elements lde) (open_ok O D D_eqb merge hash_elements lde)
           fprove fverify air_eval (interp_ce O two_adicity itw kc (rou (S kc)) gen_offset) ipts
           n cols (ce_size kc) v g (ce_coset O kc (rou (S kc)) gen_offset) lde) with (Qc := Qc); try assumption; try reflexivity.
  - apply (merkle_complete_inst O L D D_eqb D_eqb_spec d0 merge hash_elements lde a Ha1 (lde_of_length O rou gen_offset a)).
  - intros d xs Hd _ Hin Hxne Hx255.
    apply (fri_complete_inst O L rou K K_pos rou_sq rou_1 two_nz gen_offset offset_nz dbg_fri D D_eqb D_eqb_spec hash_elements
             MT MN (mt_new' D d0 merge) (mt_root' D d0) (mt_prove_batch' D d0) (mt_verify_batch' D D_eqb merge) CS cs_reseed cs_draw
             (merkle_new_ok' D d0 merge) (merkle_batch_complete' D D_eqb D_eqb_spec d0 merge) draw_total
             f b remmax f_pos f_supported a k coin0 Hlayers Hkf Hb HaK Ha62); assumption.
  - apply (interp_pts_c20_spec O L dbg_interp).
  - apply (interp_complete_inst O L two_adicity itw kc (rou (S kc)) winv gen_offset Hitw Hta Hroot Hinv Htw offset_nz Hn_inv).
  - apply (coset_off_domain_inst O L two_adicity itw kc (rou (S kc)) gen_offset Hitw Hta Hroot g n Hgce Hoce).
  - apply transcript_agree_inst.
Qed.
End FinalLag.
