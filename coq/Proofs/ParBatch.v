(* C14 — the batch arithmetic of the `concurrent` code paths: for EVERY thread count T (power of two or not) and every
   length n the batches handed to rayon partition [0, n) exactly, and the batched utilities of math/src/utils/mod.rs and
   math/src/fft/concurrent.rs compute what the serial loop computes.  stdlib style, no axioms. *)
From Coq Require Import List Arith Bool Lia PeanoNat Permutation Ring Field ZArith.
From VBase Require Import FieldOps.
From VModel Require Import FFT Par.
From VProofs Require Import ParCommute.
Import ListNotations.

(* ================================================================ (1) next_power_of_two *)
Lemma pow2_pos k : 1 <= 2 ^ k.
Proof. assert (H : 2 ^ k <> 0) by (apply Nat.pow_nonzero; discriminate). lia. Qed.

Lemma npo2_ge T : T <= npo2 T.
Proof.
  unfold npo2. destruct T as [|[|T]].
  - apply Nat.le_0_l.
  - apply pow2_pos.
  - apply Nat.log2_up_spec. lia.
Qed.

Lemma npo2_pos T : 1 <= npo2 T.
Proof. unfold npo2. apply pow2_pos. Qed.

Lemma npo2_least T m : T <= 2 ^ m -> npo2 T <= 2 ^ m.
Proof.
  intros H. unfold npo2. destruct T as [|T].
  - change (Nat.log2_up 0) with 0. apply Nat.pow_le_mono_r; [discriminate|lia].
  - apply Nat.pow_le_mono_r; [discriminate|]. apply Nat.log2_up_le_pow2; [lia|exact H].
Qed.

Lemma npo2_le_64 T : T <= 64 -> npo2 T <= 64.
Proof. intros H. change 64 with (2 ^ 6). apply npo2_least. exact H. Qed.

Example npo2_values : map npo2 [0;1;2;3;5;6;7;8;12;16;24;33;64] = [1;1;2;4;8;8;8;8;16;16;32;64;64].
Proof. vm_compute. reflexivity. Qed.

(* ================================================================ (2) chunk partitions *)
Fixpoint consecutive (off : nat) (cs : list (nat * nat)) : Prop :=
  match cs with [] => True | c :: t => fst c = off /\ consecutive (off + snd c) t end.
Definition covers (n : nat) (cs : list (nat * nat)) : Prop := consecutive 0 cs /\ list_sum (map snd cs) = n.

Lemma lsum_cons a l : list_sum (a :: l) = a + list_sum l.
Proof. reflexivity. Qed.

Lemma skipn_add {A} a b (l : list A) : skipn (a + b) l = skipn b (skipn a l).
Proof.
  revert l; induction a as [|a IH]; intros l; [reflexivity|].
  destruct l as [|x l]; cbn [Nat.add skipn]; [rewrite skipn_nil; reflexivity|apply IH].
Qed.

Lemma consecutive_slices {A} (l : list A) cs : forall off, consecutive off cs ->
  off + list_sum (map snd cs) = length l -> flat_map (slice l) cs = skipn off l.
Proof.
  induction cs as [|[o len] cs IH]; intros off Hc Hs.
  - cbn in *. rewrite skipn_all2 by lia. reflexivity.
  - cbn [consecutive fst snd] in Hc. destruct Hc as [-> Hc]. cbn [map snd] in Hs. rewrite lsum_cons in Hs.
    cbn [flat_map]. unfold slice at 1. cbn [fst snd].
    rewrite (IH (off + len) Hc) by lia. rewrite skipn_add. apply firstn_skipn.
Qed.

Lemma covers_slices {A} n cs (l : list A) : covers n cs -> length l = n -> flat_map (slice l) cs = l.
Proof.
  intros [Hc Hs] Hl. rewrite (consecutive_slices l cs 0 Hc) by (cbn; lia). reflexivity.
Qed.

Lemma div_ceil_small n bs : 1 <= n -> n <= bs -> (n + bs - 1) / bs = 1.
Proof. intros H1 H2. symmetry. apply Nat.div_unique with (r := n - 1); lia. Qed.

Lemma div_ceil_step n bs : 1 <= bs -> bs <= n -> (n + bs - 1) / bs = S ((n - bs + bs - 1) / bs).
Proof.
  intros H1 H2. replace (n + bs - 1) with ((n - bs + bs - 1) + 1 * bs) by lia.
  rewrite Nat.div_add by lia. lia.
Qed.

(* the generalised statement about the fuelled loop *)
Lemma chunks_from_spec bs : 1 <= bs -> forall fuel off n, n <= fuel ->
  let cs := chunks_from fuel off n bs in
  consecutive off cs /\ list_sum (map snd cs) = n /\
  Forall (fun c => 1 <= snd c <= bs) cs /\
  (forall k c, nth_error cs k = Some c -> fst c = off + k * bs) /\
  length cs = (n + bs - 1) / bs.
Proof.
  intros Hbs.
  assert (Hnil : forall off, consecutive off [] /\ list_sum (map snd (@nil (nat * nat))) = 0 /\
            Forall (fun c : nat * nat => 1 <= snd c <= bs) [] /\
            (forall k (c : nat * nat), nth_error [] k = Some c -> fst c = off + k * bs) /\
            @length (nat * nat) [] = (0 + bs - 1) / bs).
  { intros off. split; [exact I|]. split; [reflexivity|]. split; [constructor|]. split.
    - intros [|k] c E; discriminate.
    - rewrite Nat.div_small by lia. reflexivity. }
  induction fuel as [|f IH]; intros off n Hn; cbv zeta.
  - assert (n = 0) by lia. subst n. cbn [chunks_from]. apply Hnil.
  - cbn [chunks_from]. destruct (Nat.eqb_spec n 0) as [->|Hn0]; [apply Hnil|].
    destruct (Nat.leb_spec n bs) as [Hle|Hgt].
    + cbn [consecutive map length fst snd]. rewrite lsum_cons. cbn [list_sum fold_right].
      split; [auto|]. split; [lia|]. split; [|split].
      * constructor; [cbn [snd]; lia|constructor].
      * intros [|[|k]] c E; cbn in E; try discriminate. inversion E; subst c. cbn [fst]. lia.
      * rewrite div_ceil_small by lia. reflexivity.
    + specialize (IH (off + bs) (n - bs)). cbv zeta in IH.
      destruct IH as (C & Sm & B & O & Len); [lia|].
      cbn [consecutive map length fst snd]. rewrite lsum_cons.
      split; [auto|]. split; [lia|]. split; [|split].
      * constructor; [cbn [snd]; lia|exact B].
      * intros [|k] c E; cbn [nth_error] in E.
        -- inversion E; subst c. cbn [fst]. lia.
        -- rewrite (O k c E). lia.
      * rewrite Len. rewrite (div_ceil_step n bs) by lia. reflexivity.
Qed.

Theorem par_chunks_spec n bs : 1 <= bs -> exists cs, par_chunks n bs = Done cs /\ covers n cs /\
  Forall (fun c => 1 <= snd c <= bs) cs /\ (forall k c, nth_error cs k = Some c -> fst c = k * bs) /\
  length cs = (n + bs - 1) / bs.
Proof.
  intros Hbs. unfold par_chunks. destruct (Nat.eqb_spec bs 0) as [->|_]; [lia|].
  exists (chunks_from n 0 n bs). split; [reflexivity|].
  destruct (chunks_from_spec bs Hbs n 0 n (le_n n)) as (C & Sm & B & O & Len).
  repeat split; auto.
Qed.

Lemma par_chunks_zero n : par_chunks n 0 = Panic.
Proof. reflexivity. Qed.

(* when the chunk size divides the length: exactly m chunks of bs elements, chunk k at offset k * bs *)
Lemma map_seq_S {A} (f : nat -> A) m : map f (seq 0 (S m)) = f 0 :: map (fun k => f (S k)) (seq 0 m).
Proof. cbn [seq map]. rewrite <- seq_shift, map_map. reflexivity. Qed.

Lemma chunks_from_exact bs : 1 <= bs -> forall m fuel off, m * bs <= fuel ->
  chunks_from fuel off (m * bs) bs = map (fun k => (off + k * bs, bs)) (seq 0 m).
Proof.
  intros Hbs. induction m as [|m IH]; intros fuel off Hf.
  - destruct fuel; reflexivity.
  - destruct fuel as [|f]; [cbn in Hf; lia|].
    cbn [chunks_from]. destruct (Nat.eqb_spec (S m * bs) 0) as [E|_]; [cbn in E; lia|].
    rewrite map_seq_S.
    destruct m as [|m].
    + replace (1 * bs) with bs by lia. rewrite Nat.leb_refl. cbn [seq map]. repeat f_equal. lia.
    + destruct (Nat.leb_spec (S (S m) * bs) bs) as [Hle|_]; [cbn in Hle; lia|].
      replace (S (S m) * bs - bs) with (S m * bs) by lia.
      rewrite IH by (cbn in Hf |- *; lia).
      f_equal; [f_equal; lia|]. apply map_ext. intros k. f_equal. lia.
Qed.

Lemma par_chunks_exact m bs : 1 <= bs -> par_chunks (m * bs) bs = Done (map (fun k => (k * bs, bs)) (seq 0 m)).
Proof.
  intros Hbs. unfold par_chunks. destruct (Nat.eqb_spec bs 0) as [->|_]; [lia|].
  rewrite chunks_from_exact by lia. reflexivity.
Qed.

Lemma covers_single n : covers n [(0, n)].
Proof. unfold covers. cbn. split; [auto|lia]. Qed.

Theorem batch_sizes_cover conc n min T : 1 <= min ->
  exists cs, batch_iter_chunks conc n min T = Done cs /\ covers n cs.
Proof.
  intros Hmin. unfold batch_iter_chunks. destruct conc.
  - destruct (Nat.ltb_spec (n / npo2 T) min) as [_|Hge].
    + exists [(0, n)]. split; [reflexivity|apply covers_single].
    + destruct (par_chunks_spec n (n / npo2 T)) as (cs & E & C & _); [lia|].
      exists cs. split; assumption.
  - exists [(0, n)]. split; [reflexivity|apply covers_single].
Qed.

Theorem batch_iter_serial_below conc n min T : n / npo2 T < min -> batch_iter_chunks conc n min T = Done [(0, n)].
Proof.
  intros H. unfold batch_iter_chunks. destruct conc; [|reflexivity].
  destruct (Nat.ltb_spec (n / npo2 T) min); [reflexivity|lia].
Qed.

Theorem batch_iter_offsets n min T cs k c : min <= n / npo2 T -> 1 <= min ->
  batch_iter_chunks true n min T = Done cs -> nth_error cs k = Some c -> fst c = k * (n / npo2 T).
Proof.
  intros Hge Hmin E Hk. unfold batch_iter_chunks in E.
  destruct (Nat.ltb_spec (n / npo2 T) min) as [Hlt|_]; [lia|].
  destruct (par_chunks_spec n (n / npo2 T)) as (cs' & E' & _ & _ & O & _); [lia|].
  rewrite E' in E. inversion E; subst cs'. exact (O k c Hk).
Qed.

(* the batch size when the concurrent path is taken, and the number of batches for lengths divisible by npo2 T *)
Theorem batch_iter_exact m min T : 1 <= min -> min <= m ->
  batch_iter_chunks true (m * npo2 T) min T = Done (map (fun k => (k * m, m)) (seq 0 (npo2 T))).
Proof.
  intros Hmin Hm. unfold batch_iter_chunks. pose proof (npo2_pos T) as Hp.
  rewrite Nat.div_mul by lia. destruct (Nat.ltb_spec m min) as [Hlt|_]; [lia|].
  rewrite (Nat.mul_comm m). apply par_chunks_exact. lia.
Qed.

(* ================================================================ generic list facts *)
Lemma map2_app {A B C} (f : A -> B -> C) a1 a2 b1 b2 : length a1 = length b1 ->
  map2 f (a1 ++ a2) (b1 ++ b2) = map2 f a1 b1 ++ map2 f a2 b2.
Proof.
  revert b1; induction a1 as [|x a1 IH]; intros [|y b1] H; cbn in *; try discriminate; [reflexivity|].
  f_equal. apply IH. lia.
Qed.

Lemma map2_length {A B C} (f : A -> B -> C) a b : length a = length b -> length (map2 f a b) = length a.
Proof.
  revert b; induction a as [|x a IH]; intros [|y b] H; cbn in *; try discriminate; [reflexivity|].
  f_equal. apply IH. lia.
Qed.

Lemma map2_nth {A B C} (f : A -> B -> C) a b i da db dc : length a = length b -> i < length a ->
  nth i (map2 f a b) dc = f (nth i a da) (nth i b db).
Proof.
  revert b i; induction a as [|x a IH]; intros [|y b] i H Hi; cbn in *; try discriminate; try lia.
  destruct i as [|i]; [reflexivity|]. apply IH; lia.
Qed.

Lemma flat_map_map_comm {A B C} (g : B -> C) (f : A -> list B) l :
  flat_map (fun a => map g (f a)) l = map g (flat_map f l).
Proof. induction l as [|a l IH]; cbn; [reflexivity|]. rewrite map_app, IH. reflexivity. Qed.

Lemma nth_map_seq {A} (f : nat -> A) n i dflt : i < n -> nth i (map f (seq 0 n)) dflt = f i.
Proof.
  intros Hi. rewrite (nth_indep _ dflt (f 0)) by (rewrite map_length, seq_length; exact Hi).
  rewrite (map_nth f (seq 0 n) 0 i). rewrite seq_nth by exact Hi. reflexivity.
Qed.

Lemma FOP_map_seq {A} (R : A -> A -> Prop) (f : nat -> A) :
  (forall i j, i <> j -> R (f i) (f j)) -> forall n off, ForallOrdPairs R (map f (seq off n)).
Proof.
  intros H. induction n as [|n IH]; intros off; cbn [seq map]; constructor; [|apply IH].
  apply Forall_forall. intros y Hy. apply in_map_iff in Hy. destruct Hy as (j & <- & Hj).
  apply in_seq in Hj. apply H. lia.
Qed.

(* ================================================================ elementwise par_iter_mut: one single-cell task per index *)
Section Elementwise.
Context {V : Type} (d : V) (g : nat -> V -> V).

Definition elem_tasks (n : nat) : list (task V) :=
  map (fun i => cell_task [i] i (fun s => g i (nth i s d))) (seq 0 n).

Lemma elem_tasks_ok n : Forall (task_ok d) (elem_tasks n).
Proof.
  apply Forall_forall. intros t Ht. apply in_map_iff in Ht. destruct Ht as (i & <- & _).
  apply cell_task_ok. intros s s' _ Hag. rewrite (Hag i) by (left; reflexivity). reflexivity.
Qed.

Lemma elem_tasks_independent n : ForallOrdPairs independent (elem_tasks n).
Proof.
  apply FOP_map_seq. intros i j Hij. unfold independent, disjoint, cell_task; cbn [t_reads t_writes].
  repeat split; intros k [<-|[]] [E|[]]; lia.
Qed.

Lemma elem_tasks_exec_nth a : forall m, m <= length a ->
  length (exec (elem_tasks m) a) = length a /\
  forall i, nth i (exec (elem_tasks m) a) d = if i <? m then g i (nth i a d) else nth i a d.
Proof.
  induction m as [|m IH]; intros Hm.
  - split; [reflexivity|]. intros i. reflexivity.
  - destruct IH as [Hl Hn]; [lia|]. unfold elem_tasks in *. rewrite seq_S, map_app, exec_app. cbn [map Nat.add].
    rewrite exec_cons. cbn [exec fold_left cell_task t_run]. split.
    + rewrite par_length_lupd. exact Hl.
    + intros i. rewrite par_nth_lupd, Hl. destruct (Nat.eqb_spec m i) as [<-|Hne]; cbn [andb].
      * destruct (Nat.ltb_spec m (length a)); [|lia]. destruct (Nat.ltb_spec m (S m)); [|lia].
        rewrite Hn. destruct (Nat.ltb_spec m m); [lia|]. reflexivity.
      * rewrite Hn. destruct (Nat.ltb_spec i m), (Nat.ltb_spec i (S m)); try lia; reflexivity.
Qed.

Theorem elem_tasks_spec a n sched : length a = n -> Permutation sched (seq 0 n) ->
  exec (reorder (elem_tasks n) sched) a = map (fun i => g i (nth i a d)) (seq 0 n).
Proof.
  intros Hl P. rewrite (schedule_independent d).
  - destruct (elem_tasks_exec_nth a n) as [Hlen Hn]; [lia|].
    apply nth_ext with (d := d) (d' := d).
    + rewrite Hlen, map_length, seq_length. exact Hl.
    + intros i Hi. rewrite Hlen, Hl in Hi. rewrite Hn. destruct (Nat.ltb_spec i n); [|lia].
      rewrite nth_map_seq by exact Hi. reflexivity.
  - unfold elem_tasks. rewrite map_length, seq_length. exact P.
  - apply elem_tasks_ok.
  - apply elem_tasks_independent.
Qed.
End Elementwise.

(* ================================================================ (3) math/src/utils, fft/concurrent *)
Section Fld.
Context {F : Type} (O : FOps F) (L : FLaws O).
Add Ring ParBatchRing : (FLaws_ring_theory O L).
Add Field ParBatchField : (FLaws_field_theory O L).

Local Notation fz := (fzero O).
Local Notation f1 := (fone O).
Local Infix "*f" := (fmul O) (at level 40, left associativity).
Local Infix "+f" := (fadd O) (at level 50, left associativity).

Lemma fpow_nat_add b x y : fpow_nat O b (x + y) = fmul O (fpow_nat O b x) (fpow_nat O b y).
Proof.
  induction y as [|y IH].
  - rewrite Nat.add_0_r. cbn [fpow_nat]. ring.
  - rewrite Nat.add_succ_r. cbn [fpow_nat]. rewrite IH. ring.
Qed.

Lemma fill_series_length s b n : length (fill_series O s b n) = n.
Proof. revert s; induction n as [|n IH]; intros s; cbn [fill_series length]; [reflexivity|]. rewrite IH. reflexivity. Qed.

Lemma fill_series_app s b l1 l2 :
  fill_series O s b (l1 + l2) = fill_series O s b l1 ++ fill_series O (fmul O s (fpow_nat O b l1)) b l2.
Proof.
  revert s; induction l1 as [|l1 IH]; intros s.
  - cbn [Nat.add fill_series app fpow_nat]. f_equal. ring.
  - cbn [Nat.add fill_series app]. f_equal. rewrite IH. f_equal. f_equal. cbn [fpow_nat]. ring.
Qed.

(* ---------------------------------------------------------------- get_power_series *)
Lemma power_series_consecutive b s cs : forall off, consecutive off cs ->
  flat_map (fun c => fill_series O (s *f fpow_nat O b (fst c)) b (snd c)) cs =
  fill_series O (s *f fpow_nat O b off) b (list_sum (map snd cs)).
Proof.
  induction cs as [|[o len] cs IH]; intros off Hc; [reflexivity|].
  cbn [consecutive fst snd] in Hc. destruct Hc as [-> Hc].
  cbn [flat_map map fst snd]. rewrite lsum_cons, fill_series_app. f_equal.
  rewrite (IH _ Hc). f_equal. rewrite fpow_nat_add. ring.
Qed.

Theorem power_series_with_offset_batched_spec b s n cs : covers n cs ->
  get_power_series_with_offset_batched O b s cs = get_power_series_with_offset_serial O b s n.
Proof.
  intros [Hc Hs]. unfold get_power_series_with_offset_batched, get_power_series_with_offset_serial.
  rewrite (power_series_consecutive b s cs 0 Hc), Hs. reflexivity.
Qed.

Theorem power_series_batched_spec b n cs : covers n cs ->
  get_power_series_batched O b cs = get_power_series_serial O b n.
Proof.
  intros [Hc Hs]. unfold get_power_series_batched, get_power_series_serial.
  rewrite <- Hs, <- (fl_mul_1_l O L (fpow_nat O b 0)), <- (power_series_consecutive b f1 cs 0 Hc).
  apply flat_map_ext. intros c. rewrite (fl_mul_1_l O L). reflexivity.
Qed.

Lemma one_le_1024 : 1 <= 1024.
Proof. apply le_n_S, Nat.le_0_l. Qed.

Corollary get_power_series_any_T conc T b n :
  get_power_series O conc T b n = Done (get_power_series_serial O b n).
Proof.
  unfold get_power_series. destruct (batch_sizes_cover conc n 1024 T one_le_1024) as (cs & -> & Hc).
  rewrite (power_series_batched_spec b n cs Hc). reflexivity.
Qed.

Corollary get_power_series_with_offset_any_T conc T b s n :
  get_power_series_with_offset O conc T b s n = Done (get_power_series_with_offset_serial O b s n).
Proof.
  unfold get_power_series_with_offset. destruct (batch_sizes_cover conc n 1024 T one_le_1024) as (cs & -> & Hc).
  rewrite (power_series_with_offset_batched_spec b s n cs Hc). reflexivity.
Qed.

(* ---------------------------------------------------------------- batch inversion (Montgomery's trick, zeros skipped) *)
Lemma feqb_zero_spec v : (feqb O v fz = true /\ v = fz) \/ (feqb O v fz = false /\ v <> fz).
Proof.
  destruct (feqb O v fz) eqn:E.
  - left. split; [reflexivity|]. apply (fl_eqb_spec O L). exact E.
  - right. split; [reflexivity|]. intros H. apply (fl_eqb_spec O L) in H. congruence.
Qed.

Lemma fmul_nonzero a b : a <> fz -> b <> fz -> a *f b <> fz.
Proof.
  intros Ha Hb E. apply Hb.
  assert (H : b = finv O a *f (a *f b)).
  { rewrite (fl_mul_assoc O L), (fl_inv_l O L a Ha), (fl_mul_1_l O L). reflexivity. }
  rewrite H, E. ring.
Qed.

Lemma binv_spec vals : forall p, p <> fz ->
  let '(res, last) := binv_fwd O vals p in
  last <> fz /\ binv_bwd O vals res (finv O last) = (map (finv O) vals, finv O p).
Proof.
  induction vals as [|v t IH]; intros p Hp.
  - cbn [binv_fwd binv_bwd map]. split; [exact Hp|reflexivity].
  - cbn [binv_fwd].
    set (p' := if feqb O v fz then p else p *f v).
    assert (Hp' : p' <> fz).
    { unfold p'. destruct (feqb_zero_spec v) as [[-> _]|[-> Hv]]; [exact Hp|apply fmul_nonzero; assumption]. }
    specialize (IH p' Hp'). destruct (binv_fwd O t p') as [r l]. destruct IH as [Hl Hb].
    split; [exact Hl|]. cbn [binv_bwd map]. rewrite Hb. unfold p'.
    destruct (feqb_zero_spec v) as [[-> ->]|[-> Hv]].
    + rewrite (fl_inv_0 O L). reflexivity.
    + f_equal; [f_equal|]; field; auto.
Qed.

Theorem serial_batch_inversion_spec vals : serial_batch_inversion O vals = map (finv O) vals.
Proof.
  unfold serial_batch_inversion. pose proof (binv_spec vals f1 (fl_one_neq_zero O L)) as H.
  destruct (binv_fwd O vals f1) as [res last]. destruct H as [_ ->]. reflexivity.
Qed.

Theorem batch_inversion_batched_spec vals cs : covers (length vals) cs ->
  batch_inversion_batched O vals cs = serial_batch_inversion O vals.
Proof.
  intros Hc. unfold batch_inversion_batched. rewrite serial_batch_inversion_spec.
  rewrite (flat_map_ext _ (fun c => map (finv O) (slice vals c))) by (intros c; apply serial_batch_inversion_spec).
  rewrite flat_map_map_comm. rewrite (covers_slices (length vals) cs vals Hc eq_refl). reflexivity.
Qed.

Corollary batch_inversion_any_T conc T vals : batch_inversion O conc T vals = Done (map (finv O) vals).
Proof.
  unfold batch_inversion. destruct (batch_sizes_cover conc (length vals) 1024 T one_le_1024) as (cs & -> & Hc).
  rewrite (batch_inversion_batched_spec vals cs Hc), serial_batch_inversion_spec. reflexivity.
Qed.

(* ---------------------------------------------------------------- fft::concurrent scaling loops *)
Lemma scale_consecutive v offset k cs : forall off, consecutive off cs ->
  off + list_sum (map snd cs) = length v ->
  scale_batched O v offset k cs =
  map2 (fun x y => x *f y) (skipn off v) (fill_series O (fpow_nat O offset off *f k) offset (list_sum (map snd cs))).
Proof.
  unfold scale_batched. induction cs as [|[o len] cs IH]; intros off Hc Hs.
  - cbn in Hs |- *. rewrite skipn_all2 by lia. reflexivity.
  - cbn [consecutive fst snd] in Hc. destruct Hc as [-> Hc]. cbn [map snd] in Hs. rewrite lsum_cons in Hs.
    cbn [flat_map map fst snd]. rewrite lsum_cons. rewrite (IH (off + len) Hc) by lia.
    unfold slice. cbn [fst snd].
    rewrite fill_series_app. rewrite <- (firstn_skipn len (skipn off v)) at 2.
    rewrite map2_app.
    + f_equal. rewrite skipn_add. f_equal. f_equal. rewrite fpow_nat_add. ring.
    + rewrite fill_series_length. apply firstn_length_le. rewrite skipn_length. lia.
Qed.

Theorem scale_batched_spec v offset k cs : covers (length v) cs ->
  scale_batched O v offset k cs = scale_serial O v offset k.
Proof.
  intros [Hc Hs]. rewrite (scale_consecutive v offset k cs 0 Hc) by (cbn; lia).
  unfold scale_serial. rewrite Hs. cbn [skipn fpow_nat]. rewrite (fl_mul_1_l O L). reflexivity.
Qed.

Theorem scale_par_spec T v offset k : npo2 T <= length v ->
  scale_par O T v offset k = Done (scale_serial O v offset k).
Proof.
  intros H. unfold scale_par. pose proof (npo2_pos T) as Hp.
  destruct (par_chunks_spec (length v) (length v / npo2 T)) as (cs & -> & Hc & _).
  - apply Nat.div_str_pos. lia.
  - rewrite (scale_batched_spec v offset k cs Hc). reflexivity.
Qed.

(* par_chunks_mut(0): more (rounded-up) threads than elements panics inside rayon *)
Theorem scale_par_panics T v offset k : length v < npo2 T -> scale_par O T v offset k = Panic.
Proof. intros H. unfold scale_par. rewrite Nat.div_small by exact H. reflexivity. Qed.
(* ---------------------------------------------------------------- add_in_place / mul_acc (iter_mut!().zip().for_each()) *)
Lemma map_seq_map2 {A B C} (f : A -> B -> C) a b da db : length a = length b ->
  map (fun i => f (nth i a da) (nth i b db)) (seq 0 (length b)) = map2 f a b.
Proof.
  intros Hl. destruct a as [|x a].
  - destruct b; [reflexivity|discriminate].
  - destruct b as [|y b]; [discriminate|].
    apply nth_ext with (d := f x y) (d' := f x y).
    + rewrite map_length, seq_length, map2_length by exact Hl. symmetry. exact Hl.
    + intros i Hi. rewrite map_length, seq_length in Hi. rewrite nth_map_seq by exact Hi.
      symmetry. apply map2_nth; [exact Hl|lia].
Qed.

Theorem add_in_place_par_spec a b sched : length a = length b -> Permutation sched (seq 0 (length b)) ->
  Forall (task_ok (fzero O)) (add_in_place_tasks O b) /\ ForallOrdPairs independent (add_in_place_tasks O b) /\
  exec (reorder (add_in_place_tasks O b) sched) a = add_in_place_serial O a b.
Proof.
  intros Hl P.
  change (add_in_place_tasks O b) with (elem_tasks fz (fun i x => x +f nth i b fz) (length b)).
  split; [apply elem_tasks_ok|]. split; [apply elem_tasks_independent|].
  rewrite elem_tasks_spec by assumption. unfold add_in_place_serial.
  apply (map_seq_map2 (fun x y => x +f y) a b fz fz Hl).
Qed.

Theorem mul_acc_par_spec a b c sched : length a = length b -> Permutation sched (seq 0 (length b)) ->
  Forall (task_ok (fzero O)) (mul_acc_tasks O b c) /\ ForallOrdPairs independent (mul_acc_tasks O b c) /\
  exec (reorder (mul_acc_tasks O b c) sched) a = mul_acc_serial O a b c.
Proof.
  intros Hl P.
  change (mul_acc_tasks O b c) with (elem_tasks fz (fun i x => x +f c *f nth i b fz) (length b)).
  split; [apply elem_tasks_ok|]. split; [apply elem_tasks_independent|].
  rewrite elem_tasks_spec by assumption. unfold mul_acc_serial.
  apply (map_seq_map2 (fun x y => x +f c *f y) a b fz fz Hl).
Qed.
End Fld.

(* ================================================================ non-vacuity *)
(* GF(2) on bool satisfies FLaws, so the hypotheses of the section are satisfiable *)
Definition gf2_ops : FOps bool :=
  mkFOps bool false true xorb xorb andb (fun x => x) (fun _ => false) (fun x => x) (fun x => x) andb Bool.eqb
         (fun z => Z.odd z).

Lemma gf2_laws : FLaws gf2_ops.
Proof.
  constructor; cbn; try (intros [] [] []; reflexivity); try (intros [] []; reflexivity); try (intros []; reflexivity);
    try discriminate; try reflexivity.
  - intros [] H; [reflexivity|congruence].
  - intros a b. apply Bool.eqb_true_iff.
Qed.

Example batch_inversion_gf2 conc T :
  batch_inversion gf2_ops conc T [false; true; true; false] = Done [false; true; true; false].
Proof. apply (batch_inversion_any_T gf2_ops gf2_laws). Qed.

(* Z mod 13 (operations only; inverse by Fermat), to run the Montgomery loops on zeros at the first/last positions *)
Definition z13_ops : FOps Z :=
  let m := fun x => Z.modulo x 13 in
  mkFOps Z 0%Z 1%Z (fun a b => m (a + b)%Z) (fun a b => m (a - b)%Z) (fun a b => m (a * b)%Z)
         (fun a => m (- a)%Z) (fun a => m (2 * a)%Z) (fun a => m (a * a)%Z)
         (fun a => m (a ^ 11)%Z) (fun a b => m (a * m (b ^ 11))%Z) Z.eqb m.

Example serial_batch_inversion_z13 :
  serial_batch_inversion z13_ops [0; 2; 3; 0; 5; 12; 0]%Z = [0; 7; 9; 0; 8; 12; 0]%Z /\
  map (finv z13_ops) [0; 2; 3; 0; 5; 12; 0]%Z = [0; 7; 9; 0; 8; 12; 0]%Z /\
  map2 (fmul z13_ops) [0; 2; 3; 0; 5; 12; 0]%Z [0; 7; 9; 0; 8; 12; 0]%Z = [0; 1; 1; 0; 1; 1; 0]%Z.
Proof. vm_compute. repeat split. Qed.

Example batch_inversion_batched_z13 :
  batch_inversion_batched z13_ops [0; 2; 3; 0; 5; 12; 0]%Z [(0, 3); (3, 3); (6, 1)] = [0; 7; 9; 0; 8; 12; 0]%Z.
Proof. vm_compute. reflexivity. Qed.

Example power_series_z13 :
  get_power_series_batched z13_ops 2%Z [(0, 2); (2, 2); (4, 1)] = get_power_series_serial z13_ops 2%Z 5 /\
  get_power_series_serial z13_ops 2%Z 5 = [1; 2; 4; 8; 3]%Z.
Proof. vm_compute. split; reflexivity. Qed.

Example batch_iter_5000 : batch_iter_chunks true 5000 1024 3 = Done [(0,1250);(1250,1250);(2500,1250);(3750,1250)].
Proof. vm_compute. reflexivity. Qed.
Example batch_iter_5001 :
  batch_iter_chunks true (5000 + 1) 1024 3 = Done [(0,1250);(1250,1250);(2500,1250);(3750,1250);(5000,1)].
Proof. vm_compute. reflexivity. Qed.
Example batch_iter_4000 : batch_iter_chunks true 4000 1024 3 = Done [(0,4000)].
Proof. vm_compute. reflexivity. Qed.
Example batch_iter_serial_5000 : batch_iter_chunks false 5000 1024 3 = Done [(0,5000)].
Proof. vm_compute. reflexivity. Qed.
Example par_chunks_10_4 : par_chunks 10 4 = Done [(0,4);(4,4);(8,2)].
Proof. vm_compute. reflexivity. Qed.
Example batch_iter_empty : batch_iter_chunks true 0 1 8 = Done [(0,0)].
Proof. vm_compute. reflexivity. Qed.
