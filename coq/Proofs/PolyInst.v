(* C20 — a concrete field satisfying FLaws (GF(7) on a 7-constructor type): shows that the hypothesis of every
   C20 theorem is satisfiable, and is used for the non-vacuity examples.  stdlib style. *)
From Coq Require Import List ZArith Bool.
From VBase Require Import FieldOps ZpOps.
From VModel Require Import Polynom.
Import ListNotations.

Inductive F7 : Type := e0 | e1 | e2 | e3 | e4 | e5 | e6.

Definition f7_to_Z (a : F7) : Z :=
  match a with e0 => 0 | e1 => 1 | e2 => 2 | e3 => 3 | e4 => 4 | e5 => 5 | e6 => 6 end%Z.

Definition f7_of_Z (z : Z) : F7 :=
  match (z mod 7)%Z with
  | 0 => e0 | 1 => e1 | 2 => e2 | 3 => e3 | 4 => e4 | 5 => e5 | _ => e6
  end%Z.

Definition f7_lift2 (f : Z -> Z -> Z) (a b : F7) : F7 := f7_of_Z (f (f7_to_Z a) (f7_to_Z b)).
Definition f7_lift1 (f : Z -> Z) (a : F7) : F7 := f7_of_Z (f (f7_to_Z a)).

Definition f7_ops : FOps F7 := {|
  fzero := e0; fone := e1;
  fadd := f7_lift2 (fadd (zp_ops 7));
  fsub := f7_lift2 (fsub (zp_ops 7));
  fmul := f7_lift2 (fmul (zp_ops 7));
  fneg := f7_lift1 (fneg (zp_ops 7));
  fdouble := f7_lift1 (fdouble (zp_ops 7));
  fsquare := f7_lift1 (fsquare (zp_ops 7));
  finv := f7_lift1 (finv (zp_ops 7));
  fdiv := f7_lift2 (fdiv (zp_ops 7));
  feqb := fun a b => Z.eqb (f7_to_Z a) (f7_to_Z b);
  fofz := f7_of_Z
|}.

Lemma f7_laws : FLaws f7_ops.
Proof.
  constructor.
  - intros a b; destruct a, b; reflexivity.
  - intros a b c; destruct a, b, c; reflexivity.
  - intros a; destruct a; reflexivity.
  - intros a b; destruct a, b; reflexivity.
  - intros a b c; destruct a, b, c; reflexivity.
  - intros a; destruct a; reflexivity.
  - intros a b c; destruct a, b, c; reflexivity.
  - intros a b; destruct a, b; reflexivity.
  - intros a; destruct a; reflexivity.
  - intros a; destruct a; reflexivity.
  - intros a; destruct a; reflexivity.
  - discriminate.
  - intros a H; destruct a; try reflexivity. exfalso; apply H; reflexivity.
  - reflexivity.
  - intros a b; destruct a, b; reflexivity.
  - intros a b; destruct a, b; split; intros H; try reflexivity; try discriminate.
Qed.
