(* C20 — a concrete field satisfying FLaws (GF(7) on a 7-constructor type): shows that the hypothesis of every
   C20 theorem is satisfiable, and is used for the non-vacuity examples.  stdlib style. *)
From Coq Require Import List ZArith Bool.
From VBase Require Import FieldOps ZpOps.
From VModel Require Import Polynom.
Import ListNotations.

Inductive F7 : Type := e0 | e1 | e2 | e3 | e4 | e5 | e6.

Definition f7_to_Z (a : F7) : Z :=
  match a with e0 => 0 | e1 => 1 | e2 => 2 | e3 => 3 | e4 => 4 | e5 => 5 | e6 => 6 end%Z.

Definition f7_of_Z (z : Z) : F7 :=
  match (z mod 7)%Z with
  | 0 => e0 | 1 => e1 | 2 => e2 | 3 => e3 | 4 => e4 | 5 => e5 | _ => e6
  end%Z.

Definition f7_lift2 (f : Z -> Z -> Z) (a b : F7) : F7 := f7_of_Z (f (f7_to_Z a) (f7_to_Z b)).
Definition f7_lift1 (f : Z -> Z) (a : F7) : F7 := f7_of_Z (f (f7_to_Z a)).

Definition f7_ops : FOps F7 := {|
  fzero := e0; fone := e1;
  fadd := f7_lift2 (fadd (zp_ops 7));
  fsub := f7_lift2 (fsub (zp_ops 7));
  fmul := f7_lift2 (fmul (zp_ops 7));
  fneg := f7_lift1 (fneg (zp_ops 7));
  fdouble := f7_lift1 (fdouble (zp_ops 7));
  fsquare := f7_lift1 (fsquare (zp_ops 7));
  finv := f7_lift1 (finv (zp_ops 7));
  fdiv := f7_lift2 (fdiv (zp_ops 7));
  feqb := fun a b => Z.eqb (f7_to_Z a) (f7_to_Z b);
  fofz := f7_of_Z
|}.

Lemma f7_laws : FLaws f7_ops.
Proof.
  constructor.
  - intros a b; destruct a, b; reflexivity.
  - intros a b c; destruct a, b, c; reflexivity.
  - intros a; destruct a; reflexivity.
  - intros a b; destruct a, b; reflexivity.
  - intros a b c; destruct a, b, c; reflexivity.
  - intros a; destruct a; reflexivity.
  - intros a b c; destruct a, b, c; reflexivity.
  - intros a b; destruct a, b; reflexivity.
  - intros a; destruct a; reflexivity.
  - intros a; destruct a; reflexivity.
  - intros a; destruct a; reflexivity.
  - discriminate.
  - intros a H; destruct a; try reflexivity. exfalso; apply H; reflexivity.
  - reflexivity.
  - intros a b; destruct a, b; reflexivity.
  - intros a b; destruct a, b; split; intros H; try reflexivity; try discriminate.
Qed.

(* ------------------------------------------------------------------ bounded agreement of interpolate_batch with
   interpolate over GF(7): exhaustive over the stated finite domains (kernel computation).  This is NOT the
   unbounded interpolate_batch_spec (not proved); it is a sanity theorem about the model of interpolate_batch. *)
Definition all7 : list F7 := [e0; e1; e2; e3; e4; e5; e6].
Lemma all7_complete a : In a all7.
Proof. destruct a; simpl; tauto. Qed.

Fixpoint leqb {A} (e : A -> A -> bool) (l1 l2 : list A) : bool :=
  match l1, l2 with
  | [], [] => true
  | a :: t1, b :: t2 => e a b && leqb e t1 t2
  | _, _ => false
  end.

Lemma leqb_sound {A} (e : A -> A -> bool) : (forall a b, e a b = true -> a = b) ->
  forall l1 l2, leqb e l1 l2 = true -> l1 = l2.
Proof.
  intros He. induction l1; destruct l2; simpl; intros H; try discriminate; auto.
  apply andb_prop in H. destruct H as [H1 H2]. f_equal; auto.
Qed.

Definition res_eqb (r1 r2 : Result (list (list F7))) : bool :=
  match r1, r2 with
  | Ok a, Ok b => leqb (leqb (feqb f7_ops)) a b
  | Panic, Panic => true
  | _, _ => false
  end.

Lemma res_eqb_sound r1 r2 : res_eqb r1 r2 = true -> r1 = r2.
Proof.
  destruct r1, r2; simpl; intros H; try discriminate; auto. f_equal.
  apply (leqb_sound (leqb (feqb f7_ops))); auto. apply leqb_sound. apply (fl_eqb_spec f7_ops f7_laws).
Qed.

(* what interpolate_batch must equal: interpolate on every batch *)
Definition batchwise (xs ys : list (list F7)) : Result (list (list F7)) :=
  mapM (fun xy => interpolate f7_ops true (fst xy) (snd xy) false) (combine xs ys).

Definition all_in7 (f : F7 -> bool) : bool := forallb f all7.
Lemma all_in7_spec f : all_in7 f = true -> forall a, f a = true.
Proof. unfold all_in7. intros H a. rewrite forallb_forall in H. apply H, all7_complete. Qed.

(* N = 3, one batch: all 7^5 inputs with the last Y fixed (repeated X coordinates and X = 0 included) *)
Lemma batch_agrees_N3 : forall x0 x1 x2 y0 y1,
  interpolate_batch f7_ops true 3 [[x0; x1; x2]] [[y0; y1; e4]] = batchwise [[x0; x1; x2]] [[y0; y1; e4]].
Proof.
  assert (H : all_in7 (fun x0 => all_in7 (fun x1 => all_in7 (fun x2 => all_in7 (fun y0 => all_in7 (fun y1 =>
              res_eqb (interpolate_batch f7_ops true 3 [[x0; x1; x2]] [[y0; y1; e4]])
                      (batchwise [[x0; x1; x2]] [[y0; y1; e4]])))))) = true)
    by (vm_compute; reflexivity).
  intros x0 x1 x2 y0 y1. apply res_eqb_sound.
  apply (all_in7_spec _ (all_in7_spec _ (all_in7_spec _ (all_in7_spec _ (all_in7_spec _ H x0) x1) x2) y0) y1).
Qed.

(* N = 2, two batches: first batch (7^3, one Y fixed), second batch any X pair with fixed Y values; the roots vector
   is reused between batches, so this exercises the independence from its previous content *)
Lemma batch_agrees_N2_two : forall x0 x1 y0 u0 u1,
  interpolate_batch f7_ops true 2 [[x0; x1]; [u0; u1]] [[y0; e6]; [e3; e5]]
  = batchwise [[x0; x1]; [u0; u1]] [[y0; e6]; [e3; e5]].
Proof.
  assert (H : all_in7 (fun x0 => all_in7 (fun x1 => all_in7 (fun y0 => all_in7 (fun u0 => all_in7 (fun u1 =>
              res_eqb (interpolate_batch f7_ops true 2 [[x0; x1]; [u0; u1]] [[y0; e6]; [e3; e5]])
                      (batchwise [[x0; x1]; [u0; u1]] [[y0; e6]; [e3; e5]])))))) = true)
    by (vm_compute; reflexivity).
  intros x0 x1 y0 u0 u1. apply res_eqb_sound.
  apply (all_in7_spec _ (all_in7_spec _ (all_in7_spec _ (all_in7_spec _ (all_in7_spec _ H x0) x1) y0) u0) u1).
Qed.
