(* C02 — non-vacuity: the hypotheses of the soundness theorems are satisfiable (instances over the
   64-bit prime field F64_ops with its proved field laws), and the three library fields satisfy the
   injectivity hypothesis of seed_binds_statement. *)
From Coq Require Import List Arith Bool Lia ZArith.
From VBase Require Import FieldOps ZpOps.
From VModel Require Import Soundness.
From VProofs Require Import ZpLaws SoundnessPoly SoundnessEnforce SoundnessVerifier.
Import ListNotations.

Local Notation O := F64_ops.
Local Notation L := F64_laws.
Local Notation Fe := (Zp P64).

Local Open Scope nat_scope.
Definition e (v : nat) : Fe := fofz O (Z.of_nat v).

Ltac zp_eq := apply zp_val_inj; vm_compute; reflexivity.
Ltac zp_neq := let H := fresh in intro H; apply (f_equal (@zp_val P64)) in H; vm_compute in H; discriminate.

(* a counter: next = cur + 1, one column, one constraint *)
Definition ctr (_ : nat) (cur next : list Fe) : list Fe :=
  [fsub O (fsub O (nth 0 next (fzero O)) (nth 0 cur (fzero O))) (fone O)].

Definition g2 : Fe := fneg O (fone O).                 (* generator of the trace domain of length 2 *)
Definition a0 : @Assertion Fe := mkAsrt ASingle 0 0 0 [e 0].   (* column 0 at step 0 is 0 *)
Definition t_ok : list (list Fe) := [[e 0]; [e 1]].
Definition t_bad : list (list Fe) := [[e 0]; [e 5]].     (* violates the transition at step 0 (non-exempt for k = 1) *)
Definition t_bad_a : list (list Fe) := [[e 7]; [e 8]].   (* violates the assertion *)

Lemma dom2 : NoDup (domain O g2 2).
Proof.
  cbn. constructor; [|constructor; [intros []|constructor]].
  intros [H|[]]. revert H. zp_neq.
Qed.

(* numerators as constant polynomials: they interpolate the single enforced step / asserted step *)
Definition Nc (t : list (list Fe)) (_ : nat) : list Fe := [nth 0 (ctr 0 (row_at t 0) (row_at t 1)) (fzero O)].
Definition Bc (t : list (list Fe)) (a : @Assertion Fe) : list Fe := [fsub O (cell O t 0 0) (e 0)].

Lemma hyp_N t : forall j i, j < 1 -> i < 2 - 1 ->
  peval O (Nc t j) (fpow O g2 i) = nth j (ctr i (row_at t i) (row_at t (S i))) (fzero O).
Proof.
  intros j i Hj Hi. assert (j = 0) by lia. assert (i = 0) by lia. subst. unfold Nc. cbn [peval].
  apply zp_val_inj. cbn [ctr nth]. unfold zp_val. cbn [fadd fmul fzero O F64_ops zpT_ops zp_mk proj1_sig zp_val].
  rewrite Z.mul_0_r, Z.mod_0_l by (unfold P64; lia). rewrite Z.add_0_r. apply Z.mod_small.
  match goal with |- context [proj1_sig ?x] => apply (zp_val_range P64 x) end.
Qed.

Lemma hyp_B t : forall a, In a [a0] -> forall sv, In sv (asserted_cells O 2 a) ->
  peval O (Bc t a) (fpow O g2 (fst sv)) = fsub O (cell O t (as_col a) (fst sv)) (snd sv).
Proof.
  intros a [<-|[]] sv [<-|[]]. unfold Bc. cbn [peval fst snd as_col a0 hd as_vals as_first].
  apply zp_val_inj. unfold zp_val. cbn [fadd fmul fzero O F64_ops zpT_ops zp_mk proj1_sig zp_val].
  rewrite Z.mul_0_r, Z.mod_0_l by (unfold P64; lia). rewrite Z.add_0_r. apply Z.mod_small.
  match goal with |- context [proj1_sig ?x] => apply (zp_val_range P64 x) end.
Qed.

Lemma hyp_steps : forall a, In a [a0] ->
  NoDup (map fst (asserted_cells O 2 a)) /\ forall sv, In sv (asserted_cells O 2 a) -> fst sv < 2.
Proof.
  intros a [<-|[]]. cbn. split; [constructor; [intros []|constructor]|]. intros sv [<-|[]]. cbn. lia.
Qed.

Lemma hyp_m : forall i cur next, length (ctr i cur next) = 1.
Proof. reflexivity. Qed.

(* the hypotheses of invalid_trace_not_divisible / valid_iff_divisible hold for a trace with a violated transition,
   for one with a violated assertion, and for a valid one *)
Example invalid_transition_instance :
  ~ valid O ctr t_bad 2 1 [a0] /\ ~ all_divisible O g2 2 1 1 [a0] (Nc t_bad) (Bc t_bad).
Proof.
  assert (H : ~ valid O ctr t_bad 2 1 [a0]).
  { intros H. apply (valid_b_spec O L) in H. vm_compute in H. discriminate. }
  split; [exact H|].
  exact (invalid_trace_not_divisible O L ctr g2 2 dom2 t_bad 1 1 [a0] (Nc t_bad) (Bc t_bad) hyp_m (hyp_N t_bad) (hyp_B t_bad) hyp_steps H).
Qed.

Example invalid_assertion_instance :
  ~ valid O ctr t_bad_a 2 1 [a0] /\ ~ all_divisible O g2 2 1 1 [a0] (Nc t_bad_a) (Bc t_bad_a).
Proof.
  assert (H : ~ valid O ctr t_bad_a 2 1 [a0]).
  { intros H. apply (valid_b_spec O L) in H. vm_compute in H. discriminate. }
  split; [exact H|].
  exact (invalid_trace_not_divisible O L ctr g2 2 dom2 t_bad_a 1 1 [a0] (Nc t_bad_a) (Bc t_bad_a) hyp_m (hyp_N t_bad_a) (hyp_B t_bad_a) hyp_steps H).
Qed.

Example valid_instance :
  valid O ctr t_ok 2 1 [a0] /\ all_divisible O g2 2 1 1 [a0] (Nc t_ok) (Bc t_ok).
Proof.
  assert (H : valid O ctr t_ok 2 1 [a0]) by (apply (valid_b_spec O L); vm_compute; reflexivity).
  split; [exact H|].
  exact (proj1 (valid_iff_divisible O L ctr g2 2 dom2 t_ok 1 1 [a0] (Nc t_ok) (Bc t_ok) hyp_m (hyp_N t_ok) (hyp_B t_ok) hyp_steps) H).
Qed.

(* exempt rows: n = 4, k = 2: transitions 0 and 1 are enforced, rows 0..2 take part in them, row 3 does not *)
Definition t4 : list (list Fe) := [[e 0]; [e 1]; [e 2]; [e 9]].

Example exempt_corruption_instance :
  valid O ctr t4 4 2 [a0] /\ only_exempt 4 2 3 = true /\ is_asserted O 4 [a0] 0 3 = false /\
  valid O ctr (upd_cell t4 0 3 (e 77)) 4 2 [a0].
Proof.
  assert (H : valid O ctr t4 4 2 [a0]) by (apply (valid_b_spec O L); vm_compute; reflexivity).
  repeat split; try reflexivity; try exact (proj1 H); try exact (proj2 H).
  - apply (exempt_corruption_harmless O ctr 4 t4 2 [a0] 0 3 (e 77) H); reflexivity.
  - apply (exempt_corruption_harmless O ctr 4 t4 2 [a0] 0 3 (e 77) H); reflexivity.
Qed.

(* the side conditions are needed: row n-k = 2 is `next` of the last enforced transition, row 0 is asserted *)
Example nonexempt_corruption_breaks :
  only_exempt 4 2 2 = false /\ ~ valid O ctr (upd_cell t4 0 2 (e 77)) 4 2 [a0] /\
  is_asserted O 4 [a0] 0 0 = true /\ ~ valid O ctr (upd_cell t4 0 0 (e 77)) 4 2 [a0].
Proof.
  repeat split; try reflexivity.
  - intros H. apply (valid_b_spec O L) in H. vm_compute in H. discriminate.
  - intros H. apply (valid_b_spec O L) in H. vm_compute in H. discriminate.
Qed.

(* counting: H = X, Nn = 0, Dd = 1: the relation polynomial X is not zero, has degree 1, and the out-of-domain
   equation holds at the single point 0 — the bound is attained *)
Example ood_counting_instance :
  let H := [e 0; e 1] in let Nn := [e 0] in let Dd := [e 1] in
  pnonzero O (relation_poly O H Nn Dd) /\ length (relation_poly O H Nn Dd) <= S 1 /\ NoDup [e 0] /\
  (forall z, In z [e 0] -> peval O Dd z <> fzero O /\ peval O H z = fdiv O (peval O Nn z) (peval O Dd z)) /\
  length [e 0] <= 1.
Proof.
  cbv zeta. split; [|split; [|split; [|split]]].
  - exists 1. zp_neq.
  - vm_compute. lia.
  - constructor; [intros []|constructor].
  - intros z [<-|[]]. split; [zp_neq|zp_eq].
  - cbn. lia.
Qed.

(* ALI: d = X, p1 = 1 is not divisible by X, p0 = 0: exactly the coefficient 0 is good *)
Example ali_instance :
  let d := [e 0; e 1] in let p0 := [e 0] in let p1 := [e 1] in
  ~ pdivides O d p1 /\ pdivides O d (padd O p0 (pscale O (e 0) p1)).
Proof.
  cbv zeta. split.
  - intros Hd. pose proof (divides_vanishes O L _ _ Hd (e 0)) as Hv.
    assert (E : peval O [e 0; e 1] (e 0) = fzero O) by zp_eq. specialize (Hv E). revert Hv. zp_neq.
  - exists []. intros i. destruct i as [|[|[|i]]]; zp_eq.
Qed.

(* the decision function: an accepting run (frame values chosen, H_0(z) computed from the equation) and the
   same proof with one out-of-domain value changed (rejected by the out-of-domain check, named RejOod) *)
Definition ctr_e (cur next pers : list Fe) : list Fe := ctr 0 cur next.
(* no auxiliary segment (proofx / proofy) and an auxiliary segment with one column: aux_next = aux_cur + r_0 * main_cur *)
Definition aux_e (mcur mnext acur anext pers rands : list Fe) : list Fe :=
  [fsub O (nth 0 anext (fzero O)) (fadd O (nth 0 acur (fzero O)) (fmul O (nth 0 rands (fzero O)) (nth 0 mcur (fzero O))))].
Definition airx : @AirDesc Fe :=
  mkAir 2 1 g2 [] [mkBGroup 0 1 [mkBCons 0 [e 0] (e 1)]] 1 [mkBGroup 0 1 [mkBCons 0 [e 0] (e 1)]] None.
Definition coinsx : @Coins Fe := mkCoins [e 23] [e 11; e 29] [e 13; e 31] (e 5) [e 17; e 37] [e 19] [e 3; e 4] None.
Definition envx : @Env Fe := mkEnv 7 [[1%Z; 2%Z]] true true true true true (fun _ => true).
Definition proof0 (evals : list Fe) : @ProofObj Fe := mkProof 7 [1%Z; 2%Z] [e 21] [e 34] evals [[e 1]; [e 2]] [[e 8]; [e 9]] None None.
Definition proofx : @ProofObj Fe := proof0 [evaluate_constraints O ctr_e aux_e airx coinsx (proof0 [])].
Definition proofy : @ProofObj Fe := mkProof 7 [1%Z; 2%Z] [e 22] [e 34] (p_ood_evals proofx) [[e 1]; [e 2]] [[e 8]; [e 9]] None None.
Definition auxo : @AuxOpen Fe := mkAuxOpen [e 41] [e 43] [[e 5]; [e 6]].
Definition proof0a (evals : list Fe) : @ProofObj Fe :=
  mkProof 7 [1%Z; 2%Z] [e 21] [e 34] evals [[e 1]; [e 2]] [[e 8]; [e 9]] (Some auxo) None.
Definition proofxa : @ProofObj Fe := proof0a [evaluate_constraints O ctr_e aux_e airx coinsx (proof0a [])].
(* one auxiliary out-of-domain value changed *)
Definition proofya : @ProofObj Fe :=
  mkProof 7 [1%Z; 2%Z] [e 21] [e 34] (p_ood_evals proofxa) [[e 1]; [e 2]] [[e 8]; [e 9]] (Some (mkAuxOpen [e 42] [e 43] [[e 5]; [e 6]])) None.

Example verify_accept_instance :
  verify_model O ctr_e aux_e envx airx coinsx proofx = Accept /\
  verify_model O ctr_e aux_e envx airx coinsx proofy = RejOod /\
  verify_model O ctr_e aux_e (mkEnv 9 [[1%Z; 2%Z]] true true true true true (fun _ => true)) airx coinsx proofx = RejField /\
  verify_model O ctr_e aux_e (mkEnv 7 [[1%Z; 3%Z]] true true true true true (fun _ => true)) airx coinsx proofx = RejOptions /\
  verify_model O ctr_e aux_e (mkEnv 7 [[1%Z; 2%Z]] true true true false true (fun _ => true)) airx coinsx proofx = RejTraceQuery /\
  verify_model O ctr_e aux_e (mkEnv 7 [[1%Z; 2%Z]] true true true true true (fun _ => false)) airx coinsx proofx = RejFri.
Proof. split; [|split; [|split; [|split; [|split]]]]; vm_compute; reflexivity. Qed.

(* the same with an auxiliary segment: accepted; an auxiliary out-of-domain value changed: RejOod; the auxiliary terms do
   enter the out-of-domain equation (the value differs from the one without auxiliary segment) *)
Example verify_accept_instance_aux :
  verify_model O ctr_e aux_e envx airx coinsx proofxa = Accept /\
  verify_model O ctr_e aux_e envx airx coinsx proofya = RejOod /\
  p_ood_evals proofxa <> p_ood_evals proofx /\
  length (deep_evaluations O airx coinsx proofxa) = 2 /\
  deep_evaluations O airx coinsx proofxa <> deep_evaluations O airx coinsx proofya.
Proof.
  split; [vm_compute; reflexivity|]. split; [vm_compute; reflexivity|]. split; [|split; [vm_compute; reflexivity|]].
  - intros H. apply (f_equal (map (@zp_val P64))) in H. vm_compute in H. discriminate.
  - intros H. apply (f_equal (map (@zp_val P64))) in H. vm_compute in H. discriminate.
Qed.

(* the injectivity hypothesis of seed_binds_statement holds in the three library fields *)
Local Open Scope Z_scope.
Lemma zp_ofz_inj p (Hp : 1 < p) : 2^32 <= p ->
  forall a b, 0 <= a < 2^32 -> 0 <= b < 2^32 -> fofz (zpT_ops p Hp) a = fofz (zpT_ops p Hp) b -> a = b.
Proof.
  intros Hbig a b Ha Hb E. apply (f_equal (@zp_val p)) in E.
  cbn [fofz zpT_ops zp_mk zp_val proj1_sig] in E. rewrite !Z.mod_small in E by lia. exact E.
Qed.

Lemma F64_ofz_inj : forall a b, 0 <= a < 2^32 -> 0 <= b < 2^32 -> fofz F64_ops a = fofz F64_ops b -> a = b.
Proof. apply zp_ofz_inj. unfold P64. lia. Qed.
Lemma F62_ofz_inj : forall a b, 0 <= a < 2^32 -> 0 <= b < 2^32 -> fofz F62_ops a = fofz F62_ops b -> a = b.
Proof. apply zp_ofz_inj. unfold P62. lia. Qed.
Lemma F128_ofz_inj : forall a b, 0 <= a < 2^32 -> 0 <= b < 2^32 -> fofz F128_ops a = fofz F128_ops b -> a = b.
Proof. apply zp_ofz_inj. unfold P128. lia. Qed.

Example seed_instance :
  shape_ok (mkShape 3 None 64) /\ shape_ok (mkShape 3 (Some (2, 1)) 64) /\ opts_ok (mkOpts 28 8 0 1 4 31) /\
  seed_of O (mkShape 3 None 64) (fofz O 1) (fofz O 4294967295) (mkOpts 28 8 0 1 4 31) [] <>
  seed_of O (mkShape 3 None 64) (fofz O 1) (fofz O 4294967295) (mkOpts 29 8 0 1 4 31) [].
Proof.
  unfold shape_ok, opts_ok, u8. cbn [sh_width sh_len sh_aux o_queries o_blowup o_grinding o_ext o_fold o_rem].
  repeat split; try lia.
  intros H. apply (seed_binds_statement O F64_ofz_inj) in H.
  - destruct H as [_ [_ [_ [H _]]]]. discriminate.
  - unfold shape_ok, u8; cbn; lia.
  - unfold shape_ok, u8; cbn; lia.
  - unfold opts_ok, u8; cbn; lia.
  - unfold opts_ok, u8; cbn; lia.
Qed.
