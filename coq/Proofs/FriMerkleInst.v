(* C15 / C05 — discharging the Merkle hypotheses of C15_fri_complete (completeness) and C05_fri_binding (binding)
   with the theorems of C10 about the Merkle model (Model/Merkle.v), through the instantiation Model/FriMerkle.v:
   positions nat <-> Z, depth nat <-> Z, `res` <-> option / auth_res.  Any digest type with decidable equality,
   any default digest, any merge function.  stdlib style. *)
From Coq Require Import List Arith Bool Lia ZArith.
From VBase Require Import FieldOps.
From VModel Require Import Merkle Fri FriMerkle.
From VProofs Require Import MerkleBase MerkleSingle MerkleBatch MerkleTotal MerkleBind.
From VProofs Require Import FriAccept FriBinding FriCoset FriComplete.
Import ListNotations.
Local Open Scope nat_scope.

Section Inst.
Variable D : Type.
Variable D_eqb : D -> D -> bool.
Hypothesis D_eqb_spec : forall a b, D_eqb a b = true <-> a = b.
Variable d0 : D.
Variable merge : D -> D -> D.

Local Notation cm_new := (cm_new D d0 merge).
Local Notation cm_root := (cm_root D d0).
Local Notation cm_prove_batch := (cm_prove_batch D d0).
Local Notation cm_verify_batch := (cm_verify_batch D D_eqb merge).

Lemma zlen_pow2 (l : list D) (d : nat) : length l = (2 ^ d)%nat -> zlen l = (2 ^ Z.of_nat d)%Z.
Proof. intros H. unfold zlen. rewrite H, Nat2Z.inj_pow. reflexivity. Qed.

(* C10_new_ok *)
Lemma cm_new_ok : forall leaves d, 1 <= d -> length leaves = 2 ^ d -> exists t, cm_new leaves = Some t.
Proof.
  intros leaves d Hd Hl. destruct (mt_new_ok D d0 merge leaves d Hd (zlen_pow2 _ _ Hl)) as [t Ht].
  exists t. unfold FriMerkle.cm_new. now rewrite Ht.
Qed.

Lemma NoDup_map_of_nat l : NoDup l -> NoDup (map Z.of_nat l).
Proof.
  induction 1 as [|x l Hx Hn IH]; cbn; constructor; [|assumption].
  intros Hin. apply in_map_iff in Hin. destruct Hin as [y [E Hy]]. apply Nat2Z.inj in E. subst. contradiction.
Qed.

Lemma nth_error_ext {A} (l1 l2 : list A) : (forall j, nth_error l1 j = nth_error l2 j) -> l1 = l2.
Proof.
  revert l2. induction l1 as [|a l1 IH]; intros [|b l2] H; try reflexivity; try (specialize (H 0%nat); discriminate).
  f_equal; [specialize (H 0%nat); cbn in H; congruence | apply IH; intros j; apply (H (S j))].
Qed.

(* C10_batch_complete *)
Lemma cm_batch_complete : forall leaves t d indexes dflt,
  cm_new leaves = Some t -> length leaves = 2 ^ d -> 1 <= d <= 62 ->
  indexes <> [] -> length indexes <= 255 -> NoDup indexes -> (forall i, In i indexes -> i < length leaves) ->
  exists nodes, cm_prove_batch t indexes = Some nodes /\
    cm_verify_batch (cm_root t) indexes (map (fun i => nth i leaves dflt) indexes) nodes d = AuthOk.
Proof.
  intros leaves t d indexes dflt Hnew Hl Hd Hne Hlen Hnd Hin.
  unfold FriMerkle.cm_new in Hnew.
  destruct (mt_new D d0 merge leaves) as [t'| |] eqn:Ht; try discriminate. injection Hnew as ->.
  destruct (build_nodes_spec D d0 merge leaves t Ht) as [Hleaves [d' WF]].
  assert (Ed : d' = d).
  { pose proof (wf_leaves _ _ _ _ _ WF) as W. rewrite Hleaves, (zlen_pow2 _ _ Hl) in W.
    apply Z.pow_inj_r in W; lia. }
  subst d'.
  pose proof (root_hval D d0 merge t d WF ltac:(lia)) as Hroot.
  destruct (batch_complete D D_eqb D_eqb_spec d0 merge leaves t d (hval D d0 t 1) (map Z.of_nat indexes) Ht
              (zlen_pow2 _ _ Hl) ltac:(lia) Hroot) as [p [Hp [Hdp [Hlp [Hnth [_ Hv]]]]]].
  - destruct indexes; [contradiction | discriminate].
  - unfold zlen. rewrite map_length. lia.
  - now apply NoDup_map_of_nat.
  - intros i Hi. apply in_map_iff in Hi. destruct Hi as [j [<- Hj]]. specialize (Hin j Hj). unfold zlen. lia.
  - exists (bp_nodes p). unfold FriMerkle.cm_prove_batch. rewrite Hp. split; [reflexivity|].
    unfold FriMerkle.cm_verify_batch, FriMerkle.cm_root. rewrite Hroot.
    assert (Ep : cm_proof D (map (fun i => nth i leaves dflt) indexes) (bp_nodes p) d = p).
    { unfold cm_proof. destruct p as [pl pn pd]. cbn in *. f_equal; [|congruence].
      symmetry. apply nth_error_ext. intros j. rewrite map_length in Hlp.
      destruct (nth_error indexes j) as [i|] eqn:Ei.
      - rewrite (Hnth j (Z.of_nat i)) by now rewrite nth_error_map, Ei.
        rewrite Nat2Z.id, nth_error_map, Ei. cbn.
        apply nth_error_nth'. apply Hin. eapply nth_error_In; eassumption.
      - rewrite nth_error_map, Ei. cbn. apply nth_error_None. apply nth_error_None in Ei. lia. }
    rewrite Ep, Hv. reflexivity.
Qed.

(* C10_batch_binding_two *)
Definition cm_find_collision (root : D) (indexes : list nat) (a b : list D * list (list D) * nat) : option ((D * D) * (D * D)) :=
  let '(l1, n1, d1) := a in
  let '(l2, n2, d2) := b in
  find_batch_collision2 D D_eqb d0 merge (cm_proof D l1 n1 d1) (cm_proof D l2 n2 d2) (map Z.of_nat indexes).

Lemma cm_verify_get_root root indexes leaves nodes d :
  cm_verify_batch root indexes leaves nodes d = AuthOk ->
  get_root D merge (cm_proof D leaves nodes d) (map Z.of_nat indexes) = Merkle.Ok root.
Proof.
  unfold FriMerkle.cm_verify_batch, verify_batch.
  destruct (get_root D merge _ _) as [r| |]; cbn [Merkle.bind]; try discriminate.
  destruct (D_eqb root r) eqn:E; [|discriminate]. apply D_eqb_spec in E. now subst.
Qed.

Lemma cm_binding : forall root indexes l1 n1 l2 n2 d,
  1 <= d ->
  cm_verify_batch root indexes l1 n1 d = AuthOk -> cm_verify_batch root indexes l2 n2 d = AuthOk ->
  length l1 = length l2 ->
  l1 = l2 \/ exists c, cm_find_collision root indexes (l1, n1, d) (l2, n2, d) = Some c /\ is_collision D merge c.
Proof.
  intros root indexes l1 n1 l2 n2 d Hd V1 V2 _.
  apply cm_verify_get_root in V1, V2.
  assert (Hu : usize_list (map Z.of_nat indexes)).
  { intros x Hx. apply in_map_iff in Hx. destruct Hx as [j [<- _]]. lia. }
  destruct (batch_binding_two D D_eqb D_eqb_spec d0 merge (cm_proof D l1 n1 d) (cm_proof D l2 n2 d)
              (map Z.of_nat indexes) root d Hd eq_refl eq_refl Hu V1 V2) as [E|C].
  - left. exact E.
  - right. exact C.
Qed.

(* ---------------------------------------------------------------- C05_fri_binding, unconditional w.r.t. Merkle *)
Section Binding.
Context {F : Type} (O : FOps F) (L : FLaws O).
Variable hash_elements : list F -> D.

Theorem fri_binding_merkle : forall N ds pl1 pl2 q1 q2 l1 l2 n1 n2 d1 d2 commitment indexes,
  parse_layer D hash_elements (list (list D)) N ds pl1 = Some (Some (q1, (l1, n1, d1))) ->
  parse_layer D hash_elements (list (list D)) N ds pl2 = Some (Some (q2, (l2, n2, d2))) ->
  cm_verify_batch commitment indexes l1 n1 d1 = AuthOk ->
  cm_verify_batch commitment indexes l2 n2 d2 = AuthOk ->
  length l1 = length l2 ->
  exists rows1 rows2, group_slice N q1 = Ok rows1 /\ group_slice N q2 = Ok rows2 /\
    (rows1 = rows2 \/
     (exists r1 r2, find_row_collision O rows1 rows2 = Some (r1, r2) /\ r1 <> r2 /\ hash_elements r1 = hash_elements r2) \/
     (exists c, cm_find_collision commitment indexes (l1, n1, d1) (l2, n2, d2) = Some c /\ is_collision D merge c)).
Proof.
  exact (fri_binding O L D hash_elements (list (list D)) cm_verify_batch _ cm_find_collision (is_collision D merge) cm_binding).
Qed.
End Binding.

(* ---------------------------------------------------------------- C15_fri_complete with the Merkle model of C10 *)
Section Complete.
Context {F : Type} (O : FOps F) (L : FLaws O).
Variable rou : nat -> F.
Variable K : nat.
Hypothesis K_pos : 1 <= K.
Hypothesis rou_sq : forall k, k < K -> fmul O (rou (S k)) (rou (S k)) = rou k.
Hypothesis rou_1 : rou 1 = fneg O (fone O).
Hypothesis two_nz : fadd O (fone O) (fone O) <> fzero O.
Variable gen_offset : F.
Hypothesis offset_nz : gen_offset <> fzero O.
Variable dbg : bool.
Variable hash_elements : list F -> D.
Variable CS : Type.
Variable cs_reseed : CS -> D -> CS.
Variable cs_draw : CS -> CS * draw_res F.
Hypothesis draw_total : forall c, exists c' a, cs_draw c = (c', DrawOk a).

Theorem fri_complete_merkle : forall f b remmax, 1 <= f -> supported_folding (2 ^ f) = true ->
  forall a k P positions coin0,
  num_fri_layers (mkOpts (2 ^ b) (2 ^ f) remmax) (2 ^ a) = Some k -> k * f < a -> b <= a - k * f -> a <= K -> a <= 62 ->
  length P = 2 ^ (a - b) -> pos_ok a positions ->
  let evals := coset_evals O P gen_offset (rou a) (2 ^ a) in
  exists cs proof p',
    prove O rou K gen_offset D hash_elements (mtree D) (list (list D)) cm_new cm_root cm_prove_batch CS cs_reseed cs_draw
          (mkOpts (2 ^ b) (2 ^ f) remmax) coin0 evals positions = Ok (cs, proof, p') /\
    run_verifier O rou K gen_offset dbg D D_eqb hash_elements (list (list D)) cm_verify_batch CS cs_reseed cs_draw true
          (mkOpts (2 ^ b) (2 ^ f) remmax) coin0 proof cs (2 ^ (a - b) - 1) (2 ^ a) (evals_at O evals positions) positions
    = RunVerdict (Ok tt).
Proof.
  intros f b remmax Hf Hs.
  exact (fri_complete O L rou K K_pos rou_sq rou_1 two_nz gen_offset offset_nz dbg D D_eqb D_eqb_spec hash_elements
           (mtree D) (list (list D)) cm_new cm_root cm_prove_batch cm_verify_batch CS cs_reseed cs_draw
           cm_new_ok cm_batch_complete draw_total f b remmax Hf Hs).
Qed.
End Complete.

End Inst.
