(* C20 — expansion from roots (fill_zero_roots / poly_from_roots) and the algebra of multiplying / dividing a
   coefficient list by a linear factor (x - r).  stdlib style. *)
From Coq Require Import List Arith Bool Lia Ring Field.
From VBase Require Import FieldOps.
From VModel Require Import Polynom.
From VProofs Require Import PolyBase PolyArith PolyDiv.
Import ListNotations.

Section Roots.
Context {F : Type} (O : FOps F) (L : FLaws O).
Local Notation zero := (fzero O).
Local Notation one := (fone O).
Local Notation "a +f b" := (fadd O a b) (at level 50, left associativity).
Local Notation "a -f b" := (fsub O a b) (at level 50, left associativity).
Local Notation "a *f b" := (fmul O a b) (at level 40, left associativity).
Local Notation peval := (peval O).
Local Notation fpow := (fpow O).
Local Notation pprod := (pprod O).

Add Ring Fring : (FLaws_ring_theory O L).
Add Field Ffield : (FLaws_field_theory O L).

(* coefficients of (x - r) * q + prev :  d_0 = prev - q_0 r, d_k = q_{k-1} - q_k r, d_len = q_{len-1} *)
Fixpoint linmul_aux (prev : F) (q : list F) (r : F) : list F :=
  match q with
  | [] => [prev]
  | c :: t => (prev -f c *f r) :: linmul_aux c t r
  end.
Definition linmul (q : list F) (r : F) : list F := linmul_aux zero q r.

(* the specification of poly_from_roots: multiply 1 by (x - xs_0), (x - xs_1), ... in this order *)
Definition roots_poly (xs : list F) : list F := fold_left linmul xs [one].

Lemma linmul_aux_length : forall q prev r, length (linmul_aux prev q r) = S (length q).
Proof. induction q; simpl; intros; auto. Qed.

Lemma linmul_aux_peval x : forall q prev r, peval (linmul_aux prev q r) x = prev +f (x -f r) *f peval q x.
Proof. induction q as [|c t IH]; intros prev r; simpl. ring. rewrite IH. ring. Qed.

Lemma linmul_peval q r x : peval (linmul q r) x = (x -f r) *f peval q x.
Proof. unfold linmul. rewrite linmul_aux_peval. ring. Qed.

Lemma linmul_length q r : length (linmul q r) = S (length q).
Proof. apply linmul_aux_length. Qed.

Lemma linmul_aux_nth : forall q prev r k,
  nth k (linmul_aux prev q r) zero = (match k with 0 => prev | S k' => nth k' q zero end) -f r *f nth k q zero.
Proof.
  induction q as [|c t IH]; intros prev r k.
  - destruct k as [|k]; simpl. ring. destruct k; simpl; ring.
  - destruct k as [|k]. simpl. ring.
    cbn [linmul_aux nth]. rewrite IH. destruct k; simpl; ring.
Qed.

Lemma linmul_comm q a b : linmul (linmul q a) b = linmul (linmul q b) a.
Proof.
  apply (list_ext _ _ zero). now rewrite !linmul_length.
  intros k _. unfold linmul. rewrite !linmul_aux_nth.
  destruct k as [|[|k]]; rewrite ?linmul_aux_nth; ring.
Qed.

(* exact division undoes the multiplication *)
Lemma syn_lin_linmul_aux r : forall q prev, syn_lin O (linmul_aux prev q r) r = (q ++ [zero], prev).
Proof.
  induction q as [|c t IH]; intros prev.
  - simpl. f_equal. ring.
  - cbn [linmul_aux syn_lin]. rewrite IH. simpl. f_equal. ring.
Qed.

Lemma syn_lin_linmul q r : syn_lin O (linmul q r) r = (q ++ [zero], zero).
Proof. apply syn_lin_linmul_aux. Qed.

Lemma fold_linmul_comm : forall xs q r, fold_left linmul xs (linmul q r) = linmul (fold_left linmul xs q) r.
Proof.
  induction xs as [|h t IH]; intros q r; simpl. reflexivity.
  rewrite linmul_comm. apply IH.
Qed.

Lemma fold_linmul_peval x : forall xs q, peval (fold_left linmul xs q) x = peval q x *f pprod xs x.
Proof.
  induction xs as [|h t IH]; intros q; simpl. ring.
  rewrite IH, linmul_peval. ring.
Qed.

Lemma fold_linmul_length : forall xs q, length (fold_left linmul xs q) = length q + length xs.
Proof.
  induction xs as [|h t IH]; intros q; simpl. lia. rewrite IH, linmul_length. lia.
Qed.

Lemma roots_poly_peval xs x : peval (roots_poly xs) x = pprod xs x.
Proof. unfold roots_poly. rewrite fold_linmul_peval. simpl. ring. Qed.

Lemma roots_poly_length xs : length (roots_poly xs) = S (length xs).
Proof. unfold roots_poly. rewrite fold_linmul_length. reflexivity. Qed.

(* removing the k-th root: the product factors as (x - xs_k) * (the rest), as coefficient lists *)
Lemma roots_poly_split xs1 r xs2 : roots_poly (xs1 ++ r :: xs2) = linmul (roots_poly (xs1 ++ xs2)) r.
Proof.
  unfold roots_poly. rewrite !fold_left_app. simpl. apply fold_linmul_comm.
Qed.

Lemma linmul_aux_last : forall q prev r, q <> [] -> last (linmul_aux prev q r) zero = last q zero.
Proof.
  induction q as [|c t IH]; intros prev r H; [congruence|].
  destruct t as [|c' t']. reflexivity.
  change (linmul_aux prev (c :: c' :: t') r) with ((prev -f c *f r) :: linmul_aux c (c' :: t') r).
  assert (Hne : linmul_aux c (c' :: t') r <> []) by (simpl; discriminate).
  destruct (linmul_aux c (c' :: t') r) eqn:E; [congruence|]. rewrite <- E.
  change (last (c :: c' :: t') zero) with (last (c' :: t') zero).
  transitivity (last (linmul_aux c (c' :: t') r) zero). { rewrite E. reflexivity. }
  apply IH. discriminate.
Qed.

Lemma roots_poly_monic xs : last (roots_poly xs) zero = one.
Proof.
  unfold roots_poly. assert (G : forall q, q <> [] -> last (fold_left linmul xs q) zero = last q zero).
  { induction xs as [|h t IH]; intros q Hq; simpl. reflexivity.
    rewrite IH. now apply linmul_aux_last. unfold linmul. destruct q; simpl; discriminate. }
  rewrite G by discriminate. reflexivity.
Qed.

Lemma pprod_root : forall xs r, In r xs -> pprod xs r = zero.
Proof.
  induction xs as [|h t IH]; intros r H; simpl in *. tauto.
  destruct H as [H|H]. subst. ring. rewrite IH by assumption. ring.
Qed.

Lemma pprod_nonroot : forall xs r, ~ In r xs -> pprod xs r <> zero.
Proof.
  induction xs as [|h t IH]; intros r H; simpl in *. apply (fl_one_neq_zero O L).
  apply (fmul_nonzero O L). intros E. apply H. left. symmetry. now apply (fsub_eq_zero O L).
  apply IH. tauto.
Qed.

Lemma pprod_app xs ys x : pprod (xs ++ ys) x = pprod xs x *f pprod ys x.
Proof. induction xs; simpl. ring. rewrite IHxs. ring. Qed.

(* ------------------------------------------------------------------ fill_zero_roots *)
Definition fzr_inner_body (xi : F) : nat -> list F -> Result (list F) :=
  fun j r => rj <- get r j;; rj1 <- get r (j + 1);; set r j (rj -f rj1 *f xi).

Definition fzr_outer_body (xs : list F) : nat -> list F * nat -> Result (list F * nat) :=
  fun i st =>
    let '(r, n) := st in
    match n with
    | 0 => Panic
    | S n' =>
      r <- set r n' zero;;
      xi <- get xs i;;
      r <- for_up n' (length xs - n') (fzr_inner_body xi) r;;
      Ok (r, n')
    end.

Lemma fill_zero_roots_unfold xs result :
  fill_zero_roots O xs result =
  match length result with
  | 0 => Panic
  | S n0 => r <- set result n0 one;; st <- for_up 0 (length xs) (fzr_outer_body xs) (r, n0);; Ok (fst st)
  end.
Proof. reflexivity. Qed.

Lemma fzr_inner xi : forall rest pre cur,
  for_up (length pre) (length rest) (fzr_inner_body xi) (pre ++ cur :: rest) = Ok (pre ++ linmul_aux cur rest xi).
Proof.
  induction rest as [|c t IH]; intros pre cur. reflexivity.
  cbn [length for_up]. unfold fzr_inner_body at 1.
  rewrite get_app_mid. cbn [bind].
  replace (pre ++ cur :: c :: t) with ((pre ++ [cur]) ++ c :: t) at 1 by (rewrite <- app_assoc; reflexivity).
  replace (length pre + 1) with (length (pre ++ [cur])) by (rewrite app_length; reflexivity).
  rewrite get_app_mid. cbn [bind].
  rewrite set_ok by (rewrite app_length; simpl; lia). rewrite upd_app_mid.
  replace (pre ++ (cur -f c *f xi) :: c :: t) with ((pre ++ [cur -f c *f xi]) ++ c :: t)
    by (rewrite <- app_assoc; reflexivity).
  replace (S (length pre)) with (length (pre ++ [cur -f c *f xi])) by (rewrite app_length; simpl; lia).
  rewrite IH. rewrite <- app_assoc. reflexivity.
Qed.

Lemma list_snoc_inv {A} (l : list A) k : length l = S k -> exists l' a, l = l' ++ [a] /\ length l' = k.
Proof.
  intros H. destruct (exists_last (l := l)) as (l' & a & E). { destruct l; simpl in H; [discriminate|discriminate]. }
  exists l', a. split; auto. subst l. rewrite app_length in H. simpl in H. lia.
Qed.

Lemma fzr_outer xs : forall xs2 xs1 junk q, xs = xs1 ++ xs2 -> length junk = length xs2 -> length q = S (length xs1) ->
  for_up (length xs1) (length xs2) (fzr_outer_body xs) (junk ++ q, length junk) = Ok (fold_left linmul xs2 q, 0).
Proof.
  induction xs2 as [|xi xs2 IH]; intros xs1 junk q Hxs Hj Hq.
  - destruct junk; [|discriminate]. reflexivity.
  - destruct (list_snoc_inv junk (length xs2) Hj) as (junk' & jl & Ej & Hj').
    assert (Hstep : fzr_outer_body xs (length xs1) (junk ++ q, length junk) = Ok (junk' ++ linmul q xi, length junk')).
    { unfold fzr_outer_body. rewrite Hj. cbn [length]. subst junk. rewrite <- Hj'.
      rewrite set_ok by (rewrite !app_length; simpl; lia).
      rewrite <- app_assoc. simpl ([jl] ++ q). rewrite upd_app_mid. cbn [bind].
      assert (Hg : get xs (length xs1) = Ok xi) by (rewrite Hxs; apply get_app_mid). rewrite Hg. cbn [bind].
      replace (length xs - length junk') with (length q)
        by (rewrite Hxs, app_length; simpl; lia).
      unfold linmul. rewrite (fzr_inner xi q junk' zero). reflexivity. }
    cbn [length for_up]. rewrite Hstep.
    replace (S (length xs1)) with (length (xs1 ++ [xi])) by (rewrite app_length; simpl; lia).
    rewrite (IH (xs1 ++ [xi]) junk' (linmul q xi)).
    + reflexivity.
    + rewrite Hxs, <- app_assoc. reflexivity.
    + exact Hj'.
    + rewrite linmul_length, app_length. simpl. lia.
Qed.

(* whatever the initial content of the (uninitialised) vector of length n+1 *)
Lemma fill_zero_roots_spec xs init : length init = S (length xs) -> fill_zero_roots O xs init = Ok (roots_poly xs).
Proof.
  intros H. rewrite fill_zero_roots_unfold. rewrite H.
  destruct (list_snoc_inv init (length xs) H) as (junk & jl & E & Hj). subst init.
  rewrite set_ok by (rewrite app_length; simpl; lia). rewrite <- Hj, upd_app_mid. cbn [bind].
  pose proof (fzr_outer xs xs [] junk [one] eq_refl Hj eq_refl) as G. simpl in G.
  rewrite Hj in *. rewrite G. reflexivity.
Qed.

Lemma poly_from_roots_spec xs : poly_from_roots O xs = Ok (roots_poly xs).
Proof.
  unfold poly_from_roots, poly_from_roots_init. apply fill_zero_roots_spec. rewrite repeat_length. lia.
Qed.

End Roots.
