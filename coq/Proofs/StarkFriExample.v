(* C01 — non-vacuity of `stark_complete_all_stages` (Proofs/StarkFri.v): an instance over Z/17 in which EVERY hypothesis
   holds: roots of unity rou = (1, 16, 4, 2, 6), LDE domain 3*<2> (8 points, blowup 2), trace length 4, constraint
   evaluation domain 3*<2> (8 points), FRI with folding 2, one layer and a 4-point remainder, Merkle model with D = Z. *)
From Coq Require Import List Arith Bool ZArith Lia Ring Field.
From VBase Require Import FieldOps ZpOps.
From VModel Require Import Stark.
From VModel Require FFT Transcript Fri.
From VProofs Require Import NumTheoryFermat NumTheoryPrime ZpLaws StarkPoly StarkDeep StarkComplete StarkInst StarkFri StarkExamples.
From VProofs Require FFTSpec FFTEval FFTOffset TranscriptExamples.
From VProps Require C09.
Import ListNotations.
Open Scope nat_scope.

Definition rouF (k : nat) : Zp 17%Z := match k with 0 => fone O17 | 1 => e17 16%Z | 2 => e17 4%Z | 3 => e17 2%Z | _ => e17 6%Z end.
Definition T4 : list (Zp 17%Z) := [e17 5%Z; fzero O17; fzero O17; fzero O17].     (* one constant column, trace length 4 *)
Definition g4 : Zp 17%Z := e17 4%Z.                                                (* = rouF 2, order 4 *)
Definition coin4 : @Coin (Zp 17%Z) := mkCoin (e17 9%Z) [e17 7%Z] [e17 11%Z] [e17 3%Z; e17 5%Z].
Definition air4 (x : Zp 17%Z) (cur nxt : list (Zp 17%Z)) : Zp 17%Z :=
  fadd O17
    (fmul O17 (fmul O17 (fsub O17 (nth 0 nxt (fzero O17)) (nth 0 cur (fzero O17))) (pprod O17 (exempt O17 g4 4 1) x))
              (finv O17 (fsub O17 (fpow O17 x 4) (fone O17))))
    (fmul O17 (fsub O17 (nth 0 cur (fzero O17)) (e17 5%Z)) (finv O17 (fsub O17 x (fone O17)))).
Definition itw8 : list (Zp 17%Z) := match FFT.get_inv_twiddles O17 4 rouF (2 ^ 3) with Some l => l | None => [] end.
Definition draw4 (c : unit) : unit * Fri.draw_res (Zp 17%Z) := (c, Fri.DrawOk (e17 5%Z)).

Lemma T4_eval x : peval O17 T4 x = e17 5%Z.
Proof. unfold T4. cbn [Stark.peval]. ring. Qed.

Lemma exK : 1 <= 4. Proof. lia. Qed.
Lemma ex_rou_sq : forall k, k < 4 -> fmul O17 (rouF (S k)) (rouF (S k)) = rouF k.
Proof. intros k Hk. do 4 (destruct k as [|k]; [zp_eq|]). lia. Qed.
Lemma ex_rou_1 : rouF 1 = fneg O17 (fone O17). Proof. zp_eq. Qed.
Lemma ex_two : fadd O17 (fone O17) (fone O17) <> fzero O17. Proof. intros E. zp_neq E. Qed.
Lemma ex_offnz : e17 3%Z <> fzero O17. Proof. intros E. zp_neq E. Qed.
Lemma ex_draw : forall c, exists c' a, draw4 c = (c', Fri.DrawOk a). Proof. intros c. exists c, (e17 5%Z). reflexivity. Qed.
Lemma ex_fpos : 1 <= 1. Proof. lia. Qed.
Lemma ex_fsup : Fri.supported_folding (2 ^ 1) = true. Proof. reflexivity. Qed.
Lemma ex_layers : Fri.num_fri_layers (Fri.mkOpts (2 ^ 1) (2 ^ 1) 1) (2 ^ 3) = Some 1. Proof. reflexivity. Qed.
Lemma ex_kf : 1 * 1 < 3. Proof. lia. Qed.
Lemma ex_b : 1 <= 3 - 1 * 1. Proof. simpl; lia. Qed.
Lemma ex_aK : 3 <= 4. Proof. lia. Qed.
Lemma ex_a62 : 3 <= 62. Proof. lia. Qed.
Lemma ex_ta' : 3 <= 4. Proof. lia. Qed.
Lemma ex_root' : FFTSpec.root_cond O17 3 (rouF 3). Proof. cbn [FFTSpec.root_cond]. zp_eq. Qed.
Lemma ex_get' : FFT.get_inv_twiddles O17 4 rouF (2 ^ 3) = Some itw8.
Proof.
  destruct (C09.C09_get_inv_twiddles _ O17 L17 4 rouF 2 (rouF 3) ex_ta' eq_refl ex_root') as (itw' & E & _).
  unfold itw8. rewrite E. reflexivity.
Qed.
Lemma ex_ninv' : fmul O17 (FFTSpec.two_pow_f O17 3) (FFTOffset.n_inv O17 3) = fone O17. Proof. zp_eq. Qed.

Example stark_complete_all_stages_instance :
  exists pf,
    prove O17 Z (Opening Z) (FriProof Z (list (list Z)))
          (commit O17 Z 0%Z Z.add (fun _ => 0%Z) (lde_of O17 rouF (e17 3%Z) 3)) (open_prove O17 Z 0%Z Z.add (fun _ => 0%Z) (lde_of O17 rouF (e17 3%Z) 3))
          (fri_prove O17 rouF 4 (e17 3%Z) Z (fun _ => 0%Z) (Merkle.mtree Z) (list (list Z)) (mt_new' Z 0%Z Z.add) (mt_root' Z 0%Z)
                     (mt_prove_batch' Z 0%Z) unit (fun c _ => c) draw4 1 1 1 3 tt)
          air4 (interp_ce O17 4 itw8 2 (rouF 3) (e17 3%Z))
          (mkParams (2 ^ (3 - 1)) g4 1 false true) (coin_prover (fun _ => coin4) TranscriptExamples.s0) [T4] = Done pf /\
    verify O17 Z (Opening Z) (FriProof Z (list (list Z))) (open_ok O17 Z Z.eqb Z.add (fun _ => 0%Z) (lde_of O17 rouF (e17 3%Z) 3))
           (fri_verify O17 rouF 4 (e17 3%Z) true Z Z.eqb (fun _ => 0%Z) (list (list Z)) (mt_verify_batch' Z Z.eqb Z.add)
                       unit (fun c _ => c) draw4 1 1 1 3 tt)
           air4 (mkParams (2 ^ (3 - 1)) g4 1 false true) (coin_verifier (fun _ => coin4) TranscriptExamples.s0) pf = None.
Proof.
  apply (stark_complete_all_stages O17 L17 Z Z.eqb Z.eqb_eq 0%Z Z.add (fun _ => 0%Z) rouF 4 exK ex_rou_sq ex_rou_1 ex_two
           (e17 3%Z) ex_offnz unit (fun c _ => c) draw4 ex_draw tt (fun _ => coin4) 1 1 1 3 1 ex_fpos ex_fsup ex_layers ex_kf ex_b ex_aK ex_a62
           4 itw8 2 ex_ta' ex_root' ex_get' ex_ninv' true air4 1 2 g4 true TranscriptExamples.s0 [T4] 1 [] [([], [fone O17])]).
  all: cbn [coin_prover c_z c_xs coin4].
  - (* primitive_root g4 4 *) split; [zp_eq|]. intros i j Hi Hj E. simpl in Hi, Hj.
    do 4 (destruct i as [|i]; [do 4 (destruct j as [|j]; [first [reflexivity | zp_neq E]|]); lia|]). lia.
  - intros E. zp_neq E.
  - simpl; lia.
  - lia.
  - reflexivity.
  - lia.
  - discriminate.
  - repeat constructor.
  - simpl; lia.
  - intros i _. reflexivity.
  - simpl; lia.
  - constructor; [|constructor]. cbn [fst snd]. split; [repeat constructor; intros []|]. split.
    + intros r [<-|[]]. apply (In_domain O17). exists 0. split; [simpl; lia | reflexivity].
    + split; [intros r _; reflexivity | simpl; lia].
  - intros x _. unfold air4, combined. cbn [evals map nth bsum Stark.peval]. rewrite !T4_eval. ring.
  - intros H. apply (In_domain O17) in H. destruct H as (i & Hi & E). simpl in Hi. do 4 (destruct i as [|i]; [zp_neq E|]). lia.
  - intros E. zp_neq E.
  - intros E. zp_neq E.
  - intros x [<-|[<-|[]]]; unfold lde_of; apply in_map_iff.
    + exists 0. split; [zp_eq | simpl; tauto].
    + exists 6. split; [zp_eq | simpl; tauto].
  - constructor; [intros [E|[]]; zp_neq E | constructor; [intros [] | constructor]].
  - discriminate.
  - simpl; lia.
  - intros x [<-|[<-|[]]]; split; intros E; zp_neq E.
Qed.
