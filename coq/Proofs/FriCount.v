(* C05 — the one probabilistic step of FRI soundness that is pure counting: for a last-layer function E fixed
   before the queries and a remainder R, check (e) of the verifier passes on a vector of q last-layer positions
   iff every position is "good" (R agrees with E there), and exactly (n - #bad)^q of the n^q vectors pass.
   (Partial: it counts vectors of LAST-LAYER positions; the map from first-layer query positions through
   fold_positions, and the proximity-gap argument relating distance to #bad, are not treated.)  stdlib style. *)
From Coq Require Import List Arith Bool Lia.
From VBase Require Import FieldOps.
From VModel Require Import Fri.
From VProofs Require Import FriIdx.
Import ListNotations.

Fixpoint vectors (n q : nat) : list (list nat) :=
  match q with
  | 0 => [[]]
  | S q' => flat_map (fun p => map (cons p) (vectors n q')) (seq 0 n)
  end.

Lemma filter_flat_map {A B} (P : B -> bool) (h : A -> list B) l :
  filter P (flat_map h l) = flat_map (fun x => filter P (h x)) l.
Proof. induction l as [|a l IH]; cbn; [reflexivity | now rewrite filter_app, IH]. Qed.

Lemma flat_map_length_count {A B} (good : A -> bool) (h : A -> list B) c l :
  (forall x, length (h x) = if good x then c else 0) ->
  length (flat_map h l) = length (filter good l) * c.
Proof.
  intros H. induction l as [|a l IH]; cbn; [reflexivity|].
  rewrite app_length, IH, H. destruct (good a); cbn; lia.
Qed.

Lemma vectors_length n q : length (vectors n q) = n ^ q.
Proof.
  induction q as [|q IH]; [reflexivity|]. cbn [vectors Nat.pow].
  rewrite (flat_map_length_count (fun _ => true) _ (n ^ q)).
  - assert (G : forall l : list nat, filter (fun _ => true) l = l) by (induction l; cbn; congruence).
    now rewrite G, seq_length.
  - intros x. now rewrite map_length.
Qed.

Theorem passing_vectors_count (good : nat -> bool) n q :
  length (filter (forallb good) (vectors n q)) = length (filter good (seq 0 n)) ^ q.
Proof.
  induction q as [|q IH]; [reflexivity|]. cbn [vectors Nat.pow].
  rewrite filter_flat_map.
  rewrite (flat_map_length_count good _ (length (filter good (seq 0 n)) ^ q)); [reflexivity|].
  intros p. rewrite <- IH.
  assert (G : forall V, filter (forallb good) (map (cons p) V)
                        = if good p then map (cons p) (filter (forallb good) V) else []).
  { induction V as [|v V IHV]; cbn [map filter forallb]; [now destruct (good p)|].
    rewrite IHV. destruct (good p); cbn [andb]; [destruct (forallb good v); reflexivity | reflexivity]. }
  rewrite G. destruct (good p); [now rewrite map_length | reflexivity].
Qed.

Lemma filter_partition_length {A} (g : A -> bool) l :
  length (filter g l) + length (filter (fun x => negb (g x)) l) = length l.
Proof. induction l as [|a l IH]; cbn; [reflexivity | destruct (g a); cbn; lia]. Qed.

(* ---------------------------------------------------------------- from LDE positions to last-layer positions *)
(* the positions the verifier reaches after k layers: P_0 = ps, P_{i+1} = fold_positions P_i *)
Fixpoint fold_chain (k : nat) (ps : list nat) (d N : nat) : list nat :=
  match k with 0 => ps | S k' => fold_chain k' (fold_positions_core ps (d / N)) (d / N) N end.

Lemma fold_core_In ps t x : In x (fold_positions_core ps t) <-> exists p, In p ps /\ x = p mod t.
Proof.
  rewrite fold_positions_core_dedup, dedup_In, in_map_iff. split; intros [p [A B]]; exists p; auto.
Qed.

Lemma mod_mod_mul p n c : n <> 0 -> c <> 0 -> (p mod (n * c)) mod n = p mod n.
Proof. intros Hn Hc. rewrite Nat.mod_mul_r by assumption. rewrite Nat.mul_comm, Nat.mod_add by assumption. now apply Nat.mod_mod. Qed.

Lemma fold_chain_In : forall k ps n N x, N <> 0 -> n <> 0 -> (forall p, In p ps -> p < n * N ^ k) ->
  (In x (fold_chain k ps (n * N ^ k) N) <-> exists p, In p ps /\ x = p mod n).
Proof.
  induction k as [|k IH]; intros ps n N x HN Hn Hps; cbn [fold_chain Nat.pow].
  - rewrite Nat.mul_1_r in Hps. split.
    + intros H. exists x. split; [assumption|]. symmetry. apply Nat.mod_small. now apply Hps.
    + intros [p [A ->]]. rewrite Nat.mod_small by now apply Hps. assumption.
  - assert (Hd : n * (N * N ^ k) / N = n * N ^ k).
    { replace (n * (N * N ^ k)) with (n * N ^ k * N) by lia. now apply Nat.div_mul. }
    rewrite Hd. assert (Hz : n * N ^ k <> 0) by (apply Nat.neq_mul_0; split; [assumption | now apply Nat.pow_nonzero]).
    rewrite IH; [|assumption|assumption|].
    + split.
      * intros [y [Hy ->]]. apply fold_core_In in Hy. destruct Hy as [p [Hp ->]]. exists p. split; [assumption|].
        apply mod_mod_mul; [assumption | now apply Nat.pow_nonzero].
      * intros [p [Hp ->]]. exists (p mod (n * N ^ k)). split; [apply fold_core_In; eauto|].
        symmetry. apply mod_mod_mul; [assumption | now apply Nat.pow_nonzero].
    + intros y Hy. apply fold_core_In in Hy. destruct Hy as [p [_ ->]]. now apply Nat.mod_upper_bound.
Qed.

Lemma forallb_fold_chain (good : nat -> bool) k ps n N : N <> 0 -> n <> 0 -> (forall p, In p ps -> p < n * N ^ k) ->
  forallb good (fold_chain k ps (n * N ^ k) N) = forallb (fun p => good (p mod n)) ps.
Proof.
  intros HN Hn Hps. apply eq_true_iff_eq. rewrite !forallb_forall. split.
  - intros H p Hp. apply H. apply fold_chain_In; eauto.
  - intros H x Hx. apply fold_chain_In in Hx; try assumption. destruct Hx as [p [Hp ->]]. now apply H.
Qed.

Lemma vectors_entries n q v : In v (vectors n q) -> forall p, In p v -> p < n.
Proof.
  revert v. induction q as [|q IH]; intros v Hv p Hp; cbn [vectors] in Hv.
  - destruct Hv as [<-|[]]. destruct Hp.
  - apply in_flat_map in Hv. destruct Hv as [a [Ha Hv]]. apply in_map_iff in Hv. destruct Hv as [v' [<- Hv']].
    destruct Hp as [<-|Hp]; [apply in_seq in Ha; lia | eapply IH; eassumption].
Qed.

Lemma filter_map_length {A B} (g : B -> bool) (f : A -> B) l : length (filter g (map f l)) = length (filter (fun x => g (f x)) l).
Proof. induction l as [|a l IH]; cbn; [reflexivity | destruct (g (f a)); cbn; now rewrite IH]. Qed.

Lemma seq_shift_map n : forall a, seq a n = map (fun i => a + i) (seq 0 n).
Proof.
  induction n as [|n IH]; intros a; cbn [seq map]; [reflexivity|].
  rewrite Nat.add_0_r. f_equal. rewrite (IH (S a)), <- seq_shift, map_map. apply map_ext. intros i. lia.
Qed.

(* every last-layer position has exactly m preimages in the LDE domain of size n * m *)
Lemma preimage_count (good : nat -> bool) n : forall m, n <> 0 ->
  length (filter (fun p => good (p mod n)) (seq 0 (n * m))) = m * length (filter good (seq 0 n)).
Proof.
  induction m as [|m IH]; intros Hn; [now rewrite Nat.mul_0_r|].
  replace (n * S m) with (n * m + n) by lia. rewrite seq_app, filter_app, app_length, IH by assumption. cbn [Nat.add].
  rewrite (seq_shift_map n (n * m)).
  rewrite filter_map_length. rewrite (filter_ext_in (fun x => good ((n * m + x) mod n)) good).
  - cbn. lia.
  - intros i Hi. apply in_seq in Hi. f_equal. rewrite Nat.add_comm, Nat.mul_comm, Nat.mod_add by assumption.
    apply Nat.mod_small. lia.
Qed.

(* ---------------------------------------------------------------- several checks at several layers *)
(* a check (i, g): the predicate g must hold at every position the verifier reaches after i foldings (1 <= i <= k;
   these live in the domain of size n * N^(k-i)) *)
Definition level_size (n N k i : nat) : nat := n * N ^ (k - i).

Definition pass_checks (cs : list (nat * (nat -> bool))) (n N k : nat) (ps : list nat) : bool :=
  forallb (fun c => forallb (snd c) (fold_chain (fst c) ps (n * N ^ k) N)) cs.

(* a single LDE position is fine when it reduces into the good set of every check *)
Definition pos_ok_checks (cs : list (nat * (nat -> bool))) (n N k : nat) (p : nat) : bool :=
  forallb (fun c => snd c (p mod level_size n N k (fst c))) cs.

Lemma forallb_swap {A B} (h : A -> B -> bool) (la : list A) (lb : list B) :
  forallb (fun a => forallb (h a) lb) la = forallb (fun b => forallb (fun a => h a b) la) lb.
Proof.
  apply eq_true_iff_eq. rewrite !forallb_forall. split.
  - intros H b Hb. apply forallb_forall. intros a Ha. specialize (H a Ha). rewrite forallb_forall in H. now apply H.
  - intros H a Ha. apply forallb_forall. intros b Hb. specialize (H b Hb). rewrite forallb_forall in H. now apply H.
Qed.

Lemma level_split n N k i : i <= k -> n * N ^ k = level_size n N k i * N ^ i.
Proof. intros H. unfold level_size. rewrite <- Nat.mul_assoc, <- Nat.pow_add_r. do 2 f_equal. lia. Qed.

Theorem pass_checks_pointwise : forall cs n N k ps, N <> 0 -> n <> 0 ->
  (forall c, In c cs -> fst c <= k) -> (forall p, In p ps -> p < n * N ^ k) ->
  pass_checks cs n N k ps = forallb (pos_ok_checks cs n N k) ps.
Proof.
  intros cs n N k ps HN Hn Hcs Hps. unfold pass_checks, pos_ok_checks.
  rewrite <- (forallb_swap (fun c p => snd c (p mod level_size n N k (fst c))) cs ps).
  assert (E : forall c, In c cs ->
            forallb (snd c) (fold_chain (fst c) ps (n * N ^ k) N)
            = forallb (fun p => snd c (p mod level_size n N k (fst c))) ps).
  { intros c Hc. pose proof (Hcs c Hc) as Hi. rewrite (level_split n N k (fst c) Hi).
    apply (forallb_fold_chain (snd c) (fst c) ps (level_size n N k (fst c)) N HN).
    - apply Nat.neq_mul_0. split; [assumption | now apply Nat.pow_nonzero].
    - intros p Hp. rewrite <- (level_split n N k (fst c) Hi). now apply Hps. }
  apply eq_true_iff_eq. rewrite !forallb_forall. split; intros H c Hc; specialize (H c Hc).
  - now rewrite <- (E c Hc).
  - now rewrite (E c Hc).
Qed.

Lemma filter_length_imp {A} (g h : A -> bool) l : (forall x, g x = true -> h x = true) ->
  length (filter g l) <= length (filter h l).
Proof.
  intros H. induction l as [|a l IH]; cbn; [lia|]. destruct (g a) eqn:E.
  - rewrite (H a E). cbn. lia.
  - destruct (h a); cbn; lia.
Qed.

(* exact count over ALL checks, and the upper bound given by any single check *)
Theorem passing_vectors_all_checks : forall cs n N k q, N <> 0 -> n <> 0 -> (forall c, In c cs -> fst c <= k) ->
  let D := n * N ^ k in
  let U := length (filter (fun p => negb (pos_ok_checks cs n N k p)) (seq 0 D)) in
  length (filter (pass_checks cs n N k) (vectors D q)) = (D - U) ^ q /\
  length (vectors D q) = D ^ q /\
  forall i g, In (i, g) cs ->
    let bad := length (filter (fun x => negb (g x)) (seq 0 (level_size n N k i))) in
    (D - U) ^ q <= (D - bad * N ^ i) ^ q.
Proof.
  intros cs n N k q HN Hn Hcs D U. split; [|split; [apply vectors_length|]].
  - rewrite (filter_ext_in _ (forallb (pos_ok_checks cs n N k))).
    2:{ intros ps Hps. apply pass_checks_pointwise; try assumption. intros p Hp. eapply vectors_entries; eassumption. }
    rewrite passing_vectors_count. f_equal.
    pose proof (filter_partition_length (pos_ok_checks cs n N k) (seq 0 D)) as H. rewrite seq_length in H. fold U in H. lia.
  - intros i g Hin bad. apply Nat.pow_le_mono_l.
    pose proof (filter_partition_length (pos_ok_checks cs n N k) (seq 0 D)) as H. rewrite seq_length in H. fold U in H.
    assert (Hi : i <= k) by (apply (Hcs (i, g) Hin)).
    assert (Hle : length (filter (pos_ok_checks cs n N k) (seq 0 D))
                  <= length (filter (fun p => g (p mod level_size n N k i)) (seq 0 D))).
    { apply filter_length_imp. intros x Hx. unfold pos_ok_checks in Hx. rewrite forallb_forall in Hx. apply (Hx (i, g) Hin). }
    unfold D in Hle at 2. rewrite (level_split n N k i Hi) in Hle.
    rewrite preimage_count in Hle by (apply Nat.neq_mul_0; split; [assumption | now apply Nat.pow_nonzero]).
    pose proof (filter_partition_length g (seq 0 (level_size n N k i))) as Hg. rewrite seq_length in Hg. fold bad in Hg.
    assert (HD : D = level_size n N k i * N ^ i) by (apply level_split; assumption).
    nia.
Qed.

Section Check.
Context {F : Type} (O : FOps F).
Variable gen_offset : F.

(* a position is good when the remainder polynomial agrees with the last-layer function there *)
Definition good_position (R : list F) (g : F) (E : list F) (p : nat) : bool :=
  feqb O (eval_horner O R (fmul O gen_offset (fexp O g p))) (nth p E (fzero O)).

Lemma remainder_check_forallb R g E : forall ps,
  remainder_check O gen_offset R g ps (map (fun p => nth p E (fzero O)) ps) = forallb (good_position R g E) ps.
Proof. induction ps as [|p ps IH]; cbn [remainder_check map forallb]; [reflexivity | now rewrite IH]. Qed.

(* fri_query_counting_partial: with `bad` = number of last-layer positions where R and E disagree, exactly
   (n - bad)^q of the n^q position vectors of length q pass check (e); for bad >= delta * n this is at most
   ((1 - delta) n)^q *)
Theorem fri_query_counting_partial : forall R g E n q,
  let bad := length (filter (fun p => negb (good_position R g E p)) (seq 0 n)) in
  length (filter (fun ps => remainder_check O gen_offset R g ps (map (fun p => nth p E (fzero O)) ps)) (vectors n q))
  = (n - bad) ^ q /\ length (vectors n q) = n ^ q.
Proof.
  intros R g E n q bad. split; [|apply vectors_length].
  rewrite (filter_ext _ (forallb (good_position R g E))) by (intros; apply remainder_check_forallb).
  rewrite passing_vectors_count. f_equal.
  pose proof (filter_partition_length (good_position R g E) (seq 0 n)) as H. rewrite seq_length in H.
  unfold bad. lia.
Qed.
(* fri_query_counting_lde_partial: q query positions in the LDE domain of size D = n * N^k (k layers of folding factor
   N, last layer of size n), a last-layer function E fixed before the queries, a remainder R disagreeing with E on
   `bad` of the n last-layer positions.  The verifier folds the positions k times (fold_positions: mod + dedup) and
   runs check (e) on the result; this passes iff every query position reduces (mod n) to a good position, and
   exactly (D - bad * N^k)^q of the D^q position vectors pass — a fraction ((n - bad)/n)^q. *)
Theorem fri_query_counting_lde_partial : forall R g E n N k q, N <> 0 -> n <> 0 ->
  let D := n * N ^ k in
  let bad := length (filter (fun p => negb (good_position R g E p)) (seq 0 n)) in
  length (filter (fun ps => let last := fold_chain k ps D N in
                            remainder_check O gen_offset R g last (map (fun p => nth p E (fzero O)) last))
                 (vectors D q))
  = (D - bad * N ^ k) ^ q /\ length (vectors D q) = D ^ q.
Proof.
  intros R g E n N k q HN Hn D bad. split; [|apply vectors_length].
  rewrite (filter_ext_in _ (forallb (fun p => good_position R g E (p mod n)))).
  2:{ intros ps Hps. cbv zeta. rewrite remainder_check_forallb.
      apply forallb_fold_chain; try assumption. intros p Hp. eapply vectors_entries; eassumption. }
  rewrite passing_vectors_count. f_equal. unfold D.
  rewrite preimage_count by assumption.
  pose proof (filter_partition_length (good_position R g E) (seq 0 n)) as H. rewrite seq_length in H.
  fold bad in H. nia.
Qed.
(* ---------------------------------------------------------------- all query-phase checks of the verifier *)
(* Layer functions committed before the positions are drawn: Es = [E_0; ...; E_(k-1)] (E_j on the domain of size
   n * N^(k-j)), challenges alphas, remainder R.  [foldval] is the value the verifier carries out of a layer: the
   interpolant of the opened row at alpha (Model/Fri.v layer_step).  The comparison `evaluations != query_values`
   (InvalidLayerFolding(j)) at layer j >= 1 and the remainder comparison (InvalidRemainderFolding) are, position by
   position: *)
Variable roots : list F.
Variable N : nat.
Definition foldval (g : F) (E : list F) (rl : nat) (alpha : F) (x : nat) : F :=
  interp_eval O (row_xs O gen_offset roots g x) (row_of (fzero O) N rl E x) alpha.

(* layer check: the committed next function agrees with the fold of the previous one at x *)
Definition good_fold (g : F) (Eprev Enext : list F) (rl : nat) (alpha : F) (x : nat) : bool :=
  feqb O (foldval g Eprev rl alpha x) (nth x Enext (fzero O)).
(* remainder check against the fold of the last committed function *)
Definition good_rem (R : list F) (gk gprev : F) (Eprev : list F) (rl : nat) (alpha : F) (x : nat) : bool :=
  feqb O (eval_horner O R (fmul O gen_offset (fexp O gk x))) (foldval gprev Eprev rl alpha x).

Lemma layer_compare_forallb g Eprev Enext rl alpha : forall P,
  list_feqb O (map (foldval g Eprev rl alpha) P) (map (fun p => nth p Enext (fzero O)) P)
  = forallb (good_fold g Eprev Enext rl alpha) P.
Proof. induction P as [|p P IH]; cbn [map list_feqb forallb]; [reflexivity | now rewrite IH]. Qed.

Lemma remainder_compare_forallb R gk gprev Eprev rl alpha : forall P,
  remainder_check O gen_offset R gk P (map (foldval gprev Eprev rl alpha) P) = forallb (good_rem R gk gprev Eprev rl alpha) P.
Proof. induction P as [|p P IH]; cbn [map remainder_check forallb]; [reflexivity | now rewrite IH]. Qed.

(* fri_query_counting_all_checks_partial: the checks of the whole query phase as a list cs of (level, predicate) — level j for
   the layer comparison j (good_fold), level k for the remainder (good_rem), each a predicate on the positions reached after
   that many foldings.  Then (1) the conjunction of the verifier's comparisons on a position vector equals pass_checks
   (by the two lemmas above, comparison by comparison), (2) a vector passes iff every LDE position reduces, modulo the
   respective layer domain size, into the good set of every check, (3) exactly (D - U)^q of the D^q vectors pass, U = number
   of LDE positions in the union of the preimages of the bad sets, and (4) (D - U)^q <= (D - bad_c * N^level)^q for every
   single check c: the passing fraction is at most (1 - max_c bad_c / |domain_c|)^q. *)
Theorem fri_query_counting_all_checks_partial : forall (cs : list (nat * (nat -> bool))) n k q, N <> 0 -> n <> 0 ->
  (forall c, In c cs -> fst c <= k) ->
  let D := n * N ^ k in
  let U := length (filter (fun p => negb (pos_ok_checks cs n N k p)) (seq 0 D)) in
  (forall ps, (forall p, In p ps -> p < D) -> pass_checks cs n N k ps = forallb (pos_ok_checks cs n N k) ps) /\
  length (filter (pass_checks cs n N k) (vectors D q)) = (D - U) ^ q /\ length (vectors D q) = D ^ q /\
  (forall i g, In (i, g) cs ->
     (D - U) ^ q <= (D - length (filter (fun x => negb (g x)) (seq 0 (level_size n N k i))) * N ^ i) ^ q).
Proof.
  intros cs n k q HN Hn Hcs D U. split.
  - intros ps Hps. now apply pass_checks_pointwise.
  - exact (passing_vectors_all_checks cs n N k q HN Hn Hcs).
Qed.
End Check.
