(* C05 — the one probabilistic step of FRI soundness that is pure counting: for a last-layer function E fixed
   before the queries and a remainder R, check (e) of the verifier passes on a vector of q last-layer positions
   iff every position is "good" (R agrees with E there), and exactly (n - #bad)^q of the n^q vectors pass.
   (Partial: it counts vectors of LAST-LAYER positions; the map from first-layer query positions through
   fold_positions, and the proximity-gap argument relating distance to #bad, are not treated.)  stdlib style. *)
From Coq Require Import List Arith Bool Lia.
From VBase Require Import FieldOps.
From VModel Require Import Fri.
From VProofs Require Import FriIdx.
Import ListNotations.

Fixpoint vectors (n q : nat) : list (list nat) :=
  match q with
  | 0 => [[]]
  | S q' => flat_map (fun p => map (cons p) (vectors n q')) (seq 0 n)
  end.

Lemma filter_flat_map {A B} (P : B -> bool) (h : A -> list B) l :
  filter P (flat_map h l) = flat_map (fun x => filter P (h x)) l.
Proof. induction l as [|a l IH]; cbn; [reflexivity | now rewrite filter_app, IH]. Qed.

Lemma flat_map_length_count {A B} (good : A -> bool) (h : A -> list B) c l :
  (forall x, length (h x) = if good x then c else 0) ->
  length (flat_map h l) = length (filter good l) * c.
Proof.
  intros H. induction l as [|a l IH]; cbn; [reflexivity|].
  rewrite app_length, IH, H. destruct (good a); cbn; lia.
Qed.

Lemma vectors_length n q : length (vectors n q) = n ^ q.
Proof.
  induction q as [|q IH]; [reflexivity|]. cbn [vectors Nat.pow].
  rewrite (flat_map_length_count (fun _ => true) _ (n ^ q)).
  - assert (G : forall l : list nat, filter (fun _ => true) l = l) by (induction l; cbn; congruence).
    now rewrite G, seq_length.
  - intros x. now rewrite map_length.
Qed.

Theorem passing_vectors_count (good : nat -> bool) n q :
  length (filter (forallb good) (vectors n q)) = length (filter good (seq 0 n)) ^ q.
Proof.
  induction q as [|q IH]; [reflexivity|]. cbn [vectors Nat.pow].
  rewrite filter_flat_map.
  rewrite (flat_map_length_count good _ (length (filter good (seq 0 n)) ^ q)); [reflexivity|].
  intros p. rewrite <- IH.
  assert (G : forall V, filter (forallb good) (map (cons p) V)
                        = if good p then map (cons p) (filter (forallb good) V) else []).
  { induction V as [|v V IHV]; cbn [map filter forallb]; [now destruct (good p)|].
    rewrite IHV. destruct (good p); cbn [andb]; [destruct (forallb good v); reflexivity | reflexivity]. }
  rewrite G. destruct (good p); [now rewrite map_length | reflexivity].
Qed.

Lemma filter_partition_length {A} (g : A -> bool) l :
  length (filter g l) + length (filter (fun x => negb (g x)) l) = length l.
Proof. induction l as [|a l IH]; cbn; [reflexivity | destruct (g a); cbn; lia]. Qed.

(* ---------------------------------------------------------------- from LDE positions to last-layer positions *)
(* the positions the verifier reaches after k layers: P_0 = ps, P_{i+1} = fold_positions P_i *)
Fixpoint fold_chain (k : nat) (ps : list nat) (d N : nat) : list nat :=
  match k with 0 => ps | S k' => fold_chain k' (fold_positions_core ps (d / N)) (d / N) N end.

Lemma fold_core_In ps t x : In x (fold_positions_core ps t) <-> exists p, In p ps /\ x = p mod t.
Proof.
  rewrite fold_positions_core_dedup, dedup_In, in_map_iff. split; intros [p [A B]]; exists p; auto.
Qed.

Lemma mod_mod_mul p n c : n <> 0 -> c <> 0 -> (p mod (n * c)) mod n = p mod n.
Proof. intros Hn Hc. rewrite Nat.mod_mul_r by assumption. rewrite Nat.mul_comm, Nat.mod_add by assumption. now apply Nat.mod_mod. Qed.

Lemma fold_chain_In : forall k ps n N x, N <> 0 -> n <> 0 -> (forall p, In p ps -> p < n * N ^ k) ->
  (In x (fold_chain k ps (n * N ^ k) N) <-> exists p, In p ps /\ x = p mod n).
Proof.
  induction k as [|k IH]; intros ps n N x HN Hn Hps; cbn [fold_chain Nat.pow].
  - rewrite Nat.mul_1_r in Hps. split.
    + intros H. exists x. split; [assumption|]. symmetry. apply Nat.mod_small. now apply Hps.
    + intros [p [A ->]]. rewrite Nat.mod_small by now apply Hps. assumption.
  - assert (Hd : n * (N * N ^ k) / N = n * N ^ k).
    { replace (n * (N * N ^ k)) with (n * N ^ k * N) by lia. now apply Nat.div_mul. }
    rewrite Hd. assert (Hz : n * N ^ k <> 0) by (apply Nat.neq_mul_0; split; [assumption | now apply Nat.pow_nonzero]).
    rewrite IH; [|assumption|assumption|].
    + split.
      * intros [y [Hy ->]]. apply fold_core_In in Hy. destruct Hy as [p [Hp ->]]. exists p. split; [assumption|].
        apply mod_mod_mul; [assumption | now apply Nat.pow_nonzero].
      * intros [p [Hp ->]]. exists (p mod (n * N ^ k)). split; [apply fold_core_In; eauto|].
        symmetry. apply mod_mod_mul; [assumption | now apply Nat.pow_nonzero].
    + intros y Hy. apply fold_core_In in Hy. destruct Hy as [p [_ ->]]. now apply Nat.mod_upper_bound.
Qed.

Lemma forallb_fold_chain (good : nat -> bool) k ps n N : N <> 0 -> n <> 0 -> (forall p, In p ps -> p < n * N ^ k) ->
  forallb good (fold_chain k ps (n * N ^ k) N) = forallb (fun p => good (p mod n)) ps.
Proof.
  intros HN Hn Hps. apply eq_true_iff_eq. rewrite !forallb_forall. split.
  - intros H p Hp. apply H. apply fold_chain_In; eauto.
  - intros H x Hx. apply fold_chain_In in Hx; try assumption. destruct Hx as [p [Hp ->]]. now apply H.
Qed.

Lemma vectors_entries n q v : In v (vectors n q) -> forall p, In p v -> p < n.
Proof.
  revert v. induction q as [|q IH]; intros v Hv p Hp; cbn [vectors] in Hv.
  - destruct Hv as [<-|[]]. destruct Hp.
  - apply in_flat_map in Hv. destruct Hv as [a [Ha Hv]]. apply in_map_iff in Hv. destruct Hv as [v' [<- Hv']].
    destruct Hp as [<-|Hp]; [apply in_seq in Ha; lia | eapply IH; eassumption].
Qed.

Lemma filter_map_length {A B} (g : B -> bool) (f : A -> B) l : length (filter g (map f l)) = length (filter (fun x => g (f x)) l).
Proof. induction l as [|a l IH]; cbn; [reflexivity | destruct (g (f a)); cbn; now rewrite IH]. Qed.

Lemma seq_shift_map n : forall a, seq a n = map (fun i => a + i) (seq 0 n).
Proof.
  induction n as [|n IH]; intros a; cbn [seq map]; [reflexivity|].
  rewrite Nat.add_0_r. f_equal. rewrite (IH (S a)), <- seq_shift, map_map. apply map_ext. intros i. lia.
Qed.

(* every last-layer position has exactly m preimages in the LDE domain of size n * m *)
Lemma preimage_count (good : nat -> bool) n : forall m, n <> 0 ->
  length (filter (fun p => good (p mod n)) (seq 0 (n * m))) = m * length (filter good (seq 0 n)).
Proof.
  induction m as [|m IH]; intros Hn; [now rewrite Nat.mul_0_r|].
  replace (n * S m) with (n * m + n) by lia. rewrite seq_app, filter_app, app_length, IH by assumption. cbn [Nat.add].
  rewrite (seq_shift_map n (n * m)).
  rewrite filter_map_length. rewrite (filter_ext_in (fun x => good ((n * m + x) mod n)) good).
  - cbn. lia.
  - intros i Hi. apply in_seq in Hi. f_equal. rewrite Nat.add_comm, Nat.mul_comm, Nat.mod_add by assumption.
    apply Nat.mod_small. lia.
Qed.

Section Check.
Context {F : Type} (O : FOps F).
Variable gen_offset : F.

(* a position is good when the remainder polynomial agrees with the last-layer function there *)
Definition good_position (R : list F) (g : F) (E : list F) (p : nat) : bool :=
  feqb O (eval_horner O R (fmul O gen_offset (fexp O g p))) (nth p E (fzero O)).

Lemma remainder_check_forallb R g E : forall ps,
  remainder_check O gen_offset R g ps (map (fun p => nth p E (fzero O)) ps) = forallb (good_position R g E) ps.
Proof. induction ps as [|p ps IH]; cbn [remainder_check map forallb]; [reflexivity | now rewrite IH]. Qed.

(* fri_query_counting_partial: with `bad` = number of last-layer positions where R and E disagree, exactly
   (n - bad)^q of the n^q position vectors of length q pass check (e); for bad >= delta * n this is at most
   ((1 - delta) n)^q *)
Theorem fri_query_counting_partial : forall R g E n q,
  let bad := length (filter (fun p => negb (good_position R g E p)) (seq 0 n)) in
  length (filter (fun ps => remainder_check O gen_offset R g ps (map (fun p => nth p E (fzero O)) ps)) (vectors n q))
  = (n - bad) ^ q /\ length (vectors n q) = n ^ q.
Proof.
  intros R g E n q bad. split; [|apply vectors_length].
  rewrite (filter_ext _ (forallb (good_position R g E))) by (intros; apply remainder_check_forallb).
  rewrite passing_vectors_count. f_equal.
  pose proof (filter_partition_length (good_position R g E) (seq 0 n)) as H. rewrite seq_length in H.
  unfold bad. lia.
Qed.
(* fri_query_counting_lde_partial: q query positions in the LDE domain of size D = n * N^k (k layers of folding factor
   N, last layer of size n), a last-layer function E fixed before the queries, a remainder R disagreeing with E on
   `bad` of the n last-layer positions.  The verifier folds the positions k times (fold_positions: mod + dedup) and
   runs check (e) on the result; this passes iff every query position reduces (mod n) to a good position, and
   exactly (D - bad * N^k)^q of the D^q position vectors pass — a fraction ((n - bad)/n)^q. *)
Theorem fri_query_counting_lde_partial : forall R g E n N k q, N <> 0 -> n <> 0 ->
  let D := n * N ^ k in
  let bad := length (filter (fun p => negb (good_position R g E p)) (seq 0 n)) in
  length (filter (fun ps => let last := fold_chain k ps D N in
                            remainder_check O gen_offset R g last (map (fun p => nth p E (fzero O)) last))
                 (vectors D q))
  = (D - bad * N ^ k) ^ q /\ length (vectors D q) = D ^ q.
Proof.
  intros R g E n N k q HN Hn D bad. split; [|apply vectors_length].
  rewrite (filter_ext_in _ (forallb (fun p => good_position R g E (p mod n)))).
  2:{ intros ps Hps. cbv zeta. rewrite remainder_check_forallb.
      apply forallb_fold_chain; try assumption. intros p Hp. eapply vectors_entries; eassumption. }
  rewrite passing_vectors_count. f_equal. unfold D.
  rewrite preimage_count by assumption.
  pose proof (filter_partition_length (good_position R g E) (seq 0 n)) as H. rewrite seq_length in H.
  fold bad in H. nia.
Qed.
End Check.
