(* C05 — the one probabilistic step of FRI soundness that is pure counting: for a last-layer function E fixed
   before the queries and a remainder R, check (e) of the verifier passes on a vector of q last-layer positions
   iff every position is "good" (R agrees with E there), and exactly (n - #bad)^q of the n^q vectors pass.
   (Partial: it counts vectors of LAST-LAYER positions; the map from first-layer query positions through
   fold_positions, and the proximity-gap argument relating distance to #bad, are not treated.)  stdlib style. *)
From Coq Require Import List Arith Bool Lia.
From VBase Require Import FieldOps.
From VModel Require Import Fri.
Import ListNotations.

Fixpoint vectors (n q : nat) : list (list nat) :=
  match q with
  | 0 => [[]]
  | S q' => flat_map (fun p => map (cons p) (vectors n q')) (seq 0 n)
  end.

Lemma filter_flat_map {A B} (P : B -> bool) (h : A -> list B) l :
  filter P (flat_map h l) = flat_map (fun x => filter P (h x)) l.
Proof. induction l as [|a l IH]; cbn; [reflexivity | now rewrite filter_app, IH]. Qed.

Lemma flat_map_length_count {A B} (good : A -> bool) (h : A -> list B) c l :
  (forall x, length (h x) = if good x then c else 0) ->
  length (flat_map h l) = length (filter good l) * c.
Proof.
  intros H. induction l as [|a l IH]; cbn; [reflexivity|].
  rewrite app_length, IH, H. destruct (good a); cbn; lia.
Qed.

Lemma vectors_length n q : length (vectors n q) = n ^ q.
Proof.
  induction q as [|q IH]; [reflexivity|]. cbn [vectors Nat.pow].
  rewrite (flat_map_length_count (fun _ => true) _ (n ^ q)).
  - assert (G : forall l : list nat, filter (fun _ => true) l = l) by (induction l; cbn; congruence).
    now rewrite G, seq_length.
  - intros x. now rewrite map_length.
Qed.

Theorem passing_vectors_count (good : nat -> bool) n q :
  length (filter (forallb good) (vectors n q)) = length (filter good (seq 0 n)) ^ q.
Proof.
  induction q as [|q IH]; [reflexivity|]. cbn [vectors Nat.pow].
  rewrite filter_flat_map.
  rewrite (flat_map_length_count good _ (length (filter good (seq 0 n)) ^ q)); [reflexivity|].
  intros p. rewrite <- IH.
  assert (G : forall V, filter (forallb good) (map (cons p) V)
                        = if good p then map (cons p) (filter (forallb good) V) else []).
  { induction V as [|v V IHV]; cbn [map filter forallb]; [now destruct (good p)|].
    rewrite IHV. destruct (good p); cbn [andb]; [destruct (forallb good v); reflexivity | reflexivity]. }
  rewrite G. destruct (good p); [now rewrite map_length | reflexivity].
Qed.

Lemma filter_partition_length {A} (g : A -> bool) l :
  length (filter g l) + length (filter (fun x => negb (g x)) l) = length l.
Proof. induction l as [|a l IH]; cbn; [reflexivity | destruct (g a); cbn; lia]. Qed.

Section Check.
Context {F : Type} (O : FOps F).
Variable gen_offset : F.

(* a position is good when the remainder polynomial agrees with the last-layer function there *)
Definition good_position (R : list F) (g : F) (E : list F) (p : nat) : bool :=
  feqb O (eval_horner O R (fmul O gen_offset (fexp O g p))) (nth p E (fzero O)).

Lemma remainder_check_forallb R g E : forall ps,
  remainder_check O gen_offset R g ps (map (fun p => nth p E (fzero O)) ps) = forallb (good_position R g E) ps.
Proof. induction ps as [|p ps IH]; cbn [remainder_check map forallb]; [reflexivity | now rewrite IH]. Qed.

(* fri_query_counting_partial: with `bad` = number of last-layer positions where R and E disagree, exactly
   (n - bad)^q of the n^q position vectors of length q pass check (e); for bad >= delta * n this is at most
   ((1 - delta) n)^q *)
Theorem fri_query_counting_partial : forall R g E n q,
  let bad := length (filter (fun p => negb (good_position R g E p)) (seq 0 n)) in
  length (filter (fun ps => remainder_check O gen_offset R g ps (map (fun p => nth p E (fzero O)) ps)) (vectors n q))
  = (n - bad) ^ q /\ length (vectors n q) = n ^ q.
Proof.
  intros R g E n q bad. split; [|apply vectors_length].
  rewrite (filter_ext _ (forallb (good_position R g E))) by (intros; apply remainder_check_forallb).
  rewrite passing_vectors_count. f_equal.
  pose proof (filter_partition_length (good_position R g E) (seq 0 n)) as H. rewrite seq_length in H.
  unfold bad. lia.
Qed.
End Check.
