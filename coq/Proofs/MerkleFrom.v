(* C10 — re-compression: from_paths applied to the individual paths prove t i (in the order of the
   position list) rebuilds exactly prove_batch t idx, for every depth and every order of the positions.
   Simulation of from_paths' loops (over the sorted (index, path) entries) by prove_batch's loops (over
   the normalized index pairs / level lists). *)
From Coq Require Import ZArith List Bool Lia.
From VBase Require Import MachInt.
From VModel Require Import Merkle.
From VProofs Require Import MerkleBase MerkleSingle MerkleIdx MerkleBatch MerkleTotal MerkleBind MerkleRound.
Import ListNotations.
Open Scope Z_scope.

Ltac zmod x := pose proof (Z.div_mod x 2 ltac:(lia)); pose proof (Z.mod_pos_bound x 2 ltac:(lia)).

(* ---------------------------------------------------------------- assoc lists *)
Definition keys_lt {X} (m : bmap X) (b : Z) : Prop := forall k x, In (k, x) m -> k < b.

Lemma bt_insert_append {X} k (x : X) m : keys_lt m k -> bt_insert k x m = m ++ [(k, x)].
Proof.
  induction m as [|[k' x'] m IH]; intros H; [reflexivity|]. cbn [bt_insert app].
  pose proof (H k' x' (or_introl eq_refl)). destruct (Z.ltb_spec k k'); [lia|]. destruct (Z.eqb_spec k k'); [lia|].
  f_equal. apply IH. intros k2 x2 H2. apply (H k2 x2). right. assumption.
Qed.

Lemma keys_lt_app {X} (m : bmap X) k x b : keys_lt m b -> k < b -> keys_lt (m ++ [(k, x)]) b.
Proof. intros H Hk k2 x2 Hin. apply in_app_or in Hin. destruct Hin as [Hin|[[= <- <-]|[]]]; [eapply H; eassumption|assumption]. Qed.

Lemma keys_lt_mono {X} (m : bmap X) b b' : keys_lt m b -> b <= b' -> keys_lt m b'.
Proof. intros H Hb k x Hin. apply H in Hin. lia. Qed.

Lemma keys_sorted_head_min {X} k (x : X) r k2 x2 : keys_sorted ((k, x) :: r) -> In (k2, x2) ((k, x) :: r) -> k <= k2.
Proof. intros [Hlt _] [[= <- <-]|Hin]; [lia|]. apply Hlt in Hin. lia. Qed.

(* fp_pos computes the same map as map_indexes' loop *)
Lemma fp_pos_mi_loop {D} nl : forall idx (paths : list (list D)) i m m',
  length paths = length idx -> mi_loop nl idx i m = Ok m' -> fp_pos D idx paths i m = m'.
Proof.
  induction idx as [|x r IH]; intros [|pth paths] i m m' HL E; try discriminate; cbn [mi_loop fp_pos] in *.
  - injection E as <-. reflexivity.
  - destruct (nl <=? x); [discriminate|]. eapply IH; [simpl in HL; lia|eassumption].
Qed.

Lemma are_siblings_spec a b :
  are_siblings a b = if a mod 2 =? 0 then (if b <? 1 then Panic else Ok (b - 1 =? a)) else Ok false.
Proof. unfold are_siblings. rewrite land1. reflexivity. Qed.

Section From.
Variable D : Type.
Variable D_eqb : D -> D -> bool.
Hypothesis D_eqb_spec : forall a b, D_eqb a b = true <-> a = b.
Variable d0 : D.
Variable merge : D -> D -> D.
Variable t : mtree D.
Variable d : nat.
Hypothesis WF : wf_tree D d0 merge d t.
Hypothesis Hd : (d <= 62)%nat.
Let N := 2 ^ Z.of_nat d.

Notation hval := (hval D d0 t).
Notation hpath := (hpath D d0 t d).
Notation leaf := (leaf D d0 t).
Notation fp_first := (fp_first D).
Notation fp_scan := (fp_scan D).
Notation fp_levels := (fp_levels D).
Notation fp_put := (fp_put D).
Notation pb_scan := (pb_scan D).
Notation pb_levels := (pb_levels D).

Lemma FN_pos : 2 <= N.
Proof. apply (N_pos D d0 merge t d); assumption. Qed.
Lemma FN_even : N mod 2 = 0.
Proof. apply (N_even D d0 merge t d); assumption. Qed.

Lemma leaf_hval k : 0 <= k -> leaf k = hval (k + N).
Proof.
  intros Hk. rewrite (hval_leaf D d0 merge t d) by (assumption || (fold N; lia)). fold N. unfold MerkleBatch.leaf. f_equal. lia.
Qed.

(* ---------------------------------------------------------------- elements of an honest path *)
Lemma hpath_len i : zlen (hpath i) = Z.of_nat d + 1.
Proof. unfold MerkleRound.hpath. rewrite zlen_cons. unfold zlen. rewrite map_length, seq_length. reflexivity. Qed.

Lemma hpath_0 i : 0 <= i -> idx (hpath i) 0 = Ok (leaf i).
Proof. intros. unfold MerkleRound.hpath. rewrite idx_cons_0. fold N. rewrite leaf_hval by lia. reflexivity. Qed.

Lemma hpath_nth i dd : 1 <= dd <= Z.of_nat d ->
  idx (hpath i) dd = Ok (hval (Z.lxor ((i + N) / 2 ^ (dd - 1)) 1)).
Proof.
  intros Hdd. unfold MerkleRound.hpath. rewrite idx_cons_S by lia. fold N. apply idx_nth_error; [lia|].
  rewrite nth_error_map. replace (nth_error (seq 0 d) (Z.to_nat (dd - 1))) with (Some (Z.to_nat (dd - 1))).
  - cbn [option_map]. rewrite Z2Nat.id by lia. reflexivity.
  - symmetry. rewrite (nth_error_nth' _ 0%nat) by (rewrite seq_length; lia). rewrite seq_nth by lia. reflexivity.
Qed.

Lemma hpath_1 i : 0 <= i -> idx (hpath i) 1 = Ok (leaf (Z.lxor i 1)).
Proof.
  intros Hi. pose proof (wf_d _ _ _ _ _ WF). rewrite hpath_nth by lia. change (2 ^ (1 - 1)) with 1. rewrite Z.div_1_r.
  pose proof FN_pos. pose proof FN_even. rewrite lxor1_add_even by lia. rewrite leaf_hval by (apply lxor1_nonneg; lia). reflexivity.
Qed.

(* ---------------------------------------------------------------- the index list *)
Variable indexes : list Z.
Variable imap : bmap Z.
Hypothesis IM : imap_ok indexes imap.
Hypothesis ND : NoDup indexes.
Hypothesis Hr : forall i, In i indexes -> 0 <= i < N.
Let m := length indexes.
Let norm := normalize_indexes indexes.

Lemma fp_put_ok k leaves : In k indexes -> length leaves = m ->
  exists leaves', fp_put imap leaves k (leaf k) = Ok leaves' /\ length leaves' = m /\
    forall k' j, bt_get k' imap = Some j ->
      (k' = k \/ nth_error leaves (Z.to_nat j) = Some (leaf k')) -> nth_error leaves' (Z.to_nat j) = Some (leaf k').
Proof.
  intros Hk HL. unfold Merkle.fp_put. destruct (imap_ok_In _ _ k IM ND Hk) as (j0 & E). rewrite E.
  pose proof (imap_ok_range _ _ _ _ IM E) as Hj0.
  destruct (upd_Ok leaves j0 (leaf k)) as (l' & Eu & L & Nn); [unfold zlen in *; fold m in Hj0; lia|].
  rewrite Eu. exists l'. split; [reflexivity|]. split; [lia|].
  intros k' j Ek' Hor. rewrite Nn. pose proof (imap_ok_range _ _ _ _ IM Ek') as Hj.
  destruct (Nat.eqb_spec (Z.to_nat j) (Z.to_nat j0)) as [Heq|Hne].
  - assert (j = j0) by lia. subst j. rewrite (imap_ok_inj _ _ _ _ _ IM Ek' E). reflexivity.
  - destruct Hor as [->|H]; [|exact H]. rewrite E in Ek'. injection Ek' as ->. contradiction.
Qed.

Lemma norm_even e : In e norm -> 0 <= e /\ e mod 2 = 0 /\ e + 1 < N.
Proof.
  intros He. apply normalize_In in He. destruct He as (i & Hi & ->). pose proof (Hr i Hi). zmod i. pose proof FN_even. zmod N.
  split; [lia|]. split; [|lia]. replace (i - i mod 2) with (0 + (i / 2) * 2) by lia. rewrite Z.mod_add by lia. reflexivity.
Qed.

Lemma nr_head lo ia nr : In ia indexes -> lo <= ia -> lo mod 2 = 0 ->
  (forall k, In k indexes -> lo <= k -> ia <= k) ->
  ssorted nr -> (forall e, In e nr <-> In e norm /\ lo <= e) ->
  exists nr', nr = (ia - ia mod 2) :: nr' /\ ssorted nr' /\
              (forall e', In e' nr' <-> In e' norm /\ ia - ia mod 2 + 2 <= e').
Proof.
  intros Hia Hlo Hle Hmin HS Hnr. set (e := ia - ia mod 2). pose proof (Hr ia Hia). zmod ia. zmod lo.
  assert (He : In e nr).
  { apply Hnr. split; [apply normalize_In; exists ia; auto|]. unfold e. lia. }
  assert (Hge : forall e', In e' nr -> e <= e').
  { intros e' He'. apply Hnr in He'. destruct He' as [Hn Hl]. apply normalize_In in Hn. destruct Hn as (k & Hk & ->).
    pose proof (Hr k Hk). zmod k. pose proof (Hmin k Hk ltac:(lia)). unfold e. lia. }
  destruct nr as [|h tl]; [destruct He|]. destruct HS as [Hlt HS].
  assert (h = e).
  { destruct He as [->|He]; [reflexivity|]. pose proof (Hlt e He). pose proof (Hge h (or_introl eq_refl)). lia. }
  subst h. exists tl. split; [reflexivity|]. split; [assumption|]. intros e'. split.
  - intros He'. pose proof (Hlt e' He'). assert (Hin : In e' (e :: tl)) by (right; assumption). apply Hnr in Hin.
    destruct Hin as [Hn _]. split; [assumption|]. destruct (norm_even e' Hn) as (_ & Ev & _).
    zmod e'. fold e. assert (e mod 2 = 0); [|lia]. unfold e. replace (ia - ia mod 2) with (0 + (ia / 2) * 2) by lia. rewrite Z.mod_add by lia. reflexivity.
  - intros [Hn Hl]. fold e in Hl. assert (Hin : In e' (e :: tl)) by (apply Hnr; split; [assumption|unfold e in *; lia]).
    destruct Hin as [<-|Hin]; [lia|assumption].
Qed.

(* entries of a level: key ka = i / 2^sh for a queried leaf i, heap index ka + N / 2^sh *)
Definition rel (sh : Z) (ent : Z * list D) (a : Z) : Prop :=
  a = fst ent + N / 2 ^ sh /\ exists i, 0 <= i < N /\ snd ent = hpath i /\ fst ent = i / 2 ^ sh.

(* ---------------------------------------------------------------- first loop *)
Lemma fp_first_sim : forall n es nr lo leaves pmacc, (length es <= n)%nat ->
  keys_sorted es ->
  (forall k x, In (k, x) es -> x = hpath k /\ In k indexes /\ lo <= k) ->
  (forall k, In k indexes -> lo <= k -> In (k, hpath k) es) ->
  0 <= lo -> lo mod 2 = 0 ->
  ssorted nr -> (forall e, In e nr <-> In e norm /\ lo <= e) ->
  length leaves = m -> keys_lt pmacc (lo / 2) ->
  exists leavesF E,
    fp_first imap es leaves pmacc = Ok (leavesF, map (miss D d0 t imap) nr, pmacc ++ E) /\
    length leavesF = m /\
    (forall k j, bt_get k imap = Some j ->
       ((exists x, In (k, x) es) \/ nth_error leaves (Z.to_nat j) = Some (leaf k)) ->
       nth_error leavesF (Z.to_nat j) = Some (leaf k)) /\
    Forall2 (rel 1) E (map (fun e => (e + N) / 2) nr).
Proof.
  pose proof FN_pos as HN2. pose proof FN_even as HNe.
  induction n as [|n IH]; intros es nr lo leaves pmacc Hn HS Hes Hcov Hlo Hle HSn Hnr HL Hkl.
  { destruct es; [|simpl in Hn; lia].
    assert (nr = []).
    { destruct nr as [|e nr']; [reflexivity|]. exfalso. destruct (proj1 (Hnr e) (or_introl eq_refl)) as [Hn' Hl].
      apply normalize_In in Hn'. destruct Hn' as (k & Hk & ->). zmod k. pose proof (Hr k Hk). apply (Hcov k Hk). lia. }
    subst nr. exists leaves, []. cbn. rewrite app_nil_r. split; [reflexivity|]. split; [assumption|].
    split; [intros k j _ [[x []]|H]; assumption|constructor]. }
  destruct es as [|[ia pa] rest].
  { assert (nr = []).
    { destruct nr as [|e nr']; [reflexivity|]. exfalso. destruct (proj1 (Hnr e) (or_introl eq_refl)) as [Hn' Hl].
      apply normalize_In in Hn'. destruct Hn' as (k & Hk & ->). zmod k. pose proof (Hr k Hk). apply (Hcov k Hk). lia. }
    subst nr. exists leaves, []. cbn. rewrite app_nil_r. split; [reflexivity|]. split; [assumption|].
    split; [intros k j _ [[x []]|H]; assumption|constructor]. }
  destruct (Hes ia pa (or_introl eq_refl)) as (-> & Hia & Hloia). pose proof (Hr ia Hia) as Hiar.
  assert (Hmin : forall k, In k indexes -> lo <= k -> ia <= k).
  { intros k Hk Hl. apply (keys_sorted_head_min ia (hpath ia) rest k (hpath k) HS). apply Hcov; assumption. }
  destruct (nr_head lo ia nr Hia Hloia Hle Hmin HSn Hnr) as (nr' & -> & HSn' & Hnr').
  set (e := ia - ia mod 2) in *. zmod ia. zmod lo.
  assert (He2 : e / 2 = ia / 2).
  { unfold e. destruct (mod2_cases ia) as [E|E]; rewrite E; [f_equal; lia|].
    replace (ia - 1) with (0 + (ia / 2) * 2) by lia. replace ia with (1 + (ia / 2) * 2) at 2 by lia. rewrite !Z.div_add by lia. reflexivity. }
  assert (Hlo2 : lo / 2 <= e / 2) by (rewrite He2; apply Z.div_le_mono; lia).
  cbn [Merkle.fp_first]. rewrite hpath_0 by lia. cbn [bind].
  destruct (fp_put_ok ia leaves Hia HL) as (leaves1 & Ep1 & L1 & P1). rewrite Ep1. cbn [bind].
  destruct HS as [Hlt HS'].
  (* common continuation when ia is not merged with its right neighbour *)
  assert (Hnonsib : ~ In (ia + 1) indexes \/ ia mod 2 = 1 ->
    (forall k x, In (k, x) rest -> e + 2 <= k) ->
    exists leavesF E,
      (l1 <- idx (hpath ia) 1 ;;
       '(leavesF, nodes, pmF) <- fp_first imap rest leaves1 (bt_insert (Z.shiftr ia 1) (hpath ia) pmacc) ;;
       Ok (leavesF, [l1] :: nodes, pmF)) = Ok (leavesF, map (miss D d0 t imap) (e :: nr'), pmacc ++ E) /\
      length leavesF = m /\
      (forall k j, bt_get k imap = Some j ->
         ((exists x, In (k, x) ((ia, hpath ia) :: rest)) \/ nth_error leaves (Z.to_nat j) = Some (leaf k)) ->
         nth_error leavesF (Z.to_nat j) = Some (leaf k)) /\
      Forall2 (rel 1) E (map (fun e => (e + N) / 2) (e :: nr'))).
  { intros Hns Hge. rewrite hpath_1 by lia. cbn [bind]. rewrite shiftr1.
    rewrite bt_insert_append by (eapply keys_lt_mono; [eassumption|lia]).
    destruct (IH rest nr' (e + 2) leaves1 (pmacc ++ [(ia / 2, hpath ia)])) as (leavesF & E & EF & LF & PF & RF);
      try assumption.
    - simpl in Hn. lia.
    - intros k x Hin. destruct (Hes k x (or_intror Hin)) as (A & B & _). split; [assumption|]. split; [assumption|]. eapply Hge. eassumption.
    - intros k Hk Hl. destruct (Hcov k Hk ltac:(unfold e in Hl; lia)) as [[= E1 _]|Hin]; [unfold e in Hl; lia|assumption].
    - unfold e. lia.
    - unfold e. replace (ia - ia mod 2 + 2) with (0 + (ia / 2 + 1) * 2) by lia. rewrite Z.mod_add by lia. reflexivity.
    - apply keys_lt_app; [eapply keys_lt_mono; [eassumption|]|].
      + replace (e + 2) with (e + 1 * 2) by lia. rewrite Z.div_add by lia. lia.
      + replace (e + 2) with (e + 1 * 2) by lia. rewrite Z.div_add by lia. lia.
    - rewrite EF. cbn [bind]. exists leavesF, ((ia / 2, hpath ia) :: E). split.
      { rewrite <- app_assoc. cbn [app map]. do 3 f_equal.
        unfold miss, miss1. destruct (mod2_cases ia) as [Ev|Ev].
        + assert (Hee : e = ia) by (unfold e; lia). destruct Hns as [Hns|Hns]; [|lia].
          destruct (imap_ok_In _ _ ia IM ND Hia) as (j & Ej). rewrite Hee, Ej.
          destruct (bt_get (ia + 1) imap) eqn:Ej1; [apply (imap_ok_In_inv _ _ _ _ IM) in Ej1; contradiction|].
          cbn [app]. rewrite lxor1_even by lia. reflexivity.
        + assert (Hee : e = ia - 1) by (unfold e; lia). rewrite Hee. replace (ia - 1 + 1) with ia by lia.
          destruct (imap_ok_In _ _ ia IM ND Hia) as (j & Ej). rewrite Ej.
          destruct (bt_get (ia - 1) imap) eqn:Ej1.
          * exfalso. apply (imap_ok_In_inv _ _ _ _ IM) in Ej1. pose proof (Hmin (ia - 1) Ej1 ltac:(lia)). lia.
          * cbn [app]. rewrite lxor1_odd by lia. reflexivity. }
      split; [assumption|]. split.
      { intros k j Ek [[x [[= <- <-]|Hin]]|Hold].
        - apply PF; [assumption|]. right. apply P1; [assumption|]. left. reflexivity.
        - apply PF; [assumption|]. left. eauto.
        - apply PF; [assumption|]. right. apply P1; [assumption|]. right. exact Hold. }
      cbn [map]. constructor; [|assumption]. split; cbn [fst snd].
      { change (2 ^ 1) with 2. rewrite <- He2. zmod N. zmod e.
        assert (Hee : e mod 2 = 0) by (unfold e; replace (ia - ia mod 2) with (0 + (ia / 2) * 2) by lia; rewrite Z.mod_add by lia; reflexivity).
        replace (e + N) with (e + (N / 2) * 2) by lia. rewrite Z.div_add by lia. reflexivity. }
      exists ia. change (2 ^ 1) with 2. auto. }
  destruct rest as [|[ib pb] rest'].
  { destruct Hnonsib as (leavesF & E & EF & R); [|intros ? ? []|].
    - destruct (mod2_cases ia) as [Ev|Ev]; [left|right; assumption]. intros Hin.
      destruct (Hcov (ia + 1) Hin ltac:(lia)) as [[= E1 _]|[]]. lia.
    - exists leavesF, E. split; [exact EF|exact R]. }
  destruct (Hes ib pb (or_intror (or_introl eq_refl))) as (-> & Hib & _). pose proof (Hr ib Hib) as Hibr.
  pose proof (Hlt ib (hpath ib) (or_introl eq_refl)) as Hab.
  rewrite are_siblings_spec.
  destruct (Z.eqb_spec (ia mod 2) 0) as [Ev|Ev].
  - destruct (Z.ltb_spec ib 1); [lia|]. cbn [bind]. destruct (Z.eqb_spec (ib - 1) ia) as [Eb|Eb].
    + (* siblings: both queried *)
      assert (ib = ia + 1) by lia. subst ib. assert (Hee : e = ia) by (unfold e; lia).
      rewrite hpath_1 by lia. cbn [bind]. rewrite lxor1_even by lia.
      destruct (fp_put_ok (ia + 1) leaves1 Hib L1) as (leaves2 & Ep2 & L2 & P2). rewrite Ep2. cbn [bind]. rewrite shiftr1.
      assert (Hh : (ia + 1) / 2 = ia / 2).
      { replace (ia + 1) with (1 + (ia / 2) * 2) by lia. replace ia with (0 + (ia / 2) * 2) at 2 by lia. rewrite !Z.div_add by lia. reflexivity. }
      rewrite Hh. rewrite bt_insert_append by (eapply keys_lt_mono; [eassumption|lia]).
      destruct HS' as [Hlt2 HS''].
      destruct (IH rest' nr' (e + 2) leaves2 (pmacc ++ [(ia / 2, hpath (ia + 1))])) as (leavesF & E & EF & LF & PF & RF);
        try assumption.
      * simpl in Hn. lia.
      * intros k x Hin. destruct (Hes k x (or_intror (or_intror Hin))) as (A & B & _). split; [assumption|]. split; [assumption|].
        pose proof (Hlt2 k x Hin). lia.
      * intros k Hk Hl. destruct (Hcov k Hk ltac:(lia)) as [[= E1 _]|[[= E1 _]|Hin]]; [lia|lia|assumption].
      * lia.
      * rewrite Hee. replace (ia + 2) with (0 + (ia / 2 + 1) * 2) by lia. rewrite Z.mod_add by lia. reflexivity.
      * apply keys_lt_app; [eapply keys_lt_mono; [eassumption|]|].
        -- replace (e + 2) with (e + 1 * 2) by lia. rewrite Z.div_add by lia. lia.
        -- replace (e + 2) with (e + 1 * 2) by lia. rewrite Z.div_add by lia. lia.
      * rewrite EF. cbn [bind]. exists leavesF, ((ia / 2, hpath (ia + 1)) :: E). split.
        { rewrite <- app_assoc. cbn [app map]. do 3 f_equal. unfold miss, miss1. rewrite Hee.
          destruct (imap_ok_In _ _ ia IM ND Hia) as (j & Ej). destruct (imap_ok_In _ _ (ia + 1) IM ND Hib) as (j1 & Ej1).
          rewrite Ej, Ej1. reflexivity. }
        split; [assumption|]. split.
        { intros k j Ek [[x [[= <- <-]|[[= <- <-]|Hin]]]|Hold].
          - apply PF; [assumption|]. right. apply P2; [assumption|]. right. apply P1; [assumption|]. left. reflexivity.
          - apply PF; [assumption|]. right. apply P2; [assumption|]. left. reflexivity.
          - apply PF; [assumption|]. left. eauto.
          - apply PF; [assumption|]. right. apply P2; [assumption|]. right. apply P1; [assumption|]. right. exact Hold. }
        cbn [map]. constructor; [|assumption]. split; cbn [fst snd].
        { change (2 ^ 1) with 2. rewrite Hee. zmod N. replace (ia + N) with (ia + (N / 2) * 2) by lia. rewrite Z.div_add by lia. reflexivity. }
        exists (ia + 1). change (2 ^ 1) with 2. rewrite Hh. auto.
    + (* ia even, right neighbour not queried *)
      destruct Hnonsib as (leavesF & E & EF & R).
      * left. intros Hin. destruct (Hcov (ia + 1) Hin ltac:(lia)) as [[= E1 _]|Hin2]; [lia|].
        pose proof (keys_sorted_head_min ib (hpath ib) rest' (ia + 1) (hpath (ia + 1)) HS' Hin2). lia.
      * intros k x Hin. pose proof (Hlt k x Hin). assert (e = ia) by (unfold e; lia).
        destruct (Z.eq_dec k (ia + 1)) as [->|]; [|lia]. exfalso.
        destruct (Hes (ia + 1) x (or_intror Hin)) as (_ & Hk & _).
        pose proof (keys_sorted_head_min ib (hpath ib) rest' (ia + 1) x HS' Hin). lia.
      * exists leavesF, E. split; [exact EF|exact R].
  - (* ia odd *)
    cbn [bind]. destruct Hnonsib as (leavesF & E & EF & R).
    + right. lia.
    + intros k x Hin. pose proof (Hlt k x Hin). unfold e. lia.
    + exists leavesF, E. split; [exact EF|exact R].
Qed.

(* ---------------------------------------------------------------- upper levels *)
Lemma off_facts sh : 1 <= sh <= Z.of_nat d ->
  N / 2 ^ sh = 2 ^ (Z.of_nat d - sh) /\ N = (N / 2 ^ sh) * 2 ^ sh /\ 0 < 2 ^ sh.
Proof.
  intros H. assert (0 < 2 ^ sh) by (apply pow2_pos; lia).
  assert (E : N = 2 ^ (Z.of_nat d - sh) * 2 ^ sh) by (unfold N; rewrite <- Z.pow_add_r by lia; f_equal; lia).
  assert (Q : N / 2 ^ sh = 2 ^ (Z.of_nat d - sh)) by (rewrite E; apply Z.div_mul; lia).
  split; [exact Q|]. split; [rewrite Q; exact E|assumption].
Qed.

Lemma fp_scan_sim sh : 1 <= sh < Z.of_nat d -> forall n es I i nodes npmacc nodes' next, (length es <= n)%nat ->
  Forall2 (rel sh) es I -> ssorted I -> (forall a, In a I -> lev (Z.of_nat d - sh) a) ->
  (forall ka pa, hd_error es = Some (ka, pa) -> keys_lt npmacc (ka / 2)) ->
  pb_scan (mt_nodes t) I i nodes = Ok (nodes', next) ->
  exists E, fp_scan (sh + 1) es i nodes npmacc = Ok (nodes', npmacc ++ E) /\ Forall2 (rel (sh + 1)) E next /\
            ssorted next /\ (forall b, In b next -> exists a, In a I /\ b = a / 2).
Proof.
  intros Hsh. destruct (off_facts sh ltac:(lia)) as (Hoff & HNoff & Hp).
  set (off := N / 2 ^ sh) in *.
  assert (Hl1 : 1 <= Z.of_nat d - sh) by lia.
  assert (Hoe : off mod 2 = 0 /\ 2 <= off).
  { rewrite Hoff, (pow2_split _ Hl1). pose proof (pow2_pos (Z.of_nat d - sh - 1) ltac:(lia)).
    split; [rewrite Z.mul_comm; apply Z.mod_mul; lia|lia]. }
  destruct Hoe as [Hoe Ho2].
  assert (HoN : 2 * off <= N).
  { assert (2 <= 2 ^ sh) by (change 2 with (2 ^ 1) at 1; apply pow2_le_mono; lia). rewrite HNoff. nia. }
  assert (Hoff2 : off / 2 = N / 2 ^ (sh + 1)).
  { unfold off. rewrite Z.div_div by lia. f_equal. rewrite Z.pow_add_r by lia. reflexivity. }
  induction n as [|n IH]; intros es I i nodes npmacc nodes' next Hn HF HS HL Hkl E.
  { destruct es; [|simpl in Hn; lia]. inversion HF; subst. cbn in E. injection E as <- <-.
    exists []. cbn. rewrite app_nil_r. split; [reflexivity|]. split; [constructor|]. split; [exact Logic.I|intros ? []]. }
  destruct es as [|[ka pa] rest].
  { inversion HF; subst. cbn in E. injection E as <- <-.
    exists []. cbn. rewrite app_nil_r. split; [reflexivity|]. split; [constructor|]. split; [exact Logic.I|intros ? []]. }
  destruct I as [|a Irest]; [inversion HF|].
  assert (Hrel : rel sh (ka, pa) a) by (inversion HF; assumption).
  assert (HFr : Forall2 (rel sh) rest Irest) by (inversion HF; assumption).
  destruct Hrel as [Ea (i0 & Hi0 & Epa & Eka)]. cbn [fst snd] in *. subst pa. fold off in Ea.
  pose proof (HL a (or_introl eq_refl)) as La. unfold lev in La. rewrite <- Hoff in La.
  replace (Z.of_nat d - sh + 1) with (Z.succ (Z.of_nat d - sh)) in La by lia. rewrite Z.pow_succ_r, <- Hoff in La by lia.
  assert (Hka : 0 <= ka < off) by lia.
  assert (Ham : a mod 2 = ka mod 2).
  { zmod off. rewrite Ea. replace (ka + off) with (ka + (off / 2) * 2) by lia. apply Z.mod_add. lia. }
  assert (Hah : a / 2 = ka / 2 + N / 2 ^ (sh + 1)).
  { zmod off. rewrite <- Hoff2, Ea. replace (ka + off) with (ka + (off / 2) * 2) by lia. apply Z.div_add. lia. }
  assert (Hi2 : ka / 2 = i0 / 2 ^ (sh + 1)).
  { rewrite Eka, Z.div_div by lia. f_equal. rewrite Z.pow_add_r by lia. reflexivity. }
  assert (Hia : (i0 + N) / 2 ^ sh = a).
  { rewrite HNoff. rewrite Z.div_add by lia. fold off. lia. }
  assert (Hrel' : rel (sh + 1) (ka / 2, hpath i0) (a / 2)).
  { split; cbn [fst snd]; [assumption|]. exists i0. auto. }
  destruct HS as [Hlt HS'].
  rewrite pb_scan_unfold in E.
  (* continuation when a is not merged with its right neighbour *)
  assert (Hun : merged a Irest = false ->
    (forall kb pb, hd_error rest = Some (kb, pb) -> ka / 2 < kb / 2) ->
    exists E',
      (x <- idx (hpath i0) (sh + 1) ;; nodes1 <- push_at D nodes i x ;;
       fp_scan (sh + 1) rest (i + 1) nodes1 (bt_insert (Z.shiftr ka 1) (hpath i0) npmacc)) = Ok (nodes', npmacc ++ E') /\
      Forall2 (rel (sh + 1)) E' next /\ ssorted next /\ (forall b, In b next -> exists a', In a' (a :: Irest) /\ b = a' / 2)).
  { intros Em Hnext. rewrite Em in E.
    apply bind_Ok in E. destruct E as (x & Ex & E). apply bind_Ok in E. destruct E as (nodes1 & Epu & E).
    apply bind_Ok in E. destruct E as ([nodesF next'] & Er & E). injection E as <- <-.
    rewrite (idx_tn D d0 merge t d WF Hd) in Ex by (apply (sib_range D d0 merge t d WF Hd); fold N; lia). injection Ex as <-.
    rewrite hpath_nth by lia. replace (sh + 1 - 1) with sh by lia. rewrite Hia. cbn [bind]. rewrite Epu. cbn [bind].
    rewrite shiftr1. rewrite bt_insert_append by (apply (Hkl ka (hpath i0)); reflexivity).
    destruct (IH rest Irest (i + 1) nodes1 (npmacc ++ [(ka / 2, hpath i0)]) nodesF next') as (E' & EF & RF & SF & PF); try assumption.
    - simpl in Hn. lia.
    - intros c Hc. apply HL. right. assumption.
    - intros kb pb Hh. apply keys_lt_app; [eapply keys_lt_mono; [apply (Hkl ka (hpath i0)); reflexivity|]|];
        pose proof (Hnext kb pb Hh); lia.
    - rewrite EF. exists ((ka / 2, hpath i0) :: E'). rewrite <- app_assoc. split; [reflexivity|].
      rewrite shiftr1, lxor1_div2 by lia. split; [constructor; assumption|]. split.
      + split; [|assumption]. intros b Hb. apply PF in Hb. destruct Hb as (c & Hc & ->).
        pose proof (Hlt c Hc). pose proof (unmerged_notin a Irest ltac:(lia) (conj Hlt HS') Em) as Hnot.
        zmod a. zmod c. destruct (Z.eq_dec (c / 2) (a / 2)) as [Eh|]; [|lia].
        exfalso. apply Hnot. symmetry in Eh. apply half_eq in Eh; try lia. subst c. assumption.
      + intros b [<-|Hb]; [exists a; split; [left; reflexivity|reflexivity]|].
        apply PF in Hb. destruct Hb as (c & Hc & ->). exists c. split; [right; assumption|reflexivity]. }
  destruct rest as [|[kb pb] rest'].
  { inversion HFr; subst. cbn [Merkle.fp_scan].
    destruct Hun as (E' & EF & R); [reflexivity|intros ? ? [=]|]. exists E'. split; [exact EF|exact R]. }
  destruct Irest as [|b I']; [inversion HFr|].
  assert (Hrelb : rel sh (kb, pb) b) by (inversion HFr; assumption).
  destruct Hrelb as [Eb (i1 & Hi1 & Epb & Ekb)]. cbn [fst snd] in *. fold off in Eb.
  pose proof (Hlt b (or_introl eq_refl)) as Hab.
  cbn [Merkle.fp_scan]. rewrite are_siblings_spec.
  destruct (Z.eqb_spec (ka mod 2) 0) as [Ev|Ev].
  - destruct (Z.ltb_spec kb 1); [lia|]. cbn [bind].
    assert (Hx : Z.lxor a 1 = a + 1) by (apply lxor1_even; lia).
    destruct (Z.eqb_spec (kb - 1) ka) as [Ek|Ek].
    + (* merged *)
      assert (Em : merged a (b :: I') = true) by (cbn; apply Z.eqb_eq; lia).
      rewrite Em in E. cbn [tl] in E.
      apply bind_Ok in E. destruct E as ([nodesF next'] & Er & E). injection E as <- <-.
      rewrite shiftr1. rewrite bt_insert_append by (apply (Hkl ka (hpath i0)); reflexivity).
      assert (HFr' : Forall2 (rel sh) rest' I') by (inversion HFr; assumption).
      destruct HS' as [Hlt2 HS''].
      destruct (IH rest' I' (i + 2) nodes (npmacc ++ [(ka / 2, hpath i0)]) nodesF next') as (E' & EF & RF & SF & PF); try assumption.
      * simpl in Hn. lia.
      * intros c Hc. apply HL. right. right. assumption.
      * intros kc pc Hh. destruct rest' as [|[kc' pc'] r3]; [discriminate|]. injection Hh as -> ->.
        destruct I' as [|c I3]; [inversion HFr'|]. assert (Hrc : rel sh (kc, pc) c) by (inversion HFr'; assumption).
        destruct Hrc as [Ec _]. cbn [fst] in Ec. pose proof (Hlt2 c (or_introl eq_refl)). zmod ka. zmod kc.
        apply keys_lt_app; [eapply keys_lt_mono; [apply (Hkl ka (hpath i0)); reflexivity|]|]; lia.
      * rewrite EF. exists ((ka / 2, hpath i0) :: E'). rewrite <- app_assoc. split; [reflexivity|].
        rewrite shiftr1, lxor1_div2 by lia. split; [constructor; assumption|]. split.
        -- split; [|assumption]. intros c' Hc'. apply PF in Hc'. destruct Hc' as (c & Hc & ->).
           pose proof (Hlt2 c Hc). zmod a. zmod c. lia.
        -- intros c' [<-|Hc']; [exists a; split; [left; reflexivity|reflexivity]|].
           apply PF in Hc'. destruct Hc' as (c & Hc & ->). exists c. split; [right; right; assumption|reflexivity].
    + destruct Hun as (E' & EF & R).
      * cbn. apply Z.eqb_neq. lia.
      * intros kb' pb' [= <- <-]. zmod ka. zmod kb. lia.
      * exists E'. split; [exact EF|exact R].
  - cbn [bind]. destruct Hun as (E' & EF & R).
    + cbn. apply Z.eqb_neq. zmod ka. zmod a. rewrite lxor1_odd by lia. lia.
    + intros kb' pb' [= <- <-]. zmod ka. zmod kb. lia.
    + exists E'. split; [exact EF|exact R].
Qed.

Lemma fp_levels_sim : forall (k : nat) sh pm I nodes NF,
  1 <= sh -> sh + Z.of_nat k = Z.of_nat d ->
  Forall2 (rel sh) pm I -> ssorted I -> (forall a, In a I -> lev (Z.of_nat d - sh) a) ->
  pb_levels k (mt_nodes t) I nodes = Ok NF -> fp_levels k (sh + 1) pm nodes = Ok NF.
Proof.
  induction k as [|k IH]; intros sh pm I nodes NF Hsh Hk HF HS HL E.
  - cbn in *. assumption.
  - cbn [Merkle.pb_levels Merkle.fp_levels] in *. apply bind_Ok in E. destruct E as ([nodes1 next] & Es & E).
    destruct (fp_scan_sim sh ltac:(lia) (length pm) pm I 0 nodes [] nodes1 next (le_n _) HF HS HL) as (E' & EF & RF & SF & PF).
    + intros ka pa _ k0 x [].
    + assumption.
    + rewrite EF. cbn [bind app]. apply (IH (sh + 1) E' next); try assumption; try lia.
      intros b Hb. apply PF in Hb. destruct Hb as (a & Ha & ->).
      replace (Z.of_nat d - (sh + 1)) with (Z.of_nat d - sh - 1) by lia. apply lev_div2; [lia|apply HL; assumption].
Qed.

End From.

Lemma map_indexes_mi_loop idx dz imap : map_indexes idx dz = Ok imap -> mi_loop (2 ^ dz) idx 0 [] = Ok imap.
Proof.
  unfold map_indexes. destruct (64 <=? dz); [discriminate|]. intros E. apply bind_Ok in E. destruct E as (m & Em & E).
  destruct (negb _); [discriminate|]. injection E as <-. assumption.
Qed.

Section FromTop.
Variable D : Type.
Variable D_eqb : D -> D -> bool.
Hypothesis D_eqb_spec : forall a b, D_eqb a b = true <-> a = b.
Variable d0 : D.
Variable merge : D -> D -> D.
Variable t : mtree D.
Variable d : nat.
Hypothesis WF : wf_tree D d0 merge d t.
Hypothesis Hd : (d <= 62)%nat.
Let N := 2 ^ Z.of_nat d.

Notation hpath := (hpath D d0 t d).

Definition pm_of (idx : list Z) (m : bmap (list D)) : bmap (list D) :=
  fold_left (fun m i => bt_insert i (hpath i) m) idx m.

Lemma fp_map_ok : forall idx m, fp_map D (Z.of_nat d + 1) idx (map hpath idx) m = Ok (pm_of idx m).
Proof.
  induction idx as [|i r IH]; intros m; [reflexivity|]. change (pm_of (i :: r) m) with (pm_of r (bt_insert i (hpath i) m)). cbn [map Merkle.fp_map].
  rewrite (hpath_len D d0 t d), Z.eqb_refl. cbn [negb]. apply IH.
Qed.

Lemma pm_of_sorted : forall idx m, keys_sorted m -> keys_sorted (pm_of idx m).
Proof.
  induction idx as [|i r IH]; intros m H; [assumption|]. change (pm_of (i :: r) m) with (pm_of r (bt_insert i (hpath i) m)).
  apply IH. apply bt_insert_sorted. assumption.
Qed.

Lemma pm_of_get : forall idx m k,
  (In k idx -> bt_get k (pm_of idx m) = Some (hpath k)) /\ (~ In k idx -> bt_get k (pm_of idx m) = bt_get k m).
Proof.
  induction idx as [|i r IH]; intros m k; [split; [intros []|reflexivity]|].
  change (pm_of (i :: r) m) with (pm_of r (bt_insert i (hpath i) m)).
  destruct (IH (bt_insert i (hpath i) m) k) as [A B]. split.
  - intros [<-|Hin]; [|auto]. destruct (in_dec Z.eq_dec i r) as [Hin|Hnin]; [auto|].
    rewrite (B Hnin). apply bt_get_insert_same.
  - intros Hn. rewrite B by (intros H; apply Hn; right; assumption).
    apply bt_get_insert_other. intros ->. apply Hn. left. reflexivity.
Qed.

(* from_paths applied to the individual paths, in the caller's order, is prove_batch *)
Theorem from_paths_of_proves_tree : forall indexes,
  indexes <> [] -> zlen indexes <= 255 -> NoDup indexes -> (forall i, In i indexes -> 0 <= i < N) ->
  exists p, mt_prove_batch D d0 t indexes = Ok p /\ from_paths D d0 (map hpath indexes) indexes = Ok p.
Proof.
  intros idx Hne Hlen ND Hr. pose proof (wf_d _ _ _ _ _ WF) as Hd1.
  pose proof (FN_pos D d0 merge t d WF Hd) as HN2. pose proof (FN_even D d0 merge t d WF Hd) as HNe. fold N in HN2, HNe.
  destruct (prove_batch_shape D d0 merge t d WF Hd idx Hne Hlen ND Hr) as (imap & LF & NF & Emi & IM & LLF & PLF & Epl & Epb).
  eexists. split; [exact Epb|]. fold N in Epl.
  (* unfold from_paths *)
  unfold Merkle.from_paths. destruct idx as [|i0 ir] eqn:Ei; [congruence|]. cbn [map].
  change (hpath i0 :: map hpath ir) with (map hpath (i0 :: ir)). rewrite <- Ei in *.
  set (norm := normalize_indexes idx) in *.
  unfold max_paths. assert (Hzl : zlen (map hpath idx) = zlen idx) by (unfold zlen; rewrite map_length; reflexivity).
  rewrite Hzl. destruct (Z.ltb_spec 255 (zlen idx)); [lia|]. rewrite Z.eqb_refl. cbn [negb].
  rewrite (hpath_len D d0 t d). rewrite fp_map_ok. cbn [bind]. change (pm_of idx []) with (pm_of idx []).
  set (pm := pm_of idx []).
  assert (HpmS : keys_sorted pm) by (apply pm_of_sorted; exact Logic.I).
  assert (HpmIn : forall k x, In (k, x) pm -> x = hpath k /\ In k idx).
  { intros k x Hin. apply (bt_get_sorted_In _ _ _ HpmS) in Hin. destruct (pm_of_get idx [] k) as [A B]. fold pm in A, B.
    destruct (in_dec Z.eq_dec k idx) as [Hk|Hk]; [rewrite (A Hk) in Hin; injection Hin as <-; auto|].
    rewrite (B Hk) in Hin. discriminate. }
  assert (HpmCov : forall k, In k idx -> In (k, hpath k) pm).
  { intros k Hk. apply bt_get_In. apply (pm_of_get idx [] k). assumption. }
  (* the position map is map_indexes' map *)
  rewrite (fp_pos_mi_loop (2 ^ Z.of_nat d) idx (map hpath idx) 0 [] imap) by (try (rewrite map_length; reflexivity); apply map_indexes_mi_loop; assumption).
  destruct (fp_first_sim D d0 merge t d WF Hd idx imap IM ND Hr (length pm) pm norm 0 (repeat d0 (length (map hpath idx))) [])
    as (LFf & E & EF & LFl & PF & RF); try assumption; try lia; try reflexivity.
  - intros k x Hin. destruct (HpmIn k x Hin) as [A B]. split; [assumption|]. split; [assumption|]. apply Hr. assumption.
  - intros k Hk _. apply HpmCov. assumption.
  - apply normalize_sorted.
  - intros e. unfold norm. split; [intros He; split; [exact He|]|intros [He _]; exact He].
    apply normalize_In in He. destruct He as (i & Hi & ->). pose proof (Hr i Hi). zmod i. lia.
  - rewrite repeat_length, map_length. reflexivity.
  - intros k x [].
  - fold norm in EF. rewrite EF. cbn [bind app].
    assert (ELF : LFf = LF).
    { apply nth_error_ext'. intros j. destruct (nth_error idx j) as [i|] eqn:Ej.
      - rewrite (PLF j i Ej). rewrite <- (Nat2Z.id j) at 1. apply (PF i (Z.of_nat j)).
        + apply IM. split; [lia|]. rewrite Nat2Z.id. assumption.
        + left. exists (hpath i). apply HpmCov. eapply nth_error_In. eassumption.
      - apply nth_error_None in Ej. rewrite (proj2 (nth_error_None LFf j)) by lia. rewrite (proj2 (nth_error_None LF j)) by lia. reflexivity. }
    subst LFf.
    replace (Z.to_nat (Z.of_nat d + 1 - 2)) with (pred d) by lia.
    assert (EL : fp_levels D (pred d) (1 + 1) E (map (miss D d0 t imap) norm) = Ok NF).
    { eapply (fp_levels_sim D d0 merge t d) with (I := map (fun e => (e + N) / 2) norm); try eassumption; try lia.
      - replace (map (fun e => (e + N) / 2) norm) with (map (fun e => (N + e) / 2) norm) by (apply map_ext; intros; f_equal; lia).
        apply ssorted_map_half; try lia; [apply normalize_sorted|].
        intros e He. apply normalize_In in He. destruct He as (i & Hi & ->). pose proof (Hr i Hi). zmod i.
        split; [lia|]. replace (i - i mod 2) with (0 + (i / 2) * 2) by lia. rewrite Z.mod_add by lia. reflexivity.
      - intros a Ha. apply in_map_iff in Ha. destruct Ha as (e & <- & He).
        apply normalize_In in He. destruct He as (i & Hi & ->). pose proof (Hr i Hi). zmod i. zmod N.
        unfold lev. replace (Z.of_nat d - 1 + 1) with (Z.of_nat d) by lia. fold N.
        assert (N = 2 * 2 ^ (Z.of_nat d - 1)) by (unfold N; apply pow2_split; lia).
        zmod (i - i mod 2 + N). lia. }
    change (1 + 1) with 2 in EL. rewrite EL.
    cbn [bind]. destruct (Z.ltb_spec (Z.of_nat d + 1) 1); [lia|]. do 2 f_equal.
    replace (Z.of_nat d + 1 - 1) with (Z.of_nat d) by lia. apply Z.mod_small. lia.
Qed.

(* stated with the real prove: re-compressing the individual paths gives the batch opening *)
Theorem from_paths_of_proves : forall indexes,
  indexes <> [] -> zlen indexes <= 255 -> NoDup indexes -> (forall i, In i indexes -> 0 <= i < N) ->
  exists p paths, mapM (mt_prove D t) indexes = Ok paths /\ mt_prove_batch D d0 t indexes = Ok p /\
                  from_paths D d0 paths indexes = Ok p.
Proof.
  intros idx Hne Hlen ND Hr.
  destruct (from_paths_of_proves_tree idx Hne Hlen ND Hr) as (p & Ep & Ef).
  exists p, (map hpath idx). split; [|split; assumption].
  apply mapM_map. intros i Hi. apply (mt_prove_spec D d0 merge t d WF Hd). apply Hr. assumption.
Qed.

(* from_into_roundtrip: decompress then re-compress an honest batch opening, any order of the positions *)
Theorem from_into_roundtrip : forall indexes,
  indexes <> [] -> zlen indexes <= 255 -> NoDup indexes -> (forall i, In i indexes -> 0 <= i < N) ->
  exists p paths, mt_prove_batch D d0 t indexes = Ok p /\ into_paths D merge p indexes = Ok paths /\
                  from_paths D d0 paths indexes = Ok p.
Proof.
  intros idx Hne Hlen ND Hr.
  destruct (into_paths_spec_tree D D_eqb D_eqb_spec d0 merge t d WF Hd idx Hne Hlen ND Hr) as (p & Ep & Ei & _).
  destruct (from_paths_of_proves_tree idx Hne Hlen ND Hr) as (p' & Ep' & Ef).
  rewrite Ep in Ep'. injection Ep' as <-. exists p, (map hpath idx). auto.
Qed.

End FromTop.
