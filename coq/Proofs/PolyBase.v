(* C20 — base lemmas: polynomial semantics `peval`, powers, checked list accesses, loop combinators.
   stdlib style.  Everything is stated for an arbitrary `FOps F` satisfying `FLaws`. *)
From Coq Require Import List Arith Bool Lia Ring Field.
From VBase Require Import FieldOps.
From VModel Require Import Polynom.
Import ListNotations.

(* ------------------------------------------------------------------ lists: get / set / upd *)
Section Lists.
Context {A : Type}.

Lemma upd_length (l : list A) i v : length (upd l i v) = length l.
Proof. revert i; induction l; destruct i; simpl; auto. Qed.

Lemma get_ok (l : list A) i d : i < length l -> get l i = Ok (nth i l d).
Proof.
  unfold get; intros H. destruct (nth_error l i) eqn:E.
  - f_equal. symmetry. apply nth_error_nth; assumption.
  - apply nth_error_None in E. lia.
Qed.

Lemma get_panic (l : list A) i : length l <= i -> get l i = Panic.
Proof. unfold get; intros H. apply nth_error_None in H. now rewrite H. Qed.

Lemma get_ok_inv (l : list A) i v : get l i = Ok v -> i < length l /\ forall d, nth i l d = v.
Proof.
  unfold get; destruct (nth_error l i) eqn:E; [|discriminate]. intros H; inversion H; subst.
  split. apply nth_error_Some; congruence. intros d; now apply nth_error_nth.
Qed.

Lemma get_app_mid (l1 l2 : list A) v : get (l1 ++ v :: l2) (length l1) = Ok v.
Proof. unfold get. rewrite nth_error_app2 by lia. now rewrite Nat.sub_diag. Qed.

Lemma set_ok (l : list A) i v : i < length l -> set l i v = Ok (upd l i v).
Proof. unfold set; intros H. apply Nat.ltb_lt in H. now rewrite H. Qed.

Lemma set_panic (l : list A) i v : length l <= i -> set l i v = Panic.
Proof. unfold set; intros H. apply Nat.ltb_ge in H. now rewrite H. Qed.

Lemma upd_app_mid (l1 l2 : list A) v w : upd (l1 ++ v :: l2) (length l1) w = l1 ++ w :: l2.
Proof. induction l1; simpl; congruence. Qed.

Lemma upd_app_l (l1 l2 : list A) i w : i < length l1 -> upd (l1 ++ l2) i w = upd l1 i w ++ l2.
Proof. revert i; induction l1; simpl; intros i H; [lia|]. destruct i; simpl; auto. rewrite IHl1; auto; lia. Qed.

Lemma upd_app_r (l1 l2 : list A) i w : length l1 <= i -> upd (l1 ++ l2) i w = l1 ++ upd l2 (i - length l1) w.
Proof.
  revert i; induction l1; simpl; intros i H. now rewrite Nat.sub_0_r.
  destruct i; [lia|]. simpl. rewrite IHl1; auto; lia.
Qed.

Lemma nth_upd_same (l : list A) i v d : i < length l -> nth i (upd l i v) d = v.
Proof. revert i; induction l; simpl; intros i H; [lia|]. destruct i; simpl; auto. apply IHl; lia. Qed.

Lemma nth_upd_other (l : list A) i k v d : k <> i -> nth k (upd l i v) d = nth k l d.
Proof.
  revert i k; induction l; simpl; intros i k H; auto.
  destruct i, k; simpl; auto; try lia.
Qed.

Lemma firstn_upd_lt (l : list A) i n v : i < n -> firstn n (upd l i v) = upd (firstn n l) i v.
Proof.
  revert i n; induction l; intros i n H; simpl. now rewrite firstn_nil.
  destruct n; [lia|]. destruct i; simpl; auto. rewrite IHl; auto; lia.
Qed.

Lemma firstn_upd_ge (l : list A) i n v : n <= i -> firstn n (upd l i v) = firstn n l.
Proof.
  revert i n; induction l; intros i n H; simpl; auto.
  destruct n; auto. destruct i; [lia|]. simpl. rewrite IHl; auto; lia.
Qed.

Lemma skipn_upd_lt (l : list A) i n v : i < n -> skipn n (upd l i v) = skipn n l.
Proof.
  revert i n; induction l; intros i n H; simpl. now rewrite skipn_nil.
  destruct n; [lia|]. destruct i; simpl; auto. apply IHl; lia.
Qed.

Lemma firstn_S_snoc (l : list A) n d : n < length l -> firstn (S n) l = firstn n l ++ [nth n l d].
Proof.
  revert n; induction l; simpl; intros n H; [lia|]. destruct n; simpl; auto.
  f_equal. apply IHl; lia.
Qed.

Lemma nth_firstn_lt (l : list A) i n d : i < n -> nth i (firstn n l) d = nth i l d.
Proof.
  revert i n; induction l; intros i n H. now rewrite firstn_nil.
  destruct n; [lia|]. destruct i; simpl; auto. apply IHl; lia.
Qed.

Lemma list_ext (l1 l2 : list A) d : length l1 = length l2 ->
  (forall i, i < length l1 -> nth i l1 d = nth i l2 d) -> l1 = l2.
Proof.
  revert l2; induction l1; destruct l2; simpl; intros H E; try discriminate; auto.
  f_equal. apply (E 0); lia. apply IHl1. lia. intros i Hi. apply (E (S i)); lia.
Qed.

Lemma skipn_cons_nth (l : list A) k d : k < length l -> skipn k l = nth k l d :: skipn (S k) l.
Proof.
  revert k; induction l; simpl; intros k H; [lia|]. destruct k; simpl; auto. apply IHl; lia.
Qed.

Lemma repeat_snoc (v : A) n : repeat v (S n) = repeat v n ++ [v].
Proof. induction n; simpl in *; congruence. Qed.

End Lists.

(* bind inversion *)
Lemma bind_ok {A B} (r : Result A) (f : A -> Result B) v :
  bind r f = Ok v -> exists a, r = Ok a /\ f a = Ok v.
Proof. destruct r; simpl; intros H; [eauto|discriminate]. Qed.

Lemma for_up_snoc {St} (body : nat -> St -> Result St) i n s :
  for_up i (S n) body s = bind (for_up i n body s) (fun s' => body (i + n) s').
Proof.
  revert i s; induction n; intros i s.
  - simpl. rewrite Nat.add_0_r. destruct (body i s); reflexivity.
  - change (for_up i (S (S n)) body s) with
      (match body i s with Ok s' => for_up (S i) (S n) body s' | Panic => Panic end).
    change (for_up i (S n) body s) with
      (match body i s with Ok s' => for_up (S i) n body s' | Panic => Panic end).
    destruct (body i s); [|reflexivity]. rewrite IHn. now rewrite Nat.add_succ_comm.
Qed.

(* ------------------------------------------------------------------ field layer *)
Section Field.
Context {F : Type} (O : FOps F) (L : FLaws O).
Local Notation zero := (fzero O).
Local Notation one := (fone O).
Local Notation "a +f b" := (fadd O a b) (at level 50, left associativity).
Local Notation "a -f b" := (fsub O a b) (at level 50, left associativity).
Local Notation "a *f b" := (fmul O a b) (at level 40, left associativity).

Add Ring Fring : (FLaws_ring_theory O L).
Add Field Ffield : (FLaws_field_theory O L).

Lemma feqb_true a b : feqb O a b = true -> a = b.
Proof. apply (fl_eqb_spec O L). Qed.

Lemma feqb_refl a : feqb O a a = true.
Proof. now apply (fl_eqb_spec O L). Qed.

Lemma feqb_false a b : feqb O a b = false -> a <> b.
Proof. intros H E. subst. rewrite feqb_refl in H. discriminate. Qed.

Lemma feqb_neq a b : a <> b -> feqb O a b = false.
Proof. intros H. destruct (feqb O a b) eqn:E; auto. apply feqb_true in E. contradiction. Qed.

Lemma fmul_0_l a : zero *f a = zero. Proof. ring. Qed.
Lemma fmul_0_r a : a *f zero = zero. Proof. ring. Qed.

Lemma fmul_integral a b : a *f b = zero -> a = zero \/ b = zero.
Proof.
  intros H. destruct (feqb O a zero) eqn:E. left; now apply feqb_true.
  right. apply feqb_false in E.
  assert (finv O a *f (a *f b) = b). { rewrite (fl_mul_assoc O L). rewrite (fl_inv_l O L) by assumption. ring. }
  rewrite H in H0. rewrite <- H0. ring.
Qed.

Lemma fmul_nonzero a b : a <> zero -> b <> zero -> a *f b <> zero.
Proof. intros Ha Hb H. apply fmul_integral in H. tauto. Qed.

Lemma finv_r a : a <> zero -> a *f finv O a = one.
Proof. intros H. rewrite (fl_mul_comm O L). now apply (fl_inv_l O L). Qed.

Lemma fsub_eq_zero a b : a -f b = zero -> a = b.
Proof. intros H. assert (a = (a -f b) +f b) by ring. rewrite H0, H. ring. Qed.

(* powers *)
Fixpoint fpow (x : F) (n : nat) : F := match n with 0 => one | S n' => x *f fpow x n' end.

Lemma fpow_add x a b : fpow x (a + b) = fpow x a *f fpow x b.
Proof. induction a; simpl. ring. rewrite IHa. ring. Qed.

Lemma fpow_S_r x n : fpow x (S n) = fpow x n *f x.
Proof. simpl. ring. Qed.

(* polynomial semantics: Σ c_i x^i *)
Fixpoint peval (p : list F) (x : F) : F :=
  match p with [] => zero | c :: t => c +f x *f peval t x end.

(* the same as an explicit sum over indices *)
Fixpoint psum (p : list F) (x : F) (i n : nat) : F :=
  match n with 0 => zero | S n' => nth i p zero *f fpow x i +f psum p x (S i) n' end.

Lemma peval_app p q x : peval (p ++ q) x = peval p x +f fpow x (length p) *f peval q x.
Proof. induction p; simpl. ring. rewrite IHp. ring. Qed.

Lemma peval_psum_aux p : forall q x, psum (q ++ p) x (length q) (length p) = fpow x (length q) *f peval p x.
Proof.
  induction p; intros q x; simpl. ring.
  rewrite app_nth2 by lia. rewrite Nat.sub_diag. simpl.
  replace (q ++ a :: p) with ((q ++ [a]) ++ p) by (rewrite <- app_assoc; reflexivity).
  replace (S (length q)) with (length (q ++ [a])) by (rewrite app_length; simpl; lia).
  rewrite IHp. rewrite app_length; simpl. rewrite Nat.add_1_r. simpl. ring.
Qed.

Lemma peval_psum p x : peval p x = psum p x 0 (length p).
Proof. pose proof (peval_psum_aux p [] x) as H. simpl in H. rewrite H. ring. Qed.

Lemma peval_repeat_zero n x : peval (repeat zero n) x = zero.
Proof. induction n; simpl. reflexivity. rewrite IHn. ring. Qed.

Lemma peval_upd l k v x : k < length l ->
  peval (upd l k v) x = peval l x +f (v -f nth k l zero) *f fpow x k.
Proof.
  revert k; induction l; simpl; intros k H; [lia|].
  destruct k; simpl. ring. rewrite IHl by lia. ring.
Qed.

Lemma peval_firstn_S l m x : m < length l ->
  peval (firstn (S m) l) x = peval (firstn m l) x +f nth m l zero *f fpow x m.
Proof.
  intros H. rewrite (firstn_S_snoc l m zero H). rewrite peval_app. simpl.
  rewrite firstn_length_le by lia. ring.
Qed.

Lemma peval_firstn_all l n x : length l <= n -> peval (firstn n l) x = peval l x.
Proof. intros H. now rewrite firstn_all2. Qed.

Lemma peval_snoc l c x : peval (l ++ [c]) x = peval l x +f c *f fpow x (length l).
Proof. rewrite peval_app. simpl. ring. Qed.

(* read-modify-write of one coefficient *)
Lemma rmw_ok (r : list F) k (g : F -> F) :
  k < length r ->
  (rk <- get r k;; set r k (g rk)) = Ok (upd r k (g (nth k r zero))).
Proof. intros H. rewrite (get_ok r k zero H). simpl. now apply set_ok. Qed.

Lemma peval_rmw_add r k s x : k < length r ->
  peval (upd r k (nth k r zero +f s)) x = peval r x +f s *f fpow x k.
Proof. intros H. rewrite peval_upd by assumption. ring. Qed.

End Field.
