(* C16, Lagrange kernel constraints (Model/EnforceLagrange.v): the rows on which each of the log2(n) transition
   constraints is enforced, the rows it relates, and that together with the boundary constraint they determine the
   column.  Integer level first (n = 2^v), then field level (any FOps with FLaws, g of exact order n).
   stdlib style. *)
From Coq Require Import ZArith List Bool Lia Ring Field Arith.
From VBase Require Import MachInt FieldOps.
From VModel Require Import Enforce EnforceLagrange.
From VProofs Require Import EnforceSteps EnforceField EnforceDivisor.
Import ListNotations.
Open Scope Z_scope.

(* ------------------------------------------------------------------ powers of two *)

Lemma p2_pos a : 0 <= a -> 0 < 2 ^ a.
Proof. intros. apply Z.pow_pos_nonneg; lia. Qed.

Lemma p2_split a b : 0 <= b <= a -> 2 ^ a = 2 ^ (a - b) * 2 ^ b.
Proof. intros H. rewrite <- Z.pow_add_r by lia. f_equal. lia. Qed.

Lemma p2_div a b : 0 <= b <= a -> 2 ^ a / 2 ^ b = 2 ^ (a - b).
Proof.
  intros H. rewrite (p2_split a b H). apply Z.div_mul. pose proof (p2_pos b). lia.
Qed.

Lemma p2_divide a b : 0 <= b <= a -> (2 ^ b | 2 ^ a).
Proof. intros H. exists (2 ^ (a - b)). apply p2_split. exact H. Qed.

Lemma p2_succ a : 0 <= a -> 2 ^ (a + 1) = 2 * 2 ^ a.
Proof. intros H. rewrite Z.pow_add_r by lia. lia. Qed.

Lemma p2_not_divide_smaller a : 0 <= a -> ~ (2 ^ (a + 1) | 2 ^ a).
Proof.
  intros Ha H. pose proof (p2_pos a Ha). apply Z.divide_pos_le in H; [|lia]. rewrite p2_succ in H by lia. lia.
Qed.

Lemma log2_p2 v : 0 <= v -> Z.log2 (2 ^ v) = v.
Proof. intros. apply Z.log2_pow2. lia. Qed.

(* every positive integer is 2^t * (2q + 1) *)
Lemma two_adic j : 0 < j -> exists t q, 0 <= t /\ 0 <= q /\ j = 2 ^ t * (2 * q + 1).
Proof.
  intros Hj. assert (H0 : 0 <= j) by lia. revert Hj. pattern j. apply Z_lt_induction; [|exact H0].
  clear j H0. intros j IH Hj.
  destruct (Z.eq_dec (j mod 2) 0) as [E|E].
  - assert (Ej : j = 2 * (j / 2)) by (pose proof (Z.div_mod j 2); lia).
    destruct (IH (j / 2)) as (t & q & Ht & Hq & Eq); [lia|lia|].
    exists (t + 1), q. split; [lia|]. split; [lia|]. rewrite p2_succ by lia. lia.
  - exists 0, (j / 2). split; [lia|]. split; [apply Z.div_pos; lia|].
    pose proof (Z.div_mod j 2). pose proof (Z.mod_pos_bound j 2). cbn [Z.pow]. lia.
Qed.

(* ------------------------------------------------------------------ rows *)
Section Rows.
  Variable v : Z.
  Hypothesis Hv : 0 <= v.
  Let n := 2 ^ v.

  Lemma n_is : n = 2 ^ v. Proof. reflexivity. Qed.
  Lemma rows_n_pos : 0 < n. Proof. apply p2_pos. exact Hv. Qed.

  Lemma lag_num_coefficients_spec : lag_num_coefficients n = v.
  Proof. unfold lag_num_coefficients, n. apply log2_p2. exact Hv. Qed.

  Lemma stride_is k : 1 <= k <= v -> n / 2 ^ (k - 1) = 2 ^ (v - k + 1).
  Proof. intros H. unfold n. rewrite p2_div by lia. f_equal. lia. Qed.

  Lemma shift_is k : 1 <= k <= v -> lag_shift n k = 2 ^ (v - k).
  Proof. intros H. unfold lag_shift, n. apply p2_div. lia. Qed.

  Lemma n_factor k : 1 <= k <= v -> n = 2 ^ (k - 1) * 2 ^ (v - k + 1).
  Proof. intros H. unfold n. rewrite <- Z.pow_add_r by lia. f_equal. lia. Qed.

  (* the enforcement domain of constraint k: the multiples of 2^(v-k+1) below n *)
  Lemma lag_rows_spec k i : 1 <= k <= v ->
    (In i (lag_rows n k) <-> 0 <= i < n /\ (2 ^ (v - k + 1) | i)).
  Proof.
    intros Hk. unfold lag_rows. cbv zeta. rewrite stride_is by lia. rewrite in_map_iff.
    pose proof (p2_pos (v - k + 1) ltac:(lia)) as Hs. pose proof (p2_pos (k - 1) ltac:(lia)) as Hm.
    pose proof (n_factor k Hk) as En. split.
    - intros (j & <- & Hj). apply In_zrange in Hj. split; [nia|]. exists j. reflexivity.
    - intros (Hi & (q & ->)). exists q. split; [reflexivity|]. apply In_zrange. nia.
  Qed.

  Lemma lag_rows_length k : 1 <= k <= v -> Z.of_nat (length (lag_rows n k)) = 2 ^ (k - 1).
  Proof.
    intros Hk. unfold lag_rows. cbv zeta. rewrite map_length, zrange_length.
    pose proof (p2_pos (k - 1) ltac:(lia)). lia.
  Qed.

  Lemma lag_rows_NoDup k : 1 <= k <= v -> NoDup (lag_rows n k).
  Proof.
    intros Hk. unfold lag_rows. cbv zeta. rewrite stride_is by lia.
    pose proof (p2_pos (v - k + 1) ltac:(lia)) as Hs.
    apply FinFun.Injective_map_NoDup; [|apply zrange_NoDup]. intros a b H. nia.
  Qed.

  (* the domains are nested: subgroup of size 2^(k-1) inside the subgroup of size 2^k *)
  Lemma lag_rows_nested k i : 1 <= k < v -> In i (lag_rows n k) -> In i (lag_rows n (k + 1)).
  Proof.
    intros Hk H. apply lag_rows_spec in H; [|lia]. apply lag_rows_spec; [lia|].
    destruct H as [Hi Hd]. split; [exact Hi|].
    eapply Z.divide_trans; [|exact Hd]. replace (v - (k + 1) + 1) with (v - k) by lia.
    exists 2. rewrite p2_succ by lia. lia.
  Qed.

  Lemma lag_rows_even k i : 1 <= k <= v -> In i (lag_rows n k) -> (2 | i).
  Proof.
    intros Hk H. apply lag_rows_spec in H; [|lia]. destruct H as [_ Hd].
    eapply Z.divide_trans; [|exact Hd]. replace (v - k + 1) with ((v - k) + 1) by lia.
    rewrite p2_succ by lia. exists (2 ^ (v - k)). lia.
  Qed.

  (* the union of the enforcement domains is the last one: the rows of even index *)
  Lemma lag_rows_union i : 1 <= v ->
    ((exists k, 1 <= k <= v /\ In i (lag_rows n k)) <-> 0 <= i < n /\ (2 | i)).
  Proof.
    intros Hv1. split.
    - intros (k & Hk & H). split; [apply lag_rows_spec in H; [tauto|lia]|]. eapply lag_rows_even; eassumption.
    - intros [Hi Hd]. exists v. split; [lia|]. apply lag_rows_spec; [lia|]. split; [exact Hi|].
      replace (v - v + 1) with 1 by lia. exact Hd.
  Qed.

  (* the second row read by an enforced constraint lies inside the trace: no wrap-around *)
  Lemma lag_target_in_range k i : 1 <= k <= v -> In i (lag_rows n k) ->
    0 < i + lag_shift n k < n /\ (i + lag_shift n k) mod n = i + lag_shift n k.
  Proof.
    intros Hk H. apply lag_rows_spec in H; [|lia]. destruct H as [Hi (q & ->)].
    rewrite shift_is by lia. pose proof (p2_pos (v - k) ltac:(lia)) as Hs.
    pose proof (n_factor k Hk) as En. replace (v - k + 1) with ((v - k) + 1) in * by lia.
    rewrite p2_succ in * by lia. pose proof (p2_pos (k - 1) ltac:(lia)) as Hm.
    assert (Hq : 0 <= q < 2 ^ (k - 1)) by nia.
    assert (R : 0 < q * (2 * 2 ^ (v - k)) + 2 ^ (v - k) < n) by nia.
    split; [exact R|]. apply Z.mod_small. lia.
  Qed.

  Lemma lag_reads_spec k i j : 1 <= k <= v -> In i (lag_rows n k) ->
    (In j (lag_reads n k i) <-> j = i \/ j = i + 2 ^ (v - k)).
  Proof.
    intros Hk H. unfold lag_reads. destruct (lag_target_in_range k i Hk H) as [_ ->].
    rewrite shift_is by lia. cbn [In]. intuition lia.
  Qed.

  (* every row but row 0 is the second ("target") row of exactly one enforced (constraint, row) pair *)
  Lemma lag_target_exists j : 0 < j < n ->
    exists k i, 1 <= k <= v /\ In i (lag_rows n k) /\ j = i + lag_shift n k.
  Proof.
    intros Hj. destruct (two_adic j ltac:(lia)) as (t & q & Ht & Hq & E).
    pose proof (p2_pos t Ht) as Hpt.
    assert (Htv : t < v).
    { apply (Z.pow_lt_mono_r_iff 2); [lia|lia|]. fold n. nia. }
    exists (v - t), (q * 2 ^ (t + 1)). split; [lia|].
    rewrite shift_is by lia. replace (v - (v - t)) with t by lia. split.
    - apply lag_rows_spec; [lia|]. replace (v - (v - t) + 1) with (t + 1) by lia.
      split; [|exists q; reflexivity]. rewrite p2_succ by lia. nia.
    - rewrite p2_succ by lia. lia.
  Qed.

  Lemma lag_target_unique : forall j k i k' i', 1 <= k <= v -> 1 <= k' <= v ->
    In i (lag_rows n k) -> In i' (lag_rows n k') ->
    j = i + lag_shift n k -> j = i' + lag_shift n k' -> k = k' /\ i = i'.
  Proof.
    assert (Half : forall k i k' i', 1 <= k <= v -> 1 <= k' <= v -> In i (lag_rows n k) -> In i' (lag_rows n k') ->
               i + lag_shift n k = i' + lag_shift n k' -> k < k' -> False).
    { intros k i k' i' Hk Hk' H H' E Hlt.
      apply lag_rows_spec in H; [|lia]. apply lag_rows_spec in H'; [|lia].
      destruct H as [_ Hd]. destruct H' as [_ Hd']. rewrite !shift_is in E by lia.
      assert (D1 : (2 ^ (v - k' + 1) | i + 2 ^ (v - k))).
      { apply Z.divide_add_r.
        - eapply Z.divide_trans; [|exact Hd]. apply p2_divide. lia.
        - apply p2_divide. lia. }
      rewrite E in D1. apply (Z.divide_add_cancel_r _ _ _ Hd') in D1.
      apply (p2_not_divide_smaller (v - k')); [lia|]. exact D1. }
    intros j k i k' i' Hk Hk' H H' E E'. rewrite E in E'.
    destruct (Z.lt_trichotomy k k') as [Hlt | [-> | Hgt]].
    - exfalso. eapply (Half k i k' i'); eassumption.
    - split; [reflexivity|lia].
    - exfalso. eapply (Half k' i' k i); try eassumption. lia.
  Qed.

  (* row 0 is never a target; it is pinned by the boundary constraint *)
  Lemma lag_row0_not_target k i : 1 <= k <= v -> In i (lag_rows n k) -> i + lag_shift n k <> 0.
  Proof. intros Hk H. pose proof (lag_target_in_range k i Hk H). lia. Qed.

  (* a row of odd index is read by the last constraint only *)
  Lemma lag_odd_row_last_only j k i : 1 <= k <= v -> In i (lag_rows n k) -> In j (lag_reads n k i) ->
    ~ (2 | j) -> k = v /\ j = i + 1.
  Proof.
    intros Hk H Hr Hodd. pose proof (lag_rows_even k i Hk H) as He.
    apply lag_reads_spec in Hr; [|lia|exact H]. destruct Hr as [-> | ->]; [contradiction|].
    destruct (Z.eq_dec k v) as [->|Hne].
    - split; [reflexivity|]. rewrite Z.sub_diag. reflexivity.
    - exfalso. apply Hodd. apply Z.divide_add_r; [exact He|].
      replace (v - k) with ((v - k - 1) + 1) by lia. rewrite p2_succ by lia. exists (2 ^ (v - k - 1)). lia.
  Qed.

  Lemma lag_readers_spec kmax j k i : 0 <= kmax ->
    (In (k, i) (lag_readers n kmax j) <-> 1 <= k <= kmax /\ In i (lag_rows n k) /\ In j (lag_reads n k i)).
  Proof.
    intros Hkm. unfold lag_readers. rewrite in_flat_map. split.
    - intros (k0 & Hk0 & Hin). apply In_zrange in Hk0. apply in_flat_map in Hin.
      destruct Hin as (i0 & Hi0 & Hin). destruct (existsb (Z.eqb j) (lag_reads n k0 i0)) eqn:Ex; [|destruct Hin].
      destruct Hin as [Hin|[]]. injection Hin as <- <-. split; [lia|]. split; [exact Hi0|].
      apply existsb_exists in Ex. destruct Ex as (y & Hy & Ey). apply Z.eqb_eq in Ey. subst y. exact Hy.
    - intros (Hk & Hi & Hr). exists k. split; [apply In_zrange; lia|]. apply in_flat_map. exists i. split; [exact Hi|].
      replace (existsb (Z.eqb j) (lag_reads n k i)) with true; [left; reflexivity|].
      symmetry. apply existsb_exists. exists j. split; [exact Hr|apply Z.eqb_refl].
  Qed.
End Rows.

(* ------------------------------------------------------------------ lists *)

Lemma zrange_cons lo hi : lo < hi -> zrange lo hi = lo :: zrange (lo + 1) hi.
Proof.
  intros H. unfold zrange. replace (Z.to_nat (hi - lo)) with (S (Z.to_nat (hi - (lo + 1)))) by lia.
  cbn [seq map]. f_equal; [lia|]. rewrite <- seq_shift, map_map. apply map_ext. intros a. lia.
Qed.

Lemma zrange_nil lo hi : hi <= lo -> zrange lo hi = [].
Proof. intros H. unfold zrange. replace (Z.to_nat (hi - lo)) with 0%nat by lia. reflexivity. Qed.

Lemma zrange_shift lo hi : zrange (lo + 1) (hi + 1) = map (fun j => j + 1) (zrange lo hi).
Proof.
  unfold zrange. replace (hi + 1 - (lo + 1)) with (hi - lo) by lia. rewrite map_map. apply map_ext. intros a. lia.
Qed.

Lemma nth_error_zrange m i : 0 <= i < m -> nth_error (zrange 0 m) (Z.to_nat i) = Some i.
Proof.
  intros H. unfold zrange. erewrite map_nth_error; [f_equal; cbn; apply Z2Nat.id; lia|].
  rewrite (nth_error_nth' _ 0%nat) by (rewrite seq_length; lia). rewrite seq_nth by lia. reflexivity.
Qed.

Lemma zidx_map_zrange {A} (h : Z -> A) m i : 0 <= i < m -> zidx (map h (zrange 0 m)) i = Some (h i).
Proof.
  intros H. unfold zidx. replace (i <? 0) with false by (symmetry; apply Z.ltb_ge; lia).
  apply map_nth_error. apply nth_error_zrange. exact H.
Qed.

Lemma nth_map_zrange {A} (h : Z -> A) m i d : 0 <= i < m -> nth (Z.to_nat i) (map h (zrange 0 m)) d = h i.
Proof.
  intros H. apply nth_error_nth. apply map_nth_error. apply nth_error_zrange. exact H.
Qed.

Lemma zidx_cons_succ {A} (a : A) l j : 0 <= j -> zidx (a :: l) (j + 1) = zidx l j.
Proof.
  intros H. unfold zidx. replace (j + 1 <? 0) with false by (symmetry; apply Z.ltb_ge; lia).
  replace (j <? 0) with false by (symmetry; apply Z.ltb_ge; lia).
  replace (Z.to_nat (j + 1)) with (S (Z.to_nat j)) by lia. reflexivity.
Qed.

Lemma zidx_some {A} (l : list A) i : 0 <= i < Z.of_nat (length l) -> exists x, zidx l i = Some x /\ In x l.
Proof.
  intros H. unfold zidx. replace (i <? 0) with false by (symmetry; apply Z.ltb_ge; lia).
  destruct (nth_error l (Z.to_nat i)) as [x|] eqn:E.
  - exists x. split; [reflexivity|]. eapply nth_error_In. exact E.
  - apply nth_error_None in E. lia.
Qed.

Lemma zidx_nth {A} (l : list A) i x d : zidx l i = Some x -> nth (Z.to_nat i) l d = x.
Proof.
  unfold zidx. destruct (i <? 0); [discriminate|]. apply nth_error_nth.
Qed.

Lemma opt_all_map_Some {A B} (h : A -> B) (f : A -> option B) l :
  (forall a, In a l -> f a = Some (h a)) -> opt_all (map f l) = Some (map h l).
Proof.
  induction l as [|a l IH]; intros H; [reflexivity|].
  cbn [map opt_all]. rewrite (H a (or_introl eq_refl)). rewrite IH; [reflexivity|].
  intros b Hb. apply H. right. exact Hb.
Qed.

(* ------------------------------------------------------------------ field level *)
Section LagField.
  Context {F : Type} (Fo : FOps F) (L : FLaws Fo).
  Variables (g : F) (v : Z).
  Hypothesis Hv : 0 <= v.
  Hypothesis Hv64 : v < 64.
  Let n := 2 ^ v.
  Hypothesis Hgn : fpow Fo g n = fone Fo.
  Hypothesis Hord : forall i, 0 < i < n -> fpow Fo g i <> fone Fo.

  Notation "0" := (fzero Fo) : F_scope.
  Notation "1" := (fone Fo) : F_scope.
  Infix "+" := (fadd Fo) : F_scope.
  Infix "*" := (fmul Fo) : F_scope.
  Infix "-" := (fsub Fo) : F_scope.
  Delimit Scope F_scope with F.

  Add Field FfieldLag : (FLaws_field_theory Fo L).

  Notation pw := (fpow Fo).

  Lemma Hpow2 : exists k, 0 <= k /\ n = 2 ^ k.
  Proof. exists v. split; [exact Hv|reflexivity]. Qed.
  Lemma Hn64 : n < 2 ^ 64.
  Proof. unfold n. apply Z.pow_lt_mono_r; lia. Qed.
  Lemma lf_n_pos : 0 < n. Proof. apply p2_pos. exact Hv. Qed.

  Lemma g_eq_iff a b : 0 <= a -> 0 <= b -> (pw g a = pw g b <-> a mod n = b mod n).
  Proof. apply (gpow_eq_iff Fo L g n Hpow2 Hn64 Hgn Hord). Qed.

  Lemma pw_mul x a b : 0 <= a -> 0 <= b -> pw (pw x a) b = pw x (a * b).
  Proof. apply (pw_pw Fo L 0). Qed.

  Lemma pw_add x a b : 0 <= a -> 0 <= b -> (pw x a * pw x b)%F = pw x (a + b).
  Proof.
    intros Ha Hb. rewrite !(fpow_spec Fo L). rewrite Z2Nat.inj_add by lia. symmetry. apply (pown_add Fo L).
  Qed.

  Lemma pw_one_l a : pw 1%F a = 1%F.
  Proof. rewrite (fpow_spec Fo L). apply (pown_1_l Fo L). Qed.

  Lemma pw_1_r x : pw x 1 = x. Proof. reflexivity. Qed.

  Lemma fmul_cancel_l a b c : a <> 0%F -> (a * b = a * c)%F -> b = c.
  Proof.
    intros Ha E. rewrite <- (fdiv_mul_cancel Fo L b a Ha), <- (fdiv_mul_cancel Fo L c a Ha).
    f_equal. transitivity (a * b)%F; [ring|]. rewrite E. ring.
  Qed.

  (* ---------------------------------------------------------------- new(): number of constraints and divisors *)

  (* with no exemption the generator is not used: the divisor of a domain of size s is x^s - 1 *)
  Lemma from_transition_0_spec g' s : 0 <= s -> from_transition Fo g' s 0 = Some (mkD [(s, 1%F)] []).
  Proof.
    intros Hs. unfold from_transition, checked_sub.
    replace (s <? 0) with false by (symmetry; apply Z.ltb_ge; lia).
    rewrite zrange_nil by lia. reflexivity.
  Qed.

  Definition lag_div (k : Z) : Divisor := mkD [(2 ^ (k - 1), 1%F)] [].

  Lemma lag_new_spec coefs : Z.of_nat (length coefs) <= 64 ->
    lag_new Fo coefs = Some (mkLTC coefs (map (fun i => lag_div (i + 1)) (zrange 0 (Z.of_nat (length coefs))))).
  Proof.
    intros H. unfold lag_new, lag_domain_sizes.
    replace (64 <? Z.of_nat (length coefs)) with false by (symmetry; apply Z.ltb_ge; lia).
    rewrite (opt_all_map_Some (fun s => mkD [(s, 1%F)] [])).
    - rewrite map_map. do 2 f_equal. apply map_ext. intros i. unfold lag_div. replace (i + 1 - 1) with i by lia. reflexivity.
    - intros s Hs. apply in_map_iff in Hs. destruct Hs as (i & <- & Hi). apply In_zrange in Hi.
      apply from_transition_0_spec. pose proof (p2_pos i ltac:(lia)). lia.
  Qed.

  Lemma lag_new_refuses coefs : 64 < Z.of_nat (length coefs) -> lag_new Fo coefs = None.
  Proof.
    intros H. unfold lag_new, lag_domain_sizes.
    replace (64 <? Z.of_nat (length coefs)) with true by (symmetry; apply Z.ltb_lt; lia). reflexivity.
  Qed.

  (* an AIR with a Lagrange kernel column over a trace of length n = 2^v hands `lag_num_coefficients n` coefficients
     to new(): there are exactly v = log2 n constraints, as many divisors (evaluate_and_combine's zip drops nothing),
     and the divisor of constraint k (numbered from 1) is x^(2^(k-1)) - 1 without exemptions *)
  Theorem lag_count coefs : Z.of_nat (length coefs) = lag_num_coefficients n ->
    exists t, lag_new Fo coefs = Some t /\ l_coef t = coefs /\
      lag_num_constraints t = v /\ Z.of_nat (length (l_div t)) = v /\
      forall k, 1 <= k <= v -> zidx (l_div t) (k - 1) = Some (lag_div k).
  Proof.
    intros Hl. unfold n in Hl. rewrite lag_num_coefficients_spec in Hl by lia.
    eexists. split; [apply lag_new_spec; lia|]. cbn [l_coef l_div]. split; [reflexivity|].
    split; [exact Hl|]. split.
    - rewrite map_length, zrange_length. lia.
    - intros k Hk. rewrite Hl. rewrite zidx_map_zrange by lia. do 2 f_equal. lia.
  Qed.

  (* ---------------------------------------------------------------- the divisor of constraint k *)

  Lemma lag_div_evaluate_at k x : 1 <= k <= v -> evaluate_at Fo (lag_div k) x = (pw x (2 ^ (k - 1)) - 1)%F.
  Proof.
    intros Hk. unfold evaluate_at, lag_div.
    rewrite (eval_numerator_single Fo L n Hn64).
    - cbn [eval_exemptions d_ex fold_left]. apply (fdiv_1_r Fo L).
    - pose proof (p2_pos (k - 1) ltac:(lia)). split; [lia|]. unfold n. apply Z.pow_le_mono_r; lia.
  Qed.

  (* no exemption points: evaluate_at is never the totalised 0/0 *)
  Lemma lag_div_no_exemption k x : eval_exemptions Fo (lag_div k) x = 1%F.
  Proof. reflexivity. Qed.

  (* constraint k is enforced on EXACTLY the rows of the subgroup of size 2^(k-1) *)
  Theorem lag_enforcement_exact k i : 1 <= k <= v -> 0 <= i < n ->
    (evaluate_at Fo (lag_div k) (pw g i) = 0%F <-> In i (lag_rows n k)).
  Proof.
    intros Hk Hi. rewrite lag_div_evaluate_at by lia. rewrite (fsub_eq_0 Fo L).
    pose proof (p2_pos (k - 1) ltac:(lia)) as Hm. pose proof (p2_pos (v - k + 1) ltac:(lia)) as Hs.
    rewrite pw_mul by lia. change 1%F with (pw g 0). rewrite g_eq_iff by nia.
    rewrite Z.mod_0_l by lia. rewrite Z.mod_divide by lia.
    unfold n at 2. rewrite lag_rows_spec by lia. fold n.
    assert (En : n = 2 ^ (v - k + 1) * 2 ^ (k - 1)).
    { unfold n. rewrite <- Z.pow_add_r by lia. f_equal. lia. }
    rewrite En at 1. rewrite Z.mul_divide_cancel_r by lia. tauto.
  Qed.

  (* ... over the whole field: the only zeros of the divisor are the trace-domain points of those rows *)
  Theorem lag_enforcement_exact_all k x : 1 <= k <= v ->
    (evaluate_at Fo (lag_div k) x = 0%F <-> exists i, In i (lag_rows n k) /\ x = pw g i).
  Proof.
    intros Hk. pose proof (p2_pos (k - 1) ltac:(lia)) as Hm. pose proof (p2_pos (v - k + 1) ltac:(lia)) as Hs. split.
    - intros H. assert (Hx : pw x n = 1%F).
      { rewrite lag_div_evaluate_at in H by lia. apply (proj1 (fsub_eq_0 Fo L _ _)) in H.
        replace n with (2 ^ (k - 1) * 2 ^ (v - k + 1)) by (unfold n; rewrite <- Z.pow_add_r by lia; f_equal; lia).
        rewrite <- pw_mul by lia. rewrite H. apply pw_one_l. }
      apply (root_in_domain Fo L g n Hpow2 Hn64 Hgn Hord) in Hx. destruct Hx as (i & Hi & ->).
      exists i. split; [|reflexivity]. apply lag_enforcement_exact; assumption.
    - intros (i & Hi & ->). apply lag_enforcement_exact; [lia| |exact Hi].
      unfold n in Hi. apply lag_rows_spec in Hi; [|lia|lia]. exact (proj1 Hi).
  Qed.

  (* the boundary constraint's denominator x - 1 vanishes on row 0 only *)
  Theorem lag_boundary_row i : 0 <= i < n -> (lag_boundary_denominator Fo (pw g i) = 0%F <-> i = 0).
  Proof.
    intros Hi. unfold lag_boundary_denominator. rewrite (fsub_eq_0 Fo L). change 1%F with (pw g 0). split.
    - intros E. apply (gpow_inj Fo L g n Hpow2 Hn64 Hgn Hord) in E; [exact E|lia|pose proof lf_n_pos; lia].
    - intros ->. reflexivity.
  Qed.

  (* ---------------------------------------------------------------- which cells a numerator reads *)

  Lemma frame_length col i : Z.of_nat (length (lag_frame_at_row Fo col n v i)) - 1 = v.
  Proof.
    unfold lag_frame_at_row. cbn [length]. rewrite map_length, zrange_length. lia.
  Qed.

  (* numerator k on the frame of row i relates the cells of rows i and i + 2^(v-k) (modulo n), weighted by r[v-k] *)
  Theorem lag_raw_at_row col r k i rk : 1 <= k <= v -> zidx r (v - k) = Some rk ->
    lag_raw Fo (lag_frame_at_row Fo col n v i) r k =
    Some (rk * nth (Z.to_nat i) col 0 - (1 - rk) * nth (Z.to_nat ((i + 2 ^ (v - k)) mod n)) col 0)%F.
  Proof.
    intros Hk Hr. unfold lag_raw. rewrite frame_length.
    replace (v <? 0) with false by (symmetry; apply Z.ltb_ge; lia).
    replace (v <? k) with false by (symmetry; apply Z.ltb_ge; lia).
    rewrite Hr. unfold lag_frame_at_row.
    replace (v - k + 1) with ((v - k) + 1) by lia. rewrite zidx_cons_succ by lia.
    rewrite (zidx_map_zrange (fun j => nth (Z.to_nat ((i + 2 ^ j) mod n)) col 0%F)) by lia.
    reflexivity.
  Qed.

  (* ---------------------------------------------------------------- the honest column *)

  Definition sel (rb : F) (bit : bool) : F := if bit then rb else (1 - rb)%F.

  Fixpoint cellrec (row lo : Z) (r : list F) : F :=
    match r with
    | [] => 1%F
    | rb :: r' => (sel rb (Z.testbit row lo) * cellrec row (lo + 1) r')%F
    end.

  Lemma fold_prod_acc {A} (h : A -> F) l acc :
    fold_left (fun a p => (a * h p)%F) l acc = (acc * fold_left (fun a p => (a * h p)%F) l 1%F)%F.
  Proof.
    revert acc. induction l as [|p l IH]; intros acc; cbn [fold_left]; [ring|].
    rewrite (IH (acc * h p)%F), (IH (1 * h p)%F). ring.
  Qed.

  Lemma cell_fold row lo r :
    fold_left (fun acc p => (acc * (if Z.testbit row (fst p) then snd p else 1 - snd p))%F)
              (combine (zrange lo (lo + Z.of_nat (length r))) r) 1%F = cellrec row lo r.
  Proof.
    revert lo. induction r as [|rb r IH]; intros lo.
    - cbn [length combine cellrec]. destruct (zrange lo (lo + Z.of_nat 0)); reflexivity.
    - cbn [length cellrec]. rewrite zrange_cons by lia. cbn [combine fold_left fst snd].
      rewrite fold_prod_acc. replace (lo + Z.of_nat (S (length r))) with ((lo + 1) + Z.of_nat (length r)) by lia.
      rewrite IH. unfold sel. ring.
  Qed.

  Lemma cell_is_cellrec r row : lag_kernel_cell Fo r row = cellrec row 0 r.
  Proof. unfold lag_kernel_cell. apply (cell_fold row 0 r). Qed.

  Lemma cellrec_ext row row' r : forall lo,
    (forall b, lo <= b < lo + Z.of_nat (length r) -> Z.testbit row b = Z.testbit row' b) ->
    cellrec row lo r = cellrec row' lo r.
  Proof.
    induction r as [|rb r IH]; intros lo H; [reflexivity|]. cbn [cellrec length] in *.
    rewrite (H lo) by lia. rewrite (IH (lo + 1)); [reflexivity|]. intros b Hb. apply H. lia.
  Qed.

  (* two rows that differ in bit b only (clear in row, set in row'): rb * cell(row) = (1 - rb) * cell(row') *)
  Lemma cellrec_cross row row' b rb r : forall lo,
    lo <= b < lo + Z.of_nat (length r) -> zidx r (b - lo) = Some rb ->
    (forall b', lo <= b' < lo + Z.of_nat (length r) -> b' <> b -> Z.testbit row b' = Z.testbit row' b') ->
    Z.testbit row b = false -> Z.testbit row' b = true ->
    (rb * cellrec row lo r = (1 - rb) * cellrec row' lo r)%F.
  Proof.
    induction r as [|r0 r IH]; intros lo Hb Hz Hag H0 H1; [cbn [length] in Hb; lia|].
    cbn [cellrec length] in *. destruct (Z.eq_dec lo b) as [->|Hne].
    - rewrite Z.sub_diag in Hz. cbv in Hz. injection Hz as ->. rewrite H0, H1. unfold sel.
      rewrite (cellrec_ext row row' r (b + 1)); [ring|]. intros b' Hb'. apply Hag; lia.
    - rewrite (Hag lo) by lia. replace (b - lo) with ((b - lo - 1) + 1) in Hz by lia.
      rewrite zidx_cons_succ in Hz by lia.
      assert (IH' := IH (lo + 1) ltac:(lia) ltac:(replace (b - (lo + 1)) with (b - lo - 1) by lia; exact Hz)
                        ltac:(intros b' Hb' Hn; apply Hag; lia) H0 H1).
      transitivity (sel r0 (Z.testbit row' lo) * (rb * cellrec row (lo + 1) r))%F; [ring|]. rewrite IH'. ring.
  Qed.

  (* the bits of an enforced row i = q * 2^(b+1) and of its target i + 2^b *)
  Lemma target_bits q b b' : 0 <= b -> 0 <= b' ->
    Z.testbit (q * 2 ^ (b + 1)) b = false /\ Z.testbit (q * 2 ^ (b + 1) + 2 ^ b) b = true /\
    (b' <> b -> Z.testbit (q * 2 ^ (b + 1)) b' = Z.testbit (q * 2 ^ (b + 1) + 2 ^ b) b').
  Proof.
    intros Hb Hb'.
    assert (E : q * 2 ^ (b + 1) + 2 ^ b = (2 * q + 1) * 2 ^ b) by (rewrite p2_succ by lia; ring).
    rewrite E. split; [apply Z.mul_pow2_bits_low; lia|]. split.
    - rewrite Z.mul_pow2_bits by lia. rewrite Z.sub_diag. apply Z.testbit_odd_0.
    - intros Hne. destruct (Z_lt_le_dec b' b) as [Hlt|Hge].
      + rewrite !Z.mul_pow2_bits_low by lia. reflexivity.
      + rewrite !Z.mul_pow2_bits by lia. replace (b' - b) with (Z.succ (b' - (b + 1))) by lia.
        rewrite Z.testbit_odd_succ by lia. reflexivity.
  Qed.

  (* completeness: on the Lagrange kernel column every numerator vanishes on every row of its enforcement domain *)
  Theorem lag_honest_numerator_zero r k i : Z.of_nat (length r) = v -> 1 <= k <= v -> In i (lag_rows n k) ->
    lag_raw Fo (lag_frame_at_row Fo (lag_kernel_col Fo r n) n v i) r k = Some 0%F.
  Proof.
    intros Hl Hk Hi. destruct (zidx_some r (v - k) ltac:(lia)) as (rk & Hrk & _).
    rewrite (lag_raw_at_row _ r k i rk Hk Hrk). f_equal. apply (fsub_eq_0 Fo L).
    pose proof Hi as Hi'. unfold n in Hi'. apply lag_rows_spec in Hi'; [|lia|lia]. destruct Hi' as [Hir (q & Eq)].
    destruct (lag_target_in_range v Hv k i Hk Hi) as [Ht Em].
    rewrite (shift_is v k Hk) in Ht, Em. fold n in Ht, Em. rewrite Em.
    unfold lag_kernel_col. rewrite !nth_map_zrange by lia. rewrite !cell_is_cellrec.
    replace (v - k + 1) with ((v - k) + 1) in Eq by lia. subst i.
    apply cellrec_cross with (b := v - k).
    - lia.
    - rewrite Z.sub_0_r. exact Hrk.
    - intros b' Hb' Hne. apply (target_bits q (v - k) b'); lia.
    - apply (target_bits q (v - k) 0); lia.
    - apply (target_bits q (v - k) 0); lia.
  Qed.

  Lemma assertion_value_cellrec r : forall lo,
    fold_left (fun acc ri => (acc * (1 - ri))%F) r 1%F = cellrec 0 lo r.
  Proof.
    induction r as [|rb r IH]; intros lo; [reflexivity|].
    cbn [fold_left cellrec]. rewrite (fold_prod_acc (fun ri => (1 - ri)%F)). rewrite (IH (lo + 1)).
    rewrite Z.testbit_0_l. unfold sel. ring.
  Qed.

  Lemma assertion_value_is_cell0 r : lag_assertion_value Fo r = lag_kernel_cell Fo r 0.
  Proof. rewrite cell_is_cellrec. apply assertion_value_cellrec. Qed.

  (* soundness: a column whose cell of row 0 is the asserted value and on which every one of the v numerators vanishes on
     its enforcement domain IS the Lagrange kernel column (no random element equal to 1) *)
  Theorem lag_constraints_determine col r : Z.of_nat (length r) = v ->
    (forall rb, In rb r -> (1 - rb)%F <> 0%F) ->
    nth 0 col 0%F = lag_assertion_value Fo r ->
    (forall k i, 1 <= k <= v -> In i (lag_rows n k) ->
       lag_raw Fo (lag_frame_at_row Fo col n v i) r k = Some 0%F) ->
    forall j, 0 <= j < n -> nth (Z.to_nat j) col 0%F = lag_kernel_cell Fo r j.
  Proof.
    intros Hl Hr H0 Hc j Hj. assert (Hj0 : 0 <= j) by lia. revert Hj. pattern j. apply Z_lt_induction; [|exact Hj0].
    clear j Hj0. intros j IH Hjn. destruct (Z.eq_dec j 0) as [->|Hne].
    - cbn [Z.to_nat]. rewrite H0. apply assertion_value_is_cell0.
    - assert (Hj : 0 < j < n) by lia.
      destruct (lag_target_exists v Hv j Hj) as (k & i & Hk & Hi & Ej). rewrite (shift_is v k Hk) in Ej. fold n in Hi.
      destruct (zidx_some r (v - k) ltac:(lia)) as (rk & Hrk & Hin).
      pose proof (Hc k i Hk Hi) as Hnum. rewrite (lag_raw_at_row col r k i rk Hk Hrk) in Hnum.
      injection Hnum as Hnum. apply (proj1 (fsub_eq_0 Fo L _ _)) in Hnum.
      pose proof (lag_honest_numerator_zero r k i Hl Hk Hi) as Hh.
      rewrite (lag_raw_at_row _ r k i rk Hk Hrk) in Hh. injection Hh as Hh. apply (proj1 (fsub_eq_0 Fo L _ _)) in Hh.
      destruct (lag_target_in_range v Hv k i Hk Hi) as [Ht Em].
      rewrite (shift_is v k Hk) in Ht, Em. fold n in Ht, Em. rewrite Em, <- Ej in Hnum, Hh.
      pose proof Hi as Hi'. unfold n in Hi'. apply lag_rows_spec in Hi'; [|lia|lia].
      pose proof (p2_pos (v - k) ltac:(lia)).
      unfold lag_kernel_col in Hh. rewrite !nth_map_zrange in Hh by lia.
      rewrite (IH i) in Hnum by lia.
      apply (fmul_cancel_l (1 - rk)%F); [apply Hr; exact Hin|]. rewrite <- Hnum, <- Hh. reflexivity.
  Qed.

  (* ---------------------------------------------------------------- frames built from the column polynomial *)

  Lemma pw_sq x m : 0 <= m -> pw (x * x)%F m = pw x (2 * m).
  Proof.
    intros Hm. rewrite !(fpow_spec Fo L). rewrite (pown_mul_base Fo L). rewrite <- (pown_add Fo L). f_equal. lia.
  Qed.

  Lemma lag_frame_go_spec poly z fuel : forall gexp,
    lag_frame_go Fo poly z gexp fuel =
    map (fun j => poly_eval Fo poly (pw gexp (2 ^ j) * z)%F) (zrange 0 (Z.of_nat fuel)).
  Proof.
    induction fuel as [|f IH]; intros gexp; [reflexivity|].
    cbn [lag_frame_go]. rewrite zrange_cons by lia. cbn [map]. f_equal.
    rewrite IH. replace (Z.of_nat (S f)) with (Z.of_nat f + 1) by lia. rewrite (zrange_shift 0 (Z.of_nat f)), map_map.
    apply map_ext_in. intros j Hj. apply In_zrange in Hj. rewrite pw_sq by (pose proof (p2_pos j); lia).
    rewrite p2_succ by lia. reflexivity.
  Qed.

  (* on the trace domain from_lagrange_kernel_column_poly returns the cells of rows i, i+1, i+2, i+4, .., i+2^(v-1) *)
  Theorem lag_frame_from_poly_on_domain poly col i :
    (forall j, 0 <= j < n -> poly_eval Fo poly (pw g j) = nth (Z.to_nat j) col 0%F) -> 0 <= i < n ->
    lag_frame_from_poly Fo g v poly (pw g i) = lag_frame_at_row Fo col n v i.
  Proof.
    intros Hp Hi. unfold lag_frame_from_poly, lag_frame_at_row. rewrite Hp by lia. f_equal.
    rewrite lag_frame_go_spec. rewrite Z2Nat.id by lia. apply map_ext_in. intros j Hj. apply In_zrange in Hj.
    pose proof (p2_pos j ltac:(lia)). pose proof lf_n_pos.
    rewrite pw_add by lia. rewrite <- Hp by (apply Z.mod_pos_bound; lia). f_equal.
    apply g_eq_iff; [lia|apply Z.mod_pos_bound; lia|]. rewrite Z.mod_mod by lia. f_equal. lia.
  Qed.
End LagField.
