(* C16, integer level: well-formed assertions, the steps they name, overlap, exemption bounds.
   stdlib style (lia / nia). *)
From Coq Require Import ZArith List Bool Lia Permutation Sorting.Sorted.
From VBase Require Import MachInt FieldOps.
From VModel Require Import Enforce.
Import ListNotations.
Open Scope Z_scope.

(* ------------------------------------------------------------------ powers of two *)

Definition pow2 (x : Z) : Prop := exists k, 0 <= k /\ x = 2 ^ k.

Lemma is_pow2_spec x : is_pow2 x = true <-> pow2 x.
Proof.
  unfold is_pow2, pow2. rewrite andb_true_iff, Z.ltb_lt, Z.eqb_eq. split.
  - intros [Hp He]. exists (Z.log2 x). split; [apply Z.log2_nonneg | exact He].
  - intros (k & Hk & ->). split; [apply Z.pow_pos_nonneg; lia|].
    rewrite Z.log2_pow2 by lia. reflexivity.
Qed.

Lemma is_pow2_false x : is_pow2 x = false <-> ~ pow2 x.
Proof.
  rewrite <- is_pow2_spec. destruct (is_pow2 x); split; intros; try congruence; try (exfalso; auto; fail).
Qed.

Lemma pow2_pos x : pow2 x -> 0 < x.
Proof. intros (k & Hk & ->). apply Z.pow_pos_nonneg; lia. Qed.

(* two powers of two: the smaller divides the larger *)
Lemma pow2_le_divide x y : pow2 x -> pow2 y -> x <= y -> exists c, 0 < c /\ y = x * c.
Proof.
  intros (i & Hi & ->) (j & Hj & ->) Hle.
  assert (i <= j). { apply (Z.pow_le_mono_r_iff 2); lia. }
  exists (2 ^ (j - i)). split; [apply Z.pow_pos_nonneg; lia|].
  rewrite <- Z.pow_add_r by lia. f_equal. lia.
Qed.

Lemma pow2_lt_divide x y : pow2 x -> pow2 y -> x < y -> exists c, 2 <= c /\ y = x * c.
Proof.
  intros Hx Hy Hlt. destruct (pow2_le_divide x y Hx Hy) as (c & Hc & E); [lia|].
  exists c. split; [|exact E]. pose proof (pow2_pos _ Hx). nia.
Qed.

Lemma pow2_mul x y : pow2 x -> pow2 y -> pow2 (x * y).
Proof.
  intros (i & Hi & ->) (j & Hj & ->). exists (i + j). split; [lia|].
  rewrite Z.pow_add_r by lia. reflexivity.
Qed.

(* ------------------------------------------------------------------ ranges *)

Lemma In_zrange lo hi i : In i (zrange lo hi) <-> lo <= i < hi.
Proof.
  unfold zrange. rewrite in_map_iff. split.
  - intros (k & <- & Hk). apply in_seq in Hk. lia.
  - intros H. exists (Z.to_nat (i - lo)). split; [lia|]. apply in_seq. lia.
Qed.

Lemma zrange_length lo hi : length (zrange lo hi) = Z.to_nat (hi - lo).
Proof. unfold zrange. rewrite map_length, seq_length. reflexivity. Qed.

Lemma zrange_NoDup lo hi : NoDup (zrange lo hi).
Proof.
  unfold zrange. apply FinFun.Injective_map_NoDup; [|apply seq_NoDup].
  intros a b H. lia.
Qed.

(* ------------------------------------------------------------------ well-formed assertions *)

(* the invariants established by the three constructors on usize arguments *)
Definition wf (a : Assertion) : Prop :=
  0 <= a_col a /\ 0 <= a_first a /\
  ((a_stride a = 0 /\ a_nvals a = 1) \/
   (pow2 (a_stride a) /\ 2 <= a_stride a /\ a_first a < a_stride a /\ pow2 (a_nvals a))).

Lemma validate_stride_spec stride first :
  validate_stride stride first = true <-> pow2 stride /\ 2 <= stride /\ first < stride.
Proof.
  unfold validate_stride, MIN_STRIDE_LENGTH.
  rewrite !andb_true_iff, is_pow2_spec, Z.leb_le, Z.ltb_lt. tauto.
Qed.

Lemma mk_single_spec col step a : mk_single col step = Some a <-> a = mkA col step 0 1.
Proof. unfold mk_single, NO_STRIDE. split; [intros [= <-]|intros ->]; reflexivity. Qed.

Lemma mk_periodic_spec col first stride a :
  mk_periodic col first stride = Some a <->
  pow2 stride /\ 2 <= stride /\ first < stride /\ a = mkA col first stride 1.
Proof.
  unfold mk_periodic. destruct (validate_stride stride first) eqn:E.
  - apply validate_stride_spec in E. split; [intros [= <-]; tauto | intros (_ & _ & _ & ->); reflexivity].
  - split; [discriminate|]. intros (H1 & H2 & H3 & _).
    assert (validate_stride stride first = true) by (apply validate_stride_spec; tauto). congruence.
Qed.

Lemma mk_sequence_spec col first stride nvals a :
  mk_sequence col first stride nvals = Some a <->
  pow2 stride /\ 2 <= stride /\ first < stride /\ pow2 nvals /\
  a = mkA col first (if nvals =? 1 then 0 else stride) nvals.
Proof.
  unfold mk_sequence, NO_STRIDE.
  destruct (validate_stride stride first) eqn:E; cbn [andb].
  - apply validate_stride_spec in E. destruct (is_pow2 nvals) eqn:P.
    + pose proof (proj1 (is_pow2_spec _) P) as P'. pose proof (pow2_pos _ P').
      replace (nvals =? 0) with false by (symmetry; apply Z.eqb_neq; lia). cbn [negb andb].
      split; [intros [= <-]; tauto | intros (_ & _ & _ & _ & ->); reflexivity].
    + rewrite andb_false_r. split; [discriminate|]. intros (_ & _ & _ & P' & _).
      apply is_pow2_spec in P'. congruence.
  - split; [discriminate|]. intros (H1 & H2 & H3 & _).
    assert (validate_stride stride first = true) by (apply validate_stride_spec; tauto). congruence.
Qed.

(* every constructor output (on usize arguments) is well formed ... *)
Lemma constructed_wf a :
  (exists col step, 0 <= col /\ 0 <= step /\ mk_single col step = Some a) \/
  (exists col first stride, 0 <= col /\ 0 <= first /\ mk_periodic col first stride = Some a) \/
  (exists col first stride nvals, 0 <= col /\ 0 <= first /\ mk_sequence col first stride nvals = Some a)
  -> wf a.
Proof.
  intros [(col & step & H1 & H2 & H)|[(col & first & stride & H1 & H2 & H)|(col & first & stride & nvals & H1 & H2 & H)]].
  - apply mk_single_spec in H. subst a. unfold wf; cbn. tauto.
  - apply mk_periodic_spec in H. destruct H as (P & L & Hf & ->). unfold wf; cbn.
    repeat split; try lia. right. repeat split; try assumption. exists 0; split; [lia|reflexivity].
  - apply mk_sequence_spec in H. destruct H as (P & L & Hf & Pn & ->). unfold wf; cbn.
    repeat split; try lia. destruct (Z.eqb_spec nvals 1); [left; split; [reflexivity|assumption]|].
    right. tauto.
Qed.

(* ... and every well-formed record is a constructor output *)
Lemma wf_constructed a : wf a ->
  (exists col step, 0 <= col /\ 0 <= step /\ mk_single col step = Some a) \/
  (exists col first stride, 0 <= col /\ 0 <= first /\ mk_periodic col first stride = Some a) \/
  (exists col first stride nvals, 0 <= col /\ 0 <= first /\ mk_sequence col first stride nvals = Some a).
Proof.
  destruct a as [c f s v]. unfold wf; cbn. intros (Hc & Hf & [[-> ->]|(P & L & Hl & Pv)]).
  - left. exists c, f. repeat split; assumption.
  - destruct (Z.eq_dec v 1) as [->|Hv].
    + right; left. exists c, f, s. repeat split; try assumption. apply mk_periodic_spec. tauto.
    + right; right. exists c, f, s, v. repeat split; try assumption. apply mk_sequence_spec.
      repeat split; try assumption. replace (v =? 1) with false by (symmetry; apply Z.eqb_neq; lia).
      reflexivity.
Qed.

(* kinds of a well-formed assertion *)
Lemma wf_kinds a : wf a ->
  (is_single a = true /\ is_periodic a = false /\ is_sequence a = false /\ a_stride a = 0 /\ a_nvals a = 1) \/
  (is_single a = false /\ is_periodic a = true /\ is_sequence a = false /\ a_nvals a = 1 /\
     pow2 (a_stride a) /\ 2 <= a_stride a /\ a_first a < a_stride a) \/
  (is_single a = false /\ is_periodic a = false /\ is_sequence a = true /\ 2 <= a_nvals a /\ pow2 (a_nvals a) /\
     pow2 (a_stride a) /\ 2 <= a_stride a /\ a_first a < a_stride a).
Proof.
  unfold wf, is_single, is_periodic, is_sequence, NO_STRIDE.
  intros (Hc & Hf & [[-> ->]|(P & L & Hl & Pv)]).
  - left. cbn. tauto.
  - replace (a_stride a =? 0) with false by (symmetry; apply Z.eqb_neq; lia). cbn [negb andb].
    destruct (Z.eq_dec (a_nvals a) 1) as [E|E].
    + right; left. rewrite E. cbn. tauto.
    + right; right. pose proof (pow2_pos _ Pv).
      replace (a_nvals a =? 1) with false by (symmetry; apply Z.eqb_neq; lia).
      replace (1 <? a_nvals a) with true by (symmetry; apply Z.ltb_lt; lia).
      repeat split; try assumption; lia.
Qed.

(* validate_trace_length accepts exactly ... *)
Definition length_ok (a : Assertion) (n : Z) : Prop :=
  pow2 n /\
  if is_single a then a_first a < n
  else if is_periodic a then a_stride a <= n
  else a_nvals a * a_stride a = n /\ n < 2 ^ 64.

Lemma validate_trace_length_spec a n : validate_trace_length a n = VOk <-> length_ok a n.
Proof.
  unfold validate_trace_length, length_ok, USIZE_MAX1.
  destruct (is_pow2 n) eqn:P; cbn [negb].
  - apply is_pow2_spec in P. destruct (is_single a).
    + destruct (Z.leb_spec n (a_first a)); [destruct (2 ^ 63 <? a_first a + 1)|];
        split; try discriminate; try tauto; intros [_ ?]; lia.
    + destruct (is_periodic a).
      * destruct (Z.ltb_spec n (a_stride a)); split; try discriminate; try tauto; intros [_ ?]; lia.
      * destruct (Z.leb_spec (2^64) (a_nvals a * a_stride a)).
        { split; [discriminate|]. intros [_ [? ?]]; lia. }
        destruct (Z.eqb_spec (a_nvals a * a_stride a) n); split; try discriminate; try tauto;
          try (intros _; split; [assumption|]; split; lia); try (intros [_ [? ?]]; lia).
  - apply is_pow2_false in P. split; [discriminate|]. intros [? _]; contradiction.
Qed.

(* an assertion that can be placed against a trace of length n *)
Definition valid (a : Assertion) (n : Z) : Prop := wf a /\ validate_trace_length a n = VOk.

(* facts about a valid assertion, by kind: stride divides n for the multi-step kinds *)
Lemma valid_cases a n : valid a n ->
  pow2 n /\
  ((is_single a = true /\ a_stride a = 0 /\ a_nvals a = 1 /\ 0 <= a_first a < n) \/
   (is_single a = false /\ pow2 (a_stride a) /\ 2 <= a_stride a /\ 0 <= a_first a < a_stride a /\
    exists m, 0 < m /\ n = m * a_stride a /\
      ((is_periodic a = true /\ a_nvals a = 1 /\ n / a_stride a = m) \/
       (is_periodic a = false /\ a_nvals a = m /\ 2 <= m)))).
Proof.
  intros [W V]. apply validate_trace_length_spec in V. destruct V as [Pn V]. split; [assumption|].
  pose proof W as (Hc & Hf & _).
  destruct (wf_kinds a W) as [(S1 & S2 & S3 & E1 & E2)|[(S1 & S2 & S3 & E & P & L & Hl)|(S1 & S2 & S3 & L2 & Pv & P & L & Hl)]];
    rewrite S1 in V; [|rewrite S2 in V ..].
  - left. repeat split; try assumption.
  - right. repeat split; try assumption.
    destruct (pow2_le_divide _ _ P Pn V) as (c & Hc0 & Ec).
    exists c. repeat split; [assumption|lia|]. left. repeat split; try assumption.
    rewrite Ec. rewrite Z.mul_comm. apply Z.div_mul. lia.
  - right. repeat split; try assumption. destruct V as [V _].
    exists (a_nvals a). repeat split; [lia|lia|]. right. repeat split; try assumption.
Qed.

Lemma get_num_steps_spec a n : valid a n ->
  exists m, get_num_steps a n = Some m /\ 0 < m /\
    (is_single a = true -> m = 1) /\ (is_single a = false -> n = m * a_stride a).
Proof.
  intros Hv. pose proof Hv as [W V]. unfold get_num_steps. rewrite V.
  destruct (valid_cases a n Hv) as (Pn & [(S & _)|(S & P & L & Hf & m & Hm & En & [(Pe & Ev & Ed)|(Pe & Ev & Lm)])]);
    rewrite S.
  - exists 1. repeat split; try lia; try discriminate; try congruence.
  - rewrite Pe. exists m. rewrite Ed. repeat split; try lia; try discriminate; try congruence.
  - rewrite Pe. exists m. rewrite Ev. repeat split; try lia; try discriminate; try congruence.
Qed.

(* ------------------------------------------------------------------ steps_spec *)

(* the steps an assertion names, as the property describes them *)
Definition names (a : Assertion) (n s : Z) : Prop :=
  if is_single a then s = a_first a
  else if is_periodic a then exists i, 0 <= i /\ s = a_first a + i * a_stride a /\ s < n
  else exists i, 0 <= i < a_nvals a /\ s = a_first a + i * a_stride a.

Lemma steps_spec a n s : valid a n -> (In s (steps a n) <-> names a n s).
Proof.
  intros Hv. unfold steps, names.
  destruct (valid_cases a n Hv) as (Pn & [(S & _)|(S & P & L & Hf & m & Hm & En & [(Pe & Ev & Ed)|(Pe & Ev & Lm)])]);
    rewrite S; [|rewrite Pe ..].
  - cbn. split; [intros [<-|[]]; reflexivity | intros ->; left; reflexivity].
  - rewrite in_map_iff. setoid_rewrite In_zrange. rewrite Ed. split.
    + intros (i & <- & Hi). exists i. repeat split; [lia|lia|nia].
    + intros (i & Hi & -> & Hlt). exists i. split; [lia|]. split; [lia|]. nia.
  - rewrite in_map_iff. setoid_rewrite In_zrange. split.
    + intros (i & <- & Hi). exists i. split; [lia|lia].
    + intros (i & Hi & ->). exists i. split; [lia|lia].
Qed.

(* uniform description for the multi-step kinds: the residue class of first_step modulo stride inside [0,n) *)
Lemma steps_mod a n s : valid a n -> is_single a = false ->
  (In s (steps a n) <-> 0 <= s < n /\ s mod a_stride a = a_first a).
Proof.
  intros Hv S. rewrite (steps_spec a n s Hv). unfold names. rewrite S.
  destruct (valid_cases a n Hv) as (Pn & [(S' & _)|(_ & P & L & Hf & m & Hm & En & [(Pe & Ev & Ed)|(Pe & Ev & Lm)])]);
    [congruence| |]; rewrite Pe.
  - split.
    + intros (i & Hi & -> & Hlt). split; [nia|].
      rewrite Z.mod_add by lia. apply Z.mod_small; lia.
    + intros (Hs & Hmod). exists (s / a_stride a).
      pose proof (Z.div_mod s (a_stride a) ltac:(lia)).
      pose proof (Z.div_pos s (a_stride a) ltac:(lia) ltac:(lia)). repeat split; lia.
  - split.
    + intros (i & Hi & ->). split; [nia|].
      rewrite Z.mod_add by lia. apply Z.mod_small; lia.
    + intros (Hs & Hmod). exists (s / a_stride a).
      pose proof (Z.div_mod s (a_stride a) ltac:(lia)).
      pose proof (Z.div_pos s (a_stride a) ltac:(lia) ltac:(lia)).
      assert (s / a_stride a < a_nvals a).
      { apply Z.div_lt_upper_bound; [lia|]. rewrite Ev. lia. }
      repeat split; lia.
Qed.

Lemma steps_single a n s : valid a n -> is_single a = true -> (In s (steps a n) <-> s = a_first a).
Proof. intros Hv S. rewrite (steps_spec a n s Hv). unfold names. rewrite S. tauto. Qed.

Lemma steps_in_domain a n s : valid a n -> In s (steps a n) -> 0 <= s < n.
Proof.
  intros Hv Hin. destruct (is_single a) eqn:S.
  - apply (steps_single a n s Hv S) in Hin. subst s.
    destruct (valid_cases a n Hv) as (_ & [(_ & _ & _ & ?)|(S' & _)]); [assumption|congruence].
  - apply (steps_mod a n s Hv S) in Hin. tauto.
Qed.

Lemma steps_length a n : valid a n -> get_num_steps a n = Some (Z.of_nat (length (steps a n))).
Proof.
  intros Hv. pose proof Hv as [W V]. unfold get_num_steps, steps. rewrite V.
  destruct (valid_cases a n Hv) as (Pn & [(S & _)|(S & P & L & Hf & m & Hm & En & [(Pe & Ev & Ed)|(Pe & Ev & Lm)])]);
    rewrite S; [|rewrite Pe ..].
  - reflexivity.
  - rewrite map_length, zrange_length. f_equal. lia.
  - rewrite map_length, zrange_length. f_equal. lia.
Qed.

Lemma steps_NoDup a n : valid a n -> NoDup (steps a n).
Proof.
  intros Hv. unfold steps.
  destruct (valid_cases a n Hv) as (Pn & [(S & _)|(S & P & L & Hf & m & Hm & En & _)]); rewrite S.
  - constructor; [intros []|constructor].
  - destruct (is_periodic a); (apply FinFun.Injective_map_NoDup; [|apply zrange_NoDup]); intros x y H; nia.
Qed.

(* the first step is always named *)
Lemma first_in_steps a n : valid a n -> In (a_first a) (steps a n).
Proof.
  intros Hv. destruct (is_single a) eqn:S.
  - apply (steps_single a n _ Hv S). reflexivity.
  - apply (steps_mod a n _ Hv S).
    destruct (valid_cases a n Hv) as (Pn & [(S' & _)|(_ & P & L & Hf & m & Hm & En & _)]); [congruence|].
    split; [nia|]. apply Z.mod_small; lia.
Qed.

(* ------------------------------------------------------------------ overlaps_iff *)

Lemma rem_is_zero_spec x y d : y <= x -> d <> 0 -> rem_is_zero x y d = Some ((x - y) mod d =? 0).
Proof.
  intros H1 H2. unfold rem_is_zero, checked_sub, checked_rem.
  replace (x <? y) with false by (symmetry; apply Z.ltb_ge; lia).
  replace (d =? 0) with false by (symmetry; apply Z.eqb_neq; lia). reflexivity.
Qed.

(* arithmetic core: a residue class modulo sa meets the class modulo sb (sa | sb) iff the residues agree mod sa *)
Lemma class_meet sa sb fa fb n c m :
  0 < sa -> sb = sa * c -> 0 < c -> n = m * sb -> 0 < m -> 0 <= fa < sa -> 0 <= fb < sb ->
  ((exists s, (0 <= s < n /\ s mod sa = fa) /\ (0 <= s < n /\ s mod sb = fb)) <-> (fb - fa) mod sa = 0 \/ False) .
Proof.
  intros Hsa -> Hc -> Hm Hfa Hfb. split.
  - intros (s & [Hs Ha] & [_ Hb]). left.
    pose proof (Z.div_mod s (sa * c) ltac:(nia)) as E. rewrite Hb in E.
    assert (Ea : s mod sa = fb mod sa).
    { rewrite E. replace (sa * c * (s / (sa * c)) + fb) with (fb + (c * (s / (sa * c))) * sa) by ring.
      apply Z.mod_add. lia. }
    rewrite Ha in Ea.
    rewrite Zminus_mod, <- Ea, (Z.mod_small fa sa) by lia. rewrite Z.sub_diag. reflexivity.
  - intros [H|[]]. exists fb. repeat split; try lia; try nia.
    + apply Z.mod_divide in H; [|lia]. destruct H as (q & Hq).
      replace fb with (fa + q * sa) by lia. rewrite Z.mod_add by lia. apply Z.mod_small; lia.
    + apply Z.mod_small. lia.
Qed.

Lemma class_meet' sa sb fa fb n c m :
  0 < sa -> sb = sa * c -> 0 < c -> n = m * sb -> 0 < m -> 0 <= fa < sa -> 0 <= fb < sb ->
  ((exists s, (0 <= s < n /\ s mod sa = fa) /\ (0 <= s < n /\ s mod sb = fb)) <-> (fb - fa) mod sa = 0).
Proof. intros. rewrite (class_meet sa sb fa fb n c m) by assumption. tauto. Qed.

Definition common_cell (a b : Assertion) (n : Z) : Prop :=
  a_col a = a_col b /\ exists s, In s (steps a n) /\ In s (steps b n).

Theorem overlaps_iff a b n : valid a n -> valid b n ->
  (overlaps_with a b = Some true <-> common_cell a b n) /\
  (overlaps_with a b = Some false <-> ~ common_cell a b n).
Proof.
  intros Ha Hb.
  assert (Hsuff : (exists r, overlaps_with a b = Some r /\ (r = true <-> common_cell a b n))).
  2:{ destruct Hsuff as (r & -> & Hr). split; split.
      - intros [= ->]. apply Hr; reflexivity.
      - intros H. f_equal. apply Hr; assumption.
      - intros [= ->] H. apply Hr in H. discriminate.
      - intros H. f_equal. destruct r; [exfalso; apply H, Hr; reflexivity|reflexivity]. }
  unfold overlaps_with, common_cell.
  destruct (Z.eqb_spec (a_col a) (a_col b)) as [Ec|Ec]; cbn [negb].
  2:{ exists false. split; [reflexivity|]. split; [discriminate|]. intros [? _]; contradiction. }
  destruct (Z.eqb_spec (a_first a) (a_first b)) as [Ef|Ef].
  { exists true. split; [reflexivity|]. split; [|reflexivity]. intros _. split; [assumption|].
    exists (a_first a). split; [apply first_in_steps; assumption|rewrite Ef; apply first_in_steps; assumption]. }
  destruct (valid_cases a n Ha) as (Pn & Ca). destruct (valid_cases b n Hb) as (_ & Cb).
  destruct (Z.eqb_spec (a_stride a) (a_stride b)) as [Es|Es].
  { exists false. split; [reflexivity|]. split; [discriminate|]. intros (_ & s & Hsa & Hsb). exfalso.
    destruct Ca as [(Sa & Ea & _)|(Sa & Pa & La & Hfa & _)]; destruct Cb as [(Sb & Eb & _)|(Sb & Pb & Lb & Hfb & _)]; try lia.
    - apply (steps_single a n s Ha Sa) in Hsa. apply (steps_single b n s Hb Sb) in Hsb. lia.
    - apply (steps_mod a n s Ha Sa) in Hsa. apply (steps_mod b n s Hb Sb) in Hsb. rewrite Es in Hsa. lia. }
  destruct Ca as [(Sa & Ea & _ & Hfa)|(Sa & Pa & La & Hfa & ma & Hma & Ena & _)];
  destruct Cb as [(Sb & Eb & _ & Hfb)|(Sb & Pb & Lb & Hfb & mb & Hmb & Enb & _)]; try lia; rewrite ?Sa, ?Sb; cbn [orb].
  - (* single / multi *)
    destruct (Z.ltb_spec (a_first a) (a_first b)) as [Hlt|Hge].
    + exists false. split; [reflexivity|]. split; [discriminate|]. intros (_ & s & Hsa & Hsb). exfalso.
      apply (steps_single a n s Ha Sa) in Hsa. apply (steps_mod b n s Hb Sb) in Hsb. subst s.
      destruct Hsb as [_ Hm]. rewrite Z.mod_small in Hm by lia. lia.
    + rewrite rem_is_zero_spec by lia. eexists. split; [reflexivity|]. rewrite Z.eqb_eq. split.
      * intros H. split; [assumption|]. exists (a_first a). split; [apply first_in_steps; assumption|].
        apply (steps_mod b n _ Hb Sb). split; [lia|].
        apply Z.mod_divide in H; [|lia]. destruct H as (q & Hq).
        replace (a_first a) with (a_first b + q * a_stride b) by lia.
        rewrite Z.mod_add by lia. apply Z.mod_small; lia.
      * intros (_ & s & Hsa & Hsb).
        apply (steps_single a n s Ha Sa) in Hsa. apply (steps_mod b n s Hb Sb) in Hsb. subst s.
        destruct Hsb as [_ Hm]. rewrite Zminus_mod, Hm, (Z.mod_small (a_first b)) by lia.
        rewrite Z.sub_diag. reflexivity.
  - (* multi / single *)
    destruct (Z.ltb_spec (a_first a) (a_first b)) as [Hlt|Hge].
    + rewrite rem_is_zero_spec by lia. eexists. split; [reflexivity|]. rewrite Z.eqb_eq. split.
      * intros H. split; [assumption|]. exists (a_first b). split; [|apply first_in_steps; assumption].
        apply (steps_mod a n _ Ha Sa). split; [lia|].
        apply Z.mod_divide in H; [|lia]. destruct H as (q & Hq).
        replace (a_first b) with (a_first a + q * a_stride a) by lia.
        rewrite Z.mod_add by lia. apply Z.mod_small; lia.
      * intros (_ & s & Hsa & Hsb).
        apply (steps_single b n s Hb Sb) in Hsb. apply (steps_mod a n s Ha Sa) in Hsa. subst s.
        destruct Hsa as [_ Hm]. rewrite Zminus_mod, Hm, (Z.mod_small (a_first a)) by lia.
        rewrite Z.sub_diag. reflexivity.
    + exists false. split; [reflexivity|]. split; [discriminate|]. intros (_ & s & Hsa & Hsb). exfalso.
      apply (steps_single b n s Hb Sb) in Hsb. apply (steps_mod a n s Ha Sa) in Hsa. subst s.
      destruct Hsa as [_ Hm]. rewrite Z.mod_small in Hm by lia. lia.
  - (* multi / multi, different strides, different first steps *)
    assert (Hex : forall P : Prop, ((exists s, In s (steps a n) /\ In s (steps b n)) <-> P) ->
                  ((a_col a = a_col b /\ exists s, In s (steps a n) /\ In s (steps b n)) <-> P)) by (intros; tauto).
    assert (Hst : (exists s, In s (steps a n) /\ In s (steps b n)) <->
                  (exists s, (0 <= s < n /\ s mod a_stride a = a_first a) /\ (0 <= s < n /\ s mod a_stride b = a_first b))).
    { split; intros (s & H1 & H2); exists s.
      - apply (steps_mod a n s Ha Sa) in H1. apply (steps_mod b n s Hb Sb) in H2. tauto.
      - split; [apply (steps_mod a n s Ha Sa)|apply (steps_mod b n s Hb Sb)]; tauto. }
    destruct (Z.ltb_spec (a_first a) (a_first b)) as [Hlt|Hge].
    + destruct (Z.ltb_spec (a_stride a) (a_stride b)) as [Hs|Hs].
      * rewrite rem_is_zero_spec by lia. eexists. split; [reflexivity|]. rewrite Z.eqb_eq.
        destruct (pow2_lt_divide _ _ Pa Pb Hs) as (c & Hc & Ecb).
        symmetry. apply Hex. rewrite Hst.
        apply (class_meet' (a_stride a) (a_stride b) (a_first a) (a_first b) n c mb); lia.
      * exists false. split; [reflexivity|]. split; [discriminate|]. intros (_ & Hc). apply Hst in Hc. exfalso.
        assert (Hs' : a_stride b < a_stride a) by lia.
        destruct (pow2_lt_divide _ _ Pb Pa Hs') as (c & Hc2 & Eca).
        assert (Hc' : exists s, (0 <= s < n /\ s mod a_stride b = a_first b) /\ (0 <= s < n /\ s mod a_stride a = a_first a))
          by (destruct Hc as (s & ? & ?); exists s; tauto).
        apply (class_meet' (a_stride b) (a_stride a) (a_first b) (a_first a) n c ma) in Hc'; try lia.
        apply Z.mod_divide in Hc'; [|lia]. destruct Hc' as (q & Hq). destruct (Z.le_gt_cases 0 q); nia.
    + destruct (Z.ltb_spec (a_stride b) (a_stride a)) as [Hs|Hs].
      * rewrite rem_is_zero_spec by lia. eexists. split; [reflexivity|]. rewrite Z.eqb_eq.
        destruct (pow2_lt_divide _ _ Pb Pa Hs) as (c & Hc & Eca).
        symmetry. apply Hex. rewrite Hst.
        split.
        -- intros (s & H1 & H2).
           apply (class_meet' (a_stride b) (a_stride a) (a_first b) (a_first a) n c ma); try lia.
           exists s; tauto.
        -- intros H. apply (class_meet' (a_stride b) (a_stride a) (a_first b) (a_first a) n c ma) in H; try lia.
           destruct H as (s & ? & ?); exists s; tauto.
      * exists false. split; [reflexivity|]. split; [discriminate|]. intros (_ & Hc). apply Hst in Hc. exfalso.
        assert (Hs' : a_stride a < a_stride b) by lia.
        destruct (pow2_lt_divide _ _ Pa Pb Hs') as (c & Hc2 & Ecb).
        apply (class_meet' (a_stride a) (a_stride b) (a_first a) (a_first b) n c mb) in Hc; try lia.
        apply Z.mod_divide in Hc; [|lia]. destruct Hc as (q & Hq). destruct (Z.le_gt_cases 0 q); nia.
Qed.
