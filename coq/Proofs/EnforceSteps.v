(* C16, integer level: well-formed assertions, the steps they name, overlap, exemption bounds.
   stdlib style (lia / nia). *)
From Coq Require Import ZArith List Bool Lia Permutation Sorting.Sorted.
From VBase Require Import MachInt FieldOps.
From VModel Require Import Enforce.
Import ListNotations.
Open Scope Z_scope.

(* ------------------------------------------------------------------ powers of two *)

Definition pow2 (x : Z) : Prop := exists k, 0 <= k /\ x = 2 ^ k.

Lemma is_pow2_spec x : is_pow2 x = true <-> pow2 x.
Proof.
  unfold is_pow2, pow2. rewrite andb_true_iff, Z.ltb_lt, Z.eqb_eq. split.
  - intros [Hp He]. exists (Z.log2 x). split; [apply Z.log2_nonneg | exact He].
  - intros (k & Hk & ->). split; [apply Z.pow_pos_nonneg; lia|].
    rewrite Z.log2_pow2 by lia. reflexivity.
Qed.

Lemma is_pow2_false x : is_pow2 x = false <-> ~ pow2 x.
Proof.
  rewrite <- is_pow2_spec. destruct (is_pow2 x); split; intros; try congruence; try (exfalso; auto; fail).
Qed.

Lemma pow2_pos x : pow2 x -> 0 < x.
Proof. intros (k & Hk & ->). apply Z.pow_pos_nonneg; lia. Qed.

(* two powers of two: the smaller divides the larger *)
Lemma pow2_le_divide x y : pow2 x -> pow2 y -> x <= y -> exists c, 0 < c /\ y = x * c.
Proof.
  intros (i & Hi & ->) (j & Hj & ->) Hle.
  assert (i <= j). { apply (Z.pow_le_mono_r_iff 2); lia. }
  exists (2 ^ (j - i)). split; [apply Z.pow_pos_nonneg; lia|].
  rewrite <- Z.pow_add_r by lia. f_equal. lia.
Qed.

Lemma pow2_lt_divide x y : pow2 x -> pow2 y -> x < y -> exists c, 2 <= c /\ y = x * c.
Proof.
  intros Hx Hy Hlt. destruct (pow2_le_divide x y Hx Hy) as (c & Hc & E); [lia|].
  exists c. split; [|exact E]. pose proof (pow2_pos _ Hx). nia.
Qed.

Lemma pow2_mul x y : pow2 x -> pow2 y -> pow2 (x * y).
Proof.
  intros (i & Hi & ->) (j & Hj & ->). exists (i + j). split; [lia|].
  rewrite Z.pow_add_r by lia. reflexivity.
Qed.

(* ------------------------------------------------------------------ ranges *)

Lemma In_zrange lo hi i : In i (zrange lo hi) <-> lo <= i < hi.
Proof.
  unfold zrange. rewrite in_map_iff. split.
  - intros (k & <- & Hk). apply in_seq in Hk. lia.
  - intros H. exists (Z.to_nat (i - lo)). split; [lia|]. apply in_seq. lia.
Qed.

Lemma zrange_length lo hi : length (zrange lo hi) = Z.to_nat (hi - lo).
Proof. unfold zrange. rewrite map_length, seq_length. reflexivity. Qed.

Lemma zrange_NoDup lo hi : NoDup (zrange lo hi).
Proof.
  unfold zrange. apply FinFun.Injective_map_NoDup; [|apply seq_NoDup].
  intros a b H. lia.
Qed.

(* ------------------------------------------------------------------ well-formed assertions *)

(* the invariants established by the three constructors on usize arguments *)
Definition wf (a : Assertion) : Prop :=
  0 <= a_col a /\ 0 <= a_first a /\
  ((a_stride a = 0 /\ a_nvals a = 1) \/
   (pow2 (a_stride a) /\ 2 <= a_stride a /\ a_first a < a_stride a /\ pow2 (a_nvals a))).

Lemma validate_stride_spec stride first :
  validate_stride stride first = true <-> pow2 stride /\ 2 <= stride /\ first < stride.
Proof.
  unfold validate_stride, MIN_STRIDE_LENGTH.
  rewrite !andb_true_iff, is_pow2_spec, Z.leb_le, Z.ltb_lt. tauto.
Qed.

Lemma mk_single_spec col step a : mk_single col step = Some a <-> a = mkA col step 0 1.
Proof. unfold mk_single, NO_STRIDE. split; [intros [= <-]|intros ->]; reflexivity. Qed.

Lemma mk_periodic_spec col first stride a :
  mk_periodic col first stride = Some a <->
  pow2 stride /\ 2 <= stride /\ first < stride /\ a = mkA col first stride 1.
Proof.
  unfold mk_periodic. destruct (validate_stride stride first) eqn:E.
  - apply validate_stride_spec in E. split; [intros [= <-]; tauto | intros (_ & _ & _ & ->); reflexivity].
  - split; [discriminate|]. intros (H1 & H2 & H3 & _).
    assert (validate_stride stride first = true) by (apply validate_stride_spec; tauto). congruence.
Qed.

Lemma mk_sequence_spec col first stride nvals a :
  mk_sequence col first stride nvals = Some a <->
  pow2 stride /\ 2 <= stride /\ first < stride /\ pow2 nvals /\
  a = mkA col first (if nvals =? 1 then 0 else stride) nvals.
Proof.
  unfold mk_sequence, NO_STRIDE.
  destruct (validate_stride stride first) eqn:E; cbn [andb].
  - apply validate_stride_spec in E. destruct (is_pow2 nvals) eqn:P.
    + pose proof (proj1 (is_pow2_spec _) P) as P'. pose proof (pow2_pos _ P').
      replace (nvals =? 0) with false by (symmetry; apply Z.eqb_neq; lia). cbn [negb andb].
      split; [intros [= <-]; tauto | intros (_ & _ & _ & _ & ->); reflexivity].
    + rewrite andb_false_r. split; [discriminate|]. intros (_ & _ & _ & P' & _).
      apply is_pow2_spec in P'. congruence.
  - split; [discriminate|]. intros (H1 & H2 & H3 & _).
    assert (validate_stride stride first = true) by (apply validate_stride_spec; tauto). congruence.
Qed.

(* every constructor output (on usize arguments) is well formed ... *)
Lemma constructed_wf a :
  (exists col step, 0 <= col /\ 0 <= step /\ mk_single col step = Some a) \/
  (exists col first stride, 0 <= col /\ 0 <= first /\ mk_periodic col first stride = Some a) \/
  (exists col first stride nvals, 0 <= col /\ 0 <= first /\ mk_sequence col first stride nvals = Some a)
  -> wf a.
Proof.
  intros [(col & step & H1 & H2 & H)|[(col & first & stride & H1 & H2 & H)|(col & first & stride & nvals & H1 & H2 & H)]].
  - apply mk_single_spec in H. subst a. unfold wf; cbn. tauto.
  - apply mk_periodic_spec in H. destruct H as (P & L & Hf & ->). unfold wf; cbn.
    repeat split; try lia. right. repeat split; try assumption. exists 0; split; [lia|reflexivity].
  - apply mk_sequence_spec in H. destruct H as (P & L & Hf & Pn & ->). unfold wf; cbn.
    repeat split; try lia. destruct (Z.eqb_spec nvals 1); [left; split; [reflexivity|assumption]|].
    right. tauto.
Qed.

(* ... and every well-formed record is a constructor output *)
Lemma wf_constructed a : wf a ->
  (exists col step, 0 <= col /\ 0 <= step /\ mk_single col step = Some a) \/
  (exists col first stride, 0 <= col /\ 0 <= first /\ mk_periodic col first stride = Some a) \/
  (exists col first stride nvals, 0 <= col /\ 0 <= first /\ mk_sequence col first stride nvals = Some a).
Proof.
  destruct a as [c f s v]. unfold wf; cbn. intros (Hc & Hf & [[-> ->]|(P & L & Hl & Pv)]).
  - left. exists c, f. repeat split; assumption.
  - destruct (Z.eq_dec v 1) as [->|Hv].
    + right; left. exists c, f, s. repeat split; try assumption. apply mk_periodic_spec. tauto.
    + right; right. exists c, f, s, v. repeat split; try assumption. apply mk_sequence_spec.
      repeat split; try assumption. replace (v =? 1) with false by (symmetry; apply Z.eqb_neq; lia).
      reflexivity.
Qed.

(* kinds of a well-formed assertion *)
Lemma wf_kinds a : wf a ->
  (is_single a = true /\ is_periodic a = false /\ is_sequence a = false /\ a_stride a = 0 /\ a_nvals a = 1) \/
  (is_single a = false /\ is_periodic a = true /\ is_sequence a = false /\ a_nvals a = 1 /\
     pow2 (a_stride a) /\ 2 <= a_stride a /\ a_first a < a_stride a) \/
  (is_single a = false /\ is_periodic a = false /\ is_sequence a = true /\ 2 <= a_nvals a /\ pow2 (a_nvals a) /\
     pow2 (a_stride a) /\ 2 <= a_stride a /\ a_first a < a_stride a).
Proof.
  unfold wf, is_single, is_periodic, is_sequence, NO_STRIDE.
  intros (Hc & Hf & [[-> ->]|(P & L & Hl & Pv)]).
  - left. cbn. tauto.
  - replace (a_stride a =? 0) with false by (symmetry; apply Z.eqb_neq; lia). cbn [negb andb].
    destruct (Z.eq_dec (a_nvals a) 1) as [E|E].
    + right; left. rewrite E. cbn. tauto.
    + right; right. pose proof (pow2_pos _ Pv).
      replace (a_nvals a =? 1) with false by (symmetry; apply Z.eqb_neq; lia).
      replace (1 <? a_nvals a) with true by (symmetry; apply Z.ltb_lt; lia).
      repeat split; try assumption; lia.
Qed.

(* validate_trace_length accepts exactly ... *)
Definition length_ok (a : Assertion) (n : Z) : Prop :=
  pow2 n /\
  if is_single a then a_first a < n
  else if is_periodic a then a_stride a <= n
  else a_nvals a * a_stride a = n /\ n < 2 ^ 64.

Lemma validate_trace_length_spec a n : validate_trace_length a n = VOk <-> length_ok a n.
Proof.
  unfold validate_trace_length, length_ok, USIZE_MAX1.
  destruct (is_pow2 n) eqn:P; cbn [negb].
  - apply is_pow2_spec in P. destruct (is_single a).
    + destruct (Z.leb_spec n (a_first a)); [destruct (2 ^ 63 <? a_first a + 1)|];
        split; try discriminate; try tauto; intros [_ ?]; lia.
    + destruct (is_periodic a).
      * destruct (Z.ltb_spec n (a_stride a)); split; try discriminate; try tauto; intros [_ ?]; lia.
      * destruct (Z.leb_spec (2^64) (a_nvals a * a_stride a)).
        { split; [discriminate|]. intros [_ [? ?]]; lia. }
        destruct (Z.eqb_spec (a_nvals a * a_stride a) n); split; try discriminate; try tauto;
          try (intros _; split; [assumption|]; split; lia); try (intros [_ [? ?]]; lia).
  - apply is_pow2_false in P. split; [discriminate|]. intros [? _]; contradiction.
Qed.

(* an assertion that can be placed against a trace of length n *)
Definition valid (a : Assertion) (n : Z) : Prop := wf a /\ validate_trace_length a n = VOk.

(* facts about a valid assertion, by kind: stride divides n for the multi-step kinds *)
Lemma valid_cases a n : valid a n ->
  pow2 n /\
  ((is_single a = true /\ a_stride a = 0 /\ a_nvals a = 1 /\ 0 <= a_first a < n) \/
   (is_single a = false /\ pow2 (a_stride a) /\ 2 <= a_stride a /\ 0 <= a_first a < a_stride a /\
    exists m, 0 < m /\ n = m * a_stride a /\
      ((is_periodic a = true /\ a_nvals a = 1 /\ n / a_stride a = m) \/
       (is_periodic a = false /\ a_nvals a = m /\ 2 <= m)))).
Proof.
  intros [W V]. apply validate_trace_length_spec in V. destruct V as [Pn V]. split; [assumption|].
  pose proof W as (Hc & Hf & _).
  destruct (wf_kinds a W) as [(S1 & S2 & S3 & E1 & E2)|[(S1 & S2 & S3 & E & P & L & Hl)|(S1 & S2 & S3 & L2 & Pv & P & L & Hl)]];
    rewrite S1 in V; [|rewrite S2 in V ..].
  - left. repeat split; try assumption.
  - right. repeat split; try assumption.
    destruct (pow2_le_divide _ _ P Pn V) as (c & Hc0 & Ec).
    exists c. repeat split; [assumption|lia|]. left. repeat split; try assumption.
    rewrite Ec. rewrite Z.mul_comm. apply Z.div_mul. lia.
  - right. repeat split; try assumption. destruct V as [V _].
    exists (a_nvals a). repeat split; [lia|lia|]. right. repeat split; try assumption.
Qed.

Lemma get_num_steps_spec a n : valid a n ->
  exists m, get_num_steps a n = Some m /\ 0 < m /\
    (is_single a = true -> m = 1) /\ (is_single a = false -> n = m * a_stride a).
Proof.
  intros Hv. pose proof Hv as [W V]. unfold get_num_steps. rewrite V.
  destruct (valid_cases a n Hv) as (Pn & [(S & _)|(S & P & L & Hf & m & Hm & En & [(Pe & Ev & Ed)|(Pe & Ev & Lm)])]);
    rewrite S.
  - exists 1. repeat split; try lia; try discriminate; try congruence.
  - rewrite Pe. exists m. rewrite Ed. repeat split; try lia; try discriminate; try congruence.
  - rewrite Pe. exists m. rewrite Ev. repeat split; try lia; try discriminate; try congruence.
Qed.

(* ------------------------------------------------------------------ steps_spec *)

(* the steps an assertion names, as the property describes them *)
Definition names (a : Assertion) (n s : Z) : Prop :=
  if is_single a then s = a_first a
  else if is_periodic a then exists i, 0 <= i /\ s = a_first a + i * a_stride a /\ s < n
  else exists i, 0 <= i < a_nvals a /\ s = a_first a + i * a_stride a.

Lemma steps_spec a n s : valid a n -> (In s (steps a n) <-> names a n s).
Proof.
  intros Hv. unfold steps, names.
  destruct (valid_cases a n Hv) as (Pn & [(S & _)|(S & P & L & Hf & m & Hm & En & [(Pe & Ev & Ed)|(Pe & Ev & Lm)])]);
    rewrite S; [|rewrite Pe ..].
  - cbn. split; [intros [<-|[]]; reflexivity | intros ->; left; reflexivity].
  - rewrite in_map_iff. setoid_rewrite In_zrange. rewrite Ed. split.
    + intros (i & <- & Hi). exists i. repeat split; [lia|lia|nia].
    + intros (i & Hi & -> & Hlt). exists i. split; [lia|]. split; [lia|]. nia.
  - rewrite in_map_iff. setoid_rewrite In_zrange. split.
    + intros (i & <- & Hi). exists i. split; [lia|lia].
    + intros (i & Hi & ->). exists i. split; [lia|lia].
Qed.

(* uniform description for the multi-step kinds: the residue class of first_step modulo stride inside [0,n) *)
Lemma steps_mod a n s : valid a n -> is_single a = false ->
  (In s (steps a n) <-> 0 <= s < n /\ s mod a_stride a = a_first a).
Proof.
  intros Hv S. rewrite (steps_spec a n s Hv). unfold names. rewrite S.
  destruct (valid_cases a n Hv) as (Pn & [(S' & _)|(_ & P & L & Hf & m & Hm & En & [(Pe & Ev & Ed)|(Pe & Ev & Lm)])]);
    [congruence| |]; rewrite Pe.
  - split.
    + intros (i & Hi & -> & Hlt). split; [nia|].
      rewrite Z.mod_add by lia. apply Z.mod_small; lia.
    + intros (Hs & Hmod). exists (s / a_stride a).
      pose proof (Z.div_mod s (a_stride a) ltac:(lia)).
      pose proof (Z.div_pos s (a_stride a) ltac:(lia) ltac:(lia)). repeat split; lia.
  - split.
    + intros (i & Hi & ->). split; [nia|].
      rewrite Z.mod_add by lia. apply Z.mod_small; lia.
    + intros (Hs & Hmod). exists (s / a_stride a).
      pose proof (Z.div_mod s (a_stride a) ltac:(lia)).
      pose proof (Z.div_pos s (a_stride a) ltac:(lia) ltac:(lia)).
      assert (s / a_stride a < a_nvals a).
      { apply Z.div_lt_upper_bound; [lia|]. rewrite Ev. lia. }
      repeat split; lia.
Qed.

Lemma steps_single a n s : valid a n -> is_single a = true -> (In s (steps a n) <-> s = a_first a).
Proof. intros Hv S. rewrite (steps_spec a n s Hv). unfold names. rewrite S. tauto. Qed.

Lemma steps_in_domain a n s : valid a n -> In s (steps a n) -> 0 <= s < n.
Proof.
  intros Hv Hin. destruct (is_single a) eqn:S.
  - apply (steps_single a n s Hv S) in Hin. subst s.
    destruct (valid_cases a n Hv) as (_ & [(_ & _ & _ & ?)|(S' & _)]); [assumption|congruence].
  - apply (steps_mod a n s Hv S) in Hin. tauto.
Qed.

Lemma steps_length a n : valid a n -> get_num_steps a n = Some (Z.of_nat (length (steps a n))).
Proof.
  intros Hv. pose proof Hv as [W V]. unfold get_num_steps, steps. rewrite V.
  destruct (valid_cases a n Hv) as (Pn & [(S & _)|(S & P & L & Hf & m & Hm & En & [(Pe & Ev & Ed)|(Pe & Ev & Lm)])]);
    rewrite S; [|rewrite Pe ..].
  - reflexivity.
  - rewrite map_length, zrange_length. f_equal. lia.
  - rewrite map_length, zrange_length. f_equal. lia.
Qed.

Lemma steps_NoDup a n : valid a n -> NoDup (steps a n).
Proof.
  intros Hv. unfold steps.
  destruct (valid_cases a n Hv) as (Pn & [(S & _)|(S & P & L & Hf & m & Hm & En & _)]); rewrite S.
  - constructor; [intros []|constructor].
  - destruct (is_periodic a); (apply FinFun.Injective_map_NoDup; [|apply zrange_NoDup]); intros x y H; nia.
Qed.

(* the first step is always named *)
Lemma first_in_steps a n : valid a n -> In (a_first a) (steps a n).
Proof.
  intros Hv. destruct (is_single a) eqn:S.
  - apply (steps_single a n _ Hv S). reflexivity.
  - apply (steps_mod a n _ Hv S).
    destruct (valid_cases a n Hv) as (Pn & [(S' & _)|(_ & P & L & Hf & m & Hm & En & _)]); [congruence|].
    split; [nia|]. apply Z.mod_small; lia.
Qed.

(* ------------------------------------------------------------------ overlaps_iff *)

Lemma rem_is_zero_spec x y d : y <= x -> d <> 0 -> rem_is_zero x y d = Some ((x - y) mod d =? 0).
Proof.
  intros H1 H2. unfold rem_is_zero, checked_sub, checked_rem.
  replace (x <? y) with false by (symmetry; apply Z.ltb_ge; lia).
  replace (d =? 0) with false by (symmetry; apply Z.eqb_neq; lia). reflexivity.
Qed.

(* arithmetic core: a residue class modulo sa meets the class modulo sb (sa | sb) iff the residues agree mod sa *)
Lemma class_meet sa sb fa fb n c m :
  0 < sa -> sb = sa * c -> 0 < c -> n = m * sb -> 0 < m -> 0 <= fa < sa -> 0 <= fb < sb ->
  ((exists s, (0 <= s < n /\ s mod sa = fa) /\ (0 <= s < n /\ s mod sb = fb)) <-> (fb - fa) mod sa = 0 \/ False) .
Proof.
  intros Hsa -> Hc -> Hm Hfa Hfb. split.
  - intros (s & [Hs Ha] & [_ Hb]). left.
    pose proof (Z.div_mod s (sa * c) ltac:(nia)) as E. rewrite Hb in E.
    assert (Ea : s mod sa = fb mod sa).
    { rewrite E. replace (sa * c * (s / (sa * c)) + fb) with (fb + (c * (s / (sa * c))) * sa) by ring.
      apply Z.mod_add. lia. }
    rewrite Ha in Ea.
    rewrite Zminus_mod, <- Ea, (Z.mod_small fa sa) by lia. rewrite Z.sub_diag. reflexivity.
  - intros [H|[]]. exists fb. repeat split; try lia; try nia.
    + apply Z.mod_divide in H; [|lia]. destruct H as (q & Hq).
      replace fb with (fa + q * sa) by lia. rewrite Z.mod_add by lia. apply Z.mod_small; lia.
    + apply Z.mod_small. lia.
Qed.

Lemma class_meet' sa sb fa fb n c m :
  0 < sa -> sb = sa * c -> 0 < c -> n = m * sb -> 0 < m -> 0 <= fa < sa -> 0 <= fb < sb ->
  ((exists s, (0 <= s < n /\ s mod sa = fa) /\ (0 <= s < n /\ s mod sb = fb)) <-> (fb - fa) mod sa = 0).
Proof. intros. rewrite (class_meet sa sb fa fb n c m) by assumption. tauto. Qed.

Definition common_cell (a b : Assertion) (n : Z) : Prop :=
  a_col a = a_col b /\ exists s, In s (steps a n) /\ In s (steps b n).

Theorem overlaps_iff a b n : valid a n -> valid b n ->
  (overlaps_with a b = Some true <-> common_cell a b n) /\
  (overlaps_with a b = Some false <-> ~ common_cell a b n).
Proof.
  intros Ha Hb.
  assert (Hsuff : (exists r, overlaps_with a b = Some r /\ (r = true <-> common_cell a b n))).
  2:{ destruct Hsuff as (r & -> & Hr). split; split.
      - intros [= ->]. apply Hr; reflexivity.
      - intros H. f_equal. apply Hr; assumption.
      - intros [= ->] H. apply Hr in H. discriminate.
      - intros H. f_equal. destruct r; [exfalso; apply H, Hr; reflexivity|reflexivity]. }
  unfold overlaps_with, common_cell.
  destruct (Z.eqb_spec (a_col a) (a_col b)) as [Ec|Ec]; cbn [negb].
  2:{ exists false. split; [reflexivity|]. split; [discriminate|]. intros [? _]; contradiction. }
  destruct (Z.eqb_spec (a_first a) (a_first b)) as [Ef|Ef].
  { exists true. split; [reflexivity|]. split; [|reflexivity]. intros _. split; [assumption|].
    exists (a_first a). split; [apply first_in_steps; assumption|rewrite Ef; apply first_in_steps; assumption]. }
  destruct (valid_cases a n Ha) as (Pn & Ca). destruct (valid_cases b n Hb) as (_ & Cb).
  destruct (Z.eqb_spec (a_stride a) (a_stride b)) as [Es|Es].
  { exists false. split; [reflexivity|]. split; [discriminate|]. intros (_ & s & Hsa & Hsb). exfalso.
    destruct Ca as [(Sa & Ea & _)|(Sa & Pa & La & Hfa & _)]; destruct Cb as [(Sb & Eb & _)|(Sb & Pb & Lb & Hfb & _)]; try lia.
    - apply (steps_single a n s Ha Sa) in Hsa. apply (steps_single b n s Hb Sb) in Hsb. lia.
    - apply (steps_mod a n s Ha Sa) in Hsa. apply (steps_mod b n s Hb Sb) in Hsb. rewrite Es in Hsa. lia. }
  destruct Ca as [(Sa & Ea & _ & Hfa)|(Sa & Pa & La & Hfa & ma & Hma & Ena & _)];
  destruct Cb as [(Sb & Eb & _ & Hfb)|(Sb & Pb & Lb & Hfb & mb & Hmb & Enb & _)]; try lia; rewrite ?Sa, ?Sb; cbn [orb].
  - (* single / multi *)
    destruct (Z.ltb_spec (a_first a) (a_first b)) as [Hlt|Hge].
    + exists false. split; [reflexivity|]. split; [discriminate|]. intros (_ & s & Hsa & Hsb). exfalso.
      apply (steps_single a n s Ha Sa) in Hsa. apply (steps_mod b n s Hb Sb) in Hsb. subst s.
      destruct Hsb as [_ Hm]. rewrite Z.mod_small in Hm by lia. lia.
    + rewrite rem_is_zero_spec by lia. eexists. split; [reflexivity|]. rewrite Z.eqb_eq. split.
      * intros H. split; [assumption|]. exists (a_first a). split; [apply first_in_steps; assumption|].
        apply (steps_mod b n _ Hb Sb). split; [lia|].
        apply Z.mod_divide in H; [|lia]. destruct H as (q & Hq).
        replace (a_first a) with (a_first b + q * a_stride b) by lia.
        rewrite Z.mod_add by lia. apply Z.mod_small; lia.
      * intros (_ & s & Hsa & Hsb).
        apply (steps_single a n s Ha Sa) in Hsa. apply (steps_mod b n s Hb Sb) in Hsb. subst s.
        destruct Hsb as [_ Hm]. rewrite Zminus_mod, Hm, (Z.mod_small (a_first b)) by lia.
        rewrite Z.sub_diag. reflexivity.
  - (* multi / single *)
    destruct (Z.ltb_spec (a_first a) (a_first b)) as [Hlt|Hge].
    + rewrite rem_is_zero_spec by lia. eexists. split; [reflexivity|]. rewrite Z.eqb_eq. split.
      * intros H. split; [assumption|]. exists (a_first b). split; [|apply first_in_steps; assumption].
        apply (steps_mod a n _ Ha Sa). split; [lia|].
        apply Z.mod_divide in H; [|lia]. destruct H as (q & Hq).
        replace (a_first b) with (a_first a + q * a_stride a) by lia.
        rewrite Z.mod_add by lia. apply Z.mod_small; lia.
      * intros (_ & s & Hsa & Hsb).
        apply (steps_single b n s Hb Sb) in Hsb. apply (steps_mod a n s Ha Sa) in Hsa. subst s.
        destruct Hsa as [_ Hm]. rewrite Zminus_mod, Hm, (Z.mod_small (a_first a)) by lia.
        rewrite Z.sub_diag. reflexivity.
    + exists false. split; [reflexivity|]. split; [discriminate|]. intros (_ & s & Hsa & Hsb). exfalso.
      apply (steps_single b n s Hb Sb) in Hsb. apply (steps_mod a n s Ha Sa) in Hsa. subst s.
      destruct Hsa as [_ Hm]. rewrite Z.mod_small in Hm by lia. lia.
  - (* multi / multi, different strides, different first steps *)
    assert (Hex : forall P : Prop, ((exists s, In s (steps a n) /\ In s (steps b n)) <-> P) ->
                  ((a_col a = a_col b /\ exists s, In s (steps a n) /\ In s (steps b n)) <-> P)) by (intros; tauto).
    assert (Hst : (exists s, In s (steps a n) /\ In s (steps b n)) <->
                  (exists s, (0 <= s < n /\ s mod a_stride a = a_first a) /\ (0 <= s < n /\ s mod a_stride b = a_first b))).
    { split; intros (s & H1 & H2); exists s.
      - apply (steps_mod a n s Ha Sa) in H1. apply (steps_mod b n s Hb Sb) in H2. tauto.
      - split; [apply (steps_mod a n s Ha Sa)|apply (steps_mod b n s Hb Sb)]; tauto. }
    destruct (Z.ltb_spec (a_first a) (a_first b)) as [Hlt|Hge].
    + destruct (Z.ltb_spec (a_stride a) (a_stride b)) as [Hs|Hs].
      * rewrite rem_is_zero_spec by lia. eexists. split; [reflexivity|]. rewrite Z.eqb_eq.
        destruct (pow2_lt_divide _ _ Pa Pb Hs) as (c & Hc & Ecb).
        symmetry. apply Hex. rewrite Hst.
        apply (class_meet' (a_stride a) (a_stride b) (a_first a) (a_first b) n c mb); lia.
      * exists false. split; [reflexivity|]. split; [discriminate|]. intros (_ & Hc). apply Hst in Hc. exfalso.
        assert (Hs' : a_stride b < a_stride a) by lia.
        destruct (pow2_lt_divide _ _ Pb Pa Hs') as (c & Hc2 & Eca).
        assert (Hc' : exists s, (0 <= s < n /\ s mod a_stride b = a_first b) /\ (0 <= s < n /\ s mod a_stride a = a_first a))
          by (destruct Hc as (s & ? & ?); exists s; tauto).
        apply (class_meet' (a_stride b) (a_stride a) (a_first b) (a_first a) n c ma) in Hc'; try lia.
        apply Z.mod_divide in Hc'; [|lia]. destruct Hc' as (q & Hq). destruct (Z.le_gt_cases 0 q); nia.
    + destruct (Z.ltb_spec (a_stride b) (a_stride a)) as [Hs|Hs].
      * rewrite rem_is_zero_spec by lia. eexists. split; [reflexivity|]. rewrite Z.eqb_eq.
        destruct (pow2_lt_divide _ _ Pb Pa Hs) as (c & Hc & Eca).
        symmetry. apply Hex. rewrite Hst.
        split.
        -- intros (s & H1 & H2).
           apply (class_meet' (a_stride b) (a_stride a) (a_first b) (a_first a) n c ma); try lia.
           exists s; tauto.
        -- intros H. apply (class_meet' (a_stride b) (a_stride a) (a_first b) (a_first a) n c ma) in H; try lia.
           destruct H as (s & ? & ?); exists s; tauto.
      * exists false. split; [reflexivity|]. split; [discriminate|]. intros (_ & Hc). apply Hst in Hc. exfalso.
        assert (Hs' : a_stride a < a_stride b) by lia.
        destruct (pow2_lt_divide _ _ Pa Pb Hs') as (c & Hc2 & Ecb).
        apply (class_meet' (a_stride a) (a_stride b) (a_first a) (a_first b) n c mb) in Hc; try lia.
        apply Z.mod_divide in Hc; [|lia]. destruct Hc as (q & Hq). destruct (Z.le_gt_cases 0 q); nia.
Qed.

(* ------------------------------------------------------------------ exemption bounds *)

Lemma exemptions_ok_spec n k ce degs :
  exemptions_ok n k ce degs = true <->
  0 < k /\ k <= n / 2 + 1 /\ forall d, In d degs -> d <= ce - 1 + n /\ k <= ce - 1 + n - d.
Proof.
  unfold exemptions_ok. rewrite !andb_true_iff, Z.ltb_lt, Z.leb_le, forallb_forall. split.
  - intros [[H1 H2] H3]. repeat split; try assumption; specialize (H3 _ H);
      apply andb_true_iff in H3; destruct H3 as [A B]; apply Z.leb_le in A, B; assumption.
  - intros (H1 & H2 & H3). repeat split; try assumption. intros d Hd. destruct (H3 d Hd).
    apply andb_true_iff. split; apply Z.leb_le; assumption.
Qed.

(* an accepted exemption count always leaves enforced steps: at least n/2 - 1 >= 3 of them *)
Theorem exemption_bounds n k ce degs : 8 <= n -> exemptions_ok n k ce degs = true ->
  1 <= k <= n / 2 + 1 /\ k < n /\ n / 2 - 1 <= n - k /\ 3 <= n - k.
Proof.
  intros Hn H. apply exemptions_ok_spec in H. destruct H as (H1 & H2 & _).
  pose proof (Z.div_mod n 2 ltac:(lia)). pose proof (Z.mod_pos_bound n 2 ltac:(lia)). lia.
Qed.

Lemma exemptions_refused n k ce degs : k <= 0 \/ n / 2 + 1 < k -> exemptions_ok n k ce degs = false.
Proof.
  intros H. destruct (exemptions_ok n k ce degs) eqn:E; [|reflexivity].
  apply exemptions_ok_spec in E. lia.
Qed.

(* ------------------------------------------------------------------ prepare_assertions *)

Lemma a_cmp_eq a b : a_cmp a b = Eq ->
  a_stride a = a_stride b /\ a_first a = a_first b /\ a_col a = a_col b.
Proof.
  unfold a_cmp. destruct (Z.eqb_spec (a_stride a) (a_stride b)) as [Es|Es].
  - destruct (Z.eqb_spec (a_first a) (a_first b)) as [Ef|Ef]; intros H; apply Z.compare_eq in H; tauto.
  - intros H. apply Z.compare_eq in H. contradiction.
Qed.

Lemma set_insert_incl a l x : In x (set_insert a l) -> x = a \/ In x l.
Proof.
  induction l as [|b r IH]; cbn [set_insert].
  - intros [<-|[]]. left; reflexivity.
  - destruct (a_cmp a b).
    + intros H. right. exact H.
    + intros [<-|H]; [left; reflexivity|right; exact H].
    + intros [<-|H]; [right; left; reflexivity|]. destruct (IH H); [left; assumption|right; right; assumption].
Qed.

Lemma set_insert_keeps a l x : In x l -> In x (set_insert a l).
Proof.
  induction l as [|b r IH]; cbn [set_insert]; [intros []|].
  destruct (a_cmp a b); intros H; [exact H|right; exact H|].
  destruct H as [<-|H]; [left; reflexivity|right; apply IH; exact H].
Qed.

Lemma set_insert_adds a l : (forall b, In b l -> a_cmp a b <> Eq) -> In a (set_insert a l).
Proof.
  induction l as [|b r IH]; cbn [set_insert]; intros H; [left; reflexivity|].
  destruct (a_cmp a b) eqn:E.
  - exfalso. apply (H b); [left; reflexivity|exact E].
  - left; reflexivity.
  - right. apply IH. intros c Hc. apply H. right; exact Hc.
Qed.

(* a new assertion is compatible with the accepted ones *)
Definition ok_against (a : Assertion) (acc : list Assertion) : Prop :=
  forall b, In b acc -> a_col b = a_col a -> overlaps_with b a = Some false.

Lemma prepare_go_cons a r acc w n res :
  prepare_go (a :: r) acc w n = inr res <->
  validate_trace_width a w = true /\ validate_trace_length a n = VOk /\ ok_against a acc /\
  prepare_go r (set_insert a acc) w n = inr res.
Proof.
  cbn [prepare_go]. destruct (validate_trace_width a w); cbn [negb]; [|split; [discriminate|intros (H & _); discriminate]].
  destruct (validate_trace_length a n); try (split; [discriminate|intros (_ & H & _); discriminate]).
  set (same := filter (fun b => a_col b =? a_col a) acc).
  destruct (existsb (fun b => match overlaps_with b a with Some false => false | _ => true end) same) eqn:E.
  - split; [intros H; destruct (existsb (fun b => match overlaps_with b a with None => true | _ => false end) same);
             discriminate H|]. intros (_ & _ & Hok & _). exfalso.
    apply existsb_exists in E. destruct E as (b & Hb & Hov). unfold same in Hb. apply filter_In in Hb.
    destruct Hb as [Hin Hc]. apply Z.eqb_eq in Hc. rewrite (Hok b Hin Hc) in Hov. discriminate.
  - split.
    + intros H. repeat split; try assumption. intros b Hin Hc.
      assert (Hb : In b same) by (unfold same; apply filter_In; split; [assumption|apply Z.eqb_eq; assumption]).
      destruct (overlaps_with b a) as [[|]|] eqn:Ov; try reflexivity; exfalso;
        assert (X : existsb (fun b => match overlaps_with b a with Some false => false | _ => true end) same = true)
          by (apply existsb_exists; exists b; split; [assumption|rewrite Ov; reflexivity]); congruence.
    + intros (_ & _ & _ & H). exact H.
Qed.

Lemma ok_against_no_eq a acc : ok_against a acc -> forall b, In b acc -> a_cmp a b <> Eq.
Proof.
  intros Hok b Hin E. apply a_cmp_eq in E. destruct E as (_ & Ef & Ec).
  specialize (Hok b Hin (eq_sym Ec)). unfold overlaps_with in Hok.
  rewrite <- Ec, Z.eqb_refl in Hok. cbn [negb] in Hok. rewrite Ef, Z.eqb_refl in Hok. discriminate.
Qed.

(* acceptance of prepare_go, relative to an accumulator *)
Lemma prepare_go_accepts l : forall acc w n,
  (exists res, prepare_go l acc w n = inr res) <->
  Forall (fun a => validate_trace_width a w = true /\ validate_trace_length a n = VOk) l /\
  Forall (fun a => ok_against a acc) l /\
  ForallOrdPairs (fun b a => a_col b = a_col a -> overlaps_with b a = Some false) l.
Proof.
  induction l as [|a r IH]; intros acc w n.
  - split; [intros _; repeat constructor|intros _; eexists; reflexivity].
  - split.
    + intros (res & H). apply prepare_go_cons in H. destruct H as (Hw & Hl & Hok & H).
      destruct (proj1 (IH _ _ _) (ex_intro _ res H)) as (F1 & F2 & F3).
      split; [constructor; [split; assumption|exact F1]|].
      split.
      * constructor; [exact Hok|]. apply Forall_forall. intros x Hx b Hb Hc.
        rewrite Forall_forall in F2. apply (F2 x Hx b); [apply set_insert_keeps; exact Hb|exact Hc].
      * constructor; [|exact F3]. apply Forall_forall. intros x Hx Hc.
        rewrite Forall_forall in F2. apply (F2 x Hx a); [|exact Hc].
        apply set_insert_adds. apply ok_against_no_eq. exact Hok.
    + intros (F1 & F2 & F3). inversion F1 as [|? ? [Hw Hl] F1']; subst.
      inversion F2 as [|? ? Hok F2']; subst. inversion F3 as [|? ? Ha F3']; subst.
      assert (H : exists res, prepare_go r (set_insert a acc) w n = inr res).
      { apply IH. split; [exact F1'|]. split; [|exact F3'].
        apply Forall_forall. intros x Hx b Hb Hc. rewrite Forall_forall in F2', Ha.
        destruct (set_insert_incl _ _ _ Hb) as [->|Hb']; [apply (Ha x Hx Hc)|apply (F2' x Hx b Hb' Hc)]. }
      destruct H as (res & H). exists res. apply prepare_go_cons. repeat split; assumption.
Qed.

(* prepare_assertions accepts a list of well-formed assertions exactly when each fits the trace (column < width,
   valid for the length) and no two of them name a common cell *)
Theorem prepare_accepts_iff l w n : Forall wf l ->
  ((exists res, prepare_assertions l w n = inr res) <->
   Forall (fun a => a_col a < w /\ valid a n) l /\
   ForallOrdPairs (fun b a => ~ common_cell b a n) l).
Proof.
  intros Hwf. unfold prepare_assertions. rewrite prepare_go_accepts.
  assert (Hw : forall a, validate_trace_width a w = true <-> a_col a < w).
  { intros a. unfold validate_trace_width. rewrite negb_true_iff, Z.leb_gt. tauto. }
  split.
  - intros (F1 & _ & F3). rewrite Forall_forall in F1, Hwf.
    assert (Hv : forall a, In a l -> valid a n) by (intros a Ha; split; [apply Hwf; exact Ha|apply F1; exact Ha]).
    split; [apply Forall_forall; intros a Ha; split; [apply Hw, F1, Ha|apply Hv, Ha]|].
    clear F1. induction F3 as [|b r Hb F3 IH]; [constructor|].
    constructor; [|apply IH; intros a Ha; apply Hv; right; exact Ha].
    rewrite Forall_forall in Hb. apply Forall_forall. intros a Ha Hcc.
    destruct (overlaps_iff b a n (Hv b (or_introl eq_refl)) (Hv a (or_intror Ha))) as [_ H2].
    destruct Hcc as [Hc Hs]. specialize (Hb a Ha Hc). apply H2 in Hb. apply Hb. split; assumption.
  - intros (F1 & F3). rewrite Forall_forall in F1.
    split; [apply Forall_forall; intros a Ha; split; [apply Hw, F1, Ha|apply (F1 a Ha)]|].
    split; [apply Forall_forall; intros a _ b []|].
    assert (Hv : forall a, In a l -> valid a n) by (intros a Ha; apply (F1 a Ha)).
    clear F1. induction F3 as [|b r Hb F3 IH]; [constructor|].
    constructor; [|apply IH; [inversion Hwf; assumption|intros a Ha; apply Hv; right; exact Ha]].
    rewrite Forall_forall in Hb. apply Forall_forall. intros a Ha Hc.
    destruct (overlaps_iff b a n (Hv b (or_introl eq_refl)) (Hv a (or_intror Ha))) as [_ H2].
    apply H2. apply Hb. exact Ha.
Qed.
