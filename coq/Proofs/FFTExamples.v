(* C09: non-vacuity.  Every hypothesis set of the C09 theorems is satisfiable: Z/17 (FLaws proved in FFTF17),
   w = 3 of order 16, sizes 8 and 16; the concrete outputs are also computed and compared with direct evaluation. *)
From Coq Require Import List Arith Bool ZArith Lia.
From VBase Require Import FieldOps.
From VModel Require Import FFT FFTSplit.
From VProofs Require Import FFTSpec FFTRefine FFTEval FFTOffset FFTSplit FFTF17.
Import ListNotations.
Open Scope nat_scope.

Definition O17 := f17_ops.
Definition r17 (k : nat) : F17 := fpow O17 w16 (2 ^ (4 - k)).     (* primitive 2^k-th root, k <= 4 *)
Definition z17 (l : list Z) : list F17 := map mk17 l.
Definition p16 : list F17 := z17 [1; 2; 3; 4; 5; 6; 7; 8; 9; 10; 11; 12; 13; 14; 15; 16]%Z.
Definition p8 : list F17 := z17 [5; 0; 16; 3; 3; 9; 1; 11]%Z.

Lemma list17_eq (a b : list F17) : map val17 a = map val17 b -> a = b.
Proof.
  revert b. induction a as [|x a IH]; destruct b as [|y b]; cbn; intros H; try discriminate; [reflexivity|].
  inversion H. f_equal; [apply F17_eq; assumption | apply IH; assumption].
Qed.

Example ex_root_cond_16 : root_cond O17 4 (r17 4).
Proof. cbn [root_cond]. apply F17_eq. vm_compute. reflexivity. Qed.
Example ex_root_cond_8 : root_cond O17 3 (r17 3).
Proof. cbn [root_cond]. apply F17_eq. vm_compute. reflexivity. Qed.
Example ex_n_inv_16 : fmul O17 (two_pow_f O17 4) (n_inv O17 4) = fone O17.
Proof. apply F17_eq. vm_compute. reflexivity. Qed.
Example ex_n_inv_8 : fmul O17 (two_pow_f O17 3) (n_inv O17 3) = fone O17.
Proof. apply F17_eq. vm_compute. reflexivity. Qed.
Example ex_offset_nonzero : mk17 5 <> fzero O17.
Proof. intros H. apply (f_equal val17) in H. vm_compute in H. discriminate. Qed.

(* (a) hypotheses of fft_rec_correct hold, and the computed transform is the direct evaluation *)
Example ex_fft_rec : length p16 = 2 ^ 4 /\ root_cond O17 4 (r17 4) /\
  map val17 (fft_rec O17 4 (r17 4) p16) = map val17 (dft O17 16 (r17 4) p16) /\
  map val17 (fft_rec O17 4 (r17 4) p16) = [0; 8; 2; 15; 7; 4; 6; 5; 9; 13; 12; 14; 11; 3; 16; 10]%Z.
Proof. split; [reflexivity|]. split; [exact ex_root_cond_16|]. split; vm_compute; reflexivity. Qed.

(* (c) evaluate_poly: twiddles from get_twiddles satisfy tw_ok; all hypotheses of evaluate_poly_correct hold *)
Example ex_evaluate_poly_hyps : exists tw,
  get_twiddles O17 4 r17 (2 ^ 4) = Some tw /\ length p16 = 2 ^ 4 /\ length tw = 2 ^ 3 /\ 4 <= 4 /\
  root_cond O17 4 (r17 4) /\ tw_ok O17 tw 4 (r17 4) /\
  evaluate_poly O17 4 p16 tw = Some (map (fun i => peval O17 p16 (fpow O17 (r17 4) i)) (seq 0 (2 ^ 4))).
Proof.
  destruct (get_twiddles_correct O17 f17_laws 4 r17 3 (le_n _)) as (tw & H1 & H2 & H3).
  exists tw. repeat split; try assumption; try reflexivity; try exact ex_root_cond_16.
  apply (evaluate_poly_correct O17 f17_laws 4 tw 3 (r17 4) p16); try assumption; try reflexivity.
  exact ex_root_cond_16.
Qed.

Example ex_evaluate_poly_value :
  option_map (map val17) (match get_twiddles O17 4 r17 16 with Some tw => evaluate_poly O17 4 p16 tw | None => None end)
  = Some [0; 8; 2; 15; 7; 4; 6; 5; 9; 13; 12; 14; 11; 3; 16; 10]%Z.
Proof. vm_compute. reflexivity. Qed.

(* raw fft_in_place with count/stride/offset = 2/4/1 on 16 values: subsequences 1 and 2 transformed, 0 and 3 untouched *)
Example ex_fft_in_place_raw :
  let tw := match get_twiddles O17 4 r17 4 with Some t => t | None => [] end in
  let v' := fft_in_place O17 16 p16 tw 2 4 1 in
  post O17 tw 2 p16 v' 1 2 4 /\
  map val17 v' = [1; 15; 2; 4; 5; 9; 9; 8; 9; 7; 7; 12; 13; 11; 11; 16]%Z.
Proof.
  cbv zeta. split; [| vm_compute; reflexivity].
  apply (fft_in_place_spec O17 _ 1 16 p16 2 4 1); cbn; lia.
Qed.

(* coset evaluation with blowup 2: polynomial of 8 coefficients on the coset 5 * <3> of size 16 *)
Example ex_evaluate_with_offset : exists tw,
  get_twiddles O17 4 r17 (2 ^ 3) = Some tw /\
  evaluate_poly_with_offset O17 4 r17 p8 tw (mk17 5) (2 ^ 1)
    = Some (map (fun i => peval O17 p8 (fmul O17 (mk17 5) (fpow O17 (r17 4) i))) (seq 0 (2 ^ (3 + 1)))).
Proof.
  destruct (get_twiddles_correct O17 f17_laws 4 r17 2 ltac:(lia)) as (tw & H1 & H2 & H3).
  exists tw. split; [exact H1|].
  assert (Htw : tw_ok O17 tw 3 (fpow O17 (r17 4) (2 ^ 1))).
  { replace (fpow O17 (r17 4) (2 ^ 1)) with (r17 3); [exact H3|]. apply F17_eq. vm_compute. reflexivity. }
  exact (evaluate_poly_with_offset_correct O17 f17_laws 4 r17 tw 2 1 (r17 4) (mk17 5) p8
           eq_refl H2 (le_n 4) eq_refl ex_root_cond_16 Htw ex_offset_nonzero).
Qed.

Example ex_evaluate_with_offset_value :
  option_map (map val17)
    (match get_twiddles O17 4 r17 8 with Some tw => evaluate_poly_with_offset O17 4 r17 p8 tw (mk17 5) 2 | None => None end)
  = Some (map (fun i => val17 (peval O17 p8 (fmul O17 (mk17 5) (fpow O17 (r17 4) i)))) (seq 0 16)).
Proof. vm_compute. reflexivity. Qed.

(* interpolation inverts evaluation (with and without offset), degree inference *)
Example ex_interpolate : exists itw,
  get_inv_twiddles O17 4 r17 (2 ^ 4) = Some itw /\
  interpolate_poly O17 4 (map (fun i => peval O17 p16 (fpow O17 (r17 4) i)) (seq 0 (2 ^ 4))) itw = Some p16 /\
  interpolate_poly_with_offset O17 4
    (map (fun i => peval O17 p16 (fmul O17 (mk17 5) (fpow O17 (r17 4) i))) (seq 0 (2 ^ 4))) itw (mk17 5) = Some p16.
Proof.
  destruct (get_inv_twiddles_correct O17 f17_laws 4 r17 3 (r17 4) (le_n _) eq_refl ex_root_cond_16)
    as (itw & H1 & H2 & H3 & H4).
  exists itw. split; [exact H1|]. split.
  - exact (interpolate_evaluate O17 f17_laws 4 itw 3 (r17 4) _ p16 eq_refl H2 (le_n 4) ex_root_cond_16 H4 H3 ex_n_inv_16).
  - exact (interpolate_evaluate_with_offset O17 f17_laws 4 itw 3 (r17 4) _ (mk17 5) p16 eq_refl H2 (le_n 4)
             ex_root_cond_16 H4 H3 ex_offset_nonzero ex_n_inv_16).
Qed.

Definition q8 : list F17 := z17 [7; 0; 4; 0; 0; 12; 0; 0]%Z.       (* degree 5 *)
Example ex_infer_degree :
  infer_degree O17 4 r17 (map (fun i => peval O17 q8 (fmul O17 (mk17 5) (fpow O17 (r17 3) i))) (seq 0 (2 ^ 3))) (mk17 5)
    = Some (degree_of O17 q8) /\ degree_of O17 q8 = 5 /\
  infer_degree O17 4 r17 (map (fun i => peval O17 (z17 [9;0;0;0;0;0;0;0]%Z) (fmul O17 (mk17 5) (fpow O17 (r17 3) i))) (seq 0 8)) (mk17 5) = Some 0 /\
  infer_degree O17 4 r17 (map (fun i => peval O17 p8 (fmul O17 (mk17 5) (fpow O17 (r17 3) i))) (seq 0 8)) (mk17 5) = Some 7.
Proof.
  split; [| split; [| split]]; [| vm_compute; reflexivity ..].
  exact (infer_degree_correct O17 f17_laws 4 r17 2 (r17 3) (mk17 5) q8 eq_refl ltac:(lia) eq_refl ex_root_cond_8
           ex_offset_nonzero ex_n_inv_8).
Qed.

Example ex_permute : map val17 (permute O17 (z17 [0;1;2;3;4;5;6;7]%Z)) = [0;4;2;6;1;5;3;7]%Z /\
  permute O17 (permute O17 p16) = p16.
Proof. split; [vm_compute; reflexivity | apply (permute_involutive O17 4); reflexivity]. Qed.

(* four-step FFT of the concurrent build: hypotheses of split_radix_spec_tr_is_fft hold for n = 16 = 4^2 (stretch 1,
   K = 1, s = 0) and n = 8 = 2*4 (stretch 2, K = 0, s = 1); the faithful swap-loop transpositions agree with the
   specification and the faithful split_radix_fft equals fft_in_place on these inputs (by computation) *)
Example ex_split_radix_16 : exists tw,
  get_twiddles O17 4 r17 (2 ^ 4) = Some tw /\ length p16 = 2 ^ (2 + 2 + 0) /\ length tw = 2 ^ (2 + 1 + 0) /\
  tw_ok O17 tw (2 + 2 + 0) (r17 4) /\ root_cond O17 (2 + 2 + 0) (r17 4) /\
  split_radix_fft_spec_tr O17 p16 tw = Some (fft_in_place_top O17 p16 tw).
Proof.
  destruct (get_twiddles_correct O17 f17_laws 4 r17 3 (le_n _)) as (tw & H1 & H2 & H3).
  exists tw. repeat split; try assumption; try reflexivity; try exact ex_root_cond_16.
  exact (split_radix_spec_tr_is_fft O17 f17_laws tw 1 0 (r17 4) p16 (Nat.le_0_l 1) eq_refl H2 H3 ex_root_cond_16).
Qed.

Example ex_split_radix_8 : exists tw,
  get_twiddles O17 4 r17 (2 ^ 3) = Some tw /\
  split_radix_fft_spec_tr O17 p8 tw = Some (fft_in_place_top O17 p8 tw).
Proof.
  destruct (get_twiddles_correct O17 f17_laws 4 r17 2 ltac:(lia)) as (tw & H1 & H2 & H3).
  exists tw. split; [exact H1|].
  exact (split_radix_spec_tr_is_fft O17 f17_laws tw 0 1 (r17 3) p8 (le_n 1) eq_refl H2 H3 ex_root_cond_8).
Qed.

Example ex_split_radix_values :
  let tw16 := match get_twiddles O17 4 r17 16 with Some t => t | None => [] end in
  let tw8 := match get_twiddles O17 4 r17 8 with Some t => t | None => [] end in
  option_map (map val17) (split_radix_fft O17 p16 tw16) = Some (map val17 (fft_in_place_top O17 p16 tw16)) /\
  option_map (map val17) (split_radix_fft O17 p8 tw8) = Some (map val17 (fft_in_place_top O17 p8 tw8)) /\
  option_map (map val17) (transpose_square_stretch O17 p16 4 1) = Some (map val17 (transpose_spec O17 4 1 p16)) /\
  option_map (map val17) (transpose_square_stretch O17 p8 2 2) = Some (map val17 (transpose_spec O17 2 2 p8)) /\
  option_map (map val17) (evaluate_poly_concurrent O17 p16 tw16)
    = Some (map (fun i => val17 (peval O17 p16 (fpow O17 (r17 4) i))) (seq 0 16)).
Proof. cbv zeta. repeat split; vm_compute; reflexivity. Qed.
