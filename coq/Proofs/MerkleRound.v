(* C10 — decompression of honest batch openings: into_paths (prove_batch t idx) idx is exactly the list
   of individual paths prove t i, for every depth and every order of the positions. *)
From Coq Require Import ZArith List Bool Lia.
From VBase Require Import MachInt.
From VModel Require Import Merkle.
From VProofs Require Import MerkleBase MerkleSingle MerkleIdx MerkleBatch MerkleTotal MerkleBind.
Import ListNotations.
Open Scope Z_scope.

Lemma mapM_Ok_inv {A B} (f : A -> res B) : forall (l : list A) bs, mapM f l = Ok bs -> Forall2 (fun a b => f a = Ok b) l bs.
Proof.
  induction l as [|a r IH]; intros bs E; cbn [mapM] in E.
  - injection E as <-. constructor.
  - apply bind_Ok in E. destruct E as (b & Eb & E). apply bind_Ok in E. destruct E as (bs' & Ebs & E). injection E as <-.
    constructor; auto.
Qed.

Lemma mapM_map {A B} (f : A -> res B) (g : A -> B) (l : list A) : (forall a, In a l -> f a = Ok (g a)) -> mapM f l = Ok (map g l).
Proof.
  induction l as [|a r IH]; intros H; [reflexivity|]. cbn [mapM map]. rewrite (H a (or_introl eq_refl)). cbn [bind].
  rewrite IH by (intros; apply H; right; assumption). reflexivity.
Qed.

Lemma Forall2_map_eq {A B} (g : A -> B) : forall (l : list A) bs, Forall2 (fun a b => b = g a) l bs -> bs = map g l.
Proof. induction 1; cbn [map]; congruence. Qed.

Lemma Forall2_impl_In {A B} (R Q : A -> B -> Prop) : forall l l',
  Forall2 R l l' -> (forall a b, In a l -> R a b -> Q a b) -> Forall2 Q l l'.
Proof.
  induction 1; intros H'; constructor.
  - apply H'; [left; reflexivity|assumption].
  - apply IHForall2. intros a b Ha. apply H'. right. assumption.
Qed.

Section Round.
Variable D : Type.
Variable D_eqb : D -> D -> bool.
Hypothesis D_eqb_spec : forall a b, D_eqb a b = true <-> a = b.
Variable d0 : D.
Variable merge : D -> D -> D.
Variable t : mtree D.
Variable d : nat.
Hypothesis WF : wf_tree D d0 merge d t.
Hypothesis Hd : (d <= 62)%nat.
Let N := 2 ^ Z.of_nat d.

Notation hval := (hval D d0 t).

(* the honest path of position i: the leaf, then the sibling of each node on the way up *)
Definition hpath (i : Z) : list D :=
  hval (i + N) :: map (fun j => hval (Z.lxor ((i + N) / 2 ^ Z.of_nat j) 1)) (seq 0 d).

Lemma mt_prove_spec i : 0 <= i < N -> mt_prove D t i = Ok (hpath i).
Proof.
  intros Hi. pose proof (N_pos D d0 merge t d WF Hd) as HN2. fold N in HN2.
  pose proof (N_even D d0 merge t d WF Hd) as HNe. fold N in HNe.
  pose proof (N_small d Hd) as HNs. fold N in HNs. pose proof (wf_d _ _ _ _ _ WF) as Hd1.
  unfold Merkle.mt_prove. rewrite (wf_leaves _ _ _ _ _ WF), (wf_nodes _ _ _ _ _ WF). fold N.
  destruct (Z.leb_spec N i); [lia|].
  pose proof (lxor1_nonneg i ltac:(lia)).
  assert (Hx : Z.lxor i 1 < N).
  { rewrite lxor1 by lia. destruct (mod2_cases i) as [E|E]; rewrite E; [|lia].
    pose proof (Z.div_mod i 2 ltac:(lia)). pose proof (Z.div_mod N 2 ltac:(lia)). lia. }
  rewrite !(idx_Ok _ _ d0) by (rewrite (wf_leaves _ _ _ _ _ WF); fold N; lia). cbn [bind].
  rewrite uadd_Ok by lia. cbn [bind]. rewrite shiftr1.
  set (d' := pred d). assert (Hdd : d = S d') by (unfold d'; lia).
  assert (HNd : N = 2 * 2 ^ Z.of_nat d') by (unfold N; rewrite Hdd at 1; apply pow2_S).
  assert (0 < 2 ^ Z.of_nat d') by (apply pow2_pos; lia).
  destruct (prove_verify_up D d0 merge t d WF Hd d' ((i + N) / 2) 64) as (ps & E & _ & M & _).
  { rewrite Z.pow_add_r by lia. change (2 ^ 1) with 2.
    pose proof (Z.div_mod (i + N) 2 ltac:(lia)). pose proof (Z.mod_pos_bound (i + N) 2 ltac:(lia)). lia. }
  { fold N. rewrite Z.pow_add_r by lia. change (2 ^ 1) with 2. lia. }
  { lia. }
  rewrite E. cbn [bind]. f_equal. unfold hpath. rewrite Hdd at 1. cbn [seq map].
  f_equal; [|f_equal].
  - rewrite (hval_leaf D d0 merge t d) by (assumption || (fold N; lia)). fold N. unfold znth. do 2 f_equal. lia.
  - change (2 ^ Z.of_nat 0) with 1. rewrite Z.div_1_r. rewrite lxor1_add_even by lia.
    rewrite (hval_leaf D d0 merge t d) by (assumption || (fold N; lia)). fold N. unfold znth. do 2 f_equal. lia.
  - rewrite M. rewrite <- seq_shift, map_map. apply map_ext. intros j.
    rewrite Nat2Z.inj_succ, Z.pow_succ_r by lia. rewrite Z.div_div by (try apply pow2_pos; lia). reflexivity.
Qed.

Lemma get_path_up_sound ptm : ptmsound D d0 t ptm -> forall (l : nat) c fuel ps,
  lev (Z.of_nat l) c -> get_path_up D fuel ptm c = Ok ps ->
  ps = map (fun j => hval (Z.lxor (c / 2 ^ Z.of_nat j) 1)) (seq 0 l).
Proof.
  intros Hs. induction l as [|l IH]; intros c fuel ps Lc E.
  - unfold lev in Lc. cbn in Lc. assert (c = 1) by lia. subst c. destruct fuel; cbn in E; injection E as <-; reflexivity.
  - assert (Hl : 1 <= Z.of_nat (S l)) by lia. pose proof (lev_ge2 _ _ Hl Lc).
    destruct fuel as [|fuel]; cbn [Merkle.get_path_up] in E; destruct (Z.leb_spec c 1); try lia; [discriminate|].
    destruct (bt_get (Z.lxor c 1) ptm) as [x|] eqn:Ex; [|discriminate].
    apply bind_Ok in E. destruct E as (r & Er & E). injection E as <-. rewrite shiftr1 in Er.
    apply IH in Er; [|replace (Z.of_nat l) with (Z.of_nat (S l) - 1) by lia; apply lev_div2; assumption].
    cbn [seq map]. f_equal.
    + change (2 ^ Z.of_nat 0) with 1. rewrite Z.div_1_r. apply Hs. assumption.
    + rewrite Er. rewrite <- seq_shift, map_map. apply map_ext. intros j.
      rewrite Nat2Z.inj_succ, Z.pow_succ_r by lia. rewrite Z.div_div by (try apply pow2_pos; lia). reflexivity.
Qed.

Theorem into_paths_spec_tree : forall indexes,
  indexes <> [] -> zlen indexes <= 255 -> NoDup indexes -> (forall i, In i indexes -> 0 <= i < N) ->
  exists p, mt_prove_batch D d0 t indexes = Ok p /\
            into_paths D merge p indexes = Ok (map hpath indexes) /\
            mapM (mt_prove D t) indexes = Ok (map hpath indexes).
Proof.
  intros idx Hne Hlen ND Hr. pose proof (wf_d _ _ _ _ _ WF) as Hd1.
  destruct (batch_complete_core D d0 merge t d WF Hd idx Hne Hlen ND Hr) as (p & Ep & Hdep & HL & HLv & Hc).
  exists p. split; [assumption|]. split; [|apply mapM_map; intros i Hi; apply mt_prove_spec; apply Hr; assumption].
  set (ptm0 := ptm_leaves D (2 ^ bp_depth p) idx (bp_leaves p) []).
  assert (Hs0 : ptmsound D d0 t ptm0).
  { intros k x Ek. destruct (ptm_leaves_spec D (2 ^ bp_depth p) idx (bp_leaves p) [] ND ltac:(lia) ltac:(intros; reflexivity)) as (_ & _ & P).
    apply P in Ek. destruct Ek as [Ek|(j & i & Ei & Ex & ->)]; [discriminate|].
    rewrite (HLv j i Ei) in Ex. injection Ex as <-. rewrite Hdep. fold N.
    pose proof (Hr i (nth_error_In _ _ Ei)).
    rewrite (hval_leaf D d0 merge t d) by (assumption || (fold N; lia)). fold N. unfold leaf. f_equal. lia. }
  destruct (Hc ptm0) as (v & ptm & Eg & Er & Hs). specialize (Hs Hs0).
  assert (Hu : usize_list idx) by (intros i Hi; apply Hr; assumption).
  assert (Hroot : get_root D merge p idx = Ok (hval 1)).
  { destruct (batch_complete_tree D d0 merge t d WF Hd idx Hne Hlen ND Hr) as (p' & Ep' & _ & _ & _ & G).
    rewrite Ep in Ep'. injection Ep' as <-. assumption. }
  destruct (into_paths_sound D D_eqb D_eqb_spec d0 merge p idx _ d Hd1 Hdep Hu Hroot) as (paths & Eip & _ & _).
  rewrite Eip. f_equal.
  assert (Hip : into_paths D merge p idx = mapM (fun i => get_path D i ptm (bp_depth p)) idx).
  { unfold Merkle.into_paths. rewrite match_nonempty by assumption. unfold max_paths.
    destruct (Z.ltb_spec 255 (zlen idx)); [lia|].
    replace (zlen idx =? zlen (bp_leaves p)) with true by (symmetry; apply Z.eqb_eq; unfold zlen; lia). cbn [negb].
    fold ptm0. rewrite Eg. reflexivity. }
  rewrite Hip in Eip. apply mapM_Ok_inv in Eip. apply Forall2_map_eq.
  eapply Forall2_impl_In; [exact Eip|]. cbv beta. intros i path Hi Egp.
  pose proof (Hr i Hi) as Hir. unfold Merkle.get_path in Egp. rewrite Hdep in Egp. fold N in Egp.
  destruct (Z.leb_spec 64 (Z.of_nat d)); [lia|].
  apply bind_Ok in Egp. destruct Egp as (s & Es & Egp). apply uadd_inv in Es. destruct Es as [-> _].
  destruct (bt_get (i + N) ptm) as [x|] eqn:Ex; [|discriminate].
  apply bind_Ok in Egp. destruct Egp as (r & Erp & Egp). injection Egp as <-.
  unfold hpath. f_equal; [apply Hs; assumption|].
  apply (get_path_up_sound ptm Hs d (i + N) 64 r); [|assumption].
  unfold lev. fold N. rewrite Z.pow_add_r by lia. change (2 ^ 1) with 2. fold N. lia.
Qed.

End Round.

(* ================================================================ from_paths round trip, bounded instance
   The general statement  from_paths (into_paths (prove_batch t idx) idx) idx = Ok (prove_batch t idx)  is not
   proved for all depths.  Proved here by exhaustive evaluation: the FREE merge (digests are binary terms over
   leaf symbols, merge = the term constructor: no collisions, every value records how it was computed), trees
   with 2, 4 and 8 distinct symbolic leaves, EVERY duplicate-free non-empty list of positions in EVERY order
   for 2 and 4 leaves; for 8 leaves every duplicate-free list of at most 3 positions in every order and every
   non-empty subset in ascending and in descending order. *)
Inductive FT : Type := FL (n : Z) | FN (a b : FT).

Definition FT_eq_dec : forall a b : FT, {a = b} + {a <> b}.
Proof. decide equality. apply Z.eq_dec. Defined.

Definition FT_eqb (a b : FT) : bool := if FT_eq_dec a b then true else false.

Definition fbproof_eq_dec : forall p q : bproof FT, {p = q} + {p <> q}.
Proof. decide equality; [apply Z.eq_dec|apply (list_eq_dec (list_eq_dec FT_eq_dec))|apply (list_eq_dec FT_eq_dec)]. Defined.

Definition free_tree (n : nat) : res (mtree FT) := mt_new FT (FL (-1)) FN (map (fun k => FL (Z.of_nat k)) (seq 0 n)).

Definition roundtrip_ok (n : nat) (idx : list Z) : bool :=
  match free_tree n with
  | Ok t =>
    match mt_prove_batch FT (FL (-1)) t idx with
    | Ok p =>
      match into_paths FT FN p idx with
      | Ok paths =>
        match from_paths FT (FL (-1)) paths idx with
        | Ok q => if fbproof_eq_dec p q then true else false
        | _ => false
        end
      | _ => false
      end
    | _ => false
    end
  | _ => false
  end.

(* all duplicate-free lists of length k over [pool] *)
Definition inject_all (pool : list Z) (l : list Z) : list (list Z) :=
  flat_map (fun x => if existsb (Z.eqb x) l then [] else [x :: l]) pool.

Fixpoint nodup_lists (pool : list Z) (k : nat) : list (list Z) :=
  match k with
  | O => [[]]
  | S k' => flat_map (inject_all pool) (nodup_lists pool k')
  end.

Definition zpool (n : nat) : list Z := map Z.of_nat (seq 0 n).

Definition all_orders (n : nat) (maxlen : nat) : list (list Z) :=
  flat_map (fun k => nodup_lists (zpool n) (S k)) (seq 0 maxlen).

Fixpoint sublists (l : list Z) : list (list Z) :=
  match l with [] => [[]] | a :: r => let s := sublists r in map (cons a) s ++ s end.

Definition subsets_both_orders (n : nat) : list (list Z) :=
  let s := filter (fun l => match l with [] => false | _ => true end) (sublists (zpool n)) in s ++ map (@rev Z) s.

Definition roundtrip_cases : list (nat * list Z) :=
  map (pair 2%nat) (all_orders 2 2) ++ map (pair 4%nat) (all_orders 4 4) ++
  map (pair 8%nat) (all_orders 8 3) ++ map (pair 8%nat) (subsets_both_orders 8).

Lemma roundtrip_cases_ok : forallb (fun c => roundtrip_ok (fst c) (snd c)) roundtrip_cases = true.
Proof. vm_compute. reflexivity. Qed.

Theorem from_into_roundtrip_free_le8 : forall n idx, In (n, idx) roundtrip_cases ->
  exists t p paths, free_tree n = Ok t /\ mt_prove_batch FT (FL (-1)) t idx = Ok p /\
    into_paths FT FN p idx = Ok paths /\ from_paths FT (FL (-1)) paths idx = Ok p.
Proof.
  intros n idx Hin. pose proof roundtrip_cases_ok as H. rewrite forallb_forall in H. specialize (H _ Hin). cbn [fst snd] in H.
  unfold roundtrip_ok in H.
  destruct (free_tree n) as [t| |] eqn:E1; try discriminate.
  destruct (mt_prove_batch FT (FL (-1)) t idx) as [p| |] eqn:E2; try discriminate.
  destruct (into_paths FT FN p idx) as [paths| |] eqn:E3; try discriminate.
  destruct (from_paths FT (FL (-1)) paths idx) as [q| |] eqn:E4; try discriminate.
  destruct (fbproof_eq_dec p q) as [<-|]; [|discriminate]. exists t, p, paths. auto.
Qed.

Lemma roundtrip_cases_count : length roundtrip_cases = (4 + 64 + 400 + 510)%nat.
Proof. vm_compute. reflexivity. Qed.
