(* C10 — batch binding: for ANY batch proof accepted by get_root, into_paths returns paths that start
   with the claimed leaves and verify individually against the same root; single binding then applies
   to each path.  Invariants of the partial-tree map through gfirst / gscan / glevels. *)
From Coq Require Import ZArith List Bool Lia.
From VBase Require Import MachInt.
From VModel Require Import Merkle.
From VProofs Require Import MerkleBase MerkleSingle MerkleIdx MerkleBatch MerkleTotal.
Import ListNotations.
Open Scope Z_scope.

(* ---------------------------------------------------------------- arithmetic on heap indexes *)
Definition lev (l a : Z) : Prop := 2 ^ l <= a < 2 ^ (l + 1).

Lemma pow2_split l : 1 <= l -> 2 ^ l = 2 * 2 ^ (l - 1).
Proof. intros. replace l with (Z.succ (l - 1)) at 1 by lia. rewrite Z.pow_succ_r by lia. reflexivity. Qed.

Lemma lev_lxor l a : 1 <= l -> lev l a -> lev l (Z.lxor a 1).
Proof.
  unfold lev. intros Hl H. assert (0 < 2 ^ (l - 1)) by (apply pow2_pos; lia).
  rewrite Z.pow_add_r in * by lia. change (2 ^ 1) with 2 in *. rewrite (pow2_split l Hl) in *.
  rewrite lxor1 by lia. pose proof (Z.div_mod a 2 ltac:(lia)). destruct (mod2_cases a); lia.
Qed.

Lemma lev_div2 l a : 1 <= l -> lev l a -> lev (l - 1) (a / 2).
Proof.
  unfold lev. intros Hl H. replace (l - 1 + 1) with l by lia.
  assert (0 < 2 ^ (l - 1)) by (apply pow2_pos; lia).
  rewrite Z.pow_add_r in H by lia. change (2 ^ 1) with 2 in H. rewrite (pow2_split l Hl) in *.
  pose proof (Z.div_mod a 2 ltac:(lia)). pose proof (Z.mod_pos_bound a 2 ltac:(lia)). lia.
Qed.

Lemma lev_pos l a : 0 <= l -> lev l a -> 1 <= a.
Proof. unfold lev. intros Hl H. pose proof (pow2_pos l Hl). lia. Qed.

Lemma lev_ge2 l a : 1 <= l -> lev l a -> 2 <= a.
Proof. unfold lev. intros Hl H. rewrite (pow2_split l Hl) in H. pose proof (pow2_pos (l - 1) ltac:(lia)). lia. Qed.

Lemma half_eq a b : 0 <= a -> 0 <= b -> a / 2 = b / 2 -> b <> a -> b = Z.lxor a 1.
Proof.
  intros Ha Hb E N. rewrite lxor1 by lia. pose proof (Z.div_mod a 2 ltac:(lia)). pose proof (Z.div_mod b 2 ltac:(lia)).
  destruct (mod2_cases a); destruct (mod2_cases b); lia.
Qed.

Lemma lxor1_neq a : 0 <= a -> Z.lxor a 1 <> a.
Proof. intros. rewrite lxor1 by lia. destruct (mod2_cases a); lia. Qed.

Lemma lxor1_inj a b : 0 <= a -> 0 <= b -> Z.lxor a 1 = Z.lxor b 1 -> a = b.
Proof. intros Ha Hb E. rewrite <- (lxor1_invol a Ha), <- (lxor1_invol b Hb). congruence. Qed.

Lemma lev_half_lt l a b : 1 <= l -> lev l a -> lev l b -> a / 2 <> b.
Proof. intros Hl Ha Hb E. apply lev_div2 in Ha; [|assumption]. unfold lev in *. replace (l - 1 + 1) with l in Ha by lia. lia. Qed.

(* strictly increasing lists *)
Fixpoint ssorted (l : list Z) : Prop :=
  match l with [] => True | a :: r => (forall b, In b r -> a < b) /\ ssorted r end.

Lemma unmerged_notin a rest : 0 <= a -> ssorted (a :: rest) -> merged a rest = false -> ~ In (Z.lxor a 1) rest.
Proof.
  intros Ha [Hlt Hs] Hm Hin. destruct rest as [|b r]; [destruct Hin|].
  cbn in Hm. apply Z.eqb_neq in Hm. destruct Hs as [Hb _].
  pose proof (Hlt b (or_introl eq_refl)). pose proof (Hlt _ Hin) as Hx.
  rewrite lxor1 in * by lia. destruct Hin as [->|Hin]; [congruence|]. apply Hb in Hin.
  destruct (mod2_cases a); lia.
Qed.

Lemma merged_sorted_even a rest' : 0 <= a -> ssorted (a :: Z.lxor a 1 :: rest') ->
  a mod 2 = 0 /\ Z.lxor a 1 = a + 1 /\ forall b, In b rest' -> a + 1 < b.
Proof.
  intros Ha [Hlt [Hlt2 _]]. pose proof (Hlt _ (or_introl eq_refl)) as H. rewrite lxor1 in * by lia.
  destruct (mod2_cases a) as [E|E]; rewrite E in *; [|lia]. split; [reflexivity|]. split; [lia|].
  intros b Hb. apply Hlt2 in Hb. lia.
Qed.

Section Bind.
Variable D : Type.
Variable D_eqb : D -> D -> bool.
Hypothesis D_eqb_spec : forall a b, D_eqb a b = true <-> a = b.
Variable d0 : D.
Variable merge : D -> D -> D.

Notation bproof := (bproof D).
Notation gscan := (gscan D merge).
Notation glevels := (glevels D merge).
Notation gfirst := (gfirst D merge).
Notation gleaf := (gleaf D).
Notation gstep := (gstep D merge).
Notation gsib := (gsib D).
Notation gcore := (gcore D merge).
Notation get_root := (get_root D merge).
Notation into_paths := (into_paths D merge).
Notation verify := (verify D D_eqb merge).
Notation verify_fold := (verify_fold D merge).

(* ---------------------------------------------------------------- map inclusion, local equations *)
Definition sle (m m' : bmap D) : Prop := forall k x, bt_get k m = Some x -> bt_get k m' = Some x.

Lemma sle_refl m : sle m m.
Proof. intros k x H. exact H. Qed.

Lemma sle_trans a b c : sle a b -> sle b c -> sle a c.
Proof. intros H1 H2 k x H. auto. Qed.

Lemma sle_insert_none k x m : bt_get k m = None -> sle m (bt_insert k x m).
Proof. intros H k2 y E. rewrite bt_get_insert. destruct (Z.eqb_spec k2 k); [subst; congruence|assumption]. Qed.

Lemma sle_insert_same k x m : bt_get k m = Some x -> sle m (bt_insert k x m).
Proof. intros H k2 y E. rewrite bt_get_insert. destruct (Z.eqb_spec k2 k); [subst; congruence|assumption]. Qed.

Definition mrg (c : Z) (x y : D) : D := if Z.land c 1 =? 0 then merge x y else merge y x.

Lemma mrg_sym a x y : 0 <= a -> mrg (Z.lxor a 1) y x = mrg a x y.
Proof.
  intros Ha. unfold mrg. rewrite !land1, lxor1_mod2 by assumption.
  destruct (mod2_cases a) as [E|E]; rewrite E; reflexivity.
Qed.

(* the node c, its sibling and their parent are in the map and satisfy parent = merge(children) *)
Definition loc (ptm : bmap D) (c : Z) : Prop :=
  exists x y, bt_get c ptm = Some x /\ bt_get (Z.lxor c 1) ptm = Some y /\ bt_get (c / 2) ptm = Some (mrg c x y).

Lemma loc_sle m m' c : sle m m' -> loc m c -> loc m' c.
Proof. intros S (x & y & A & B & C). exists x, y. auto. Qed.

Lemma gstep_inv a s v ptm v1 ptm1 pi :
  gstep a s v ptm = Ok (v1, ptm1, pi) ->
  exists node, bt_get a v = Some node /\ pi = a / 2 /\
    v1 = bt_insert (a / 2) (mrg a node s) v /\
    ptm1 = bt_insert (a / 2) (mrg a node s) (bt_insert (Z.lxor a 1) s ptm).
Proof.
  unfold Merkle.gstep. destruct (bt_get a v) as [node|]; [|discriminate]. rewrite shiftr1. intros [= <- <- <-].
  exists node. unfold mrg. destruct (Z.land a 1 =? 0); cbn [negb]; auto.
Qed.

(* ---------------------------------------------------------------- one level *)
Definition pre (l : Z) (I : list Z) (v ptm : bmap D) : Prop :=
  ssorted I /\ (forall a, In a I -> lev l a) /\
  (forall a, In a I -> exists x, bt_get a v = Some x /\ bt_get a ptm = Some x) /\
  (forall a y, In a I -> bt_get (Z.lxor a 1) ptm = Some y -> In (Z.lxor a 1) I) /\
  (forall a, In a I -> bt_get (a / 2) ptm = None).

Definition post (I : list Z) (v ptm vF ptmF : bmap D) (next : list Z) : Prop :=
  sle ptm ptmF /\ (forall a, In a I -> loc ptmF a) /\
  ssorted next /\ (forall b, In b next <-> exists a, In a I /\ b = a / 2) /\
  (forall b, In b next -> exists x, bt_get b vF = Some x /\ bt_get b ptmF = Some x) /\
  (forall k, (forall a, In a I -> k <> a / 2) -> bt_get k vF = bt_get k v) /\
  (forall k y, bt_get k ptmF = Some y ->
     bt_get k ptm = Some y \/ exists a, In a I /\ (k = Z.lxor a 1 \/ k = a / 2)).

Lemma step_pre l a s node v ptm R :
  1 <= l -> lev l a -> bt_get a v = Some node -> bt_get a ptm = Some node ->
  (bt_get (Z.lxor a 1) ptm = None \/ bt_get (Z.lxor a 1) ptm = Some s) ->
  bt_get (a / 2) ptm = None ->
  ssorted R -> (forall b, In b R -> lev l b /\ b <> a /\ b <> Z.lxor a 1) ->
  (forall b, In b R -> exists x, bt_get b v = Some x /\ bt_get b ptm = Some x) ->
  (forall b y, In b R -> bt_get (Z.lxor b 1) ptm = Some y -> In (Z.lxor b 1) R) ->
  (forall b, In b R -> bt_get (b / 2) ptm = None) ->
  pre l R (bt_insert (a / 2) (mrg a node s) v)
          (bt_insert (a / 2) (mrg a node s) (bt_insert (Z.lxor a 1) s ptm)) /\
  sle ptm (bt_insert (a / 2) (mrg a node s) (bt_insert (Z.lxor a 1) s ptm)) /\
  bt_get a (bt_insert (a / 2) (mrg a node s) (bt_insert (Z.lxor a 1) s ptm)) = Some node /\
  bt_get (Z.lxor a 1) (bt_insert (a / 2) (mrg a node s) (bt_insert (Z.lxor a 1) s ptm)) = Some s /\
  bt_get (a / 2) (bt_insert (a / 2) (mrg a node s) (bt_insert (Z.lxor a 1) s ptm)) = Some (mrg a node s).
Proof.
  intros Hl La Ev Ep Hs Hp HsR HR H2 H3 H4.
  pose proof (lev_ge2 l a Hl La) as Ha2. pose proof (lev_lxor l a Hl La) as Lx.
  assert (Nax : a / 2 <> Z.lxor a 1) by (apply (lev_half_lt l); assumption).
  assert (Naa : a / 2 <> a) by (apply (lev_half_lt l); assumption).
  set (ptm0 := bt_insert (Z.lxor a 1) s ptm).
  assert (S0 : sle ptm ptm0).
  { destruct Hs as [Hs|Hs]; [apply sle_insert_none|apply sle_insert_same]; assumption. }
  assert (S1 : sle ptm0 (bt_insert (a / 2) (mrg a node s) ptm0)).
  { apply sle_insert_none. unfold ptm0. rewrite bt_get_insert_other by assumption. assumption. }
  split; [|split; [eapply sle_trans; eassumption|]].
  - split; [assumption|]. split; [intros b Hb; apply HR; assumption|]. split; [|split].
    + intros b Hb. destruct (HR b Hb) as (Lb & Nba & Nbx). destruct (H2 b Hb) as (x & E1 & E2).
      exists x. assert (b <> a / 2) by (intros ->; eapply (lev_half_lt l a (a / 2)); eauto).
      rewrite !bt_get_insert_other by (unfold ptm0; auto). unfold ptm0. rewrite bt_get_insert_other by auto. auto.
    + intros b y Hb E. destruct (HR b Hb) as (Lb & Nba & Nbx).
      pose proof (lev_ge2 l b Hl Lb). pose proof (lev_lxor l b Hl Lb) as Lbx.
      assert (Z.lxor b 1 <> a / 2) by (intros E'; eapply (lev_half_lt l a (Z.lxor b 1)); eauto).
      assert (Z.lxor b 1 <> Z.lxor a 1) by (intros E'; apply lxor1_inj in E'; lia).
      rewrite bt_get_insert_other in E by assumption. unfold ptm0 in E. rewrite bt_get_insert_other in E by assumption.
      eapply H3; eassumption.
    + intros b Hb. destruct (HR b Hb) as (Lb & Nba & Nbx). pose proof (lev_ge2 l b Hl Lb).
      assert (b / 2 <> a / 2).
      { intros E'. apply Nbx. apply half_eq; try lia. }
      assert (b / 2 <> Z.lxor a 1) by (apply (lev_half_lt l); assumption).
      rewrite bt_get_insert_other by assumption. unfold ptm0. rewrite bt_get_insert_other by assumption. auto.
  - split; [|split].
    + rewrite bt_get_insert_other by auto. unfold ptm0. rewrite bt_get_insert_other by (apply not_eq_sym, lxor1_neq; lia). assumption.
    + rewrite bt_get_insert_other by auto. unfold ptm0. apply bt_get_insert_same.
    + apply bt_get_insert_same.
Qed.

Lemma gscan_inv pn (l : Z) : 1 <= l -> forall n I i v ptrs ptm vF ptrsF ptmF next, (length I <= n)%nat ->
  gscan pn I i v ptrs ptm = Ok (vF, ptrsF, ptmF, next) ->
  pre l I v ptm -> post I v ptm vF ptmF next.
Proof.
  intros Hl. induction n as [|n IH]; intros I i v ptrs ptm vF ptrsF ptmF next Hn E HP.
  { destruct I; [|simpl in Hn; lia]. cbn in E. injection E as <- <- <- <-.
    split; [apply sle_refl|]. split; [intros ? []|]. split; [exact Logic.I|]. split; [split; [intros []|intros (a & [] & _)]|].
    split; [intros ? []|]. split; [reflexivity|]. auto. }
  destruct I as [|a rest].
  { cbn in E. injection E as <- <- <- <-.
    split; [apply sle_refl|]. split; [intros ? []|]. split; [exact Logic.I|]. split; [split; [intros []|intros (a & [] & _)]|].
    split; [intros ? []|]. split; [reflexivity|]. auto. }
  destruct HP as (HS & HL & H2 & H3 & H4).
  pose proof (HL a (or_introl eq_refl)) as La. pose proof (lev_ge2 l a Hl La) as Ha2.
  destruct (H2 a (or_introl eq_refl)) as (node & Ev & Ep).
  rewrite gscan_unfold in E. destruct (merged a rest) eqn:Em.
  - (* the sibling is the next element *)
    destruct (merged_inv _ _ Em) as (rest' & ->). cbn [tl] in E.
    destruct (merged_sorted_even a rest' ltac:(lia) HS) as (Hev & Hx1 & Hgt).
    destruct (H2 (Z.lxor a 1) (or_intror (or_introl eq_refl))) as (s & Esv & Esp).
    rewrite Esv in E. apply bind_Ok in E. destruct E as ([[v1 ptm1] pi] & Eg & E).
    apply gstep_inv in Eg. destruct Eg as (node' & Ev' & -> & -> & ->). rewrite Ev in Ev'. injection Ev' as <-.
    apply bind_Ok in E. destruct E as ([[[vF' ptrsF'] ptmF'] next'] & Er & E). injection E as -> -> -> <-.
    destruct (step_pre l a s node v ptm rest' Hl La Ev Ep (or_intror Esp) (H4 a (or_introl eq_refl)))
      as (HP1 & S1 & Ga & Gx & Gp).
    + destruct HS as [_ [_ HS]]. exact HS.
    + intros b Hb. split; [apply HL; right; right; assumption|]. apply Hgt in Hb. lia.
    + intros b Hb. apply H2. right. right. assumption.
    + intros b y Hb Eb. pose proof (Hgt b Hb). assert (Lb : lev l b) by (apply HL; right; right; assumption).
      pose proof (lev_ge2 l b Hl Lb).
      destruct (H3 b y (or_intror (or_intror Hb)) Eb) as [E'|[E'|E']]; [| |assumption].
      * exfalso. rewrite E' in *. rewrite lxor1_invol in Hx1 by lia. rewrite lxor1 in E' by lia. destruct (mod2_cases b); lia.
      * apply lxor1_inj in E'; lia.
    + intros b Hb. apply H4. right. right. assumption.
    + pose proof (IH rest' (i + 2) _ ptrs _ vF ptrsF ptmF next' ltac:(simpl in Hn; lia) Er HP1)
        as (Q0 & Q1 & Q2 & Q3 & Q4 & Q5 & Q6).
      assert (Hhalf : Z.lxor a 1 / 2 = a / 2) by (apply lxor1_div2; lia).
      split; [eapply sle_trans; eassumption|]. split; [|split; [|split; [|split; [|split]]]].
      * intros c [<-|[<-|Hc]]; [| |apply Q1; assumption].
        -- apply (loc_sle _ _ _ Q0). exists node, s. auto.
        -- apply (loc_sle _ _ _ Q0). exists s, node. rewrite lxor1_invol by lia. rewrite Hhalf.
           rewrite mrg_sym by lia. auto.
      * split; [|assumption]. intros b Hb. apply Q3 in Hb. destruct Hb as (c & Hc & ->).
        pose proof (Hgt c Hc). pose proof (Z.div_mod a 2 ltac:(lia)). pose proof (Z.div_mod c 2 ltac:(lia)).
        pose proof (Z.mod_pos_bound c 2 ltac:(lia)). lia.
      * intros b. split.
        -- intros [<-|Hb]; [exists a; split; [left; reflexivity|reflexivity]|].
           apply Q3 in Hb. destruct Hb as (c & Hc & ->). exists c. split; [right; right; assumption|reflexivity].
        -- intros (c & [<-|[<-|Hc]] & ->); [left; reflexivity|left; symmetry; assumption|].
           right. apply Q3. exists c. auto.
      * intros b [<-|Hb]; [|apply Q4; assumption].
        exists (mrg a node s). split; [|apply Q0; assumption].
        rewrite Q5; [apply bt_get_insert_same|].
        intros c Hc E'. pose proof (Hgt c Hc). assert (Lc : lev l c) by (apply HL; right; right; assumption).
        pose proof (lev_ge2 l c Hl Lc). apply half_eq in E'; lia.
      * intros k Hk. rewrite Q5 by (intros c Hc; apply Hk; right; right; assumption).
        apply bt_get_insert_other. apply Hk. left. reflexivity.
      * intros k y Ek. apply Q6 in Ek. destruct Ek as [Ek|(c & Hc & Hk)].
        -- rewrite bt_get_insert in Ek. destruct (Z.eqb_spec k (a / 2)) as [->|N1].
           { right. exists a. split; [left; reflexivity|auto]. }
           rewrite bt_get_insert in Ek. destruct (Z.eqb_spec k (Z.lxor a 1)) as [->|N2].
           { right. exists a. split; [left; reflexivity|auto]. }
           left. assumption.
        -- right. exists c. split; [right; right; assumption|assumption].
  - (* the sibling comes from the proof *)
    pose proof (unmerged_notin a rest ltac:(lia) HS Em) as Hnot.
    apply bind_Ok in E. destruct E as ([s ptrs1] & _ & E).
    apply bind_Ok in E. destruct E as ([[v1 ptm1] pi] & Eg & E).
    apply gstep_inv in Eg. destruct Eg as (node' & Ev' & -> & -> & ->). rewrite Ev in Ev'. injection Ev' as <-.
    apply bind_Ok in E. destruct E as ([[[vF' ptrsF'] ptmF'] next'] & Er & E). injection E as -> -> -> <-.
    destruct HS as [Hlt HS].
    assert (Hxnone : bt_get (Z.lxor a 1) ptm = None).
    { destruct (bt_get (Z.lxor a 1) ptm) eqn:Ex; [|reflexivity]. exfalso.
      destruct (H3 a d (or_introl eq_refl) Ex) as [E'|E']; [apply (lxor1_neq a); lia|contradiction]. }
    destruct (step_pre l a s node v ptm rest Hl La Ev Ep (or_introl Hxnone) (H4 a (or_introl eq_refl)) HS)
      as (HP1 & S1 & Ga & Gx & Gp).
    + intros b Hb. split; [apply HL; right; assumption|]. split; [apply Hlt in Hb; lia|]. intros ->. contradiction.
    + intros b Hb. apply H2. right. assumption.
    + intros b y Hb Eb. assert (Lb : lev l b) by (apply HL; right; assumption). pose proof (lev_ge2 l b Hl Lb).
      destruct (H3 b y (or_intror Hb) Eb) as [E'|E']; [|assumption].
      exfalso. apply Hnot. rewrite E'. rewrite lxor1_invol by lia. assumption.
    + intros b Hb. apply H4. right. assumption.
    + pose proof (IH rest (i + 1) _ ptrs1 _ vF ptrsF ptmF next' ltac:(simpl in Hn; lia) Er HP1)
        as (Q0 & Q1 & Q2 & Q3 & Q4 & Q5 & Q6).
      assert (Hne : forall c, In c rest -> a / 2 <> c / 2).
      { intros c Hc E'. assert (Lc : lev l c) by (apply HL; right; assumption). pose proof (lev_ge2 l c Hl Lc).
        pose proof (Hlt c Hc). apply half_eq in E'; try lia. subst c. contradiction. }
      split; [eapply sle_trans; eassumption|]. split; [|split; [|split; [|split; [|split]]]].
      * intros c [<-|Hc]; [|apply Q1; assumption]. apply (loc_sle _ _ _ Q0). exists node, s. auto.
      * split; [|assumption]. intros b Hb. apply Q3 in Hb. destruct Hb as (c & Hc & ->).
        pose proof (Hlt c Hc). pose proof (Hne c Hc).
        pose proof (Z.div_mod a 2 ltac:(lia)). pose proof (Z.div_mod c 2 ltac:(lia)).
        pose proof (Z.mod_pos_bound c 2 ltac:(lia)). pose proof (Z.mod_pos_bound a 2 ltac:(lia)). lia.
      * intros b. split.
        -- intros [<-|Hb]; [exists a; split; [left; reflexivity|reflexivity]|].
           apply Q3 in Hb. destruct Hb as (c & Hc & ->). exists c. split; [right; assumption|reflexivity].
        -- intros (c & [<-|Hc] & ->); [left; reflexivity|]. right. apply Q3. exists c. auto.
      * intros b [<-|Hb]; [|apply Q4; assumption].
        exists (mrg a node s). split; [|apply Q0; assumption].
        rewrite Q5; [apply bt_get_insert_same|]. intros c Hc. apply Hne. assumption.
      * intros k Hk. rewrite Q5 by (intros c Hc; apply Hk; right; assumption).
        apply bt_get_insert_other. apply Hk. left. reflexivity.
      * intros k y Ek. apply Q6 in Ek. destruct Ek as [Ek|(c & Hc & Hk)].
        -- rewrite bt_get_insert in Ek. destruct (Z.eqb_spec k (a / 2)) as [->|N1].
           { right. exists a. split; [left; reflexivity|auto]. }
           rewrite bt_get_insert in Ek. destruct (Z.eqb_spec k (Z.lxor a 1)) as [->|N2].
           { right. exists a. split; [left; reflexivity|auto]. }
           left. assumption.
        -- right. exists c. split; [right; assumption|assumption].
Qed.

(* ---------------------------------------------------------------- all levels *)
Definition anc (a c : Z) : Prop := exists j, 0 <= j /\ c = a / 2 ^ j /\ 2 <= c.

Lemma glevels_inv pn : forall (k : nat) I v ptrs ptm vF ptrsF ptmF,
  glevels k pn I v ptrs ptm = Ok (vF, ptrsF, ptmF) ->
  pre (Z.of_nat k) I v ptm -> (forall j, j < 2 ^ Z.of_nat k -> bt_get j ptm = None) ->
  sle ptm ptmF /\ (forall a c, In a I -> anc a c -> loc ptmF c) /\
  (I <> [] -> exists r, bt_get 1 vF = Some r /\ bt_get 1 ptmF = Some r).
Proof.
  induction k as [|k IH]; intros I v ptrs ptm vF ptrsF ptmF E HP H5.
  - cbn in E. injection E as <- <- <-. destruct HP as (_ & HL & H2 & _).
    split; [apply sle_refl|]. split.
    + intros a c Ha (j & Hj & -> & Hc). exfalso. apply HL in Ha. unfold lev in Ha. cbn in Ha.
      assert (a = 1) by lia. subst a. assert (0 < 2 ^ j) by (apply pow2_pos; lia).
      assert (1 / 2 ^ j <= 1); [|lia]. apply Z.div_le_upper_bound; lia.
    + intros Hne. destruct I as [|a r]; [congruence|]. pose proof (HL a (or_introl eq_refl)) as La. unfold lev in La. cbn in La.
      assert (a = 1) by lia. subst a. apply H2. left. reflexivity.
  - cbn [Merkle.glevels] in E. apply bind_Ok in E. destruct E as ([[[v1 ptrs1] ptm1] next] & Es & E).
    assert (Hl : 1 <= Z.of_nat (S k)) by lia.
    pose proof (gscan_inv pn (Z.of_nat (S k)) Hl (length I) I 0 v ptrs ptm v1 ptrs1 ptm1 next (le_n _) Es HP)
      as (Q0 & Q1 & Q2 & Q3 & Q4 & Q5 & Q6).
    destruct HP as (HS & HL & H2 & H3 & H4).
    assert (Hk1 : Z.of_nat (S k) - 1 = Z.of_nat k) by lia.
    assert (Hp2 : 2 ^ (Z.of_nat (S k)) = 2 * 2 ^ Z.of_nat k) by (rewrite (pow2_split _ Hl), Hk1; reflexivity).
    assert (Hpp : 0 < 2 ^ Z.of_nat k) by (apply pow2_pos; lia).
    assert (HLn : forall b, In b next -> lev (Z.of_nat k) b).
    { intros b Hb. apply Q3 in Hb. destruct Hb as (a & Ha & ->). rewrite <- Hk1. apply lev_div2; [assumption|apply HL; assumption]. }
    assert (Hprov : forall j y, bt_get j ptm1 = Some y -> j < 2 ^ (Z.of_nat k + 1) -> In j next).
    { intros j y Ej Hj. apply Q6 in Ej. destruct Ej as [Ej|(a & Ha & [->| ->])].
      - rewrite H5 in Ej; [discriminate|]. rewrite Hp2. rewrite Z.pow_add_r in Hj by lia. change (2 ^ 1) with 2 in Hj. lia.
      - exfalso. pose proof (lev_lxor _ _ Hl (HL a Ha)) as Lx. unfold lev in Lx. rewrite Hp2 in Lx.
        rewrite Z.pow_add_r in Hj by lia. change (2 ^ 1) with 2 in Hj. lia.
      - apply Q3. eauto. }
    destruct (IH next v1 ptrs1 ptm1 vF ptrsF ptmF E) as (R0 & R1 & R2).
    + split; [assumption|]. split; [assumption|]. split; [assumption|]. split.
      * intros b y Hb Eb. apply (Hprov _ y Eb). pose proof (HLn b Hb) as Lb.
        destruct k as [|k'].
        -- unfold lev in Lb. cbn in Lb. assert (b = 1) by lia. subst b. cbn. lia.
        -- apply (lev_lxor (Z.of_nat (S k')) b) in Lb; [|lia]. unfold lev in Lb. lia.
      * intros b Hb. destruct (bt_get (b / 2) ptm1) eqn:Eb; [|reflexivity]. exfalso.
        pose proof (HLn b Hb) as Lb. unfold lev in Lb.
        assert (Hlt : b / 2 < 2 ^ Z.of_nat k).
        { rewrite Z.pow_add_r in Lb by lia. change (2 ^ 1) with 2 in Lb.
          pose proof (Z.div_mod b 2 ltac:(lia)). pose proof (Z.mod_pos_bound b 2 ltac:(lia)). lia. }
        apply Hprov in Eb; [|rewrite Z.pow_add_r by lia; change (2 ^ 1) with 2; lia].
        apply HLn in Eb. unfold lev in Eb. lia.
    + intros j Hj. destruct (bt_get j ptm1) eqn:Ej; [|reflexivity]. exfalso.
      apply Hprov in Ej; [|rewrite Z.pow_add_r by lia; change (2 ^ 1) with 2; lia].
      apply HLn in Ej. unfold lev in Ej. lia.
    + split; [eapply sle_trans; eassumption|]. split.
      * intros a c Ha (j & Hj & -> & Hc). destruct (Z.eq_dec j 0) as [->|Hj0].
        -- change (2 ^ 0) with 1. rewrite Z.div_1_r. apply (loc_sle _ _ _ R0). apply Q1. assumption.
        -- apply (R1 (a / 2)); [apply Q3; eauto|]. exists (j - 1). split; [lia|]. split; [|assumption].
           rewrite Z.div_div by (try apply pow2_pos; lia). f_equal.
           replace j with (Z.succ (j - 1)) at 1 by lia. rewrite Z.pow_succ_r by lia. reflexivity.
      * intros Hne. apply R2. destruct I as [|a r]; [congruence|]. intros En.
        assert (Hin : In (a / 2) next) by (apply Q3; exists a; split; [left; reflexivity|reflexivity]).
        rewrite En in Hin. destruct Hin.
Qed.

(* ---------------------------------------------------------------- first loop *)
Lemma gleafv_inv (p : bproof) j b : gleafv D p j = Ok b -> nth_error (bp_leaves p) (Z.to_nat j) = Some b.
Proof.
  unfold Merkle.gleafv. destruct (zlen (bp_leaves p) <=? j); [discriminate|]. intros E. apply idx_inv in E. tauto.
Qed.

Lemma gleaf_inv (p : bproof) imap i e b0 b1 ptr :
  gleaf p imap i e = Ok (b0, b1, ptr) ->
  (forall j, bt_get e imap = Some j -> nth_error (bp_leaves p) (Z.to_nat j) = Some b0) /\
  (forall j, bt_get (e + 1) imap = Some j -> nth_error (bp_leaves p) (Z.to_nat j) = Some b1).
Proof.
  unfold Merkle.gleaf. intros E. apply bind_Ok in E. destruct E as (i1 & Eu & E). apply uadd_inv in Eu. destruct Eu as [-> _].
  destruct (bt_get e imap) as [j1|]; destruct (bt_get (e + 1) imap) as [j2|].
  - apply bind_Ok in E. destruct E as (x0 & E0 & E). apply bind_Ok in E. destruct E as (x1 & E1 & E). injection E as <- <- <-.
    apply gleafv_inv in E0. apply gleafv_inv in E1. split; intros j [= <-]; assumption.
  - apply bind_Ok in E. destruct E as (x0 & E0 & E). apply bind_Ok in E. destruct E as (x1 & E1 & E). injection E as <- <- <-.
    apply gleafv_inv in E0. split; [intros j [= <-]; assumption|discriminate].
  - apply bind_Ok in E. destruct E as (x0 & E0 & E). apply bind_Ok in E. destruct E as (x1 & E1 & E). injection E as <- <- <-.
    apply gleafv_inv in E1. split; [discriminate|intros j [= <-]; assumption].
  - apply bind_Ok in E. destruct E as (x0 & E0 & E). discriminate.
Qed.

Section FirstInv.
Variable p : bproof.
Variable imap : bmap Z.
Variable dz : Z.
Hypothesis Hdz : 1 <= dz.
Let offset := 2 ^ dz.

Lemma offset_even : offset mod 2 = 0 /\ 2 <= offset.
Proof.
  unfold offset. rewrite (pow2_split dz Hdz). pose proof (pow2_pos (dz - 1) ltac:(lia)).
  split; [rewrite Z.mul_comm; apply Z.mod_mul; lia|lia].
Qed.

Definition g1 (norm : list Z) (ptm : bmap D) : Prop :=
  forall e x, In e norm ->
    (bt_get (offset + e) ptm = Some x -> exists j, bt_get e imap = Some j /\ nth_error (bp_leaves p) (Z.to_nat j) = Some x) /\
    (bt_get (offset + e + 1) ptm = Some x -> exists j, bt_get (e + 1) imap = Some j /\ nth_error (bp_leaves p) (Z.to_nat j) = Some x).

Lemma gfirst_inv : forall norm i v ptm vF ptrs ptmF next,
  gfirst p imap offset norm i v ptm = Ok (vF, ptrs, ptmF, next) ->
  ssorted norm -> (forall e, In e norm -> 0 <= e < offset /\ e mod 2 = 0) ->
  g1 norm ptm -> (forall e, In e norm -> bt_get ((offset + e) / 2) ptm = None) ->
  sle ptm ptmF /\ (forall e, In e norm -> loc ptmF (offset + e) /\ loc ptmF (offset + e + 1)) /\
  next = map (fun e => (offset + e) / 2) norm /\
  (forall b, In b next -> exists x, bt_get b vF = Some x /\ bt_get b ptmF = Some x) /\
  (forall k, ~ In k next -> bt_get k vF = bt_get k v) /\
  (forall k y, bt_get k ptmF = Some y -> bt_get k ptm = Some y \/
     exists e, In e norm /\ (k = offset + e \/ k = offset + e + 1 \/ k = (offset + e) / 2)).
Proof.
  destruct offset_even as [Hoe Ho2].
  induction norm as [|e rest IH]; intros i v ptm vF ptrs ptmF next E HS Hr G1 G2.
  - cbn in E. injection E as <- <- <- <-. split; [apply sle_refl|]. split; [intros ? []|]. split; [reflexivity|].
    split; [intros ? []|]. split; [reflexivity|]. auto.
  - cbn [Merkle.gfirst] in E. apply bind_Ok in E. destruct E as ([[b0 b1] ptr] & Egl & E).
    apply gleaf_inv in Egl. destruct Egl as [L0 L1].
    apply bind_Ok in E. destruct E as (oi & Eu & E). apply uadd_inv in Eu. destruct Eu as [-> _].
    apply bind_Ok in E. destruct E as ([[[vF' ptrs'] ptmF'] next'] & Er & E). injection E as -> <- -> <-.
    destruct (Hr e (or_introl eq_refl)) as [He Hev]. destruct HS as [Hlt HS].
    set (oi := offset + e) in *.
    assert (Hoi : oi mod 2 = 0).
    { unfold oi. pose proof (Z.div_mod offset 2 ltac:(lia)). pose proof (Z.div_mod e 2 ltac:(lia)).
      replace (offset + e) with (0 + (offset / 2 + e / 2) * 2) by lia. rewrite Z.mod_add by lia. reflexivity. }
    assert (Hx : Z.lxor oi 1 = oi + 1) by (apply lxor1_even; [unfold oi; lia|exact Hoi]).
    rewrite Hx in Er. rewrite shiftr1 in *.
    assert (Hpi : oi / 2 < offset).
    { unfold oi. pose proof (Z.div_mod (offset + e) 2 ltac:(lia)). pose proof (Z.mod_pos_bound (offset + e) 2 ltac:(lia)). lia. }
    set (ptmA := bt_insert oi b0 ptm) in *. set (ptmB := bt_insert (oi + 1) b1 ptmA) in *.
    set (ptmC := bt_insert (oi / 2) (merge b0 b1) ptmB) in *.
    assert (SA : sle ptm ptmA).
    { destruct (bt_get oi ptm) as [x|] eqn:Ex; [|apply sle_insert_none; assumption].
      apply sle_insert_same. destruct (G1 e x (or_introl eq_refl)) as [Ga _]. destruct (Ga Ex) as (j & Ej & En).
      rewrite (L0 j Ej) in En. congruence. }
    assert (SB : sle ptmA ptmB).
    { unfold ptmA. destruct (bt_get (oi + 1) (bt_insert oi b0 ptm)) as [x|] eqn:Ex; [|apply sle_insert_none; assumption].
      apply sle_insert_same. rewrite bt_get_insert_other in Ex by lia.
      destruct (G1 e x (or_introl eq_refl)) as [_ Gb]. destruct (Gb Ex) as (j & Ej & En).
      rewrite (L1 j Ej) in En. unfold ptmA. rewrite bt_get_insert_other by lia. rewrite Ex. congruence. }
    assert (SC : sle ptmB ptmC).
    { apply sle_insert_none. unfold ptmB, ptmA. rewrite !bt_get_insert_other by (unfold oi in *; lia).
      apply G2. left. reflexivity. }
    assert (Hrest : forall e', In e' rest -> e + 2 <= e' /\ e' < offset /\ e' mod 2 = 0).
    { intros e' He'. pose proof (Hlt e' He'). destruct (Hr e' (or_intror He')) as [? ?].
      pose proof (Z.div_mod e 2 ltac:(lia)). pose proof (Z.div_mod e' 2 ltac:(lia)). lia. }
    assert (Hhalf : forall e', In e' rest -> oi / 2 < (offset + e') / 2 < offset).
    { intros e' He'. destruct (Hrest e' He') as (? & ? & ?). unfold oi.
      pose proof (Z.div_mod (offset + e) 2 ltac:(lia)). pose proof (Z.div_mod (offset + e') 2 ltac:(lia)).
      pose proof (Z.mod_pos_bound (offset + e) 2 ltac:(lia)). pose proof (Z.mod_pos_bound (offset + e') 2 ltac:(lia)). lia. }
    assert (Hother : forall k, k <> oi -> k <> oi + 1 -> k <> oi / 2 -> bt_get k ptmC = bt_get k ptm).
    { intros k N1 N2 N3. unfold ptmC, ptmB, ptmA. rewrite !bt_get_insert_other by assumption. reflexivity. }
    destruct (IH (i + 1) _ _ vF ptrs' ptmF next' Er HS) as (Q0 & Q1 & Q2 & Q3 & Q4 & Q5).
    + intros e' He'. apply Hr. right. assumption.
    + intros e' x He'. destruct (Hrest e' He') as (? & ? & ?). pose proof (Hhalf e' He').
      rewrite !Hother by (unfold oi in *; lia). apply G1. right. assumption.
    + intros e' He'. destruct (Hrest e' He') as (? & ? & ?). pose proof (Hhalf e' He').
      rewrite Hother by (unfold oi in *; lia). apply G2. right. assumption.
    + assert (SS : sle ptm ptmC) by (eapply sle_trans; [exact SA|eapply sle_trans; eassumption]).
      assert (GA : bt_get oi ptmC = Some b0).
      { apply SC, SB. apply bt_get_insert_same. }
      assert (GB : bt_get (oi + 1) ptmC = Some b1) by (apply SC; apply bt_get_insert_same).
      assert (GC : bt_get (oi / 2) ptmC = Some (merge b0 b1)) by apply bt_get_insert_same.
      split; [eapply sle_trans; eassumption|]. split; [|split; [|split; [|split]]].
      * intros e' [<-|He']; [|apply Q1; assumption]. fold oi. split; apply (loc_sle _ _ _ Q0).
        -- exists b0, b1. rewrite Hx. split; [assumption|]. split; [assumption|].
           unfold mrg. rewrite land1, Hoi. assumption.
        -- exists b1, b0. rewrite <- Hx. rewrite lxor1_invol by (unfold oi; lia). rewrite lxor1_div2 by (unfold oi; lia).
           rewrite Hx. split; [assumption|]. split; [assumption|].
           rewrite <- Hx. rewrite mrg_sym by (unfold oi; lia). unfold mrg. rewrite land1, Hoi. assumption.
      * cbn [map]. fold oi. rewrite Q2. reflexivity.
      * intros b [<-|Hb]; [|apply Q3; assumption].
        exists (merge b0 b1). split; [|apply Q0; assumption].
        rewrite Q4; [apply bt_get_insert_same|]. rewrite Q2. intros Hin. apply in_map_iff in Hin.
        destruct Hin as (e' & Ee & He'). pose proof (Hhalf e' He'). lia.
      * intros k Hk. rewrite Q4 by (intros Hin; apply Hk; right; assumption).
        apply bt_get_insert_other. intros ->. apply Hk. left. reflexivity.
      * intros k y Ek. apply Q5 in Ek. destruct Ek as [Ek|(e' & He' & Hk)].
        -- destruct (Z.eq_dec k oi) as [->|N1]; [right; exists e; split; [left; reflexivity|auto]|].
           destruct (Z.eq_dec k (oi + 1)) as [->|N2]; [right; exists e; split; [left; reflexivity|auto]|].
           destruct (Z.eq_dec k (oi / 2)) as [->|N3]; [right; exists e; split; [left; reflexivity|auto]|].
           left. rewrite <- Hother by assumption. assumption.
        -- right. exists e'. split; [right; assumption|assumption].
Qed.
End FirstInv.

(* ---------------------------------------------------------------- sortedness of the normalized list *)
Lemma bs_insert_sorted k s : ssorted s -> ssorted (bs_insert k s).
Proof.
  induction s as [|a s IH]; cbn [bs_insert]; intros HS.
  - split; [intros ? []|exact Logic.I].
  - destruct HS as [Hlt HS]. destruct (Z.ltb_spec k a).
    + split; [|split; assumption]. intros b [<-|Hb]; [assumption|]. apply Hlt in Hb. lia.
    + destruct (Z.eqb_spec k a); [split; assumption|].
      split; [|apply IH; assumption]. intros b Hb. apply bs_insert_In in Hb. destruct Hb as [->|Hb]; [lia|auto].
Qed.

Lemma normalize_sorted indexes : ssorted (normalize_indexes indexes).
Proof.
  unfold normalize_indexes. assert (H : ssorted []) by exact Logic.I. revert H. generalize (@nil Z).
  induction indexes as [|i r IH]; intros s HS; cbn [fold_left]; [assumption|]. apply IH. apply bs_insert_sorted. assumption.
Qed.

Lemma ssorted_map_half offset norm :
  0 <= offset -> offset mod 2 = 0 -> ssorted norm -> (forall e, In e norm -> 0 <= e /\ e mod 2 = 0) ->
  ssorted (map (fun e => (offset + e) / 2) norm).
Proof.
  intros Ho Hoe. induction norm as [|e r IH]; intros HS Hr; [exact Logic.I|]. destruct HS as [Hlt HS]. cbn [map].
  split; [|apply IH; [assumption|intros; apply Hr; right; assumption]].
  intros b Hb. apply in_map_iff in Hb. destruct Hb as (e' & <- & He'). pose proof (Hlt e' He').
  destruct (Hr e (or_introl eq_refl)). destruct (Hr e' (or_intror He')).
  pose proof (Z.div_mod (offset + e) 2 ltac:(lia)). pose proof (Z.div_mod (offset + e') 2 ltac:(lia)).
  pose proof (Z.div_mod offset 2 ltac:(lia)). pose proof (Z.div_mod e 2 ltac:(lia)). pose proof (Z.div_mod e' 2 ltac:(lia)).
  pose proof (Z.mod_pos_bound (offset + e) 2 ltac:(lia)). pose proof (Z.mod_pos_bound (offset + e') 2 ltac:(lia)). lia.
Qed.

(* ---------------------------------------------------------------- the initial partial tree *)
Lemma ptm_leaves_spec offset : forall idx leaves ptm,
  NoDup idx -> length idx = length leaves -> (forall i, In i idx -> bt_get (i + offset) ptm = None) ->
  sle ptm (ptm_leaves D offset idx leaves ptm) /\
  (forall j i x, nth_error idx j = Some i -> nth_error leaves j = Some x ->
     bt_get (i + offset) (ptm_leaves D offset idx leaves ptm) = Some x) /\
  (forall k y, bt_get k (ptm_leaves D offset idx leaves ptm) = Some y ->
     bt_get k ptm = Some y \/ exists j i, nth_error idx j = Some i /\ nth_error leaves j = Some y /\ k = i + offset).
Proof.
  induction idx as [|i0 idx IH]; intros leaves ptm ND HL Hn.
  - cbn. split; [apply sle_refl|]. split; [intros [|j]; discriminate|auto].
  - destruct leaves as [|l0 leaves]; [discriminate|]. cbn [Merkle.ptm_leaves]. inversion ND as [|? ? Hnot ND']. subst.
    destruct (IH leaves (bt_insert (i0 + offset) l0 ptm) ND' ltac:(simpl in HL; lia)) as (SS & G & P).
    { intros i Hi. rewrite bt_get_insert_other; [apply Hn; right; assumption|]. intros E. apply Hnot. replace i0 with i by lia. assumption. }
    assert (S0 : sle ptm (bt_insert (i0 + offset) l0 ptm)) by (apply sle_insert_none; apply Hn; left; reflexivity).
    split; [eapply sle_trans; eassumption|]. split.
    + intros [|j] i x Ei Ex; cbn in Ei, Ex.
      * injection Ei as <-. injection Ex as <-. apply SS. apply bt_get_insert_same.
      * eapply G; eassumption.
    + intros k y Ek. apply P in Ek. destruct Ek as [Ek|(j & i & Ei & Ex & ->)].
      * rewrite bt_get_insert in Ek. destruct (Z.eqb_spec k (i0 + offset)) as [->|]; [|left; assumption].
        injection Ek as <-. right. exists 0%nat, i0. auto.
      * right. exists (S j), i. auto.
Qed.

(* ---------------------------------------------------------------- the partial tree does not influence the result *)
Lemma gstep_irrel a s v ptm ptm' v1 ptm1 pi :
  gstep a s v ptm = Ok (v1, ptm1, pi) -> exists ptm1', gstep a s v ptm' = Ok (v1, ptm1', pi).
Proof. unfold Merkle.gstep. destruct (bt_get a v); [|discriminate]. intros [= <- <- <-]. eauto. Qed.

Lemma gscan_irrel pn : forall n I i v ptrs ptm vF ptrsF ptmF next ptm', (length I <= n)%nat ->
  gscan pn I i v ptrs ptm = Ok (vF, ptrsF, ptmF, next) ->
  exists ptmF', gscan pn I i v ptrs ptm' = Ok (vF, ptrsF, ptmF', next).
Proof.
  induction n as [|n IH]; intros I i v ptrs ptm vF ptrsF ptmF next ptm' Hn E.
  - destruct I; [|simpl in Hn; lia]. cbn in *. injection E as <- <- <- <-. eauto.
  - destruct I as [|a rest]; [cbn in *; injection E as <- <- <- <-; eauto|].
    rewrite gscan_unfold in *. destruct (merged a rest) eqn:Em.
    + destruct (bt_get (Z.lxor a 1) v) as [s|]; [|discriminate].
      apply bind_Ok in E. destruct E as ([[v1 ptm1] pi] & Eg & E).
      destruct (gstep_irrel _ _ _ _ ptm' _ _ _ Eg) as (ptm1' & Eg'). rewrite Eg'. cbn [bind].
      apply bind_Ok in E. destruct E as ([[[vF0 ptrsF0] ptmF0] next0] & Er & E). injection E as <- <- <- <-.
      assert (Hlen : (length (tl rest) <= n)%nat) by (pose proof (tl_length_le rest); simpl in Hn; lia).
      destruct (IH _ _ _ _ _ _ _ _ _ ptm1' Hlen Er) as (ptmF' & Er').
      rewrite Er'. cbn [bind]. eauto.
    + apply bind_Ok in E. destruct E as ([s ptrs1] & Es & E). rewrite Es. cbn [bind].
      apply bind_Ok in E. destruct E as ([[v1 ptm1] pi] & Eg & E).
      destruct (gstep_irrel _ _ _ _ ptm' _ _ _ Eg) as (ptm1' & Eg'). rewrite Eg'. cbn [bind].
      apply bind_Ok in E. destruct E as ([[[vF0 ptrsF0] ptmF0] next0] & Er & E). injection E as <- <- <- <-.
      assert (Hlen : (length rest <= n)%nat) by (simpl in Hn; lia).
      destruct (IH _ _ _ _ _ _ _ _ _ ptm1' Hlen Er) as (ptmF' & Er').
      rewrite Er'. cbn [bind]. eauto.
Qed.

Lemma glevels_irrel pn : forall k I v ptrs ptm vF ptrsF ptmF ptm',
  glevels k pn I v ptrs ptm = Ok (vF, ptrsF, ptmF) -> exists ptmF', glevels k pn I v ptrs ptm' = Ok (vF, ptrsF, ptmF').
Proof.
  induction k as [|k IH]; intros I v ptrs ptm vF ptrsF ptmF ptm' E.
  - cbn in *. injection E as <- <- <-. eauto.
  - cbn [Merkle.glevels] in *. apply bind_Ok in E. destruct E as ([[[v1 ptrs1] ptm1] next] & Es & E).
    destruct (gscan_irrel pn (length I) _ _ _ _ _ _ _ _ _ ptm' (le_n _) Es) as (ptm1' & Es'). rewrite Es'. cbn [bind].
    eapply IH. eassumption.
Qed.

Lemma gfirst_irrel (p : bproof) imap offset : forall norm i v ptm vF ptrs ptmF next ptm',
  gfirst p imap offset norm i v ptm = Ok (vF, ptrs, ptmF, next) ->
  exists ptmF', gfirst p imap offset norm i v ptm' = Ok (vF, ptrs, ptmF', next).
Proof.
  induction norm as [|e rest IH]; intros i v ptm vF ptrs ptmF next ptm' E.
  - cbn in *. injection E as <- <- <- <-. eauto.
  - cbn [Merkle.gfirst] in *. apply bind_Ok in E. destruct E as ([[b0 b1] ptr] & Egl & E). rewrite Egl. cbn [bind].
    apply bind_Ok in E. destruct E as (oi & Eu & E). rewrite Eu. cbn [bind].
    apply bind_Ok in E. destruct E as ([[[vF0 ptrs0] ptmF0] next0] & Er & E). injection E as <- <- <- <-.
    edestruct IH as (ptmF' & Er'); [exact Er|]. rewrite Er'. cbn [bind]. eauto.
Qed.

Lemma gcore_irrel (p : bproof) idx ptm0 ptm0' v ptm :
  gcore p idx ptm0 = Ok (v, ptm) -> exists ptm', gcore p idx ptm0' = Ok (v, ptm').
Proof.
  unfold Merkle.gcore. intros E. apply bind_Ok in E. destruct E as (imap & Emi & E). rewrite Emi. cbn [bind].
  destruct (negb _); [discriminate|].
  apply bind_Ok in E. destruct E as ([[[v1 ptrs] ptm1] next] & Ef & E).
  destruct (gfirst_irrel _ _ _ _ _ _ _ _ _ _ _ ptm0' Ef) as (ptm1' & Ef'). rewrite Ef'. cbn [bind].
  apply bind_Ok in E. destruct E as ([[v2 ptrs2] ptm2] & El & E).
  destruct (glevels_irrel _ _ _ _ _ _ _ _ _ ptm1' El) as (ptm2' & El'). rewrite El'. cbn [bind].
  destruct (negb _); [discriminate|]. injection E as <- <-. eauto.
Qed.

(* ---------------------------------------------------------------- reading a path off a locally consistent map *)
Lemma path_of_loc ptm : forall (l : nat) c x fuel, lev (Z.of_nat l) c -> (l <= fuel)%nat ->
  bt_get c ptm = Some x -> (forall c', anc c c' -> loc ptm c') ->
  exists ps r, get_path_up D fuel ptm c = Ok ps /\ length ps = l /\ bt_get 1 ptm = Some r /\ verify_fold ps c x = r.
Proof.
  induction l as [|l IH]; intros c x fuel Lc Hf Ex Hloc.
  - unfold lev in Lc. cbn in Lc. assert (c = 1) by lia. subst c. exists [], x. split; [destruct fuel; reflexivity|]. auto.
  - assert (Hl : 1 <= Z.of_nat (S l)) by lia. pose proof (lev_ge2 _ _ Hl Lc) as Hc2.
    destruct (Hloc c) as (x' & y & E1 & E2 & E3).
    { exists 0. split; [lia|]. split; [change (2 ^ 0) with 1; rewrite Z.div_1_r; reflexivity|assumption]. }
    rewrite Ex in E1. injection E1 as <-.
    destruct fuel as [|fuel]; [lia|]. cbn [Merkle.get_path_up]. destruct (Z.leb_spec c 1); [lia|].
    rewrite E2. rewrite shiftr1.
    destruct (IH (c / 2) (mrg c x y) fuel) as (ps & r & Ep & Lp & Er & Ev).
    + replace (Z.of_nat l) with (Z.of_nat (S l) - 1) by lia. apply lev_div2; assumption.
    + lia.
    + assumption.
    + intros c' (j & Hj & -> & Hc'). apply Hloc. exists (j + 1). split; [lia|]. split; [|assumption].
      rewrite Z.div_div by (try apply pow2_pos; lia). f_equal. rewrite Z.pow_add_r by lia. change (2 ^ 1) with 2. lia.
    + rewrite Ep. cbn [bind]. exists (y :: ps), r. split; [reflexivity|]. split; [simpl; lia|]. split; [assumption|].
      cbn [Merkle.verify_fold]. rewrite shiftr1. exact Ev.
Qed.

Lemma verify_of_fold root i x ps :
  1 <= zlen ps < 64 -> 0 <= i < 2 ^ zlen ps -> verify_fold ps (i + 2 ^ zlen ps) x = root ->
  verify root i (x :: ps) = Ok tt.
Proof.
  intros Hl Hi Hv. apply (verify_Ok_iff D D_eqb D_eqb_spec d0 merge). rewrite zlen_cons.
  replace (zlen ps + 1 - 1) with (zlen ps) by lia. split; [lia|]. split; [lia|].
  destruct ps as [|y ps']; [unfold zlen in Hl; simpl in Hl; lia|]. cbn [skipn].
  cbn [Merkle.verify_fold] in Hv. rewrite <- Hv. f_equal.
  assert (Hm : (i + 2 ^ zlen (y :: ps')) mod 2 = i mod 2).
  { rewrite (pow2_split (zlen (y :: ps')) ltac:(lia)). rewrite Z.mul_comm. apply Z.mod_add. lia. }
  rewrite !land1, Hm. destruct (mod2_cases i) as [E|E]; rewrite E; reflexivity.
Qed.

Lemma mapM_Ok_Forall2 {A B} (f : A -> res B) (P : A -> B -> Prop) (l : list A) :
  (forall a, In a l -> exists b, f a = Ok b /\ P a b) -> exists bs, mapM f l = Ok bs /\ Forall2 P l bs.
Proof.
  induction l as [|a r IH]; intros H.
  - exists []. split; [reflexivity|constructor].
  - destruct (H a (or_introl eq_refl)) as (b & Eb & Pb). destruct IH as (bs & Ebs & F); [intros; apply H; right; assumption|].
    exists (b :: bs). cbn [mapM]. rewrite Eb. cbn [bind]. rewrite Ebs. cbn [bind]. split; [reflexivity|constructor; assumption].
Qed.

(* ---------------------------------------------------------------- accepted batch opening => verifying paths *)
Theorem into_paths_sound : forall (p : bproof) idx r (d : nat),
  (1 <= d)%nat -> bp_depth p = Z.of_nat d -> usize_list idx ->
  get_root p idx = Ok r ->
  exists paths, into_paths p idx = Ok paths /\ length paths = length idx /\
    forall j i path, nth_error idx j = Some i -> nth_error paths j = Some path ->
      nth_error path 0 = nth_error (bp_leaves p) j /\ length path = S d /\ verify r i path = Ok tt.
Proof.
  intros p idx r d Hd1 Hdep Hu Hg.
  pose proof (get_root_Ok_guards D merge p idx r Hg) as (Hne & Hlen & HLl & ND & Hr & Hd64 & HLn).
  assert (Hg' := Hg). unfold Merkle.get_root in Hg'. rewrite match_nonempty in Hg' by assumption.
  unfold max_paths in Hg'. destruct (Z.ltb_spec 255 (zlen idx)); [lia|].
  destruct (Z.eqb_spec (zlen idx) (zlen (bp_leaves p))) as [Heq1|]; [|lia]. cbn [negb] in Hg'.
  apply bind_Ok in Hg'. destruct Hg' as ([v0 ptmx] & Ec0 & Hv1).
  destruct (bt_get 1 v0) as [r'|] eqn:Er1; [|discriminate]. injection Hv1 as ->.
  set (offset := 2 ^ bp_depth p). set (ptm0 := ptm_leaves D offset idx (bp_leaves p) []).
  destruct (gcore_irrel p idx [] ptm0 v0 ptmx Ec0) as (ptmF & Ec).
  unfold Merkle.into_paths. rewrite match_nonempty by assumption. unfold max_paths.
  destruct (Z.ltb_spec 255 (zlen idx)); [lia|]. destruct (Z.eqb_spec (zlen idx) (zlen (bp_leaves p))) as [Heq2|]; [|lia]. cbn [negb].
  fold offset. fold ptm0. rewrite Ec. cbn [bind].
  (* decompose the run *)
  unfold Merkle.gcore in Ec. apply bind_Ok in Ec. destruct Ec as (imap & Emi & Ec).
  apply map_indexes_inv in Emi. destruct Emi as (_ & _ & _ & IM & _).
  destruct (negb _); [discriminate|]. fold offset in Ec.
  apply bind_Ok in Ec. destruct Ec as ([[[v1 ptrs1] ptm1] next1] & Ef & Ec).
  apply bind_Ok in Ec. destruct Ec as ([[v2 ptrs2] ptm2] & El & Ec).
  destruct (negb _); [discriminate|]. injection Ec as <- <-.
  set (norm := normalize_indexes idx) in *.
  assert (Hdz : 1 <= bp_depth p) by lia.
  destruct (offset_even (bp_depth p) Hdz) as [Hoe Ho2]. fold offset in Hoe, Ho2.
  assert (HL' : length idx = length (bp_leaves p)) by (unfold zlen in *; lia).
  destruct (ptm_leaves_spec offset idx (bp_leaves p) [] ND HL' ltac:(intros; reflexivity)) as (_ & PG & PP). fold ptm0 in PG, PP.
  assert (Hnorm : forall e, In e norm -> 0 <= e < offset /\ e mod 2 = 0).
  { intros e He. apply normalize_In in He. destruct He as (i & Hi & ->). pose proof (Hr i Hi). pose proof (Hu i Hi).
    pose proof (Z.div_mod i 2 ltac:(lia)). pose proof (Z.mod_pos_bound i 2 ltac:(lia)). fold offset in H1.
    split; [lia|]. replace (i - i mod 2) with (0 + (i / 2) * 2) by lia. rewrite Z.mod_add by lia. reflexivity. }
  destruct (gfirst_inv p imap (bp_depth p) Hdz norm 0 [] ptm0 v1 ptrs1 ptm1 next1 Ef (normalize_sorted idx) Hnorm)
    as (F0 & F1 & F2 & F3 & F4 & F5).
  { intros e x He. destruct (Hnorm e He) as [Her Hev]. split; intros Ex; apply PP in Ex;
      destruct Ex as [Ex|(j & i & Ei & Ex & Ek)]; try discriminate.
    - exists (Z.of_nat j). rewrite Nat2Z.id. split; [|assumption]. apply IM. rewrite Nat2Z.id.
      split; [lia|]. rewrite Ei. f_equal. fold offset in Ek. lia.
    - exists (Z.of_nat j). rewrite Nat2Z.id. split; [|assumption]. apply IM. rewrite Nat2Z.id.
      split; [lia|]. rewrite Ei. f_equal. fold offset in Ek. lia. }
  { intros e He. destruct (Hnorm e He) as [Her Hev]. fold offset.
    destruct (bt_get ((offset + e) / 2) ptm0) eqn:Ex; [|reflexivity]. exfalso.
    apply PP in Ex. destruct Ex as [Ex|(j & i & Ei & _ & Ek)]; [discriminate|].
    pose proof (Hu i (nth_error_In _ _ Ei)).
    pose proof (Z.div_mod (offset + e) 2 ltac:(lia)). pose proof (Z.mod_pos_bound (offset + e) 2 ltac:(lia)). lia. }
  fold offset in F1, F2, F5.
  (* the level loop *)
  set (k := pred d). assert (Hk : bp_depth p - 1 = Z.of_nat k) by (unfold k; lia).
  rewrite Hk, Nat2Z.id in El.
  assert (Hoff : offset = 2 * 2 ^ Z.of_nat k).
  { unfold offset. rewrite (pow2_split _ Hdz), Hk. reflexivity. }
  assert (Hpk : 0 < 2 ^ Z.of_nat k) by (apply pow2_pos; lia).
  assert (Hnext : forall b, In b next1 -> lev (Z.of_nat k) b).
  { intros b Hb. rewrite F2 in Hb. apply in_map_iff in Hb. destruct Hb as (e & <- & He). destruct (Hnorm e He) as [Her _].
    unfold lev. rewrite Z.pow_add_r by lia. change (2 ^ 1) with 2.
    pose proof (Z.div_mod (offset + e) 2 ltac:(lia)). pose proof (Z.mod_pos_bound (offset + e) 2 ltac:(lia)). lia. }
  assert (Hprov : forall j y, bt_get j ptm1 = Some y -> j < offset -> In j next1).
  { intros j y Ej Hj. apply F5 in Ej. destruct Ej as [Ej|(e & He & [ -> | [ -> | -> ] ])].
    - apply PP in Ej. destruct Ej as [Ej|(j' & i & Ei & _ & ->)]; [discriminate|].
      pose proof (Hu i (nth_error_In _ _ Ei)). lia.
    - destruct (Hnorm e He). lia.
    - destruct (Hnorm e He). lia.
    - rewrite F2. apply in_map_iff. eauto. }
  destruct (glevels_inv (bp_nodes p) k next1 v1 ptrs1 ptm1 v2 ptrs2 ptm2 El) as (G0 & G1 & G2).
  { split; [rewrite F2; apply ssorted_map_half; try assumption; try lia; [apply normalize_sorted|intros e He; destruct (Hnorm e He); lia]|].
    split; [assumption|]. split; [assumption|]. split.
    - intros b y Hb Eb. apply (Hprov _ y Eb). pose proof (Hnext b Hb) as Lb.
      destruct k as [|k'].
      + unfold lev in Lb. cbn in Lb. assert (b = 1) by lia. subst b. cbn. lia.
      + apply (lev_lxor (Z.of_nat (S k')) b) in Lb; [|lia]. unfold lev in Lb. rewrite Hoff.
        rewrite Z.pow_add_r in Lb by lia. change (2 ^ 1) with 2 in Lb. lia.
    - intros b Hb. destruct (bt_get (b / 2) ptm1) eqn:Eb; [|reflexivity]. exfalso.
      pose proof (Hnext b Hb) as Lb. unfold lev in Lb. rewrite Z.pow_add_r in Lb by lia. change (2 ^ 1) with 2 in Lb.
      pose proof (Z.div_mod b 2 ltac:(lia)). pose proof (Z.mod_pos_bound b 2 ltac:(lia)).
      apply Hprov in Eb; [|lia]. apply Hnext in Eb. unfold lev in Eb. lia. }
  { intros j Hj. destruct (bt_get j ptm1) eqn:Ej; [|reflexivity]. exfalso.
    apply Hprov in Ej; [|lia]. apply Hnext in Ej. unfold lev in Ej. lia. }
  assert (Hroot : bt_get 1 ptm2 = Some r).
  { destruct G2 as (r2 & Ev2 & Ep2).
    - rewrite F2. pose proof (normalize_nonempty idx Hne) as Hnn. fold norm in Hnn. destruct norm; [congruence|discriminate].
    - rewrite Er1 in Ev2. injection Ev2 as <-. assumption. }
  (* every queried position yields a verifying path *)
  destruct (mapM_Ok_Forall2 (fun i => get_path D i ptm2 (bp_depth p))
              (fun i path => forall j, nth_error idx j = Some i ->
                 nth_error path 0 = nth_error (bp_leaves p) j /\ length path = S d /\ verify r i path = Ok tt) idx)
    as (paths & Em & FP).
  { intros i Hi. pose proof (Hr i Hi) as Hir. fold offset in Hir. pose proof (Hu i Hi) as Hi0.
    destruct (In_nth_error _ _ Hi) as (j0 & Ej0).
    assert (Hj0 : (j0 < length (bp_leaves p))%nat) by (rewrite <- HL'; apply nth_error_Some; congruence).
    destruct (nth_error (bp_leaves p) j0) as [x|] eqn:Ex0; [|apply nth_error_None in Ex0; lia].
    set (s := i + offset).
    assert (Es : bt_get s ptm2 = Some x) by (apply G0, F0; eapply PG; eassumption).
    set (e := i - i mod 2).
    assert (He : In e norm) by (apply normalize_In; exists i; auto).
    pose proof (Z.div_mod i 2 ltac:(lia)) as Hdm.
    assert (Hloc : forall c', anc s c' -> loc ptm2 c').
    { intros c' (j & Hj & -> & Hc'). destruct (Z.eq_dec j 0) as [->|Hj0'].
      - change (2 ^ 0) with 1. rewrite Z.div_1_r. apply (loc_sle _ _ _ G0).
        destruct (F1 e He) as [La Lb]. destruct (mod2_cases i) as [Ei2|Ei2].
        + replace s with (offset + e) by (unfold s, e; lia). assumption.
        + replace s with (offset + e + 1) by (unfold s, e; lia). assumption.
      - apply (G1 ((offset + e) / 2)).
        + rewrite F2. apply in_map_iff. eauto.
        + exists (j - 1). split; [lia|]. split; [|assumption].
          rewrite Z.div_div by (try apply pow2_pos; lia).
          replace (2 * 2 ^ (j - 1)) with (2 ^ j) by (replace j with (Z.succ (j - 1)) at 1 by lia; rewrite Z.pow_succ_r by lia; reflexivity).
          assert (Hh : s / 2 = (offset + e) / 2).
          { unfold s, e. pose proof (Z.div_mod offset 2 ltac:(lia)). destruct (mod2_cases i) as [Ei2|Ei2]; rewrite Ei2.
            - f_equal. lia.
            - replace (i + offset) with (1 + (i / 2 + offset / 2) * 2) by lia.
              replace (offset + (i - 1)) with (0 + (i / 2 + offset / 2) * 2) by lia. rewrite !Z.div_add by lia. reflexivity. }
          replace (2 ^ j) with (2 * 2 ^ (j - 1)) by (replace j with (Z.succ (j - 1)) at 2 by lia; rewrite Z.pow_succ_r by lia; reflexivity).
          rewrite <- !Z.div_div by (try apply pow2_pos; lia). rewrite Hh. reflexivity. }
    destruct (path_of_loc ptm2 d s x 64) as (ps & r2 & Ep & Lp & Er2 & Ev).
    { unfold lev, s. rewrite <- Hdep. fold offset. rewrite Z.pow_add_r by lia. change (2 ^ 1) with 2. fold offset. lia. }
    { lia. }
    { assumption. }
    { assumption. }
    rewrite Hroot in Er2. injection Er2 as <-.
    exists (x :: ps). split.
    - unfold Merkle.get_path. destruct (Z.leb_spec 64 (bp_depth p)); [lia|]. fold offset.
      assert (H63 : offset <= 2 ^ 63) by (apply pow2_le_mono; lia).
      rewrite uadd_Ok by (rewrite usz_eq; change (2 ^ 64) with (2 * 2 ^ 63); lia). cbn [bind]. fold s.
      rewrite Es, Ep. reflexivity.
    - intros j Ej. assert (j = j0) by (apply (proj1 (NoDup_nth_error idx) ND); [apply nth_error_Some; congruence|congruence]).
      subst j. rewrite Ex0. split; [reflexivity|]. split; [simpl; lia|].
      assert (Hz : zlen ps = bp_depth p) by (unfold zlen; lia).
      apply verify_of_fold; rewrite Hz; [lia|fold offset; lia|fold offset; fold s; assumption]. }
  exists paths. split; [exact Em|]. split; [symmetry; eapply Forall2_len; eassumption|].
  intros j i path Ei Epth. destruct (Forall2_nth _ _ _ _ _ FP Ei) as (path' & Ep' & HP). rewrite Epth in Ep'. injection Ep' as <-.
  apply HP. assumption.
Qed.

End Bind.

(* ================================================================ batch binding *)
Section BatchBinding.
Variable D : Type.
Variable D_eqb : D -> D -> bool.
Hypothesis D_eqb_spec : forall a b, D_eqb a b = true <-> a = b.
Variable d0 : D.
Variable merge : D -> D -> D.

Notation verify := (verify D D_eqb merge).
Notation get_root := (get_root D merge).
Notation into_paths := (into_paths D merge).
Notation find_collision := (find_collision D D_eqb d0 merge).
Notation is_collision := (is_collision D merge).

Lemma find_coll_sound : forall t1 t2 c, find_coll D D_eqb merge t1 t2 = Some c -> is_collision c.
Proof.
  induction t1 as [|x r1 IH]; intros [|y r2] c E; cbn in E; try discriminate.
  destruct (pair_eqb D D_eqb x y) eqn:Ep; [eauto|].
  destruct (D_eqb (merge (fst x) (snd x)) (merge (fst y) (snd y))) eqn:Em; [|eauto].
  injection E as <-. split; cbn [fst snd].
  - intros Exy. apply (pair_eqb_spec D D_eqb D_eqb_spec) in Exy. congruence.
  - apply D_eqb_spec. assumption.
Qed.

Lemma find_collision_sound i p1 p2 c : find_collision i p1 p2 = Some c -> is_collision c.
Proof. apply find_coll_sound. Qed.

(* first collision found by comparing two lists of paths position by position *)
Fixpoint first_coll (idx : list Z) (ps hs : list (list D)) : option ((D * D) * (D * D)) :=
  match idx, ps, hs with
  | i :: ri, p :: rp, h :: rh =>
    match find_collision i p h with Some c => Some c | None => first_coll ri rp rh end
  | _, _, _ => None
  end.

Lemma first_coll_sound : forall idx ps hs c, first_coll idx ps hs = Some c -> is_collision c.
Proof.
  induction idx as [|i ri IH]; intros [|p rp] [|h rh] c E; cbn [first_coll] in E; try discriminate.
  destruct (find_collision i p h) eqn:Ef; [injection E as <-; eapply find_collision_sound; eassumption|eauto].
Qed.

Lemma first_coll_None root (n : nat) : forall idx ps hs,
  Forall2 (fun i p => verify root i p = Ok tt /\ length p = n) idx ps ->
  Forall2 (fun i h => verify root i h = Ok tt /\ length h = n) idx hs ->
  first_coll idx ps hs = None -> ps = hs.
Proof.
  induction idx as [|i ri IH]; intros ps hs F1 F2 E; inversion F1; inversion F2; subst; [reflexivity|].
  cbn [first_coll] in E. destruct (find_collision i y y0) eqn:Ef; [discriminate|].
  match goal with H1 : verify root i y = Ok tt /\ _, H2 : verify root i y0 = Ok tt /\ _ |- _ =>
    destruct H1 as [V1 L1]; destruct H2 as [V2 L2] end.
  destruct (single_binding_paths D D_eqb D_eqb_spec d0 merge root i y y0 V1 V2 (eq_trans L1 (eq_sym L2))) as [->|(c & Ec & _)].
  - f_equal. eapply IH; eassumption.
  - congruence.
Qed.

Lemma Forall2_of_nth {A B} (R : A -> B -> Prop) : forall (l : list A) (l' : list B), length l = length l' ->
  (forall j a b, nth_error l j = Some a -> nth_error l' j = Some b -> R a b) -> Forall2 R l l'.
Proof.
  induction l as [|a l IH]; intros [|b l'] HL H; try discriminate; constructor.
  - apply (H 0%nat); reflexivity.
  - apply IH; [simpl in HL; lia|]. intros j. apply (H (S j)).
Qed.

(* two batch openings of the same positions, of the same depth, accepted against the same root claim
   the same leaves, or a collision of merge is computed from their decompressed paths *)
Definition find_batch_collision2 (p1 p2 : bproof D) (idx : list Z) : option ((D * D) * (D * D)) :=
  match into_paths p1 idx, into_paths p2 idx with
  | Ok ps1, Ok ps2 => first_coll idx ps1 ps2
  | _, _ => None
  end.

Theorem batch_binding_two : forall (p1 p2 : bproof D) idx r (d : nat),
  (1 <= d)%nat -> bp_depth p1 = Z.of_nat d -> bp_depth p2 = Z.of_nat d -> usize_list idx ->
  get_root p1 idx = Ok r -> get_root p2 idx = Ok r ->
  bp_leaves p1 = bp_leaves p2 \/
  exists c, find_batch_collision2 p1 p2 idx = Some c /\ is_collision c.
Proof.
  intros p1 p2 idx r d Hd H1 H2 Hu G1 G2.
  destruct (into_paths_sound D D_eqb D_eqb_spec d0 merge p1 idx r d Hd H1 Hu G1) as (ps1 & E1 & L1 & S1).
  destruct (into_paths_sound D D_eqb D_eqb_spec d0 merge p2 idx r d Hd H2 Hu G2) as (ps2 & E2 & L2 & S2).
  pose proof (get_root_Ok_guards D merge p1 idx r G1) as (_ & _ & Z1 & _).
  pose proof (get_root_Ok_guards D merge p2 idx r G2) as (_ & _ & Z2 & _).
  unfold find_batch_collision2. rewrite E1, E2.
  destruct (first_coll idx ps1 ps2) as [c|] eqn:Ef.
  - right. exists c. split; [reflexivity|]. eapply first_coll_sound. eassumption.
  - left. apply (first_coll_None r (S d)) in Ef.
    + subst ps2. apply nth_error_ext'. intros j.
      destruct (nth_error idx j) as [i|] eqn:Ei.
      * assert (Hj : (j < length ps1)%nat) by (rewrite L1; apply nth_error_Some; congruence).
        destruct (nth_error ps1 j) as [path|] eqn:Ep; [|apply nth_error_None in Ep; lia].
        destruct (S1 j i path Ei Ep) as (A1 & _). destruct (S2 j i path Ei Ep) as (A2 & _). congruence.
      * apply nth_error_None in Ei. unfold zlen in *.
        rewrite (proj2 (nth_error_None (bp_leaves p1) j)) by lia. rewrite (proj2 (nth_error_None (bp_leaves p2) j)) by lia. reflexivity.
    + apply Forall2_of_nth; [lia|]. intros j i path Ei Ep. destruct (S1 j i path Ei Ep) as (_ & A & B). auto.
    + apply Forall2_of_nth; [lia|]. intros j i path Ei Ep. destruct (S2 j i path Ei Ep) as (_ & A & B). auto.
Qed.

(* ... and against a committed tree *)
Definition find_batch_collision (t : mtree D) (p : bproof D) (idx : list Z) : option ((D * D) * (D * D)) :=
  match into_paths p idx, mapM (mt_prove D t) idx with
  | Ok ps, Ok hs => first_coll idx ps hs
  | _, _ => None
  end.

Theorem batch_binding_tree : forall (t : mtree D) (d : nat) idx (p : bproof D),
  wf_tree D d0 merge d t -> (d <= 62)%nat -> usize_list idx ->
  get_root p idx = Ok (hval D d0 t 1) -> bp_depth p = Z.of_nat d ->
  (forall j i, nth_error idx j = Some i -> nth_error (bp_leaves p) j = nth_error (mt_leaves t) (Z.to_nat i))
  \/ exists c, find_batch_collision t p idx = Some c /\ is_collision c.
Proof.
  intros t d idx p WF Hd Hu G Hdep. pose proof (wf_d _ _ _ _ _ WF) as Hd1.
  destruct (into_paths_sound D D_eqb D_eqb_spec d0 merge p idx _ d Hd1 Hdep Hu G) as (ps & E1 & L1 & S1).
  pose proof (get_root_Ok_guards D merge p idx _ G) as (_ & _ & _ & _ & Hr & _). rewrite Hdep in Hr.
  destruct (mapM_Ok_Forall2 (mt_prove D t)
              (fun i h => verify (hval D d0 t 1) i h = Ok tt /\ length h = S d /\
                          nth_error h 0 = nth_error (mt_leaves t) (Z.to_nat i)) idx) as (hs & E2 & F2).
  { intros i Hi. destruct (single_complete_tree D D_eqb D_eqb_spec d0 merge t d WF Hd i) as (h & Eh & Lh & Zh & Vh).
    { split; [apply Hu; assumption|apply Hr; assumption]. }
    exists h. split; [assumption|]. split; [assumption|]. split; [assumption|].
    destruct h as [|a h]; [discriminate|]. unfold znth in Zh. cbn in Zh. cbn [nth_error]. rewrite Zh.
    symmetry. apply nth_error_nth'. pose proof (wf_leaves _ _ _ _ _ WF) as WL. pose proof (Hr i Hi). pose proof (Hu i Hi).
    unfold zlen in WL. lia. }
  unfold find_batch_collision. rewrite E1, E2.
  destruct (first_coll idx ps hs) as [c|] eqn:Ef.
  - right. exists c. split; [reflexivity|]. eapply first_coll_sound. eassumption.
  - left. apply (first_coll_None (hval D d0 t 1) (S d)) in Ef.
    + subst hs. intros j i Ei.
      assert (Hj : (j < length ps)%nat) by (rewrite L1; apply nth_error_Some; congruence).
      destruct (nth_error ps j) as [path|] eqn:Ep; [|apply nth_error_None in Ep; lia].
      destruct (S1 j i path Ei Ep) as (A1 & _). destruct (Forall2_nth _ _ _ _ _ F2 Ei) as (h & Eh & _ & _ & A2).
      rewrite Ep in Eh. injection Eh as <-. congruence.
    + apply Forall2_of_nth; [lia|]. intros j i path Ei Ep. destruct (S1 j i path Ei Ep) as (_ & A & B). auto.
    + clear - F2. induction F2; constructor; [tauto|assumption].
Qed.

(* the form assumed by Proofs/IntegrityBinding.v (merkle_batch_binding_statement), with the usize guard *)
Theorem batch_binding_verify_batch : forall (t : mtree D) (d : nat) (idx : list Z) (p : bproof D),
  wf_tree D d0 merge d t -> (d <= 62)%nat -> usize_list idx ->
  verify_batch D D_eqb merge (hval D d0 t 1) idx p = Ok tt -> bp_depth p = Z.of_nat d ->
  (forall j i, nth_error idx j = Some i -> nth_error (bp_leaves p) j = nth_error (mt_leaves t) (Z.to_nat i))
  \/ exists c, is_collision c.
Proof.
  intros t d idx p WF Hd Hu V Hdep. unfold Merkle.verify_batch in V. apply bind_Ok in V. destruct V as (r & G & V).
  destruct (D_eqb (hval D d0 t 1) r) eqn:Er; [|discriminate]. apply D_eqb_spec in Er. subst r.
  destruct (batch_binding_tree t d idx p WF Hd Hu G Hdep) as [H|(c & _ & C)]; [left; assumption|right; eauto].
Qed.

End BatchBinding.
