(* Staged proof of the f64 Montgomery reduction generated from
   math/src/field/f64/mod.rs (mont_red_cst, mont_to_int). *)
From VBase Require Import MachInt.
From VGen Require Import F64.
Open Scope Z_scope.

Definition M := 18446744069414584321.
Lemma M_eq : f64_M = M. Proof. reflexivity. Qed.
Lemma M_val : M = 2^64 - 2^32 + 1. Proof. reflexivity. Qed.

Lemma mod_eq a b q r : 0 <= r < b -> a = q * b + r -> a mod b = r.
Proof. intros H ->. rewrite Z.add_comm, Z.mod_add by lia. apply Z.mod_small; lia. Qed.
Lemma div_eq a b q r : 0 <= r < b -> a = q * b + r -> a / b = q.
Proof. intros H ->. symmetry. apply (Z.div_unique _ b q r); lia. Qed.

(* The common tail of mont_red_cst and mont_to_int, on the split low word. *)
Definition red_b (h l : Z) : Z :=
  let e := if 2^32 <=? h + l then 1 else 0 in
  let u := h + l - e * 2^32 in
  u * (2^32 - 1) + l - e.

Lemma red_b_range h l : 0 <= h < 2^32 -> 0 <= l < 2^32 -> 0 <= red_b h l < M.
Proof.
  intros Hh Hl. unfold red_b, M.
  destruct (Z.leb_spec (2^32) (h + l)) as [H|H]; nia.
Qed.

Lemma red_b_cong h l : 0 <= h < 2^32 -> 0 <= l < 2^32 ->
  exists k, h * 2^32 + l + red_b h l * 2^64 = k * M.
Proof.
  intros Hh Hl. unfold red_b, M.
  destruct (Z.leb_spec (2^32) (h + l)) as [H|H].
  - exists ((h + l - 1 * 2^32) + 1 + ((h + l - 1 * 2^32) * (2^32-1) + l - 1)). ring.
  - exists ((h + l - 0 * 2^32) + 0 + ((h + l - 0 * 2^32) * (2^32-1) + l - 0)). ring.
Qed.

Lemma low_word_b xl : 0 <= xl < 2^64 ->
  let '(a, e) := ovf_add 64 xl (shl 64 xl 32) in
  wrap 64 (Z.sub (wrap 64 (Z.sub a (shr a 32))) (b2z e)) = red_b (xl / 2^32) (xl mod 2^32).
Proof.
  intros Hx.
  set (h := xl / 2^32). set (l := xl mod 2^32).
  assert (Hl : 0 <= l < 2^32) by (apply Z.mod_pos_bound; lia).
  assert (Hh : 0 <= h < 2^32).
  { unfold h. split; [apply Z.div_pos; lia|apply Z.div_lt_upper_bound; lia]. }
  assert (Hxl : xl = h * 2^32 + l) by (unfold h, l; pose proof (Z.div_mod xl (2^32)); lia).
  assert (Hs : shl 64 xl 32 = l * 2^32).
  { unfold shl. apply (mod_eq _ _ h); [nia|rewrite Hxl; ring]. }
  unfold ovf_add. rewrite Hs. unfold red_b.
  destruct (Z.leb_spec (2^64) (xl + l * 2^32)) as [He|He];
  destruct (Z.leb_spec (2^32) (h + l)) as [He'|He']; try nia.
  - (* carry *)
    set (u := h + l - 1 * 2^32).
    assert (Hu : 0 <= u < 2^32) by (unfold u; lia).
    assert (Ha : (xl + l * 2^32) mod 2^64 = u * 2^32 + l).
    { apply (mod_eq _ _ 1); [nia| unfold u; rewrite Hxl; ring]. }
    rewrite Ha.
    assert (Hsh : shr (u * 2^32 + l) 32 = u).
    { unfold shr. apply (div_eq _ _ u l); [lia|ring]. }
    rewrite Hsh. unfold wrap, b2z.
    assert (H1 : (u * 2^32 + l - u) mod 2^64 = u * 2^32 + l - u) by (apply Z.mod_small; nia).
    rewrite H1. fold u.
    assert (Hul : u = 0 -> l > 0) by (unfold u; lia).
    replace (u * (2^32 - 1) + l - 1) with (u * 2^32 + l - u - 1) by ring.
    apply Z.mod_small. nia.
  - set (u := h + l - 0 * 2^32).
    assert (Hu : 0 <= u < 2^32) by (unfold u; lia).
    assert (Ha : (xl + l * 2^32) mod 2^64 = u * 2^32 + l).
    { apply (mod_eq _ _ 0); [nia| unfold u; rewrite Hxl; ring]. }
    rewrite Ha.
    assert (Hsh : shr (u * 2^32 + l) 32 = u).
    { unfold shr. apply (div_eq _ _ u l); [lia|ring]. }
    rewrite Hsh. unfold wrap, b2z.
    assert (H1 : (u * 2^32 + l - u) mod 2^64 = u * 2^32 + l - u) by (apply Z.mod_small; nia).
    rewrite H1. fold u.
    replace (u * (2^32 - 1) + l - 0) with (u * 2^32 + l - u - 0) by ring.
    apply Z.mod_small. nia.
Qed.

(* final conditional correction:  r - (2^32-1)*[borrow]  *)
Lemma sub_fix xh b : 0 <= xh < M -> 0 <= b < M ->
  let '(r, c) := ovf_sub 64 xh b in
  wrap 64 (Z.sub r (wrap 32 (Z.sub 0 (b2z c)))) = (xh - b) mod M.
Proof.
  intros Hx Hb. unfold ovf_sub, wrap, b2z, M in *.
  destruct (Z.ltb_spec xh b) as [H|H].
  - assert (E1 : (0 - 1) mod 2^32 = 2^32 - 1) by reflexivity. rewrite E1.
    assert (E2 : (xh - b) mod 2^64 = xh - b + 2^64) by (apply (mod_eq _ _ (-1)); lia).
    rewrite E2.
    assert (E3 : (xh - b) mod 18446744069414584321 = xh - b + 18446744069414584321)
      by (apply (mod_eq _ _ (-1)); lia).
    rewrite E3. replace (xh - b + 18446744069414584321) with (xh - b + 2^64 - (2^32 - 1)) by reflexivity || lia.
    apply Z.mod_small. lia.
  - assert (E1 : (0 - 0) mod 2^32 = 0) by reflexivity. rewrite E1.
    assert (E2 : (xh - b) mod 2^64 = xh - b) by (apply Z.mod_small; lia).
    rewrite E2, Z.sub_0_r, E2. symmetry. apply Z.mod_small. lia.
Qed.

Theorem mont_red_cst_eq x : 0 <= x < 2^64 * M ->
  f64_mont_red_cst x = (x / 2^64 - red_b ((x mod 2^64) / 2^32) ((x mod 2^64) mod 2^32)) mod M.
Proof.
  intros Hx. unfold f64_mont_red_cst.
  set (xl := wrap 64 x).
  assert (Hxl : 0 <= xl < 2^64) by (apply Z.mod_pos_bound; lia).
  assert (Hxh : wrap 64 (shr x 64) = x / 2^64).
  { unfold wrap, shr. apply Z.mod_small. split; [apply Z.div_pos; lia|].
    apply Z.div_lt_upper_bound; unfold M in *; lia. }
  rewrite Hxh.
  pose proof (low_word_b xl Hxl) as Hb.
  destruct (ovf_add 64 xl (shl 64 xl 32)) as [a e]. rewrite Hb.
  pose proof (red_b_range (xl / 2^32) (xl mod 2^32)) as Hr.
  assert (Hh : 0 <= xl / 2^32 < 2^32) by (split; [apply Z.div_pos; lia|apply Z.div_lt_upper_bound; lia]).
  assert (Hl : 0 <= xl mod 2^32 < 2^32) by (apply Z.mod_pos_bound; lia).
  specialize (Hr Hh Hl).
  assert (Hq : 0 <= x / 2^64 < M).
  { split; [apply Z.div_pos; lia|apply Z.div_lt_upper_bound; lia]. }
  pose proof (sub_fix (x / 2^64) _ Hq Hr) as Hs.
  destruct (ovf_sub 64 (x / 2^64) (red_b (xl / 2^32) (xl mod 2^32))) as [r c].
  exact Hs.
Qed.

Theorem mont_red_cst_spec x : 0 <= x < 2^64 * M ->
  0 <= f64_mont_red_cst x < M /\ (f64_mont_red_cst x * 2^64) mod M = x mod M.
Proof.
  intros Hx. rewrite (mont_red_cst_eq x Hx).
  set (xl := x mod 2^64). set (xh := x / 2^64).
  assert (Hxl : 0 <= xl < 2^64) by (apply Z.mod_pos_bound; lia).
  assert (Hh : 0 <= xl / 2^32 < 2^32) by (split; [apply Z.div_pos; lia|apply Z.div_lt_upper_bound; lia]).
  assert (Hl : 0 <= xl mod 2^32 < 2^32) by (apply Z.mod_pos_bound; lia).
  split. { apply Z.mod_pos_bound. reflexivity. }
  destruct (red_b_cong _ _ Hh Hl) as [k Hk].
  set (b := red_b (xl / 2^32) (xl mod 2^32)) in *.
  rewrite Z.mul_mod_idemp_l by (unfold M; lia).
  assert (Hxx : x = xh * 2^64 + xl) by (unfold xh, xl; pose proof (Z.div_mod x (2^64)); lia).
  assert (Hll : xl = xl / 2^32 * 2^32 + xl mod 2^32) by (pose proof (Z.div_mod xl (2^32)); lia).
  assert (E : (xh - b) * 2^64 = x + (- k) * M) by lia.
  rewrite E. apply Z.mod_add. unfold M; lia.
Qed.

Theorem mont_to_int_eq x : 0 <= x < 2^64 ->
  f64_mont_to_int x = f64_mont_red_cst x.
Proof.
  intros Hx. unfold f64_mont_to_int, f64_mont_red_cst.
  assert (E1 : wrap 64 x = x) by (apply Z.mod_small; lia). rewrite E1.
  assert (E2 : wrap 64 (shr x 64) = 0).
  { unfold wrap, shr. rewrite Z.div_small by lia. reflexivity. }
  rewrite E2. reflexivity.
Qed.
