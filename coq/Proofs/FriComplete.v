(* C15 — end-to-end completeness of the MODEL prover and verifier (Model/Fri.v):
   deg f <= bound and a well-formed schedule  ==>  run_verifier (prove f) = Ok, for every non-empty query list
   (duplicates and positions colliding after folding included).
   Composition of: apply_drp row by row (FriCoset.apply_drp_rows), per-layer consistency
   (FriInterp.verifier_row_eq_prover_row), the layer layout (FriIdx.get_query_values_layout), folding over the
   coset (FriCoset.apply_drp_coset_relabelled), the remainder interpolation (FriCoset.interpolate_coset), and
   the acceptance characterisation (FriAccept).  Hypotheses about the externals (named, Section level):
   Merkle completeness (the statement of C10_batch_complete / C10_new_ok for the abstract tree functions) and
   totality of the coin's draw.  stdlib style. *)
From Coq Require Import List Arith Bool Lia Ring Field.
From VBase Require Import FieldOps.
From VModel Require Import Fri.
From VProofs Require Import FriIdx FriField FriInterp FriRoots FriCoset FriAccept.
Import ListNotations.

Local Arguments mkVCh {F D MN}.
Local Arguments vc_commitments {F D MN}.
Local Arguments vc_proofs {F D MN}.
Local Arguments vc_queries {F D MN}.
Local Arguments vc_remainder {F D MN}.
Local Arguments vc_partitions {F D MN}.
Local Arguments mkVS {F D MN}.
Local Arguments vs_gen {F D MN}.
Local Arguments vs_size {F D MN}.
Local Arguments vs_mdp1 {F D MN}.
Local Arguments vs_positions {F D MN}.
Local Arguments vs_evals {F D MN}.
Local Arguments vs_chan {F D MN}.
Local Arguments mkVerifier {F D}.
Local Arguments v_max_poly_degree {F D}.
Local Arguments v_domain_size {F D}.
Local Arguments v_domain_generator {F D}.
Local Arguments v_commitments {F D}.
Local Arguments v_alphas {F D}.
Local Arguments v_options {F D}.
Local Arguments v_partitions {F D}.
Local Arguments folding_roots_of {F} O {D}.

Section Complete.
Context {F : Type} (O : FOps F) (L : FLaws O).
Add Ring FringK : (FLaws_ring_theory O L).
Add Field FfieldK : (FLaws_field_theory O L).

Local Notation zero := (fzero O).
Local Notation one := (fone O).
Local Infix "+f" := (fadd O) (at level 50, left associativity).
Local Infix "*f" := (fmul O) (at level 40, left associativity).
Local Notation "-f x" := (fneg O x) (at level 35, right associativity).
Local Notation peval := (peval O).
Local Notation fpow := (fpow O).

(* field parameters *)
Variable rou : nat -> F.
Variable K : nat.
Hypothesis K_pos : 1 <= K.
Hypothesis rou_sq : forall k, k < K -> rou (S k) *f rou (S k) = rou k.
Hypothesis rou_1 : rou 1 = -f one.
Hypothesis two_nz : one +f one <> zero.
Variable gen_offset : F.
Hypothesis offset_nz : gen_offset <> zero.
Variable dbg : bool.

(* externals *)
Variable D : Type.
Variable D_eqb : D -> D -> bool.
Hypothesis D_eqb_spec : forall a b, D_eqb a b = true <-> a = b.
Variable hash_elements : list F -> D.
Variable MT MN : Type.
Variable mt_new : list D -> option MT.
Variable mt_root : MT -> D.
Variable mt_prove_batch : MT -> list nat -> option MN.
Variable mt_verify_batch : D -> list nat -> list D -> MN -> nat -> auth_res.
Variable CS : Type.
Variable cs_reseed : CS -> D -> CS.
Variable cs_draw : CS -> CS * draw_res F.

(* Merkle completeness: C10_new_ok and C10_batch_complete, for the abstract functions *)
Hypothesis merkle_new_ok : forall leaves d, 1 <= d -> length leaves = 2 ^ d -> exists t, mt_new leaves = Some t.
Hypothesis merkle_batch_complete : forall leaves t d indexes dflt,
  mt_new leaves = Some t -> length leaves = 2 ^ d -> 1 <= d <= 62 ->
  indexes <> [] -> length indexes <= 255 -> NoDup indexes -> (forall i, In i indexes -> i < length leaves) ->
  exists nodes, mt_prove_batch t indexes = Some nodes /\
    mt_verify_batch (mt_root t) indexes (map (fun i => nth i leaves dflt) indexes) nodes d = AuthOk.
(* the public coin always yields an element (DefaultRandomCoin fails after 1000 rejected candidates) *)
Hypothesis draw_total : forall c, exists c' a, cs_draw c = (c', DrawOk a).

(* schedule parameters: folding 2^f, blowup 2^b *)
Variable f b remmax : nat.
Hypothesis f_pos : 1 <= f.
Hypothesis f_supported : supported_folding (2 ^ f) = true.
Local Notation N := (2 ^ f).
Local Notation opts := (mkOpts (2 ^ b) (2 ^ f) remmax).
Local Notation winv := (fpow (rou f) (2 ^ f - 1)).

Lemma Nnz : N <> 0. Proof. apply Nat.pow_nonzero; lia. Qed.

(* one layer of size 2^a': rows, next layer *)
Definition rowsE (a' : nat) (E : list F) : list (list F) :=
  map (row_of zero N (2 ^ (a' - f)) E) (seq 0 (2 ^ (a' - f))).
Definition nextE (a' : nat) (E : list F) (alpha : F) : list F :=
  map (fun q => drp_row O N winv (finv O (fnat O N)) (finv O (gen_offset *f fpow (rou a') q)) alpha
                 (row_of zero N (2 ^ (a' - f)) E q)) (seq 0 (2 ^ (a' - f))).

Lemma pow_split a' : f <= a' -> 2 ^ a' = 2 ^ (a' - f) * N.
Proof. intros H. rewrite <- Nat.pow_add_r. f_equal. lia. Qed.

Lemma nextE_length a' E alpha : length (nextE a' E alpha) = 2 ^ (a' - f).
Proof. unfold nextE. now rewrite map_length, seq_length. Qed.

Lemma rowsE_length a' E : length (rowsE a' E) = 2 ^ (a' - f).
Proof. unfold rowsE. now rewrite map_length, seq_length. Qed.

Lemma rowsE_rows a' E r : In r (rowsE a' E) -> length r = N.
Proof. unfold rowsE. intros H. apply in_map_iff in H. destruct H as [q [<- _]]. apply row_of_length. Qed.

Lemma transpose_ok a' E : f <= a' -> length E = 2 ^ a' -> transpose_slice zero N E = Ok (rowsE a' E).
Proof. intros Hf Hl. apply transpose_slice_rows; [apply Nnz | now rewrite Hl, pow_split]. Qed.

Lemma apply_drp_ok a' E alpha : f <= a' <= K ->
  apply_drp O rou K N (rowsE a' E) gen_offset alpha = Ok (nextE a' E alpha).
Proof.
  intros H. unfold rowsE, nextE.
  pose proof (apply_drp_rows O L rou K K_pos rou_sq rou_1 (a' - f) f f_pos ltac:(lia) E gen_offset alpha offset_nz) as A.
  replace (a' - f + f) with a' in A by lia. exact A.
Qed.

(* ---------------------------------------------------------------- the honest transcript *)
Record lrec : Type := mkL { l_tree : MT; l_E : list F; l_alpha : F; l_nodes : MN; l_pos : list nat; l_d : nat }.

Inductive chain : nat -> list F -> CS -> list nat -> list lrec -> list F -> CS -> list nat -> nat -> Prop :=
| ch_nil : forall a' E coin Pos, chain a' E coin Pos [] E coin Pos a'
| ch_cons : forall a' E coin Pos t alpha nodes coin' ls El cl Pl al,
    mt_new (map hash_elements (rowsE a' E)) = Some t ->
    cs_draw (cs_reseed coin (mt_root t)) = (coin', DrawOk alpha) ->
    mt_prove_batch t (fold_positions_core Pos (2 ^ (a' - f))) = Some nodes ->
    mt_verify_batch (mt_root t) (fold_positions_core Pos (2 ^ (a' - f)))
      (map hash_elements (map (row_of zero N (2 ^ (a' - f)) E) (fold_positions_core Pos (2 ^ (a' - f))))) nodes (a' - f) = AuthOk ->
    chain (a' - f) (nextE a' E alpha) coin' (fold_positions_core Pos (2 ^ (a' - f))) ls El cl Pl al ->
    chain a' E coin Pos (mkL t E alpha nodes (fold_positions_core Pos (2 ^ (a' - f))) (a' - f) :: ls) El cl Pl al.

(* properties of a position list that are preserved by folding *)
Definition pos_ok (a' : nat) (Pos : list nat) : Prop :=
  Pos <> [] /\ length Pos <= 255 /\ forall p, In p Pos -> p < 2 ^ a'.

Lemma filter_length_le {A} (g : A -> bool) l : length (filter g l) <= length l.
Proof. induction l as [|x l IH]; cbn; [lia | destruct (g x); cbn; lia]. Qed.

Lemma dedup_length_le l : length (dedup l) <= length l.
Proof. induction l as [|x l IH]; cbn; [lia|]. pose proof (filter_length_le (fun y => negb (y =? x)) (dedup l)). lia. Qed.

Lemma folded_ok a' Pos : f < a' -> pos_ok a' Pos ->
  let fd := fold_positions_core Pos (2 ^ (a' - f)) in
  pos_ok (a' - f) fd /\ NoDup fd /\ fold_positions Pos (2 ^ a') N = Ok fd.
Proof.
  intros Hf [Hne [Hlen Hin]] fd.
  assert (Hr : 2 ^ (a' - f) <> 0) by (apply Nat.pow_nonzero; lia).
  assert (Hdiv : 2 ^ a' / N = 2 ^ (a' - f)) by (rewrite (pow_split a') by lia; apply Nat.div_mul, Nnz).
  destruct (fold_positions_spec Pos (2 ^ a') N Nnz) as [l [Hl [El [Hnd [Hrange Hmem]]]]]; [left; now rewrite Hdiv|].
  rewrite Hdiv in *. assert (Efd : fd = l) by (unfold fd; rewrite fold_positions_core_dedup; now rewrite El).
  rewrite Efd. repeat split; auto.
  - destruct Pos as [|p Pos]; [contradiction|]. rewrite El. cbn. discriminate.
  - rewrite El. pose proof (dedup_length_le (map (fun p => p mod 2 ^ (a' - f)) Pos)). rewrite map_length in *. lia.
Qed.

Lemma nth_map_hash_rows a' E q dflt : q < 2 ^ (a' - f) ->
  nth q (map hash_elements (rowsE a' E)) dflt = hash_elements (row_of zero N (2 ^ (a' - f)) E q).
Proof.
  intros Hq. unfold rowsE. rewrite map_map.
  rewrite (nth_indep _ dflt (hash_elements (row_of zero N (2 ^ (a' - f)) E 0))) by now rewrite map_length, seq_length.
  now rewrite (map_nth (fun q => hash_elements (row_of zero N (2 ^ (a' - f)) E q)) (seq 0 (2 ^ (a' - f))) 0 q), seq_nth.
Qed.

(* the chain exists for every well-formed schedule *)
Lemma chain_exists : forall k a' E coin Pos, k * f < a' -> a' <= 62 -> length E = 2 ^ a' -> pos_ok a' Pos ->
  exists ls El cl Pl, chain a' E coin Pos ls El cl Pl (a' - k * f) /\ length ls = k /\
                      length El = 2 ^ (a' - k * f) /\ pos_ok (a' - k * f) Pl.
Proof.
  induction k as [|k IH]; intros a' E coin Pos Hk Ha HE HP.
  - exists [], E, coin, Pos. cbn [Nat.mul]. rewrite Nat.sub_0_r. repeat split; auto using ch_nil; apply HP.
  - assert (Hf : f < a') by (cbn in Hk; nia).
    destruct (folded_ok a' Pos Hf HP) as [HP' [Hnd _]].
    set (fd := fold_positions_core Pos (2 ^ (a' - f))) in *.
    destruct (merkle_new_ok (map hash_elements (rowsE a' E)) (a' - f)) as [t Ht]; [lia | now rewrite map_length, rowsE_length|].
    destruct (draw_total (cs_reseed coin (mt_root t))) as [coin' [alpha Hd]].
    destruct HP' as [Hne' [Hlen' Hin']].
    destruct (merkle_batch_complete _ t (a' - f) fd (hash_elements []) Ht) as [nodes [Hpb Hvb]];
      [now rewrite map_length, rowsE_length | lia | assumption | assumption | assumption
      | intros i Hi; rewrite map_length, rowsE_length; now apply Hin' |].
    assert (Eleaves : map (fun i => nth i (map hash_elements (rowsE a' E)) (hash_elements [])) fd
                      = map hash_elements (map (row_of zero N (2 ^ (a' - f)) E) fd)).
    { rewrite map_map. apply map_ext_in. intros q Hq. apply nth_map_hash_rows. now apply Hin'. }
    rewrite Eleaves in Hvb.
    destruct (IH (a' - f) (nextE a' E alpha) coin' fd) as [ls [El [cl [Pl [Hc [Hls [HEl HPl]]]]]]];
      [cbn in Hk; nia | lia | apply nextE_length | repeat split; assumption |].
    exists (mkL t E alpha nodes fd (a' - f) :: ls), El, cl, Pl.
    replace (a' - S k * f) with (a' - f - k * f) by (cbn; lia).
    repeat split; auto; try apply HPl.
    + eapply ch_cons; eassumption.
    + cbn. now rewrite Hls.
Qed.

(* ---------------------------------------------------------------- prover: commit phase *)
Local Notation prover := (@prover F MT).
Local Notation pchannel := (pchannel D CS).
Local Notation build_layers_loop := (build_layers_loop O rou K gen_offset D hash_elements MT mt_new mt_root CS cs_reseed cs_draw).

Definition layers_of (ls : list lrec) : list (@fri_layer F MT) :=
  map (fun l => mkLayer MT (l_tree l) (concat (map (row_of zero N (length (l_E l) / N) (l_E l)) (seq 0 (length (l_E l) / N))))) ls.
Definition roots_of (ls : list lrec) : list D := map (fun l => mt_root (l_tree l)) ls.
Definition alphas_of (ls : list lrec) : list F := map l_alpha ls.

Lemma chain_prover : forall a' E coin Pos ls El cl Pl al, chain a' E coin Pos ls El cl Pl al ->
  length ls * f < a' + 1 -> a' <= K -> length E = 2 ^ a' -> (ls <> [] -> f <= a') ->
  forall (p : prover) comm,
  build_layers_loop (length ls) N p (mkPCh D CS coin comm) E
  = Ok (mkProver MT (pr_options MT p) (pr_layers MT p ++ layers_of ls) (pr_remainder MT p),
        mkPCh D CS cl (comm ++ roots_of ls), El).
Proof.
  induction 1 as [a' E coin Pos | a' E coin Pos t alpha nodes coin' ls El cl Pl al Ht Hd Hpb Hvb Hc IH];
    intros Hk Ha HE Hfa p comm.
  - cbn. rewrite !app_nil_r. destruct p; reflexivity.
  - assert (Hf : f <= a') by (apply Hfa; discriminate).
    cbn [length Fri.build_layers_loop]. unfold build_layer.
    rewrite (transpose_ok a' E Hf HE). cbn [bind]. rewrite Ht. cbn [of_option bind].
    unfold pc_draw_alpha, pc_commit. cbn [pc_coin pc_commitments]. rewrite Hd. cbn [bind].
    rewrite apply_drp_ok by lia. cbn [bind].
    rewrite IH; [| cbn in Hk; nia | lia | apply nextE_length | intros Hne; destruct ls; [contradiction|]; cbn in Hk; nia].
    cbn [pr_options pr_layers pr_remainder]. rewrite <- !app_assoc.
    cbn [app layers_of roots_of map l_tree l_E]. unfold rowsE.
    rewrite HE, (pow_split a' Hf), Nat.div_mul by apply Nnz. reflexivity.
Qed.

(* ---------------------------------------------------------------- prover: query phase *)
Definition opened_rows (l : lrec) : list (list F) := map (row_of zero N (2 ^ l_d l) (l_E l)) (l_pos l).
Definition pls_of (ls : list lrec) : list (@proof_layer F MN) :=
  map (fun l => mkPL (concat (opened_rows l)) (l_nodes l)) ls.

Lemma opened_rows_len l r : In r (opened_rows l) -> length r = N.
Proof. unfold opened_rows. intros H. apply in_map_iff in H. destruct H as [q [<- _]]. apply row_of_length. Qed.

Lemma chain_query : forall a' E coin Pos ls El cl Pl al, chain a' E coin Pos ls El cl Pl al ->
  length ls * f < a' -> length E = 2 ^ a' -> pos_ok a' Pos ->
  query_layers MT MN mt_prove_batch N (layers_of ls) Pos (2 ^ a') = Ok (pls_of ls).
Proof.
  induction 1 as [a' E coin Pos | a' E coin Pos t alpha nodes coin' ls El cl Pl al Ht Hd Hpb Hvb Hc IH];
    intros Hk HE HP; [reflexivity|].
  assert (Hf : f < a') by (cbn in Hk; nia).
  destruct (folded_ok a' Pos Hf HP) as [HP' [Hnd Hfold]].
  set (fd := fold_positions_core Pos (2 ^ (a' - f))) in *.
  unfold layers_of; cbn [map]; fold (layers_of ls); cbn [Fri.query_layers l_tree l_E]. rewrite Hfold. cbn [bind].
  unfold query_layer. cbn [fl_tree fl_evals]. rewrite Hpb. cbn [of_option bind].
  assert (Er : length E / N = 2 ^ (a' - f)) by (rewrite HE, (pow_split a') by lia; apply Nat.div_mul, Nnz).
  rewrite Er. fold (rowsE a' E).
  rewrite (group_slice_concat (rowsE a' E) N Nnz (rowsE_rows a' E)). cbn [bind].
  rewrite (mapM_idx_map (rowsE a' E) (row_of zero N (2 ^ (a' - f)) E) fd).
  2:{ intros q Hq. destruct HP' as [_ [_ Hin]]. specialize (Hin q Hq). unfold rowsE.
      rewrite nth_error_map, (nth_error_nth' (seq 0 (2 ^ (a' - f))) 0) by now rewrite seq_length.
      now rewrite seq_nth. }
  cbn [bind]. destruct HP' as [Hne [Hlen Hin]].
  assert (Hnil : is_nil (map (row_of zero N (2 ^ (a' - f)) E) fd) = false) by (destruct fd; [contradiction | reflexivity]).
  rewrite Hnil.
  assert (Ed : 2 ^ a' / N = 2 ^ (a' - f)) by (rewrite (pow_split a') by lia; apply Nat.div_mul, Nnz).
  rewrite Ed, IH; [| cbn in Hk; nia | apply nextE_length | repeat split; assumption].
  cbn [bind]. reflexivity.
Qed.

(* ---------------------------------------------------------------- verifier channel: parsing *)
Definition qs_of (ls : list lrec) : list (list F) := map (fun l => concat (opened_rows l)) ls.
Definition mps_of (ls : list lrec) : list (list D * MN * nat) :=
  map (fun l => (map hash_elements (opened_rows l), l_nodes l, l_d l)) ls.

Lemma chain_parse : forall a' E coin Pos ls El cl Pl al, chain a' E coin Pos ls El cl Pl al ->
  length ls * f < a' -> pos_ok a' Pos ->
  parse_layers D hash_elements MN N (2 ^ a') (pls_of ls) = Some (Some (qs_of ls, mps_of ls)).
Proof.
  induction 1 as [a' E coin Pos | a' E coin Pos t alpha nodes coin' ls El cl Pl al Ht Hd Hpb Hvb Hc IH];
    intros Hk HP; [reflexivity|].
  assert (Hf : f < a') by (cbn in Hk; nia).
  destruct (folded_ok a' Pos Hf HP) as [HP' [Hnd Hfold]].
  set (fd := fold_positions_core Pos (2 ^ (a' - f))) in *.
  unfold pls_of; cbn [map]; fold (pls_of ls); cbn [Fri.parse_layers].
  assert (Hlt : (2 ^ a' <? N) = false) by (apply Nat.ltb_ge, Nat.pow_le_mono_r; lia). rewrite Hlt.
  assert (Ed : 2 ^ a' / N = 2 ^ (a' - f)) by (rewrite (pow_split a') by lia; apply Nat.div_mul, Nnz).
  rewrite Ed. unfold parse_layer. cbn [pl_values pl_nodes].
  set (l0 := mkL t E alpha nodes fd (a' - f)).
  pose proof (concat_length_rows (opened_rows l0) N (opened_rows_len l0)) as Hcl.
  assert (Hol : length (opened_rows l0) = length fd) by (unfold opened_rows; cbn; apply map_length).
  destruct HP' as [Hne [Hlen Hin]].
  assert (Hfd : length fd <> 0) by (destruct fd; [contradiction | discriminate]).
  pose proof Nnz as HN.
  destruct (N =? 0) eqn:E0; [apply Nat.eqb_eq in E0; contradiction|].
  rewrite Hcl, Nat.mod_mul, Nat.div_mul by assumption. cbn [Nat.eqb negb].
  rewrite Hol. destruct (length fd =? 0) eqn:E1; [apply Nat.eqb_eq in E1; contradiction|].
  rewrite <- Hol, <- Hcl. rewrite (chunks_concat (opened_rows l0) N _ HN (opened_rows_len l0) (le_n _)).
  assert (Hr : 2 ^ (a' - f) <> 0) by (apply Nat.pow_nonzero; lia).
  destruct (2 ^ (a' - f) =? 0) eqn:E2; [apply Nat.eqb_eq in E2; contradiction|].
  rewrite (FriCoset.log2_pow2). destruct (a' - f =? 0) eqn:E3; [apply Nat.eqb_eq in E3; lia|].
  rewrite map_length, Hol. destruct (255 <? length fd) eqn:E4; [apply Nat.ltb_lt in E4; lia|].
  rewrite IH; [| cbn in Hk; nia | repeat split; assumption].
  reflexivity.
Qed.

(* ---------------------------------------------------------------- verifier: the challenges *)
Lemma pow2_mod_N e : f <= e -> 2 ^ e mod N = 0.
Proof. intros H. rewrite (pow_split e H). apply Nat.mod_mul, Nnz. Qed.
Lemma pow2_div_N e : f <= e -> 2 ^ e / N = 2 ^ (e - f).
Proof. intros H. rewrite (pow_split e H). apply Nat.div_mul, Nnz. Qed.

Lemma chain_alphas : forall a' E coin Pos ls El cl Pl al, chain a' E coin Pos ls El cl Pl al ->
  forall tail depth last e, length ls * f <= e ->
  draw_alphas D CS cs_reseed cs_draw coin (roots_of ls ++ tail) depth last (2 ^ e) N
  = bind (draw_alphas D CS cs_reseed cs_draw cl tail (depth + length ls) last (2 ^ (e - length ls * f)) N)
         (fun r => Ok (fst r, alphas_of ls ++ snd r)).
Proof.
  induction 1 as [a' E coin Pos | a' E coin Pos t alpha nodes coin' ls El cl Pl al Ht Hd Hpb Hvb Hc IH];
    intros tail depth last e He.
  - cbn [length roots_of alphas_of map app Nat.mul]. rewrite Nat.add_0_r, Nat.sub_0_r.
    destruct (draw_alphas D CS cs_reseed cs_draw coin tail depth last (2 ^ e) N) as [[c al0]| |]; reflexivity.
  - unfold roots_of, alphas_of; cbn [map app]; fold (roots_of ls); fold (alphas_of ls).
    cbn [Fri.draw_alphas l_tree l_alpha]. rewrite Hd.
    pose proof Nnz as HN. destruct (N =? 0) eqn:E0; [apply Nat.eqb_eq in E0; contradiction|].
    assert (Hfe : f <= e) by (cbn in He; nia).
    rewrite pow2_mod_N by assumption. cbn [Nat.eqb negb]. rewrite andb_false_r.
    rewrite pow2_div_N by assumption. rewrite IH by (cbn in He; nia).
    cbn [length]. replace (depth + S (length ls)) with (S depth + length ls) by lia.
    replace (e - f - length ls * f) with (e - S (length ls) * f) by (cbn; lia).
    destruct (draw_alphas D CS cs_reseed cs_draw cl tail _ last _ N) as [[c al0]| |]; reflexivity.
Qed.

(* ---------------------------------------------------------------- verifier: the layer loop *)
Definition evals_at (E : list F) (Pos : list nat) : list F := map (fun p => nth p E zero) Pos.

Lemma nextE_nth a' E alpha q : q < 2 ^ (a' - f) ->
  nth q (nextE a' E alpha) zero
  = drp_row O N winv (finv O (fnat O N)) (finv O (gen_offset *f fpow (rou a') q)) alpha (row_of zero N (2 ^ (a' - f)) E q).
Proof.
  intros Hq. unfold nextE.
  set (g := fun q => drp_row O N winv (finv O (fnat O N)) (finv O (gen_offset *f fpow (rou a') q)) alpha (row_of zero N (2 ^ (a' - f)) E q)).
  rewrite (nth_indep _ zero (g 0)) by now rewrite map_length, seq_length.
  now rewrite (map_nth g (seq 0 (2 ^ (a' - f))) 0 q), seq_nth.
Qed.

Lemma layer_values_agree a' E alpha fd : f < a' <= K -> (forall q, In q fd -> q < 2 ^ (a' - f)) ->
  map2 (fun x r => interp_eval O x r alpha)
       (map (row_xs O gen_offset (map (fun j => fpow (rou f) j) (seq 0 N)) (rou a')) fd)
       (map (row_of zero N (2 ^ (a' - f)) E) fd)
  = evals_at (nextE a' E alpha) fd.
Proof.
  intros Ha Hin. rewrite map2_map_same. unfold evals_at. apply map_ext_in. intros q Hq.
  rewrite nextE_nth by now apply Hin.
  assert (Hg : rou a' <> zero) by (apply (rou_nonzero O L rou K K_pos rou_sq rou_1); lia).
  assert (Hx : gen_offset *f fpow (rou a') q <> zero).
  { intros Hz. apply (fmul_integral O L) in Hz. destruct Hz; [contradiction|]. now apply (fpow_nonzero O L (rou a') q Hg). }
  rewrite <- (verifier_row_eq_prover_row O L N (rou f) winv).
  - f_equal. unfold row_xs, row_nodes. rewrite map_map. apply map_ext. intros j. rewrite (fexp_spec O L). ring.
  - apply (rou_order O L rou K K_pos rou_sq rou_1). lia.
  - apply (rou_prim O L rou K K_pos rou_sq rou_1 two_nz). lia.
  - apply (rou_inv O L rou K K_pos rou_sq rou_1). lia.
  - apply (fnat_pow2_nonzero O L K K_pos two_nz).
  - assumption.
  - apply row_of_length.
Qed.

Local Notation layers_loop := (layers_loop O gen_offset dbg D MN mt_verify_batch).

Lemma chain_verify : forall a' E coin Pos ls El cl Pl al, chain a' E coin Pos ls El cl Pl al ->
  forall (v : @verifier F D) pre_c tail_c pre_a tail_a ptail qtail rem e cmts,
  length ls * f < a' -> a' <= K -> length ls * f <= e -> length E = 2 ^ a' -> pos_ok a' Pos ->
  v_commitments v = pre_c ++ roots_of ls ++ tail_c -> v_alphas v = pre_a ++ alphas_of ls ++ tail_a ->
  length pre_a = length pre_c -> v_options v = opts -> v_partitions v = 1 ->
  layers_loop (length ls) N v (map (fun j => fpow (rou f) j) (seq 0 N)) (length pre_c)
    (mkVS (rou a') (2 ^ a') (2 ^ e) Pos (evals_at E Pos) (mkVCh cmts (mps_of ls ++ ptail) (qs_of ls ++ qtail) rem 1))
  = Ok (mkVS (rou al) (2 ^ al) (2 ^ (e - length ls * f)) Pl (evals_at El Pl) (mkVCh cmts ptail qtail rem 1)).
Proof.
  induction 1 as [a' E coin Pos | a' E coin Pos t alpha nodes coin' ls El cl Pl al Ht Hd Hpb Hvb Hc IH];
    intros v pre_c tail_c pre_a tail_a ptail qtail rem e cmts Hk Ha He HE HP Hvc Hva Hpre Hvo Hvp.
  - cbn. now rewrite Nat.sub_0_r.
  - assert (Hf : f < a') by (cbn in Hk; nia).
    destruct (folded_ok a' Pos Hf HP) as [HP' [Hnd Hfold]].
    set (fd := fold_positions_core Pos (2 ^ (a' - f))) in *.
    cbn [length Fri.layers_loop].
    set (l0 := mkL t E alpha nodes fd (a' - f)).
    set (s1 := mkVS (rou (a' - f)) (2 ^ (a' - f)) (2 ^ (e - f)) fd (evals_at (nextE a' E alpha) fd)
                    (mkVCh cmts (mps_of ls ++ ptail) (qs_of ls ++ qtail) rem 1)).
    assert (Hstep : Fri.layer_step O gen_offset dbg D MN mt_verify_batch N v (map (fun j => fpow (rou f) j) (seq 0 N)) (length pre_c)
              (mkVS (rou a') (2 ^ a') (2 ^ e) Pos (evals_at E Pos)
                 (mkVCh cmts (mps_of (l0 :: ls) ++ ptail) (qs_of (l0 :: ls) ++ qtail) rem 1)) = Ok s1).
    { apply (layer_step_accepts O L gen_offset dbg D MN mt_verify_batch).
      destruct HP as [_ [_ HinP]]. destruct HP' as [Hne' [Hlen' Hin']].
      exists fd, fd, (mt_root t), (map hash_elements (opened_rows l0)), nodes, (a' - f), (concat (opened_rows l0)),
             (opened_rows l0), alpha.
      cbn [vs_positions vs_size vs_chan vs_evals vs_mdp1 vs_gen vc_proofs vc_queries].
      rewrite Hvo, Hvp. cbn [fo_folding].
      split; [exact Hfold|]. split; [reflexivity|].
      split; [rewrite Hvc, nth_error_app2, Nat.sub_diag by lia; reflexivity|].
      split; [reflexivity|]. split; [exact Hvb|]. split; [reflexivity|].
      split; [apply (group_slice_concat _ N Nnz (opened_rows_len l0))|].
      split.
      { unfold opened_rows, l0. cbn [l_d l_E l_pos]. unfold fd.
        rewrite (pow_split a') by lia. apply get_query_values_layout; [apply Nnz | apply Nat.pow_nonzero; lia |].
        intros p Hp. rewrite <- (pow_split a') by lia. now apply HinP. }
      split; [unfold opened_rows, l0; cbn [l_pos]; rewrite map_length; destruct dbg; lia|].
      split; [rewrite Hva, nth_error_app2, Hpre, Nat.sub_diag by lia; reflexivity|].
      split; [apply pow2_mod_N; cbn in He; nia|].
      unfold s1. f_equal.
      - rewrite (fexp_spec O L). pose proof (rou_pow2 O L rou K K_pos rou_sq f (a' - f) ltac:(lia)) as R.
        replace (f + (a' - f)) with a' in R by lia. now rewrite R.
      - symmetry. apply pow2_div_N. lia.
      - symmetry. apply pow2_div_N. cbn in He; nia.
      - symmetry. unfold opened_rows, l0. cbn [l_d l_E l_pos]. apply layer_values_agree; [lia | assumption]. }
    rewrite Hstep. cbn [bind]. unfold s1.
    replace (S (length pre_c)) with (length (pre_c ++ [mt_root t])) by (rewrite app_length; cbn; lia).
    rewrite (IH v (pre_c ++ [mt_root t]) tail_c (pre_a ++ [alpha]) tail_a ptail qtail rem (e - f) cmts).
    + replace (e - f - length ls * f) with (e - length (l0 :: ls) * f) by (cbn [length Nat.mul]; lia). reflexivity.
    + cbn in Hk; nia.
    + lia.
    + cbn in He; nia.
    + apply nextE_length.
    + destruct HP' as [A [B C]]. repeat split; assumption.
    + rewrite Hvc, <- app_assoc. reflexivity.
    + rewrite Hva, <- app_assoc. reflexivity.
    + rewrite !app_length, Hpre. reflexivity.
    + assumption.
    + assumption.
Qed.

(* ---------------------------------------------------------------- the polynomial invariant *)
Lemma chain_poly : forall a' E coin Pos ls El cl Pl al, chain a' E coin Pos ls El cl Pl al ->
  forall P m, length ls * f < a' -> a' <= K -> E = coset_evals O P gen_offset (rou a') (2 ^ a') ->
  length P = m * N ^ length ls ->
  exists Pk, El = coset_evals O Pk gen_offset (rou al) (2 ^ al) /\ length Pk = m.
Proof.
  induction 1 as [a' E coin Pos | a' E coin Pos t alpha nodes coin' ls El cl Pl al Ht Hd Hpb Hvb Hc IH];
    intros P m Hk Ha HE HP.
  - exists P. split; [assumption|]. cbn in HP. lia.
  - assert (Hf : f < a') by (cbn in Hk; nia).
    apply (IH (fold_next O f alpha gen_offset P) m); [cbn in Hk; nia | lia | |].
    + pose proof (apply_drp_ok a' E alpha ltac:(lia)) as A1.
      assert (HP' : length P = m * N ^ length ls * N) by (rewrite HP; cbn [length Nat.pow]; lia).
      pose proof (apply_drp_coset_relabelled O L rou K K_pos rou_sq rou_1 two_nz (a' - f) f f_pos ltac:(lia)
                    P (m * N ^ length ls) gen_offset alpha offset_nz HP') as A2.
      cbv zeta in A2. replace (a' - f + f) with a' in A2 by lia. rewrite <- (pow_split a') in A2 by lia.
      rewrite <- HE in A2. unfold rowsE in A1. rewrite A1 in A2. injection A2 as A2. exact A2.
    + apply (fold_next_length O K K_pos (a' - f) f f_pos ltac:(lia)). rewrite HP. cbn [length Nat.pow]. lia.
Qed.

Lemma next_pow2_pow2 e : next_pow2 (2 ^ e) = 2 ^ e.
Proof.
  unfold next_pow2. destruct e as [|e]; [reflexivity|].
  assert (H : 2 <= 2 ^ S e) by (change 2 with (2 ^ 1) at 1; apply Nat.pow_le_mono_r; lia).
  destruct (2 ^ S e <=? 1) eqn:E; [apply Nat.leb_le in E; lia|].
  replace (2 ^ S e - 1) with (Nat.pred (2 ^ S e)) by lia. rewrite Nat.log2_pred_pow2 by lia. reflexivity.
Qed.

(* ---------------------------------------------------------------- end to end *)
Local Notation prove := (prove O rou K gen_offset D hash_elements MT MN mt_new mt_root mt_prove_batch CS cs_reseed cs_draw).
Local Notation run_verifier := (run_verifier O rou K gen_offset dbg D D_eqb hash_elements MN mt_verify_batch CS cs_reseed cs_draw).

Lemma firstn_app_exact {A} (l1 l2 : list A) : firstn (length l1) (l1 ++ l2) = l1.
Proof. rewrite firstn_app, Nat.sub_diag, firstn_all. cbn. apply app_nil_r. Qed.

Lemma query_from_chain : forall a' E coin Pos ls El cl Pl al, chain a' E coin Pos ls El cl Pl al ->
  length ls * f < a' -> length E = 2 ^ a' -> pos_ok a' Pos ->
  match layers_of ls with
  | [] => Ok []
  | l0 :: _ => if negb (supported_folding N) then Panic
               else query_layers MT MN mt_prove_batch N (layers_of ls) Pos (length (fl_evals MT l0))
  end = Ok (pls_of ls).
Proof.
  intros a' E coin Pos ls El cl Pl al Hc Hk HE HP.
  pose proof (chain_query _ _ _ _ _ _ _ _ _ Hc Hk HE HP) as Q.
  destruct Hc as [a' E coin Pos | a' E coin Pos t alpha nodes coin' ls El cl Pl al Ht Hd Hpb Hvb Hc']; [reflexivity|].
  assert (Hf : f < a') by (cbn in Hk; nia).
  unfold layers_of at 1. cbn [map]. rewrite f_supported. cbn [negb fl_evals l_E].
  rewrite HE, (pow_split a') by lia. rewrite Nat.div_mul by apply Nnz. fold (rowsE a' E).
  rewrite (concat_length_rows (rowsE a' E) N (rowsE_rows a' E)), rowsE_length, <- (pow_split a') by lia.
  exact Q.
Qed.

Theorem fri_complete : forall a k P positions coin0,
  num_fri_layers opts (2 ^ a) = Some k -> k * f < a -> b <= a - k * f -> a <= K -> a <= 62 ->
  length P = 2 ^ (a - b) -> pos_ok a positions ->
  let evals := coset_evals O P gen_offset (rou a) (2 ^ a) in
  exists cs proof p',
    prove opts coin0 evals positions = Ok (cs, proof, p') /\
    run_verifier true opts coin0 proof cs (2 ^ (a - b) - 1) (2 ^ a) (evals_at evals positions) positions
    = RunVerdict (Ok tt).
Proof.
  intros a k P positions coin0 Hnl Hkf Hb HaK Ha62 HP Hpos evals.
  assert (HE : length evals = 2 ^ a) by apply coset_evals_length.
  destruct (chain_exists k a evals coin0 positions Hkf Ha62 HE Hpos) as [ls [El [cl [Pl [Hc [Hls [HEl HPl]]]]]]].
  set (mu := a - k * f) in *.
  assert (Hmu : 1 <= mu <= K) by (unfold mu; lia).
  (* the last layer is the evaluation of a polynomial with 2^(mu - b) coefficients *)
  destruct (chain_poly _ _ _ _ _ _ _ _ _ Hc P (2 ^ (mu - b))) as [Pk [HElp HPk]];
    [rewrite Hls; assumption | assumption | reflexivity | |].
  { rewrite HP, Hls. replace (N ^ k) with (2 ^ (k * f)) by (rewrite Nat.mul_comm, Nat.pow_mul_r; reflexivity).
    rewrite <- Nat.pow_add_r. f_equal. unfold mu. lia. }
  assert (Hpk1 : length Pk <> 0) by (rewrite HPk; apply Nat.pow_nonzero; lia).
  assert (Hpk2 : is_pow2 (length Pk) = true) by (rewrite HPk; apply FriCoset.is_pow2_pow2).
  set (rc := hash_elements Pk).
  set (cs := roots_of ls ++ [rc]).
  set (proof := mkProof (pls_of ls) Pk 1).
  assert (Hrl : length (roots_of ls) = k) by (unfold roots_of; now rewrite map_length).
  exists cs, proof.
  (* ---------------- prover *)
  assert (Hprove : exists p', prove opts coin0 evals positions = Ok (cs, proof, p')).
  { unfold Fri.prove, build_layers. cbn [prover_new pr_layers is_nil negb pr_options].
    rewrite HE, Hnl. cbn [of_option bind fo_folding]. rewrite f_supported. cbn [negb]. rewrite andb_false_r.
    rewrite <- Hls.
    rewrite (chain_prover _ _ _ _ _ _ _ _ _ Hc);
      [| rewrite Hls; lia | assumption | assumption | intros Hne; destruct ls; [contradiction|]; cbn in Hls; nia].
    unfold prover_new. cbn [bind pr_options pr_layers pr_remainder app]. unfold set_remainder. cbn [pr_options fo_blowup].
    replace (interpolate_poly_with_offset O rou K El gen_offset) with (Ok (Pk ++ repeat zero (2 ^ mu - length Pk))).
    2:{ rewrite HElp. symmetry. apply (interpolate_coset O L rou K K_pos rou_sq rou_1 two_nz mu Pk gen_offset Hmu offset_nz).
        rewrite HPk. apply Nat.pow_le_mono_r; lia. }
    cbn [bind]. assert (Hbz : 2 ^ b <> 0) by (apply Nat.pow_nonzero; lia).
    destruct (2 ^ b =? 0) eqn:Eb; [apply Nat.eqb_eq in Eb; contradiction|].
    rewrite HEl. replace (2 ^ mu / 2 ^ b) with (length Pk).
    2:{ rewrite HPk. replace mu with (mu - b + b) at 2 by lia. rewrite Nat.pow_add_r, Nat.div_mul by assumption. reflexivity. }
    rewrite firstn_app_exact. fold rc. cbn [bind pr_layers pr_options pr_remainder pc_commit pc_coin pc_commitments app].
    unfold build_proof. cbn [pr_remainder pr_layers pr_options fo_folding].
    assert (Hnil : is_nil Pk = false) by (destruct Pk; [cbn in Hpk1; contradiction | reflexivity]). rewrite Hnil.
    pose proof (query_from_chain _ _ _ _ _ _ _ _ _ Hc ltac:(rewrite Hls; assumption) HE Hpos) as Hq.
    rewrite Hq. cbn [bind]. rewrite Hpk2. cbn [negb]. eexists. reflexivity. }
  destruct Hprove as [p' Hprove]. exists p'. split; [exact Hprove|].
  (* ---------------- verifier: channel *)
  unfold Fri.run_verifier, channel_new. cbn [fp_remainder fp_layers fp_partitions proof fo_folding].
  rewrite Hpk2, !FriCoset.is_pow2_pow2. cbn [negb].
  assert (HN2 : (N <=? 1) = false).
  { apply Nat.leb_gt. apply (Nat.lt_le_trans _ (2 ^ 1)); [cbn; lia | apply Nat.pow_le_mono_r; lia]. }
  rewrite HN2. rewrite (chain_parse _ _ _ _ _ _ _ _ _ Hc) by (try rewrite Hls; assumption).
  (* ---------------- verifier: new *)
  unfold verifier_new. cbn [fo_blowup fo_folding vc_commitments vc_proofs vc_queries vc_remainder vc_partitions].
  assert (Hmd : 2 ^ (a - b) - 1 + 1 = 2 ^ (a - b)) by (pose proof (Nat.pow_nonzero 2 (a - b)); lia).
  rewrite Hmd, next_pow2_pow2, <- Nat.pow_add_r. replace (a - b + b) with a by lia.
  unfold ilog2. pose proof (Nat.pow_nonzero 2 a ltac:(lia)) as Hza.
  destruct (2 ^ a =? 0) eqn:E0; [apply Nat.eqb_eq in E0; contradiction|]. cbn [bind].
  rewrite FriCoset.log2_pow2. rewrite get_rou_ok by lia. cbn [bind].
  unfold cs at 1. rewrite (chain_alphas _ _ _ _ _ _ _ _ _ Hc) by (rewrite Hls; lia).
  cbn [Fri.draw_alphas Nat.add].
  destruct (draw_total (cs_reseed cl rc)) as [cx [ax Hdx]]. rewrite Hdx.
  pose proof Nnz as HNz. destruct (N =? 0) eqn:EN; [apply Nat.eqb_eq in EN; contradiction|].
  assert (Hlast : (length ls =? length cs - 1) = true).
  { apply Nat.eqb_eq. unfold cs. rewrite app_length, Hrl, Hls. cbn. lia. }
  rewrite Hlast. cbn [negb andb bind fst snd].
  (* ---------------- verifier: verify *)
  unfold verify_gen. cbn [v_options fo_folding].
  unfold evals_at at 1. rewrite map_length, Nat.eqb_refl. cbn [negb]. rewrite f_supported.
  unfold Fri.verify_generic_gen. rewrite EN. cbn [v_options v_domain_size].
  rewrite Hnl. cbn [of_option bind v_domain_generator v_max_poly_degree]. rewrite Hmd.
  set (v := mkVerifier (2 ^ (a - b) - 1) (2 ^ a) (rou a) cs (alphas_of ls ++ [ax]) opts 1).
  assert (Hloop : Fri.layers_loop O gen_offset dbg D MN mt_verify_batch k N v (folding_roots_of O N v) 0
            (mkVS (rou a) (2 ^ a) (2 ^ (a - b)) positions (evals_at evals positions)
                  (mkVCh [] (mps_of ls) (qs_of ls) Pk 1))
          = Ok (mkVS (rou mu) (2 ^ mu) (2 ^ (a - b - k * f)) Pl (evals_at El Pl) (mkVCh [] [] [] Pk 1))).
  { destruct (le_lt_dec f a) as [Hfa|Hfa].
    - assert (Hroots : folding_roots_of O N v = map (fun j => fpow (rou f) j) (seq 0 N)).
      { unfold folding_roots_of, v. cbn [v_domain_generator v_domain_size]. apply map_ext. intros j.
        rewrite (fexp_spec O L), pow2_div_N, (fpow_mul O L) by assumption.
        pose proof (rou_pow2 O L rou K K_pos rou_sq (a - f) f ltac:(lia)) as R.
        replace (a - f + f) with a in R by lia. now rewrite R. }
      rewrite Hroots, <- Hls.
      pose proof (chain_verify _ _ _ _ _ _ _ _ _ Hc v [] [rc] [] [ax] [] [] Pk (a - b) []) as CV.
      rewrite !app_nil_r in CV. cbn [length app] in CV. rewrite Hls in *. apply CV; auto; lia.
    - assert (Hk0 : k = 0) by nia. destruct ls; [|rewrite Hk0 in Hls; discriminate].
      unfold mu in *. clear mu. rewrite Hk0 in *. cbn [Nat.mul] in *. rewrite !Nat.sub_0_r in *.
      inversion Hc; subst. reflexivity. }
  rewrite Hloop. cbn [bind].
  (* ---------------- verifier: remainder *)
  unfold Fri.verify_remainder, v. cbn [vs_chan vc_remainder v_commitments vs_mdp1 vs_gen vs_positions vs_evals].
  unfold cs. rewrite nth_error_app2, Hrl, Nat.sub_diag by lia. cbn [nth_error].
  fold rc. rewrite (proj2 (D_eqb_spec rc rc) eq_refl). cbn [negb andb].
  assert (Hlt : (2 ^ (a - b - k * f) <? length Pk) = false).
  { apply Nat.ltb_ge. rewrite HPk. apply Nat.pow_le_mono_r; unfold mu; lia. }
  rewrite Hlt.
  assert (Hrem : remainder_check O gen_offset Pk (rou mu) Pl (evals_at El Pl) = true).
  { apply (remainder_check_spec O L gen_offset). intros i p e Hp He.
    unfold evals_at in He. rewrite nth_error_map, Hp in He. injection He as <-.
    rewrite HElp, coset_evals_nth, (fexp_spec O L); [reflexivity|].
    destruct HPl as [_ [_ Hin]]. apply Hin. eapply nth_error_In; eassumption. }
  rewrite Hrem. reflexivity.
Qed.

End Complete.
