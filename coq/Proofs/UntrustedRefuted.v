(* Proofs/UntrustedRefuted.v — C06: each repaired check is necessary.  The functions as they were before the repairs
   (Model/Untrusted.v, section "BEFORE the C06 repairs") reach Panic on concrete inputs; the same inputs were replayed
   against the unrepaired crate (harness: `c06 replay <name>`, notes/C06.findings.json). *)
From VBase Require Import MachInt.
From VModel Require Import Codec Untrusted.
Open Scope Z_scope.

(* proof.num_unique_queries = 0 (one byte of the proof) *)
Theorem Queries_parse_refuted : exists q, Queries_parse_unrepaired F64P 1 32 q 16 0 1 = Panic.
Proof. exists (mkQ [] []). vm_compute. reflexivity. Qed.

(* a Lagrange kernel frame attached to the OOD frame of a trace without auxiliary columns *)
Theorem OodFrame_lagrange_refuted : exists f, OodFrame_parse_unrepaired F64P 1 f 1 0 1 = Panic.
Proof. exists (mkOod (2 :: to_le_bytes 8 1 ++ to_le_bytes 8 2) (1 :: to_le_bytes 8 7) (to_le_bytes 8 3)). vm_compute. reflexivity. Qed.

(* frame size byte 1: the parser succeeds with rows shorter than the trace width, and main_frame() slices [0..width] *)
Theorem OodFrame_frame_size_refuted :
  exists f s, OodFrame_parse_unrepaired F64P 1 f 1 0 1 = Ok s /\ os_cur s < 1 /\
              vassert (1 <=? os_cur s) W_main_frame_slice = VPanic W_main_frame_slice.
Proof.
  exists (mkOod (1 :: to_le_bytes 8 1) [0] (to_le_bytes 8 3)), (mkOS 0 None 1).
  vm_compute. repeat split; reflexivity.
Qed.

(* options fold 16, remainder degree 0, blowup 2 over an LDE domain of 64: schedule 64 -> 4 -> 0, two layers implied *)
Theorem Fri_layers_refuted :
  num_fri_layers 64 16 0 2 = 2 /\
  exists ls, length ls = 2%nat /\ Fri_layers_loop_unrepaired F64P 1 32 ls 64 16 = Panic.
Proof.
  split; [vm_compute; reflexivity|].
  exists [mkFL (flat_map (fun _ => to_le_bytes 8 0) (seq 0 16)) [0]; mkFL (flat_map (fun _ => to_le_bytes 8 0) (seq 0 16)) [0]].
  split; [reflexivity|]. vm_compute. reflexivity.
Qed.
(* ... and the repaired loop answers with an error on the same input *)
Theorem Fri_layers_repaired :
  Fri_layers_loop F64P 1 32 [mkFL (flat_map (fun _ => to_le_bytes 8 0) (seq 0 16)) [0]; mkFL (flat_map (fun _ => to_le_bytes 8 0) (seq 0 16)) [0]] 64 16
  = Err Invalid.
Proof. vm_compute. reflexivity. Qed.

(* as many queries as domain points (options of the proof: 16 queries, trace length 8, blowup 2) *)
Theorem draw_integers_refuted : draw_integers_unrepaired 16 16 = Panic /\ draw_integers_shape 16 16 = Err Invalid.
Proof. vm_compute. split; reflexivity. Qed.

(* num_partitions byte 64: 2usize.pow(64) *)
Theorem num_partitions_refuted : Fri_num_partitions (mkFri [] [] 64) = Panic.
Proof. vm_compute. reflexivity. Qed.

(* a context with a trace of length 2^32 (accepted by TraceInfo::read_from, refused by Context::new): Air::new of an AIR
   written for exactly this layout and these options panics in get_root_of_unity *)
Theorem context_limits_refuted :
  TraceInfo_new 1 (2 ^ 32) = Ok (mkTI 1 0 0 (2 ^ 32) []) /\
  ProofOptions_new 1 2 0 FE_None 2 0 = Ok (mkPO 1 2 0 FE_None 2 0) /\
  air_new (mkAP F64P 32 1 0 0 (2 ^ 32) 2 1 false) (mkTI 1 0 0 (2 ^ 32) []) (mkPO 1 2 0 FE_None 2 0) = VPanic W_root_of_unity /\
  Context_new (to_le_bytes 8 M64) (mkTI 1 0 0 (2 ^ 32) []) (mkPO 1 2 0 FE_None 2 0) = Panic.
Proof. vm_compute. repeat split; reflexivity. Qed.
