(* C14 x C10 — the serial reference of the concurrent Merkle theorems IS C10's model of crypto::merkle::build_merkle_nodes
   (Model/Merkle.v [build_nodes]); hence concurrent::build_merkle_nodes = build_merkle_nodes at function level. *)
From Coq Require Import ZArith List Arith Bool Lia PeanoNat Permutation.
From VModel Require Import FFT Par Merkle.
From VProofs Require Import MerkleBase MerkleSingle ParCommute ParMerkle.
Import ListNotations.

Section Bridge.
Context {D : Type} (d0 : D) (merge : D -> D -> D).

(* C10's vector d0 :: build_down .. satisfies the tree equations that characterise [merkle_serial] *)
Lemma c10_nodes_eqs n leaves : (1 <= n)%nat -> length leaves = (2 * n)%nat ->
  merkle_eqs d0 merge n leaves
    (d0 :: build_down D d0 merge (Z.to_nat (Z.of_nat n - 1)) (Z.of_nat n - 1) (pairs_merge D merge leaves)).
Proof.
  intros Hn Hl.
  set (N := (2 * Z.of_nat n)%Z).
  assert (HG0 : G D d0 merge leaves N (Z.of_nat n - 1) (pairs_merge D merge leaves)).
  { split.
    - unfold zlen. rewrite pairs_merge_length, Hl, div2_double. unfold N. lia.
    - intros j Hj. unfold Hv.
      destruct (Z.ltb_spec (2 * j) N); [unfold N in *; lia|]. destruct (Z.ltb_spec (2 * j + 1) N); [unfold N in *; lia|].
      unfold znth. rewrite pairs_merge_nth by (unfold N in *; lia). unfold N in *. do 2 f_equal; lia. }
  pose proof (build_down_inv D d0 merge leaves N (Z.to_nat (Z.of_nat n - 1)) (Z.of_nat n - 1) _
                ltac:(lia) ltac:(unfold N; lia) HG0) as [HL HJ].
  set (F := build_down D d0 merge _ _ _) in *.
  assert (LF : length F = (2 * n - 1)%nat) by (unfold zlen, N in HL; lia).
  (* value of a node of (d0 :: F) in terms of znth F *)
  assert (HR : forall c, (1 <= c)%nat -> nth c (d0 :: F) d0 = znth D d0 F (Z.of_nat c - 1)).
  { intros c Hc. destruct c as [|c]; [lia|]. cbn [nth]. unfold znth. f_equal. lia. }
  unfold merkle_eqs. split; [cbn [length]; lia|]. split; [reflexivity|]. split.
  - intros i Hi. rewrite HR by lia.
    replace (Z.of_nat (n + i) - 1)%Z with (Z.of_nat (n + i) - 0 - 1)%Z by lia.
    rewrite (HJ (Z.of_nat (n + i))) by (unfold N; lia). unfold Hv.
    destruct (Z.ltb_spec (2 * Z.of_nat (n + i)) N); [unfold N in *; lia|].
    destruct (Z.ltb_spec (2 * Z.of_nat (n + i) + 1) N); [unfold N in *; lia|].
    unfold znth, N. do 2 f_equal; lia.
  - intros c Hc. rewrite HR by lia.
    replace (Z.of_nat c - 1)%Z with (Z.of_nat c - 0 - 1)%Z by lia.
    rewrite (HJ (Z.of_nat c)) by (unfold N; lia). unfold Hv.
    destruct (Z.ltb_spec (2 * Z.of_nat c) N); [|unfold N in *; lia].
    destruct (Z.ltb_spec (2 * Z.of_nat c + 1) N); [|unfold N in *; lia].
    rewrite !HR by lia. f_equal; f_equal; lia.
Qed.

(* the serial reference of Model/Par.v is C10's build_nodes, whatever the un-initialised vector contained *)
Theorem merkle_serial_is_C10_build_nodes n leaves junk : (1 <= n)%nat ->
  length leaves = (2 * n)%nat -> length junk = (2 * n)%nat ->
  build_nodes D d0 merge leaves = Ok (merkle_serial d0 merge leaves junk).
Proof.
  intros Hn Hl Hj. unfold build_nodes.
  assert (E : (zlen leaves / 2 = Z.of_nat n)%Z).
  { unfold zlen. rewrite Hl. replace (Z.of_nat (2 * n)) with (Z.of_nat n * 2)%Z by lia. apply Z.div_mul. lia. }
  rewrite E. destruct (Z.leb_spec (2 * Z.of_nat n) 0); [lia|]. f_equal.
  apply (merkle_eqs_unique d0 merge n leaves).
  - apply c10_nodes_eqs; assumption.
  - apply merkle_serial_eqs_gen; assumption.
Qed.

Local Open Scope nat_scope.

(* concurrent::build_merkle_nodes = build_merkle_nodes: for every n = 2^k leaf pairs, every thread count T whose number of
   subtrees npo2 T = 2^j is admissible (<= n), every hash [merge], every content of the un-initialised vector, every
   task schedule / complete interleaving of the leaf phase and of the subtree phase, the concurrent node vector EQUALS the
   node vector of C10's sequential model *)
Theorem build_merkle_nodes_concurrent_eq k T leaves junk nodes : let n := 2 ^ k in
  length leaves = 2 * n -> length junk = 2 * n -> npo2 T <= n ->
  build_nodes D d0 merge leaves = Ok nodes ->
  (forall s1 s2, Permutation s1 (seq 0 n) -> Permutation s2 (seq 0 (npo2 T)) ->
     merkle_par d0 merge leaves junk T s1 s2 = Done nodes) /\
  (forall ch1 ch2 r, merkle_par_interleaved d0 merge leaves junk T ch1 ch2 = Done (r, true) -> r = nodes) /\
  (forall conc s1 s2, Permutation s1 (seq 0 n) -> Permutation s2 (seq 0 (npo2 T)) ->
     merkle_nodes_dispatch d0 merge conc leaves junk T s1 s2 = Done nodes).
Proof.
  intros n Hl Hj HT Hb.
  assert (Hn : 1 <= n) by (unfold n; clear; induction k; cbn; lia).
  rewrite (merkle_serial_is_C10_build_nodes n leaves junk Hn Hl Hj) in Hb. inversion Hb; subst nodes.
  destruct (merkle_par_spec d0 merge k T leaves junk Hl Hj HT) as [A B].
  split; [exact A|]. split; [exact B|].
  intros conc s1 s2 P1 P2. apply (merkle_dispatch_spec d0 merge k T leaves junk conc s1 s2); assumption.
Qed.

(* ... and the sequential model does return a vector under these hypotheses (non-vacuity of the last premise) *)
Lemma build_nodes_total k leaves : length leaves = 2 * 2 ^ k -> exists nodes, build_nodes D d0 merge leaves = Ok nodes.
Proof.
  intros Hl. exists (merkle_serial d0 merge leaves (repeat d0 (2 * 2 ^ k))).
  apply (merkle_serial_is_C10_build_nodes (2 ^ k)); [clear; induction k; cbn; lia|exact Hl|apply repeat_length].
Qed.
End Bridge.

(* ---------------------------------------------------------------- off-by-one twin *)
Local Open Scope nat_scope.
(* the same three phases with every subtree range shifted by one cell (`start_idx + 1`): the cell n/2 is never computed and the
   last subtree overwrites a leaf-phase cell — the node vector differs from C10's sequential one *)
Definition c10_mg (a b : nat) : nat := (1 + 3 * a + 7 * b) mod 101.
Definition offby1_result (leaves junk : list nat) (T : nat) : option (list nat) :=
  let n := length leaves / 2 in
  let ns := npo2 T in
  let batch := n / ns in
  match sequence_opt (map (fun i => let start := n / 2 + (batch / 2) * i + 1 in subtree_steps 0 c10_mg (S start) ns start (batch / 2))
                          (seq 0 ns)) with
  | None => None
  | Some subs => Some (exec_phases [map (leaf_task 0 c10_mg leaves n) (seq 0 n); concat subs; map (node_task 0 c10_mg) (desc_range 1 (ns - 1))]
                                   (merkle_init 0 junk))
  end.

Example merkle_subtree_offby1_refuted : exists r, offby1_result (seq 10 32) (repeat 99 32) 3 = Some r /\
  build_nodes nat 0 c10_mg (seq 10 32) <> Ok r.
Proof. eexists. split; [vm_compute; reflexivity|]. vm_compute. intros H. discriminate H. Qed.

(* while the model of the code as written agrees with C10's vector on the same input (T = 3 -> 4 subtrees) *)
Example merkle_concurrent_eq_ex :
  exists nodes, build_nodes nat 0 c10_mg (seq 10 32) = Ok nodes /\
  merkle_par 0 c10_mg (seq 10 32) (repeat 99 32) 3 (rev (seq 0 16)) [2; 0; 3; 1] = Done nodes.
Proof. eexists. split; vm_compute; reflexivity. Qed.
