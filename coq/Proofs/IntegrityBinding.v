(* C03 — binding_sound: what a binding event of Model/Integrity.v buys at the level of VALUES.

   (a) AuthCheck: two accepting openings for the same absorbed root and the same position(s) with different
       opened rows yield an EXPLICIT collision — of the leaf hash (hash_elements of a row) or of merge.
       Single openings: instance of C10's single_binding_paths (Proofs/MerkleSingle.v), no hypothesis.
       Batch openings (what the verifier really calls): instance of C10's batch_binding_verify_batch
       (Proofs/MerkleBind.v), relative to a committed tree of the proof's depth; positions are usize values
       ([usize_list idx]).  No hypothesis; collision resistance is never assumed.
   (b) Absorb: the coin state is a free term over the absorbed values; a different value of an absorbed
       component gives a different term at the moment the positions are drawn.  Whether a different term
       gives different positions is a property of the hash function (probabilistic; exercised by the
       falsifier, not proved).
   stdlib style. *)
From Coq Require Import ZArith List Bool Lia.
From VBase Require Import MachInt.
From VModel Require Import Merkle Integrity.
From VProofs Require Import MerkleBase MerkleSingle MerkleTotal MerkleBind IntegrityOrder.
Import ListNotations.

(* ================================================================================================ (a) *)
Section AuthBinding.
Variable D : Type.
Variable D_eqb : D -> D -> bool.
Hypothesis D_eqb_spec : forall a b, D_eqb a b = true <-> a = b.
Variable d0 : D.
Variable merge : D -> D -> D.
Variable V : Type.                 (* an opened row (the field elements of one query) *)
Variable hl : V -> D.              (* H::hash_elements(row): the leaf recomputed by Queries::parse / FriProofLayer::parse *)
Variable V_eq_dec : forall a b : V, {a = b} + {a <> b}.   (* rows are lists of field elements *)

(* an explicit collision of the leaf hash *)
Definition leaf_collision (c : V * V) : Prop := fst c <> snd c /\ hl (fst c) = hl (snd c).

(* Single opening [leaf; sibling; ...]: same root, same position, same depth, different rows. *)
Theorem auth_binding_single : forall root index v v' q q',
  verify D D_eqb merge root index (hl v :: q) = Ok tt ->
  verify D D_eqb merge root index (hl v' :: q') = Ok tt ->
  length q = length q' -> v <> v' ->
  leaf_collision (v, v') \/
  exists c, find_collision D D_eqb d0 merge index (hl v :: q) (hl v' :: q') = Some c /\ is_collision D merge c.
Proof.
  intros root index v v' q q' V1 V2 HL Hne.
  destruct (single_binding_paths D D_eqb D_eqb_spec d0 merge root index _ _ V1 V2) as [E | C].
  - cbn [length]. now rewrite HL.
  - left. split; [exact Hne|]. cbn [fst snd]. now injection E.
  - right. exact C.
Qed.

(* Batch openings: C10's theorem, relative to a committed tree. *)
Lemma merkle_batch_binding : forall (t : mtree D) (d : nat) (idx : list Z) (p : bproof D),
    wf_tree D d0 merge d t -> (d <= 62)%nat -> usize_list idx ->
    verify_batch D D_eqb merge (hval D d0 t 1) idx p = Ok tt -> bp_depth p = Z.of_nat d ->
    (forall j i, nth_error idx j = Some i -> nth_error (bp_leaves p) j = nth_error (mt_leaves t) (Z.to_nat i))
    \/ exists c, is_collision D merge c.
Proof. exact (batch_binding_verify_batch D D_eqb D_eqb_spec d0 merge). Qed.

(* An accepted batch opening of rows [vs] against the root of a committed tree: every opened row hashes to the
   committed leaf of its position, or a collision of merge exists. *)
Theorem auth_binding_batch_tree : forall t d idx nodes vs,
  wf_tree D d0 merge d t -> (d <= 62)%nat -> usize_list idx ->
  verify_batch D D_eqb merge (hval D d0 t 1) idx
    {| bp_leaves := map hl vs; bp_nodes := nodes; bp_depth := Z.of_nat d |} = Ok tt ->
  (forall j i v, nth_error idx j = Some i -> nth_error vs j = Some v ->
     nth_error (mt_leaves t) (Z.to_nat i) = Some (hl v))
  \/ exists c, is_collision D merge c.
Proof.
  intros t d idx nodes vs WF Hd Hu VB.
  destruct (merkle_batch_binding t d idx _ WF Hd Hu VB eq_refl) as [H | C]; [left | right; exact C].
  intros j i v Hi Hv. rewrite <- (H j i Hi). cbn [bp_leaves]. now rewrite nth_error_map, Hv.
Qed.

(* Two accepting runs with the same absorbed root (of a committed tree), the same positions, the same number of
   opened rows but different rows: an explicit collision — a pair of different rows with the same leaf hash, or a
   collision of merge. *)
Theorem auth_binding_batch : forall t d idx nodes nodes' vs vs',
  wf_tree D d0 merge d t -> (d <= 62)%nat -> usize_list idx ->
  verify_batch D D_eqb merge (hval D d0 t 1) idx
    {| bp_leaves := map hl vs; bp_nodes := nodes; bp_depth := Z.of_nat d |} = Ok tt ->
  verify_batch D D_eqb merge (hval D d0 t 1) idx
    {| bp_leaves := map hl vs'; bp_nodes := nodes'; bp_depth := Z.of_nat d |} = Ok tt ->
  length vs = length idx -> length vs' = length idx -> vs <> vs' ->
  (exists j v v', nth_error vs j = Some v /\ nth_error vs' j = Some v' /\ leaf_collision (v, v'))
  \/ exists c, is_collision D merge c.
Proof.
  intros t d idx nodes nodes' vs vs' WF Hd Hu V1 V2 L1 L2 Hne.
  destruct (auth_binding_batch_tree t d idx nodes vs WF Hd Hu V1) as [H1 | C]; [| right; exact C].
  destruct (auth_binding_batch_tree t d idx nodes' vs' WF Hd Hu V2) as [H2 | C]; [| right; exact C].
  left.
  assert (HL : length vs = length vs') by lia.
  clear V1 V2 L2.
  (* find the first position where the rows differ *)
  assert (Hex : exists j v v', nth_error vs j = Some v /\ nth_error vs' j = Some v' /\ v <> v').
  { clear - HL Hne V_eq_dec. revert vs' HL Hne. induction vs as [| a r IH]; intros [| a' r'] HL Hne; cbn in HL; try discriminate.
    - now contradict Hne.
    - destruct (V_eq_dec a a') as [-> | Hd].
      + destruct (IH r') as (j & v & v' & A & B & C); [lia | intros ->; now apply Hne |].
        exists (S j), v, v'. now cbn.
      + exists 0%nat, a, a'. now cbn. }
  destruct Hex as (j & v & v' & A & B & Hvv).
  exists j, v, v'. split; [exact A|]. split; [exact B|]. split; [exact Hvv|]. cbn [fst snd].
  assert (Hj : (j < length idx)%nat) by (rewrite <- L1; apply nth_error_Some; congruence).
  destruct (nth_error idx j) as [i|] eqn:Ei; [| apply nth_error_None in Ei; lia].
  pose proof (H1 j i v Ei A) as E1. pose proof (H2 j i v' Ei B) as E2. congruence.
Qed.

End AuthBinding.

(* ================================================================================================ (b) *)
Section AbsorbBinding.
Variable Val : Type.               (* values of components *)

(* what is fed to the coin, as a free term: hashing is an (injective) constructor *)
Inductive dterm : Type :=
| DVal (v : Val)                   (* a digest carried by the proof *)
| DHash (vs : list Val)            (* hash_elements of the listed component values *)
| DSeed (vs : list Val).           (* the elements RandomCoin::new is given *)

(* the coin state: the history of everything absorbed *)
Inductive cterm : Type :=
| CEmpty
| CReseed (t : cterm) (d : dterm)  (* new / reseed: H(seed, data) *)
| CNonce (t : cterm) (v : Val).    (* draw_integers: merge_with_int(seed, nonce) *)

Definition feed (rho : comp -> Val) (a : aterm) : dterm :=
  match a with Raw c => DVal (rho c) | HashOf cs => DHash (map rho cs) | SeedOf cs => DSeed (map rho cs) end.

Definition cstep (rho : comp -> Val) (t : cterm) (e : event) : cterm :=
  match e with
  | Absorb a => CReseed t (feed rho a)
  | DrawPositions => CNonce t (rho PowNonce)
  | _ => t
  end.

(* the coin state after a run under the assignment rho of values to components *)
Definition coin (rho : comp -> Val) (l : list event) (t : cterm) : cterm := fold_left (cstep rho) l t.

Lemma map_differs : forall (rho rho' : comp -> Val) cs c, In c cs -> rho c <> rho' c -> map rho cs <> map rho' cs.
Proof.
  intros rho rho' cs c. induction cs as [| x r IH]; intros Hin Hne; [contradiction|].
  cbn [map]. intros E. injection E as E1 E2. destruct Hin as [-> | Hin]; [now apply Hne | now apply IH].
Qed.

Lemma cstep_inj : forall rho rho' t t' e, t <> t' -> cstep rho t e <> cstep rho' t' e.
Proof.
  intros rho rho' t t' e Hne. destruct e; cbn [cstep]; try exact Hne; intros E; injection E; intros; now apply Hne.
Qed.

Lemma cstep_absorbs : forall rho rho' t t' e c, absorbs e c -> rho c <> rho' c -> cstep rho t e <> cstep rho' t' e.
Proof.
  intros rho rho' t t' e c [(a & -> & Hin) | (-> & ->)] Hne; cbn [cstep]; intros E.
  - injection E as _ E. destruct a as [c0 | cs | cs]; cbn [feed comps_of] in *.
    + destruct Hin as [-> | []]. injection E as E. now apply Hne.
    + injection E as E. now apply (map_differs rho rho' cs c).
    + injection E as E. now apply (map_differs rho rho' cs c).
  - injection E as _ E. now apply Hne.
Qed.

Lemma coin_differs : forall rho rho' l t t' c,
  t <> t' \/ (exists e, In e l /\ absorbs e c /\ rho c <> rho' c) -> coin rho l t <> coin rho' l t'.
Proof.
  intros rho rho' l. induction l as [| e r IH]; intros t t' c H; cbn [coin fold_left].
  - destruct H as [H | (e & [] & _)]. exact H.
  - apply (IH _ _ c). destruct H as [H | (e0 & [-> | Hin] & Ha & Hne)].
    + left. now apply cstep_inj.
    + left. now apply (cstep_absorbs rho rho' t t' e0 c).
    + right. now exists e0.
Qed.

(* a component that some event of the run absorbs: a different value gives a different final coin term *)
Theorem absorb_binding : forall rho rho' l c,
  (exists e, In e l /\ absorbs e c) -> rho c <> rho' c -> coin rho l CEmpty <> coin rho' l CEmpty.
Proof.
  intros rho rho' l c (e & Hin & Ha) Hne. apply (coin_differs rho rho' l CEmpty CEmpty c). right. now exists e.
Qed.

(* ... and when the absorption is not preceded by DrawPositions, the term the positions are drawn from differs:
   [pre ++ [DrawPositions]] is the run up to and including draw_integers *)
Theorem absorbed_pre_changes_position_seed : forall rho rho' pre post c,
  ~ In DrawPositions pre -> absorbed_pre (pre ++ DrawPositions :: post) c -> rho c <> rho' c ->
  coin rho (pre ++ [DrawPositions]) CEmpty <> coin rho' (pre ++ [DrawPositions]) CEmpty.
Proof.
  intros rho rho' pre post c Hnd (l1 & e & l2 & E & Ha & Hn1) Hne.
  apply absorb_binding with (c := c); [| exact Hne].
  (* e lies in pre ++ [DrawPositions]: otherwise DrawPositions would precede it *)
  assert (Hin : In e (pre ++ [DrawPositions])).
  { assert (Hcase : In e (pre ++ [DrawPositions]) \/ In DrawPositions l1).
    { clear Ha Hne Hnd Hn1. revert l1 E. induction pre as [| x r IH]; intros l1 E.
      - cbn in E. destruct l1 as [| y l1']; cbn in E; injection E as E1 E2.
        + left. cbn. now left.
        + right. cbn. now left.
      - destruct l1 as [| y l1']; cbn in E; injection E as E1 E2.
        + left. cbn. now left.
        + destruct (IH l1' E2) as [H | H]; [left; cbn; now right | right; cbn; now right]. }
    destruct Hcase as [H | H]; [exact H | contradiction]. }
  now exists e.
Qed.

End AbsorbBinding.
