(* C11 — raw-to-value composition for the sponges (hash, hash_elements, merge, merge_with_int) of the three Rescue
   hashers and for the Rp62_248 permutation: the generic code of Model/Rescue.v (Section Generic) instantiated with
   operations on internal words simulates the value-level models through any relation `Rel raw value` that is
   preserved by mul / add / new / ZERO / ONE (Section Sim); instances: f64 (canonical Montgomery words, C07) with the
   raw permutations of RescueRaw.v, and f62 (lazy Montgomery words in [0, 2M), C07_f62). *)
From VBase Require Import MachInt.
From VGen Require Import Mds12 Mds8 F64.
From VGen Require F62.
From VModel Require Import RescueConsts Rescue.
From VProofs Require Import F64Red F64Ops RescueMds RescueSbox RescueSponge RescueRaw.
From VProofs Require F62Ops.
Open Scope Z_scope.

(* ------------------------------------------------------------------------------------------------ list lemmas *)
Lemma upd_length i f (s : list Z) : length (upd i f s) = length s.
Proof. revert i. induction s as [|x r IH]; intros [|i]; cbn; auto. Qed.

Lemma set_range_fold_length : forall (l : list (nat * Z)) start st,
  length (fold_left (fun st iv => upd (start + fst iv) (fun _ => snd iv) st) l st) = length st.
Proof. induction l as [|a l IH]; intros; cbn [fold_left]; [reflexivity|]. rewrite IH. apply upd_length. Qed.
Lemma set_range_length start vs st : length (set_range start vs st) = length st.
Proof. apply set_range_fold_length. Qed.

(* ------------------------------------------------------------------------------------------------ bytes -> u64 integers *)
Lemma encode_chunks_ints p : forall cs,
  encode_chunks p cs = match chunk_ints_of cs with Some l => Some (map (fun v => v mod p) l) | None => None end.
Proof.
  induction cs as [|c r IH]; [reflexivity|].
  destruct r as [|c' r']; [reflexivity|].
  change (encode_chunks p (c :: c' :: r')) with
    (if Nat.eqb (length c) 7 then match encode_chunks p (c' :: r') with Some es => Some (of_le_bytes c mod p :: es) | None => None end else None).
  change (chunk_ints_of (c :: c' :: r')) with
    (if Nat.eqb (length c) 7 then match chunk_ints_of (c' :: r') with Some es => Some (of_le_bytes c :: es) | None => None end else None).
  rewrite IH. destruct (Nat.eqb (length c) 7); [|reflexivity]. destruct (chunk_ints_of (c' :: r')); reflexivity.
Qed.

Lemma chunk_ints_of_range : forall cs l, wf_chunks cs -> chunk_ints_of cs = Some l -> Forall (fun v => 0 <= v < 2 ^ 64) l.
Proof.
  induction cs as [|c r IH]; intros l W E.
  - injection E as <-. constructor.
  - destruct r as [|c' r'].
    + cbn [chunk_ints_of] in E. injection E as <-. cbn [wf_chunks] in W. destruct W as (L & B).
      constructor; [|constructor].
      pose proof (of_le_bytes_range (c ++ [1]) (bytes_app1 c B)) as H. rewrite app_length in H. simpl length in H.
      assert (256 ^ Z.of_nat (length c + 1) <= 256 ^ 8) by (apply Z.pow_le_mono_r; lia).
      change (256 ^ 8) with (2 ^ 64) in *. lia.
    + rewrite wf_cons2 in W. destruct W as (L & B & W).
      change (chunk_ints_of (c :: c' :: r')) with
        (if Nat.eqb (length c) 7 then match chunk_ints_of (c' :: r') with Some es => Some (of_le_bytes c :: es) | None => None end else None) in E.
      rewrite L in E. cbn [Nat.eqb] in E. destruct (chunk_ints_of (c' :: r')) as [es|] eqn:Er; [|discriminate].
      injection E as <-. constructor; [|apply IH; auto].
      pose proof (of_le_bytes_range c B) as H. rewrite L in H. change (256 ^ Z.of_nat 7) with (2 ^ 56) in H. lia.
Qed.

Lemma chunk_ints_range b l : bytes b -> chunk_ints b = Some l -> Forall (fun v => 0 <= v < 2 ^ 64) l.
Proof. intros B. apply chunk_ints_of_range. apply chunks7_wf; auto. Qed.

Lemma bytes_to_elems_ints p b :
  bytes_to_elems p b = match chunk_ints b with Some l => Some (map (fun v => v mod p) l) | None => None end.
Proof. apply encode_chunks_ints. Qed.

(* ------------------------------------------------------------------------------------------------ simulation *)
Section Sim.
  Variable p : Z.
  Variables mulR addR : Z -> Z -> Z.
  Variable newR : Z -> Z.
  Variables zeroR oneR : Z.
  Variable Rel : Z -> Z -> Prop.
  Hypothesis Hp : 1 < p.
  Hypothesis Hp64 : p <= 2 ^ 64.
  Hypothesis Rel_mul : forall a x b y, Rel a x -> Rel b y -> Rel (mulR a b) (fmul p x y).
  Hypothesis Rel_add : forall a x b y, Rel a x -> Rel b y -> Rel (addR a b) (fadd p x y).
  Hypothesis Rel_new : forall v, 0 <= v < 2 ^ 64 -> Rel (newR v) (v mod p).
  Hypothesis Rel_zero : Rel zeroR 0.
  Hypothesis Rel_one : Rel oneR (1 mod p).

  Local Notation RLg := (Forall2 Rel).

  Lemma Rel_eq a x y : Rel a x -> x = y -> Rel a y.
  Proof. intros H <-. exact H. Qed.

  Lemma RLg_length ws vs : RLg ws vs -> length ws = length vs.
  Proof. intros H. induction H; cbn; congruence. Qed.
  Lemma RLg_upd f g : (forall a x, Rel a x -> Rel (f a) (g x)) -> forall ws vs, RLg ws vs -> forall i, RLg (upd i f ws) (upd i g vs).
  Proof.
    intros Hf ws vs H. induction H as [|w v ws vs Hwv Hrest IH]; intros [|i]; cbn [upd].
    - constructor.
    - constructor.
    - constructor; [apply Hf; exact Hwv | exact Hrest].
    - constructor; [exact Hwv | apply IH].
  Qed.
  Lemma RLg_zeros n : RLg (g_zeros zeroR n) (zeros n).
  Proof. unfold g_zeros, zeros. induction n; cbn; constructor; auto. Qed.
  Lemma RLg_firstn ws vs : RLg ws vs -> forall n, RLg (firstn n ws) (firstn n vs).
  Proof. intros H. induction H; intros [|n]; cbn; constructor; auto. Qed.
  Lemma RLg_skipn ws vs : RLg ws vs -> forall n, RLg (skipn n ws) (skipn n vs).
  Proof. intros H. induction H; intros [|n]; cbn; try constructor; auto. Qed.
  Lemma RLg_app a va b vb : RLg a va -> RLg b vb -> RLg (a ++ b) (va ++ vb).
  Proof. intros Ha Hb. induction Ha; cbn; [exact Hb | constructor; auto]. Qed.
  Lemma RLg_nth ws vs : RLg ws vs -> forall i, Rel (nth i ws zeroR) (nth i vs 0).
  Proof. intros H. induction H; intros [|i]; cbn; auto. Qed.
  Lemma RLg_map_new l : Forall (fun v => 0 <= v < 2 ^ 64) l -> RLg (map newR l) (map (fun v => v mod p) l).
  Proof. intros H. induction H; cbn; constructor; auto. Qed.

  Lemma RLg_set_range_fold : forall vals vvals, RLg vals vvals -> forall k start st sv, RLg st sv ->
    RLg (fold_left (fun st iv => upd (start + fst iv) (fun _ => snd iv) st) (combine (seq k (length vals)) vals) st)
        (fold_left (fun st iv => upd (start + fst iv) (fun _ => snd iv) st) (combine (seq k (length vvals)) vvals) sv).
  Proof.
    intros vals vvals H. induction H as [|w v ws vs Hwv _ IH]; intros k start st sv Hs; [exact Hs|].
    cbn [length seq combine fold_left fst snd]. apply IH. apply RLg_upd; auto.
  Qed.
  Lemma RLg_set_range start vals vvals st sv : RLg vals vvals -> RLg st sv -> RLg (set_range start vals st) (set_range start vvals sv).
  Proof. intros H Hs. unfold set_range. apply RLg_set_range_fold; auto. Qed.

  (* ---------------------------------------------------------------- Rp62_248-style permutation (plain code) *)
  Lemma Rel_sq a x : Rel a x -> Rel (g_sq mulR a) (fsq p x).
  Proof. intros H. exact (Rel_mul _ _ _ _ H H). Qed.
  Lemma Rel_sqn n : forall a x, Rel a x -> Rel (g_sqn mulR n a) (sqn p n x).
  Proof. induction n as [|n IH]; intros a x H; [exact H|]. cbn [g_sqn sqn]. apply IH, Rel_sq, H. Qed.
  Lemma Rel_exp_acc n a x b y : Rel a x -> Rel b y -> Rel (g_exp_acc mulR n a b) (exp_acc p n x y).
  Proof. intros Ha Hb. apply Rel_mul; [apply Rel_sqn; exact Ha | exact Hb]. Qed.
  Lemma Rel_cube a x : Rel a x -> Rel (g_cube mulR a) (cube p x).
  Proof. intros H. exact (Rel_mul _ _ _ _ (Rel_mul _ _ _ _ H H) H). Qed.
  Lemma Rel_inv_sbox62 a x : Rel a x -> Rel (g_inv_sbox62 mulR a) (inv_sbox62 p x).
  Proof.
    intros H. unfold g_inv_sbox62, inv_sbox62.
    pose proof (Rel_sq _ _ H) as H1.
    pose proof (Rel_exp_acc 2 _ _ _ _ H1 H1) as H2.
    pose proof (Rel_exp_acc 4 _ _ _ _ H2 H2) as H4.
    pose proof (Rel_exp_acc 8 _ _ _ _ H4 H4) as H8.
    pose proof (Rel_exp_acc 7 _ _ _ _ H8 H2) as A1.
    pose proof (Rel_exp_acc 15 _ _ _ _ A1 H8) as A2.
    pose proof (Rel_exp_acc 16 _ _ _ _ A2 H8) as A3.
    pose proof (Rel_exp_acc 8 _ _ _ _ A3 H4) as A4.
    cbv zeta. exact (Rel_mul _ _ _ _ H A4).
  Qed.

  Lemma RLg_map f g : (forall a x, Rel a x -> Rel (f a) (g x)) -> forall ws vs, RLg ws vs -> RLg (map f ws) (map g vs).
  Proof. intros Hf ws vs H. induction H; cbn; constructor; auto. Qed.

  Definition canon (c : Z) : Prop := 0 <= c < p.

  (* the `*r += m * s` loop computes the dot product mod p *)
  Lemma Rel_dot_loop : forall row ws vs, Forall canon row -> RLg ws vs -> forall acc accv, Rel acc accv -> 0 <= accv < p ->
    Rel (fold_left (fun r ms => addR r (mulR (fst ms) (snd ms))) (combine (map newR row) ws) acc) ((accv + dotZ row vs) mod p).
  Proof.
    induction row as [|m row IH]; intros ws vs Hc H acc accv Ha Hr.
    - cbn. unfold dotZ. cbn. rewrite Z.add_0_r. rewrite Z.mod_small by exact Hr. exact Ha.
    - inversion Hc as [|? ? Hm Hrow]; subst.
      destruct H as [|w v ws vs Hwv Hrest].
      + cbn. unfold dotZ. cbn. rewrite Z.add_0_r. rewrite Z.mod_small by exact Hr. exact Ha.
      + cbn [map combine fold_left fst snd].
        assert (Hm' : Rel (newR m) (m mod p)) by (apply Rel_new; unfold canon in Hm; lia).
        pose proof (Rel_add _ _ _ _ Ha (Rel_mul _ _ _ _ Hm' Hwv)) as Hacc.
        eapply Rel_eq; [apply (IH ws vs Hrow Hrest _ _ Hacc); unfold fadd; apply Z.mod_pos_bound; lia|].
        unfold dotZ. cbn [combine map fold_right fst snd]. unfold fadd, fmul.
        rewrite Z.mul_mod_idemp_l by lia. rewrite Z.add_mod_idemp_r by lia.
        rewrite Z.add_mod_idemp_l by lia. f_equal. ring.
  Qed.

  Lemma Rel_g_dot_loop row ws vs : Forall canon row -> RLg ws vs ->
    Rel (g_dot_loop mulR addR zeroR (map newR row) ws) (dotZ row vs mod p).
  Proof. intros Hc H. unfold g_dot_loop. eapply Rel_eq; [apply (Rel_dot_loop row ws vs Hc H _ _ Rel_zero); lia|]. reflexivity. Qed.

  Lemma RLg_apply_mds mds ws vs : Forall (Forall canon) mds -> RLg ws vs ->
    RLg (g_apply_mds mulR addR zeroR (g_consts newR mds) ws) (mat_vec p mds vs).
  Proof.
    intros Hc H. unfold g_apply_mds, g_consts, mat_vec. induction Hc as [|row mds Hrow _ IH]; cbn [map]; constructor; auto.
    apply Rel_g_dot_loop; auto.
  Qed.

  Lemma RLg_add_constants ws vs k : RLg ws vs -> Forall canon k ->
    RLg (g_add_constants addR ws (map newR k)) (add_constants p vs k).
  Proof.
    intros H. revert k. induction H as [|w v ws vs Hwv _ IH]; intros k Hk; [constructor|].
    destruct k as [|c k]; [constructor|]. inversion Hk as [|? ? Hc Hk']; subst.
    unfold g_add_constants, add_constants. cbn [map combine fst snd]. constructor.
    - eapply Rel_eq; [apply Rel_add; [exact Hwv | apply Rel_new; unfold canon in Hc; lia]|].
      unfold fadd. rewrite Z.add_mod_idemp_r by lia. reflexivity.
    - apply IH. exact Hk'.
  Qed.

  Lemma nth_consts t r : nth r (g_consts newR t) [] = map newR (nth r t []).
  Proof. unfold g_consts. change [] with (map newR []) at 1. apply map_nth. Qed.

  Section Perm62.
    Variables mds ark1 ark2 : list (list Z).
    Hypothesis Hmds : Forall (Forall canon) mds.
    Hypothesis Hark1 : forall r, Forall canon (nth r ark1 []).
    Hypothesis Hark2 : forall r, Forall canon (nth r ark2 []).

    Lemma RLg_round62 ws vs r : RLg ws vs ->
      RLg (g_round62 mulR addR newR zeroR mds ark1 ark2 ws r) (apply_round p (mkRP (cube p) (inv_sbox62 p) mds ark1 ark2) vs r).
    Proof.
      intros H. unfold g_round62, apply_round. cbv zeta. cbn [rp_sbox rp_inv_sbox rp_mds rp_ark1 rp_ark2].
      rewrite !nth_consts.
      apply RLg_add_constants; [|apply Hark2]. apply RLg_apply_mds; [exact Hmds|].
      apply (RLg_map _ _ Rel_inv_sbox62).
      apply RLg_add_constants; [|apply Hark1]. apply RLg_apply_mds; [exact Hmds|].
      apply (RLg_map _ _ Rel_cube). exact H.
    Qed.

    Lemma RLg_permutation62 ws vs : RLg ws vs ->
      RLg (g_permutation62 mulR addR newR zeroR mds ark1 ark2 ws) (apply_permutation p (mkRP (cube p) (inv_sbox62 p) mds ark1 ark2) vs).
    Proof.
      unfold g_permutation62, apply_permutation. generalize (seq 0 7). intros l. revert ws vs.
      induction l as [|r l IH]; intros ws vs H; [exact H|]. cbn [fold_left]. apply IH. apply RLg_round62. exact H.
    Qed.
  End Perm62.

  (* ---------------------------------------------------------------- sponges *)
  Section Sponge.
    Variables w rs rw ci ds : nat.
    Variables permR permV : list Z -> list Z.
    Hypothesis Hperm : forall ws vs, RLg ws vs -> length ws = w -> RLg (permR ws) (permV vs) /\ length (permR ws) = w.
    Let SR := mkSponge w rs rw ci ds permR.
    Let SV := mkSponge w rs rw ci ds permV.

    Lemma RLg_digest st sv : RLg st sv -> RLg (digest_of SR st) (digest_of SV sv).
    Proof. intros H. unfold digest_of. cbn [sp_digest_start SR SV]. apply RLg_firstn, RLg_skipn, H. Qed.

    Lemma absorb_sim : forall xs ys, RLg xs ys -> forall st sv i, RLg st sv -> length st = w ->
      RLg (fst (g_absorb addR SR st i xs)) (fst (absorb p SV sv i ys)) /\
      snd (g_absorb addR SR st i xs) = snd (absorb p SV sv i ys) /\ length (fst (g_absorb addR SR st i xs)) = w.
    Proof.
      intros xs ys H. induction H as [|x y xs ys Hxy _ IH]; intros st sv i Hs Hl.
      - cbn. auto.
      - cbn [g_absorb absorb]. cbn [sp_rate_start sp_rate_width sp_perm SR SV].
        assert (Hs' : RLg (upd (rs + i) (fun a => addR a x) st) (upd (rs + i) (fun a => fadd p a y) sv)).
        { apply RLg_upd; auto. }
        assert (Hl' : length (upd (rs + i) (fun a => addR a x) st) = w) by (rewrite upd_length; exact Hl).
        destruct (Nat.eqb (S i mod rw) 0).
        + destruct (Hperm _ _ Hs' Hl') as (Hp1 & Hp2). apply IH; auto.
        + apply IH; auto.
    Qed.

    Lemma hash_elements_cnt_sim xs ys : RLg xs ys -> Z.of_nat (length xs) < 2 ^ 64 ->
      RLg (g_hash_elements_cnt addR newR zeroR SR xs) (hash_elements_cnt p SV ys).
    Proof.
      intros H Hlen. unfold g_hash_elements_cnt, hash_elements_cnt. cbn [sp_cap_idx sp_width sp_perm SR SV].
      assert (H0 : RLg (upd ci (fun _ => newR (Z.of_nat (length xs))) (g_zeros zeroR w)) (upd ci (fun _ => Z.of_nat (length ys) mod p) (zeros w))).
      { apply RLg_upd; [|apply RLg_zeros]. intros _ _ _. rewrite <- (RLg_length _ _ H). apply Rel_new. lia. }
      assert (L0 : length (upd ci (fun _ => newR (Z.of_nat (length xs))) (g_zeros zeroR w)) = w).
      { rewrite upd_length. unfold g_zeros. apply repeat_length. }
      destruct (absorb_sim xs ys H _ _ 0%nat H0 L0) as (A & B & C).
      fold SR SV. destruct (g_absorb addR SR _ 0 xs) as (st, i). destruct (absorb p SV _ 0 ys) as (sv, j).
      cbn [fst snd] in A, B, C. subst j.
      apply RLg_digest. destruct (0 <? i)%nat; [|exact A]. apply (Hperm _ _ A C).
    Qed.

    Lemma jive_pad_fold_sim : forall l st sv, RLg st sv ->
      RLg (fold_left (fun st j => upd (rs + j) (fun _ => zeroR) st) l st) (fold_left (fun st j => upd (rs + j) (fun _ => 0) st) l sv).
    Proof. induction l as [|j l IH]; intros st sv H; [exact H|]. cbn [fold_left]. apply IH. apply RLg_upd; auto. Qed.
    Lemma jive_pad_fold_length : forall l st, length (fold_left (fun st j => upd (rs + j) (fun _ => zeroR) st) l st) = length st.
    Proof. induction l as [|j l IH]; intros st; [reflexivity|]. cbn [fold_left]. rewrite IH. apply upd_length. Qed.

    Lemma hash_elements_jive_sim xs ys : RLg xs ys ->
      RLg (g_hash_elements_jive addR zeroR oneR SR xs) (hash_elements_jive p SV ys).
    Proof.
      intros H. unfold g_hash_elements_jive, hash_elements_jive. cbn [sp_cap_idx sp_width sp_perm sp_rate_width SR SV].
      rewrite <- (RLg_length _ _ H).
      assert (H0 : RLg (if Nat.eqb (length xs mod rw) 0 then g_zeros zeroR w else upd ci (fun _ => oneR) (g_zeros zeroR w))
                       (if Nat.eqb (length xs mod rw) 0 then zeros w else upd ci (fun _ => 1 mod p) (zeros w))).
      { destruct (Nat.eqb (length xs mod rw) 0); [apply RLg_zeros|]. apply RLg_upd; [auto | apply RLg_zeros]. }
      assert (L0 : length (if Nat.eqb (length xs mod rw) 0 then g_zeros zeroR w else upd ci (fun _ => oneR) (g_zeros zeroR w)) = w).
      { destruct (Nat.eqb (length xs mod rw) 0); [|rewrite upd_length]; unfold g_zeros; apply repeat_length. }
      destruct (absorb_sim xs ys H _ _ 0%nat H0 L0) as (A & B & C).
      fold SR SV. destruct (g_absorb addR SR _ 0 xs) as (st, i). destruct (absorb p SV _ 0 ys) as (sv, j).
      cbn [fst snd] in A, B, C. subst j.
      apply RLg_digest. destruct (0 <? i)%nat; [|exact A].
      apply Hperm.
      - unfold g_jive_pad, jive_pad. cbn [sp_rate_start sp_rate_width SR SV]. apply jive_pad_fold_sim. apply RLg_upd; auto.
      - unfold g_jive_pad. cbn [sp_rate_start sp_rate_width SR]. rewrite jive_pad_fold_length, upd_length. exact C.
    Qed.

    Lemma hash_bytes_sim heR heV b : bytes b -> Z.of_nat (length b) < 2 ^ 64 ->
      (forall xs ys, RLg xs ys -> Z.of_nat (length xs) < 2 ^ 64 -> RLg (heR xs) (heV ys)) ->
      match g_hash_bytes_with newR heR b, hash_bytes_with p heV b with
      | Some r, Some v => RLg r v
      | None, None => True
      | _, _ => False
      end.
    Proof.
      intros B Hb Hhe. unfold g_hash_bytes_with, hash_bytes_with. rewrite bytes_to_elems_ints.
      destruct (chunk_ints b) as [l|] eqn:E; [|exact I].
      apply Hhe; [apply RLg_map_new; eapply chunk_ints_range; eauto|].
      rewrite map_length.
      (* at most one integer per input byte *)
      assert (Hl : (length l <= length b)%nat).
      { unfold chunk_ints in E. clear B Hb Hhe.
        assert (G : forall cs l, chunk_ints_of cs = Some l -> length l = length cs).
        { induction cs as [|c r IH]; intros l0 E0; [injection E0 as <-; reflexivity|].
          destruct r as [|c' r']; [cbn in E0; injection E0 as <-; reflexivity|].
          change (chunk_ints_of (c :: c' :: r')) with
            (if Nat.eqb (length c) 7 then match chunk_ints_of (c' :: r') with Some es => Some (of_le_bytes c :: es) | None => None end else None) in E0.
          destruct (Nat.eqb (length c) 7); [|discriminate]. destruct (chunk_ints_of (c' :: r')) eqn:E1; [|discriminate].
          injection E0 as <-. cbn [length]. f_equal. apply IH. reflexivity. }
        rewrite (G _ _ E).
        assert (G2 : forall fuel b0, (length (chunks7 fuel b0) <= length b0)%nat).
        { induction fuel as [|f IHf]; intros b0; [cbn; lia|]. destruct b0 as [|x r]; [cbn; lia|].
          cbn [chunks7 length]. specialize (IHf (skipn 7 (x :: r))). rewrite skipn_length in IHf. cbn [length] in IHf. lia. }
        apply G2. }
      lia.
    Qed.

    Lemma zeros_length n : length (g_zeros zeroR n) = n.
    Proof. apply repeat_length. Qed.

    Lemma merge_cnt_sim a va b vb : RLg a va -> RLg b vb ->
      RLg (g_merge_cnt newR zeroR SR a b) (merge_cnt p SV va vb).
    Proof.
      intros Ha Hb. unfold g_merge_cnt, merge_cnt, g_merge_state_cnt, merge_state_cnt.
      cbn [sp_cap_idx sp_width sp_perm sp_rate_start SR SV]. apply RLg_digest. apply Hperm.
      - apply RLg_upd; [intros _ _ _; apply Rel_new; lia|]. apply RLg_set_range; [apply RLg_app; auto | apply RLg_zeros].
      - rewrite upd_length, set_range_length. apply zeros_length.
    Qed.

    Lemma div_range v : 0 <= v < 2 ^ 64 -> 0 <= v / p < 2 ^ 64.
    Proof. intros Hv. split; [apply Z.div_pos; lia|]. apply Z.div_lt_upper_bound; nia. Qed.

    Lemma merge_with_int_cnt_sim seed vseed v : RLg seed vseed -> 0 <= v < 2 ^ 64 ->
      RLg (g_merge_with_int_cnt newR zeroR p SR seed v) (merge_with_int_cnt p SV vseed v).
    Proof.
      intros Hs Hv. unfold g_merge_with_int_cnt, merge_with_int_cnt, g_mwi_state_cnt, mwi_state_cnt.
      cbn [sp_cap_idx sp_width sp_perm sp_rate_start SR SV]. apply RLg_digest.
      assert (B : RLg (upd (rs + 4) (fun _ => newR v) (set_range rs seed (g_zeros zeroR w)))
                      (upd (rs + 4) (fun _ => v mod p) (set_range rs vseed (zeros w)))).
      { apply RLg_upd; [intros _ _ _; apply Rel_new; lia|]. apply RLg_set_range; [auto | apply RLg_zeros]. }
      destruct (v <? p); apply Hperm.
      - apply RLg_upd; [intros _ _ _; apply Rel_new; lia | exact B].
      - rewrite !upd_length, set_range_length. apply zeros_length.
      - apply RLg_upd; [intros _ _ _; apply Rel_new; lia|]. apply RLg_upd; [intros _ _ _; apply Rel_new; apply div_range; exact Hv | exact B].
      - rewrite !upd_length, set_range_length. apply zeros_length.
    Qed.

    Lemma jive_sum_sim i vi f vf : RLg i vi -> RLg f vf -> RLg (g_jive_sum addR zeroR i f) (jive_sum p vi vf).
    Proof.
      intros Hi Hf. unfold g_jive_sum, jive_sum. cbv [map seq].
      repeat constructor; repeat apply Rel_add; apply RLg_nth; assumption.
    Qed.

    Lemma merge_jive_sim a va b vb : RLg a va -> RLg b vb -> length (a ++ b) = w ->
      RLg (g_merge_jive addR zeroR permR a b) (merge_jive p permV va vb).
    Proof.
      intros Ha Hb Hl. unfold g_merge_jive, merge_jive. cbv zeta.
      apply jive_sum_sim; [apply RLg_app; auto|]. apply Hperm; [apply RLg_app; auto | exact Hl].
    Qed.

    Lemma merge_with_int_jive_sim seed vseed v : w = 8%nat -> RLg seed vseed -> 0 <= v < 2 ^ 64 ->
      RLg (g_merge_with_int_jive addR newR zeroR p permR seed v) (merge_with_int_jive p permV vseed v).
    Proof.
      intros Hw Hs Hv. unfold g_merge_with_int_jive, merge_with_int_jive. cbv zeta.
      assert (B : RLg (g_mwi_state_jive newR zeroR p seed v) (mwi_state_jive p vseed v) /\ length (g_mwi_state_jive newR zeroR p seed v) = w).
      { unfold g_mwi_state_jive, mwi_state_jive.
        assert (B0 : RLg (upd 4 (fun _ => newR v) (set_range 0 seed (g_zeros zeroR 8))) (upd 4 (fun _ => v mod p) (set_range 0 vseed (zeros 8)))).
        { apply RLg_upd; [intros _ _ _; apply Rel_new; lia|]. apply RLg_set_range; [auto | apply RLg_zeros]. }
        destruct (v <? p); split.
        - apply RLg_upd; [intros _ _ _; apply Rel_new; lia | exact B0].
        - rewrite !upd_length, set_range_length, Hw. apply zeros_length.
        - apply RLg_upd; [intros _ _ _; apply Rel_new; lia|]. apply RLg_upd; [intros _ _ _; apply Rel_new; apply div_range; exact Hv | exact B0].
        - rewrite !upd_length, set_range_length, Hw. apply zeros_length. }
      destruct B as (B1 & B2). apply jive_sum_sim; [exact B1|]. apply Hperm; assumption.
    Qed.
  End Sponge.
End Sim.

(* ================================================================================================ f64 instances *)
Lemma R_add a x b y : R a x -> R b y -> R (f64_add a b) (fadd M64 x y).
Proof. intros (Ha & <-) (Hb & <-). destruct (val_add a b Ha Hb) as (H1 & H2). split; [exact H1 | exact H2]. Qed.
Lemma R_new v : 0 <= v < 2 ^ 64 -> R (f64_new v) (v mod M64).
Proof. intros Hv. destruct (f64_new_spec v Hv) as (H1 & H2). split; [exact H1 | exact H2]. Qed.
Lemma R_zero : R f64_ZERO 0.
Proof. exact (R_new 0 ltac:(lia)). Qed.
Lemma R_one : R f64_ONE (1 mod M64).
Proof. exact (R_new 1 ltac:(lia)). Qed.

Definition RLL (Rel : Z -> Z -> Prop) : list (list Z) -> list (list Z) -> Prop := Forall2 (Forall2 Rel).
Lemma RLL_flatten Rel xs vs : RLL Rel xs vs -> Forall2 Rel (flatten xs) (flatten vs).
Proof. intros H. unfold flatten. induction H as [|x v xs vs Hxv _ IH]; cbn; [constructor|]. apply Forall2_app; assumption. Qed.

Lemma rp64_perm_hyp : forall ws vs, Forall2 R ws vs -> length ws = 12%nat ->
  Forall2 R (rp64_raw_permutation ws) (rp64_permutation vs) /\ length (rp64_raw_permutation ws) = 12%nat.
Proof. intros ws vs H L. apply rp64_raw_permutation_RL; assumption. Qed.
Lemma jive_perm_hyp : forall ws vs, Forall2 R ws vs -> length ws = 8%nat ->
  Forall2 R (jive_raw_permutation ws) (jive_permutation vs) /\ length (jive_raw_permutation ws) = 8%nat.
Proof. intros ws vs H L. apply jive_raw_permutation_RL; assumption. Qed.

(* raw sponge = value sponge through R (canonical internal word + residue), Rp64_256 *)
Theorem rp64_raw_hash_elements_spec : forall xs vs, RLL R xs vs -> Z.of_nat (length (flatten xs)) < 2 ^ 64 ->
  Forall2 R (rp64_raw_hash_elements xs) (rp64_hash_elements vs).
Proof.
  intros xs vs H L. unfold rp64_raw_hash_elements, rp64_hash_elements, rp64_raw_sponge, rp64_sponge.
  apply (hash_elements_cnt_sim M64 f64_add f64_new f64_ZERO R R_add R_new R_zero 12 4 8 0 4 _ _ rp64_perm_hyp); [apply RLL_flatten; exact H | exact L].
Qed.
Theorem rp64_raw_hash_spec : forall b, bytes b -> Z.of_nat (length b) < 2 ^ 64 ->
  exists r v, rp64_raw_hash b = Some r /\ rp64_hash b = Some v /\ Forall2 R r v.
Proof.
  intros b B L. unfold rp64_raw_hash, rp64_hash, rp64_raw_sponge, rp64_sponge.
  pose proof (hash_bytes_sim M64 f64_new R R_new
    (g_hash_elements_cnt f64_add f64_new f64_ZERO (mkSponge 12 4 8 0 4 rp64_raw_permutation))
    (hash_elements_cnt M64 (mkSponge 12 4 8 0 4 rp64_permutation)) b B L
    (hash_elements_cnt_sim M64 f64_add f64_new f64_ZERO R R_add R_new R_zero 12 4 8 0 4 _ _ rp64_perm_hyp)) as H.
  destruct (g_hash_bytes_with _ _ b) as [r|], (hash_bytes_with M64 _ b) as [v|] eqn:E; try contradiction.
  - eauto.
  - exfalso. apply (hash_total_rp64 b B). exact E.
Qed.
Theorem rp64_raw_merge_spec : forall a va b vb, Forall2 R a va -> Forall2 R b vb ->
  Forall2 R (rp64_raw_merge a b) (rp64_merge va vb).
Proof.
  intros. unfold rp64_raw_merge, rp64_merge, rp64_raw_sponge, rp64_sponge.
  apply (merge_cnt_sim M64 f64_new f64_ZERO R R_new R_zero 12 4 8 0 4 _ _ rp64_perm_hyp); assumption.
Qed.
Theorem rp64_raw_merge_with_int_spec : forall seed vseed v, Forall2 R seed vseed -> 0 <= v < 2 ^ 64 ->
  Forall2 R (rp64_raw_merge_with_int seed v) (rp64_merge_with_int vseed v).
Proof.
  intros. unfold rp64_raw_merge_with_int, rp64_merge_with_int, rp64_raw_sponge, rp64_sponge.
  apply (merge_with_int_cnt_sim M64 f64_new f64_ZERO R ltac:(unfold M64; lia) R_new R_zero 12 4 8 0 4 _ _ rp64_perm_hyp); assumption.
Qed.

(* RpJive64_256 *)
Theorem jive_raw_hash_elements_spec : forall xs vs, RLL R xs vs ->
  Forall2 R (jive_raw_hash_elements xs) (jive_hash_elements vs).
Proof.
  intros xs vs H. unfold jive_raw_hash_elements, jive_hash_elements, jive_raw_sponge, jive_sponge.
  apply (hash_elements_jive_sim M64 f64_add f64_ZERO f64_ONE R R_add R_zero R_one 8 4 4 0 4 _ _ jive_perm_hyp). apply RLL_flatten; exact H.
Qed.
Theorem jive_raw_hash_spec : forall b, bytes b -> Z.of_nat (length b) < 2 ^ 64 ->
  exists r v, jive_raw_hash b = Some r /\ jive_hash b = Some v /\ Forall2 R r v.
Proof.
  intros b B L. unfold jive_raw_hash, jive_hash, jive_raw_sponge, jive_sponge.
  pose proof (hash_bytes_sim M64 f64_new R R_new
    (g_hash_elements_jive f64_add f64_ZERO f64_ONE (mkSponge 8 4 4 0 4 jive_raw_permutation))
    (hash_elements_jive M64 (mkSponge 8 4 4 0 4 jive_permutation)) b B L
    (fun xs ys Hx _ => hash_elements_jive_sim M64 f64_add f64_ZERO f64_ONE R R_add R_zero R_one 8 4 4 0 4 _ _ jive_perm_hyp xs ys Hx)) as H.
  destruct (g_hash_bytes_with _ _ b) as [r|], (hash_bytes_with M64 _ b) as [v|] eqn:E; try contradiction.
  - eauto.
  - exfalso. apply (hash_total_jive b B). exact E.
Qed.
Theorem jive_raw_merge_spec : forall a va b vb, Forall2 R a va -> Forall2 R b vb -> length a = 4%nat -> length b = 4%nat ->
  Forall2 R (jive_raw_merge a b) (jive_merge va vb).
Proof.
  intros a va b vb Ha Hb La Lb. unfold jive_raw_merge, jive_merge.
  apply (merge_jive_sim M64 f64_add f64_ZERO R R_add R_zero 8 _ _ jive_perm_hyp); auto. rewrite app_length, La, Lb. reflexivity.
Qed.
Theorem jive_raw_merge_with_int_spec : forall seed vseed v, Forall2 R seed vseed -> 0 <= v < 2 ^ 64 ->
  Forall2 R (jive_raw_merge_with_int seed v) (jive_merge_with_int vseed v).
Proof.
  intros. unfold jive_raw_merge_with_int, jive_merge_with_int.
  apply (merge_with_int_jive_sim M64 f64_add f64_new f64_ZERO R ltac:(unfold M64; lia) R_add R_new R_zero 8 _ _ jive_perm_hyp); auto.
Qed.

(* what a digest's bytes are: Digest::as_bytes serialises as_int of each word; under R, as_int = the residue *)
Lemma R_as_int ws vs : Forall2 R ws vs -> map f64_as_int ws = vs /\ Forall (fun w => 0 <= w < M64) ws.
Proof.
  intros H. induction H as [|w v ws vs (Hr & Hv) _ (IH1 & IH2)]; [split; constructor|].
  split.
  - cbn [map]. rewrite f64_as_int_spec by (unfold repr, M in Hr; lia). congruence.
  - constructor; [exact Hr | exact IH2].
Qed.

(* ================================================================================================ f62 instance *)
Definition R62 (w v : Z) : Prop := F62Ops.repr62 w /\ F62Ops.val62 w = v.

Lemma R62_mul a x b y : R62 a x -> R62 b y -> R62 (F62.f62_mul a b) (fmul M62 x y).
Proof. intros (Ha & <-) (Hb & <-). destruct (F62Ops.f62_mul_spec a b Ha Hb) as (H1 & H2). split; [exact H1 | exact H2]. Qed.
Lemma R62_add a x b y : R62 a x -> R62 b y -> R62 (F62.f62_add a b) (fadd M62 x y).
Proof. intros (Ha & <-) (Hb & <-). destruct (F62Ops.f62_add_spec a b Ha Hb) as (H1 & H2). split; [exact H1 | exact H2]. Qed.
Lemma R62_new v : 0 <= v < 2 ^ 64 -> R62 (F62.f62_new v) (v mod M62).
Proof. intros Hv. destruct (F62Ops.f62_new_spec v Hv) as (H1 & H2). split; [exact H1 | exact H2]. Qed.
Lemma R62_zero : R62 F62.f62_ZERO 0.
Proof. exact (R62_new 0 ltac:(lia)). Qed.

Lemma table_ok_canon p rows width t : table_ok p rows width t = true ->
  Forall (Forall (fun c => 0 <= c < p)) t /\ Forall (fun r => length r = width) t /\ length t = rows.
Proof.
  unfold table_ok. intros H. apply andb_prop in H. destruct H as (Hl & Hf). apply Nat.eqb_eq in Hl.
  rewrite forallb_forall in Hf. repeat split; [| |exact Hl]; apply Forall_forall; intros r Hr; specialize (Hf r Hr);
    apply andb_prop in Hf; destruct Hf as (H1 & H2).
  - apply Forall_forall. intros c Hc. rewrite forallb_forall in H2. specialize (H2 c Hc).
    apply andb_prop in H2. destruct H2 as (A & B). apply Z.leb_le in A. apply Z.ltb_lt in B. lia.
  - apply Nat.eqb_eq. exact H1.
Qed.
Lemma nth_Forall {A} (P : list A -> Prop) (t : list (list A)) r : P [] -> Forall P t -> P (nth r t []).
Proof. intros H0 H. destruct (nth_in_or_default r t []) as [Hin| ->]; [|exact H0]. rewrite Forall_forall in H. auto. Qed.

Lemma rp62_tables : Forall (Forall (canon M62)) rp62_MDS /\ (forall r, Forall (canon M62) (nth r rp62_ARK1 [])) /\
  (forall r, Forall (canon M62) (nth r rp62_ARK2 [])).
Proof.
  destruct tables_wellformed as (_ & _ & _ & _ & Hm & H1 & H2 & _).
  destruct (table_ok_canon _ _ _ _ Hm) as (Cm & _). destruct (table_ok_canon _ _ _ _ H1) as (C1 & _). destruct (table_ok_canon _ _ _ _ H2) as (C2 & _).
  repeat split; [exact Cm | |]; intros r; apply nth_Forall; auto.
Qed.

Lemma Forall2_R62_length ws vs : Forall2 R62 ws vs -> length ws = length vs.
Proof. intros H. induction H; cbn; congruence. Qed.

(* lengths through the value-level round (both sides have the same length under Forall2) *)
Lemma apply_round_length p P s r n : length (rp_mds P) = n -> length (nth r (rp_ark2 P) []) = n -> length (apply_round p P s r) = n.
Proof.
  intros Hm Ha. unfold apply_round. cbv zeta. unfold add_constants at 1. rewrite map_length, combine_length.
  unfold mat_vec at 1. rewrite map_length, Hm, Ha. apply Nat.min_id.
Qed.

Lemma rp62_perm_hyp : forall ws vs, Forall2 R62 ws vs -> length ws = 12%nat ->
  Forall2 R62 (rp62_raw_permutation ws) (rp62_permutation vs) /\ length (rp62_raw_permutation ws) = 12%nat.
Proof.
  intros ws vs H L. destruct rp62_tables as (Cm & C1 & C2).
  assert (G : Forall2 R62 (rp62_raw_permutation ws) (rp62_permutation vs)).
  { unfold rp62_raw_permutation, rp62_permutation, rp62_params.
    apply (RLg_permutation62 M62 F62.f62_mul F62.f62_add F62.f62_new F62.f62_ZERO R62 ltac:(unfold M62; lia) ltac:(unfold M62; lia)
             R62_mul R62_add R62_new R62_zero rp62_MDS rp62_ARK1 rp62_ARK2 Cm C1 C2). exact H. }
  split; [exact G|]. rewrite (Forall2_R62_length _ _ G).
  (* length of the value-level permutation output: the last round ends with add_constants over 12-wide tables *)
  unfold rp62_permutation, apply_permutation. change (seq 0 7) with ([0; 1; 2; 3; 4; 5] ++ [6])%nat.
  rewrite fold_left_app. cbn [fold_left]. apply apply_round_length; reflexivity.
Qed.

Theorem rp62_raw_permutation_spec : forall ws, length ws = 12%nat -> Forall F62Ops.repr62 ws ->
  Forall F62Ops.repr62 (rp62_raw_permutation ws) /\ map F62Ops.val62 (rp62_raw_permutation ws) = rp62_permutation (map F62Ops.val62 ws).
Proof.
  intros ws L Hr.
  assert (H0 : Forall2 R62 ws (map F62Ops.val62 ws)).
  { clear L. induction Hr; cbn; [constructor|]. constructor; [split; auto | auto]. }
  destruct (rp62_perm_hyp _ _ H0 L) as (H & _). clear H0.
  split; induction H as [|w v ws' vs' (A & B) _ IH]; cbn; try constructor; auto; try congruence.
Qed.

Theorem rp62_raw_hash_elements_spec : forall xs vs, RLL R62 xs vs -> Z.of_nat (length (flatten xs)) < 2 ^ 64 ->
  Forall2 R62 (rp62_raw_hash_elements xs) (rp62_hash_elements vs).
Proof.
  intros xs vs H L. unfold rp62_raw_hash_elements, rp62_hash_elements, rp62_raw_sponge, rp62_sponge.
  apply (hash_elements_cnt_sim M62 F62.f62_add F62.f62_new F62.f62_ZERO R62 R62_add R62_new R62_zero 12 0 8 11 0 _ _ rp62_perm_hyp); [apply RLL_flatten; exact H | exact L].
Qed.
Theorem rp62_raw_hash_spec : forall b, bytes b -> Z.of_nat (length b) < 2 ^ 64 ->
  exists r v, rp62_raw_hash b = Some r /\ rp62_hash b = Some v /\ Forall2 R62 r v.
Proof.
  intros b B L. unfold rp62_raw_hash, rp62_hash, rp62_raw_sponge, rp62_sponge.
  pose proof (hash_bytes_sim M62 F62.f62_new R62 R62_new
    (g_hash_elements_cnt F62.f62_add F62.f62_new F62.f62_ZERO (mkSponge 12 0 8 11 0 rp62_raw_permutation))
    (hash_elements_cnt M62 (mkSponge 12 0 8 11 0 rp62_permutation)) b B L
    (hash_elements_cnt_sim M62 F62.f62_add F62.f62_new F62.f62_ZERO R62 R62_add R62_new R62_zero 12 0 8 11 0 _ _ rp62_perm_hyp)) as H.
  destruct (g_hash_bytes_with _ _ b) as [r|], (hash_bytes_with M62 _ b) as [v|] eqn:E; try contradiction.
  - eauto.
  - exfalso. apply (hash_total_rp62 b B). exact E.
Qed.
Theorem rp62_raw_merge_spec : forall a va b vb, Forall2 R62 a va -> Forall2 R62 b vb ->
  Forall2 R62 (rp62_raw_merge a b) (rp62_merge va vb).
Proof.
  intros. unfold rp62_raw_merge, rp62_merge, rp62_raw_sponge, rp62_sponge.
  apply (merge_cnt_sim M62 F62.f62_new F62.f62_ZERO R62 R62_new R62_zero 12 0 8 11 0 _ _ rp62_perm_hyp); assumption.
Qed.
Theorem rp62_raw_merge_with_int_spec : forall seed vseed v, Forall2 R62 seed vseed -> 0 <= v < 2 ^ 64 ->
  Forall2 R62 (rp62_raw_merge_with_int seed v) (rp62_merge_with_int vseed v).
Proof.
  intros. unfold rp62_raw_merge_with_int, rp62_merge_with_int, rp62_raw_sponge, rp62_sponge.
  apply (merge_with_int_cnt_sim M62 F62.f62_new F62.f62_ZERO R62 ltac:(unfold M62; lia) R62_new R62_zero 12 0 8 11 0 _ _ rp62_perm_hyp); assumption.
Qed.

(* f62 digests: the internal words are only in [0, 2M) (two words per residue); Digest::as_bytes and `==` go through
   as_int / normalisation: as_int of the raw digest words = the value-level digest, canonical *)
Lemma R62_as_int ws vs : Forall2 R62 ws vs -> map F62.f62_as_int ws = vs /\ Forall (fun v => 0 <= v < M62) vs.
Proof.
  intros H. induction H as [|w v ws vs (Hr & Hv) _ (IH1 & IH2)]; [split; constructor|].
  split.
  - cbn [map]. rewrite (F62Ops.f62_as_int_spec w Hr). congruence.
  - constructor; [rewrite <- Hv; apply F62Ops.val62_range | exact IH2].
Qed.

Lemma ex_R62_nonvacuous : R62 0 0 /\ R62 M62 0 /\ Forall2 R62 [1; M62 + 1] [F62Ops.val62 1; F62Ops.val62 1].
Proof.
  assert (H := F62Ops.val62_two_words). destruct H as (E & _).
  repeat split; try (unfold F62Ops.repr62, F62Ops.M62, M62; lia); try reflexivity.
  constructor; [split; [unfold F62Ops.repr62, F62Ops.M62; lia | reflexivity]|].
  constructor; [split; [unfold F62Ops.repr62, F62Ops.M62, M62; lia | symmetry; exact E]|constructor].
Qed.
