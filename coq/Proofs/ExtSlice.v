(* C08 — slice reinterpretation (list model: flatten / group) and serialization round trips of the extension
   element models.  The `#[repr(C)]` memory layout behind the zero-copy casts is modelled, not verified. *)
From Coq Require Import ZArith List Bool Lia Arith.
From VBase Require Import MachInt FieldOps.
From VModel Require Import ExtField.
Import ListNotations.

Section Slices.
Context {F : Type}.

(* ---------- quadratic ---------- *)
Lemma q_slice_as_base_length : forall l : list (F * F), length (q_slice_as_base l) = (2 * length l)%nat.
Proof. induction l as [|a l IH]; cbn [q_slice_as_base flat_map q_to_base_elements app length] in *; [reflexivity|]. unfold q_slice_as_base in IH. lia. Qed.

Lemma q_group_flatten : forall l : list (F * F), q_group (q_slice_as_base l) = l.
Proof.
  induction l as [|[a b] l IH]; [reflexivity|].
  cbn [q_slice_as_base flat_map q_to_base_elements app fst snd q_group]. f_equal. exact IH.
Qed.

Lemma q_flatten_group : forall n (l : list F), length l = (2 * n)%nat -> q_slice_as_base (q_group l) = l.
Proof.
  induction n as [|n IH]; intros l H.
  - destruct l; [reflexivity|cbn in H; lia].
  - destruct l as [|a [|b t]]; cbn [length] in H; try lia.
    cbn [q_group q_slice_as_base flat_map q_to_base_elements app fst snd]. f_equal. f_equal.
    apply IH. lia.
Qed.

Theorem q_slice_roundtrip_ext : forall l : list (F * F), q_slice_from_base (q_slice_as_base l) = Some l.
Proof.
  intros l. unfold q_slice_from_base. rewrite q_slice_as_base_length.
  replace ((2 * length l) mod 2)%nat with 0%nat.
  - cbn [Nat.eqb]. rewrite q_group_flatten. reflexivity.
  - symmetry. rewrite Nat.mul_comm. apply Nat.mod_mul. lia.
Qed.

Theorem q_slice_roundtrip_base : forall (l : list F) g, q_slice_from_base l = Some g -> q_slice_as_base g = l.
Proof.
  intros l g. unfold q_slice_from_base. destruct (Nat.eqb (length l mod 2) 0) eqn:E; [|discriminate].
  intros H. injection H as <-. apply Nat.eqb_eq in E.
  apply (q_flatten_group (length l / 2)). apply Nat.div_exact in E; lia.
Qed.

Theorem q_slice_from_base_panics_iff : forall l : list F,
  q_slice_from_base l = None <-> (length l mod 2 <> 0)%nat.
Proof.
  intros l. unfold q_slice_from_base. destruct (Nat.eqb (length l mod 2) 0) eqn:E.
  - apply Nat.eqb_eq in E. split; [discriminate|intros H; contradiction].
  - apply Nat.eqb_neq in E. split; [intros _; exact E|reflexivity].
Qed.

(* ---------- cubic ---------- *)
Lemma c_slice_as_base_length : forall l : list (F * F * F), length (c_slice_as_base l) = (3 * length l)%nat.
Proof. induction l as [|a l IH]; cbn [c_slice_as_base flat_map c_to_base_elements app length] in *; [reflexivity|]. unfold c_slice_as_base in IH. lia. Qed.

Lemma c_group_flatten : forall l : list (F * F * F), c_group (c_slice_as_base l) = l.
Proof.
  induction l as [|[[a b] c] l IH]; [reflexivity|].
  cbn [c_slice_as_base flat_map c_to_base_elements app fst snd c0 c1 c2 c_group]. f_equal. exact IH.
Qed.

Lemma c_flatten_group : forall n (l : list F), length l = (3 * n)%nat -> c_slice_as_base (c_group l) = l.
Proof.
  induction n as [|n IH]; intros l H.
  - destruct l; [reflexivity|cbn in H; lia].
  - destruct l as [|a [|b [|c t]]]; cbn [length] in H; try lia.
    cbn [c_group c_slice_as_base flat_map c_to_base_elements app fst snd c0 c1 c2]. do 3 f_equal.
    apply IH. lia.
Qed.

Theorem c_slice_roundtrip_ext : forall l : list (F * F * F), c_slice_from_base (c_slice_as_base l) = Some l.
Proof.
  intros l. unfold c_slice_from_base. rewrite c_slice_as_base_length.
  replace ((3 * length l) mod 3)%nat with 0%nat.
  - cbn [Nat.eqb]. rewrite c_group_flatten. reflexivity.
  - symmetry. rewrite Nat.mul_comm. apply Nat.mod_mul. lia.
Qed.

Theorem c_slice_roundtrip_base : forall (l : list F) g, c_slice_from_base l = Some g -> c_slice_as_base g = l.
Proof.
  intros l g. unfold c_slice_from_base. destruct (Nat.eqb (length l mod 3) 0) eqn:E; [|discriminate].
  intros H. injection H as <-. apply Nat.eqb_eq in E.
  apply (c_flatten_group (length l / 3)). apply Nat.div_exact in E; lia.
Qed.

Theorem c_slice_from_base_panics_iff : forall l : list F,
  c_slice_from_base l = None <-> (length l mod 3 <> 0)%nat.
Proof.
  intros l. unfold c_slice_from_base. destruct (Nat.eqb (length l mod 3) 0) eqn:E.
  - apply Nat.eqb_eq in E. split; [discriminate|intros H; contradiction].
  - apply Nat.eqb_neq in E. split; [intros _; exact E|reflexivity].
Qed.
End Slices.

(* ---------- serialization ---------- *)
Section Serde.
Variable p : Z.
Variable nb : nat.
Hypothesis Hp : 0 < p <= 256 ^ Z.of_nat nb.

Lemma base_read_write : forall v rest, 0 <= v < p ->
  base_read p nb (base_write nb v ++ rest) = Some (v, rest).
Proof.
  intros v rest Hv. unfold base_read, base_write.
  assert (Hl : length (to_le_bytes nb v) = nb) by apply to_le_bytes_length.
  replace (Nat.ltb (length (to_le_bytes nb v ++ rest)) nb) with false.
  2:{ symmetry. apply Nat.ltb_ge. rewrite app_length. lia. }
  rewrite firstn_app, Hl, Nat.sub_diag. rewrite firstn_all2 by lia. cbn [firstn]. rewrite app_nil_r.
  rewrite of_to_le_bytes by lia.
  replace (Z.leb p v) with false by (symmetry; apply Z.leb_gt; lia).
  rewrite skipn_app, Hl, Nat.sub_diag. rewrite skipn_all2 by lia. reflexivity.
Qed.

Theorem q_read_write : forall a rest, 0 <= fst a < p -> 0 <= snd a < p ->
  q_read p nb (q_write nb a ++ rest) = Some (a, rest).
Proof.
  intros [a0 a1] rest H0 H1. cbn [fst snd] in *. unfold q_read, q_write. cbn [fst snd].
  rewrite <- app_assoc, base_read_write by assumption. rewrite base_read_write by assumption. reflexivity.
Qed.

Theorem q_try_from_bytes_write : forall a, 0 <= fst a < p -> 0 <= snd a < p ->
  q_try_from_bytes p nb (q_write nb a) = Some a.
Proof.
  intros a H0 H1. unfold q_try_from_bytes.
  replace (Nat.eqb (length (q_write nb a)) (2 * nb)) with true.
  2:{ symmetry. apply Nat.eqb_eq. unfold q_write, base_write. rewrite app_length, !to_le_bytes_length. lia. }
  rewrite <- (app_nil_r (q_write nb a)). rewrite q_read_write by assumption. reflexivity.
Qed.

Theorem c_read_write : forall a rest, 0 <= c0 a < p -> 0 <= c1 a < p -> 0 <= c2 a < p ->
  c_read p nb (c_write nb a ++ rest) = Some (a, rest).
Proof.
  intros [[a0 a1] a2] rest H0 H1 H2. unfold c0, c1, c2 in *. cbn [fst snd] in *. unfold c_read, c_write. cbn [fst snd].
  rewrite <- !app_assoc, base_read_write by assumption. rewrite base_read_write by assumption.
  rewrite base_read_write by assumption. reflexivity.
Qed.

Theorem c_try_from_bytes_write : forall a, 0 <= c0 a < p -> 0 <= c1 a < p -> 0 <= c2 a < p ->
  c_try_from_bytes p nb (c_write nb a) = Some a.
Proof.
  intros a H0 H1 H2. unfold c_try_from_bytes.
  replace (Nat.eqb (length (c_write nb a)) (3 * nb)) with true.
  2:{ symmetry. apply Nat.eqb_eq. unfold c_write, base_write. rewrite !app_length, !to_le_bytes_length. lia. }
  rewrite <- (app_nil_r (c_write nb a)). rewrite c_read_write by assumption. reflexivity.
Qed.

(* a successful read returns canonical coefficients (non-canonical encodings are rejected) *)
Lemma base_read_canonical : forall bs v rest, (forall b, In b bs -> 0 <= b) ->
  base_read p nb bs = Some (v, rest) -> 0 <= v < p.
Proof.
  intros bs v rest Hb. unfold base_read. destruct (Nat.ltb (length bs) nb); [discriminate|].
  destruct (Z.leb p (of_le_bytes (firstn nb bs))) eqn:E; [discriminate|].
  intros H. injection H as <- _. apply Z.leb_gt in E. split; [|exact E].
  assert (G : forall l, (forall b, In b l -> 0 <= b) -> 0 <= of_le_bytes l).
  { induction l as [|x l IH]; intros Hl; cbn [of_le_bytes]; [lia|].
    assert (0 <= x) by (apply Hl; left; reflexivity).
    assert (0 <= of_le_bytes l) by (apply IH; intros; apply Hl; right; assumption). lia. }
  apply G. intros b Hin. apply Hb. rewrite <- (firstn_skipn nb bs). apply in_or_app. left. exact Hin.
Qed.
(* converse: a successful read consumed exactly the canonical encoding of what it returns *)
Lemma to_of_le_bytes : forall l, (forall b, In b l -> 0 <= b < 256) -> to_le_bytes (length l) (of_le_bytes l) = l.
Proof.
  induction l as [|x l IH]; intros Hl; [reflexivity|].
  cbn [length to_le_bytes of_le_bytes].
  assert (Hx : 0 <= x < 256) by (apply Hl; left; reflexivity).
  replace ((x + 256 * of_le_bytes l) mod 256) with x.
  2:{ replace (x + 256 * of_le_bytes l) with (x + of_le_bytes l * 256) by ring.
      rewrite Z.mod_add by lia. symmetry. apply Z.mod_small. exact Hx. }
  replace ((x + 256 * of_le_bytes l) / 256) with (of_le_bytes l).
  2:{ replace (x + 256 * of_le_bytes l) with (x + of_le_bytes l * 256) by ring.
      rewrite Z.div_add by lia. rewrite (Z.div_small x 256) by exact Hx. lia. }
  f_equal. apply IH. intros b Hb. apply Hl. right. exact Hb.
Qed.

Lemma base_read_inv : forall bs v rest, (forall b, In b bs -> 0 <= b < 256) ->
  base_read p nb bs = Some (v, rest) -> bs = base_write nb v ++ rest /\ 0 <= v < p /\ (forall b, In b rest -> 0 <= b < 256).
Proof.
  intros bs v rest Hb. unfold base_read, base_write.
  destruct (Nat.ltb (length bs) nb) eqn:El; [discriminate|]. apply Nat.ltb_ge in El.
  destruct (Z.leb p (of_le_bytes (firstn nb bs))) eqn:E; [discriminate|].
  intros H. injection H as <- <-. apply Z.leb_gt in E.
  assert (Hf : forall b, In b (firstn nb bs) -> 0 <= b < 256).
  { intros b Hin. apply Hb. rewrite <- (firstn_skipn nb bs). apply in_or_app. left. exact Hin. }
  split; [|split].
  - rewrite <- (firstn_length_le bs El) at 1. rewrite (to_of_le_bytes _ Hf). symmetry. apply firstn_skipn.
  - split; [|exact E].
    assert (G : forall l, (forall b, In b l -> 0 <= b < 256) -> 0 <= of_le_bytes l).
    { induction l as [|x l IH]; intros Hl; cbn [of_le_bytes]; [lia|].
      assert (0 <= x < 256) by (apply Hl; left; reflexivity).
      assert (0 <= of_le_bytes l) by (apply IH; intros; apply Hl; right; assumption). lia. }
    apply G. exact Hf.
  - intros b Hin. apply Hb. rewrite <- (firstn_skipn nb bs). apply in_or_app. right. exact Hin.
Qed.

Theorem q_read_inv : forall bs a rest, (forall b, In b bs -> 0 <= b < 256) ->
  q_read p nb bs = Some (a, rest) -> bs = q_write nb a ++ rest /\ 0 <= fst a < p /\ 0 <= snd a < p.
Proof.
  intros bs a rest Hb. unfold q_read, q_write.
  destruct (base_read p nb bs) as [[v0 r0]|] eqn:E0; [|discriminate].
  destruct (base_read p nb r0) as [[v1 r1]|] eqn:E1; [|discriminate].
  intros H. injection H as <- <-. cbn [fst snd].
  destruct (base_read_inv _ _ _ Hb E0) as (B0 & C0 & Hr0).
  destruct (base_read_inv _ _ _ Hr0 E1) as (B1 & C1 & _).
  split; [|split; assumption]. rewrite B0, B1, app_assoc. reflexivity.
Qed.

Theorem c_read_inv : forall bs a rest, (forall b, In b bs -> 0 <= b < 256) ->
  c_read p nb bs = Some (a, rest) -> bs = c_write nb a ++ rest /\ 0 <= c0 a < p /\ 0 <= c1 a < p /\ 0 <= c2 a < p.
Proof.
  intros bs a rest Hb. unfold c_read, c_write.
  destruct (base_read p nb bs) as [[v0 r0]|] eqn:E0; [|discriminate].
  destruct (base_read p nb r0) as [[v1 r1]|] eqn:E1; [|discriminate].
  destruct (base_read p nb r1) as [[v2 r2]|] eqn:E2; [|discriminate].
  intros H. injection H as <- <-. unfold c0, c1, c2. cbn [fst snd].
  destruct (base_read_inv _ _ _ Hb E0) as (B0 & C0 & Hr0).
  destruct (base_read_inv _ _ _ Hr0 E1) as (B1 & C1 & Hr1).
  destruct (base_read_inv _ _ _ Hr1 E2) as (B2 & C2 & _).
  split; [|split; [|split]; assumption]. rewrite B0, B1, B2, <- !app_assoc. reflexivity.
Qed.
End Serde.
