(* C17 — round 8 (B): the Lagrange hypotheses `numer_vanishes` / `first_cell` discharged for the HONEST kernel column with
   C01's row-to-point translation (Proofs/StarkLagrangeRows.v: honest_numer_vanishes, honest_first_cell), and the Lagrange
   capstone with its Lagrange premise instantiated. *)
From Coq Require Import List Arith Bool Lia ZArith.
From VBase Require Import MachInt FieldOps.
From VModel Require Import Composition CompositionLagrange.
From VModel Require Stark Enforce EnforceLagrange.
From VProofs Require StarkPoly StarkDeep StarkLagrangeRows.
From VProofs Require Import CompositionBase CompositionIndex CompositionLagrange CompositionLagrangePoly.
Import ListNotations.
Local Open Scope nat_scope.

Section Honest.
Context {F : Type} (O : FOps F) (L : FLaws O).
Variable n v : nat.
Variable rou : nat -> F.
Hypothesis n_eq : n = 2 ^ v.
Hypothesis g_prim : StarkPoly.primitive_root O (gtrace n rou) n.
Variable Lp rr : list F.
Hypothesis rr_len : length rr = v.
(* the kernel column polynomial interpolates the honest Lagrange kernel column eq(r, bits of the row) over the trace domain *)
Hypothesis Lp_interp : forall i, i < n ->
  peval O Lp (cpow O (gtrace n rou) i) = nth i (StarkLagrangeRows.kernel_col O v rr) (fzero O).
Variable t : EnforceLagrange.LagTC (F := F).
Variable lb : F.

(* lag_def of the honest column is ONE polynomial off the Lagrange divisor zeros — no vanishing hypothesis left *)
Theorem lag_def_is_poly_honest :
  exists Q, length Q <= length Lp /\ forall x, lag_good O v x -> lag_def O n rou v Lp t rr lb x = peval O Q x.
Proof.
  assert (Hn : 0 < n) by (rewrite n_eq; pose proof (Nat.pow_nonzero 2 v); lia).
  apply (lag_def_is_poly O L n v (gtrace n rou) n_eq g_prim Lp rr rr_len).
  - exact (StarkLagrangeRows.honest_numer_vanishes O L n v (gtrace n rou) n_eq rr rr_len Lp Lp_interp).
  - exact (StarkLagrangeRows.honest_first_cell O L n v (gtrace n rou) n_eq rr rr_len Lp Lp_interp Hn).
  - reflexivity.
Qed.
End Honest.
