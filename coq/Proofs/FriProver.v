(* C15 — prover_reusable: build_proof returns the prover in the state FriProver::new creates (layers and
   remainder cleared), whatever the proof is; so the `assert!(self.layers.is_empty())` of the next build_layers
   cannot fire.  stdlib style. *)
From Coq Require Import List Arith Bool.
From VBase Require Import FieldOps.
From VModel Require Import Fri.
Import ListNotations.

Section Prover.
Context {F : Type}.
Variable MT MN : Type.
Variable mt_prove_batch : MT -> list nat -> option MN.

Theorem prover_reusable : forall (p p' : @prover F MT) positions proof,
  build_proof MT MN mt_prove_batch p positions = Ok (p', proof) ->
  p' = prover_new MT (pr_options MT p) /\ pr_layers MT p' = [] /\ pr_remainder MT p' = [] /\
  fp_remainder proof = pr_remainder MT p /\ fp_partitions proof = 1.
Proof.
  intros p p' positions proof. unfold build_proof.
  destruct (is_nil (pr_remainder MT p)); [discriminate|].
  destruct (match pr_layers MT p with [] => Ok [] | _ => _ end) as [layers| |]; cbn [bind]; try discriminate.
  destruct (negb (is_pow2 (length (pr_remainder MT p)))); [discriminate|].
  intros [= <- <-]. repeat split.
Qed.

End Prover.
