(* C10 — map_indexes / normalize_indexes specifications and list-prefix machinery. *)
From Coq Require Import ZArith List Bool Lia.
From VBase Require Import MachInt.
From VModel Require Import Merkle.
From VProofs Require Import MerkleBase.
Import ListNotations.
Open Scope Z_scope.

(* ---------------------------------------------------------------- prefixes *)
Definition prefix {A} (l L : list A) : Prop := exists r, L = l ++ r.

Lemma prefix_refl {A} (l : list A) : prefix l l.
Proof. exists []. rewrite app_nil_r. reflexivity. Qed.

Lemma prefix_trans {A} (a b c : list A) : prefix a b -> prefix b c -> prefix a c.
Proof. intros [r ->] [s ->]. exists (r ++ s). rewrite app_assoc. reflexivity. Qed.

Lemma prefix_app {A} (a r : list A) : prefix a (a ++ r).
Proof. exists r. reflexivity. Qed.

Lemma prefix_snoc_nth {A} (l L : list A) x : prefix (l ++ [x]) L -> nth_error L (length l) = Some x /\ (length l < length L)%nat.
Proof.
  intros [r ->]. rewrite <- app_assoc. split.
  - rewrite nth_error_app2 by lia. rewrite Nat.sub_diag. reflexivity.
  - rewrite !app_length. simpl. lia.
Qed.

Lemma prefix_nth {A} (l L : list A) q x : prefix l L -> nth_error l q = Some x -> nth_error L q = Some x.
Proof.
  intros [r ->] H. rewrite nth_error_app1; [assumption|]. apply nth_error_Some. congruence.
Qed.

Lemma Forall2_refl {A} (R : A -> A -> Prop) (l : list A) : (forall a, R a a) -> Forall2 R l l.
Proof. intros H. induction l; constructor; auto. Qed.

Lemma Forall2_trans {A} (R : A -> A -> Prop) (a b c : list A) :
  (forall x y z, R x y -> R y z -> R x z) -> Forall2 R a b -> Forall2 R b c -> Forall2 R a c.
Proof.
  intros T H. revert c. induction H; intros c H2; inversion H2; subst; constructor; eauto.
Qed.

Lemma Forall2_nth {A B} (R : A -> B -> Prop) a b q x :
  Forall2 R a b -> nth_error a q = Some x -> exists y, nth_error b q = Some y /\ R x y.
Proof.
  intros H. revert q. induction H; intros q E; destruct q; simpl in *; try discriminate.
  - injection E as <-. eauto.
  - eauto.
Qed.

Lemma Forall2_len {A B} (R : A -> B -> Prop) a b : Forall2 R a b -> length a = length b.
Proof. induction 1; simpl; congruence. Qed.

Lemma nth_error_ext' {A} (l l' : list A) : (forall j, nth_error l j = nth_error l' j) -> l = l'.
Proof.
  revert l'. induction l as [|a l IH]; intros [|a' l'] H; try reflexivity.
  - specialize (H 0%nat). discriminate.
  - specialize (H 0%nat). discriminate.
  - pose proof (H 0%nat) as H0. simpl in H0. injection H0 as ->. f_equal. apply IH. intros j. exact (H (S j)).
Qed.

Lemma Forall2_upd {A} (R : A -> A -> Prop) (l l' : list A) q x x' :
  (forall a, R a a) ->
  nth_error l q = Some x -> R x x' -> length l' = length l ->
  (forall j, nth_error l' j = if Nat.eqb j q then Some x' else nth_error l j) ->
  Forall2 R l l'.
Proof.
  intros Rr. revert l' q. induction l as [|a l IH]; intros l' q E Rx L N.
  - destruct q; discriminate.
  - destruct l' as [|a' l']; [discriminate|]. destruct q as [|q].
    + simpl in E. injection E as ->. pose proof (N 0%nat) as N0. simpl in N0. injection N0 as ->.
      constructor; [assumption|].
      assert (l' = l); [|subst; apply Forall2_refl; assumption].
      apply nth_error_ext'. intros j. exact (N (S j)).
    + pose proof (N 0%nat) as N0. simpl in N0. injection N0 as ->. constructor; [apply Rr|].
      apply (IH l' q); [exact E|exact Rx|simpl in L; lia|]. intros j. exact (N (S j)).
Qed.

Lemma skipn_cons_nth {A} (l : list A) n a r : skipn n l = a :: r -> nth_error l n = Some a /\ skipn (S n) l = r.
Proof.
  revert l. induction n as [|n IH]; intros l H.
  - destruct l; simpl in H; [discriminate|]. injection H as -> ->. auto.
  - destruct l as [|b l]; [discriminate|]. simpl in H. apply IH in H. exact H.
Qed.

(* ---------------------------------------------------------------- assoc maps, continued *)
Lemma bt_insert_length_new {X} k (x : X) m : bt_get k m = None -> length (bt_insert k x m) = S (length m).
Proof.
  induction m as [|[k' x'] m IH]; simpl; [reflexivity|].
  destruct (Z.eqb_spec k k'); [discriminate|]. intros H.
  destruct (Z.ltb_spec k k'); [reflexivity|]. simpl. rewrite IH by assumption. reflexivity.
Qed.

Lemma bt_insert_length_le {X} k (x : X) m : (length (bt_insert k x m) <= S (length m))%nat.
Proof.
  induction m as [|[k' x'] m IH]; simpl; [lia|].
  destruct (Z.ltb_spec k k'); [simpl; lia|]. destruct (Z.eqb_spec k k'); simpl; lia.
Qed.

(* sortedness of keys *)
Fixpoint keys_sorted {X} (m : bmap X) : Prop :=
  match m with
  | [] => True
  | (k, _) :: r => (forall k' x', In (k', x') r -> k < k') /\ keys_sorted r
  end.

Lemma bt_insert_In {X} k (x : X) m k2 x2 :
  In (k2, x2) (bt_insert k x m) -> (k2 = k /\ x2 = x) \/ In (k2, x2) m.
Proof.
  induction m as [|[k' x'] m IH]; simpl.
  - intros [[= <- <-]|[]]. auto.
  - destruct (Z.ltb_spec k k'); simpl.
    + intros [[= <- <-]|H']; auto.
    + destruct (Z.eqb_spec k k'); simpl.
      * intros [[= <- <-]|H']; auto.
      * intros [E|H']; [auto|]. apply IH in H'. destruct H'; auto.
Qed.

Lemma bt_insert_sorted {X} k (x : X) m : keys_sorted m -> keys_sorted (bt_insert k x m).
Proof.
  induction m as [|[k' x'] m IH]; simpl.
  - intros _. split; [intros ? ? []|exact I].
  - intros [Hlt Hs]. destruct (Z.ltb_spec k k'); simpl.
    + split; [|split; assumption]. intros k2 x2 [[= <- <-]|H2]; [assumption|]. apply Hlt in H2. lia.
    + destruct (Z.eqb_spec k k'); simpl.
      * subst k'. split; assumption.
      * split; [|apply IH; assumption]. intros k2 x2 H2. apply bt_insert_In in H2.
        destruct H2 as [[-> ->]|H2]; [lia|]. apply Hlt in H2. assumption.
Qed.

Lemma bt_get_In {X} k (x : X) m : bt_get k m = Some x -> In (k, x) m.
Proof.
  induction m as [|[k' x'] m IH]; simpl; [discriminate|].
  destruct (Z.eqb_spec k k'); [intros [= <-]; subst; auto|auto].
Qed.

Lemma bt_get_sorted_In {X} k (x : X) m : keys_sorted m -> In (k, x) m -> bt_get k m = Some x.
Proof.
  induction m as [|[k' x'] m IH]; simpl; [intros _ []|].
  intros [Hlt Hs] [[= -> ->]|H].
  - rewrite Z.eqb_refl. reflexivity.
  - destruct (Z.eqb_spec k k'); [subst; apply Hlt in H; lia|]. auto.
Qed.

Lemma bt_insert_length_old {X} k (x : X) m : keys_sorted m -> bt_get k m <> None -> length (bt_insert k x m) = length m.
Proof.
  induction m as [|[k' x'] m IH]; simpl; [congruence|].
  intros [Hlt Hs]. destruct (Z.eqb_spec k k').
  - intros _. subst. destruct (Z.ltb_spec k' k'); [lia|]. reflexivity.
  - intros H. destruct (Z.ltb_spec k k').
    + exfalso. destruct (bt_get k m) eqn:E; [|congruence]. apply bt_get_In in E. apply Hlt in E. lia.
    + simpl. rewrite IH by assumption. reflexivity.
Qed.

(* ---------------------------------------------------------------- map_indexes *)
(* imap maps a queried position to its place in the index list *)
Definition imap_ok (indexes : list Z) (imap : bmap Z) : Prop :=
  forall i j, bt_get i imap = Some j <-> (0 <= j /\ nth_error indexes (Z.to_nat j) = Some i).

Lemma mi_loop_complete : forall rest pre num_leaves map,
  NoDup (pre ++ rest) -> (forall x, In x rest -> x < num_leaves) ->
  imap_ok pre map -> length map = length pre ->
  exists map', mi_loop num_leaves rest (zlen pre) map = Ok map' /\
               imap_ok (pre ++ rest) map' /\ length map' = length (pre ++ rest).
Proof.
  induction rest as [|x r IH]; intros pre nl map ND Hr Hm HL.
  - exists map. rewrite app_nil_r. auto.
  - cbn [mi_loop]. destruct (Z.leb_spec nl x); [specialize (Hr x (or_introl eq_refl)); lia|].
    assert (Hnx : ~ In x pre).
    { intros Hin. rewrite <- (app_nil_r pre) in ND. apply NoDup_remove_2 in ND.
      replace (pre ++ x :: r) with ((pre ++ [x]) ++ r) in ND by (rewrite <- app_assoc; reflexivity).
      apply ND. rewrite app_nil_r. apply in_or_app. left. assumption. }
    assert (Hnone : bt_get x map = None).
    { destruct (bt_get x map) eqn:E; [|reflexivity]. apply Hm in E. destruct E as [_ E].
      apply nth_error_In in E. contradiction. }
    replace (zlen pre + 1) with (zlen (pre ++ [x])) by (rewrite zlen_app; reflexivity).
    replace (pre ++ x :: r) with ((pre ++ [x]) ++ r) by (rewrite <- app_assoc; reflexivity).
    apply IH.
    + rewrite <- app_assoc. exact ND.
    + intros y Hy. apply Hr. right. assumption.
    + intros i j. rewrite bt_get_insert. destruct (Z.eqb_spec i x) as [->|Hne].
      * split.
        -- intros [= <-]. split; [apply zlen_nonneg|]. unfold zlen. rewrite Nat2Z.id.
           rewrite nth_error_app2 by lia. rewrite Nat.sub_diag. reflexivity.
        -- intros [Hj E]. destruct (Nat.lt_ge_cases (Z.to_nat j) (length pre)) as [Hlt|Hge].
           ++ rewrite nth_error_app1 in E by assumption. apply nth_error_In in E. contradiction.
           ++ assert (Z.to_nat j = length pre).
              { assert (Z.to_nat j < length (pre ++ [x]))%nat by (apply nth_error_Some; congruence).
                rewrite app_length in *. simpl in *. lia. }
              f_equal. unfold zlen. lia.
      * rewrite (Hm i j). split; intros [Hj E]; (split; [assumption|]).
        -- rewrite nth_error_app1; [assumption|]. apply nth_error_Some. congruence.
        -- destruct (Nat.lt_ge_cases (Z.to_nat j) (length pre)) as [Hlt|Hge].
           ++ rewrite nth_error_app1 in E by assumption. assumption.
           ++ rewrite nth_error_app2 in E by assumption.
              destruct (Z.to_nat j - length pre)%nat as [|q]; simpl in E; [congruence|destruct q; discriminate].
    + rewrite bt_insert_length_new by assumption. rewrite app_length. simpl. lia.
Qed.

Lemma map_indexes_complete : forall indexes depth,
  0 <= depth < 64 -> NoDup indexes -> (forall x, In x indexes -> x < 2 ^ depth) ->
  exists imap, map_indexes indexes depth = Ok imap /\ imap_ok indexes imap /\ length imap = length indexes.
Proof.
  intros indexes depth Hd ND Hr. unfold map_indexes.
  destruct (Z.leb_spec 64 depth); [lia|].
  destruct (mi_loop_complete indexes [] (2 ^ depth) []) as (imap & E & Hm & HL); try assumption.
  - intros i j. simpl. split; [discriminate|]. intros [_ E]. destruct (Z.to_nat j); discriminate.
  - reflexivity.
  - change (zlen []) with 0 in E. rewrite E. cbn [bind]. simpl app in *.
    unfold zlen. rewrite HL, Z.eqb_refl. cbn [negb]. eauto.
Qed.

Lemma imap_ok_inj indexes imap k k' j : imap_ok indexes imap ->
  bt_get k imap = Some j -> bt_get k' imap = Some j -> k = k'.
Proof. intros H E E'. apply H in E. apply H in E'. destruct E as [_ E], E' as [_ E']. congruence. Qed.

Lemma imap_ok_range indexes imap k j : imap_ok indexes imap -> bt_get k imap = Some j -> 0 <= j < zlen indexes.
Proof.
  intros H E. apply H in E. destruct E as [Hj E]. split; [assumption|].
  assert (Z.to_nat j < length indexes)%nat by (apply nth_error_Some; congruence). unfold zlen. lia.
Qed.

Lemma imap_ok_In indexes imap k : imap_ok indexes imap -> NoDup indexes -> In k indexes -> exists j, bt_get k imap = Some j.
Proof.
  intros H _ Hin. apply In_nth_error in Hin. destruct Hin as [q E]. exists (Z.of_nat q). apply H.
  split; [lia|]. rewrite Nat2Z.id. assumption.
Qed.

Lemma imap_ok_In_inv indexes imap k j : imap_ok indexes imap -> bt_get k imap = Some j -> In k indexes.
Proof. intros H E. apply H in E. destruct E as [_ E]. apply nth_error_In in E. assumption. Qed.

(* mi_loop never panics, and its errors are out-of-range reports *)
Lemma mi_loop_not_Panic : forall rest nl i map, mi_loop nl rest i map <> Panic.
Proof. induction rest as [|x r IH]; intros; cbn [mi_loop]; [discriminate|]. destruct (nl <=? x); [discriminate|apply IH]. Qed.

Lemma map_indexes_not_Panic indexes depth : map_indexes indexes depth <> Panic.
Proof.
  unfold map_indexes. destruct (64 <=? depth); [discriminate|].
  apply bind_not_Panic; [apply mi_loop_not_Panic|]. intros. destruct (negb _); discriminate.
Qed.

(* inversion: success of map_indexes implies the guards *)
Lemma mi_loop_inv : forall rest pre nl map map',
  mi_loop nl rest (zlen pre) map = Ok map' ->
  keys_sorted map ->
  (forall i j, bt_get i map = Some j -> 0 <= j /\ nth_error pre (Z.to_nat j) = Some i) ->
  (forall i, In i pre -> bt_get i map <> None) ->
  (length map <= length pre)%nat -> (length map = length pre -> NoDup pre) ->
  (forall x, In x rest -> x < nl) /\
  (forall i j, bt_get i map' = Some j -> 0 <= j /\ nth_error (pre ++ rest) (Z.to_nat j) = Some i) /\
  (forall i, In i (pre ++ rest) -> bt_get i map' <> None) /\
  (length map' <= length (pre ++ rest))%nat /\ (length map' = length (pre ++ rest) -> NoDup (pre ++ rest)).
Proof.
  induction rest as [|x r IH]; intros pre nl map map' E HS H1 H2 H3 H4.
  - cbn [mi_loop] in E. injection E as <-. rewrite app_nil_r.
    split; [intros ? []|]. split; [exact H1|]. split; [exact H2|]. split; assumption.
  - cbn [mi_loop] in E. destruct (Z.leb_spec nl x); [discriminate|].
    replace (zlen pre + 1) with (zlen (pre ++ [x])) in E by (rewrite zlen_app; reflexivity).
    apply IH in E.
    + replace ((pre ++ [x]) ++ r) with (pre ++ x :: r) in E by (rewrite <- app_assoc; reflexivity).
      destruct E as (E1 & E2 & E3 & E4 & E5).
      split; [intros y [<-|Hy]; auto|]. split; [exact E2|]. split; [exact E3|]. split; assumption.
    + apply bt_insert_sorted. assumption.
    + intros i j. rewrite bt_get_insert. destruct (Z.eqb_spec i x) as [->|Hne].
      * intros [= <-]. split; [apply zlen_nonneg|]. unfold zlen. rewrite Nat2Z.id.
        rewrite nth_error_app2 by lia. rewrite Nat.sub_diag. reflexivity.
      * intros Hg. apply H1 in Hg. destruct Hg as [Hj Hg]. split; [assumption|].
        rewrite nth_error_app1; [assumption|]. apply nth_error_Some. congruence.
    + intros i Hi. rewrite bt_get_insert. destruct (Z.eqb_spec i x); [discriminate|].
      apply in_app_or in Hi. destruct Hi as [Hi|[<-|[]]]; [auto|congruence].
    + pose proof (bt_insert_length_le x (zlen pre) map). rewrite app_length. simpl. lia.
    + rewrite app_length. simpl. intros HL.
      destruct (bt_get x map) eqn:Eg.
      * exfalso. rewrite bt_insert_length_old in HL by (assumption || congruence). lia.
      * rewrite bt_insert_length_new in HL by assumption.
        assert (Hnx : ~ In x pre) by (intros Hin; apply H2 in Hin; congruence).
        assert (ND : NoDup pre) by (apply H4; lia).
        clear - Hnx ND. induction pre as [|a pre IHp]; simpl.
        -- constructor; [intros []|constructor].
        -- inversion ND; subst. constructor.
           ++ intros Hin. apply in_app_or in Hin. destruct Hin as [Hin|[<-|[]]]; [contradiction|]. apply Hnx. left. reflexivity.
           ++ apply IHp; [intros Hin; apply Hnx; right; assumption|assumption].
Qed.

Lemma map_indexes_inv : forall indexes depth imap,
  map_indexes indexes depth = Ok imap ->
  depth < 64 /\ NoDup indexes /\ (forall x, In x indexes -> x < 2 ^ depth) /\ imap_ok indexes imap /\
  length imap = length indexes.
Proof.
  intros indexes depth imap. unfold map_indexes.
  destruct (Z.leb_spec 64 depth); [discriminate|].
  intros E. apply bind_Ok in E. destruct E as (map & E & E2).
  destruct (Z.eqb_spec (zlen indexes) (zlen map)) as [HL|]; [|discriminate]. cbn [negb] in E2. injection E2 as ->.
  change 0 with (zlen (@nil Z)) in E. apply mi_loop_inv in E; simpl; try (intros; discriminate || contradiction || lia).
  - simpl in E. destruct E as (E1 & E2 & E3 & E4 & E5).
    assert (HLn : length imap = length indexes) by (unfold zlen in HL; lia).
    assert (ND : NoDup indexes) by (apply E5; assumption).
    split; [assumption|]. split; [assumption|]. split; [assumption|]. split; [|assumption].
    intros i j. split; [apply E2|].
    intros [Hj Hn].
    assert (Hin : In i indexes) by (apply nth_error_In in Hn; assumption).
    destruct (bt_get i imap) eqn:Eg; [|apply E3 in Hin; congruence].
    f_equal. apply E2 in Eg. destruct Eg as [Hz Eg].
    assert (Z.to_nat z = Z.to_nat j); [|lia].
    apply (proj1 (NoDup_nth_error indexes) ND); [apply nth_error_Some; congruence|congruence].
  - intros _. constructor.
Qed.

(* ---------------------------------------------------------------- normalize_indexes *)
Lemma bs_insert_In k s x : In x (bs_insert k s) <-> x = k \/ In x s.
Proof.
  induction s as [|k' s IH]; simpl; [intuition|].
  destruct (Z.ltb_spec k k'); simpl; [intuition|].
  destruct (Z.eqb_spec k k'); simpl; [subst; intuition|]. rewrite IH. intuition.
Qed.

Lemma bs_insert_length k s : (length (bs_insert k s) <= S (length s))%nat.
Proof.
  induction s as [|k' s IH]; simpl; [lia|].
  destruct (Z.ltb_spec k k'); simpl; [lia|]. destruct (Z.eqb_spec k k'); simpl; lia.
Qed.

Lemma normalize_In_gen : forall indexes s e,
  In e (fold_left (fun set index => bs_insert (index - Z.land index 1) set) indexes s) <->
  In e s \/ exists i, In i indexes /\ e = i - i mod 2.
Proof.
  induction indexes as [|i r IH]; intros s e; cbn [fold_left].
  - split; [auto|intros [H|(i & [] & _)]; assumption].
  - rewrite IH, bs_insert_In, land1. split.
    + intros [[->|H]|(i' & Hi & ->)]; [right; exists i; simpl; auto|auto|right; exists i'; simpl; auto].
    + intros [H|(i' & [<-|Hi] & ->)]; [auto|auto|right; eauto].
Qed.

Lemma normalize_In indexes e : In e (normalize_indexes indexes) <-> exists i, In i indexes /\ e = i - i mod 2.
Proof. unfold normalize_indexes. rewrite normalize_In_gen. simpl. intuition. Qed.

Lemma normalize_length_gen : forall indexes s,
  (length (fold_left (fun set index => bs_insert (index - Z.land index 1) set) indexes s) <= length s + length indexes)%nat.
Proof.
  induction indexes as [|i r IH]; intros s; cbn [fold_left]; [simpl; lia|].
  etransitivity; [apply IH|]. pose proof (bs_insert_length (i - Z.land i 1) s). simpl. lia.
Qed.

Lemma normalize_length indexes : (length (normalize_indexes indexes) <= length indexes)%nat.
Proof. unfold normalize_indexes. pose proof (normalize_length_gen indexes []). simpl in *. lia. Qed.

Lemma normalize_nonempty indexes : indexes <> [] -> normalize_indexes indexes <> [].
Proof.
  destruct indexes as [|i r]; [congruence|]. intros _ E.
  assert (H : In (i - i mod 2) (normalize_indexes (i :: r))) by (apply normalize_In; exists i; simpl; auto).
  rewrite E in H. destruct H.
Qed.
