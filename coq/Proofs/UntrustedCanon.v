(* Proofs/UntrustedCanon.v — C06, coverage round: the element readers of the typed parsers reject EXACTLY the
   non-canonical words.  A base-field word is [fp_bytes F] little-endian bytes; it is canonical when its value is below
   the modulus.  An element of the degree-[deg] extension is [deg] words; an element-bearing component (OOD trace states,
   OOD evaluations, Lagrange kernel states, opened trace / constraint rows, FRI layer rows, FRI remainder) is a sequence
   of elements read by [read_many (read_elem F deg) n].  For every such byte string the reader answers [Ok] with the
   words when all of them are canonical and [Err Invalid] otherwise — whatever follows the component. *)
From VBase Require Import MachInt.
From VModel Require Import Codec Untrusted.
From VProofs Require Import CodecPrim CodecTypes.
Open Scope Z_scope.

(* ------------------------------------------------------------------------------- a reader with an exact spec *)
(* [r] reads one [w]-encoded value of the domain [D] and accepts it exactly when [ok] holds *)
Definition Exact {A} (w : A -> bytes) (r : Rd A) (D : A -> Prop) (ok : A -> bool) : Prop :=
  forall a rest, D a -> r (w a ++ rest) = if ok a then Ok (a, rest) else Err Invalid.

Lemma read_many_nat_exact {A} (w : A -> bytes) (r : Rd A) (D : A -> Prop) (ok : A -> bool) :
  Exact w r D ok -> forall l rest, Forall D l ->
  read_many_nat r (length l) (write_many w l ++ rest) = if forallb ok l then Ok (l, rest) else Err Invalid.
Proof.
  intros Hx l. induction l as [|a l IH]; intros rest Hd; [reflexivity|].
  inversion Hd as [|? ? Ha Hl]; subst.
  cbn [length read_many_nat forallb]. rewrite write_many_cons, <- app_assoc, (Hx a _ Ha).
  destruct (ok a); cbn [andb]; [|reflexivity].
  rewrite (IH rest Hl). destruct (forallb ok l); reflexivity.
Qed.

Lemma read_many_exact {A} (w : A -> bytes) (r : Rd A) (D : A -> Prop) (ok : A -> bool) :
  Exact w r D ok -> forall l rest, Forall D l ->
  read_many r (Z.of_nat (length l)) (write_many w l ++ rest) = if forallb ok l then Ok (l, rest) else Err Invalid.
Proof. intros Hx l rest Hd. rewrite read_many_spec. now apply read_many_nat_exact with (D := D). Qed.

(* ------------------------------------------------------------------------------------------ one base-field word *)
Definition word_ok (k : nat) (w : Z) : Prop := 0 <= w < 256 ^ Z.of_nat k.
Definition canonical (M : Z) (w : Z) : bool := w <? M.

Lemma read_felt_exact k M : Exact (write_uint k) (read_felt k M) (word_ok k) (canonical M).
Proof.
  intros w rest Hw. unfold read_felt, canonical. erewrite bind_ok by (apply rt_uint; exact Hw).
  destruct (Z.geb_spec w M), (Z.ltb_spec w M); try lia; reflexivity.
Qed.

(* ----------------------------------------------------------------------------- one element: [deg] base-field words *)
Definition write_elem (F : FieldP) (ws : list Z) : bytes := write_many (write_uint (fp_bytes F)) ws.
Definition elem_ok (F : FieldP) (deg : nat) (ws : list Z) : Prop := length ws = deg /\ Forall (word_ok (fp_bytes F)) ws.
Definition elem_canonical (F : FieldP) (ws : list Z) : bool := forallb (canonical (fp_mod F)) ws.

Lemma read_elem_exact F deg : Exact (write_elem F) (read_elem F deg) (elem_ok F deg) (elem_canonical F).
Proof.
  intros ws rest [Hl Hw]. unfold read_elem, read_arr, write_elem, elem_canonical. rewrite <- Hl.
  apply read_many_exact with (D := word_ok (fp_bytes F)); [apply read_felt_exact | exact Hw].
Qed.

(* -------------------------------------------------------------------------------- a component: a list of elements *)
Definition write_elems (F : FieldP) (es : list (list Z)) : bytes := write_many (write_elem F) es.
Definition elems_canonical (F : FieldP) (es : list (list Z)) : bool := forallb (elem_canonical F) es.

Theorem read_elems_exact F deg es rest : Forall (elem_ok F deg) es ->
  read_many (read_elem F deg) (Z.of_nat (length es)) (write_elems F es ++ rest) =
  if elems_canonical F es then Ok (es, rest) else Err Invalid.
Proof. intros H. apply read_many_exact with (D := elem_ok F deg); [apply read_elem_exact | exact H]. Qed.

(* a FRI layer: rows of [ff] elements each (read_many (read_many (read_elem F deg) ff) nq) *)
Definition write_rows (F : FieldP) (rows : list (list (list Z))) : bytes := write_many (write_elems F) rows.
Definition rows_canonical (F : FieldP) (rows : list (list (list Z))) : bool := forallb (elems_canonical F) rows.
Definition row_ok (F : FieldP) (deg : nat) (ff : nat) (row : list (list Z)) : Prop := length row = ff /\ Forall (elem_ok F deg) row.

Theorem read_rows_exact F deg ff rows rest : Forall (row_ok F deg ff) rows ->
  read_many (read_many (read_elem F deg) (Z.of_nat ff)) (Z.of_nat (length rows)) (write_rows F rows ++ rest) =
  if rows_canonical F rows then Ok (rows, rest) else Err Invalid.
Proof.
  intros H. apply read_many_exact with (D := row_ok F deg ff); [|exact H].
  intros row rest' [Hl He]. rewrite <- Hl. now apply read_elems_exact.
Qed.

(* ------------------------------------------------------------ the whole-blob forms used by the typed parsers *)
(* parse_all: the blob is exactly the component (OOD evaluations, FRI remainder, FRI layer values) *)
Theorem parse_all_elems_exact F deg es : Forall (elem_ok F deg) es ->
  parse_all (read_many (read_elem F deg) (Z.of_nat (length es))) (write_elems F es) =
  if elems_canonical F es then Ok es else Err Invalid.
Proof.
  intros H. unfold parse_all. rewrite <- (app_nil_r (write_elems F es)) at 1. rewrite (read_elems_exact F deg es [] H).
  destruct (elems_canonical F es); reflexivity.
Qed.

(* parse_prefix: Table::from_bytes reads its elements and does not look at what follows *)
Theorem parse_prefix_elems_exact F deg es rest : Forall (elem_ok F deg) es ->
  parse_prefix (read_many (read_elem F deg) (Z.of_nat (length es))) (write_elems F es ++ rest) =
  if elems_canonical F es then Ok es else Err Invalid.
Proof.
  intros H. unfold parse_prefix. rewrite (read_elems_exact F deg es rest H).
  destruct (elems_canonical F es); reflexivity.
Qed.

(* lengths: a component of n elements has n * elem_bytes bytes *)
Lemma write_elem_len F deg ws : elem_ok F deg ws -> len (write_elem F ws) = elem_bytes F deg.
Proof.
  intros [Hl _]. unfold write_elem, elem_bytes, len. subst deg.
  induction ws as [|w ws IH]; [cbn; lia|].
  rewrite write_many_cons, app_length, write_uint_length. cbn [length]. unfold write_many in *. lia.
Qed.

Lemma write_elems_len F deg es : Forall (elem_ok F deg) es -> len (write_elems F es) = Z.of_nat (length es) * elem_bytes F deg.
Proof.
  intros H. unfold write_elems. induction H as [|e es He _ IH]; [cbn; lia|].
  rewrite write_many_cons. unfold len in *. rewrite app_length. cbn [length].
  pose proof (write_elem_len F deg e He) as Hl. unfold len in Hl. lia.
Qed.

(* FriProof::parse_remainder on a remainder of 2^k elements: Ok exactly when every word is canonical *)
Theorem Fri_parse_remainder_exact F deg ls np es :
  0 < elem_bytes F deg -> Forall (elem_ok F deg) es -> is_pow2 (Z.of_nat (length es)) = true ->
  Fri_parse_remainder F deg (mkFri ls (write_elems F es) np) =
  if elems_canonical F es then Ok (Z.of_nat (length es)) else Err Invalid.
Proof.
  intros Heb He Hp. unfold Fri_parse_remainder. cbn [fri_remainder].
  rewrite (write_elems_len F deg es He), Z.div_mul by lia. rewrite Hp. cbn [negb].
  rewrite (parse_all_elems_exact F deg es He). unfold rbind, llen.
  destruct (elems_canonical F es); reflexivity.
Qed.

(* non-vacuity and the four value kinds of the generators, f64: modulus, modulus + 1, 2^64 - 1, modulus + v *)
Example remainder_value_kinds :
  let rem w := mkFri [] (write_elems F64P [[5]; [w]]) 0 in
  Fri_parse_remainder F64P 1 (rem 7) = Ok 2 /\
  Fri_parse_remainder F64P 1 (rem (M64 - 1)) = Ok 2 /\
  Fri_parse_remainder F64P 1 (rem M64) = Err Invalid /\
  Fri_parse_remainder F64P 1 (rem (M64 + 1)) = Err Invalid /\
  Fri_parse_remainder F64P 1 (rem (2 ^ 64 - 1)) = Err Invalid /\
  Fri_parse_remainder F64P 1 (rem (M64 + 7)) = Err Invalid /\
  Fri_parse_remainder F128P 2 (mkFri [] (write_elems F128P [[1; M128]]) 0) = Err Invalid /\
  Fri_parse_remainder F62P 3 (mkFri [] (write_elems F62P [[1; 2; M62 + 2]]) 0) = Err Invalid /\
  Fri_parse_remainder F62P 3 (mkFri [] (write_elems F62P [[1; 2; M62 - 1]]) 0) = Ok 1.
Proof. vm_compute. repeat split; reflexivity. Qed.
