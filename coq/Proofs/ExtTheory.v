(* C08 — generic theory of the quadratic extension F[x]/(x^2 - x - c) and the cubic extension
   F[x]/(x^3 - u x - v) over an arbitrary field (`FLaws O`), in the shape used by the generated
   `impl ExtensibleField<N>` bodies:  reference ("schoolbook product reduced by the irreducible") multiplications
   `qs_mul c`, `cs_mul u v`, Frobenius maps `qs_frob`, `cs_frob k..`, ring laws, automorphism laws, norm,
   units.  stdlib style.  Proofs/ExtQuad.v and Proofs/ExtCube.v tie the generated terms to these. *)
From Coq Require Import ZArith List Bool Ring Field Lia.
From VBase Require Import FieldOps.
From VModel Require Import ExtField.
Import ListNotations.

Section Theory.
Context {F : Type} (O : FOps F) (L : FLaws O).

Local Notation zero := (fzero O).
Local Notation one := (fone O).
Local Notation "a +f b" := (fadd O a b) (at level 50, left associativity).
Local Notation "a -f b" := (fsub O a b) (at level 50, left associativity).
Local Notation "a *f b" := (fmul O a b) (at level 40, left associativity).
Local Notation "-f a" := (fneg O a) (at level 35, right associativity).

Add Ring Fring : (FLaws_ring_theory O L).
Add Field Ffield : (FLaws_field_theory O L).

(* ------------------------------------------------------------------ base-field facts *)
Lemma f_eq_dec : forall a b : F, {a = b} + {a <> b}.
Proof.
  intros a b. destruct (feqb O a b) eqn:E.
  - left. apply (fl_eqb_spec O L). exact E.
  - right. intros H. apply (fl_eqb_spec O L) in H. congruence.
Qed.

Lemma feqb_refl : forall a, feqb O a a = true.
Proof. intros. apply (fl_eqb_spec O L). reflexivity. Qed.

Lemma feqb_false : forall a b, a <> b -> feqb O a b = false.
Proof.
  intros a b H. destruct (feqb O a b) eqn:E; [|reflexivity].
  apply (fl_eqb_spec O L) in E. contradiction.
Qed.

Lemma f_integral : forall a b, a *f b = zero -> a = zero \/ b = zero.
Proof.
  intros a b H. destruct (f_eq_dec a zero) as [Ha|Ha]; [left; exact Ha|right].
  transitivity (finv O a *f (a *f b)).
  - field. exact Ha.
  - rewrite H. ring.
Qed.

Lemma f_mul_neq0 : forall a b, a <> zero -> b <> zero -> a *f b <> zero.
Proof. intros a b Ha Hb H. destruct (f_integral _ _ H); contradiction. Qed.

Lemma f_inv_r : forall a, a <> zero -> a *f finv O a = one.
Proof. intros. field. assumption. Qed.

(* ================================================================== quadratic: x^2 = x + c *)
Section Quadratic.
Variable c : F.

(* (a0 + a1 x)(b0 + b1 x) = a0b0 + (a0b1 + a1b0) x + a1b1 x^2,  x^2 = x + c *)
Definition qs_mul (a b : F * F) : F * F :=
  (fst a *f fst b +f c *f (snd a *f snd b), fst a *f snd b +f snd a *f fst b +f snd a *f snd b).
(* x |-> 1 - x (the other root of x^2 - x - c) *)
Definition qs_frob (a : F * F) : F * F := (fst a +f snd a, -f snd a).

Local Notation qadd := (q_add O).
Local Notation qsub := (q_sub O).
Local Notation qneg := (q_neg O).
Local Notation q0 := (q_zero O).
Local Notation q1 := (q_one O).
Local Notation emb := (q_from_base O).

Ltac qcrush :=
  intros;
  repeat match goal with a : (F * F)%type |- _ => destruct a end;
  unfold qs_mul, qs_frob, q_add, q_sub, q_neg, q_zero, q_one, q_from_base, q_double in *;
  cbn [fst snd] in *;
  try rewrite !(fl_double_def O L); try rewrite !(fl_square_def O L).

Lemma qs_ring : @ring_theory (F * F)%type q0 q1 qadd qs_mul qsub qneg (@eq (F * F)).
Proof. constructor; qcrush; f_equal; ring. Qed.

Lemma qs_mul_comm : forall a b, qs_mul a b = qs_mul b a.
Proof. qcrush; f_equal; ring. Qed.
Lemma qs_mul_assoc : forall a b d, qs_mul a (qs_mul b d) = qs_mul (qs_mul a b) d.
Proof. qcrush; f_equal; ring. Qed.
Lemma qs_mul_one : forall a, qs_mul q1 a = a.
Proof. qcrush; f_equal; ring. Qed.
Lemma qs_distr : forall a b d, qs_mul (qadd a b) d = qadd (qs_mul a d) (qs_mul b d).
Proof. qcrush; f_equal; ring. Qed.
Lemma q_double_add : forall a, q_double O a = qadd a a.
Proof. qcrush; reflexivity. Qed.

(* base field embedding is a ring homomorphism *)
Lemma qs_embed_hom :
  emb zero = q0 /\ emb one = q1 /\
  (forall x y, emb (x +f y) = qadd (emb x) (emb y)) /\
  (forall x y, emb (x -f y) = qsub (emb x) (emb y)) /\
  (forall x, emb (-f x) = qneg (emb x)) /\
  (forall x y, emb (x *f y) = qs_mul (emb x) (emb y)) /\
  (forall x y, emb x = emb y -> x = y).
Proof.
  repeat split; qcrush; try (f_equal; ring).
  match goal with H : (_, _) = (_, _) |- _ => inversion H; reflexivity end.
Qed.

Lemma qs_mul_base : forall a b, qs_mul a (emb b) = (fst a *f b, snd a *f b).
Proof. qcrush; f_equal; ring. Qed.

(* Frobenius / conjugation *)
Lemma qs_frob_add : forall a b, qs_frob (qadd a b) = qadd (qs_frob a) (qs_frob b).
Proof. qcrush; f_equal; ring. Qed.
Lemma qs_frob_mul : forall a b, qs_frob (qs_mul a b) = qs_mul (qs_frob a) (qs_frob b).
Proof. qcrush; f_equal; ring. Qed.
Lemma qs_frob_base : forall x, qs_frob (emb x) = emb x.
Proof. qcrush; f_equal; ring. Qed.
Lemma qs_frob_one : qs_frob q1 = q1.
Proof. qcrush; f_equal; ring. Qed.
Lemma qs_frob_invol : forall a, qs_frob (qs_frob a) = a.
Proof. qcrush; f_equal; ring. Qed.
(* fixes exactly the base field (no side condition is needed: x0 + x1 = x0 already forces x1 = 0) *)
Lemma qs_frob_fixes_exactly_base : forall a, qs_frob a = a <-> snd a = zero.
Proof.
  intros [a0 a1]; unfold qs_frob; cbn [fst snd]. split.
  - intros H. injection H as H0 H1.
    transitivity ((a0 +f a1) -f a0); [ring|]. rewrite H0. ring.
  - intros ->. f_equal; ring.
Qed.
(* the image of x is a root of the same polynomial: (1-x)^2 = (1-x) + c *)
Lemma qs_frob_root : let phi' := qs_frob (zero, one) in qs_mul phi' phi' = qadd phi' (emb c).
Proof. cbv zeta. qcrush; f_equal; ring. Qed.

(* norm *)
Definition qs_norm0 (a : F * F) : F := fst a *f fst a +f fst a *f snd a -f c *f (snd a *f snd a).

Lemma qs_norm_in_base : forall a, qs_mul a (qs_frob a) = emb (qs_norm0 a).
Proof. unfold qs_norm0. qcrush; f_equal; ring. Qed.

(* irreducibility of x^2 - x - c  <=>  the discriminant 1 + 4c is not a square *)
Definition qs_disc : F := one +f (c +f c +f c +f c).

Lemma qs_norm_nonzero :
  (forall s, s *f s <> qs_disc) -> forall a, a <> q0 -> qs_norm0 a <> zero.
Proof.
  intros NS [a0 a1] Ha HN. unfold qs_norm0, qs_disc in *; cbn [fst snd] in *.
  destruct (f_eq_dec a1 zero) as [E|E].
  - subst a1. assert (H : a0 *f a0 = zero).
    { rewrite <- HN. ring. }
    destruct (f_integral _ _ H); subst; apply Ha; reflexivity.
  - apply (NS ((a0 +f a0 +f a1) *f finv O a1)).
    transitivity (((one +f one) +f (one +f one)) *f (a0 *f a0 +f a0 *f a1 -f c *f (a1 *f a1)) *f (finv O a1 *f finv O a1)
                  +f (one +f (c +f c +f c +f c))).
    + field. exact E.
    + rewrite HN. ring.
Qed.

(* the hand model of QuadExtension::inv, on the reference multiplication *)
Definition qs_inv (a : F * F) : F * F :=
  let n := qs_frob a in let d := finv O (qs_norm0 a) in (fst n *f d, snd n *f d).

Lemma qs_inv_spec : forall a, qs_norm0 a <> zero -> qs_mul a (qs_inv a) = q1.
Proof.
  intros [a0 a1] H. unfold qs_inv, qs_mul, qs_frob, q_one, qs_norm0 in *; cbn [fst snd] in *.
  f_equal; field; exact H.
Qed.

(* no zero divisors, from units *)
Lemma qs_no_zero_div :
  (forall s, s *f s <> qs_disc) -> forall a b, qs_mul a b = q0 -> a = q0 \/ b = q0.
Proof.
  intros NS a b H.
  destruct (f_eq_dec (fst a) zero) as [E0|E0]; [destruct (f_eq_dec (snd a) zero) as [E1|E1]|].
  - left. destruct a; cbn [fst snd] in *; subst; reflexivity.
  - right. assert (Ha : a <> q0) by (intros ->; apply E1; reflexivity).
    pose proof (qs_inv_spec a (qs_norm_nonzero NS a Ha)) as I.
    transitivity (qs_mul (qs_mul a (qs_inv a)) b); [rewrite I, qs_mul_one; reflexivity|].
    rewrite (qs_mul_comm a), <- qs_mul_assoc, H. qcrush; f_equal; ring.
  - right. assert (Ha : a <> q0) by (intros ->; apply E0; reflexivity).
    pose proof (qs_inv_spec a (qs_norm_nonzero NS a Ha)) as I.
    transitivity (qs_mul (qs_mul a (qs_inv a)) b); [rewrite I, qs_mul_one; reflexivity|].
    rewrite (qs_mul_comm a), <- qs_mul_assoc, H. qcrush; f_equal; ring.
Qed.

End Quadratic.

(* ================================================================== cubic: x^3 = u x + v *)
Section Cubic.
Variables u v : F.

Local Notation c0 := (@c0 F).
Local Notation c1 := (@c1 F).
Local Notation c2 := (@c2 F).

(* (a0 + a1 x + a2 x^2)(b0 + b1 x + b2 x^2) = sum_k d_k x^k,  x^3 = u x + v,  x^4 = u x^2 + v x *)
Definition cs_mul (a b : F * F * F) : F * F * F :=
  let d0 := c0 a *f c0 b in
  let d1 := c0 a *f c1 b +f c1 a *f c0 b in
  let d2 := c0 a *f c2 b +f c1 a *f c1 b +f c2 a *f c0 b in
  let d3 := c1 a *f c2 b +f c2 a *f c1 b in
  let d4 := c2 a *f c2 b in
  (d0 +f v *f d3, d1 +f u *f d3 +f v *f d4, d2 +f u *f d4).

Local Notation cadd := (c_add O).
Local Notation csub := (c_sub O).
Local Notation cneg := (c_neg O).
Local Notation z3 := (c_zero O).
Local Notation o3 := (c_one O).
Local Notation emb := (c_from_base O).

Ltac ccrush :=
  intros;
  repeat match goal with a : (F * F * F)%type |- _ => destruct a as [[? ?] ?] end;
  unfold cs_mul, c_add, c_sub, c_neg, c_zero, c_one, c_from_base, c_double, ExtField.c0, ExtField.c1, ExtField.c2 in *;
  cbn [fst snd] in *;
  try rewrite !(fl_double_def O L); try rewrite !(fl_square_def O L).
Ltac c3 := f_equal; [f_equal|]; ring.

Lemma cs_ring : @ring_theory (F * F * F)%type z3 o3 cadd cs_mul csub cneg (@eq (F * F * F)).
Proof. constructor; ccrush; c3. Qed.

Lemma cs_mul_comm : forall a b, cs_mul a b = cs_mul b a.
Proof. ccrush; c3. Qed.
Lemma cs_mul_assoc : forall a b d, cs_mul a (cs_mul b d) = cs_mul (cs_mul a b) d.
Proof. ccrush; c3. Qed.
Lemma cs_mul_one : forall a, cs_mul o3 a = a.
Proof. ccrush; c3. Qed.
Lemma cs_distr : forall a b d, cs_mul (cadd a b) d = cadd (cs_mul a d) (cs_mul b d).
Proof. ccrush; c3. Qed.
Lemma c_double_add : forall a, c_double O a = cadd a a.
Proof. ccrush; reflexivity. Qed.
Lemma cs_mul_zero : forall a, cs_mul z3 a = z3.
Proof. ccrush; c3. Qed.

Lemma cs_embed_hom :
  emb zero = z3 /\ emb one = o3 /\
  (forall x y, emb (x +f y) = cadd (emb x) (emb y)) /\
  (forall x y, emb (x -f y) = csub (emb x) (emb y)) /\
  (forall x, emb (-f x) = cneg (emb x)) /\
  (forall x y, emb (x *f y) = cs_mul (emb x) (emb y)) /\
  (forall x y, emb x = emb y -> x = y).
Proof.
  repeat split; ccrush; try c3.
  match goal with H : (_, _, _) = (_, _, _) |- _ => inversion H; reflexivity end.
Qed.

Lemma cs_mul_base : forall a b, cs_mul a (emb b) = (c0 a *f b, c1 a *f b, c2 a *f b).
Proof. ccrush; c3. Qed.

(* the generator and the defining relation: phi^3 = u phi + v *)
Definition phi : F * F * F := (zero, one, zero).
Definition phi2 : F * F * F := (zero, zero, one).
Lemma cs_phi_sq : cs_mul phi phi = phi2.
Proof. unfold phi, phi2. ccrush; c3. Qed.
Lemma cs_phi_root : cs_mul phi (cs_mul phi phi) = cadd (cs_mul (emb u) phi) (emb v).
Proof. unfold phi. ccrush; c3. Qed.

(* ---------- Frobenius as the linear map with matrix columns (1,0,0), psi, chi ---------- *)
Section Frob.
Variables k01 k02 k11 k12 k21 k22 : F.

Definition cs_frob (x : F * F * F) : F * F * F :=
  (c0 x +f k01 *f c1 x +f k02 *f c2 x, k11 *f c1 x +f k12 *f c2 x, k21 *f c1 x +f k22 *f c2 x).
Definition psi : F * F * F := (k01, k11, k21).
Definition chi : F * F * F := (k02, k12, k22).

(* the constant equations (finitely many; discharged by vm_compute for the concrete constants):
   psi^2 = chi, psi^3 = u psi + v (psi is a root of the irreducible polynomial), frob^2(psi) = phi *)
Record Frob3Consts : Prop := {
  fc_sq : cs_mul psi psi = chi;
  fc_root : cs_mul psi chi = cadd (cs_mul (emb u) psi) (emb v);
  fc_ord3 : cs_frob (cs_frob psi) = phi
}.

Lemma cs_frob_lin : forall x,
  cs_frob x = cadd (cadd (emb (c0 x)) (cs_mul (emb (c1 x)) psi)) (cs_mul (emb (c2 x)) chi).
Proof. unfold cs_frob, psi, chi. ccrush; c3. Qed.

Lemma cs_frob_add : forall a b, cs_frob (cadd a b) = cadd (cs_frob a) (cs_frob b).
Proof. unfold cs_frob. ccrush; c3. Qed.
Lemma cs_frob_base : forall x, cs_frob (emb x) = emb x.
Proof. unfold cs_frob. ccrush; c3. Qed.
Lemma cs_frob_one : cs_frob o3 = o3.
Proof. unfold cs_frob. ccrush; c3. Qed.
Lemma cs_frob_phi : cs_frob phi = psi /\ cs_frob phi2 = chi.
Proof. unfold cs_frob, phi, phi2, psi, chi. split; ccrush; c3. Qed.
Lemma cs_frob_mul_base_l : forall x a, cs_frob (cs_mul (emb x) a) = cs_mul (emb x) (cs_frob a).
Proof. unfold cs_frob. ccrush; c3. Qed.

Add Ring Ering : cs_ring.

Lemma cs_decompose : forall a,
  a = cadd (cadd (emb (c0 a)) (cs_mul (emb (c1 a)) phi)) (cs_mul (emb (c2 a)) phi2).
Proof. unfold phi, phi2. ccrush; c3. Qed.

(* product of two elements written on (1, p, q) with an arbitrary multiplication table for p, q *)
Lemma cs_expand : forall A0 A1 A2 B0 B1 B2 p q : F * F * F,
  cs_mul (cadd (cadd A0 (cs_mul A1 p)) (cs_mul A2 q)) (cadd (cadd B0 (cs_mul B1 p)) (cs_mul B2 q)) =
  cadd (cadd (cadd (cadd (cadd (cs_mul A0 B0)
    (cs_mul (cadd (cs_mul A0 B1) (cs_mul A1 B0)) p))
    (cs_mul (cadd (cs_mul A0 B2) (cs_mul A2 B0)) q))
    (cs_mul (cs_mul A1 B1) (cs_mul p p)))
    (cs_mul (cadd (cs_mul A1 B2) (cs_mul A2 B1)) (cs_mul p q)))
    (cs_mul (cs_mul A2 B2) (cs_mul q q)).
Proof. intros. ring. Qed.

Hypothesis K : Frob3Consts.

Lemma cs_chi_sq : cs_mul chi chi = cadd (cs_mul (emb u) chi) (cs_mul (emb v) psi).
Proof.
  rewrite <- (fc_sq K) at 1.
  transitivity (cs_mul psi (cs_mul psi chi)); [ring|].
  rewrite (fc_root K). rewrite <- (fc_sq K). ring.
Qed.

(* components of a reference product, embedded *)
Lemma cs_mul_embed_components : forall a b,
  let A0 := emb (c0 a) in let A1 := emb (c1 a) in let A2 := emb (c2 a) in
  let B0 := emb (c0 b) in let B1 := emb (c1 b) in let B2 := emb (c2 b) in
  let U := emb u in let V := emb v in
  let D3 := cadd (cs_mul A1 B2) (cs_mul A2 B1) in
  let D4 := cs_mul A2 B2 in
  emb (c0 (cs_mul a b)) = cadd (cs_mul A0 B0) (cs_mul V D3) /\
  emb (c1 (cs_mul a b)) = cadd (cadd (cadd (cs_mul A0 B1) (cs_mul A1 B0)) (cs_mul U D3)) (cs_mul V D4) /\
  emb (c2 (cs_mul a b)) = cadd (cadd (cadd (cs_mul A0 B2) (cs_mul A1 B1)) (cs_mul A2 B0)) (cs_mul U D4).
Proof. cbv zeta. repeat split; ccrush; c3. Qed.

Theorem cs_frob_mul : forall a b, cs_frob (cs_mul a b) = cs_mul (cs_frob a) (cs_frob b).
Proof.
  intros a b.
  rewrite (cs_frob_lin a), (cs_frob_lin b), cs_expand.
  rewrite (fc_sq K), (fc_root K), cs_chi_sq.
  rewrite (cs_frob_lin (cs_mul a b)).
  destruct (cs_mul_embed_components a b) as (E0 & E1 & E2). cbv zeta in E0, E1, E2.
  rewrite E0, E1, E2.
  ring.
Qed.

Lemma cs_frob2_chi : cs_frob (cs_frob chi) = phi2.
Proof.
  rewrite <- (fc_sq K). rewrite !cs_frob_mul. rewrite (fc_ord3 K). apply cs_phi_sq.
Qed.

Theorem cs_frob_order3 : forall a, cs_frob (cs_frob (cs_frob a)) = a.
Proof.
  intros a. rewrite (cs_frob_lin a).
  rewrite !cs_frob_add, !cs_frob_mul_base_l, !cs_frob_base.
  rewrite (fc_ord3 K), cs_frob2_chi. symmetry. apply cs_decompose.
Qed.

Lemma cs_frob_inj : forall a b, cs_frob a = cs_frob b -> a = b.
Proof.
  intros a b H. rewrite <- (cs_frob_order3 a), <- (cs_frob_order3 b), H. reflexivity.
Qed.

Lemma cs_frob_zero : cs_frob z3 = z3.
Proof. unfold cs_frob. ccrush; c3. Qed.

(* fixes exactly the base field: a 2x2 minor of (matrix - identity) is non-zero *)
Definition cs_fix_det : F := (k11 -f one) *f (k22 -f one) -f k12 *f k21.

Theorem cs_frob_fixes_exactly_base :
  cs_fix_det <> zero -> forall a, cs_frob a = a <-> (c1 a = zero /\ c2 a = zero).
Proof.
  intros D [[a0 a1] a2]. unfold cs_frob, cs_fix_det in *; cbn [ExtField.c0 ExtField.c1 ExtField.c2 fst snd] in *. split.
  - intros H. injection H as H0 H1 H2.
    assert (E1 : (k11 -f one) *f a1 +f k12 *f a2 = zero).
    { transitivity ((k11 *f a1 +f k12 *f a2) -f a1); [ring|]. rewrite H1. ring. }
    assert (E2 : k21 *f a1 +f (k22 -f one) *f a2 = zero).
    { transitivity ((k21 *f a1 +f k22 *f a2) -f a2); [ring|]. rewrite H2. ring. }
    assert (D1 : ((k11 -f one) *f (k22 -f one) -f k12 *f k21) *f a1 = zero).
    { transitivity ((k22 -f one) *f ((k11 -f one) *f a1 +f k12 *f a2) -f k12 *f (k21 *f a1 +f (k22 -f one) *f a2)); [ring|].
      rewrite E1, E2. ring. }
    assert (D2 : ((k11 -f one) *f (k22 -f one) -f k12 *f k21) *f a2 = zero).
    { transitivity ((k11 -f one) *f (k21 *f a1 +f (k22 -f one) *f a2) -f k21 *f ((k11 -f one) *f a1 +f k12 *f a2)); [ring|].
      rewrite E1, E2. ring. }
    destruct (f_integral _ _ D1) as [?|?]; [contradiction|].
    destruct (f_integral _ _ D2) as [?|?]; [contradiction|]. split; assumption.
  - intros [-> ->]. c3.
Qed.

(* norm: a * frob a * frob^2 a is fixed by frob, hence in the base field (the two debug_asserts of inv) *)
Definition cs_numerator (a : F * F * F) : F * F * F := cs_mul (cs_frob a) (cs_frob (cs_frob a)).
Definition cs_norm (a : F * F * F) : F * F * F := cs_mul a (cs_numerator a).

Lemma cs_norm_fixed : forall a, cs_frob (cs_norm a) = cs_norm a.
Proof.
  intros a. unfold cs_norm, cs_numerator. rewrite !cs_frob_mul, cs_frob_order3. ring.
Qed.

Theorem cs_norm_in_base : cs_fix_det <> zero -> forall a, cs_norm a = emb (c0 (cs_norm a)).
Proof.
  intros D a. destruct (proj1 (cs_frob_fixes_exactly_base D (cs_norm a)) (cs_norm_fixed a)) as [H1 H2].
  destruct (cs_norm a) as [[n0 n1] n2]. cbn [ExtField.c0 ExtField.c1 ExtField.c2 fst snd] in *. subst.
  reflexivity.
Qed.

Lemma cs_norm_mul : forall a b, cs_norm (cs_mul a b) = cs_mul (cs_norm a) (cs_norm b).
Proof. intros. unfold cs_norm, cs_numerator. rewrite !cs_frob_mul. ring. Qed.

Lemma cs_norm_one : cs_norm o3 = o3.
Proof. unfold cs_norm, cs_numerator. rewrite !cs_frob_one. ring. Qed.

(* units have non-zero norm *)
Lemma cs_unit_norm : cs_fix_det <> zero ->
  forall a b, cs_mul a b = o3 -> c0 (cs_norm a) <> zero.
Proof.
  intros D a b H N0.
  assert (E : cs_mul (cs_norm a) (cs_norm b) = o3) by (rewrite <- cs_norm_mul, H; apply cs_norm_one).
  rewrite (cs_norm_in_base D a), N0 in E.
  replace (emb zero) with z3 in E by reflexivity.
  rewrite cs_mul_zero in E. inversion E as [[E0]]. apply (fl_one_neq_zero O L). symmetry. exact E0.
Qed.

(* the hand model of CubeExtension::inv on the reference multiplication *)
Definition cs_inv (a : F * F * F) : F * F * F :=
  let n := cs_numerator a in let d := finv O (c0 (cs_norm a)) in (c0 n *f d, c1 n *f d, c2 n *f d).

Theorem cs_inv_spec_partial : cs_fix_det <> zero ->
  forall a, c0 (cs_norm a) <> zero -> cs_mul a (cs_inv a) = o3.
Proof.
  intros D a N. unfold cs_inv.
  rewrite <- (cs_mul_base (cs_numerator a) (finv O (c0 (cs_norm a)))).
  rewrite cs_mul_assoc. fold (cs_norm a). rewrite (cs_norm_in_base D a) at 1.
  destruct cs_embed_hom as (_ & _ & _ & _ & _ & Hm & _). rewrite <- Hm.
  rewrite f_inv_r by exact N. reflexivity.
Qed.

(* ---------- the cubic has no root in F, from "psi = phi^p" ----------
   If r in F is a root of f = x^3 - u x - v, evaluation at r is a ring homomorphism E -> F.  When psi = phi^p and
   r^p = r (Fermat), evaluating psi gives r, i.e. r is also a root of h(t) = k21 t^2 + (k11 - 1) t + k01.
   Pseudo-division  h2^2 f = (h2 t - h1) h + (e1 t + e0)  then forces e1 r = - e0, and
   e1^3 f(r) = (-e0)^3 - u (-e0) e1^2 - v e1^3 =: cs_res, a constant: cs_res <> 0 refutes the root. *)
Definition cs_h0 : F := k01.
Definition cs_h1 : F := k11 -f one.
Definition cs_h2 : F := k21.
Definition cs_e1 : F := cs_h1 *f cs_h1 -f cs_h0 *f cs_h2 -f u *f (cs_h2 *f cs_h2).
Definition cs_e0 : F := cs_h0 *f cs_h1 -f v *f (cs_h2 *f cs_h2).
Definition cs_res : F :=
  (-f cs_e0) *f (-f cs_e0) *f (-f cs_e0) -f u *f (-f cs_e0) *f (cs_e1 *f cs_e1) -f v *f (cs_e1 *f cs_e1 *f cs_e1).

Lemma cs_common_root_res : forall r,
  r *f r *f r -f u *f r -f v = zero -> k01 +f k11 *f r +f k21 *f (r *f r) = r -> cs_res = zero.
Proof.
  intros r Hf Hh.
  assert (Hh' : cs_h2 *f (r *f r) +f cs_h1 *f r +f cs_h0 = zero).
  { unfold cs_h0, cs_h1, cs_h2. transitivity ((k01 +f k11 *f r +f k21 *f (r *f r)) -f r); [ring|]. rewrite Hh. ring. }
  assert (E : cs_e1 *f r = -f cs_e0).
  { transitivity (cs_h2 *f cs_h2 *f (r *f r *f r -f u *f r -f v)
                  -f (cs_h2 *f r -f cs_h1) *f (cs_h2 *f (r *f r) +f cs_h1 *f r +f cs_h0) -f cs_e0).
    - unfold cs_e1, cs_e0. ring.
    - rewrite Hf, Hh'. ring. }
  unfold cs_res. rewrite <- E.
  transitivity (cs_e1 *f cs_e1 *f cs_e1 *f (r *f r *f r -f u *f r -f v)); [ring|]. rewrite Hf. ring.
Qed.

End Frob.

(* ---------- units: x^3 - u x - v has no root  =>  every non-zero element is a unit ---------- *)
Definition cs_poly (r : F) : F := r *f r *f r -f u *f r -f v.
Definition cs_no_root : Prop := forall r, cs_poly r <> zero.

(* homogeneous form: y^3 - u y z^2 - v z^3 <> 0 for z <> 0 *)
Lemma cs_no_root_hom : cs_no_root -> forall y z, z <> zero ->
  y *f y *f y -f u *f y *f (z *f z) -f v *f (z *f z *f z) <> zero.
Proof.
  intros NR y z Hz H. apply (NR (y *f finv O z)). unfold cs_poly.
  transitivity ((y *f y *f y -f u *f y *f (z *f z) -f v *f (z *f z *f z)) *f (finv O z *f finv O z *f finv O z)).
  - field. exact Hz.
  - rewrite H. ring.
Qed.

Definition cs_unit (a : F * F * F) : Prop := exists b, cs_mul a b = o3.

Lemma cs_unit_deg0 : forall k, k <> zero -> cs_unit (emb k).
Proof.
  intros k Hk. exists (emb (finv O k)).
  destruct cs_embed_hom as (_ & _ & _ & _ & _ & Hm & _). rewrite <- Hm, f_inv_r by exact Hk. reflexivity.
Qed.

Lemma cs_unit_factor : forall a b d, cs_mul a b = d -> cs_unit d -> cs_unit a.
Proof.
  intros a b d H [e He]. exists (cs_mul b e). rewrite cs_mul_assoc, H. exact He.
Qed.

(* (a0 + a1 x)(a0^2 - u a1^2 - a0 a1 x + a1^2 x^2) = a0^3 - u a0 a1^2 + v a1^3  (= -a1^3 f(-a0/a1)) *)
Lemma cs_unit_deg1 : cs_no_root -> forall a0 a1, a1 <> zero -> cs_unit (a0, a1, zero).
Proof.
  intros NR a0 a1 H1.
  apply (cs_unit_factor _ (a0 *f a0 -f u *f (a1 *f a1), -f (a0 *f a1), a1 *f a1)
                          (emb (a0 *f a0 *f a0 -f u *f a0 *f (a1 *f a1) +f v *f (a1 *f a1 *f a1)))).
  - ccrush; c3.
  - apply cs_unit_deg0. intros H.
    apply (cs_no_root_hom NR (-f a0) a1 H1).
    transitivity (-f (a0 *f a0 *f a0 -f u *f a0 *f (a1 *f a1) +f v *f (a1 *f a1 *f a1))); [ring|].
    rewrite H. ring.
Qed.

(* (a2 x - a1)(a0 + a1 x + a2 x^2) = (v a2^2 - a0 a1) + (u a2^2 + a0 a2 - a1^2) x *)
Theorem cs_all_units : cs_no_root -> forall a, a <> z3 -> cs_unit a.
Proof.
  intros NR [[a0 a1] a2] Ha.
  destruct (f_eq_dec a2 zero) as [E2|E2].
  - subst a2. destruct (f_eq_dec a1 zero) as [E1|E1].
    + subst a1. apply (cs_unit_deg0 a0). intros ->. apply Ha. reflexivity.
    + apply cs_unit_deg1; assumption.
  - set (A := u *f (a2 *f a2) +f a0 *f a2 -f a1 *f a1).
    set (B := v *f (a2 *f a2) -f a0 *f a1).
    assert (P : cs_mul (a0, a1, a2) (-f a1, a2, zero) = (B, A, zero)).
    { unfold A, B. ccrush; c3. }
    apply (cs_unit_factor _ _ _ P).
    destruct (f_eq_dec A zero) as [EA|EA].
    + rewrite EA. destruct (f_eq_dec B zero) as [EB|EB].
      * exfalso. apply (cs_no_root_hom NR a1 a2 E2).
        transitivity (a2 *f (-f B) -f a1 *f A); [unfold A, B; ring|]. rewrite EA, EB. ring.
      * apply (cs_unit_deg0 B EB).
    + apply cs_unit_deg1; assumption.
Qed.

Theorem cs_no_zero_div : cs_no_root -> forall a b, cs_mul a b = z3 -> a = z3 \/ b = z3.
Proof.
  intros NR a b H.
  assert (Dec : {a = z3} + {a <> z3}).
  { destruct a as [[a0 a1] a2].
    destruct (f_eq_dec a0 zero); [|right; intros E; inversion E; contradiction].
    destruct (f_eq_dec a1 zero); [|right; intros E; inversion E; contradiction].
    destruct (f_eq_dec a2 zero); [|right; intros E; inversion E; contradiction].
    left. subst. reflexivity. }
  destruct Dec as [E|E]; [left; exact E|right].
  destruct (cs_all_units NR a E) as [e He].
  transitivity (cs_mul (cs_mul a e) b); [rewrite He, cs_mul_one; reflexivity|].
  rewrite (cs_mul_comm a e), <- cs_mul_assoc, H, cs_mul_comm. apply cs_mul_zero.
Qed.

(* evaluation at a root of the cubic is multiplicative *)
Definition cs_ev (r : F) (a : F * F * F) : F := c0 a +f c1 a *f r +f c2 a *f (r *f r).

Lemma cs_ev_mul : forall r, cs_poly r = zero -> forall a b, cs_ev r (cs_mul a b) = cs_ev r a *f cs_ev r b.
Proof.
  intros r Hr a b. unfold cs_poly in Hr.
  transitivity (cs_ev r (cs_mul a b) +f
                ((c1 a *f c2 b +f c2 a *f c1 b) +f (c2 a *f c2 b) *f r) *f (r *f r *f r -f u *f r -f v)).
  - rewrite Hr. ring.
  - unfold cs_ev. ccrush. ring.
Qed.
Lemma cs_ev_one : forall r, cs_ev r o3 = one.
Proof. intros. unfold cs_ev. ccrush. ring. Qed.
Lemma cs_ev_phi : forall r, cs_ev r phi = r.
Proof. intros. unfold cs_ev, phi. ccrush. ring. Qed.

End Cubic.
End Theory.
