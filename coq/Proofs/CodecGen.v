(* Proofs/CodecGen.v — the hand model of coq/Model/Codec.v EQUALS the terms rs2v regenerates from the Rust source
   on every run (coq/Gen/Serde.v: vint64 arithmetic of byte_writer.rs / byte_reader.rs; coq/Gen/Limits.v: limit
   constants and the validation code of the constructors / readers of ProofOptions, TraceInfo, Context,
   FriProof).  A change of a constant, a comparison or a shift in the source changes the generated term and
   breaks one of these equalities.  Property C12. *)
From VBase Require Import MachInt.
From Coq Require Import Btauto.
From VGen Require Serde Limits.
From VModel Require Import Codec.
From VProofs Require Import CodecPrim CodecTypes.
Open Scope Z_scope.

(* ---------------------------------------------------------------------------------------- helpers *)
Lemma ctz_bounds n x : 0 <= n -> 0 <= ctz n x <= n.
Proof.
  intros Hn. unfold ctz. destruct (x =? 0); [lia|].
  set (go := fix go (f : nat) (x k : Z) : Z :=
               match f with O => k | S f' => if Z.odd x then k else go f' (x / 2) (k + 1) end).
  assert (H : forall f y k, k <= go f y k <= k + Z.of_nat f).
  { induction f as [|f IH]; intros y k; cbn [go]; [lia|].
    destruct (Z.odd y); [lia|]. specialize (IH (y / 2) (k + 1)). lia. }
  specialize (H (Z.to_nat n) x 0). lia.
Qed.

Lemma is_pow2_same x : Limits.is_pow2 x = Codec.is_pow2 x.
Proof. reflexivity. Qed.

Lemma of_le_bytes_app_zeros l k : of_le_bytes (l ++ repeat 0 k) = of_le_bytes l.
Proof.
  induction l as [|b l IH]; cbn [app of_le_bytes].
  - induction k as [|k IHk]; cbn [repeat of_le_bytes]; lia.
  - rewrite IH. reflexivity.
Qed.

Lemma bind_ext {A B} (r : Rd A) (f g : A -> Rd B) :
  (forall a bs, f a bs = g a bs) -> forall bs, bind r f bs = bind r g bs.
Proof. intros H bs. unfold bind. destruct (r bs) as [[a bs']| |]; auto. Qed.

(* extensionality restricted to what a reader can return on byte input *)
Lemma bind_ext_safe {A B} (P : A -> Prop) (r : Rd A) (f g : A -> Rd B) :
  safeP P r -> (forall a bs, P a -> is_bytes bs -> f a bs = g a bs) ->
  forall bs, is_bytes bs -> bind r f bs = bind r g bs.
Proof.
  intros Hr H bs Hbs. unfold bind. specialize (Hr bs Hbs).
  destruct (r bs) as [[a bs']| |]; auto. destruct Hr. auto.
Qed.

(* ------------------------------------------------------------------------------- vint64: Gen/Serde.v *)
Lemma encoded_len_1_9 v : 1 <= Codec.encoded_len v <= 9.
Proof.
  unfold Codec.encoded_len, sat_sub.
  assert (0 <= Z.max 0 (clz 64 v - 1) / 7) by (apply Z.div_pos; lia). lia.
Qed.

Theorem encoded_len_gen v : Codec.encoded_len v = Serde.serde_encoded_len v.
Proof.
  pose proof (encoded_len_1_9 v) as H. unfold Serde.serde_encoded_len.
  unfold Codec.encoded_len, sat_sub in *. cbv zeta in *.
  rewrite wrap_small; [reflexivity|]. change (2 ^ 64) with 18446744073709551616. lia.
Qed.

Theorem encoded_len_gen_no_overflow v : Serde.serde_encoded_len_ok v = true.
Proof.
  pose proof (encoded_len_1_9 v) as H. unfold Codec.encoded_len, sat_sub in H. cbv zeta in H.
  unfold Serde.serde_encoded_len_ok, in_u. cbv zeta. cbn [Z.eqb negb andb].
  change (2 ^ 64) with 18446744073709551616.
  destruct (Z.leb_spec 0 (9 - Z.min (Z.max 0 (clz 64 v - 1) / 7) 8)); [|lia].
  destruct (Z.ltb_spec (9 - Z.min (Z.max 0 (clz 64 v - 1) / 7) 8) 18446744073709551616); [reflexivity | lia].
Qed.

(* write_usize = the hand skeleton (9-byte test, slice [..length]) around the generated encoding expression *)
Definition write_usize_g (value : Z) : bytes :=
  let length := Serde.serde_encoded_len value in
  if length =? 9 then write_u8 0 ++ write_uint 8 value
  else firstn (Z.to_nat length) (Serde.serde_write_usize_enc value length).

Theorem write_usize_gen v : Codec.write_usize v = write_usize_g v.
Proof.
  unfold Codec.write_usize, write_usize_g. cbv zeta. rewrite <- encoded_len_gen.
  pose proof (encoded_len_1_9 v) as H.
  destruct (Codec.encoded_len v =? 9); [reflexivity|].
  unfold Serde.serde_write_usize_enc. cbv zeta.
  rewrite (wrap_small 64 (Codec.encoded_len v - 1)); [reflexivity|].
  change (2 ^ 64) with 18446744073709551616. lia.
Qed.

Theorem write_usize_gen_no_overflow v : Serde.serde_write_usize_enc_ok v (Serde.serde_encoded_len v) = true.
Proof.
  rewrite <- encoded_len_gen. pose proof (encoded_len_1_9 v) as H.
  unfold Serde.serde_write_usize_enc_ok, in_u.
  rewrite (wrap_small 64 (Codec.encoded_len v - 1)) by (change (2 ^ 64) with 18446744073709551616; lia).
  change (2 ^ 64) with 18446744073709551616.
  destruct (Z.leb_spec 0 (Codec.encoded_len v - 1)); [|lia].
  destruct (Z.ltb_spec (Codec.encoded_len v - 1) 18446744073709551616); [|lia].
  destruct (Z.ltb_spec (Codec.encoded_len v - 1) 64); [reflexivity | lia].
Qed.

(* read_usize = the hand skeleton (peek, 9-byte test, byte reads, zero padding) around the generated pieces *)
Definition read_usize_g : Rd Z :=
  first_byte <- peek_u8 ;;
  let vlen := Serde.serde_read_usize_length first_byte in
  result <- (if vlen =? 9
             then _ <- read_u8 ;; read_uint 8
             else v <- read_slice vlen ;;
                  (* encoded[..length].copy_from_slice(value) on [0u8; 8] *)
                  ret (Serde.serde_read_usize_shift (v ++ repeat 0 (8 - length v)) vlen)) ;;
  match Serde.serde_read_usize_check result with None => fail Invalid | Some r => ret r end.

Theorem read_usize_gen bs : Codec.read_usize bs = read_usize_g bs.
Proof.
  unfold Codec.read_usize, read_usize_g. apply bind_ext. intros fb bs1.
  assert (E : Serde.serde_read_usize_length fb = ctz 8 fb + 1).
  { unfold Serde.serde_read_usize_length. cbv zeta. pose proof (ctz_bounds 8 fb ltac:(lia)).
    apply wrap_small. change (2 ^ 64) with 18446744073709551616. lia. }
  cbv zeta. rewrite E.
  assert (Hres : forall r bs2,
             (if r >? usize_max then fail Invalid else ret r) bs2 =
             match Serde.serde_read_usize_check r with None => fail Invalid | Some r' => ret r' end bs2).
  { intros r bs2. unfold Serde.serde_read_usize_check, usize_max.
    change (2 ^ 64 - 1) with 18446744073709551615. destruct (r >? 18446744073709551615); reflexivity. }
  destruct (ctz 8 fb + 1 =? 9).
  - apply bind_ext. exact Hres.
  - unfold bind at 1 3. unfold bind at 1 2.
    destruct (read_slice (ctz 8 fb + 1) bs1) as [[v bs2]| |]; auto.
    unfold ret at 1 3. unfold Serde.serde_read_usize_shift. rewrite of_le_bytes_app_zeros. apply Hres.
Qed.

(* the round trip, restated on the regenerated arithmetic *)
Theorem vint64_rt_gen v rest : 0 <= v < 2 ^ 64 -> read_usize_g (write_usize_g v ++ rest) = Ok (v, rest).
Proof. intros H. rewrite <- write_usize_gen, <- read_usize_gen. now apply vint64_rt. Qed.

(* --------------------------------------------------------------------- constructors: Gen/Limits.v *)
Lemma assert_andb {A} (a b : bool) (k : Result A) : assert_ a (assert_ b k) = assert_ (a && b) k.
Proof. destruct a, b; reflexivity. Qed.

(* ProofOptions::new accepts exactly when the conjunction of its translated asserts holds *)
Theorem ProofOptions_new_gen nq bf gf fe ff rd : 0 <= rd < 2 ^ 64 ->
  ProofOptions_new nq bf gf fe ff rd =
  if Limits.lim_po_new_checks_ok nq bf gf ff rd
  then Ok (mkPO (wrap 8 nq) (wrap 8 bf) (wrap 8 gf) fe (wrap 8 ff) (wrap 8 rd)) else Panic.
Proof.
  intros Hrd. unfold ProofOptions_new, Limits.lim_po_new_checks_ok.
  rewrite !assert_andb. unfold assert_.
  unfold Limits.lim_MAX_NUM_QUERIES, Limits.lim_MIN_BLOWUP_FACTOR, Limits.lim_MAX_BLOWUP_FACTOR,
    Limits.lim_MAX_GRINDING_FACTOR, Limits.lim_FRI_MIN_FOLDING_FACTOR, Limits.lim_FRI_MAX_FOLDING_FACTOR,
    Limits.lim_FRI_MAX_REMAINDER_DEGREE.
  change Limits.is_pow2 with Codec.is_pow2.
  (* robust to a reordering of the asserts in the source: both sides are conjunctions of the same atoms (btauto) once
     the two atoms about `rd + 1` are identified *)
  assert (EA : in_u 64 (rd + 1) = (rd + 1 <=? usize_max)).
  { unfold in_u, usize_max. change (2 ^ 64 - 1) with 18446744073709551615.
    destruct (Z.leb_spec 0 (rd + 1)); [|lia].
    destruct (Z.leb_spec (rd + 1) 18446744073709551615); destruct (Z.ltb_spec (rd + 1) (2 ^ 64)); try lia; reflexivity. }
  assert (EB : (rd + 1 <=? usize_max) = true -> Codec.is_pow2 (wrap 64 (rd + 1)) = Codec.is_pow2 (rd + 1)).
  { intros H. apply Z.leb_le in H. unfold usize_max in H. rewrite wrap_small by lia. reflexivity. }
  rewrite EA. destruct (rd + 1 <=? usize_max) eqn:HA.
  - rewrite (EB eq_refl).
    match goal with |- (if ?a then _ else _) = (if ?b then _ else _) => replace a with b by btauto end. reflexivity.
  - match goal with |- (if ?a then _ else _) = (if ?b then _ else _) => replace a with b by btauto end. reflexivity.
Qed.

(* TraceInfo::new_multi_segment; a Vec<u8> is seen by the checks through its length *)
Theorem TraceInfo_new_gen main aux rands length_ meta :
  TraceInfo_new_multi_segment main aux rands length_ meta =
  if Limits.lim_ti_new_checks_ok main aux rands length_ (len meta)
  then Ok (mkTI main aux rands length_ meta) else Panic.
Proof.
  unfold TraceInfo_new_multi_segment, Limits.lim_ti_new_checks_ok.
  rewrite !assert_andb. unfold assert_. cbv zeta.
  unfold Limits.lim_MIN_TRACE_LENGTH, Limits.lim_MAX_META_LENGTH, Limits.lim_MAX_TRACE_WIDTH,
    Limits.lim_MAX_RAND_SEGMENT_ELEMENTS, Limits.lim_vec_len, usize_max.
  change Limits.is_pow2 with Codec.is_pow2. change (2 ^ 64 - 1) with 18446744073709551615.
  rewrite <- !andb_assoc. rewrite (Z.min_comm 18446744073709551615 (main + aux)). reflexivity.
Qed.

(* Context::new (the ProofOptions argument is seen through its blowup factor) *)
Theorem Context_new_gen modulus t o : 0 <= ti_length t -> 0 <= po_blowup_factor o ->
  Context_new modulus t o =
  if Limits.lim_ctx_new_checks_ok (ti_length t) (po_blowup_factor o) then Ok (mkCtx t modulus o) else Panic.
Proof.
  intros Hl Hb. unfold Context_new, Limits.lim_ctx_new_checks_ok, Limits.lim_po_blowup_factor.
  rewrite !assert_andb. unfold assert_. cbv zeta. rewrite <- !andb_assoc. unfold in_u, usize_max.
  change (2 ^ 32 - 1) with 4294967295. change (2 ^ 64 - 1) with 18446744073709551615.
  assert (0 <= ti_length t * po_blowup_factor o) by (apply Z.mul_nonneg_nonneg; lia).
  destruct (Z.leb_spec 0 (ti_length t * po_blowup_factor o)); [|lia].
  destruct (Z.leb_spec (ti_length t * po_blowup_factor o) 18446744073709551615);
    destruct (Z.ltb_spec (ti_length t * po_blowup_factor o) (2 ^ 64)); try lia.
  - rewrite wrap_small by lia. reflexivity.
  - cbn [andb]. now rewrite !andb_false_r.
Qed.

(* the limit constants themselves (a changed constant changes Gen/Limits.v and these statements) *)
Theorem limits_gen :
  Limits.lim_MAX_NUM_QUERIES = 255 /\ Limits.lim_MIN_BLOWUP_FACTOR = 2 /\ Limits.lim_MAX_BLOWUP_FACTOR = 128 /\
  Limits.lim_MAX_GRINDING_FACTOR = 32 /\ Limits.lim_FRI_MIN_FOLDING_FACTOR = 2 /\ Limits.lim_FRI_MAX_FOLDING_FACTOR = 16 /\
  Limits.lim_FRI_MAX_REMAINDER_DEGREE = 255 /\ Limits.lim_MIN_TRACE_LENGTH = 8 /\ Limits.lim_MAX_TRACE_WIDTH = 255 /\
  Limits.lim_MAX_META_LENGTH = 65535 /\ Limits.lim_MAX_RAND_SEGMENT_ELEMENTS = 255.
Proof. repeat split; reflexivity. Qed.

(* -------------------------------------------------------------------------- readers: Gen/Limits.v *)
Definition chk {A B} (c : option B) (k : Rd A) : Rd A := match c with None => fail Invalid | Some _ => k end.

(* ProofOptions::read_from = six byte reads, the translated validation, the constructor *)
Definition read_ProofOptions_g : Rd ProofOptions :=
  nq <- read_u8 ;; bf <- read_u8 ;; gf <- read_u8 ;; fe <- read_FieldExtension ;; ff <- read_u8 ;; rd <- read_u8 ;;
  match Limits.lim_po_read_checks nq bf gf ff rd with
  | None => fail Invalid
  | Some _ => lift (ProofOptions_new nq bf gf fe ff rd)
  end.

Theorem read_ProofOptions_gen bs : is_bytes bs -> Codec.read_ProofOptions bs = read_ProofOptions_g bs.
Proof.
  unfold Codec.read_ProofOptions, read_ProofOptions_g.
  apply (bind_ext_safe _ _ _ _ safe_read_u8). intros nq bs1 Hnq.
  apply (bind_ext_safe _ _ _ _ safe_read_u8). intros bf bs2 Hbf.
  apply (bind_ext_safe _ _ _ _ safe_read_u8). intros gf bs3 Hgf.
  apply (bind_ext_safe _ _ _ _ safe_read_FieldExtension). intros fe bs4 _.
  apply (bind_ext_safe _ _ _ _ safe_read_u8). intros ff bs5 Hff.
  apply (bind_ext_safe _ _ _ _ safe_read_u8). intros rd bs6 Hrd Hbs6.
  unfold Limits.lim_po_read_checks.
  unfold Limits.lim_MAX_NUM_QUERIES, Limits.lim_MIN_BLOWUP_FACTOR, Limits.lim_MAX_BLOWUP_FACTOR,
    Limits.lim_MAX_GRINDING_FACTOR, Limits.lim_FRI_MIN_FOLDING_FACTOR, Limits.lim_FRI_MAX_FOLDING_FACTOR,
    Limits.lim_FRI_MAX_REMAINDER_DEGREE.
  change Limits.is_pow2 with Codec.is_pow2. rewrite (wrap_small 64 (rd + 1)) by (change (2 ^ 64) with 18446744073709551616; lia).
  repeat match goal with |- context [if ?c then _ else _] => destruct c end; reflexivity.
Qed.

(* TraceInfo::read_from = byte reads interleaved with the four translated validation parts *)
Definition read_TraceInfo_g : Rd TraceInfo :=
  main <- read_u8 ;;
  chk (Limits.lim_ti_read_main main) (
  aux <- read_u8 ;;
  chk (Limits.lim_ti_read_width main aux) (
  rands <- read_u8 ;;
  chk (Limits.lim_ti_read_rands aux rands) (
  e <- read_u8 ;;
  match Limits.lim_ti_read_length e with
  | None => fail Invalid
  | Some length_ =>
    n <- read_u16 ;;
    meta <- (if negb (n =? 0) then read_vec n else ret []) ;;
    lift (TraceInfo_new_multi_segment main aux rands length_ meta)
  end))).

Theorem read_TraceInfo_gen bs : is_bytes bs -> Codec.read_TraceInfo bs = read_TraceInfo_g bs.
Proof.
  unfold Codec.read_TraceInfo, read_TraceInfo_g, chk.
  apply (bind_ext_safe _ _ _ _ safe_read_u8). intros main bs1 Hmain Hbs1.
  unfold Limits.lim_ti_read_main. destruct (main =? 0); [reflexivity|].
  revert bs1 Hbs1. apply (bind_ext_safe _ _ _ _ safe_read_u8). intros aux bs2 Haux Hbs2.
  unfold Limits.lim_ti_read_width, Limits.lim_MAX_TRACE_WIDTH. cbv zeta.
  rewrite (wrap_small 64 (main + aux)) by (change (2 ^ 64) with 18446744073709551616; lia).
  destruct (main + aux >? 255); [reflexivity|].
  revert bs2 Hbs2. apply (bind_ext_safe _ _ _ _ safe_read_u8). intros rands bs3 Hrands Hbs3.
  unfold Limits.lim_ti_read_rands, Limits.lim_MAX_RAND_SEGMENT_ELEMENTS.
  destruct ((aux =? 0) && negb (rands =? 0)); [reflexivity|].
  destruct (rands >? 255); [reflexivity|].
  revert bs3 Hbs3. apply (bind_ext_safe _ _ _ _ safe_read_u8). intros e bs4 He Hbs4.
  unfold Limits.lim_ti_read_length, Limits.lim_MIN_TRACE_LENGTH.
  change (wrap 8 (Z.log2 8)) with 3.
  destruct (Z.ltb_spec e 3); [reflexivity|].
  destruct (Z.geb_spec e 64); [reflexivity|].
  cbv zeta. rewrite (wrap_small 64 (2 ^ e)); [reflexivity|].
  split; [apply Z.pow_nonneg; lia | apply Z.pow_lt_mono_r; lia].
Qed.

(* Context::read_from: the trace-length check is translated; the `checked_mul` match is outside the translated
   subset and stays hand-modelled (pinned by a source guard of the unit) *)
Definition read_Context_g : Rd Context :=
  t <- read_TraceInfo ;;
  n <- read_u8 ;;
  if n =? 0 then fail Invalid else
  m <- read_vec n ;;
  o <- read_ProofOptions ;;
  chk (Limits.lim_ctx_read_checks (ti_length t) (po_blowup_factor o)) (
  if (ti_length t * po_blowup_factor o <=? usize_max) && (ti_length t * po_blowup_factor o <=? 2 ^ 32 - 1)
  then ret (mkCtx t m o) else fail Invalid).

Theorem read_Context_gen bs : Codec.read_Context bs = read_Context_g bs.
Proof.
  unfold Codec.read_Context, read_Context_g, chk.
  apply bind_ext. intros t bs1. apply bind_ext. intros n bs2.
  destruct (n =? 0); [reflexivity|].
  apply bind_ext. intros m bs3. apply bind_ext. intros o bs4.
  unfold Limits.lim_ctx_read_checks. change (2 ^ 32 - 1) with 4294967295.
  destruct (ti_length t >? 4294967295); reflexivity.
Qed.

Definition read_FriProof_g : Rd FriProof :=
  n <- read_u8 ;;
  layers <- read_many read_FriProofLayer n ;;
  r <- read_blob 2 ;;
  np <- read_u8 ;;
  chk (Limits.lim_fri_read_partitions np) (ret (mkFri layers r np)).

Theorem read_FriProof_gen bs : Codec.read_FriProof bs = read_FriProof_g bs.
Proof.
  unfold Codec.read_FriProof, read_FriProof_g, chk.
  apply bind_ext. intros n bs1. apply bind_ext. intros layers bs2.
  apply bind_ext. intros r bs3. apply bind_ext. intros np bs4.
  unfold Limits.lim_fri_read_partitions. destruct (np >=? 64); reflexivity.
Qed.
