(* C11 — the permutation on RAW internal (Montgomery) words, as the implementation computes it (generated f64
   operations + frequency-domain mds_multiply), equals the VALUE-level permutation through `val`, and its output words
   are canonical.  Uses the C07 theorems about the generated f64 code and C11_mds*_multiply. *)
From VBase Require Import MachInt.
From VGen Require Import Mds12 Mds8 F64.
From VModel Require Import RescueConsts Rescue.
From VProofs Require Import F64Red F64Ops RescueMds RescueSbox.
Open Scope Z_scope.

Lemma M_is_M64 : M = M64. Proof. reflexivity. Qed.

(* w represents the residue v *)
Definition R (w v : Z) : Prop := repr w /\ val w = v.

Lemma R_mul a x b y : R a x -> R b y -> R (f64_mul a b) (fmul M64 x y).
Proof. intros (Ha & <-) (Hb & <-). destruct (f64_mul_spec a b Ha Hb) as (Hr & Hv). split; [exact Hr | exact Hv]. Qed.
Lemma R_sq a x : R a x -> R (raw_sq a) (fsq M64 x).
Proof. intros H. apply R_mul; exact H. Qed.
Lemma R_sqn n : forall a x, R a x -> R (raw_sqn n a) (sqn M64 n x).
Proof. induction n as [|n IH]; intros a x H; [exact H|]. cbn [raw_sqn sqn]. apply IH, R_sq, H. Qed.
Lemma R_exp_acc n a x b y : R a x -> R b y -> R (raw_exp_acc n a b) (exp_acc M64 n x y).
Proof. intros Ha Hb. apply R_mul; [apply R_sqn; exact Ha | exact Hb]. Qed.

Lemma R_exp7 a x : R a x -> R (f64_exp7 a) (exp7 M64 x).
Proof.
  intros H. unfold f64_exp7, exp7, fsq. cbv zeta.
  pose proof (R_mul _ _ _ _ H H) as H2. pose proof (R_mul _ _ _ _ H2 H2) as H4. pose proof (R_mul _ _ _ _ H2 H) as H3.
  exact (R_mul _ _ _ _ H3 H4).
Qed.

Lemma R_inv_sbox a x : R a x -> R (raw_inv_sbox64 a) (inv_sbox64 M64 x).
Proof.
  intros H. unfold raw_inv_sbox64, inv_sbox64.
  pose proof (R_sq _ _ H) as H1.
  pose proof (R_sq _ _ H1) as H2.
  pose proof (R_exp_acc 3 _ _ _ _ H2 H2) as H3.
  pose proof (R_exp_acc 6 _ _ _ _ H3 H3) as H4.
  pose proof (R_exp_acc 12 _ _ _ _ H4 H4) as H5.
  pose proof (R_exp_acc 6 _ _ _ _ H5 H3) as H6.
  pose proof (R_exp_acc 31 _ _ _ _ H6 H6) as H7.
  pose proof (R_sq _ _ (R_sq _ _ (R_mul _ _ _ _ (R_sq _ _ H7) H6))) as Ha.
  pose proof (R_mul _ _ _ _ (R_mul _ _ _ _ H1 H2) H) as Hb.
  cbv zeta. exact (R_mul _ _ _ _ Ha Hb).
Qed.

Lemma val_add a b : repr a -> repr b -> repr (f64_add a b) /\ val (f64_add a b) = (val a + val b) mod M.
Proof.
  intros Ha Hb. rewrite (f64_add_eq a b Ha Hb). split.
  - apply Z.mod_pos_bound. reflexivity.
  - unfold val. rewrite Z.mul_mod_idemp_l by (unfold M; lia).
    rewrite <- Z.add_mod by (unfold M; lia). f_equal. ring.
Qed.

Lemma R_add_const a x k : R a x -> 0 <= k < M64 -> R (f64_add a (f64_new k)) (fadd M64 x k).
Proof.
  intros (Ha & <-) Hk.
  destruct (f64_new_spec k) as (Hr & Hv); [unfold M64 in Hk; lia|].
  destruct (val_add a (f64_new k) Ha Hr) as (Hr' & Hv'). split; [exact Hr'|].
  rewrite Hv', Hv. unfold fadd. rewrite M_is_M64. rewrite (Z.mod_small k M64) by exact Hk. reflexivity.
Qed.

(* list level *)
Definition RL (ws vs : list Z) : Prop := Forall2 R ws vs.

Lemma RL_map f g ws vs : (forall a x, R a x -> R (f a) (g x)) -> RL ws vs -> RL (map f ws) (map g vs).
Proof. intros H HL. induction HL; cbn; constructor; auto. Qed.

Lemma RL_length ws vs : RL ws vs -> length ws = length vs.
Proof. intros H. induction H; cbn; congruence. Qed.
Lemma RL_repr ws vs : RL ws vs -> Forall repr ws.
Proof. intros H. induction H as [|w v ws vs (Hr & _) _ IH]; constructor; auto. Qed.
Lemma RL_val ws vs : RL ws vs -> map val ws = vs.
Proof. intros H. induction H as [|w v ws vs (_ & Hv) _ IH]; cbn; congruence. Qed.
Lemma RL_intro ws : Forall repr ws -> RL ws (map val ws).
Proof. intros H. induction H; cbn; constructor; auto. split; auto. Qed.

Lemma RL_add_constants ws vs k : RL ws vs -> Forall (fun c => 0 <= c < M64) k ->
  RL (raw_add_constants ws k) (add_constants M64 vs k).
Proof.
  intros H. revert k. induction H as [|w v ws vs Hwv _ IH]; intros k Hk; [constructor|].
  destruct k as [|c k]; [constructor|]. inversion Hk; subst.
  unfold raw_add_constants, add_constants. cbn [combine map fst snd]. constructor.
  - apply R_add_const; assumption.
  - apply IH. assumption.
Qed.

(* val is linear: it commutes with the matrix product mod M *)
Lemma val_dot r ws : val (dotZ r ws mod M64) = dotZ r (map val ws) mod M64.
Proof.
  unfold val. rewrite M_is_M64. rewrite Z.mul_mod_idemp_l by (unfold M64; lia).
  revert ws. induction r as [|m r IH]; intros ws; [reflexivity|].
  destruct ws as [|w ws]; [reflexivity|].
  unfold dotZ in *. cbn [combine map fold_right fst snd].
  rewrite Z.mul_add_distr_r. rewrite Z.add_mod by (unfold M64; lia). rewrite IH.
  rewrite <- Z.mul_assoc. rewrite <- (Z.mul_mod_idemp_r m) by (unfold M64; lia).
  rewrite <- Z.add_mod by (unfold M64; lia). reflexivity.
Qed.

Lemma RL_mat_vec mds ws vs : RL ws vs -> RL (mat_vec M64 mds ws) (mat_vec M64 mds vs).
Proof.
  intros H. rewrite <- (RL_val _ _ H). unfold mat_vec. clear H.
  induction mds as [|r mds IH]; cbn [map]; constructor; auto.
  split; [apply Z.mod_pos_bound; reflexivity | apply val_dot].
Qed.

Section Perm.
  Variable n : nat.
  Variable mdsf : list Z -> list Z.
  Variables mds ark1 ark2 : list (list Z).
  Hypothesis Hmds : forall st, length st = n -> Forall word st -> mdsf st = mat_vec M64 mds st.
  Hypothesis Hmds_len : length mds = n.
  Hypothesis Hark1 : forall r, (r < 7)%nat -> length (nth r ark1 []) = n /\ Forall (fun c => 0 <= c < M64) (nth r ark1 []).
  Hypothesis Hark2 : forall r, (r < 7)%nat -> length (nth r ark2 []) = n /\ Forall (fun c => 0 <= c < M64) (nth r ark2 []).

  Lemma repr_word ws : Forall repr ws -> Forall word ws.
  Proof. apply Forall_impl. unfold repr, word, M. lia. Qed.

  Lemma RL_mdsf ws vs : length ws = n -> RL ws vs -> RL (mdsf ws) (mat_vec M64 mds vs) /\ length (mdsf ws) = n.
  Proof.
    intros Hl H. rewrite Hmds; [|exact Hl | apply repr_word, (RL_repr _ _ H)].
    split; [apply RL_mat_vec; exact H|]. unfold mat_vec. rewrite map_length. exact Hmds_len.
  Qed.

  Lemma add_constants_length ws k : length ws = n -> length k = n -> length (raw_add_constants ws k) = n.
  Proof. intros H1 H2. unfold raw_add_constants. rewrite map_length, combine_length, H1, H2. apply Nat.min_id. Qed.

  Lemma raw_round_spec P ws vs r : (r < 7)%nat -> length ws = n -> RL ws vs ->
    rp_sbox P = exp7 M64 -> rp_inv_sbox P = inv_sbox64 M64 -> rp_mds P = mds -> rp_ark1 P = ark1 -> rp_ark2 P = ark2 ->
    RL (raw_round mdsf ark1 ark2 ws r) (apply_round M64 P vs r) /\ length (raw_round mdsf ark1 ark2 ws r) = n.
  Proof.
    intros Hr Hl H E1 E2 E3 E4 E5. unfold raw_round, apply_round. cbv zeta. rewrite E1, E2, E3, E4, E5.
    destruct (Hark1 r Hr) as (L1 & C1). destruct (Hark2 r Hr) as (L2 & C2).
    assert (S1 := RL_map _ _ _ _ R_exp7 H).
    assert (N1 : length (map f64_exp7 ws) = n) by (rewrite map_length; exact Hl).
    destruct (RL_mdsf _ _ N1 S1) as (S2 & N2).
    assert (S3 := RL_add_constants _ _ _ S2 C1).
    assert (N3 := add_constants_length _ _ N2 L1).
    assert (S4 := RL_map _ _ _ _ R_inv_sbox S3).
    assert (N4 : length (map raw_inv_sbox64 (raw_add_constants (mdsf (map f64_exp7 ws)) (nth r ark1 []))) = n) by (rewrite map_length; exact N3).
    destruct (RL_mdsf _ _ N4 S4) as (S5 & N5).
    split; [apply RL_add_constants; assumption | apply add_constants_length; assumption].
  Qed.

  Lemma raw_perm_spec P : rp_sbox P = exp7 M64 -> rp_inv_sbox P = inv_sbox64 M64 -> rp_mds P = mds -> rp_ark1 P = ark1 -> rp_ark2 P = ark2 ->
    forall ws vs, length ws = n -> RL ws vs ->
    RL (fold_left (raw_round mdsf ark1 ark2) (seq 0 7) ws) (apply_permutation M64 P vs) /\
    length (fold_left (raw_round mdsf ark1 ark2) (seq 0 7) ws) = n.
  Proof.
    intros E1 E2 E3 E4 E5. unfold apply_permutation.
    assert (G : forall l, Forall (fun r => (r < 7)%nat) l -> forall ws vs, length ws = n -> RL ws vs ->
                RL (fold_left (raw_round mdsf ark1 ark2) l ws) (fold_left (apply_round M64 P) l vs) /\
                length (fold_left (raw_round mdsf ark1 ark2) l ws) = n).
    { induction l as [|r l IH]; intros Hl ws vs Hn H; [split; assumption|].
      inversion Hl as [|r' l' Hr7 Hl' Eq]. cbn [fold_left].
      destruct (raw_round_spec P ws vs r) as (S & N); auto. }
    apply G. apply Forall_forall. intros r Hr. apply in_seq in Hr. lia.
  Qed.
End Perm.

Lemma ark_rows_ok (t : list (list Z)) (n : nat) : table_ok M64 7 n t = true ->
  forall r, (r < 7)%nat -> length (nth r t []) = n /\ Forall (fun c => 0 <= c < M64) (nth r t []).
Proof.
  unfold table_ok. intros H r Hr. apply andb_prop in H. destruct H as (Hl & Hf).
  apply Nat.eqb_eq in Hl. rewrite forallb_forall in Hf.
  assert (Hin : In (nth r t []) t) by (apply nth_In; lia).
  specialize (Hf _ Hin). apply andb_prop in Hf. destruct Hf as (H1 & H2).
  split; [apply Nat.eqb_eq; exact H1|]. apply Forall_forall. intros c Hc.
  rewrite forallb_forall in H2. specialize (H2 c Hc). apply andb_prop in H2. destruct H2 as (A & B).
  apply Z.leb_le in A. apply Z.ltb_lt in B. lia.
Qed.

Lemma rp64_raw_permutation_RL : forall ws vs, length ws = 12%nat -> RL ws vs ->
  RL (rp64_raw_permutation ws) (rp64_permutation vs) /\ length (rp64_raw_permutation ws) = 12%nat.
Proof.
  intros ws vs Hl H. unfold rp64_raw_permutation, rp64_permutation.
  apply (raw_perm_spec 12 mds12_multiply rp64_MDS rp64_ARK1 rp64_ARK2); try reflexivity; auto.
  - intros st L W. apply (mds12_multiply_list st L W).
  - apply ark_rows_ok. apply tables_wellformed.
  - apply ark_rows_ok. apply tables_wellformed.
Qed.
Lemma jive_raw_permutation_RL : forall ws vs, length ws = 8%nat -> RL ws vs ->
  RL (jive_raw_permutation ws) (jive_permutation vs) /\ length (jive_raw_permutation ws) = 8%nat.
Proof.
  intros ws vs Hl H. unfold jive_raw_permutation, jive_permutation.
  apply (raw_perm_spec 8 mds8_multiply jive_MDS jive_ARK1 jive_ARK2); try reflexivity; auto.
  - intros st L W. apply (mds8_multiply_list st L W).
  - apply ark_rows_ok. apply tables_wellformed.
  - apply ark_rows_ok. apply tables_wellformed.
Qed.

(* permutation_spec, raw level: for every state of canonical internal words, the implementation-level permutation
   (generated f64 arithmetic, frequency-domain MDS) returns canonical words whose residues are the value-level
   (textbook, see permutation_spec_rp64) permutation of the input residues *)
Theorem rp64_raw_permutation_spec : forall ws, length ws = 12%nat -> Forall repr ws ->
  Forall repr (rp64_raw_permutation ws) /\ map val (rp64_raw_permutation ws) = rp64_permutation (map val ws).
Proof.
  intros ws Hl Hr. destruct (rp64_raw_permutation_RL ws (map val ws) Hl (RL_intro ws Hr)) as (H & _).
  split; [eapply RL_repr; exact H | eapply RL_val; exact H].
Qed.

Theorem jive_raw_permutation_spec : forall ws, length ws = 8%nat -> Forall repr ws ->
  Forall repr (jive_raw_permutation ws) /\ map val (jive_raw_permutation ws) = jive_permutation (map val ws).
Proof.
  intros ws Hl Hr. destruct (jive_raw_permutation_RL ws (map val ws) Hl (RL_intro ws Hr)) as (H & _).
  split; [eapply RL_repr; exact H | eapply RL_val; exact H].
Qed.

Lemma ex_raw_nonvacuous : Forall repr (repeat (M - 1) 12) /\ Forall repr [0; 1; 2; 3; 4; 5; 6; 7].
Proof. split; repeat constructor; unfold repr, M; lia. Qed.
