(* C11 — the frequency-domain MDS multiplication (mds_f64_12x12.rs / mds_f64_8x8.rs, generated as VGen.Mds12 / Mds8):
   for limbs in [0, 2^32] every i64/u64 intermediate of `mds_multiply_freq` is in range (all generated `_ok` side
   conditions hold) and the result is the INTEGER circulant matrix-vector product; hence `mds_multiply` on raw words
   (hand model over the generated code) returns MDS * state mod M, canonical.
   Method: `i12_*` / `i8_*` below are the generated definitions with every `swrap 64` erased (ideal integer
   arithmetic; mechanically derived from Gen/Mds12.v, Gen/Mds8.v); each generated function equals its ideal twin under
   interval hypotheses (one `lia` per checked operation), and the ideal composition equals the matrix product by `ring`. *)
From VBase Require Import MachInt.
From VGen Require Import Mds12 Mds8.
From VModel Require Import RescueConsts Rescue.
Open Scope Z_scope.

Definition i12_fft2_real (x : (Z * Z)) : (Z * Z) :=
  ((Z.add ((fst x)) ((snd x))), (Z.sub ((fst x)) ((snd x)))).

Definition i12_ifft2_real_unreduced (y : (Z * Z)) : (Z * Z) :=
  (wrap 64 ((Z.add (fst y) (snd y))), wrap 64 ((Z.sub (fst y) (snd y)))).

Definition i12_fft4_real (x : (Z * Z * Z * Z)) : (Z * (Z * Z) * Z) :=
  let '(z0, z2) := i12_fft2_real (fst (fst (fst x)), snd (fst x)) in
  let '(z1, z3) := i12_fft2_real (snd (fst (fst x)), snd x) in
  let y0 := (Z.add z0 z1) in
  let y1 := (z2, (Z.opp z3)) in
  let y2 := (Z.sub z0 z1) in
  (y0, y1, y2).

Definition i12_ifft4_real_unreduced (y : (Z * (Z * Z) * Z)) : (Z * Z * Z * Z) :=
  let z0 := (Z.add (fst (fst y)) (snd y)) in
  let z1 := (Z.sub (fst (fst y)) (snd y)) in
  let z2 := fst (snd (fst y)) in
  let z3 := (Z.opp (snd (snd (fst y)))) in
  let '(x0, x2) := i12_ifft2_real_unreduced (z0, z2) in
  let '(x1, x3) := i12_ifft2_real_unreduced (z1, z3) in
  (x0, x1, x2, x3).

Definition i12_MDS_FREQ_BLOCK_ONE : (Z * Z * Z) := (16, 8, 16).

Definition i12_MDS_FREQ_BLOCK_TWO : ((Z * Z) * (Z * Z) * (Z * Z)) := (((Z.opp 1), 2), ((Z.opp 1), 1), (4, 8)).

Definition i12_MDS_FREQ_BLOCK_THREE : (Z * Z * Z) := ((Z.opp 8), 1, 1).

Definition i12_block1 (x : (Z * Z * Z)) (y : (Z * Z * Z)) : (Z * Z * Z) :=
  let '(x0, x1, x2) := x in
  let '(y0, y1, y2) := y in
  let z0 := (Z.add ((Z.add ((Z.mul x0 y0)) ((Z.mul x1 y2)))) ((Z.mul x2 y1))) in
  let z1 := (Z.add ((Z.add ((Z.mul x0 y1)) ((Z.mul x1 y0)))) ((Z.mul x2 y2))) in
  let z2 := (Z.add ((Z.add ((Z.mul x0 y2)) ((Z.mul x1 y1)))) ((Z.mul x2 y0))) in
  (z0, z1, z2).

Definition i12_block2 (x : ((Z * Z) * (Z * Z) * (Z * Z))) (y : ((Z * Z) * (Z * Z) * (Z * Z))) : ((Z * Z) * (Z * Z) * (Z * Z)) :=
  let '((x0r, x0i), (x1r, x1i), (x2r, x2i)) := x in
  let '((y0r, y0i), (y1r, y1i), (y2r, y2i)) := y in
  let x0s := (Z.add x0r x0i) in
  let x1s := (Z.add x1r x1i) in
  let x2s := (Z.add x2r x2i) in
  let y0s := (Z.add y0r y0i) in
  let y1s := (Z.add y1r y1i) in
  let y2s := (Z.add y2r y2i) in
  let m0 := ((Z.mul x0r y0r), (Z.mul x0i y0i)) in
  let m1 := ((Z.mul x1r y2r), (Z.mul x1i y2i)) in
  let m2 := ((Z.mul x2r y1r), (Z.mul x2i y1i)) in
  let z0r := (Z.add ((Z.add ((Z.sub (fst m0) (snd m0))) ((Z.sub ((Z.sub ((Z.mul x1s y2s)) (fst m1))) (snd m1))))) ((Z.sub ((Z.sub ((Z.mul x2s y1s)) (fst m2))) (snd m2)))) in
  let z0i := (Z.add ((Z.add ((Z.sub ((Z.sub ((Z.mul x0s y0s)) (fst m0))) (snd m0))) ((Z.add ((Z.opp (fst m1))) (snd m1))))) ((Z.add ((Z.opp (fst m2))) (snd m2)))) in
  let z0 := (z0r, z0i) in
  let m0 := ((Z.mul x0r y1r), (Z.mul x0i y1i)) in
  let m1 := ((Z.mul x1r y0r), (Z.mul x1i y0i)) in
  let m2 := ((Z.mul x2r y2r), (Z.mul x2i y2i)) in
  let z1r := (Z.add ((Z.add ((Z.sub (fst m0) (snd m0))) ((Z.sub (fst m1) (snd m1))))) ((Z.sub ((Z.sub ((Z.mul x2s y2s)) (fst m2))) (snd m2)))) in
  let z1i := (Z.add ((Z.add ((Z.sub ((Z.sub ((Z.mul x0s y1s)) (fst m0))) (snd m0))) ((Z.sub ((Z.sub ((Z.mul x1s y0s)) (fst m1))) (snd m1))))) ((Z.add ((Z.opp (fst m2))) (snd m2)))) in
  let z1 := (z1r, z1i) in
  let m0 := ((Z.mul x0r y2r), (Z.mul x0i y2i)) in
  let m1 := ((Z.mul x1r y1r), (Z.mul x1i y1i)) in
  let m2 := ((Z.mul x2r y0r), (Z.mul x2i y0i)) in
  let z2r := (Z.add ((Z.add ((Z.sub (fst m0) (snd m0))) ((Z.sub (fst m1) (snd m1))))) ((Z.sub (fst m2) (snd m2)))) in
  let z2i := (Z.add ((Z.add ((Z.sub ((Z.sub ((Z.mul x0s y2s)) (fst m0))) (snd m0))) ((Z.sub ((Z.sub ((Z.mul x1s y1s)) (fst m1))) (snd m1))))) ((Z.sub ((Z.sub ((Z.mul x2s y0s)) (fst m2))) (snd m2)))) in
  let z2 := (z2r, z2i) in
  (z0, z1, z2).

Definition i12_block3 (x : (Z * Z * Z)) (y : (Z * Z * Z)) : (Z * Z * Z) :=
  let '(x0, x1, x2) := x in
  let '(y0, y1, y2) := y in
  let z0 := (Z.sub ((Z.sub ((Z.mul x0 y0)) ((Z.mul x1 y2)))) ((Z.mul x2 y1))) in
  let z1 := (Z.sub ((Z.add ((Z.mul x0 y1)) ((Z.mul x1 y0)))) ((Z.mul x2 y2))) in
  let z2 := (Z.add ((Z.add ((Z.mul x0 y2)) ((Z.mul x1 y1)))) ((Z.mul x2 y0))) in
  (z0, z1, z2).

Definition i12_mds_multiply_freq (state : (Z * Z * Z * Z * Z * Z * Z * Z * Z * Z * Z * Z)) : (Z * Z * Z * Z * Z * Z * Z * Z * Z * Z * Z * Z) :=
  let '(s0, s1, s2, s3, s4, s5, s6, s7, s8, s9, s10, s11) := state in
  let '(u0, u1, u2) := i12_fft4_real (s0, s3, s6, s9) in
  let '(u4, u5, u6) := i12_fft4_real (s1, s4, s7, s10) in
  let '(u8, u9, u10) := i12_fft4_real (s2, s5, s8, s11) in
  let '(v0, v4, v8) := i12_block1 (u0, u4, u8) i12_MDS_FREQ_BLOCK_ONE in
  let '(v1, v5, v9) := i12_block2 (u1, u5, u9) i12_MDS_FREQ_BLOCK_TWO in
  let '(v2, v6, v10) := i12_block3 (u2, u6, u10) i12_MDS_FREQ_BLOCK_THREE in
  let '(s0, s3, s6, s9) := i12_ifft4_real_unreduced (v0, v1, v2) in
  let '(s1, s4, s7, s10) := i12_ifft4_real_unreduced (v4, v5, v6) in
  let '(s2, s5, s8, s11) := i12_ifft4_real_unreduced (v8, v9, v10) in
  (s0, s1, s2, s3, s4, s5, s6, s7, s8, s9, s10, s11).

Definition i8_fft2_real (x : (Z * Z)) : (Z * Z) :=
  ((Z.add ((fst x)) ((snd x))), (Z.sub ((fst x)) ((snd x)))).

Definition i8_ifft2_real_unreduced (y : (Z * Z)) : (Z * Z) :=
  (wrap 64 ((Z.add (fst y) (snd y))), wrap 64 ((Z.sub (fst y) (snd y)))).

Definition i8_fft4_real (x : (Z * Z * Z * Z)) : (Z * (Z * Z) * Z) :=
  let '(z0, z2) := i8_fft2_real (fst (fst (fst x)), snd (fst x)) in
  let '(z1, z3) := i8_fft2_real (snd (fst (fst x)), snd x) in
  let y0 := (Z.add z0 z1) in
  let y1 := (z2, (Z.opp z3)) in
  let y2 := (Z.sub z0 z1) in
  (y0, y1, y2).

Definition i8_ifft4_real_unreduced (y : (Z * (Z * Z) * Z)) : (Z * Z * Z * Z) :=
  let z0 := (Z.add (fst (fst y)) (snd y)) in
  let z1 := (Z.sub (fst (fst y)) (snd y)) in
  let z2 := fst (snd (fst y)) in
  let z3 := (Z.opp (snd (snd (fst y)))) in
  let '(x0, x2) := i8_ifft2_real_unreduced (z0, z2) in
  let '(x1, x3) := i8_ifft2_real_unreduced (z1, z3) in
  (x0, x1, x2, x3).

Definition i8_MDS_FREQ_BLOCK_ONE : (Z * Z) := (16, 8).

Definition i8_MDS_FREQ_BLOCK_TWO : ((Z * Z) * (Z * Z)) := ((8, (Z.opp 4)), ((Z.opp 1), 1)).

Definition i8_MDS_FREQ_BLOCK_THREE : (Z * Z) := ((Z.opp 1), 1).

Definition i8_block1 (x : (Z * Z)) (y : (Z * Z)) : (Z * Z) :=
  let '(x0, x1) := x in
  let '(y0, y1) := y in
  let z0 := (Z.add ((Z.mul x0 y0)) ((Z.mul x1 y1))) in
  let z1 := (Z.add ((Z.mul x0 y1)) ((Z.mul x1 y0))) in
  (z0, z1).

Definition i8_block2 (x : ((Z * Z) * (Z * Z))) (y : ((Z * Z) * (Z * Z))) : ((Z * Z) * (Z * Z)) :=
  let '((x0r, x0i), (x1r, x1i)) := x in
  let '((y0r, y0i), (y1r, y1i)) := y in
  let x0s := (Z.add x0r x0i) in
  let x1s := (Z.add x1r x1i) in
  let y0s := (Z.add y0r y0i) in
  let y1s := (Z.add y1r y1i) in
  let m0 := ((Z.mul x0r y0r), (Z.mul x0i y0i)) in
  let m1 := ((Z.mul x1r y1r), (Z.mul x1i y1i)) in
  let z0r := (Z.add ((Z.sub (fst m0) (snd m0))) ((Z.sub ((Z.sub ((Z.mul x1s y1s)) (fst m1))) (snd m1)))) in
  let z0i := (Z.add ((Z.sub ((Z.sub ((Z.mul x0s y0s)) (fst m0))) (snd m0))) ((Z.add ((Z.opp (fst m1))) (snd m1)))) in
  let z0 := (z0r, z0i) in
  let m0 := ((Z.mul x0r y1r), (Z.mul x0i y1i)) in
  let m1 := ((Z.mul x1r y0r), (Z.mul x1i y0i)) in
  let z1r := (Z.add ((Z.sub (fst m0) (snd m0))) ((Z.sub (fst m1) (snd m1)))) in
  let z1i := (Z.add ((Z.sub ((Z.sub ((Z.mul x0s y1s)) (fst m0))) (snd m0))) ((Z.sub ((Z.sub ((Z.mul x1s y0s)) (fst m1))) (snd m1)))) in
  let z1 := (z1r, z1i) in
  (z0, z1).

Definition i8_block3 (x : (Z * Z)) (y : (Z * Z)) : (Z * Z) :=
  let '(x0, x1) := x in
  let '(y0, y1) := y in
  let z0 := (Z.sub ((Z.mul x0 y0)) ((Z.mul x1 y1))) in
  let z1 := (Z.add ((Z.mul x0 y1)) ((Z.mul x1 y0))) in
  (z0, z1).

Definition i8_mds_multiply_freq (state : (Z * Z * Z * Z * Z * Z * Z * Z)) : (Z * Z * Z * Z * Z * Z * Z * Z) :=
  let '(s0, s1, s2, s3, s4, s5, s6, s7) := state in
  let '(u0, u1, u2) := i8_fft4_real (s0, s2, s4, s6) in
  let '(u4, u5, u6) := i8_fft4_real (s1, s3, s5, s7) in
  let '(v0, v4) := i8_block1 (u0, u4) i8_MDS_FREQ_BLOCK_ONE in
  let '(v1, v5) := i8_block2 (u1, u5) i8_MDS_FREQ_BLOCK_TWO in
  let '(v2, v6) := i8_block3 (u2, u6) i8_MDS_FREQ_BLOCK_THREE in
  let '(s0, s2, s4, s6) := i8_ifft4_real_unreduced (v0, v1, v2) in
  let '(s1, s3, s5, s7) := i8_ifft4_real_unreduced (v4, v5, v6) in
  (s0, s1, s2, s3, s4, s5, s6, s7).

Lemma swrap64_id x : - 2 ^ 63 <= x < 2 ^ 63 -> swrap 64 x = x.
Proof. intros H. unfold swrap. change (2 ^ (64 - 1)) with (2 ^ 63). rewrite Z.mod_small by lia. lia. Qed.
Lemma in_s64_true x : - 2 ^ 63 <= x < 2 ^ 63 -> in_s 64 x = true.
Proof. intros H. unfold in_s. change (2 ^ (64 - 1)) with (2 ^ 63). apply andb_true_intro. split; [apply Z.leb_le | apply Z.ltb_lt]; lia. Qed.
Lemma neq_min_true x : - 2 ^ 63 < x -> negb (Z.eqb x (-9223372036854775808)) = true.
Proof. intros H. apply negb_true_iff. apply Z.eqb_neq. lia. Qed.

(* remove every `swrap 64 e` innermost-first, proving the i64 range of e from the interval hypotheses *)
Ltac kill_swrap :=
  repeat match goal with
  | |- context[swrap 64 ?e] => lazymatch e with context[swrap] => fail | _ => rewrite (swrap64_id e) by lia end
  end.
(* discharge the generated side conditions (checked +, -, *, unary -) *)
Ltac kill_ok :=
  repeat match goal with
  | |- context[in_s 64 ?e] => rewrite (in_s64_true e) by lia
  | |- context[negb (Z.eqb ?e (-9223372036854775808))] => rewrite (neq_min_true e) by lia
  end.

Definition L32 (x : Z) : Prop := 0 <= x <= 2 ^ 32.            (* a limb as passed by mds_multiply (even 2^32 itself) *)
Definition B35 (x : Z) : Prop := - 2 ^ 35 <= x <= 2 ^ 35.      (* outputs of the 4-point real FFT of limbs *)
Definition B45 (x : Z) : Prop := - 2 ^ 45 <= x <= 2 ^ 45.      (* outputs of block1/2/3 *)

(* ------------------------------------------------------------------------------------------------ 12 x 12 *)
Lemma fft4_12 a b c d : L32 a -> L32 b -> L32 c -> L32 d ->
  mds12_fft4_real (a, b, c, d) = i12_fft4_real (a, b, c, d) /\ mds12_fft4_real_ok (a, b, c, d) = true.
Proof.
  unfold L32. intros.
  cbv [mds12_fft4_real mds12_fft4_real_ok mds12_fft2_real mds12_fft2_real_ok i12_fft4_real i12_fft2_real fst snd].
  kill_swrap. split; [reflexivity|]. kill_ok. reflexivity.
Qed.

Lemma block1_12 x0 x1 x2 : B35 x0 -> B35 x1 -> B35 x2 ->
  mds12_block1 (x0, x1, x2) mds12_MDS_FREQ_BLOCK_ONE = i12_block1 (x0, x1, x2) i12_MDS_FREQ_BLOCK_ONE /\
  mds12_block1_ok (x0, x1, x2) mds12_MDS_FREQ_BLOCK_ONE = true.
Proof.
  unfold B35. intros.
  cbv [mds12_block1 mds12_block1_ok i12_block1 mds12_MDS_FREQ_BLOCK_ONE i12_MDS_FREQ_BLOCK_ONE fst snd].
  kill_swrap. split; [reflexivity|]. kill_ok. reflexivity.
Qed.

Lemma block2_12 x0r x0i x1r x1i x2r x2i : B35 x0r -> B35 x0i -> B35 x1r -> B35 x1i -> B35 x2r -> B35 x2i ->
  mds12_block2 ((x0r, x0i), (x1r, x1i), (x2r, x2i)) mds12_MDS_FREQ_BLOCK_TWO = i12_block2 ((x0r, x0i), (x1r, x1i), (x2r, x2i)) i12_MDS_FREQ_BLOCK_TWO /\
  mds12_block2_ok ((x0r, x0i), (x1r, x1i), (x2r, x2i)) mds12_MDS_FREQ_BLOCK_TWO = true.
Proof.
  unfold B35. intros.
  cbv [mds12_block2 mds12_block2_ok i12_block2 mds12_MDS_FREQ_BLOCK_TWO i12_MDS_FREQ_BLOCK_TWO fst snd].
  kill_swrap. split; [reflexivity|]. kill_ok. reflexivity.
Qed.

Lemma block3_12 x0 x1 x2 : B35 x0 -> B35 x1 -> B35 x2 ->
  mds12_block3 (x0, x1, x2) mds12_MDS_FREQ_BLOCK_THREE = i12_block3 (x0, x1, x2) i12_MDS_FREQ_BLOCK_THREE /\
  mds12_block3_ok (x0, x1, x2) mds12_MDS_FREQ_BLOCK_THREE = true.
Proof.
  unfold B35. intros.
  cbv [mds12_block3 mds12_block3_ok i12_block3 mds12_MDS_FREQ_BLOCK_THREE i12_MDS_FREQ_BLOCK_THREE fst snd].
  kill_swrap. split; [reflexivity|]. kill_ok. reflexivity.
Qed.

Lemma ifft4_12 a b c d : B45 a -> B45 b -> B45 c -> B45 d ->
  mds12_ifft4_real_unreduced (a, (b, c), d) = i12_ifft4_real_unreduced (a, (b, c), d) /\
  mds12_ifft4_real_unreduced_ok (a, (b, c), d) = true.
Proof.
  unfold B45. intros.
  cbv [mds12_ifft4_real_unreduced mds12_ifft4_real_unreduced_ok mds12_ifft2_real_unreduced mds12_ifft2_real_unreduced_ok
       i12_ifft4_real_unreduced i12_ifft2_real_unreduced fst snd].
  kill_swrap. split; [reflexivity|]. kill_ok. reflexivity.
Qed.

(* mds_freq_exact: the integer circulant product, with all 12-point intermediates in range *)
Theorem freq12_exact s0 s1 s2 s3 s4 s5 s6 s7 s8 s9 s10 s11 : L32 s0 -> L32 s1 -> L32 s2 -> L32 s3 -> L32 s4 -> L32 s5 -> L32 s6 -> L32 s7 -> L32 s8 -> L32 s9 -> L32 s10 -> L32 s11 ->
  mds12_mds_multiply_freq (s0, s1, s2, s3, s4, s5, s6, s7, s8, s9, s10, s11) =
    (7 * s0 + 23 * s1 + 8 * s2 + 26 * s3 + 13 * s4 + 10 * s5 + 9 * s6 + 7 * s7 + 6 * s8 + 22 * s9 + 21 * s10 + 8 * s11,
     8 * s0 + 7 * s1 + 23 * s2 + 8 * s3 + 26 * s4 + 13 * s5 + 10 * s6 + 9 * s7 + 7 * s8 + 6 * s9 + 22 * s10 + 21 * s11,
     21 * s0 + 8 * s1 + 7 * s2 + 23 * s3 + 8 * s4 + 26 * s5 + 13 * s6 + 10 * s7 + 9 * s8 + 7 * s9 + 6 * s10 + 22 * s11,
     22 * s0 + 21 * s1 + 8 * s2 + 7 * s3 + 23 * s4 + 8 * s5 + 26 * s6 + 13 * s7 + 10 * s8 + 9 * s9 + 7 * s10 + 6 * s11,
     6 * s0 + 22 * s1 + 21 * s2 + 8 * s3 + 7 * s4 + 23 * s5 + 8 * s6 + 26 * s7 + 13 * s8 + 10 * s9 + 9 * s10 + 7 * s11,
     7 * s0 + 6 * s1 + 22 * s2 + 21 * s3 + 8 * s4 + 7 * s5 + 23 * s6 + 8 * s7 + 26 * s8 + 13 * s9 + 10 * s10 + 9 * s11,
     9 * s0 + 7 * s1 + 6 * s2 + 22 * s3 + 21 * s4 + 8 * s5 + 7 * s6 + 23 * s7 + 8 * s8 + 26 * s9 + 13 * s10 + 10 * s11,
     10 * s0 + 9 * s1 + 7 * s2 + 6 * s3 + 22 * s4 + 21 * s5 + 8 * s6 + 7 * s7 + 23 * s8 + 8 * s9 + 26 * s10 + 13 * s11,
     13 * s0 + 10 * s1 + 9 * s2 + 7 * s3 + 6 * s4 + 22 * s5 + 21 * s6 + 8 * s7 + 7 * s8 + 23 * s9 + 8 * s10 + 26 * s11,
     26 * s0 + 13 * s1 + 10 * s2 + 9 * s3 + 7 * s4 + 6 * s5 + 22 * s6 + 21 * s7 + 8 * s8 + 7 * s9 + 23 * s10 + 8 * s11,
     8 * s0 + 26 * s1 + 13 * s2 + 10 * s3 + 9 * s4 + 7 * s5 + 6 * s6 + 22 * s7 + 21 * s8 + 8 * s9 + 7 * s10 + 23 * s11,
     23 * s0 + 8 * s1 + 26 * s2 + 13 * s3 + 10 * s4 + 9 * s5 + 7 * s6 + 6 * s7 + 22 * s8 + 21 * s9 + 8 * s10 + 7 * s11)
  /\ mds12_mds_multiply_freq_ok (s0, s1, s2, s3, s4, s5, s6, s7, s8, s9, s10, s11) = true.
Proof.
  intros. unfold mds12_mds_multiply_freq, mds12_mds_multiply_freq_ok.
  repeat match goal with
  | |- context[mds12_fft4_real (?a, ?b, ?c, ?d)] =>
      let E := fresh "E" in let O := fresh "O" in
      destruct (fft4_12 a b c d) as (E & O); [assumption .. | rewrite ?E, ?O; clear E O]
  end.
  cbv [i12_fft4_real i12_fft2_real fst snd].
  unfold L32 in *.
  match goal with |- context[mds12_block1 (?x0, ?x1, ?x2) _] =>
      let E := fresh "E" in let O := fresh "O" in
      destruct (block1_12 x0 x1 x2) as (E & O); [unfold B35; lia .. | rewrite ?E, ?O; clear E O] end.
  match goal with |- context[mds12_block2 ((?x0r, ?x0i), (?x1r, ?x1i), (?x2r, ?x2i)) _] =>
      let E := fresh "E" in let O := fresh "O" in
      destruct (block2_12 x0r x0i x1r x1i x2r x2i) as (E & O); [unfold B35; lia .. | rewrite ?E, ?O; clear E O] end.
  match goal with |- context[mds12_block3 (?x0, ?x1, ?x2) _] =>
      let E := fresh "E" in let O := fresh "O" in
      destruct (block3_12 x0 x1 x2) as (E & O); [unfold B35; lia .. | rewrite ?E, ?O; clear E O] end.
  cbv [i12_block1 i12_block2 i12_block3 i12_MDS_FREQ_BLOCK_ONE i12_MDS_FREQ_BLOCK_TWO i12_MDS_FREQ_BLOCK_THREE fst snd].
  repeat match goal with
  | |- context[mds12_ifft4_real_unreduced (?a, (?b, ?c), ?d)] =>
      let E := fresh "E" in let O := fresh "O" in
      destruct (ifft4_12 a b c d) as (E & O); [unfold B45; lia .. | rewrite ?E, ?O; clear E O]
  end.
  cbv [i12_ifft4_real_unreduced i12_ifft2_real_unreduced fst snd andb].
  repeat match goal with |- context[wrap 64 ?e] => rewrite (wrap_small 64 e) by lia end.
  split; [|reflexivity].
  repeat (f_equal; try ring).
Qed.

(* ------------------------------------------------------------------------------------------------ 8 x 8 *)
Lemma fft4_8 a b c d : L32 a -> L32 b -> L32 c -> L32 d ->
  mds8_fft4_real (a, b, c, d) = i8_fft4_real (a, b, c, d) /\ mds8_fft4_real_ok (a, b, c, d) = true.
Proof.
  unfold L32. intros.
  cbv [mds8_fft4_real mds8_fft4_real_ok mds8_fft2_real mds8_fft2_real_ok i8_fft4_real i8_fft2_real fst snd].
  kill_swrap. split; [reflexivity|]. kill_ok. reflexivity.
Qed.

Lemma block1_8 x0 x1 : B35 x0 -> B35 x1 ->
  mds8_block1 (x0, x1) mds8_MDS_FREQ_BLOCK_ONE = i8_block1 (x0, x1) i8_MDS_FREQ_BLOCK_ONE /\
  mds8_block1_ok (x0, x1) mds8_MDS_FREQ_BLOCK_ONE = true.
Proof.
  unfold B35. intros.
  cbv [mds8_block1 mds8_block1_ok i8_block1 mds8_MDS_FREQ_BLOCK_ONE i8_MDS_FREQ_BLOCK_ONE fst snd].
  kill_swrap. split; [reflexivity|]. kill_ok. reflexivity.
Qed.

Lemma block2_8 x0r x0i x1r x1i : B35 x0r -> B35 x0i -> B35 x1r -> B35 x1i ->
  mds8_block2 ((x0r, x0i), (x1r, x1i)) mds8_MDS_FREQ_BLOCK_TWO = i8_block2 ((x0r, x0i), (x1r, x1i)) i8_MDS_FREQ_BLOCK_TWO /\
  mds8_block2_ok ((x0r, x0i), (x1r, x1i)) mds8_MDS_FREQ_BLOCK_TWO = true.
Proof.
  unfold B35. intros.
  cbv [mds8_block2 mds8_block2_ok i8_block2 mds8_MDS_FREQ_BLOCK_TWO i8_MDS_FREQ_BLOCK_TWO fst snd].
  kill_swrap. split; [reflexivity|]. kill_ok. reflexivity.
Qed.

Lemma block3_8 x0 x1 : B35 x0 -> B35 x1 ->
  mds8_block3 (x0, x1) mds8_MDS_FREQ_BLOCK_THREE = i8_block3 (x0, x1) i8_MDS_FREQ_BLOCK_THREE /\
  mds8_block3_ok (x0, x1) mds8_MDS_FREQ_BLOCK_THREE = true.
Proof.
  unfold B35. intros.
  cbv [mds8_block3 mds8_block3_ok i8_block3 mds8_MDS_FREQ_BLOCK_THREE i8_MDS_FREQ_BLOCK_THREE fst snd].
  kill_swrap. split; [reflexivity|]. kill_ok. reflexivity.
Qed.

Lemma ifft4_8 a b c d : B45 a -> B45 b -> B45 c -> B45 d ->
  mds8_ifft4_real_unreduced (a, (b, c), d) = i8_ifft4_real_unreduced (a, (b, c), d) /\
  mds8_ifft4_real_unreduced_ok (a, (b, c), d) = true.
Proof.
  unfold B45. intros.
  cbv [mds8_ifft4_real_unreduced mds8_ifft4_real_unreduced_ok mds8_ifft2_real_unreduced mds8_ifft2_real_unreduced_ok
       i8_ifft4_real_unreduced i8_ifft2_real_unreduced fst snd].
  kill_swrap. split; [reflexivity|]. kill_ok. reflexivity.
Qed.

(* mds_freq_exact: the integer circulant product, with all 8-point intermediates in range *)
Theorem freq8_exact s0 s1 s2 s3 s4 s5 s6 s7 : L32 s0 -> L32 s1 -> L32 s2 -> L32 s3 -> L32 s4 -> L32 s5 -> L32 s6 -> L32 s7 ->
  mds8_mds_multiply_freq (s0, s1, s2, s3, s4, s5, s6, s7) =
    (23 * s0 + 8 * s1 + 13 * s2 + 10 * s3 + 7 * s4 + 6 * s5 + 21 * s6 + 8 * s7,
     8 * s0 + 23 * s1 + 8 * s2 + 13 * s3 + 10 * s4 + 7 * s5 + 6 * s6 + 21 * s7,
     21 * s0 + 8 * s1 + 23 * s2 + 8 * s3 + 13 * s4 + 10 * s5 + 7 * s6 + 6 * s7,
     6 * s0 + 21 * s1 + 8 * s2 + 23 * s3 + 8 * s4 + 13 * s5 + 10 * s6 + 7 * s7,
     7 * s0 + 6 * s1 + 21 * s2 + 8 * s3 + 23 * s4 + 8 * s5 + 13 * s6 + 10 * s7,
     10 * s0 + 7 * s1 + 6 * s2 + 21 * s3 + 8 * s4 + 23 * s5 + 8 * s6 + 13 * s7,
     13 * s0 + 10 * s1 + 7 * s2 + 6 * s3 + 21 * s4 + 8 * s5 + 23 * s6 + 8 * s7,
     8 * s0 + 13 * s1 + 10 * s2 + 7 * s3 + 6 * s4 + 21 * s5 + 8 * s6 + 23 * s7)
  /\ mds8_mds_multiply_freq_ok (s0, s1, s2, s3, s4, s5, s6, s7) = true.
Proof.
  intros. unfold mds8_mds_multiply_freq, mds8_mds_multiply_freq_ok.
  repeat match goal with
  | |- context[mds8_fft4_real (?a, ?b, ?c, ?d)] =>
      let E := fresh "E" in let O := fresh "O" in
      destruct (fft4_8 a b c d) as (E & O); [assumption .. | rewrite ?E, ?O; clear E O]
  end.
  cbv [i8_fft4_real i8_fft2_real fst snd].
  unfold L32 in *.
  match goal with |- context[mds8_block1 (?x0, ?x1) _] =>
      let E := fresh "E" in let O := fresh "O" in
      destruct (block1_8 x0 x1) as (E & O); [unfold B35; lia .. | rewrite ?E, ?O; clear E O] end.
  match goal with |- context[mds8_block2 ((?x0r, ?x0i), (?x1r, ?x1i)) _] =>
      let E := fresh "E" in let O := fresh "O" in
      destruct (block2_8 x0r x0i x1r x1i) as (E & O); [unfold B35; lia .. | rewrite ?E, ?O; clear E O] end.
  match goal with |- context[mds8_block3 (?x0, ?x1) _] =>
      let E := fresh "E" in let O := fresh "O" in
      destruct (block3_8 x0 x1) as (E & O); [unfold B35; lia .. | rewrite ?E, ?O; clear E O] end.
  cbv [i8_block1 i8_block2 i8_block3 i8_MDS_FREQ_BLOCK_ONE i8_MDS_FREQ_BLOCK_TWO i8_MDS_FREQ_BLOCK_THREE fst snd].
  repeat match goal with
  | |- context[mds8_ifft4_real_unreduced (?a, (?b, ?c), ?d)] =>
      let E := fresh "E" in let O := fresh "O" in
      destruct (ifft4_8 a b c d) as (E & O); [unfold B45; lia .. | rewrite ?E, ?O; clear E O]
  end.
  cbv [i8_ifft4_real_unreduced i8_ifft2_real_unreduced fst snd andb].
  repeat match goal with |- context[wrap 64 ?e] => rewrite (wrap_small 64 e) by lia end.
  split; [|reflexivity].
  repeat (f_equal; try ring).
Qed.

(* ------------------------------------------------------------------------------------------------ the u128 fold *)
(* s = l + (h << 32) folded with 2^64 = 2^32 - 1 (mod M), then one conditional subtraction: the canonical residue *)
Lemma mds_fold_spec l h : 0 <= l < 2 ^ 41 -> 0 <= h < 2 ^ 41 ->
  mds_fold l h = (l + h * 2 ^ 32) mod M64 /\ mds_fold_ok l h = true.
Proof.
  intros Hl Hh.
  assert (Hs128 : shl 128 h 32 = h * 2 ^ 32).
  { unfold shl. apply Z.mod_small. lia. }
  unfold mds_fold, mds_fold_ok. rewrite Hs128. cbv zeta.
  set (s := l + h * 2 ^ 32).
  assert (Hs : 0 <= s < 2 ^ 74) by (unfold s; lia).
  unfold shr.
  pose proof (Z.div_mod s (2 ^ 64) ltac:(lia)) as Hdm.
  pose proof (Z.mod_pos_bound s (2 ^ 64) ltac:(lia)) as Hr.
  set (q := s / 2 ^ 64) in *. set (r := s mod 2 ^ 64) in *.
  assert (Hq : 0 <= q < 2 ^ 10).
  { split; [apply Z.div_pos; lia | apply Z.div_lt_upper_bound; lia]. }
  rewrite (wrap_small 64 q) by lia.
  change (wrap 64 s) with r.
  assert (Hsh : shl 64 q 32 = q * 2 ^ 32) by (unfold shl; apply Z.mod_small; lia).
  rewrite Hsh.
  rewrite (wrap_small 64 (q * 2 ^ 32 - q)) by lia.
  set (z := q * 2 ^ 32 - q).
  assert (Hz : 0 <= z < 2 ^ 42) by (unfold z; lia).
  assert (HM : M64 = 2 ^ 64 - 2 ^ 32 + 1) by reflexivity.
  assert (Hdecomp : s = M64 * q + (r + z)) by (unfold z; lia).
  split.
  - unfold ovf_add, ovf_sub.
    destruct (Z.leb_spec (2 ^ 64) (r + z)) as [Hov|Hov].
    + (* the addition overflowed: res = r + z - 2^64 + (2^32 - 1) = r + z - M, already canonical *)
      assert (E1 : (r + z) mod 2 ^ 64 = r + z - 2 ^ 64).
      { symmetry. apply (Z.mod_unique _ _ 1); lia. }
      rewrite E1. change (b2z true) with 1. change (wrap 32 (0 - 1)) with (2 ^ 32 - 1).
      rewrite (wrap_small 64 (r + z - 2 ^ 64 + (2 ^ 32 - 1))) by lia.
      destruct (Z.ltb_spec (r + z - 2 ^ 64 + (2 ^ 32 - 1)) M64) as [Hlt|Hge]; [|lia].
      apply (Z.mod_unique _ _ (q + 1)); lia.
    + rewrite (Z.mod_small (r + z) (2 ^ 64)) by lia.
      change (b2z false) with 0. change (wrap 32 (0 - 0)) with 0. rewrite Z.add_0_r.
      rewrite (wrap_small 64 (r + z)) by lia.
      destruct (Z.ltb_spec (r + z) M64) as [Hlt|Hge].
      * apply (Z.mod_unique _ _ q); lia.
      * (* the case the unrepaired code got wrong: r + z in [M, 2^64) needs the final subtraction *)
        assert (E2 : (r + z - M64) mod 2 ^ 64 = r + z - M64) by (apply Z.mod_small; lia).
        rewrite E2. apply (Z.mod_unique _ _ (q + 1)); lia.
  - unfold in_u. apply andb_true_intro. split; apply andb_true_intro; split;
      (apply Z.leb_le || apply Z.ltb_lt); fold s; fold z; lia.
Qed.

(* the reduction WITHOUT the final conditional subtraction (the code before the C11 repair) was not canonical *)
Definition mds_fold_unrepaired (l h : Z) : Z :=
  let s := l + shl 128 h 32 in
  let s_hi := wrap 64 (shr s 64) in
  let s_lo := wrap 64 s in
  let z := wrap 64 (shl 64 s_hi 32 - s_hi) in
  let '(res, over) := ovf_add 64 s_lo z in
  wrap 64 (res + wrap 32 (0 - b2z over)).
Lemma mds_fold_unrepaired_refuted : exists l h, 0 <= l < 2 ^ 41 /\ 0 <= h < 2 ^ 41 /\ M64 <= mds_fold_unrepaired l h.
Proof.
  exists 12884901890, 4294967292.
  assert (E : mds_fold_unrepaired 12884901890 4294967292 = M64 + 1) by (vm_compute; reflexivity).
  rewrite E. unfold M64. lia.
Qed.

Lemma hi_lo_split a : 0 <= a < 2 ^ 64 -> 0 <= hi32 a < 2 ^ 32 /\ 0 <= lo32 a < 2 ^ 32 /\ a = lo32 a + hi32 a * 2 ^ 32.
Proof.
  intros H. unfold hi32, lo32, shr, wrap.
  pose proof (Z.div_mod a (2 ^ 32) ltac:(lia)). pose proof (Z.mod_pos_bound a (2 ^ 32) ltac:(lia)).
  repeat split; try lia.
  all: try (apply Z.div_pos; lia). all: try (apply Z.div_lt_upper_bound; lia).
Qed.

Definition word (a : Z) : Prop := 0 <= a < 2 ^ 64.

(* mds_multiply on raw internal words = MDS * state mod M (canonical), no checked operation out of range *)
Theorem mds12_multiply_exact a0 a1 a2 a3 a4 a5 a6 a7 a8 a9 a10 a11 : word a0 -> word a1 -> word a2 -> word a3 -> word a4 -> word a5 -> word a6 -> word a7 -> word a8 -> word a9 -> word a10 -> word a11 ->
  mds12_multiply [a0; a1; a2; a3; a4; a5; a6; a7; a8; a9; a10; a11] = mat_vec M64 rp64_MDS [a0; a1; a2; a3; a4; a5; a6; a7; a8; a9; a10; a11] /\ mds12_multiply_ok [a0; a1; a2; a3; a4; a5; a6; a7; a8; a9; a10; a11] = true.
Proof.
  unfold word. intros.
  destruct (hi_lo_split a0) as (Hh0 & Hl0 & Ea0); [assumption|].
  destruct (hi_lo_split a1) as (Hh1 & Hl1 & Ea1); [assumption|].
  destruct (hi_lo_split a2) as (Hh2 & Hl2 & Ea2); [assumption|].
  destruct (hi_lo_split a3) as (Hh3 & Hl3 & Ea3); [assumption|].
  destruct (hi_lo_split a4) as (Hh4 & Hl4 & Ea4); [assumption|].
  destruct (hi_lo_split a5) as (Hh5 & Hl5 & Ea5); [assumption|].
  destruct (hi_lo_split a6) as (Hh6 & Hl6 & Ea6); [assumption|].
  destruct (hi_lo_split a7) as (Hh7 & Hl7 & Ea7); [assumption|].
  destruct (hi_lo_split a8) as (Hh8 & Hl8 & Ea8); [assumption|].
  destruct (hi_lo_split a9) as (Hh9 & Hl9 & Ea9); [assumption|].
  destruct (hi_lo_split a10) as (Hh10 & Hl10 & Ea10); [assumption|].
  destruct (hi_lo_split a11) as (Hh11 & Hl11 & Ea11); [assumption|].
  unfold mds12_multiply, mds12_multiply_ok.
  destruct (freq12_exact (hi32 a0) (hi32 a1) (hi32 a2) (hi32 a3) (hi32 a4) (hi32 a5) (hi32 a6) (hi32 a7) (hi32 a8) (hi32 a9) (hi32 a10) (hi32 a11)) as (EH & OH); [unfold L32; lia ..|].
  destruct (freq12_exact (lo32 a0) (lo32 a1) (lo32 a2) (lo32 a3) (lo32 a4) (lo32 a5) (lo32 a6) (lo32 a7) (lo32 a8) (lo32 a9) (lo32 a10) (lo32 a11)) as (EL & OL); [unfold L32; lia ..|].
  rewrite EH, EL, OH, OL. clear EH EL OH OL.
  set (h0 := hi32 a0) in *. set (l0 := lo32 a0) in *.
  set (h1 := hi32 a1) in *. set (l1 := lo32 a1) in *.
  set (h2 := hi32 a2) in *. set (l2 := lo32 a2) in *.
  set (h3 := hi32 a3) in *. set (l3 := lo32 a3) in *.
  set (h4 := hi32 a4) in *. set (l4 := lo32 a4) in *.
  set (h5 := hi32 a5) in *. set (l5 := lo32 a5) in *.
  set (h6 := hi32 a6) in *. set (l6 := lo32 a6) in *.
  set (h7 := hi32 a7) in *. set (l7 := lo32 a7) in *.
  set (h8 := hi32 a8) in *. set (l8 := lo32 a8) in *.
  set (h9 := hi32 a9) in *. set (l9 := lo32 a9) in *.
  set (h10 := hi32 a10) in *. set (l10 := lo32 a10) in *.
  set (h11 := hi32 a11) in *. set (l11 := lo32 a11) in *.
  cbv [forallb fst snd andb].
  repeat match goal with
  | |- context[mds_fold ?l ?h] =>
      let E := fresh "E" in let O := fresh "O" in
      destruct (mds_fold_spec l h) as (E & O); [lia | lia | rewrite ?E, ?O; clear E O]
  end.
  split; [|reflexivity].
  cbv [mat_vec map rp64_MDS dotZ combine fold_right fst snd].
  repeat match goal with |- (?x mod M64 :: _) = (?y mod M64 :: _) => replace x with y by lia; apply f_equal end.
  reflexivity.
Qed.

Theorem mds12_multiply_list : forall st, length st = 12%nat -> Forall word st ->
  mds12_multiply st = mat_vec M64 rp64_MDS st /\ mds12_multiply_ok st = true /\ Forall (fun w => 0 <= w < M64) (mds12_multiply st).
Proof.
  intros st Hl Hw.
  destruct st as [|a0 st]; [discriminate|].
  destruct st as [|a1 st]; [discriminate|].
  destruct st as [|a2 st]; [discriminate|].
  destruct st as [|a3 st]; [discriminate|].
  destruct st as [|a4 st]; [discriminate|].
  destruct st as [|a5 st]; [discriminate|].
  destruct st as [|a6 st]; [discriminate|].
  destruct st as [|a7 st]; [discriminate|].
  destruct st as [|a8 st]; [discriminate|].
  destruct st as [|a9 st]; [discriminate|].
  destruct st as [|a10 st]; [discriminate|].
  destruct st as [|a11 st]; [discriminate|].
  destruct st; [|discriminate].
  repeat match goal with H : Forall _ (_ :: _) |- _ => inversion H; clear H; subst end.
  destruct (mds12_multiply_exact a0 a1 a2 a3 a4 a5 a6 a7 a8 a9 a10 a11) as (E & O); [assumption ..|].
  split; [exact E|]. split; [exact O|]. rewrite E. unfold mat_vec. apply Forall_forall. intros w Hw'.
  apply in_map_iff in Hw'. destruct Hw' as (r & <- & _). apply Z.mod_pos_bound. reflexivity.
Qed.

(* mds_multiply on raw internal words = MDS * state mod M (canonical), no checked operation out of range *)
Theorem mds8_multiply_exact a0 a1 a2 a3 a4 a5 a6 a7 : word a0 -> word a1 -> word a2 -> word a3 -> word a4 -> word a5 -> word a6 -> word a7 ->
  mds8_multiply [a0; a1; a2; a3; a4; a5; a6; a7] = mat_vec M64 jive_MDS [a0; a1; a2; a3; a4; a5; a6; a7] /\ mds8_multiply_ok [a0; a1; a2; a3; a4; a5; a6; a7] = true.
Proof.
  unfold word. intros.
  destruct (hi_lo_split a0) as (Hh0 & Hl0 & Ea0); [assumption|].
  destruct (hi_lo_split a1) as (Hh1 & Hl1 & Ea1); [assumption|].
  destruct (hi_lo_split a2) as (Hh2 & Hl2 & Ea2); [assumption|].
  destruct (hi_lo_split a3) as (Hh3 & Hl3 & Ea3); [assumption|].
  destruct (hi_lo_split a4) as (Hh4 & Hl4 & Ea4); [assumption|].
  destruct (hi_lo_split a5) as (Hh5 & Hl5 & Ea5); [assumption|].
  destruct (hi_lo_split a6) as (Hh6 & Hl6 & Ea6); [assumption|].
  destruct (hi_lo_split a7) as (Hh7 & Hl7 & Ea7); [assumption|].
  unfold mds8_multiply, mds8_multiply_ok.
  destruct (freq8_exact (hi32 a0) (hi32 a1) (hi32 a2) (hi32 a3) (hi32 a4) (hi32 a5) (hi32 a6) (hi32 a7)) as (EH & OH); [unfold L32; lia ..|].
  destruct (freq8_exact (lo32 a0) (lo32 a1) (lo32 a2) (lo32 a3) (lo32 a4) (lo32 a5) (lo32 a6) (lo32 a7)) as (EL & OL); [unfold L32; lia ..|].
  rewrite EH, EL, OH, OL. clear EH EL OH OL.
  set (h0 := hi32 a0) in *. set (l0 := lo32 a0) in *.
  set (h1 := hi32 a1) in *. set (l1 := lo32 a1) in *.
  set (h2 := hi32 a2) in *. set (l2 := lo32 a2) in *.
  set (h3 := hi32 a3) in *. set (l3 := lo32 a3) in *.
  set (h4 := hi32 a4) in *. set (l4 := lo32 a4) in *.
  set (h5 := hi32 a5) in *. set (l5 := lo32 a5) in *.
  set (h6 := hi32 a6) in *. set (l6 := lo32 a6) in *.
  set (h7 := hi32 a7) in *. set (l7 := lo32 a7) in *.
  cbv [forallb fst snd andb].
  repeat match goal with
  | |- context[mds_fold ?l ?h] =>
      let E := fresh "E" in let O := fresh "O" in
      destruct (mds_fold_spec l h) as (E & O); [lia | lia | rewrite ?E, ?O; clear E O]
  end.
  split; [|reflexivity].
  cbv [mat_vec map jive_MDS dotZ combine fold_right fst snd].
  repeat match goal with |- (?x mod M64 :: _) = (?y mod M64 :: _) => replace x with y by lia; apply f_equal end.
  reflexivity.
Qed.

Theorem mds8_multiply_list : forall st, length st = 8%nat -> Forall word st ->
  mds8_multiply st = mat_vec M64 jive_MDS st /\ mds8_multiply_ok st = true /\ Forall (fun w => 0 <= w < M64) (mds8_multiply st).
Proof.
  intros st Hl Hw.
  destruct st as [|a0 st]; [discriminate|].
  destruct st as [|a1 st]; [discriminate|].
  destruct st as [|a2 st]; [discriminate|].
  destruct st as [|a3 st]; [discriminate|].
  destruct st as [|a4 st]; [discriminate|].
  destruct st as [|a5 st]; [discriminate|].
  destruct st as [|a6 st]; [discriminate|].
  destruct st as [|a7 st]; [discriminate|].
  destruct st; [|discriminate].
  repeat match goal with H : Forall _ (_ :: _) |- _ => inversion H; clear H; subst end.
  destruct (mds8_multiply_exact a0 a1 a2 a3 a4 a5 a6 a7) as (E & O); [assumption ..|].
  split; [exact E|]. split; [exact O|]. rewrite E. unfold mat_vec. apply Forall_forall. intros w Hw'.
  apply in_map_iff in Hw'. destruct Hw' as (r & <- & _). apply Z.mod_pos_bound. reflexivity.
Qed.
