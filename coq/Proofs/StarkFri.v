(* C01 — discharging `fri_complete` from C15's end-to-end FRI completeness (Props/C15.v C15_fri_complete) by
   instantiating the FRI stage of Model/Stark.v with the prover/verifier of Model/Fri.v.  Other workers' files are only
   imported.  stdlib style. *)
From Coq Require Import List Arith Bool ZArith Lia.
From VBase Require Import FieldOps.
From VModel Require Import Stark.
From VModel Require Fri Merkle Transcript FFT.
From VProofs Require Import StarkPoly StarkComplete StarkInst.
From VProofs Require FriCoset FriComplete MerkleSingle FFTSpec FFTOffset.
From VProps Require C10 C15.
Import ListNotations.

(* ================================================================================================ C10 for the FRI layers *)
(* the abstract tree interface of Model/Fri.v, instantiated with the Merkle model of C10; its two completeness hypotheses
   (FriComplete.v: merkle_new_ok, merkle_batch_complete) from C10_new_ok / C10_build_nodes_spec / C10_batch_complete *)
Section MerkleNat.
Variable D : Type.
Variable D_eqb : D -> D -> bool.
Hypothesis D_eqb_spec : forall a b, D_eqb a b = true <-> a = b.
Variable d0 : D.
Variable merge : D -> D -> D.

Definition mt_new' (leaves : list D) : option (Merkle.mtree D) :=
  match Merkle.mt_new D d0 merge leaves with Merkle.Ok t => Some t | _ => None end.
Definition mt_root' (t : Merkle.mtree D) : D := match Merkle.mt_root D t with Merkle.Ok r => r | _ => d0 end.
Definition mt_prove_batch' (t : Merkle.mtree D) (indexes : list nat) : option (list (list D)) :=
  match Merkle.mt_prove_batch D d0 t (map Z.of_nat indexes) with Merkle.Ok p => Some (@Merkle.bp_nodes D p) | _ => None end.
Definition mt_verify_batch' (root : D) (indexes : list nat) (leaves : list D) (nodes : list (list D)) (d : nat) : Fri.auth_res :=
  match Merkle.verify_batch D D_eqb merge root (map Z.of_nat indexes) (@Merkle.Build_bproof D leaves nodes (Z.of_nat d)) with
  | Merkle.Ok _ => Fri.AuthOk | Merkle.Err _ => Fri.AuthErr | Merkle.Panic => Fri.AuthPanic end.

Lemma zlen_pow (leaves : list D) d : length leaves = 2 ^ d -> Merkle.zlen leaves = (2 ^ Z.of_nat d)%Z.
Proof. intros H. unfold Merkle.zlen. rewrite H, Nat2Z.inj_pow. reflexivity. Qed.

Lemma merkle_new_ok' : forall leaves d, 1 <= d -> length leaves = 2 ^ d -> exists t, mt_new' leaves = Some t.
Proof.
  intros leaves d Hd Hl. destruct (C10.C10_new_ok D d0 merge leaves d Hd (zlen_pow leaves d Hl)) as (t & Ht).
  exists t. unfold mt_new'. now rewrite Ht.
Qed.

Lemma merkle_batch_complete' : forall leaves t d indexes dflt,
  mt_new' leaves = Some t -> length leaves = 2 ^ d -> 1 <= d <= 62 ->
  indexes <> [] -> length indexes <= 255 -> NoDup indexes -> (forall i, In i indexes -> i < length leaves) ->
  exists nodes, mt_prove_batch' t indexes = Some nodes /\
    mt_verify_batch' (mt_root' t) indexes (map (fun i => nth i leaves dflt) indexes) nodes d = Fri.AuthOk.
Proof.
  intros leaves t d indexes dflt Hnew Hl Hd Hne H255 Hnd Hrange.
  unfold mt_new' in Hnew. destruct (Merkle.mt_new D d0 merge leaves) as [t'| |] eqn:Ht; try discriminate. injection Hnew as ->.
  pose proof (zlen_pow leaves d Hl) as Hll.
  destruct (C10.C10_build_nodes_spec D d0 merge leaves t Ht) as (Hlv & d' & WF).
  assert (d' = d).
  { pose proof (MerkleSingle.wf_leaves D d0 merge d' t WF) as E. rewrite Hlv, Hll in E. apply Z.pow_inj_r in E; lia. }
  subst d'.
  pose proof (MerkleSingle.root_hval D d0 merge t d WF ltac:(lia)) as Hroot.
  set (root := MerkleSingle.hval D d0 t 1%Z) in *.
  destruct (C10.C10_batch_complete D D_eqb D_eqb_spec d0 merge leaves t d root (map Z.of_nat indexes) Ht Hll ltac:(lia) Hroot)
    as (p & Hp & Hdep & Hlen & Hleaves & _ & Hver).
  { destruct indexes; [congruence | discriminate]. }
  { unfold Merkle.zlen. rewrite map_length. lia. }
  { apply FinFun.Injective_map_NoDup; [intros x y; apply Nat2Z.inj | exact Hnd]. }
  { intros i Hi. apply in_map_iff in Hi. destruct Hi as (j & <- & Hj). specialize (Hrange j Hj). unfold Merkle.zlen. lia. }
  exists (@Merkle.bp_nodes D p). unfold mt_prove_batch', mt_verify_batch', mt_root'. rewrite Hp, Hroot. split; [reflexivity|].
  assert (El : @Merkle.bp_leaves D p = map (fun i => nth i leaves dflt) indexes).
  { apply nth_error_ext_eq. intros j. rewrite map_length in Hlen.
    destruct (nth_error indexes j) as [i|] eqn:Ei.
    - assert (Hi : In i indexes) by (eapply nth_error_In; eassumption).
      rewrite (Hleaves j (Z.of_nat i)) by (rewrite nth_error_map, Ei; reflexivity).
      rewrite Nat2Z.id, nth_error_map, Ei. cbn [option_map]. apply nth_error_nth'. now apply Hrange.
    - apply nth_error_None in Ei.
      assert (nth_error (@Merkle.bp_leaves D p) j = None) as -> by (apply nth_error_None; lia).
      symmetry. apply nth_error_None. now rewrite map_length. }
  rewrite <- El, <- Hdep. destruct p as [pl pn pd]. cbn [Merkle.bp_leaves Merkle.bp_nodes Merkle.bp_depth]. rewrite Hver. reflexivity.
Qed.
End MerkleNat.

(* ================================================================================================ C15 *)
Section FriInst.
Context {F : Type} (O : FOps F) (L : FLaws O).
Local Notation zero := (fzero O).
Local Notation one := (fone O).
Local Notation "a *f b" := (fmul O a b) (at level 40, left associativity).

(* the parameters and externals of Proofs/FriComplete.v *)
Variable rou : nat -> F.
Variable K : nat.
Hypothesis K_pos : 1 <= K.
Hypothesis rou_sq : forall k, k < K -> rou (S k) *f rou (S k) = rou k.
Hypothesis rou_1 : rou 1 = fneg O one.
Hypothesis two_nz : fadd O one one <> zero.
Variable gen_offset : F.
Hypothesis offset_nz : gen_offset <> zero.
Variable dbg : bool.
Variable D : Type.
Variable D_eqb : D -> D -> bool.
Hypothesis D_eqb_spec : forall a b, D_eqb a b = true <-> a = b.
Variable hash_elements : list F -> D.
Variables MT MN : Type.
Variable mt_new : list D -> option MT.
Variable mt_root : MT -> D.
Variable mt_prove_batch : MT -> list nat -> option MN.
Variable mt_verify_batch : D -> list nat -> list D -> MN -> nat -> Fri.auth_res.
Variable CS : Type.
Variable cs_reseed : CS -> D -> CS.
Variable cs_draw : CS -> CS * Fri.draw_res F.
Hypothesis merkle_new_ok : forall leaves d, 1 <= d -> length leaves = 2 ^ d -> exists t, mt_new leaves = Some t.
Hypothesis merkle_batch_complete : forall leaves t d indexes dflt,
  mt_new leaves = Some t -> length leaves = 2 ^ d -> 1 <= d <= 62 ->
  indexes <> [] -> length indexes <= 255 -> NoDup indexes -> (forall i, In i indexes -> i < length leaves) ->
  exists nodes, mt_prove_batch t indexes = Some nodes /\
    mt_verify_batch (mt_root t) indexes (map (fun i => nth i leaves dflt) indexes) nodes d = Fri.AuthOk.
Hypothesis draw_total : forall c, exists c' a, cs_draw c = (c', Fri.DrawOk a).
Variables f b remmax : nat.
Hypothesis f_pos : 1 <= f.
Hypothesis f_supported : Fri.supported_folding (2 ^ f) = true.
(* LDE domain of size 2^a, schedule with k layers, coin state at the start of the FRI commit phase *)
Variables a k : nat.
Variable coin0 : CS.
Hypothesis Hlayers : Fri.num_fri_layers (Fri.mkOpts (2 ^ b) (2 ^ f) remmax) (2 ^ a) = Some k.
Hypothesis Hkf : k * f < a.
Hypothesis Hb : b <= a - k * f.
Hypothesis HaK : a <= K.
Hypothesis Ha62 : a <= 62.

Definition opts : Fri.fri_options := Fri.mkOpts (2 ^ b) (2 ^ f) remmax.
(* the LDE domain in position order *)
Definition lde_of : list F := map (fun j => gen_offset *f fpow O (rou a) j) (seq 0 (2 ^ a)).
Definition positions_of (xs : list F) : list nat := map (find O lde_of) xs.

Definition FriProof : Type := option (list D * @Fri.fri_proof F MN).
Definition fri_prove (d xs : list F) : FriProof :=
  match Fri.prove O rou K gen_offset D hash_elements MT MN mt_new mt_root mt_prove_batch CS cs_reseed cs_draw
          opts coin0 (FriCoset.coset_evals O d gen_offset (rou a) (2 ^ a)) (positions_of xs) with
  | Fri.Ok (cs, proof, _) => Some (cs, proof)
  | _ => None
  end.
(* FriVerifier::new + verify with max_poly_degree = deg + 1 (= trace_poly_degree = n - 1) *)
Definition fri_verify (pf : FriProof) (deg : nat) (xs evs : list F) : bool :=
  match pf with
  | Some (cs, proof) =>
      match Fri.run_verifier O rou K gen_offset dbg D D_eqb hash_elements MN mt_verify_batch CS cs_reseed cs_draw true
              opts coin0 proof cs (S deg) (2 ^ a) evs (positions_of xs) with
      | Fri.RunVerdict (Fri.Ok tt) => true
      | _ => false
      end
  | None => false
  end.

Lemma lde_of_length : length lde_of = 2 ^ a.
Proof. unfold lde_of. now rewrite map_length, seq_length. Qed.

Lemma evals_at_positions d xs : incl xs lde_of ->
  FriComplete.evals_at O (FriCoset.coset_evals O d gen_offset (rou a) (2 ^ a)) (positions_of xs) = map (peval O d) xs.
Proof.
  intros Hin. unfold FriComplete.evals_at, positions_of. rewrite map_map. apply map_ext_in. intros x Hx.
  destruct (find_spec O L lde_of x (Hin x Hx)) as [Hlt Hnth]. rewrite lde_of_length in Hlt.
  unfold FriCoset.coset_evals.
  rewrite (nth_indep _ zero (Fri.peval O d (gen_offset *f Fri.fpow O (rou a) 0))) by (now rewrite map_length, seq_length).
  rewrite (map_nth (fun j => Fri.peval O d (gen_offset *f Fri.fpow O (rou a) j))), seq_nth by exact Hlt. cbn [Nat.add].
  unfold lde_of in Hnth. rewrite nth_error_map in Hnth.
  rewrite (nth_error_nth' _ 0) in Hnth by (now rewrite seq_length). rewrite seq_nth in Hnth by exact Hlt.
  cbn [Nat.add option_map] in Hnth. injection Hnth as Hx'. rewrite <- Hx' at 2. reflexivity.
Qed.

(* fri_complete of the capstone, from C15's end-to-end theorem; n = 2^(a - b) >= 2 coefficients *)
Theorem fri_complete_inst : forall d xs, length d = 2 ^ (a - b) -> 2 <= 2 ^ (a - b) -> incl xs lde_of -> xs <> [] -> length xs <= 255 ->
  fri_verify (fri_prove d xs) (2 ^ (a - b) - 2) xs (map (peval O d) xs) = true.
Proof.
  intros d xs Hd Hn Hin Hne H255.
  assert (Hpos : FriComplete.pos_ok a (positions_of xs)).
  { unfold FriComplete.pos_ok, positions_of. split; [destruct xs; [congruence | discriminate]|].
    split; [now rewrite map_length|]. intros p Hp. apply in_map_iff in Hp. destruct Hp as (x & <- & Hx).
    destruct (find_spec O L lde_of x (Hin x Hx)) as [Hlt _]. now rewrite lde_of_length in Hlt. }
  destruct (C15.C15_fri_complete O L rou K K_pos rou_sq rou_1 two_nz gen_offset offset_nz dbg D D_eqb D_eqb_spec
              hash_elements MT MN mt_new mt_root mt_prove_batch mt_verify_batch CS cs_reseed cs_draw
              merkle_new_ok merkle_batch_complete draw_total f b remmax f_pos f_supported
              a k d (positions_of xs) coin0 Hlayers Hkf Hb HaK Ha62 Hd Hpos) as (cs & proof & p' & Hp & Hv).
  unfold fri_prove, fri_verify, opts. rewrite Hp.
  replace (S (2 ^ (a - b) - 2)) with (2 ^ (a - b) - 1) by lia.
  pose proof (evals_at_positions d xs Hin) as E. unfold FriComplete.evals_at in E. cbv zeta in Hv. rewrite E in Hv. rewrite Hv. reflexivity.
Qed.
End FriInst.

(* ================================================================================================ the capstone, all stages instantiated *)
Section FinalFri.
Context {F : Type} (O : FOps F) (L : FLaws O).
Local Notation zero := (fzero O).
Local Notation one := (fone O).
Local Notation "a *f b" := (fmul O a b) (at level 40, left associativity).

(* hashing / Merkle (C10): any digest type with decidable equality, any merge and element-hash functions *)
Variable D : Type.
Variable D_eqb : D -> D -> bool.
Hypothesis D_eqb_spec : forall a b, D_eqb a b = true <-> a = b.
Variables (d0 : D) (merge : D -> D -> D) (hash_elements : list F -> D).
(* the field's two-adic roots of unity and the domain offset (C15 / C09) *)
Variable rou : nat -> F.
Variable K : nat.
Hypothesis K_pos : 1 <= K.
Hypothesis rou_sq : forall k, k < K -> rou (S k) *f rou (S k) = rou k.
Hypothesis rou_1 : rou 1 = fneg O one.
Hypothesis two_nz : fadd O one one <> zero.
Variable gen_offset : F.
Hypothesis offset_nz : gen_offset <> zero.
(* the public coin as a state machine (FRI commit phase) and as a function of the symbolic challenge list (C04) *)
Variable CS : Type.
Variable cs_reseed : CS -> D -> CS.
Variable cs_draw : CS -> CS * Fri.draw_res F.
Hypothesis draw_total : forall c, exists c' a, cs_draw c = (c', Fri.DrawOk a).   (* no draw exhausts its 1000 tries: outside the claim *)
Variable coin0 : CS.
Variable sem : list (Transcript.chal * Transcript.cval) -> @Coin F.
(* FRI schedule: folding 2^f, blowup 2^b, LDE domain 2^a, k layers — the property's well-formedness condition *)
Variables f b remmax a k : nat.
Hypothesis f_pos : 1 <= f.
Hypothesis f_supported : Fri.supported_folding (2 ^ f) = true.
Hypothesis Hlayers : Fri.num_fri_layers (Fri.mkOpts (2 ^ b) (2 ^ f) remmax) (2 ^ a) = Some k.
Hypothesis Hkf : k * f < a.
Hypothesis Hb : b <= a - k * f.
Hypothesis HaK : a <= K.
Hypothesis Ha62 : a <= 62.
(* constraint evaluation domain 2^(S kc) (C09) *)
Variables (two_adicity : nat) (itw : list F) (kc : nat).
Hypothesis Hta : S kc <= two_adicity.
Hypothesis Hroot : FFTSpec.root_cond O (S kc) (rou (S kc)).
Hypothesis Hget : FFT.get_inv_twiddles O two_adicity rou (2 ^ S kc) = Some itw.
Hypothesis Hn_inv : FFTSpec.two_pow_f O (S kc) *f FFTOffset.n_inv O (S kc) = one.
Variable dbg_fri : bool.
Variable air_eval : F -> list F -> list F -> F.
Variables (cols ce_b : nat) (g : F).

Local Notation n := (2 ^ (a - b)).
Local Notation lde := (lde_of O rou gen_offset a).
Local Notation MT := (Merkle.mtree D).
Local Notation MN := (list (list D)).
Local Notation FriP := (FriProof D MN).
Local Notation fprove := (fri_prove O rou K gen_offset D hash_elements MT MN (mt_new' D d0 merge) (mt_root' D d0)
                                   (mt_prove_batch' D d0) CS cs_reseed cs_draw f b remmax a coin0).
Local Notation fverify := (fri_verify O rou K gen_offset dbg_fri D D_eqb hash_elements MN (mt_verify_batch' D D_eqb merge)
                                      CS cs_reseed cs_draw f b remmax a coin0).
Local Notation prove' := (prove O D (Opening D) FriP (commit O D d0 merge hash_elements lde) (open_prove O D d0 merge hash_elements lde)
                                 fprove air_eval (interp_ce O two_adicity itw kc (rou (S kc)) gen_offset)).
Local Notation verify' := (verify O D (Opening D) FriP (open_ok O D D_eqb merge hash_elements lde) fverify air_eval).

Theorem stark_complete_all_stages (dbg : bool) (s : Transcript.shape) (Ts : list (list F))
    (e : nat) (N : list F) (bs : list (list F * list F)) :
  let cP := coin_prover sem s in
  let cV := coin_verifier sem s in
  primitive_root O g n -> fpow O gen_offset (2 ^ S kc) <> one ->
  2 <= n -> 1 <= cols -> 2 ^ S kc = n * ce_b -> cols <= ce_b ->
  Ts <> [] -> Forall (fun p => length p = n) Ts -> e <= n ->
  (forall i, i < n - e -> peval O N (fpow O g i) = zero) ->
  length N - (n - e) <= n * cols ->
  Forall (fun br => NoDup (snd br) /\ incl (snd br) (domain O g n) /\
                    (forall r, In r (snd br) -> peval O (fst br) r = zero) /\ length (fst br) - length (snd br) <= n * cols) bs ->
  (forall x, ~ In x (domain O g n) -> air_eval x (evals O Ts x) (evals O Ts (x *f g)) = combined O g n e N bs x) ->
  ~ In (c_z cP) (domain O g n) -> c_z cP <> zero -> c_z cP *f g <> zero ->
  incl (c_xs cP) lde -> NoDup (c_xs cP) -> c_xs cP <> [] -> length (c_xs cP) <= 255 ->
  (forall x, In x (c_xs cP) -> x <> c_z cP /\ x <> c_z cP *f g) ->
  exists pf, prove' (mkParams n g cols false dbg) cP Ts = Done pf /\
             verify' (mkParams n g cols false dbg) cV pf = None.
Proof.
  intros cP cV Hg Hoce Hn Hcols Hsz Hcb HTs HTl He Hv HNl Hbs Hair Hz Hz0 Hzg0 Hxs Hnd Hne H255 Hxz.
  assert (Ha1 : 1 <= a <= 62) by lia.
  apply (stark_complete O L D D_eqb D_eqb_spec d0 merge hash_elements lde a Ha1 (lde_of_length O rou gen_offset a)
           two_adicity rou itw kc (rou (S kc)) gen_offset Hta eq_refl Hroot Hget offset_nz Hn_inv
           FriP fprove fverify air_eval sem n cols ce_b g) with (e := e) (N := N) (bs := bs); try assumption.
  intros d xs Hd _ Hin Hxne Hx255.
  apply (fri_complete_inst O L rou K K_pos rou_sq rou_1 two_nz gen_offset offset_nz dbg_fri D D_eqb D_eqb_spec hash_elements
           MT MN (mt_new' D d0 merge) (mt_root' D d0) (mt_prove_batch' D d0) (mt_verify_batch' D D_eqb merge) CS cs_reseed cs_draw
           (merkle_new_ok' D d0 merge) (merkle_batch_complete' D D_eqb D_eqb_spec d0 merge) draw_total
           f b remmax f_pos f_supported a k coin0 Hlayers Hkf Hb HaK Ha62); assumption.
Qed.
End FinalFri.
