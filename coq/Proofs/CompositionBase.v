(* C17 — base lemmas for the composition model: powers, polynomial semantics, sums, option loops, and the pure
   list/polynomial theorem `column_split_recombine`.  stdlib style; every statement is for an arbitrary `FOps F`
   satisfying `FLaws`. *)
From Coq Require Import List Arith Bool Lia Ring Field ZArith.
From VBase Require Import FieldOps.
From VModel Require Import Composition.
Import ListNotations.

(* ------------------------------------------------------------------ lists *)
Lemma firstn_add {A} : forall a b (l : list A), firstn (a + b) l = firstn a l ++ firstn b (skipn a l).
Proof. induction a; intros b l; simpl; [reflexivity|]. destruct l; simpl; [now rewrite firstn_nil | now rewrite IHa]. Qed.

Lemma mapM_some {A B} (f : A -> option B) (g : A -> B) : forall l,
  (forall x, In x l -> f x = Some (g x)) -> mapM f l = Some (map g l).
Proof.
  induction l as [|h t IH]; intros H; simpl; [reflexivity|].
  rewrite (H h (or_introl eq_refl)), IH; [reflexivity|]. intros x Hx; apply H; now right.
Qed.

Lemma concat_row {A} : forall (rows : list (list A)) w r,
  (forall row, In row rows -> length row = w) -> r < length rows ->
  firstn w (skipn (r * w) (concat rows)) = nth r rows [].
Proof.
  induction rows as [|a rest IH]; intros w r Hw Hr; simpl in Hr; [lia|].
  assert (Ha : length a = w) by (apply Hw; now left).
  destruct r; simpl.
  - rewrite <- Ha. rewrite firstn_app, Nat.sub_diag, firstn_all. simpl. now rewrite app_nil_r.
  - rewrite skipn_app, Ha.
    replace (w + r * w - w) with (r * w) by lia.
    rewrite (skipn_all2 a) by lia. simpl.
    apply IH; [intros row Hrow; apply Hw; now right | lia].
Qed.

Lemma concat_length_rows {A} : forall (rows : list (list A)) w,
  (forall row, In row rows -> length row = w) -> length (concat rows) = length rows * w.
Proof.
  induction rows as [|a rest IH]; intros w Hw; simpl; [reflexivity|].
  rewrite app_length, (IH w), (Hw a); [lia | now left | intros; apply Hw; now right].
Qed.

Lemma mod_mod_mul a b c : b <> 0 -> c <> 0 -> (a mod (b * c)) mod b = a mod b.
Proof.
  intros Hb Hc. rewrite Nat.mod_mul_r by assumption.
  rewrite Nat.mul_comm, Nat.mod_add by assumption. now rewrite Nat.mod_mod.
Qed.

Section Base.
Context {F : Type} (O : FOps F) (L : FLaws O).
Add Ring Fr : (FLaws_ring_theory O L).
Add Field Ff : (FLaws_field_theory O L).

Local Notation fz := (fzero O).
Local Notation f1 := (fone O).
Local Infix "+f" := (fadd O) (at level 50, left associativity).
Local Infix "-f" := (fsub O) (at level 50, left associativity).
Local Infix "*f" := (fmul O) (at level 40, left associativity).
Local Infix "/f" := (fdiv O) (at level 40, left associativity).
Local Notation cpow := (cpow O).
Local Notation peval := (peval O).
Local Notation horner := (horner O).
Local Notation rsum := (rsum O).
Local Notation rprod := (rprod O).
Local Notation lincomb := (lincomb O).

(* ---------------------------------------------------------------- powers *)
Lemma cpow_add x a b : cpow x (a + b) = cpow x a *f cpow x b.
Proof. induction a; cbn [Composition.cpow Nat.add]; [ring | rewrite IHa; ring]. Qed.

Lemma cpow_one k : cpow f1 k = f1.
Proof. induction k; cbn [Composition.cpow]; [reflexivity | rewrite IHk; ring]. Qed.

Lemma cpow_mul_base a b k : cpow (a *f b) k = cpow a k *f cpow b k.
Proof. induction k; cbn [Composition.cpow]; [ring | rewrite IHk; ring]. Qed.

Lemma cpow_mul x a b : cpow x (a * b) = cpow (cpow x a) b.
Proof.
  induction b; cbn [Composition.cpow].
  - now rewrite Nat.mul_0_r.
  - rewrite Nat.mul_succ_r, Nat.add_comm, cpow_add, IHb. reflexivity.
Qed.

Lemma cpow_mod w m k : m <> 0 -> cpow w m = f1 -> cpow w (k mod m) = cpow w k.
Proof.
  intros Hm Hw. rewrite (Nat.div_mod k m Hm) at 2.
  rewrite cpow_add, cpow_mul, Hw, cpow_one. ring.
Qed.

Lemma cpow_S_r x k : cpow x (S k) = cpow x k *f x.
Proof. cbn [Composition.cpow]. ring. Qed.

(* ---------------------------------------------------------------- power series *)
Lemma power_series_from_length b : forall k cur, length (power_series_from O cur b k) = k.
Proof. induction k; intros; simpl; [reflexivity | now rewrite IHk]. Qed.

Lemma power_series_from_nth b : forall k cur i, i < k ->
  nth_error (power_series_from O cur b k) i = Some (cur *f cpow b i).
Proof.
  induction k; intros cur i Hi; [lia|]. destruct i; simpl.
  - f_equal. ring.
  - rewrite IHk by lia. f_equal. ring.
Qed.

Lemma power_series_length b k : length (power_series O b k) = k.
Proof. apply power_series_from_length. Qed.

Lemma power_series_nth b k i : i < k -> nth_error (power_series O b k) i = Some (cpow b i).
Proof. intros H. unfold power_series. rewrite power_series_from_nth by assumption. f_equal. ring. Qed.

(* ---------------------------------------------------------------- polynomial semantics *)
Lemma peval_app p q x : peval (p ++ q) x = peval p x +f cpow x (length p) *f peval q x.
Proof. induction p; simpl; [ring | rewrite IHp; ring]. Qed.

Lemma horner_peval p x : horner p x = peval p x.
Proof.
  unfold Composition.horner. rewrite <- fold_left_rev_right, rev_involutive.
  induction p; simpl; [reflexivity | rewrite IHp; ring].
Qed.

Lemma peval_single v x : peval [v] x = v.
Proof. simpl. ring. Qed.

(* ---------------------------------------------------------------- sums *)
Lemma fold_add_rsum {A} (g : A -> F) : forall l a,
  fold_left (fun acc v => acc +f g v) l a = a +f rsum (map g l).
Proof. induction l; intros a0; simpl; [ring | rewrite IHl; ring]. Qed.

Lemma lincomb_rsum evals coefs :
  lincomb evals coefs = rsum (map (fun ec => snd ec *f fst ec) (combine evals coefs)).
Proof. unfold Composition.lincomb. rewrite (fold_add_rsum (fun ec => snd ec *f fst ec)). ring. Qed.

Lemma rsum_app a b : rsum (a ++ b) = rsum a +f rsum b.
Proof. induction a; simpl; [ring | rewrite IHa; ring]. Qed.

Lemma rsum_scale {A} (g : A -> F) k l : rsum (map (fun v => g v *f k) l) = rsum (map g l) *f k.
Proof. induction l; simpl; [ring | rewrite IHl; ring]. Qed.

Lemma rsum_map_ext {A} (g h : A -> F) l : (forall x, In x l -> g x = h x) -> rsum (map g l) = rsum (map h l).
Proof. intros H. f_equal. apply map_ext_in. exact H. Qed.

Lemma fold_mul_rprod {A} (g : A -> F) : forall l a,
  fold_left (fun r e => r *f g e) l a = a *f rprod (map g l).
Proof. induction l; intros a0; simpl; [ring | rewrite IHl; ring]. Qed.

(* a panicking accumulation loop whose body never panics *)
Lemma acc_opt_some {A} (f : A -> option F) (g : A -> F) : forall l a,
  (forall c, In c l -> f c = Some (g c)) -> acc_opt O f l (Some a) = Some (a +f rsum (map g l)).
Proof.
  unfold acc_opt. induction l as [|h t IH]; intros a H; simpl.
  - f_equal. ring.
  - rewrite (H h (or_introl eq_refl)). rewrite IH by (intros c Hc; apply H; now right). f_equal. ring.
Qed.

(* ---------------------------------------------------------------- column split / recombination *)
Lemma chunks_some m (h : list F) : m <> 0 -> chunks m h = Some (chunks_fuel (length h) m h).
Proof. unfold chunks. destruct m; [congruence | reflexivity]. Qed.

Section Split.
Variable n : nat.
Hypothesis n_pos : n <> 0.

Lemma recombine_chunks z : forall fuel l c i acc, length l <= fuel ->
  recombine_from O n i (cp_evaluate_at O (firstn c (chunks_fuel fuel n l)) z) z acc
  = acc +f cpow z (i * n) *f peval (firstn (c * n) l) z.
Proof.
  unfold cp_evaluate_at.
  induction fuel as [|f IH]; intros l c i acc Hl.
  - destruct l; [|simpl in Hl; lia]. cbn [chunks_fuel]. rewrite !firstn_nil. cbn [map recombine_from Composition.peval]. ring.
  - destruct l as [|a l'].
    + cbn [chunks_fuel]. rewrite !firstn_nil. cbn [map recombine_from Composition.peval]. ring.
    + cbn [chunks_fuel]. destruct c as [|c'].
      * rewrite Nat.mul_0_l. cbn [firstn map recombine_from Composition.peval]. ring.
      * cbn [firstn map recombine_from].
        rewrite IH.
        2:{ rewrite skipn_length. cbn [length] in *. pose proof n_pos. lia. }
        rewrite horner_peval.
        replace (S c' * n) with (n + c' * n) by lia.
        rewrite firstn_add, peval_app.
        destruct (le_lt_dec n (length (a :: l'))) as [Hge|Hlt].
        -- rewrite firstn_length_le by assumption.
           replace (S i * n) with (i * n + n) by lia. rewrite cpow_add. ring.
        -- rewrite (skipn_all2 (a :: l')) by lia. rewrite !firstn_nil. simpl. ring.
Qed.

(* for EVERY coefficient list h, every number of columns k and column length n: the k columns recombine to the
   polynomial of the first k*n coefficients; when h has at most k*n coefficients that is h itself *)
Theorem column_split_recombine_gen : forall k h z cols,
  segment h n k = Some cols ->
  recombine O n (cp_evaluate_at O cols z) z = peval (firstn (k * n) h) z.
Proof.
  intros k h z cols Hs. unfold segment in Hs. rewrite (chunks_some n h n_pos) in Hs.
  inversion Hs; subst cols. unfold recombine.
  rewrite recombine_chunks by lia. simpl. ring.
Qed.

Theorem column_split_recombine : forall k h z cols,
  length h <= k * n -> segment h n k = Some cols ->
  recombine O n (cp_evaluate_at O cols z) z = peval h z.
Proof.
  intros k h z cols Hl Hs. rewrite (column_split_recombine_gen k h z cols Hs).
  now rewrite firstn_all2.
Qed.

Lemma segment_some : forall k (h : list F), exists cols, segment h n k = Some cols.
Proof. intros. unfold segment. rewrite (chunks_some n h n_pos). eexists; reflexivity. Qed.
End Split.

End Base.
