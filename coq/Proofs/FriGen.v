(* C15 / C05 — the hand model coq/Model/Fri.v computes the integer terms that rs2v GENERATES from fri/src on every
   run (coq/Gen/FriInt.v, unit FriInt of rs2v/units.py): FriOptions::new asserts, num_fri_layers (fuelled while),
   the domain-size guard/division of FriProof::parse_layers, the domain size and the running degree bound of
   FriVerifier::new / verify_generic, the index arithmetic of map_positions_to_indexes / fold_positions /
   get_query_values.  The model works on nat, the generated terms on Z with explicit 64-bit wrap; the equalities
   hold for values in the usize range ([u64]); where the Rust arithmetic is checked, the generated *_ok side
   condition is the hypothesis.  stdlib style. *)
From Coq Require Import List Arith Bool Lia ZArith.
From VBase Require Import MachInt.
From VGen Require Import FriInt.
From VModel Require Import Fri.
Import ListNotations.
Local Open Scope nat_scope.

Definition u64 (n : nat) : Prop := (Z.of_nat n < 2 ^ 64)%Z.
Definition gopts (o : fri_options) : GFriOptions :=
  mkGFriOptions (Z.of_nat (fo_folding o)) (Z.of_nat (fo_remmax o)) (Z.of_nat (fo_blowup o)).

Lemma wrap_small x : (0 <= x < 2 ^ 64)%Z -> wrap 64 x = x.
Proof. intros H. unfold wrap. now apply Z.mod_small. Qed.

Lemma log2_Z n : Z.log2 (Z.of_nat n) = Z.of_nat (Nat.log2 n).
Proof.
  destruct n as [|n]; [reflexivity|].
  pose proof (Nat.log2_spec (S n) ltac:(lia)) as [A B].
  apply Z.log2_unique.
  - apply Nat2Z.is_nonneg.
  - change 2%Z with (Z.of_nat 2). rewrite <- Nat2Z.inj_succ, <- !Nat2Z.inj_pow. split; apply Nat2Z.inj_le || apply Nat2Z.inj_lt; assumption.
Qed.

Lemma is_pow2_Z n : FriInt.is_pow2 (Z.of_nat n) = Fri.is_pow2 n.
Proof.
  unfold FriInt.is_pow2, Fri.is_pow2. f_equal.
  - destruct (0 <? n) eqn:E; [apply Nat.ltb_lt in E; apply Z.ltb_lt; lia | apply Nat.ltb_ge in E; apply Z.ltb_ge; lia].
  - rewrite log2_Z. change 2%Z with (Z.of_nat 2). rewrite <- Nat2Z.inj_pow.
    destruct (2 ^ Nat.log2 n =? n) eqn:E.
    + apply Nat.eqb_eq in E. apply Z.eqb_eq. lia.
    + apply Nat.eqb_neq in E. apply Z.eqb_neq. lia.
Qed.

Lemma eqb_Z a b : (Z.of_nat a =? Z.of_nat b)%Z = (a =? b).
Proof. destruct (a =? b) eqn:E; [apply Nat.eqb_eq in E; apply Z.eqb_eq; lia | apply Nat.eqb_neq in E; apply Z.eqb_neq; lia]. Qed.

Lemma gtb_Z a b : (Z.of_nat a >? Z.of_nat b)%Z = negb (a <=? b).
Proof.
  rewrite Z.gtb_ltb. destruct (a <=? b) eqn:E; cbn.
  - apply Nat.leb_le in E. apply Z.ltb_ge. lia.
  - apply Nat.leb_gt in E. apply Z.ltb_lt. lia.
Qed.
Lemma ltb_Z a b : (Z.of_nat a <? Z.of_nat b)%Z = (a <? b).
Proof. destruct (a <? b) eqn:E; [apply Nat.ltb_lt in E; apply Z.ltb_lt; lia | apply Nat.ltb_ge in E; apply Z.ltb_ge; lia]. Qed.
Lemma leb_Z a b : (Z.of_nat a <=? Z.of_nat b)%Z = (a <=? b).
Proof. destruct (a <=? b) eqn:E; [apply Nat.leb_le in E; apply Z.leb_le; lia | apply Nat.leb_gt in E; apply Z.leb_gt; lia]. Qed.

(* ---------------------------------------------------------------- FriOptions::new *)
Theorem options_new_gen : forall b n r,
  options_new b n r = if fri_options_new_checks_ok (Z.of_nat b) (Z.of_nat n) (Z.of_nat r) then Ok (mkOpts b n r) else Panic.
Proof.
  intros b n r. unfold options_new, fri_options_new_checks_ok, supported_folding.
  rewrite is_pow2_Z. change 2%Z with (Z.of_nat 2). change 4%Z with (Z.of_nat 4). change 8%Z with (Z.of_nat 8).
  change 16%Z with (Z.of_nat 16). rewrite !eqb_Z.
  destruct (Fri.is_pow2 b); cbn [negb andb]; [|reflexivity].
  destruct ((n =? 2) || (n =? 4) || (n =? 8) || (n =? 16)); reflexivity.
Qed.

(* ---------------------------------------------------------------- num_fri_layers *)
(* stated for ANY condition / body that are extensionally the loop's test and step, so that the tie survives `a > b` written
   as `b < a` or the two statements of the body exchanged (seeded/harmless/H7) *)
Lemma nfl_loop_gen : forall (c : Z * Z -> bool) (b : Z * Z -> Z * Z) m ff,
  (forall ds r, c (ds, r) = Z.ltb (Z.of_nat m) ds) ->
  (forall ds r, b (ds, r) = (Z.div ds (Z.of_nat ff), wrap 64 (Z.add r 1))) ->
  forall fuel d acc, ff <> 0 -> (Z.of_nat acc + Z.of_nat fuel < 2 ^ 64)%Z ->
  option_map Z.of_nat (nfl_loop fuel d m ff acc)
  = option_map snd (while_loop fuel c b (Z.of_nat d, Z.of_nat acc)).
Proof.
  intros c b m ff Hc Hbd.
  induction fuel as [|fuel IH]; intros d acc Hff Hb; cbn [nfl_loop while_loop]; rewrite Hc, <- Z.gtb_ltb, gtb_Z.
  - destruct (d <=? m); reflexivity.
  - destruct (d <=? m); cbn [negb]; [reflexivity|].
    destruct (ff =? 0) eqn:E0; [apply Nat.eqb_eq in E0; contradiction|].
    rewrite Hbd, <- Nat2Z.inj_div.
    rewrite wrap_small by lia. replace (Z.of_nat acc + 1)%Z with (Z.of_nat (S acc)) by lia.
    rewrite IH by (try assumption; lia). reflexivity.
Qed.

Theorem num_fri_layers_gen : forall o d, fo_folding o <> 0 ->
  (Z.of_nat d + 1 < 2 ^ 64)%Z -> (Z.of_nat ((fo_remmax o + 1) * fo_blowup o) < 2 ^ 64)%Z -> u64 (fo_remmax o + 1) ->
  option_map Z.of_nat (num_fri_layers o d) = fri_num_fri_layers (S d) (gopts o) (Z.of_nat d).
Proof.
  intros o d Hff Hd Hm Hr. unfold num_fri_layers, fri_num_fri_layers, max_remainder_size, gopts, u64 in *.
  cbn [go_remainder_max_degree go_blowup_factor go_folding_factor]. cbv zeta.
  replace (wrap 64 (wrap 64 (Z.of_nat (fo_remmax o) + 1) * Z.of_nat (fo_blowup o)))
    with (Z.of_nat ((fo_remmax o + 1) * fo_blowup o)).
  2:{ rewrite (wrap_small (Z.of_nat (fo_remmax o) + 1)) by lia. rewrite wrap_small by lia. lia. }
  match goal with |- _ = match while_loop _ ?c ?b _ with _ => _ end =>
    rewrite (nfl_loop_gen c b ((fo_remmax o + 1) * fo_blowup o) (fo_folding o))
  end.
  - change (Z.of_nat 0) with 0%Z. destruct (while_loop _ _ _ _) as [[ds res]|]; reflexivity.
  - intros ds r. rewrite ?Z.gtb_ltb. reflexivity.
  - intros ds r. reflexivity.
  - exact Hff.
  - lia.
Qed.

(* ---------------------------------------------------------------- FriProof::parse_layers: guard and division *)
Theorem parse_layers_step_gen : forall d N i, N <> 0 ->
  fri_parse_layers_step (Z.of_nat d) (Z.of_nat N) i = if d <? N then None else Some (Z.of_nat (d / N)).
Proof.
  intros d N i HN. unfold fri_parse_layers_step. rewrite ltb_Z.
  destruct (d <? N); [reflexivity|]. now rewrite Nat2Z.inj_div.
Qed.

(* the model's parse_layers takes exactly this step for every layer *)
Theorem parse_layers_unfold_gen : forall F D (h : list F -> D) MN N d pl rest, N <> 0 ->
  parse_layers D h MN N d (pl :: rest) =
  match fri_parse_layers_step (Z.of_nat d) (Z.of_nat N) 0 with
  | None => Some None
  | Some ds =>
    match parse_layer D h MN N (Z.to_nat ds) pl with
    | None => None
    | Some None => Some None
    | Some (Some (q, mp)) =>
      match parse_layers D h MN N (Z.to_nat ds) rest with
      | None => None
      | Some None => Some None
      | Some (Some (qs, mps)) => Some (Some (q :: qs, mp :: mps))
      end
    end
  end.
Proof.
  intros F D h MN N d pl rest HN. rewrite parse_layers_step_gen by assumption. cbn [parse_layers].
  destruct (d <? N); [reflexivity|]. now rewrite Nat2Z.id.
Qed.

(* ---------------------------------------------------------------- FriVerifier::new *)
Lemma next_pow2_Z n : FriInt.next_pow2 (Z.of_nat n) = Z.of_nat (Fri.next_pow2 n).
Proof.
  unfold FriInt.next_pow2, Fri.next_pow2. change 1%Z with (Z.of_nat 1) at 1. rewrite leb_Z.
  destruct (n <=? 1) eqn:E; [reflexivity|]. apply Nat.leb_gt in E.
  rewrite Nat2Z.inj_pow. f_equal. unfold Z.log2_up.
  replace (1 ?= Z.of_nat n)%Z with Lt by (symmetry; apply Z.compare_lt_iff; lia).
  rewrite Nat2Z.inj_succ, <- log2_Z. do 2 f_equal. lia.
Qed.

Theorem verifier_new_domain_gen : forall m o,
  fri_verifier_new_domain_ok (Z.of_nat m) (gopts o) = true ->
  fri_verifier_new_domain (Z.of_nat m) (gopts o) = Z.of_nat (Fri.next_pow2 (m + 1) * fo_blowup o).
Proof.
  intros m o H. unfold fri_verifier_new_domain_ok, fri_verifier_new_domain, gopts, in_u in *.
  cbn [go_blowup_factor] in *.
  replace (Z.of_nat m + 1)%Z with (Z.of_nat (m + 1)) in * by lia.
  apply andb_true_iff in H. destruct H as [H H3]. apply andb_true_iff in H. destruct H as [H1 H2].
  apply andb_true_iff in H1, H2, H3. destruct H1 as [_ H1], H2 as [_ H2], H3 as [_ H3].
  apply Z.ltb_lt in H1. rewrite (wrap_small (Z.of_nat (m + 1))) in * by lia.
  rewrite next_pow2_Z in *. apply Z.ltb_lt in H2. rewrite (wrap_small (Z.of_nat (Fri.next_pow2 (m + 1)))) in * by lia.
  apply Z.ltb_lt in H3. rewrite wrap_small by lia. lia.
Qed.

(* one iteration of the commitment loop: the degree-truncation test and the division of the running bound,
   exactly the test of the model's draw_alphas (last = number of commitments - 1) *)
Lemma mod_eqb_Z a b : b <> 0 -> (Z.of_nat a mod Z.of_nat b =? 0)%Z = (a mod b =? 0).
Proof. intros Hb. rewrite <- Nat2Z.inj_mod. change 0%Z with (Z.of_nat 0). apply eqb_Z. Qed.

Theorem verifier_new_step_gen : forall depth len o mdp1, 1 <= len -> u64 len -> fo_folding o <> 0 ->
  fri_verifier_new_step (Z.of_nat depth) (Z.of_nat len) (gopts o) (Z.of_nat mdp1)
  = if negb (depth =? len - 1) && negb (mdp1 mod fo_folding o =? 0) then None
    else Some (Z.of_nat (mdp1 / fo_folding o)).
Proof.
  intros depth len o mdp1 Hl Hu Hff. unfold fri_verifier_new_step, gopts, fri_vec_len, u64 in *. cbn [go_folding_factor].
  replace (Z.of_nat len - 1)%Z with (Z.of_nat (len - 1)) by lia.
  rewrite wrap_small by lia. rewrite eqb_Z, mod_eqb_Z by assumption.
  destruct (negb (depth =? len - 1) && negb (mdp1 mod fo_folding o =? 0)); [reflexivity|].
  now rewrite Nat2Z.inj_div.
Qed.

(* the same test inside the model function: the head of draw_alphas *)
Theorem draw_alphas_head_gen : forall F D CS (reseed : CS -> D -> CS) (draw : CS -> CS * draw_res F)
  coin c rest depth o mdp1 coin2 alpha, fo_folding o <> 0 -> u64 (S (length rest)) ->
  draw (reseed coin c) = (coin2, DrawOk alpha) ->
  draw_alphas D CS reseed draw coin (c :: rest) depth (length (c :: rest) - 1) mdp1 (fo_folding o)
  = match fri_verifier_new_step (Z.of_nat depth) (Z.of_nat (length (c :: rest))) (gopts o) (Z.of_nat mdp1) with
    | None => Err (DegreeTruncation (mdp1 - 1) (fo_folding o) depth)
    | Some m =>
      bind (draw_alphas D CS reseed draw coin2 rest (S depth) (length (c :: rest) - 1) (Z.to_nat m) (fo_folding o))
           (fun r => let (cF, al) := r in Ok (cF, alpha :: al))
    end.
Proof.
  intros F D CS reseed draw coin c rest depth o mdp1 coin2 alpha Hff Hu Hd.
  rewrite verifier_new_step_gen by (try assumption; cbn; lia).
  cbn [draw_alphas]. rewrite Hd. destruct (fo_folding o =? 0) eqn:E0; [apply Nat.eqb_eq in E0; contradiction|].
  destruct (negb (depth =? length (c :: rest) - 1) && negb (mdp1 mod fo_folding o =? 0)); [reflexivity|].
  rewrite Nat2Z.id. reflexivity.
Qed.

(* ---------------------------------------------------------------- verify_generic: running bound, remainder bound *)
Theorem verify_layer_bound_gen : forall mdp1 N depth, N <> 0 ->
  fri_verify_layer_bound (Z.of_nat mdp1) (Z.of_nat N) depth = if negb (mdp1 mod N =? 0) then None else Some true.
Proof. intros. unfold fri_verify_layer_bound. now rewrite mod_eqb_Z. Qed.

Theorem verify_layer_updates_gen : forall x N, N <> 0 ->
  fri_verify_layer_degree_update (Z.of_nat x) (Z.of_nat N) = Z.of_nat (x / N) /\
  fri_verify_layer_domain_update (Z.of_nat x) (Z.of_nat N) = Z.of_nat (x / N) /\
  fri_query_row_length (Z.of_nat x) (Z.of_nat N) = Z.of_nat (x / N) /\
  fri_fold_target_size (Z.of_nat x) (Z.of_nat N) = Z.of_nat (x / N).
Proof.
  intros. unfold fri_verify_layer_degree_update, fri_verify_layer_domain_update, fri_query_row_length, fri_fold_target_size.
  now rewrite <- Nat2Z.inj_div.
Qed.

Theorem verify_remainder_bound_gen : forall len mdp1,
  fri_verify_remainder_bound (Z.of_nat len) (Z.of_nat mdp1) = if mdp1 <? len then None else Some true.
Proof.
  intros. unfold fri_verify_remainder_bound, fri_vec_len. rewrite gtb_Z.
  replace (len <=? mdp1) with (negb (mdp1 <? len)) by (rewrite Nat.ltb_antisym; now rewrite negb_involutive).
  rewrite negb_involutive. reflexivity.
Qed.

(* ---------------------------------------------------------------- fold_positions / map_positions_to_indexes *)
Theorem fold_positions_gen : forall ps d ff, ff <> 0 -> (d / ff <> 0 \/ ps = []) ->
  fold_positions ps d ff = Ok (fold_positions_core ps (Z.to_nat (fri_fold_target_size (Z.of_nat d) (Z.of_nat ff)))).
Proof.
  intros ps d ff Hff Ht. destruct (verify_layer_updates_gen d ff Hff) as [_ [_ [_ E]]]. rewrite E, Nat2Z.id.
  unfold fold_positions. destruct (ff =? 0) eqn:E0; [apply Nat.eqb_eq in E0; contradiction|].
  assert (G : (d / ff =? 0) && negb (is_nil ps) = false).
  { destruct Ht as [Ht|Ht]; [apply Nat.eqb_neq in Ht; now rewrite Ht | subst; cbn; apply andb_false_r]. }
  now rewrite G.
Qed.

Theorem map_position_index_gen : forall p np psize, np <> 0 ->
  fri_map_position_index_ok (Z.of_nat p) (Z.of_nat np) (Z.of_nat psize) = true ->
  fri_map_position_index (Z.of_nat p) (Z.of_nat np) (Z.of_nat psize)
  = Z.of_nat (p mod np * psize + (p - p mod np) / np).
Proof.
  intros p np psize Hnp H. unfold fri_map_position_index_ok, fri_map_position_index, in_u in *.
  rewrite <- Nat2Z.inj_mod in *.
  assert (Hle : p mod np <= p) by (apply Nat.mod_le; assumption).
  replace (Z.of_nat p - Z.of_nat (p mod np))%Z with (Z.of_nat (p - p mod np)) in * by lia.
  apply andb_true_iff in H. destruct H as [_ H]. apply andb_true_iff in H. destruct H as [H1 H].
  apply andb_true_iff in H1. destruct H1 as [H1 _]. apply andb_true_iff in H1. destruct H1 as [_ H1]. apply Z.ltb_lt in H1.
  rewrite (wrap_small (Z.of_nat (p - p mod np))) in * by lia. rewrite <- Nat2Z.inj_div in *.
  rewrite <- Nat2Z.inj_mul in *.
  apply andb_true_iff in H. destruct H as [H2 H3]. apply andb_true_iff in H2, H3. destruct H2 as [_ H2], H3 as [_ H3].
  apply Z.ltb_lt in H2. rewrite (wrap_small (Z.of_nat (p mod np * psize))) in * by lia.
  rewrite <- Nat2Z.inj_add in *. apply Z.ltb_lt in H3. now rewrite wrap_small by lia.
Qed.

Theorem map_positions_to_indexes_gen : forall ps d ff np, np <> 1 -> np <> 0 -> ff <> 0 ->
  (forall p, In p ps -> fri_map_position_index_ok (Z.of_nat p) (Z.of_nat np)
                          (fri_map_positions_sizes (Z.of_nat d) (Z.of_nat ff) (Z.of_nat np)) = true) ->
  map_positions_to_indexes ps d ff np
  = Ok (map (fun p => Z.to_nat (fri_map_position_index (Z.of_nat p) (Z.of_nat np)
                                  (fri_map_positions_sizes (Z.of_nat d) (Z.of_nat ff) (Z.of_nat np)))) ps).
Proof.
  intros ps d ff np H1 H0 Hff Hok. unfold map_positions_to_indexes.
  destruct (np =? 1) eqn:E1; [apply Nat.eqb_eq in E1; contradiction|].
  destruct (ff =? 0) eqn:E2; [apply Nat.eqb_eq in E2; contradiction|].
  destruct (np =? 0) eqn:E3; [apply Nat.eqb_eq in E3; contradiction|].
  f_equal. apply map_ext_in. intros p Hp. specialize (Hok p Hp).
  unfold fri_map_positions_sizes in *. rewrite <- !Nat2Z.inj_div in *.
  rewrite map_position_index_gen by assumption. now rewrite Nat2Z.id.
Qed.
