(* C03 — soundness of the executable checker [check] of Model/Integrity.v: ANY event list it accepts (not only the
   generator's) satisfies the ordering discipline in declarative form.  Together with events_check this gives a second,
   independent route to the ordering theorems, and makes [check] usable as an oracle for observed logs.
   stdlib style. *)
From Coq Require Import List Arith Bool Lia.
From VModel Require Import Integrity.
From VProofs Require Import IntegrityOrderBase IntegrityOrder.
Import ListNotations.

Definition hashed_in (l : list event) (c : comp) : Prop :=
  (exists n, In (HashLeaves c n) l) \/ (exists cs, In (HashWhole cs) l /\ In c cs).

Definition authed_in (l : list event) (c : comp) : Prop :=
  (exists r p root, In (AuthCheck r p root) l /\ (c = r \/ c = p)) \/
  (exists root, In (Compare CkRemainderCommit [c] [root]) l).

Definition absorbed_in (l : list event) (c : comp) : Prop := exists e, In e l /\ absorbs e c.

(* the checker state describes the prefix consumed so far *)
Definition inv (st : cstate) (acc : list event) : Prop :=
  (st_drawn st = true <-> In DrawPositions acc) /\
  (forall c, mem c (st_absorbed st) = true -> absorbed_in acc c) /\
  (forall c, mem c (st_hashed st) = true -> hashed_in acc c) /\
  (forall c, mem c (st_authed st) = true -> authed_in acc c).

Lemma inv0 : inv st0 [].
Proof. repeat split; cbn; intros; try discriminate; try contradiction. Qed.

Lemma mem_app_or : forall c l1 l2, mem c (l1 ++ l2) = true -> mem c l1 = true \/ mem c l2 = true.
Proof. intros c l1 l2 H. apply mem_In in H. apply in_app_or in H. destruct H; [left | right]; now apply mem_In. Qed.

Lemma mem_cons_or : forall c x l, mem c (x :: l) = true -> c = x \/ mem c l = true.
Proof. intros c x l H. apply mem_In in H. destruct H as [-> | H]; [now left | right; now apply mem_In]. Qed.

Lemma absorbed_in_snoc : forall acc e c, absorbed_in acc c -> absorbed_in (acc ++ [e]) c.
Proof. intros acc e c (e0 & H & A). exists e0. split; [apply in_or_app; now left | exact A]. Qed.
Lemma hashed_in_snoc : forall acc e c, hashed_in acc c -> hashed_in (acc ++ [e]) c.
Proof.
  intros acc e c [(n & H) | (cs & H & I)]; [left; exists n | right; exists cs; split; [|exact I]]; apply in_or_app; now left.
Qed.
Lemma authed_in_snoc : forall acc e c, authed_in acc c -> authed_in (acc ++ [e]) c.
Proof.
  intros acc e c [(r & p & root & H & I) | (root & H)]; [left; exists r, p, root; split; [|exact I] | right; exists root];
    apply in_or_app; now left.
Qed.

Lemma in_snoc_last : forall (e : event) acc, In e (acc ++ [e]).
Proof. intros. apply in_or_app. right. now left. Qed.

(* events that leave the state unchanged *)
Lemma inv_same : forall st acc e, inv st acc -> e <> DrawPositions -> inv st (acc ++ [e]).
Proof.
  intros st acc e (D & A & H & U) Hne. split; [| split; [| split]].
  - rewrite D. split; intros I; [apply in_or_app; now left |].
    apply in_app_or in I. destruct I as [I | [I | []]]; [exact I | now contradiction Hne].
  - intros c M. apply absorbed_in_snoc. now apply A.
  - intros c M. apply hashed_in_snoc. now apply H.
  - intros c M. apply authed_in_snoc. now apply U.
Qed.

Lemma inv_step : forall st acc e, inv st acc -> fst (step st e) = true -> inv (snd (step st e)) (acc ++ [e]).
Proof.
  intros st acc e I OK. pose proof I as (D & A & H & U).
  destruct e as [b x | t | k n | | | c n | cs | r p root | k lhs rhs | c].
  - (* Parse *) cbn. apply inv_same; [exact I | discriminate].
  - (* Absorb *) cbn -[mem] in *. split; [| split; [| split]]; cbn -[mem].
    + rewrite D. split; intros J; [apply in_or_app; now left |].
      apply in_app_or in J. destruct J as [J | [J | []]]; [exact J | discriminate].
    + intros c M. apply mem_app_or in M. destruct M as [M | M].
      * exists (Absorb t). split; [apply in_snoc_last |]. left. exists t. split; [reflexivity | now apply mem_In].
      * apply absorbed_in_snoc. now apply A.
    + intros c M. apply hashed_in_snoc. now apply H.
    + intros c M. apply authed_in_snoc. now apply U.
  - (* Draw *) cbn. apply inv_same; [exact I | discriminate].
  - (* CheckPow *) cbn. apply inv_same; [exact I | discriminate].
  - (* DrawPositions *) cbn -[mem] in *. split; [| split; [| split]]; cbn -[mem].
    + split; intros _; [apply in_snoc_last | reflexivity].
    + intros c M. apply mem_cons_or in M. destruct M as [-> | M].
      * exists DrawPositions. split; [apply in_snoc_last | right; now split].
      * apply absorbed_in_snoc. now apply A.
    + intros c M. apply hashed_in_snoc. now apply H.
    + intros c M. apply authed_in_snoc. now apply U.
  - (* HashLeaves *) cbn -[mem] in *. split; [| split; [| split]]; cbn -[mem].
    + rewrite D. split; intros J; [apply in_or_app; now left |].
      apply in_app_or in J. destruct J as [J | [J | []]]; [exact J | discriminate].
    + intros c0 M. apply absorbed_in_snoc. now apply A.
    + intros c0 M. apply mem_cons_or in M. destruct M as [-> | M].
      * left. exists n. apply in_snoc_last.
      * apply hashed_in_snoc. now apply H.
    + intros c0 M. apply authed_in_snoc. now apply U.
  - (* HashWhole *) cbn -[mem] in *. split; [| split; [| split]]; cbn -[mem].
    + rewrite D. split; intros J; [apply in_or_app; now left |].
      apply in_app_or in J. destruct J as [J | [J | []]]; [exact J | discriminate].
    + intros c0 M. apply absorbed_in_snoc. now apply A.
    + intros c0 M. apply mem_app_or in M. destruct M as [M | M].
      * right. exists cs. split; [apply in_snoc_last | now apply mem_In].
      * apply hashed_in_snoc. now apply H.
    + intros c0 M. apply authed_in_snoc. now apply U.
  - (* AuthCheck *) cbn -[mem] in *. split; [| split; [| split]]; cbn -[mem].
    + rewrite D. split; intros J; [apply in_or_app; now left |].
      apply in_app_or in J. destruct J as [J | [J | []]]; [exact J | discriminate].
    + intros c0 M. apply absorbed_in_snoc. now apply A.
    + intros c0 M. apply hashed_in_snoc. now apply H.
    + intros c0 M. apply mem_cons_or in M. destruct M as [-> | M].
      * left. exists r, p, root. split; [apply in_snoc_last | now left].
      * apply mem_cons_or in M. destruct M as [-> | M].
        -- left. exists r, p, root. split; [apply in_snoc_last | now right].
        -- apply authed_in_snoc. now apply U.
  - (* Compare *)
    assert (Hcases : (exists c root, k = CkRemainderCommit /\ lhs = [c] /\ rhs = [root]) \/
                     snd (step st (Compare k lhs rhs)) = st).
    { destruct k; try (right; reflexivity).
      destruct lhs as [| c [| ? ?]]; try (right; reflexivity).
      destruct rhs as [| root [| ? ?]]; try (right; reflexivity).
      left. now exists c, root. }
    destruct Hcases as [(c & root & -> & -> & ->) | E].
    + cbn -[mem] in *. split; [| split; [| split]]; cbn -[mem].
      * rewrite D. split; intros J; [apply in_or_app; now left |].
        apply in_app_or in J. destruct J as [J | [J | []]]; [exact J | discriminate].
      * intros c0 M. apply absorbed_in_snoc. now apply A.
      * intros c0 M. apply hashed_in_snoc. now apply H.
      * intros c0 M. apply mem_cons_or in M. destruct M as [-> | M].
        -- right. exists root. apply in_snoc_last.
        -- apply authed_in_snoc. now apply U.
    + rewrite E. apply inv_same; [exact I | discriminate].
  - (* Use *) cbn. apply inv_same; [exact I | discriminate].
Qed.

(* what the checker demands of the event it is looking at *)
Definition demands (acc : list event) (e : event) : Prop :=
  (forall t, e = Absorb t -> ~ In DrawPositions acc) /\
  (e = DrawPositions -> ~ In DrawPositions acc) /\
  (forall r p root, e = AuthCheck r p root -> In DrawPositions acc /\ absorbed_in acc root /\ hashed_in acc r) /\
  (forall c root, e = Compare CkRemainderCommit [c] [root] -> absorbed_in acc root /\ hashed_in acc c) /\
  (forall c, e = Use c -> query_data c = true -> In DrawPositions acc /\ authed_in acc c).

Lemma step_demands : forall st acc e, inv st acc -> fst (step st e) = true -> demands acc e.
Proof.
  intros st acc e (D & A & H & U) OK. unfold demands. repeat split.
  - intros t -> J. cbn -[mem] in OK. apply D in J. rewrite J in OK. discriminate.
  - intros -> J. cbn -[mem] in OK. apply D in J. rewrite J in OK. discriminate.
  - subst e. cbn -[mem] in OK. apply andb_prop in OK. destruct OK as [OK _]. apply andb_prop in OK. destruct OK as [OK _]. now apply D.
  - subst e. cbn -[mem] in OK. apply andb_prop in OK. destruct OK as [OK _]. apply andb_prop in OK. destruct OK as [_ OK]. now apply A.
  - subst e. cbn -[mem] in OK. apply andb_prop in OK. destruct OK as [_ OK]. now apply H.
  - subst e. cbn -[mem] in OK. apply andb_prop in OK. destruct OK as [OK _]. now apply A.
  - subst e. cbn -[mem] in OK. apply andb_prop in OK. destruct OK as [_ OK]. now apply H.
  - subst e. cbn -[mem] in OK. rewrite H1 in OK. apply andb_prop in OK. destruct OK as [OK _]. now apply D.
  - subst e. cbn -[mem] in OK. rewrite H1 in OK. apply andb_prop in OK. destruct OK as [_ OK]. now apply U.
Qed.

Lemma check_sound_gen : forall l st acc, inv st acc -> check st l = true ->
  forall pre e post, l = pre ++ e :: post -> demands (acc ++ pre) e.
Proof.
  induction l as [| x r IH]; intros st acc I C pre e post E.
  - destruct pre; discriminate.
  - rewrite check_cons in C. apply andb_prop in C. destruct C as [C1 C2].
    destruct pre as [| y pre'].
    + cbn in E. injection E as -> ->. rewrite app_nil_r. now apply (step_demands st).
    + cbn in E. injection E as -> E.
      replace (acc ++ y :: pre') with ((acc ++ [y]) ++ pre') by (rewrite <- app_assoc; reflexivity).
      apply (IH (snd (step st y)) (acc ++ [y]) (inv_step st acc y I C1) C2 pre' e post E).
Qed.

(* every list accepted by the checker, from the initial state *)
Theorem check_sound : forall l, check st0 l = true ->
  forall pre e post, l = pre ++ e :: post -> demands pre e.
Proof. intros l C pre e post E. exact (check_sound_gen l st0 [] inv0 C pre e post E). Qed.

(* ... hence, by events_check, for the runs of every admissible shape *)
Corollary events_obey_discipline : forall s, admissible current s = true ->
  forall pre e post, events current s = pre ++ e :: post -> demands pre e.
Proof. intros s Ha. apply check_sound. now apply events_check. Qed.
