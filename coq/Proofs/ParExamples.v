(* C14 — non-vacuity of the generic commutation theorems, and necessity of the disjointness hypothesis. *)
From Coq Require Import List Arith Bool Lia PeanoNat Permutation.
From VModel Require Import FFT Par.
From VProofs Require Import ParCommute.
Import ListNotations.

(* two atomic steps reading cell 0 and writing cells 1 and 2 *)
Definition ex_t1 : task nat := cell_task [0] 1 (fun s => nth 0 s 0 + 1).
Definition ex_t2 : task nat := cell_task [0] 2 (fun s => nth 0 s 0 * 2).
(* two steps that copy cell 0 -> 1 and cell 1 -> 0: read/write overlap *)
Definition ex_c01 : task nat := cell_task [0] 1 (fun s => nth 0 s 0).
Definition ex_c10 : task nat := cell_task [1] 0 (fun s => nth 1 s 0).

Lemma ex_t1_ok : task_ok 0 ex_t1.
Proof. apply cell_task_ok. intros s s' _ H. rewrite (H 0); [reflexivity|left; reflexivity]. Qed.
Lemma ex_t2_ok : task_ok 0 ex_t2.
Proof. apply cell_task_ok. intros s s' _ H. rewrite (H 0); [reflexivity|left; reflexivity]. Qed.
Lemma ex_c01_ok : task_ok 0 ex_c01.
Proof. apply cell_task_ok. intros s s' _ H. apply (H 0). left; reflexivity. Qed.
Lemma ex_c10_ok : task_ok 0 ex_c10.
Proof. apply cell_task_ok. intros s s' _ H. apply (H 1). left; reflexivity. Qed.

(* the hypotheses of disjoint_commute are satisfiable by a non-trivial phase ... *)
Example disjoint_commute_hyp_sat :
  Forall (task_ok 0) [ex_t1; ex_t2] /\ ForallOrdPairs independent [ex_t1; ex_t2] /\
  exec [ex_t1; ex_t2] [5; 0; 0] = [5; 6; 10] /\ exec [ex_t2; ex_t1] [5; 0; 0] = [5; 6; 10].
Proof.
  split; [|split; [|split]].
  - constructor; [apply ex_t1_ok|constructor; [apply ex_t2_ok|constructor]].
  - apply (pairwiseb_sound independentb independent independentb_sound). reflexivity.
  - reflexivity.
  - reflexivity.
Qed.

(* ... and the disjointness hypothesis cannot be dropped: well-formed tasks with a read/write overlap do not commute *)
Example dependent_tasks_do_not_commute :
  Forall (task_ok 0) [ex_c01; ex_c10] /\ ~ independent ex_c01 ex_c10 /\
  exec [ex_c01; ex_c10] [1; 2] <> exec [ex_c10; ex_c01] [1; 2].
Proof.
  split; [|split].
  - constructor; [apply ex_c01_ok|constructor; [apply ex_c10_ok|constructor]].
  - intros (_ & B & _). apply (B 1); left; reflexivity.
  - cbv. discriminate.
Qed.

(* interleavings: hypotheses satisfiable, with a complete interleaving of two 2-step tasks *)
Example interleave_hyp_sat :
  let tss := [[ex_t1; ex_t1]; [ex_t2; ex_t2]] in
  Forall (Forall (task_ok 0)) tss /\ cross_independent tss /\
  (let '(out, rest) := merge_by [1; 0; 0; 1] tss in all_empty rest = true /\ exec out [5; 0; 0] = exec (concat tss) [5; 0; 0]).
Proof.
  cbn zeta. split; [|split; [|split; reflexivity]].
  - repeat (constructor; try apply ex_t1_ok; try apply ex_t2_ok).
  - intros a b Hab x y Hx Hy.
    assert (Hx' : a < 2 /\ (x = ex_t1 /\ a = 0 \/ x = ex_t2 /\ a = 1)).
    { destruct a as [|[|a]]; cbn in Hx; [| |destruct a; contradiction]; intuition. }
    assert (Hy' : b < 2 /\ (y = ex_t1 /\ b = 0 \/ y = ex_t2 /\ b = 1)).
    { destruct b as [|[|b]]; cbn in Hy; [| |destruct b; contradiction]; intuition. }
    destruct Hx' as (_ & [[-> ->]|[-> ->]]); destruct Hy' as (_ & [[-> ->]|[-> ->]]); try lia;
      apply independentb_sound; reflexivity.
Qed.
