(* Reflective primality certificates over Z (Znumtheory.prime):
   - trial_check q         : trial division up to sqrt q         (soundness trial_check_sound)
   - lucas_check n a qs    : Lucas / Pocklington test with complete factorisation of n-1 over qs
                             (soundness lucas_check_sound)
   and the primality of the three STARK moduli P64, P62, P128 of Base/ZpOps.v.
   stdlib only, no axioms; all computation by vm_compute on Z / positive. *)
From Coq Require Import ZArith Znumtheory Zpow_facts Lia List Bool.
From VBase Require Import FieldOps ZpOps.
From VProofs Require Import NumTheoryFermat.
Open Scope Z_scope.

(* ================= trial division ================= *)

(* no_div_range n d len = true  iff  none of d, d+1, ..., d+len-1 divides n.
   Structural recursion on the positive [len]: total work is len divisions, no nat anywhere. *)
Fixpoint no_div_range (n d : Z) (len : positive) : bool :=
  match len with
  | xH => negb (n mod d =? 0)
  | xO l => no_div_range n d l && no_div_range n (d + Zpos l) l
  | xI l => negb (n mod d =? 0) && (no_div_range n (d + 1) l && no_div_range n (d + 1 + Zpos l) l)
  end.

Lemma no_div_range_spec : forall n len d, 0 < d ->
  no_div_range n d len = true -> forall k, d <= k < d + Zpos len -> ~ (k | n).
Proof.
  intros n len. induction len as [l IH|l IH|]; intros d Hd H k Hk; cbn [no_div_range] in H.
  - apply andb_prop in H. destruct H as [H0 H]. apply andb_prop in H. destruct H as [H1 H2].
    rewrite Pos2Z.inj_xI in Hk.
    destruct (Z.eq_dec k d) as [->|Hne].
    + intros Hdiv. apply Z.mod_divide in Hdiv; [|lia].
      rewrite Hdiv in H0. discriminate.
    + destruct (Z_lt_le_dec k (d + 1 + Zpos l)).
      * apply (IH (d + 1)); [lia|exact H1|lia].
      * apply (IH (d + 1 + Zpos l)); [lia|exact H2|lia].
  - apply andb_prop in H. destruct H as [H1 H2].
    rewrite Pos2Z.inj_xO in Hk.
    destruct (Z_lt_le_dec k (d + Zpos l)).
    + apply (IH d); [lia|exact H1|lia].
    + apply (IH (d + Zpos l)); [lia|exact H2|lia].
  - assert (k = d) by lia. subst k.
    intros Hdiv. apply Z.mod_divide in Hdiv; [|lia].
    rewrite Hdiv in H. discriminate.
Qed.

Definition trial_check (q : Z) : bool :=
  (1 <? q) &&
  match Z.sqrt q - 1 with
  | Zpos len => no_div_range q 2 len      (* candidates 2 .. sqrt q *)
  | _ => true                             (* q = 2, 3 *)
  end.

Theorem trial_check_sound : forall q, trial_check q = true -> prime q.
Proof.
  intros q H. unfold trial_check in H. apply andb_prop in H. destruct H as [H1 H].
  apply Z.ltb_lt in H1.
  apply prime_alt. split; [exact H1|].
  intros d Hd Hdiv.
  assert (Hs := Z.sqrt_spec q ltac:(lia)). cbv zeta in Hs.
  set (s := Z.sqrt q) in *.
  (* a divisor <= sqrt q exists *)
  assert (Hsmall : exists e, 1 < e <= s /\ (e | q)).
  { destruct Hdiv as [c Hc].
    assert (1 < c) by nia.
    destruct (Z_le_gt_dec d s) as [Hle|Hgt].
    - exists d. split; [lia|]. exists c; exact Hc.
    - exists c. split.
      + split; [lia|]. destruct (Z_le_gt_dec c s); [assumption|]. nia.
      + exists d. lia. }
  destruct Hsmall as [e [He Hediv]].
  destruct (s - 1) as [|len|len] eqn:Hlen; try lia.
  revert Hediv. apply (no_div_range_spec q len 2); [lia|exact H|lia].
Qed.

(* ================= Lucas / Pocklington ================= *)

(* divide q out of m, at most fuel times *)
Fixpoint strip (fuel : nat) (m q : Z) : Z :=
  match fuel with
  | O => m
  | S f => if (1 <? q) && (m mod q =? 0) then strip f (m / q) q else m
  end.

Definition strip_all (fuel : nat) (m : Z) (qs : list Z) : Z :=
  fold_left (strip fuel) qs m.

Definition lucas_witness (n a q : Z) : bool :=
  Z.gcd (zpow_mod n a ((n - 1) / q) - 1) n =? 1.

Definition lucas_check (n a : Z) (qs : list Z) : bool :=
  (1 <? n)
  && (strip_all (Z.to_nat (Z.log2 n)) (n - 1) qs =? 1)
  && (zpow_mod n a (n - 1) =? 1)
  && forallb (lucas_witness n a) qs.

(* --- every prime divisor of n-1 is listed --- *)

Lemma strip_keeps : forall r q, prime r -> prime q -> r <> q ->
  forall fuel m, (r | m) -> (r | strip fuel m q).
Proof.
  intros r q Hr Hq Hne fuel. induction fuel as [|f IH]; intros m Hm; cbn [strip].
  - exact Hm.
  - destruct ((1 <? q) && (m mod q =? 0)) eqn:E; [|exact Hm].
    apply andb_prop in E. destruct E as [E1 E2].
    apply Z.ltb_lt in E1. apply Z.eqb_eq in E2.
    apply IH.
    assert (Hm' : m = q * (m / q)) by (apply Z_div_exact_full_2; lia).
    rewrite Hm' in Hm. apply prime_mult in Hm; [|exact Hr].
    destruct Hm as [Hm|Hm]; [|exact Hm].
    exfalso. apply Hne. apply prime_div_prime; assumption.
Qed.

Lemma strip_all_keeps : forall r fuel qs, prime r -> (forall q, In q qs -> prime q) ->
  ~ In r qs -> forall m, (r | m) -> (r | strip_all fuel m qs).
Proof.
  intros r fuel qs Hr. unfold strip_all.
  induction qs as [|q qs IH]; intros Hqs Hnin m Hm; cbn [fold_left].
  - exact Hm.
  - apply IH.
    + intros q' Hq'. apply Hqs. right; exact Hq'.
    + intros Hin. apply Hnin. right; exact Hin.
    + apply strip_keeps; [exact Hr|apply Hqs; left; reflexivity| |exact Hm].
      intros ->. apply Hnin. left; reflexivity.
Qed.

Lemma strip_all_complete : forall fuel m qs, (forall q, In q qs -> prime q) ->
  strip_all fuel m qs = 1 -> forall r, prime r -> (r | m) -> In r qs.
Proof.
  intros fuel m qs Hqs H1 r Hr Hm.
  destruct (in_dec Z.eq_dec r qs) as [Hin|Hnin]; [exact Hin|].
  exfalso. assert (Hd := strip_all_keeps r fuel qs Hr Hqs Hnin m Hm).
  rewrite H1 in Hd. apply prime_ge_2 in Hr.
  apply Z.divide_1_r_nonneg in Hd; lia.
Qed.

(* --- existence of a prime divisor --- *)

Lemma prime_divisor_exists : forall n, 1 < n -> exists p, prime p /\ (p | n).
Proof.
  intros n Hn. assert (H0 : 0 <= n) by lia. revert Hn. revert n H0.
  apply (Z_lt_induction (fun n => 1 < n -> exists p, prime p /\ (p | n))).
  intros n IH Hn.
  destruct (prime_dec n) as [Hp|Hnp].
  - exists n. split; [exact Hp|apply Z.divide_refl].
  - destruct (not_prime_divide n Hn Hnp) as [d [Hd Hdn]].
    destruct (IH d ltac:(lia) ltac:(lia)) as [p [Hp Hpd]].
    exists p. split; [exact Hp|]. eapply Z.divide_trans; eassumption.
Qed.

(* --- the exponents e with a^e = 1 (mod m) are closed under gcd --- *)

Lemma pow_one_mul : forall m a e k, 1 < m -> 0 <= e -> 0 <= k ->
  a ^ e mod m = 1 -> a ^ (e * k) mod m = 1.
Proof.
  intros m a e k Hm He Hk H.
  rewrite Z.pow_mul_r by lia. rewrite Zpower_mod by lia. rewrite H.
  rewrite Z.pow_1_l by lia. apply Z.mod_small. lia.
Qed.

Lemma pow_one_gcd : forall m a, 1 < m -> forall f, 0 <= f -> forall e, 0 <= e ->
  a ^ e mod m = 1 -> a ^ f mod m = 1 -> a ^ Z.gcd e f mod m = 1.
Proof.
  intros m a Hm.
  apply (Z_lt_induction (fun f => forall e, 0 <= e ->
    a ^ e mod m = 1 -> a ^ f mod m = 1 -> a ^ Z.gcd e f mod m = 1)).
  intros f IH e He H1 H2.
  destruct (Z.eq_dec f 0) as [->|Hf0].
  - rewrite Z.gcd_0_r, Z.abs_eq by lia. exact H1.
  - assert (Hf : 0 < f).
    { destruct (Z_lt_le_dec f 0) as [Hneg|]; [|lia].
      rewrite Z.pow_neg_r in H2 by lia. rewrite Z.mod_0_l in H2 by lia. discriminate. }
    assert (Hr := Z.mod_pos_bound e f Hf).
    replace (Z.gcd e f) with (Z.gcd f (e mod f))
      by (rewrite Z.gcd_comm, Z.gcd_mod by lia; apply Z.gcd_comm).
    apply IH; [lia|lia|exact H2|].
    (* a^(e mod f) = 1 *)
    assert (Hq : 0 <= e / f) by (apply Z.div_pos; lia).
    assert (Hsplit : a ^ e = a ^ (f * (e / f)) * a ^ (e mod f)).
    { rewrite <- Z.pow_add_r by (try apply Z.mul_nonneg_nonneg; lia).
      f_equal. apply Z_div_mod_eq_full. }
    rewrite Hsplit in H1.
    rewrite <- Z.mul_mod_idemp_l in H1 by lia.
    rewrite (pow_one_mul m a f (e / f)) in H1 by (assumption || lia).
    now rewrite Z.mul_1_l in H1.
Qed.

(* --- soundness --- *)

Lemma mod_of_mod_divisor : forall p n x, 0 < p -> 0 < n -> (p | n) -> (x mod n) mod p = x mod p.
Proof. intros. symmetry. apply Zmod_div_mod; assumption. Qed.

Theorem lucas_sound_prop : forall n a qs,
  1 < n ->
  (forall r, prime r -> (r | n - 1) -> In r qs) ->
  a ^ (n - 1) mod n = 1 ->
  (forall q, In q qs -> Z.gcd (a ^ ((n - 1) / q) mod n - 1) n = 1) ->
  prime n.
Proof.
  intros n a qs Hn Hcomplete Hone Hwit.
  destruct (prime_divisor_exists n Hn) as [p [Hp Hpn]].
  assert (Hp1 : 1 < p) by (apply prime_gt1; exact Hp).
  assert (Hple : p <= n) by (apply Z.divide_pos_le; [lia|exact Hpn]).
  (* everything transported mod p *)
  assert (Honep : a ^ (n - 1) mod p = 1).
  { rewrite <- (mod_of_mod_divisor p n) by (assumption || lia).
    rewrite Hone. apply Z.mod_small. lia. }
  assert (Hap : a mod p <> 0).
  { intros H0. rewrite Zpower_mod in Honep by lia. rewrite H0 in Honep.
    rewrite Z.pow_0_l in Honep by lia. rewrite Z.mod_0_l in Honep by lia. discriminate. }
  assert (Hferm : a ^ (p - 1) mod p = 1) by (apply fermat_pm1; assumption).
  set (g := Z.gcd (n - 1) (p - 1)).
  assert (Hg : a ^ g mod p = 1) by (apply pow_one_gcd; (assumption || lia)).
  assert (Hgn : (g | n - 1)) by apply Z.gcd_divide_l.
  assert (Hgp : (g | p - 1)) by apply Z.gcd_divide_r.
  assert (Hg0 : 0 <= g) by apply Z.gcd_nonneg.
  clearbody g.
  assert (Hgpos : 0 < g).
  { destruct (Z.eq_dec g 0) as [E|]; [|lia]. rewrite E in Hgn.
    apply Z.divide_0_l in Hgn. lia. }
  destruct (Z.eq_dec g (n - 1)) as [Heq|Hne].
  - (* n - 1 | p - 1, so p = n *)
    rewrite Heq in Hgp. apply Z.divide_pos_le in Hgp; [|lia].
    replace n with p by lia. exact Hp.
  - exfalso.
    destruct Hgn as [k Hk].
    assert (Hk1 : 1 < k).
    { assert (Hc : k <= 0 \/ k = 1 \/ 1 < k) by lia. destruct Hc as [Hc|[Hc|Hc]]; [nia|subst k; lia|exact Hc]. }
    destruct (prime_divisor_exists k Hk1) as [r [Hr Hrk]].
    assert (Hr1 : 1 < r) by (apply prime_gt1; exact Hr).
    destruct Hrk as [k' Hk'].
    assert (Hk'0 : 0 < k').
    { assert (Hc : k' <= 0 \/ 0 < k') by lia. destruct Hc as [Hc|Hc]; [nia|exact Hc]. }
    assert (Hin : In r qs).
    { apply Hcomplete; [exact Hr|]. exists (k' * g). rewrite Hk, Hk'. ring. }
    assert (Hquo : (n - 1) / r = g * k').
    { rewrite Hk, Hk'. replace (k' * r * g) with (g * k' * r) by ring.
      apply Z.div_mul. lia. }
    specialize (Hwit r Hin). rewrite Hquo in Hwit.
    assert (Hpow : a ^ (g * k') mod p = 1) by (apply pow_one_mul; (assumption || lia)).
    assert (Hdiv : (p | a ^ (g * k') mod n - 1)).
    { apply Z.mod_divide; [lia|].
      rewrite Zminus_mod. rewrite mod_of_mod_divisor by (assumption || lia).
      rewrite Hpow. rewrite (Z.mod_small 1 p) by lia. rewrite Z.sub_diag.
      apply Z.mod_0_l. lia. }
    assert (Hd1 : (p | 1)).
    { rewrite <- Hwit. apply Z.gcd_greatest; assumption. }
    apply Z.divide_1_r_nonneg in Hd1; lia.
Qed.

Theorem lucas_check_sound : forall n a qs,
  lucas_check n a qs = true -> (forall q, In q qs -> prime q) -> prime n.
Proof.
  intros n a qs H Hqs. unfold lucas_check in H.
  apply andb_prop in H. destruct H as [H Hw].
  apply andb_prop in H. destruct H as [H Hone].
  apply andb_prop in H. destruct H as [Hn Hstrip].
  apply Z.ltb_lt in Hn. apply Z.eqb_eq in Hstrip. apply Z.eqb_eq in Hone.
  rewrite zpow_mod_spec in Hone by lia.
  apply (lucas_sound_prop n a qs Hn).
  - intros r Hr Hd. eapply strip_all_complete; eassumption.
  - exact Hone.
  - intros q Hq. rewrite forallb_forall in Hw. specialize (Hw q Hq).
    unfold lucas_witness in Hw. apply Z.eqb_eq in Hw.
    assert (Hq1 : 1 < q) by (apply prime_gt1, Hqs, Hq).
    rewrite zpow_mod_spec in Hw; [exact Hw|lia|].
    apply Z.div_pos; lia.
Qed.

(* ================= certificates ================= *)

Ltac by_trial := apply trial_check_sound; vm_compute; reflexivity.

Lemma prime_3 : prime 3.  Proof. by_trial. Qed.
Lemma prime_5 : prime 5.  Proof. by_trial. Qed.
Lemma prime_13 : prime 13.  Proof. by_trial. Qed.
Lemma prime_17 : prime 17.  Proof. by_trial. Qed.
Lemma prime_29 : prime 29.  Proof. by_trial. Qed.
Lemma prime_181 : prime 181.  Proof. by_trial. Qed.
Lemma prime_257 : prime 257.  Proof. by_trial. Qed.
Lemma prime_37957 : prime 37957.  Proof. by_trial. Qed.
Lemma prime_65537 : prime 65537.  Proof. by_trial. Qed.
Lemma prime_286619 : prime 286619.  Proof. by_trial. Qed.
Lemma prime_11394379 : prime 11394379.  Proof. by_trial. Qed.
Lemma prime_18053749339 : prime 18053749339.  Proof. by_trial. Qed.

Ltac all_in_prime :=
  let q := fresh "q" in let H := fresh "H" in
  intros q H; cbn [In] in H;
  repeat (destruct H as [H|H]; [subst q; first
    [ exact prime_2 | exact prime_3 | exact prime_5 | exact prime_13 | exact prime_17
    | exact prime_29 | exact prime_181 | exact prime_257 | exact prime_37957
    | exact prime_65537 | exact prime_286619 | exact prime_11394379
    | exact prime_18053749339 ] | ]);
  contradiction.

(* P64 - 1 = 2^32 * 3 * 5 * 17 * 257 * 65537, witness 7 *)
Theorem P64_prime : Znumtheory.prime P64.
Proof.
  apply (lucas_check_sound P64 7 (2 :: 3 :: 5 :: 17 :: 257 :: 65537 :: nil)).
  - vm_compute. reflexivity.
  - all_in_prime.
Qed.

(* P62 - 1 = 2^39 * 13 * 17 * 37957, witness 3 *)
Theorem P62_prime : Znumtheory.prime P62.
Proof.
  apply (lucas_check_sound P62 3 (2 :: 13 :: 17 :: 37957 :: nil)).
  - vm_compute. reflexivity.
  - all_in_prime.
Qed.

(* P128 - 1 = 2^40 * 29 * 181 * 286619 * 11394379 * 18053749339, witness 3 *)
Theorem P128_prime : Znumtheory.prime P128.
Proof.
  apply (lucas_check_sound P128 3
           (2 :: 29 :: 181 :: 286619 :: 11394379 :: 18053749339 :: nil)).
  - vm_compute. reflexivity.
  - all_in_prime.
Qed.

(* the checkers do reject composites (they are not constantly true) *)
Example trial_check_rejects : trial_check 18053749341 = false.   (* = 3 * 6017916447 *)
Proof. vm_compute. reflexivity. Qed.
Example lucas_check_rejects : lucas_check (P64 + 2) 7 (2 :: 3 :: 5 :: 17 :: 257 :: 65537 :: nil) = false.
Proof. vm_compute. reflexivity. Qed.

Print Assumptions trial_check_sound.
Print Assumptions lucas_check_sound.
Print Assumptions P64_prime.
Print Assumptions P62_prime.
Print Assumptions P128_prime.
