(* C15 — folding over a whole coset and the remainder interpolation.
   * coefficient-level uniqueness of interpolation;
   * fft_rec (the model's radix-2 inverse FFT used by set_remainder) = idft;
   * apply_drp on the evaluations of f over offset*<g> returns the evaluations of sum_j alpha^j f_j over the
     folded coset, in the order the code produces; the re-labelled view (the code keeps calling the next
     points offset * g_next^i) is the evaluation of [fold_next] over offset*<g_next>;
   * interpolate_poly_with_offset on the evaluations of a polynomial returns its coefficients.
   Any field with FLaws and the root-of-unity family of Proofs/FriRoots.v.  stdlib style. *)
From Coq Require Import List Arith Bool Lia Ring Field.
From VBase Require Import FieldOps.
From VModel Require Import Fri.
From VProofs Require Import FriIdx FriField FriInterp FriRoots.
Import ListNotations.

Section Coset.
Context {F : Type} (O : FOps F) (L : FLaws O).
Add Ring FringC : (FLaws_ring_theory O L).
Add Field FfieldC : (FLaws_field_theory O L).

Local Notation zero := (fzero O).
Local Notation one := (fone O).
Local Infix "+f" := (fadd O) (at level 50, left associativity).
Local Infix "-f" := (fsub O) (at level 50, left associativity).
Local Infix "*f" := (fmul O) (at level 40, left associativity).
Local Notation "-f x" := (fneg O x) (at level 35, right associativity).
Local Notation peval := (peval O).
Local Notation fpow := (fpow O).

(* ---------------------------------------------------------------- coefficient-level uniqueness *)
Lemma quot_zero r : forall p, Forall (eq zero) (quot O p r) -> peval p r = zero -> Forall (eq zero) p.
Proof.
  induction p as [|c t IH]; intros Hq Hp; [constructor|]. destruct t as [|d t'].
  - constructor; [|constructor]. cbn in Hp. rewrite <- Hp. ring.
  - change (quot O (c :: d :: t') r) with (peval (d :: t') r :: quot O (d :: t') r) in Hq.
    inversion Hq as [|? ? Hh Ht]; subst. specialize (IH Ht (eq_sym Hh)).
    constructor; [|assumption]. cbn [Fri.peval] in Hp |- *. cbn [Fri.peval] in Hh. rewrite <- Hp, <- Hh. ring.
Qed.

Theorem roots_coeffs_zero : forall xs p, length p <= length xs -> NoDup xs ->
  (forall x, In x xs -> peval p x = zero) -> Forall (eq zero) p.
Proof.
  induction xs as [|r xs IH]; intros p Hlen Hnd Hroots.
  - destruct p; [constructor | cbn in Hlen; lia].
  - inversion Hnd as [|? ? Hnotin Hnd']; subst.
    apply (quot_zero r); [|apply Hroots; now left].
    apply IH; [rewrite (quot_length O); cbn [length] in Hlen; lia | assumption |].
    intros x Hx. pose proof (Hroots x (or_intror Hx)) as Hz.
    rewrite (quot_spec O L p r x), (Hroots r (or_introl eq_refl)) in Hz.
    replace ((x -f r) *f peval (quot O p r) x +f zero) with ((x -f r) *f peval (quot O p r) x) in Hz by ring.
    apply (fmul_integral O L) in Hz. destruct Hz as [Hz|Hz]; [|assumption].
    apply (fsub_zero O L) in Hz. subst. contradiction.
Qed.

Lemma all_zero_repeat : forall l : list F, Forall (eq zero) l -> l = repeat zero (length l).
Proof. induction 1 as [|x l Hx _ IH]; [reflexivity|]. cbn [length repeat]. now rewrite <- Hx, <- IH. Qed.

Lemma padd_diff_zero : forall p q, length q <= length p ->
  Forall (eq zero) (padd O p (pscale O (-f one) q)) -> p = q ++ repeat zero (length p - length q).
Proof.
  induction p as [|a p IH]; intros [|b q] Hlen H; cbn [length] in *; try lia.
  - reflexivity.
  - cbn [pscale map padd] in H. cbn [app Nat.sub]. apply (all_zero_repeat (a :: p) H).
  - cbn [pscale map padd] in H. inversion H as [|? ? Hh Ht]; subst. cbn [app Nat.sub]. f_equal.
    + apply (fsub_zero O L). rewrite Hh. ring.
    + apply IH; [lia | exact Ht].
Qed.

Theorem interp_unique_coeffs : forall xs p q, length p <= length xs -> length q <= length p -> NoDup xs ->
  (forall x, In x xs -> peval p x = peval q x) -> p = q ++ repeat zero (length p - length q).
Proof.
  intros xs p q Hp Hq Hnd Hag. apply padd_diff_zero; [assumption|].
  apply (roots_coeffs_zero xs); [rewrite (padd_length O), (pscale_length O); lia | assumption |].
  intros x Hx. rewrite (peval_padd O L), (peval_pscale O L), (Hag x Hx). ring.
Qed.

(* ---------------------------------------------------------------- list helpers *)
Lemma map2_map_same {A B C D} (h : B -> C -> D) (f : A -> B) (g : A -> C) (l : list A) :
  map2 h (map f l) (map g l) = map (fun i => h (f i) (g i)) l.
Proof. induction l; cbn [map map2]; [reflexivity | now rewrite IHl]. Qed.

Lemma map_seq_shift {A} (f : nat -> A) a n : map f (seq a n) = map (fun i => f (a + i)) (seq 0 n).
Proof.
  revert a. induction n as [|n IH]; intros a; cbn [seq map]; [reflexivity|].
  rewrite Nat.add_0_r. f_equal. rewrite IH, <- seq_shift, map_map. apply map_ext. intros i. f_equal. lia.
Qed.

Lemma log2_pow2 k : Nat.log2 (2 ^ k) = k.
Proof. apply Nat.log2_pow2. lia. Qed.

Lemma is_pow2_pow2 k : is_pow2 (2 ^ k) = true.
Proof.
  unfold is_pow2. rewrite log2_pow2, Nat.eqb_refl, andb_true_r. apply Nat.ltb_lt.
  assert (2 ^ k <> 0) by (apply Nat.pow_nonzero; lia). lia.
Qed.

(* ---------------------------------------------------------------- fft_rec = idft *)
Lemma split_eo_cons2 (a b : F) t :
  split_eo (a :: b :: t) = (a :: fst (split_eo t), b :: snd (split_eo t)).
Proof. cbn [split_eo]. now destruct (split_eo t). Qed.

Lemma split_eo_length : forall n (l : list F), length l = 2 * n ->
  length (fst (split_eo l)) = n /\ length (snd (split_eo l)) = n.
Proof.
  induction n as [|n IH]; intros l H.
  - destruct l; [split; reflexivity | cbn in H; lia].
  - destruct l as [|a [|b t]]; cbn [length] in H; try lia.
    rewrite split_eo_cons2. cbn [fst snd length]. destruct (IH t ltac:(lia)). split; lia.
Qed.

Lemma peval_split : forall n (l : list F) x, length l = 2 * n ->
  peval l x = peval (fst (split_eo l)) (x *f x) +f x *f peval (snd (split_eo l)) (x *f x).
Proof.
  induction n as [|n IH]; intros l x H.
  - destruct l; [cbn; ring | cbn in H; lia].
  - destruct l as [|a [|b t]]; cbn [length] in H; try lia.
    rewrite split_eo_cons2. cbn [fst snd Fri.peval]. rewrite (IH t x) by lia. ring.
Qed.

Lemma idft_map N w l : idft O N w l = map (fun i => peval l (fpow w i)) (seq 0 N).
Proof.
  unfold idft. rewrite (power_series_from_map O L), map_map. apply map_ext. intros i. f_equal. ring.
Qed.

Theorem fft_rec_idft : forall k w l, length l = 2 ^ k ->
  (k = 0 \/ fpow w (2 ^ (k - 1)) = -f one) -> fft_rec O k w l = idft O (2 ^ k) w l.
Proof.
  induction k as [|k IH]; intros w l Hlen Hw.
  - destruct l as [|a [|b t]]; cbn in Hlen; try lia. cbn. f_equal. ring.
  - destruct Hw as [Hw|Hw]; [lia|]. replace (S k - 1) with k in Hw by lia.
    cbn [fft_rec]. destruct (split_eo l) as [e o] eqn:Hs.
    assert (Hl2 : length l = 2 * 2 ^ k) by (rewrite Hlen; cbn; lia).
    destruct (split_eo_length (2 ^ k) l Hl2) as [He Ho]. rewrite Hs in He, Ho. cbn [fst snd] in He, Ho.
    assert (Hw2 : k = 0 \/ fpow (w *f w) (2 ^ (k - 1)) = -f one).
    { destruct k as [|k']; [now left | right]. replace (S k' - 1) with k' by lia.
      rewrite (fpow_sq O L). rewrite <- Hw. f_equal; cbn; lia. }
    rewrite (IH (w *f w) e He Hw2), (IH (w *f w) o Ho Hw2).
    rewrite !idft_map, (power_series_from_map O L), !map2_map_same.
    replace (2 ^ S k) with (2 ^ k + 2 ^ k) by (cbn; lia).
    rewrite seq_app, map_app. cbn [Nat.add]. rewrite (map_seq_shift _ (2 ^ k)).
    pose proof (peval_split (2 ^ k) l) as PS. rewrite Hs in PS. cbn [fst snd] in PS.
    f_equal; apply map_ext; intros i.
    + rewrite (PS (fpow w i) Hl2), (fpow_mul_base O L). ring.
    + rewrite (PS (fpow w (2 ^ k + i)) Hl2), (fpow_add O L), Hw, !(fpow_mul_base O L).
      replace (-f one *f fpow w i *f (-f one *f fpow w i)) with (fpow w i *f fpow w i) by ring. ring.
Qed.

(* ---------------------------------------------------------------- chunks of a coefficient list *)
Lemma chunks_exact : forall m N (l : list F) fuel, N <> 0 -> length l = m * N -> length l <= fuel ->
  concat (chunks fuel N l) = l /\ Forall (fun c => length c = N) (chunks fuel N l) /\ length (chunks fuel N l) = m.
Proof.
  induction m as [|m IH]; intros N l fuel HN Hlen Hf.
  - destruct l; [|cbn in Hlen; lia]. destruct fuel; cbn; auto.
  - destruct fuel as [|fuel]; [cbn in Hlen; lia|]. destruct l as [|a l']; [cbn in Hlen; lia|].
    cbn [chunks]. set (l := a :: l') in *.
    assert (Hs : length (skipn N l) = m * N) by (rewrite skipn_length, Hlen; cbn; lia).
    assert (Hfn : length (firstn N l) = N) by (rewrite firstn_length, Hlen; cbn; lia).
    destruct (IH N (skipn N l) fuel HN Hs) as [A [B C]].
    { rewrite Hs. cbn in Hlen. unfold l in Hf. cbn [length] in Hf. nia. }
    cbn [concat length]. rewrite A, firstn_skipn, C. repeat split; auto.
Qed.

Lemma peval_concat_chunks N y X : fpow y N = X -> forall cs, Forall (fun c => length c = N) cs ->
  peval (concat cs) y = peval (map (fun c => peval c y) cs) X.
Proof.
  intros HX. induction 1 as [|c cs Hc _ IH]; [reflexivity|].
  cbn [concat map Fri.peval]. rewrite (peval_app O L), Hc, HX, IH. reflexivity.
Qed.

(* ---------------------------------------------------------------- the root family *)
Variable rou : nat -> F.
Variable K : nat.
Hypothesis K_pos : 1 <= K.
Hypothesis rou_sq : forall k, k < K -> rou (S k) *f rou (S k) = rou k.
Hypothesis rou_1 : rou 1 = -f one.
Hypothesis two_nz : one +f one <> zero.

Definition coset_evals (P : list F) (offset g : F) (n : nat) : list F :=
  map (fun j => peval P (offset *f fpow g j)) (seq 0 n).

Lemma coset_evals_length P offset g n : length (coset_evals P offset g n) = n.
Proof. unfold coset_evals. now rewrite map_length, seq_length. Qed.

Lemma coset_evals_nth P offset g n j : j < n -> nth j (coset_evals P offset g n) zero = peval P (offset *f fpow g j).
Proof.
  intros Hj. unfold coset_evals.
  rewrite (nth_indep _ zero (peval P (offset *f fpow g 0))) by now rewrite map_length, seq_length.
  now rewrite (map_nth (fun j => peval P (offset *f fpow g j)) (seq 0 n) 0 j), seq_nth.
Qed.

Lemma get_rou_ok k : 1 <= k <= K -> get_rou rou K k = Ok (rou k).
Proof.
  intros H. unfold get_rou. destruct (k =? 0) eqn:E; [apply Nat.eqb_eq in E; lia|].
  destruct (K <? k) eqn:E2; [apply Nat.ltb_lt in E2; lia | reflexivity].
Qed.

Lemma inv_twiddle_root_ok k : 1 <= k <= K ->
  inv_twiddle_root O rou K (2 ^ k) = Ok (fpow (rou k) (2 ^ k - 1)).
Proof.
  intros H. unfold inv_twiddle_root. rewrite is_pow2_pow2, log2_pow2, get_rou_ok by assumption.
  cbn [negb bind]. now rewrite (fexp_spec O L).
Qed.

(* ---------------------------------------------------------------- apply_drp, row by row (any values) *)
Section Drp.
Variables rho f : nat.
Hypothesis f_pos : 1 <= f.
Hypothesis rf_le : rho + f <= K.
Local Notation r := (2 ^ rho).
Local Notation N := (2 ^ f).
Local Notation g := (rou (rho + f)).
Local Notation w := (rou f).
Local Notation winv := (fpow (rou f) (2 ^ f - 1)).

Lemma N_nonzero : N <> 0. Proof. apply Nat.pow_nonzero; lia. Qed.
Lemma r_nonzero : r <> 0. Proof. apply Nat.pow_nonzero; lia. Qed.

Theorem apply_drp_rows : forall E offset alpha, offset <> zero ->
  apply_drp O rou K N (map (row_of zero N r E) (seq 0 r)) offset alpha
  = Ok (map (fun i => drp_row O N winv (finv O (fnat O N)) (finv O (offset *f fpow g i)) alpha (row_of zero N r E i))
            (seq 0 r)).
Proof.
  intros E offset alpha Hoff. unfold apply_drp, get_inv_offsets.
  rewrite map_length, seq_length, <- Nat.pow_add_r.
  unfold ilog2. pose proof (Nat.pow_nonzero 2 (rho + f) ltac:(lia)) as Hnz.
  destruct (2 ^ (rho + f) =? 0) eqn:E0; [apply Nat.eqb_eq in E0; lia|]. cbn [bind].
  rewrite log2_pow2, get_rou_ok by lia. cbn [bind].
  rewrite inv_twiddle_root_ok by lia. cbn [bind]. f_equal.
  rewrite (power_series_from_map O L). rewrite <- (map_id (seq 0 r)) at 1.
  rewrite map_map, map2_map_same. apply map_ext_in. intros i Hi. f_equal.
  assert (Hg : g <> zero) by (apply (rou_nonzero O L rou K K_pos rou_sq rou_1); lia).
  pose proof (fpow_nonzero O L g i Hg).
  assert (G : forall n, fpow (finv O g) n = finv O (fpow g n)).
  { induction n as [|n IHn]; cbn [Fri.fpow]; [field; apply (fl_one_neq_zero O L)|].
    rewrite IHn. pose proof (fpow_nonzero O L g n Hg). field. split; assumption. }
  rewrite G. field. split; assumption.
Qed.

(* the values apply_drp puts into the next layer are, row by row, what the verifier recomputes *)
Lemma w_pow : fpow w N = one. Proof. apply (rou_order O L rou K K_pos rou_sq rou_1). lia. Qed.
Lemma w_prim : forall d, 0 < d < N -> fpow w d <> one.
Proof. apply (rou_prim O L rou K K_pos rou_sq rou_1 two_nz). lia. Qed.
Lemma w_inv : w *f winv = one. Proof. apply (rou_inv O L rou K K_pos rou_sq rou_1). lia. Qed.
Lemma g_pow_r : fpow g r = w. Proof. apply (rou_pow2 O L rou K K_pos rou_sq). lia. Qed.

Lemma row_of_coset P offset i : i < r ->
  row_of zero N r (coset_evals P offset g (r * N)) i = map (peval P) (row_nodes O N w (offset *f fpow g i)).
Proof.
  intros Hi. unfold row_of, row_nodes. rewrite map_map. apply map_ext_in. intros j Hj. apply in_seq in Hj.
  rewrite coset_evals_nth by nia. f_equal.
  rewrite (fpow_add O L), Nat.mul_comm, (fpow_mul O L), g_pow_r. ring.
Qed.

(* (1) apply_drp over the whole coset: for f = concat cs (coefficient chunks of length N, i.e.
   f(y) = sum_m y^(mN) c_m(y)), the output is the list of evaluations of the folded polynomial
   sum_m X^m c_m(alpha) = sum_j alpha^j f_j(X) at the folded points X_i = (offset g^i)^N, i = 0 .. r-1 *)
Theorem apply_drp_coset : forall cs offset alpha, offset <> zero -> Forall (fun c => length c = N) cs ->
  let P := concat cs in
  let evals := coset_evals P offset g (r * N) in
  transpose_slice zero N evals = Ok (map (row_of zero N r evals) (seq 0 r)) /\
  apply_drp O rou K N (map (row_of zero N r evals) (seq 0 r)) offset alpha
  = Ok (map (fun i => peval (map (fun c => peval c alpha) cs) (fpow (offset *f fpow g i) N)) (seq 0 r)).
Proof.
  intros cs offset alpha Hoff Hcs P evals. split.
  - apply transpose_slice_rows; [apply N_nonzero | unfold evals; now rewrite coset_evals_length].
  - rewrite apply_drp_rows by assumption. f_equal. apply map_ext_in. intros i Hi. apply in_seq in Hi.
    assert (Hg : g <> zero) by (apply (rou_nonzero O L rou K K_pos rou_sq rou_1); lia).
    assert (Hx : offset *f fpow g i <> zero).
    { intros Hz. apply (fmul_integral O L) in Hz. destruct Hz; [contradiction|]. now apply (fpow_nonzero O L g i Hg). }
    unfold evals. rewrite row_of_coset by lia.
    set (x := offset *f fpow g i) in *.
    set (A := fold_slices O (fpow x N) cs).
    assert (EA : map (peval P) (row_nodes O N w x) = map (peval A) (row_nodes O N w x)).
    { unfold row_nodes. rewrite !map_map. apply map_ext. intros j. unfold P, A.
      rewrite (peval_fold_slices O L).
      apply (peval_concat_chunks N); [|assumption]. apply (row_point_pow O L N w w_pow). }
    rewrite EA, (drp_row_identity O L N w winv w_pow w_prim w_inv (fnat_pow2_nonzero O L K K_pos two_nz f)).
    + unfold A. apply (peval_fold_slices O L).
    + assumption.
    + unfold A. apply fold_slices_length. intros c Hc. rewrite Forall_forall in Hcs. now rewrite (Hcs c Hc).
Qed.

(* the re-labelled view: the code calls the points of the next layer offset * g_next^i *)
Definition fold_next (alpha offset : F) (P : list F) : list F :=
  scale_series O (map (fun c => peval c alpha) (chunks (length P) N P)) one (fpow offset (N - 1)).

Lemma scale_series_length : forall (v : list F) a b, length (scale_series O v a b) = length v.
Proof. induction v; intros; cbn [scale_series length]; auto. Qed.

Lemma fold_next_length alpha offset P m : length P = m * N -> length (fold_next alpha offset P) = m.
Proof.
  intros H. unfold fold_next. rewrite scale_series_length, map_length.
  now destruct (chunks_exact m N P (length P) N_nonzero H (le_n _)) as [_ [_ C]].
Qed.

Theorem apply_drp_coset_relabelled : forall P m offset alpha, offset <> zero -> length P = m * N ->
  let evals := coset_evals P offset g (r * N) in
  apply_drp O rou K N (map (row_of zero N r evals) (seq 0 r)) offset alpha
  = Ok (coset_evals (fold_next alpha offset P) offset (rou rho) r).
Proof.
  intros P m offset alpha Hoff Hlen evals.
  destruct (chunks_exact m N P (length P) N_nonzero Hlen (le_n _)) as [A [B _]].
  pose proof (apply_drp_coset (chunks (length P) N P) offset alpha Hoff B) as [_ H].
  cbv zeta in H. rewrite A in H. unfold evals. rewrite H. f_equal. unfold coset_evals.
  apply map_ext. intros i. unfold fold_next. rewrite (peval_scale_series O L).
  replace (one *f peval (map (fun c => peval c alpha) (chunks (length P) N P)) (fpow offset (N - 1) *f (offset *f fpow (rou rho) i)))
    with (peval (map (fun c => peval c alpha) (chunks (length P) N P)) (fpow offset (N - 1) *f (offset *f fpow (rou rho) i))) by ring.
  f_equal. rewrite (fpow_mul_base O L).
  pose proof N_nonzero. replace N with (S (N - 1)) at 1 by lia. cbn [Fri.fpow].
  rewrite <- (fpow_mul O L), (Nat.mul_comm i), (fpow_mul O L).
  replace (fpow g N) with (rou rho); [ring|].
  symmetry. rewrite Nat.add_comm. apply (rou_pow2 O L rou K K_pos rou_sq). lia.
Qed.

End Drp.

(* ---------------------------------------------------------------- (2) the remainder interpolation *)
Theorem interpolate_coset : forall mu P offset, 1 <= mu <= K -> offset <> zero -> length P <= 2 ^ mu ->
  interpolate_poly_with_offset O rou K (coset_evals P offset (rou mu) (2 ^ mu)) offset
  = Ok (P ++ repeat zero (2 ^ mu - length P)).
Proof.
  intros mu P offset Hmu Hoff HP. unfold interpolate_poly_with_offset.
  rewrite coset_evals_length, inv_twiddle_root_ok by assumption. cbn [bind].
  destruct (feqb O offset zero) eqn:E; [apply (fl_eqb_spec O L) in E; contradiction|].
  f_equal. rewrite log2_pow2.
  set (m := 2 ^ mu). set (w := rou mu). set (winv := fpow w (m - 1)).
  set (evals := coset_evals P offset w m).
  assert (Hm : m <> 0) by (apply Nat.pow_nonzero; lia).
  assert (Wp : fpow w m = one) by (apply (rou_order O L rou K K_pos rou_sq rou_1); lia).
  assert (Wi : w *f winv = one) by (apply (rou_inv O L rou K K_pos rou_sq rou_1); lia).
  assert (Wprim : forall d, 0 < d < m -> fpow w d <> one) by (apply (rou_prim O L rou K K_pos rou_sq rou_1 two_nz); lia).
  (* fft_rec = idft *)
  rewrite (fft_rec_idft mu winv evals).
  2:{ unfold evals. apply coset_evals_length. }
  2:{ right. unfold winv, w. rewrite <- (fpow_mul O L), Nat.mul_comm, (fpow_mul O L).
      rewrite (rou_half O L rou K K_pos rou_sq rou_1) by assumption.
      assert (Hh : 2 ^ (mu - 1) <> 0) by (apply Nat.pow_nonzero; lia).
      replace (m - 1) with (2 * (2 ^ (mu - 1) - 1) + 1).
      - apply (fpow_neg1_odd O L).
      - assert (Hm2 : 2 ^ mu = 2 * 2 ^ (mu - 1)) by (replace mu with (S (mu - 1)) at 1 by lia; reflexivity).
        unfold m. lia. }
  fold m.
  set (C := scale_series O (idft O m winv evals) (finv O (fnat O m)) (finv O offset)).
  assert (LC : length C = m) by (unfold C; rewrite scale_series_length; apply (idft_length O L)).
  replace (m - length P) with (length C - length P) by (rewrite LC; reflexivity).
  apply (interp_unique_coeffs (row_nodes O m w offset)).
  - rewrite (row_nodes_length O), LC. lia.
  - lia.
  - apply (row_nodes_NoDup O L m w winv Wprim Wi). assumption.
  - intros x Hx. unfold row_nodes in Hx. apply in_map_iff in Hx. destruct Hx as [j [<- Hj]]. apply in_seq in Hj.
    unfold C. rewrite (row_poly_interpolates O L m w winv Wp Wprim Wi offset evals j Hoff).
    + unfold evals. apply coset_evals_nth. lia.
    + apply (fnat_pow2_nonzero O L K K_pos two_nz).
    + unfold evals. apply coset_evals_length.
    + lia.
Qed.

End Coset.
