(* C01 — non-vacuity of the Lagrange round: over Z/17, n = 8 = 2^3, g = 2, r = (2, 3, 5): the honest kernel column
   (9,16,12,10,10,14,2,13) is interpolated by Lp = 15 + 12x^2 + x^3 + 6x^4 + 11x^5 + 2x^6 + 13x^7, so the hypotheses of
   honest_numer_vanishes / honest_first_cell / honest_lagrange_term_is_poly are satisfiable and the Lagrange quotients exist. *)
From Coq Require Import List Arith Bool Lia ZArith.
From VBase Require Import MachInt FieldOps ZpOps.
From VModel Require Import Stark StarkLagrange.
From VModel Require EnforceLagrange.
From VProofs Require Import ZpLaws StarkPoly StarkExamples StarkLagrangeRows CompositionLagrangePoly.
Import ListNotations.

Definition rr17 : list (Zp 17%Z) := [e17 2%Z; e17 3%Z; e17 5%Z].
Definition Lp17 : list (Zp 17%Z) := map e17 [15; 0; 12; 1; 6; 11; 2; 13]%Z.

Lemma Lp17_honest : forall i, i < 8 -> Composition.peval O17 Lp17 (Composition.cpow O17 g17 i) = nth i (StarkLagrangeRows.kernel_col O17 3 rr17) (fzero O17).
Proof.
  intros i Hi. do 8 (destruct i as [|i]; [apply (proj1 (fl_eqb_spec O17 L17 _ _)); vm_compute; reflexivity|]). lia.
Qed.

Example lagrange_honest_nonvacuous :
  (forall idx j, idx < 3 -> j < 2 ^ idx ->
     Composition.peval O17 (lag_numer_poly O17 3 g17 Lp17 rr17 idx) (Composition.cpow O17 (hsub O17 3 g17 idx) j) = fzero O17) /\
  Composition.peval O17 Lp17 (fone O17) = EnforceLagrange.lag_assertion_value O17 rr17 /\
  (forall idx, idx < 3 -> exists q, length q = 8 - 2 ^ idx /\
     forall x, Composition.peval O17 (lag_numer_poly O17 3 g17 Lp17 rr17 idx) x
               = fmul O17 (fsub O17 (Composition.cpow O17 x (2 ^ idx)) (fone O17)) (Composition.peval O17 q x)).
Proof.
  split; [|split].
  - exact (honest_numer_vanishes O17 L17 8 3 g17 eq_refl rr17 eq_refl Lp17 Lp17_honest).
  - exact (honest_first_cell O17 L17 8 3 g17 eq_refl rr17 eq_refl Lp17 Lp17_honest ltac:(lia)).
  - intros idx Hi. exact (honest_lagrange_term_is_poly O17 L17 8 3 g17 eq_refl rr17 eq_refl Lp17 Lp17_honest g17_primitive idx Hi).
Qed.

(* ---- the NON-STAGE hypotheses of C01_stark_complete_lagrange(_partial) are jointly satisfiable: Z/17, n = 8 = 2^3, g = 2, the constant
   column T5 with the AIR air5 of Proofs/StarkExamples.v as ordinary part (quotient Qc = 0), the honest kernel column above, Lagrange
   constraints of the shape LagrangeKernelTransitionConstraints::new builds, z = 6, query points 3 and 5 (none of the opening points
   6, 12, 7, 11 of the kernel column); consequence: the Lagrange part of the composition polynomial exists with at most 8 coefficients *)
From VModel Require Enforce.
From VProofs Require Import StarkLagrange.
Definition lc17 : @LagC (Zp 17%Z) :=
  mkLagC (EnforceLagrange.mkLTC [e17 3%Z; e17 4%Z; e17 9%Z]
            [Enforce.mkD [(1%Z, fone O17)] []; Enforce.mkD [(2%Z, fone O17)] []; Enforce.mkD [(4%Z, fone O17)] []])
         rr17 (e17 10%Z).

Example lagrange_capstone_hyps_nonvacuous :
  8 = 2 ^ 3 /\ 2 <= 3 /\ 3 < 64 /\ primitive_root O17 g17 8 /\ 8 * 1 <= 16 /\
  [T5] <> [] /\ Forall (fun p : list (Zp 17%Z) => length p = 8) [T5] /\ length Lp17 = 8 /\
  (forall x, ~ In x (domain O17 g17 8) -> air5 x (evals O17 [T5] x) (evals O17 [T5] (fmul O17 x g17)) = peval O17 [] x) /\
  length (EnforceLagrange.l_coef (lc_t lc17)) = 3 /\ length (lc_rr lc17) = 3 /\ length (EnforceLagrange.l_div (lc_t lc17)) = 3 /\
  (forall idx, idx < 3 -> nth idx (EnforceLagrange.l_div (lc_t lc17)) (Enforce.mkD [] []) = Enforce.mkD [((2 ^ Z.of_nat idx)%Z, fone O17)] []) /\
  (forall i, i < 8 -> peval O17 Lp17 (fpow O17 g17 i) = nth i (StarkLagrange.kernel_col O17 (lc_rr lc17) 3) (fzero O17)) /\
  ~ In (c_z coin5) (domain O17 g17 8) /\ c_z coin5 <> fzero O17 /\ fmul O17 (c_z coin5) g17 <> fzero O17 /\
  NoDup (c_xs coin5) /\ c_xs coin5 <> [] /\ length (c_xs coin5) <= 255 /\
  (forall x, In x (c_xs coin5) -> ~ In x (lag_pts O17 g17 (c_z coin5) 3)) /\
  exists Ql, length Ql <= 8 /\
    forall x, ~ In x (domain O17 g17 8) -> lag_tot O17 lc17 (lag_frame O17 g17 3 Lp17 x) x = peval O17 Ql x.
Proof.
  assert (Hdiv : forall idx, idx < 3 -> nth idx (EnforceLagrange.l_div (lc_t lc17)) (Enforce.mkD [] []) = Enforce.mkD [((2 ^ Z.of_nat idx)%Z, fone O17)] []).
  { intros idx Hi. do 3 (destruct idx as [|idx]; [reflexivity|]). lia. }
  assert (Hhon : forall i, i < 8 -> peval O17 Lp17 (fpow O17 g17 i) = nth i (StarkLagrange.kernel_col O17 (lc_rr lc17) 3) (fzero O17)).
  { intros i Hi. exact (Lp17_honest i Hi). }
  assert (Hair : forall x, ~ In x (domain O17 g17 8) -> air5 x (evals O17 [T5] x) (evals O17 [T5] (fmul O17 x g17)) = peval O17 [] x).
  { intros x _. unfold air5. cbn [evals map nth]. rewrite !T5_eval. cbn [Stark.peval]. ring. }
  assert (Hz : ~ In (c_z coin5) (domain O17 g17 8)).
  { cbn [c_z coin5]. intros H. apply (In_domain O17) in H. destruct H as (i & Hi & E).
    do 8 (destruct i as [|i]; [zp_neq E|]). lia. }
  assert (Hz0 : c_z coin5 <> fzero O17) by (intros E; zp_neq E).
  assert (Hzg : fmul O17 (c_z coin5) g17 <> fzero O17) by (intros E; zp_neq E).
  assert (Hnd : NoDup (c_xs coin5)).
  { cbn [c_xs coin5]. constructor; [intros [E|[]]; zp_neq E | constructor; [intros [] | constructor]]. }
  assert (Hq : forall x, In x (c_xs coin5) -> ~ In x (lag_pts O17 g17 (c_z coin5) 3)).
  { cbn [c_xs c_z coin5]. unfold lag_pts. cbn [seq map]. intros x [<-|[<-|[]]] [E|[E|[E|[E|[]]]]]; zp_neq E. }
  assert (HT : Forall (fun p : list (Zp 17%Z) => length p = 8) [T5]) by (repeat constructor).
  assert (HTne : [T5] <> []) by discriminate.
  assert (Hxne : c_xs coin5 <> []) by discriminate.
  pose proof g17_primitive as Hg.
  repeat (split; [first [assumption | reflexivity | (simpl; lia)] |]).
  destruct (honest_lag_quotient O17 L17 8 3 g17 eq_refl g17_primitive lc17 eq_refl eq_refl eq_refl Hdiv ltac:(lia) Lp17 Hhon ltac:(lia))
    as (Ql & Hl & HQ).
  exists Ql. split; [exact Hl | exact HQ].
Qed.
