(* C01 — non-vacuity of the Lagrange round: over Z/17, n = 8 = 2^3, g = 2, r = (2, 3, 5): the honest kernel column
   (9,16,12,10,10,14,2,13) is interpolated by Lp = 15 + 12x^2 + x^3 + 6x^4 + 11x^5 + 2x^6 + 13x^7, so the hypotheses of
   honest_numer_vanishes / honest_first_cell / honest_lagrange_term_is_poly are satisfiable and the Lagrange quotients exist. *)
From Coq Require Import List Arith Bool Lia ZArith.
From VBase Require Import MachInt FieldOps ZpOps.
From VModel Require Import Stark StarkLagrange.
From VModel Require EnforceLagrange.
From VProofs Require Import ZpLaws StarkPoly StarkExamples StarkLagrangeRows CompositionLagrangePoly.
Import ListNotations.

Definition rr17 : list (Zp 17%Z) := [e17 2%Z; e17 3%Z; e17 5%Z].
Definition Lp17 : list (Zp 17%Z) := map e17 [15; 0; 12; 1; 6; 11; 2; 13]%Z.

Lemma Lp17_honest : forall i, i < 8 -> Composition.peval O17 Lp17 (Composition.cpow O17 g17 i) = nth i (StarkLagrangeRows.kernel_col O17 3 rr17) (fzero O17).
Proof.
  intros i Hi. do 8 (destruct i as [|i]; [apply (proj1 (fl_eqb_spec O17 L17 _ _)); vm_compute; reflexivity|]). lia.
Qed.

Example lagrange_honest_nonvacuous :
  (forall idx j, idx < 3 -> j < 2 ^ idx ->
     Composition.peval O17 (lag_numer_poly O17 3 g17 Lp17 rr17 idx) (Composition.cpow O17 (hsub O17 3 g17 idx) j) = fzero O17) /\
  Composition.peval O17 Lp17 (fone O17) = EnforceLagrange.lag_assertion_value O17 rr17 /\
  (forall idx, idx < 3 -> exists q, length q = 8 - 2 ^ idx /\
     forall x, Composition.peval O17 (lag_numer_poly O17 3 g17 Lp17 rr17 idx) x
               = fmul O17 (fsub O17 (Composition.cpow O17 x (2 ^ idx)) (fone O17)) (Composition.peval O17 q x)).
Proof.
  split; [|split].
  - exact (honest_numer_vanishes O17 L17 8 3 g17 eq_refl rr17 eq_refl Lp17 Lp17_honest).
  - exact (honest_first_cell O17 L17 8 3 g17 eq_refl rr17 eq_refl Lp17 Lp17_honest ltac:(lia)).
  - intros idx Hi. exact (honest_lagrange_term_is_poly O17 L17 8 3 g17 eq_refl rr17 eq_refl Lp17 Lp17_honest g17_primitive idx Hi).
Qed.
