(* C09: no slice access of fft_in_place / permute / the entry points is out of range.  The CHECKED model
   (Model/FFT.v, Section Checked: every values[i], twiddles[i], swap(i,j), the division by stride and the
   debug_asserts are guards returning None) returns `Some` of the total model under the asserts of the entry
   points, for EVERY size; consequently the checked entry points equal the option-valued entry points on ALL
   inputs, whose panic domain is exactly the failure of their asserts.  No field law is used.  stdlib style. *)
From Coq Require Import List Arith Bool ZArith Lia.
From VBase Require Import FieldOps.
From VModel Require Import FFT.
From VProofs Require Import FFTSpec FFTRefine FFTEval FFTSegments.
Import ListNotations.

Lemma fold_c_total {A B} (P : A -> Prop) (fc : A -> B -> option A) (f : A -> B -> A) : forall l a,
  (forall a b, In b l -> P a -> fc a b = Some (f a b) /\ P (f a b)) -> P a ->
  fold_c fc l a = Some (fold_left f l a) /\ P (fold_left f l a).
Proof.
  induction l as [|b l IH]; intros a H Ha; cbn [fold_c fold_left]; [auto|].
  destruct (H a b (or_introl eq_refl) Ha) as [E Pa]. rewrite E.
  apply IH; [intros; apply H; [right|]; assumption | exact Pa].
Qed.

Lemma is_pow2_inv n : is_pow2 n = true -> exists k, n = 2 ^ k.
Proof.
  unfold is_pow2. intros H. apply andb_prop in H. destruct H as [_ H]. apply Nat.eqb_eq in H.
  exists (Nat.log2 n). symmetry. exact H.
Qed.

Section NoPanic.
Context {F : Type} (O : FOps F).
Variable dbg : bool.
Local Notation fz := (fzero O).

Lemma butterfly_length v o s : length (butterfly O v o s) = length v.
Proof. unfold butterfly. rewrite !lupd_length. reflexivity. Qed.

Lemma butterfly_twiddle_length v t o s : length (butterfly_twiddle O v t o s) = length v.
Proof. unfold butterfly_twiddle. rewrite !lupd_length. reflexivity. Qed.

Lemma butterfly_c_total v o s : o + s < length v ->
  butterfly_c O v o s = Some (butterfly O v o s).
Proof.
  intros H. unfold butterfly_c.
  assert (E1 : (o <? length v) = true) by (apply Nat.ltb_lt; lia).
  assert (E2 : (o + s <? length v) = true) by (apply Nat.ltb_lt; lia).
  rewrite E1, E2. reflexivity.
Qed.

Lemma butterfly_twiddle_c_total v t o s : o + s < length v ->
  butterfly_twiddle_c O v t o s = Some (butterfly_twiddle O v t o s).
Proof.
  intros H. unfold butterfly_twiddle_c.
  assert (E1 : (o <? length v) = true) by (apply Nat.ltb_lt; lia).
  assert (E2 : (o + s <? length v) = true) by (apply Nat.ltb_lt; lia).
  rewrite E1, E2. reflexivity.
Qed.

Lemma fft_in_place_c_eq fuel v tw count s offset :
  fft_in_place_c O dbg fuel v tw count s offset =
    if s =? 0 then None
    else
      let size := length v / s in
      if dbg && negb (is_pow2 size && (offset <? s) && (length v mod size =? 0)) then None
      else
        let values1 :=
          if 2 <? size then
            match fuel with
            | 0 => None
            | S f =>
              if (s =? count) && (count <? MAX_LOOP) then fft_in_place_c O dbg f v tw (2 * count) (2 * s) offset
              else obind (fft_in_place_c O dbg f v tw count (2 * s) offset)
                         (fun v' => fft_in_place_c O dbg f v' tw count (2 * s) (offset + s))
            end
          else Some v in
        obind values1 (fun v1 =>
        obind (fold_c (fun v o => butterfly_c O v o s) (seq offset count) v1) (fun v2 =>
        fold_c
          (fun v i =>
             fold_c (fun v j => match nth_error tw i with
                                | Some t => butterfly_twiddle_c O v t j s
                                | None => None
                                end)
                    (seq (offset + i * (2 * s)) count) v)
          (seq 1 ((size + 1) / 2 - 1)) v2)).
Proof. destruct fuel; reflexivity. Qed.

(* the two loops never leave the slice *)
Lemma phase2_no_panic tw K v1 count s offset :
  0 < s -> length v1 = 2 ^ S K * s -> offset + count <= s -> 2 ^ K <= length tw ->
  obind (fold_c (fun v o => butterfly_c O v o s) (seq offset count) v1) (fun v2 =>
    fold_c
      (fun v i =>
         fold_c (fun v j => match nth_error tw i with
                            | Some t => butterfly_twiddle_c O v t j s
                            | None => None
                            end)
                (seq (offset + i * (2 * s)) count) v)
      (seq 1 (2 ^ K - 1)) v2)
  = Some (fold_left
            (fun v i => fold_left (fun v j => butterfly_twiddle O v (vget O tw i) j s)
                                  (seq (offset + i * (2 * s)) count) v)
            (seq 1 (2 ^ K - 1))
            (fold_left (fun v o => butterfly O v o s) (seq offset count) v1)).
Proof.
  intros Hs Hl Hoc Htw.
  assert (H2s : 2 * s <= length v1) by (rewrite Hl, pow2_S; pose proof (pow2_pos K); nia).
  destruct (fold_c_total (fun a => length a = length v1) (fun v o => butterfly_c O v o s)
              (fun v o => butterfly O v o s) (seq offset count) v1) as [E1 L1]; [| reflexivity |].
  { intros a o Ho Ha. apply in_seq in Ho. split; [apply butterfly_c_total; lia | rewrite butterfly_length; exact Ha]. }
  rewrite E1. cbn [obind].
  set (v2 := fold_left (fun v o => butterfly O v o s) (seq offset count) v1) in *.
  destruct (fold_c_total (fun a => length a = length v1)
              (fun v i => fold_c (fun v j => match nth_error tw i with
                                            | Some t => butterfly_twiddle_c O v t j s | None => None end)
                                 (seq (offset + i * (2 * s)) count) v)
              (fun v i => fold_left (fun v j => butterfly_twiddle O v (vget O tw i) j s)
                                    (seq (offset + i * (2 * s)) count) v)
              (seq 1 (2 ^ K - 1)) v2) as [E2 _]; [| exact L1 | exact E2].
  intros a i Hi Ha. apply in_seq in Hi.
  assert (Hit : i < length tw) by lia.
  rewrite (nth_error_nth' tw fz Hit).
  assert (Hblk : (2 * s) * (i + 1) <= length v1).
  { rewrite Hl, pow2_S. replace ((2 ^ K + 2 ^ K) * s) with ((2 * s) * 2 ^ K) by lia.
    apply Nat.mul_le_mono_l. lia. }
  apply (fold_c_total (fun a => length a = length v1)).
  - intros a' j Hj Ha'. apply in_seq in Hj. split.
    + apply butterfly_twiddle_c_total. rewrite Ha'. nia.
    + rewrite butterfly_twiddle_length. exact Ha'.
  - exact Ha.
Qed.

(* C09_fft_in_place_no_panic: every values[i] / twiddles[i] of fft_in_place is in range, every size, both strategies *)
Theorem fft_in_place_no_panic tw : forall K fuel v count s offset,
  K <= fuel -> 0 < s -> length v = 2 ^ S K * s -> offset < s -> offset + count <= s -> 2 ^ K <= length tw ->
  fft_in_place_c O dbg fuel v tw count s offset = Some (fft_in_place O fuel v tw count s offset).
Proof.
  induction K as [|K IH]; intros fuel v count s offset Hf Hs Hl Ho Hoc Htw;
    rewrite fft_in_place_c_eq, (fft_in_place_eq O tw); cbv zeta;
    rewrite Hl, Nat.div_mul by lia; rewrite half_pow2.
  - assert (E0 : (s =? 0) = false) by (apply Nat.eqb_neq; lia). rewrite E0.
    assert (Eg : dbg && negb (is_pow2 (2 ^ 1) && (offset <? s) && ((2 ^ 1 * s) mod 2 ^ 1 =? 0)) = false).
    { rewrite is_pow2_pow2. assert (E : (offset <? s) = true) by (apply Nat.ltb_lt; exact Ho). rewrite E.
      rewrite (Nat.mul_comm (2 ^ 1) s), Nat.mod_mul by (cbn; lia). destruct dbg; reflexivity. }
    rewrite Eg. change (2 <? 2 ^ 1) with false. cbv iota. cbn [obind].
    apply (phase2_no_panic tw 0 v count s offset Hs Hl Hoc Htw).
  - assert (E0 : (s =? 0) = false) by (apply Nat.eqb_neq; lia). rewrite E0.
    assert (Eg : dbg && negb (is_pow2 (2 ^ S (S K)) && (offset <? s) && ((2 ^ S (S K) * s) mod 2 ^ S (S K) =? 0)) = false).
    { rewrite is_pow2_pow2. assert (E : (offset <? s) = true) by (apply Nat.ltb_lt; exact Ho). rewrite E.
      rewrite (Nat.mul_comm (2 ^ S (S K)) s), Nat.mod_mul by (pose proof (pow2_pos (S (S K))); lia).
      destruct dbg; reflexivity. }
    rewrite Eg.
    assert (H2 : 2 <? 2 ^ S (S K) = true).
    { apply Nat.ltb_lt. pose proof (pow2_pos K). cbn. lia. }
    rewrite H2. destruct fuel as [|f]; [lia|].
    assert (Hl2 : length v = 2 ^ S K * (2 * s)) by (rewrite Hl, (pow2_S (S K)); lia).
    assert (Htw' : 2 ^ K <= length tw) by (rewrite pow2_S in Htw; lia).
    assert (Hrec : (if (s =? count) && (count <? MAX_LOOP)
                    then fft_in_place_c O dbg f v tw (2 * count) (2 * s) offset
                    else obind (fft_in_place_c O dbg f v tw count (2 * s) offset)
                               (fun v' => fft_in_place_c O dbg f v' tw count (2 * s) (offset + s)))
                   = Some (if (s =? count) && (count <? MAX_LOOP)
                           then fft_in_place O f v tw (2 * count) (2 * s) offset
                           else fft_in_place O f (fft_in_place O f v tw count (2 * s) offset) tw count (2 * s) (offset + s))).
    { destruct ((s =? count) && (count <? MAX_LOOP)) eqn:Estr.
      - apply andb_prop in Estr. destruct Estr as [Esc _]. apply Nat.eqb_eq in Esc. subst count.
        apply IH; lia.
      - rewrite (IH f v count (2 * s) offset) by lia. cbn [obind].
        destruct (fft_in_place_spec O tw K f v count (2 * s) offset ltac:(lia) ltac:(lia) Hl2 ltac:(lia)) as [La _].
        apply IH; try lia; try (rewrite La; exact Hl2). }
    rewrite Hrec. cbn [obind].
    apply (phase2_no_panic tw (S K)); try assumption.
    destruct ((s =? count) && (count <? MAX_LOOP)) eqn:Estr.
    + apply andb_prop in Estr. destruct Estr as [Esc _]. apply Nat.eqb_eq in Esc. subst count.
      destruct (fft_in_place_spec O tw K f v (2 * s) (2 * s) offset ltac:(lia) ltac:(lia) Hl2 ltac:(lia)) as [La _].
      rewrite La. exact Hl.
    + destruct (fft_in_place_spec O tw K f v count (2 * s) offset ltac:(lia) ltac:(lia) Hl2 ltac:(lia)) as [La _].
      destruct (fft_in_place_spec O tw K f _ count (2 * s) (offset + s) ltac:(lia) ltac:(lia)
                  ltac:(rewrite La; exact Hl2) ltac:(lia)) as [Lb _].
      rewrite Lb, La. exact Hl.
Qed.

Lemma power_series_from_length : forall n st b, length (power_series_from O st b n) = n.
Proof. induction n; intros; cbn; [reflexivity | f_equal; apply IHn]. Qed.

Lemma shift_by_series_length' : forall p a c, length (shift_by_series O p a c) = length p.
Proof. induction p; intros; cbn; [reflexivity | f_equal; apply IHp]. Qed.

(* permute: every swap(i, j) is in range (and the debug_asserts of permute_index hold) *)
Theorem permute_no_panic k v : length v = 2 ^ k -> permute_c O dbg v = Some (permute O v).
Proof.
  intros Hl. unfold permute_c, permute. rewrite Hl.
  destruct (fold_c_total (fun a => length a = 2 ^ k)
              (fun v i => match permute_index_c dbg (2 ^ k) i with
                          | None => None
                          | Some j => if i <? j then swap_c O v i j else Some v end)
              (fun v i => let j := permute_index (2 ^ k) i in if i <? j then swap O v i j else v)
              (seq 0 (2 ^ k)) v) as [E _]; [| exact Hl | exact E].
  intros a i Hi Ha. apply in_seq in Hi. cbv zeta.
  assert (Ep : permute_index_c dbg (2 ^ k) i = Some (permute_index (2 ^ k) i)).
  { unfold permute_index_c. rewrite is_pow2_pow2.
    assert (E : (i <? 2 ^ k) = true) by (apply Nat.ltb_lt; lia). rewrite E. destruct dbg; reflexivity. }
  rewrite Ep, permute_index_spec. pose proof (rev_bits_lt k i) as Hj.
  destruct (i <? rev_bits k i); [| auto]. unfold swap_c.
  assert (E1 : (i <? length a) = true) by (apply Nat.ltb_lt; lia).
  assert (E2 : (rev_bits k i <? length a) = true) by (apply Nat.ltb_lt; lia).
  rewrite E1, E2. cbn [andb]. split; [reflexivity | rewrite swap_length; exact Ha].
Qed.

Lemma top_no_panic tw K v : length v = 2 ^ S K -> 2 ^ K <= length tw ->
  fft_in_place_top_c O dbg v tw = Some (fft_in_place_top O v tw) /\ length (fft_in_place_top O v tw) = 2 ^ S K.
Proof.
  intros Hl Htw. unfold fft_in_place_top_c, fft_in_place_top.
  assert (HK : K <= length v) by (rewrite Hl; pose proof (Nat.pow_gt_lin_r 2 (S K)); lia).
  split.
  - apply fft_in_place_no_panic with (K := K); lia.
  - destruct (fft_in_place_spec O tw K (length v) v 1 1 0 HK ltac:(lia) ltac:(lia) ltac:(lia)) as [La _].
    rewrite La. exact Hl.
Qed.

Lemma guards_shape n m : is_pow2 n = true -> n = m * 2 -> exists K, n = 2 ^ S K /\ m = 2 ^ K.
Proof.
  intros Hp Hn. destruct (is_pow2_inv n Hp) as [k Hk]. destruct k as [|K].
  - cbn in Hk. lia.
  - exists K. split; [exact Hk|]. rewrite pow2_S in Hk. lia.
Qed.

Variable two_adicity : nat.
Variable root_of_unity : nat -> F.

(* ---------------------------------------------------------------- the checked entry points equal the entry points, ALL inputs *)
Theorem evaluate_poly_checked p tw : evaluate_poly_c O dbg two_adicity p tw = evaluate_poly O two_adicity p tw.
Proof.
  unfold evaluate_poly_c, evaluate_poly.
  destruct (is_pow2 (length p)) eqn:E1; cbn [negb]; [|reflexivity].
  destruct (length p =? length tw * 2) eqn:E2; cbn [negb]; [|reflexivity].
  destruct (two_adicity <? Nat.log2 (length p)); [reflexivity|].
  apply Nat.eqb_eq in E2. destruct (guards_shape _ _ E1 E2) as (K & Hl & Ht).
  destruct (top_no_panic tw K p Hl ltac:(lia)) as [T1 T2]. rewrite T1. cbn [obind].
  apply (permute_no_panic (S K)). exact T2.
Qed.

Theorem interpolate_poly_checked v itw :
  interpolate_poly_c O dbg two_adicity v itw = interpolate_poly O two_adicity v itw.
Proof.
  unfold interpolate_poly_c, interpolate_poly.
  destruct (is_pow2 (length v)) eqn:E1; cbn [negb]; [|reflexivity].
  destruct (length v =? length itw * 2) eqn:E2; cbn [negb]; [|reflexivity].
  destruct (two_adicity <? Nat.log2 (length v)); [reflexivity|].
  apply Nat.eqb_eq in E2. destruct (guards_shape _ _ E1 E2) as (K & Hl & Ht).
  destruct (top_no_panic itw K v Hl ltac:(lia)) as [T1 T2]. rewrite T1. cbn [obind].
  apply (permute_no_panic (S K)). unfold shift_by. rewrite map_length. exact T2.
Qed.

Theorem interpolate_poly_with_offset_checked v itw offset :
  interpolate_poly_with_offset_c O dbg two_adicity v itw offset = interpolate_poly_with_offset O two_adicity v itw offset.
Proof.
  unfold interpolate_poly_with_offset_c, interpolate_poly_with_offset.
  destruct (is_pow2 (length v)) eqn:E1; cbn [negb]; [|reflexivity].
  destruct (length v =? length itw * 2) eqn:E2; cbn [negb]; [|reflexivity].
  destruct (two_adicity <? Nat.log2 (length v)); [reflexivity|].
  destruct (feqb O offset fz); [reflexivity|].
  apply Nat.eqb_eq in E2. destruct (guards_shape _ _ E1 E2) as (K & Hl & Ht).
  destruct (top_no_panic itw K v Hl ltac:(lia)) as [T1 T2]. rewrite T1. cbn [obind].
  rewrite (permute_no_panic (S K) _ T2). reflexivity.
Qed.

Theorem evaluate_poly_with_offset_checked p tw offset blowup :
  evaluate_poly_with_offset_c O dbg two_adicity root_of_unity p tw offset blowup
    = evaluate_poly_with_offset O two_adicity root_of_unity p tw offset blowup.
Proof.
  unfold evaluate_poly_with_offset_c, evaluate_poly_with_offset.
  destruct (is_pow2 (length p)) eqn:E1; cbn [negb]; [|reflexivity].
  destruct (is_pow2 blowup) eqn:Eb; cbn [negb]; [|reflexivity].
  destruct (length p =? length tw * 2) eqn:E2; cbn [negb]; [|reflexivity].
  destruct (two_adicity <? Nat.log2 (length p * blowup)); [reflexivity|].
  destruct (feqb O offset fz); [reflexivity|].
  apply Nat.eqb_eq in E2. destruct (guards_shape _ _ E1 E2) as (K & Hl & Ht).
  destruct (is_pow2_inv _ Eb) as [b Hb].
  set (g := root_of_unity (Nat.log2 (length p * blowup))).
  set (ch := fun i => fft_in_place_top O
               (shift_by_series O p (fone O) (fmul O (fpow_N O g (N.of_nat (permute_index blowup i))) offset)) tw).
  rewrite (sequence_some _ ch).
  2:{ intros i Hi. apply in_seq in Hi. unfold permute_index_c. rewrite Eb.
      assert (E : (i <? blowup) = true) by (apply Nat.ltb_lt; lia). rewrite E.
      replace (dbg && negb (true && true)) with false by (destruct dbg; reflexivity). cbn [obind].
      apply (top_no_panic tw K); [rewrite shift_by_series_length'; exact Hl | lia]. }
  cbn [obind]. apply (permute_no_panic (S K + b)).
  destruct (concat_uniform_gen fz (map ch (seq 0 blowup)) (2 ^ S K)) as [CL _].
  { intros l Hin. apply in_map_iff in Hin. destruct Hin as (i & <- & _).
    apply (top_no_panic tw K); [rewrite shift_by_series_length'; exact Hl | lia]. }
  rewrite CL, map_length, seq_length, Hb, Nat.pow_add_r. lia.
Qed.

Theorem get_twiddles_checked n :
  get_twiddles_c O dbg two_adicity root_of_unity n = get_twiddles O two_adicity root_of_unity n.
Proof.
  unfold get_twiddles_c, get_twiddles.
  destruct (is_pow2 n) eqn:E1; cbn [negb]; [|reflexivity].
  destruct (two_adicity <? Nat.log2 n); [reflexivity|].
  destruct (Nat.log2 n =? 0) eqn:E3; [reflexivity|].
  destruct (is_pow2_inv _ E1) as [k Hk]. subst n. rewrite log2_pow2 in *.
  destruct k as [|K]; [discriminate|]. rewrite half_pow2'.
  apply (permute_no_panic K). apply power_series_from_length.
Qed.

Theorem get_inv_twiddles_checked n :
  get_inv_twiddles_c O dbg two_adicity root_of_unity n = get_inv_twiddles O two_adicity root_of_unity n.
Proof.
  unfold get_inv_twiddles_c, get_inv_twiddles.
  destruct (is_pow2 n) eqn:E1; cbn [negb]; [|reflexivity].
  destruct (two_adicity <? Nat.log2 n); [reflexivity|].
  destruct (Nat.log2 n =? 0) eqn:E3; [reflexivity|].
  destruct (is_pow2_inv _ E1) as [k Hk]. subst n. rewrite log2_pow2 in *.
  destruct k as [|K]; [discriminate|]. cbv zeta. rewrite half_pow2'.
  apply (permute_no_panic K). apply power_series_from_length.
Qed.

Theorem infer_degree_checked v offset :
  infer_degree_c O dbg two_adicity root_of_unity v offset = infer_degree O two_adicity root_of_unity v offset.
Proof.
  unfold infer_degree_c, infer_degree.
  destruct (is_pow2 (length v)); cbn [negb]; [|reflexivity].
  destruct (two_adicity <? Nat.log2 (length v)); [reflexivity|].
  destruct (feqb O offset fz); [reflexivity|].
  rewrite get_inv_twiddles_checked.
  destruct (get_inv_twiddles O two_adicity root_of_unity (length v)) as [itw|]; cbn [obind]; [|reflexivity].
  rewrite interpolate_poly_with_offset_checked.
  destruct (interpolate_poly_with_offset O two_adicity v itw offset); reflexivity.
Qed.

(* ---------------------------------------------------------------- exact panic domains of the entry points *)
Theorem evaluate_poly_total_iff p tw :
  evaluate_poly O two_adicity p tw <> None <->
  is_pow2 (length p) = true /\ length p = length tw * 2 /\ Nat.log2 (length p) <= two_adicity.
Proof.
  unfold evaluate_poly.
  destruct (is_pow2 (length p)); cbn [negb]; [| split; [intros H; contradiction | intros [H _]; discriminate]].
  destruct (Nat.eqb_spec (length p) (length tw * 2)) as [Heq | Hne]; cbn [negb];
    [| split; [intros H; contradiction | intros (_ & H & _); contradiction]].
  destruct (Nat.ltb_spec two_adicity (Nat.log2 (length p))) as [Hlt | Hge];
    [split; [intros H; contradiction | intros (_ & _ & H); lia] | split; [auto | discriminate]].
Qed.

Theorem interpolate_poly_total_iff v itw :
  interpolate_poly O two_adicity v itw <> None <->
  is_pow2 (length v) = true /\ length v = length itw * 2 /\ Nat.log2 (length v) <= two_adicity.
Proof.
  unfold interpolate_poly.
  destruct (is_pow2 (length v)); cbn [negb]; [| split; [intros H; contradiction | intros [H _]; discriminate]].
  destruct (Nat.eqb_spec (length v) (length itw * 2)) as [Heq | Hne]; cbn [negb];
    [| split; [intros H; contradiction | intros (_ & H & _); contradiction]].
  destruct (Nat.ltb_spec two_adicity (Nat.log2 (length v))) as [Hlt | Hge];
    [split; [intros H; contradiction | intros (_ & _ & H); lia] | split; [auto | discriminate]].
Qed.

Theorem evaluate_poly_with_offset_total_iff p tw offset blowup :
  evaluate_poly_with_offset O two_adicity root_of_unity p tw offset blowup <> None <->
  is_pow2 (length p) = true /\ is_pow2 blowup = true /\ length p = length tw * 2 /\
  Nat.log2 (length p * blowup) <= two_adicity /\ feqb O offset fz = false.
Proof.
  unfold evaluate_poly_with_offset.
  destruct (is_pow2 (length p)); cbn [negb]; [| split; [intros H; contradiction | intros [H _]; discriminate]].
  destruct (is_pow2 blowup); cbn [negb]; [| split; [intros H; contradiction | intros (_ & H & _); discriminate]].
  destruct (Nat.eqb_spec (length p) (length tw * 2)) as [Heq | Hne]; cbn [negb];
    [| split; [intros H; contradiction | intros (_ & _ & H & _); contradiction]].
  destruct (Nat.ltb_spec two_adicity (Nat.log2 (length p * blowup))) as [Hlt | Hge];
    [split; [intros H; contradiction | intros (_ & _ & _ & H & _); lia]|].
  destruct (feqb O offset fz); [split; [intros H; contradiction | intros (_ & _ & _ & _ & H); discriminate]|].
  split; [auto | discriminate].
Qed.

Theorem interpolate_poly_with_offset_total_iff v itw offset :
  interpolate_poly_with_offset O two_adicity v itw offset <> None <->
  is_pow2 (length v) = true /\ length v = length itw * 2 /\ Nat.log2 (length v) <= two_adicity /\
  feqb O offset fz = false.
Proof.
  unfold interpolate_poly_with_offset.
  destruct (is_pow2 (length v)); cbn [negb]; [| split; [intros H; contradiction | intros [H _]; discriminate]].
  destruct (Nat.eqb_spec (length v) (length itw * 2)) as [Heq | Hne]; cbn [negb];
    [| split; [intros H; contradiction | intros (_ & H & _); contradiction]].
  destruct (Nat.ltb_spec two_adicity (Nat.log2 (length v))) as [Hlt | Hge];
    [split; [intros H; contradiction | intros (_ & _ & H & _); lia]|].
  destruct (feqb O offset fz); [split; [intros H; contradiction | intros (_ & _ & _ & H); discriminate]|].
  split; [auto | discriminate].
Qed.

Theorem get_twiddles_total_iff n :
  get_twiddles O two_adicity root_of_unity n <> None <->
  is_pow2 n = true /\ Nat.log2 n <= two_adicity /\ Nat.log2 n <> 0.
Proof.
  unfold get_twiddles.
  destruct (is_pow2 n); cbn [negb]; [| split; [intros H; contradiction | intros [H _]; discriminate]].
  destruct (Nat.ltb_spec two_adicity (Nat.log2 n)) as [Hlt | Hge];
    [split; [intros H; contradiction | intros (_ & H & _); lia]|].
  destruct (Nat.eqb_spec (Nat.log2 n) 0) as [Heq | Hne]; [split; [intros H; contradiction | intros (_ & _ & H); contradiction]|].
  split; [auto | discriminate].
Qed.

Theorem infer_degree_total_iff v offset :
  infer_degree O two_adicity root_of_unity v offset <> None <->
  is_pow2 (length v) = true /\ Nat.log2 (length v) <= two_adicity /\ Nat.log2 (length v) <> 0 /\
  feqb O offset fz = false.
Proof.
  unfold infer_degree.
  destruct (is_pow2 (length v)) eqn:E1; cbn [negb]; [| split; [intros H; contradiction | intros [H _]; discriminate]].
  destruct (Nat.ltb_spec two_adicity (Nat.log2 (length v))) as [Ha | Ha];
    [split; [intros H; contradiction | intros (_ & H & _); lia]|].
  destruct (feqb O offset fz) eqn:Ef; [split; [intros H; contradiction | intros (_ & _ & _ & H); discriminate]|].
  unfold get_inv_twiddles. rewrite E1. cbn [negb].
  assert (Ea : (two_adicity <? Nat.log2 (length v)) = false) by (apply Nat.ltb_ge; exact Ha). rewrite Ea.
  destruct (Nat.eqb_spec (Nat.log2 (length v)) 0) as [E0 | E0];
    [split; [intros H; contradiction | intros (_ & _ & H & _); contradiction]|].
  destruct (is_pow2_inv _ E1) as [k Hk]. rewrite Hk, log2_pow2 in *.
  destruct k as [|K]; [contradiction|]. cbv zeta. rewrite half_pow2'.
  set (itw := permute O _).
  assert (Hli : length itw = 2 ^ K).
  { unfold itw. apply (permute_spec O K). apply power_series_from_length. }
  unfold interpolate_poly_with_offset. rewrite Hk, Hli, is_pow2_pow2, log2_pow2, Ea, Ef. cbn [negb].
  assert (E2 : (2 ^ S K =? 2 ^ K * 2) = true) by (apply Nat.eqb_eq; cbn; lia). rewrite E2. cbn [negb].
  split; [auto | discriminate].
Qed.

End NoPanic.
