(* A concrete field satisfying FLaws, for the non-vacuity Examples of C09: Z/17 on a carrier whose every
   inhabitant is a canonical residue (so the laws hold on the whole type).  3 has order 16 modulo 17. *)
From Coq Require Import ZArith Bool Lia Eqdep_dec List.
From VBase Require Import FieldOps.
Open Scope Z_scope.

Definition inr17 (x : Z) : bool := (0 <=? x) && (x <? 17).
Definition F17 : Type := { x : Z | inr17 x = true }.

Lemma inr17_mod x : inr17 (x mod 17) = true.
Proof.
  unfold inr17. pose proof (Z.mod_pos_bound x 17 ltac:(lia)).
  apply andb_true_intro; split; [apply Z.leb_le | apply Z.ltb_lt]; lia.
Qed.

Definition mk17 (x : Z) : F17 := exist _ (x mod 17) (inr17_mod x).
Definition val17 (a : F17) : Z := proj1_sig a.

Lemma F17_eq (a b : F17) : val17 a = val17 b -> a = b.
Proof.
  destruct a as [x Hx], b as [y Hy]; cbn; intros ->. f_equal.
  apply UIP_dec. apply bool_dec.
Qed.

Lemma val17_range (a : F17) : 0 <= val17 a < 17.
Proof.
  destruct a as [x Hx]; cbn. unfold inr17 in Hx. apply andb_prop in Hx. destruct Hx as [H1 H2].
  apply Z.leb_le in H1. apply Z.ltb_lt in H2. lia.
Qed.

Lemma val17_mk x : val17 (mk17 x) = x mod 17.
Proof. reflexivity. Qed.

Definition f17_ops : FOps F17 := {|
  fzero := mk17 0; fone := mk17 1;
  fadd := fun a b => mk17 (val17 a + val17 b);
  fsub := fun a b => mk17 (val17 a + val17 (mk17 (- val17 b)));
  fmul := fun a b => mk17 (val17 a * val17 b);
  fneg := fun a => mk17 (- val17 a);
  fdouble := fun a => mk17 (val17 a + val17 a);
  fsquare := fun a => mk17 (val17 a * val17 a);
  finv := fun a => mk17 (val17 a ^ 15);
  fdiv := fun a b => mk17 (val17 a * val17 (mk17 (val17 b ^ 15)));
  feqb := fun a b => val17 a =? val17 b;
  fofz := mk17
|}.

Ltac zmod17 :=
  repeat rewrite val17_mk;
  repeat (rewrite ?Zplus_mod_idemp_l, ?Zplus_mod_idemp_r, ?Zmult_mod_idemp_l, ?Zmult_mod_idemp_r);
  try (f_equal; ring).

Lemma f17_laws : FLaws f17_ops.
Proof.
  constructor; cbn [f17_ops fadd fmul fsub fneg fzero fone fdouble fsquare finv fdiv feqb]; intros.
  - apply F17_eq. zmod17.
  - apply F17_eq. zmod17.
  - apply F17_eq. zmod17. rewrite Z.add_0_l. apply Z.mod_small, val17_range.
  - apply F17_eq. zmod17.
  - apply F17_eq. zmod17.
  - apply F17_eq. zmod17. rewrite Z.mul_1_l. apply Z.mod_small, val17_range.
  - apply F17_eq. zmod17.
  - reflexivity.
  - apply F17_eq. zmod17.
  - reflexivity.
  - reflexivity.
  - intros H. apply (f_equal val17) in H. vm_compute in H. discriminate.
  - apply F17_eq. rewrite !val17_mk, Zmult_mod_idemp_l.
    assert (Hn : val17 a <> 0).
    { intros E. apply H. apply F17_eq. rewrite E. reflexivity. }
    pose proof (val17_range a) as R.
    assert (E : val17 a = 1 \/ val17 a = 2 \/ val17 a = 3 \/ val17 a = 4 \/ val17 a = 5 \/ val17 a = 6 \/
                val17 a = 7 \/ val17 a = 8 \/ val17 a = 9 \/ val17 a = 10 \/ val17 a = 11 \/ val17 a = 12 \/
                val17 a = 13 \/ val17 a = 14 \/ val17 a = 15 \/ val17 a = 16) by lia.
    repeat (destruct E as [E|E]; [rewrite E; reflexivity|]). rewrite E; reflexivity.
  - apply F17_eq. reflexivity.
  - reflexivity.
  - split; intros H.
    + apply F17_eq. apply Z.eqb_eq. exact H.
    + apply Z.eqb_eq. rewrite H. reflexivity.
Qed.

(* 3 is a primitive 16th root of unity modulo 17: 3^8 = -1 *)
Definition w16 : F17 := mk17 3.
