(* C20 — eval (Horner), add, sub, mul_by_scalar, mul, degree_of, remove_leading_zeros.  stdlib style. *)
From Coq Require Import List Arith Bool Lia Ring Field.
From VBase Require Import FieldOps.
From VModel Require Import Polynom.
From VProofs Require Import PolyBase.
Import ListNotations.

Section Arith.
Context {F : Type} (O : FOps F) (L : FLaws O).
Local Notation zero := (fzero O).
Local Notation one := (fone O).
Local Notation "a +f b" := (fadd O a b) (at level 50, left associativity).
Local Notation "a -f b" := (fsub O a b) (at level 50, left associativity).
Local Notation "a *f b" := (fmul O a b) (at level 40, left associativity).
Local Notation peval := (peval O).
Local Notation fpow := (fpow O).

Add Ring Fring : (FLaws_ring_theory O L).
Add Field Ffield : (FLaws_field_theory O L).

(* ------------------------------------------------------------------ eval *)
Lemma eval_horner p x : eval O p x = peval p x.
Proof.
  unfold eval. induction p as [|c t IH]; simpl. reflexivity.
  rewrite fold_left_app. simpl. rewrite IH. ring.
Qed.

Lemma eval_many_spec p xs : eval_many O p xs = map (peval p) xs.
Proof. unfold eval_many. apply map_ext. intros; apply eval_horner. Qed.

(* ------------------------------------------------------------------ add / sub *)
Lemma cz_S a i : coeff_or_zero O a (S i) = coeff_or_zero O (tl a) i.
Proof. unfold coeff_or_zero. destruct a; simpl; reflexivity. Qed.

Lemma cz_0 a : coeff_or_zero O a 0 = hd zero a.
Proof. unfold coeff_or_zero. destruct a; simpl; reflexivity. Qed.

Lemma peval_hd_tl a x : peval a x = hd zero a +f x *f peval (tl a) x.
Proof. destruct a; simpl; ring. Qed.

Lemma pointwise_spec (op : F -> F -> F) k x :
  (forall u v, op u v = u +f k *f v) ->
  forall n a b, length a <= n -> length b <= n ->
  peval (map (fun i => op (coeff_or_zero O a i) (coeff_or_zero O b i)) (seq 0 n)) x
  = peval a x +f k *f peval b x.
Proof.
  intros Hop. induction n as [|n IH]; intros a b Ha Hb.
  - destruct a; [|simpl in Ha; lia]. destruct b; [|simpl in Hb; lia]. simpl. ring.
  - cbn [seq map]. rewrite <- seq_shift. rewrite map_map. cbn [PolyBase.peval].
    rewrite (map_ext _ (fun i => op (coeff_or_zero O (tl a) i) (coeff_or_zero O (tl b) i)))
      by (intros; now rewrite !cz_S).
    rewrite IH by (destruct a, b; simpl in *; lia).
    rewrite !cz_0, Hop. rewrite (peval_hd_tl a), (peval_hd_tl b). ring.
Qed.

Lemma add_spec a b x : peval (add O a b) x = peval a x +f peval b x.
Proof.
  unfold add. rewrite (pointwise_spec (fadd O) one x); [ring| intros; ring | lia | lia].
Qed.

Lemma sub_spec a b x : peval (sub O a b) x = peval a x -f peval b x.
Proof.
  unfold sub. rewrite (pointwise_spec (fsub O) (fneg O one) x); [ring| intros; ring | lia | lia].
Qed.

Lemma add_length a b : length (add O a b) = Nat.max (length a) (length b).
Proof. unfold add. now rewrite map_length, seq_length. Qed.

Lemma sub_length a b : length (sub O a b) = Nat.max (length a) (length b).
Proof. unfold sub. now rewrite map_length, seq_length. Qed.

Lemma add_nth a b i : nth i (add O a b) zero = nth i a zero +f nth i b zero.
Proof.
  unfold add. set (n := Nat.max (length a) (length b)).
  destruct (Nat.lt_ge_cases i n) as [H|H].
  - rewrite (nth_indep _ zero (coeff_or_zero O a 0 +f coeff_or_zero O b 0)) by now rewrite map_length, seq_length.
    rewrite (map_nth (fun i => coeff_or_zero O a i +f coeff_or_zero O b i) (seq 0 n) 0 i).
    rewrite seq_nth by assumption. simpl. unfold coeff_or_zero.
    destruct (Nat.ltb_spec i (length a)), (Nat.ltb_spec i (length b));
      rewrite ?(nth_overflow a zero) by lia; rewrite ?(nth_overflow b zero) by lia; reflexivity.
  - rewrite !nth_overflow; try (rewrite ?map_length, ?seq_length; lia). ring.
Qed.

Lemma sub_nth a b i : nth i (sub O a b) zero = nth i a zero -f nth i b zero.
Proof.
  unfold sub. set (n := Nat.max (length a) (length b)).
  destruct (Nat.lt_ge_cases i n) as [H|H].
  - rewrite (nth_indep _ zero (coeff_or_zero O a 0 -f coeff_or_zero O b 0)) by now rewrite map_length, seq_length.
    rewrite (map_nth (fun i => coeff_or_zero O a i -f coeff_or_zero O b i) (seq 0 n) 0 i).
    rewrite seq_nth by assumption. simpl. unfold coeff_or_zero.
    destruct (Nat.ltb_spec i (length a)), (Nat.ltb_spec i (length b));
      rewrite ?(nth_overflow a zero) by lia; rewrite ?(nth_overflow b zero) by lia; reflexivity.
  - rewrite !nth_overflow; try (rewrite ?map_length, ?seq_length; lia). ring.
Qed.

(* ------------------------------------------------------------------ mul_by_scalar *)
Lemma mul_by_scalar_spec p k x : peval (mul_by_scalar O p k) x = k *f peval p x.
Proof. unfold mul_by_scalar. induction p; simpl. ring. rewrite IHp. ring. Qed.

Lemma mul_by_scalar_length p k : length (mul_by_scalar O p k) = length p.
Proof. unfold mul_by_scalar. apply map_length. Qed.

(* ------------------------------------------------------------------ mul *)
Definition mul_inner_body (a b : list F) (i : nat) : nat -> list F -> Result (list F) :=
  fun j r =>
    ai <- get a i;; bj <- get b j;;
    let s := ai *f bj in
    rij <- get r (i + j);;
    set r (i + j) (rij +f s).

Lemma mul_unfold a b :
  mul O a b = for_up 0 (length a) (fun i r => for_up 0 (length b) (mul_inner_body a b i) r)
                (repeat zero (length a + length b - 1)).
Proof. reflexivity. Qed.

Lemma mul_inner x a b i ai : get a i = Ok ai ->
  forall b2 b1 r, b = b1 ++ b2 -> i + length b <= length r ->
  exists r', for_up (length b1) (length b2) (mul_inner_body a b i) r = Ok r' /\ length r' = length r /\
             peval r' x = peval r x +f ai *f fpow x i *f (fpow x (length b1) *f peval b2 x).
Proof.
  intros Hai. induction b2 as [|c b2 IH]; intros b1 r Hb Hlen.
  - exists r. simpl. repeat split. ring.
  - assert (Hc : get b (length b1) = Ok c) by (rewrite Hb; apply get_app_mid).
    assert (Hk : i + length b1 < length r).
    { rewrite Hb, app_length in Hlen. simpl in Hlen. lia. }
    assert (Hstep : mul_inner_body a b i (length b1) r
                    = Ok (upd r (i + length b1) (nth (i + length b1) r zero +f ai *f c))).
    { unfold mul_inner_body. rewrite Hai, Hc. cbn [bind]. cbv zeta.
      apply (rmw_ok O r (i + length b1) (fun rij => rij +f ai *f c) Hk). }
    cbn [length for_up]. rewrite Hstep.
    destruct (IH (b1 ++ [c]) (upd r (i + length b1) (nth (i + length b1) r zero +f ai *f c)))
      as (r' & Hr' & Hl' & Hp').
    { rewrite Hb, <- app_assoc. reflexivity. }
    { rewrite upd_length. assumption. }
    exists r'. rewrite app_length in Hr'. simpl in Hr'. rewrite Nat.add_1_r in Hr'.
    split; [exact Hr'|]. split. { rewrite Hl'. apply upd_length. }
    rewrite Hp'. rewrite (peval_rmw_add O L) by assumption.
    rewrite app_length. simpl. rewrite Nat.add_1_r. rewrite (fpow_add O L). simpl. ring.
Qed.

Lemma mul_outer x b : forall a2 a1 a r, a = a1 ++ a2 -> length a + length b - 1 <= length r ->
  exists r', for_up (length a1) (length a2) (fun i r => for_up 0 (length b) (mul_inner_body a b i) r) r = Ok r' /\
             length r' = length r /\
             peval r' x = peval r x +f fpow x (length a1) *f peval a2 x *f peval b x.
Proof.
  induction a2 as [|c a2 IH]; intros a1 a r Ha Hlen.
  - exists r. simpl. repeat split. ring.
  - assert (Hc : get a (length a1) = Ok c) by (rewrite Ha; apply get_app_mid).
    destruct (mul_inner x a b (length a1) c Hc b [] r eq_refl) as (r1 & Hr1 & Hl1 & Hp1).
    { rewrite Ha, app_length in Hlen. simpl in Hlen. lia. }
    cbn [length for_up]. simpl in Hr1. rewrite Hr1.
    destruct (IH (a1 ++ [c]) a r1) as (r' & Hr' & Hl' & Hp').
    { rewrite Ha, <- app_assoc. reflexivity. }
    { lia. }
    exists r'. rewrite app_length in Hr'. simpl in Hr'. rewrite Nat.add_1_r in Hr'.
    split; [exact Hr'|]. split. { lia. }
    rewrite Hp', Hp1. rewrite app_length. simpl. rewrite Nat.add_1_r. simpl. ring.
Qed.

Lemma mul_ok a b : exists r, mul O a b = Ok r /\ length r = length a + length b - 1 /\
                             forall x, peval r x = peval a x *f peval b x.
Proof.
  rewrite mul_unfold.
  destruct (mul_outer zero b a [] a (repeat zero (length a + length b - 1)) eq_refl) as (r & Hr & Hl & _).
  { rewrite repeat_length. lia. }
  exists r. split; [exact Hr|]. split. { rewrite Hl. apply repeat_length. }
  intros x.
  destruct (mul_outer x b a [] a (repeat zero (length a + length b - 1)) eq_refl) as (r2 & Hr2 & _ & Hp).
  { rewrite repeat_length. lia. }
  simpl in Hr, Hr2. rewrite Hr in Hr2. inversion Hr2; subst r2.
  rewrite Hp. rewrite (peval_repeat_zero O L). simpl. ring.
Qed.

Lemma mul_spec a b r x : mul O a b = Ok r -> peval r x = peval a x *f peval b x.
Proof. intros H. destruct (mul_ok a b) as (r' & Hr & _ & Hp). rewrite H in Hr. inversion Hr; subst. apply Hp. Qed.

Lemma mul_total a b : mul O a b <> Panic.
Proof. destruct (mul_ok a b) as (r & Hr & _). rewrite Hr. discriminate. Qed.

Lemma mul_length a b r : mul O a b = Ok r -> length r = length a + length b - 1.
Proof. intros H. destruct (mul_ok a b) as (r' & Hr & Hl & _). rewrite H in Hr. inversion Hr; subst. exact Hl. Qed.

Lemma mul_unrepaired_total_iff a b : mul_unrepaired O a b <> Panic <-> (a <> [] \/ b <> []).
Proof.
  unfold mul_unrepaired. destruct a, b; simpl; split; intros H; try tauto; try (right; discriminate);
    try (left; discriminate); try (apply mul_total).
Qed.

(* ------------------------------------------------------------------ degree_of / remove_leading_zeros *)
Lemma last_nz_spec poly n :
  match last_nz O poly n with
  | Some i => i < n /\ nth i poly zero <> zero /\ forall k, i < k < n -> nth k poly zero = zero
  | None => forall k, k < n -> nth k poly zero = zero
  end.
Proof.
  induction n as [|n IH]; simpl. intros; lia.
  destruct (feqb O (nth n poly zero) zero) eqn:E.
  - apply (feqb_true O L) in E. destruct (last_nz O poly n) as [i|].
    + destruct IH as (H1 & H2 & H3). repeat split; auto.
      intros k Hk. destruct (Nat.eq_dec k n); subst; auto. apply H3; lia.
    + intros k Hk. destruct (Nat.eq_dec k n); subst; auto. apply IH; lia.
  - apply (feqb_false O L) in E. repeat split; auto. intros; lia.
Qed.

Lemma zeros_above_split (l : list F) : forall n, (forall k, n <= k -> nth k l zero = zero) ->
  l = firstn n l ++ repeat zero (length l - n).
Proof.
  induction l as [|c t IH]; intros n H. now rewrite firstn_nil.
  destruct n.
  - simpl. f_equal. apply (H 0); lia.
    rewrite (IH 0) at 1. simpl. now rewrite Nat.sub_0_r. intros k Hk. apply (H (S k)); lia.
  - simpl. f_equal. apply IH. intros k Hk. apply (H (S k)); lia.
Qed.

(* full characterisation of degree_of *)
Lemma degree_of_spec poly :
  (forall k, degree_of O poly < k -> nth k poly zero = zero) /\
  ((exists k, nth k poly zero <> zero) -> degree_of O poly < length poly /\ nth (degree_of O poly) poly zero <> zero) /\
  ((forall k, nth k poly zero = zero) -> degree_of O poly = 0).
Proof.
  unfold degree_of. pose proof (last_nz_spec poly (length poly)) as H.
  destruct (last_nz O poly (length poly)) as [i|].
  - destruct H as (H1 & H2 & H3). repeat split; auto.
    + intros k Hk. destruct (Nat.lt_ge_cases k (length poly)). apply H3; lia. now apply nth_overflow.
    + intros Hz. exfalso. apply H2, Hz.
  - repeat split.
    + intros k Hk. destruct (Nat.lt_ge_cases k (length poly)). now apply H. now apply nth_overflow.
    + exfalso. destruct H0 as (k & Hk). apply Hk.
      destruct (Nat.lt_ge_cases k (length poly)). now apply H. now apply nth_overflow.
    + exfalso. destruct H0 as (k & Hk). apply Hk.
      destruct (Nat.lt_ge_cases k (length poly)). now apply H. now apply nth_overflow.
Qed.

Lemma degree_of_pos_nz poly : 0 < degree_of O poly ->
  nth (degree_of O poly) poly zero <> zero /\ degree_of O poly < length poly.
Proof.
  unfold degree_of. pose proof (last_nz_spec poly (length poly)) as H.
  destruct (last_nz O poly (length poly)); [|lia]. intros _. tauto.
Qed.

Lemma degree_of_lt poly : poly <> [] -> degree_of O poly < length poly.
Proof.
  unfold degree_of. pose proof (last_nz_spec poly (length poly)) as H.
  destruct (last_nz O poly (length poly)). tauto. intros Hn. destruct poly; [congruence|simpl; lia].
Qed.

Lemma degree_of_split poly :
  poly = firstn (S (degree_of O poly)) poly ++ repeat zero (length poly - S (degree_of O poly)).
Proof. apply zeros_above_split. intros k Hk. apply (proj1 (degree_of_spec poly)). lia. Qed.

Lemma peval_zeros_tail (l l1 : list F) k x : l = l1 ++ repeat zero k -> peval l x = peval l1 x.
Proof. intros ->. rewrite (peval_app O L), (peval_repeat_zero O L). ring. Qed.

Lemma peval_firstn_degree poly x : peval (firstn (S (degree_of O poly)) poly) x = peval poly x.
Proof. symmetry. eapply peval_zeros_tail. apply degree_of_split. Qed.

(* remove_leading_zeros: the input is the output followed by zeros only, the output does not end in zero *)
Lemma remove_leading_zeros_spec values :
  let r := remove_leading_zeros O values in
  values = r ++ repeat zero (length values - length r) /\
  (r = [] \/ last r zero <> zero) /\
  (forall x, peval r x = peval values x).
Proof.
  cbv zeta. unfold remove_leading_zeros. pose proof (last_nz_spec values (length values)) as H.
  destruct (last_nz O values (length values)) as [i|].
  - destruct H as (H1 & H2 & H3).
    assert (Hs : values = firstn (i + 1) values ++ repeat zero (length values - (i + 1))).
    { apply zeros_above_split. intros k Hk.
      destruct (Nat.lt_ge_cases k (length values)). apply H3; lia. now apply nth_overflow. }
    assert (Hl : length (firstn (i + 1) values) = i + 1) by (rewrite firstn_length; lia).
    split. { rewrite Hl. exact Hs. }
    split.
    + right. rewrite Nat.add_1_r. rewrite (firstn_S_snoc values i zero H1). rewrite last_last. exact H2.
    + intros x. symmetry. eapply peval_zeros_tail. exact Hs.
  - assert (Hs : values = firstn 0 values ++ repeat zero (length values - 0)).
    { apply zeros_above_split. intros k Hk.
      destruct (Nat.lt_ge_cases k (length values)). now apply H. now apply nth_overflow. }
    simpl in *. rewrite Nat.sub_0_r in *. split; [exact Hs|]. split; [now left|].
    intros x. symmetry. eapply (peval_zeros_tail values []). exact Hs.
Qed.

End Arith.
