(* C11 — non-vacuity examples: the hypotheses of the C11 theorems are satisfiable, and the models compute the digests
   the repaired implementation produces on concrete inputs (values replayed from `c11 probe`). *)
From VBase Require Import MachInt.
From VGen Require Import Mds12 Mds8.
From VModel Require Import RescueConsts Rescue ByteHash.
From VProofs Require Import RescueSponge RescueSbox RescueMds.
Open Scope Z_scope.

Lemma ex_bytes : bytes [] /\ bytes [0; 255; 7] /\ bytes (repeat 171 70).
Proof. repeat split; repeat constructor; unfold is_byte; lia. Qed.

(* hash of the empty string: no permutation, the zero digest; 57 bytes (9 chunks, partial last chunk) was a panic before
   the repair; 70 bytes = [0xAB; 70]: digest of the repaired Rp64_256::hash, 88c702f2b384aeae e7c54270a0654995 .. *)
Lemma ex_hash_values :
  rp64_hash [] = Some [0; 0; 0; 0] /\ rp64_hash (repeat 171 57) <> None /\
  rp64_hash (repeat 171 70) = Some [9855849550940778158; 16700827844668115349; 2206747521949972729; 1808440846046674605].
Proof. split; [|split]; vm_compute; [reflexivity | discriminate | reflexivity]. Qed.

(* known answers of the other two hashers on [0xAB; 70] (replayed from `c11 probe` on the repaired tree); together with
   ex_hash_values these pin the round-constant tables of the three hashers: a changed constant breaks these Examples *)
Lemma ex_hash_pins :
  rp62_hash (repeat 171 70) = Some [718269490133229630; 1272527191177799928; 39996384440040100; 4287254455493316955] /\
  jive_hash (repeat 171 70) = Some [7310329737796519830; 1779878501739986078; 9442396403217558804; 2621743351511437720].
Proof. split; vm_compute; reflexivity. Qed.

(* length and trailing zeros are separated by the encoding *)
Lemma ex_encoding_separates :
  bytes_to_elems M64 [1] = Some [257] /\ bytes_to_elems M64 [1; 0] = Some [65537] /\ bytes_to_elems M64 [] = Some [] /\
  bytes_to_elems M64 [1; 2; 3; 4; 5; 6; 7] = Some [1 + 2 * 2^8 + 3 * 2^16 + 4 * 2^24 + 5 * 2^32 + 6 * 2^40 + 7 * 2^48 + 2^56] /\
  bytes_to_elems M64 [1; 2; 3; 4; 5; 6; 7; 0] = Some [1 + 2 * 2^8 + 3 * 2^16 + 4 * 2^24 + 5 * 2^32 + 6 * 2^40 + 7 * 2^48; 256].
Proof. vm_compute. repeat split; reflexivity. Qed.

Lemma ex_digest_ok : digest_ok M64 [0; 1; 2; M64 - 1] /\ digest_ok M62 [0; 1; 2; M62 - 1].
Proof. split; (split; [reflexivity|]); repeat constructor; unfold M64, M62; lia. Qed.

(* merge_with_int: below / at / above the modulus give pairwise different absorbed states *)
Lemma ex_mwi_states :
  let st v := mwi_state_cnt M64 rp64_sponge [1; 2; 3; 4] v in
  st (M64 - 1) = [5; 0; 0; 0; 1; 2; 3; 4; M64 - 1; 0; 0; 0] /\ st M64 = [6; 0; 0; 0; 1; 2; 3; 4; 0; 1; 0; 0] /\
  st (M64 + 1) = [6; 0; 0; 0; 1; 2; 3; 4; 1; 1; 0; 0] /\ st 0 = [5; 0; 0; 0; 1; 2; 3; 4; 0; 0; 0; 0] /\
  mwi_state_cnt M62 rp62_sponge [1; 2; 3; 4] (2 ^ 64 - 1) = [1; 2; 3; 4; (2 ^ 64 - 1) mod M62; 4; 0; 0; 0; 0; 0; 6].
Proof. vm_compute. repeat split; reflexivity. Qed.

(* extreme limbs: all 2^32 - 1 and all 2^32 satisfy the hypotheses of freq12_exact; extreme words those of mds12_multiply *)
Lemma ex_limbs : L32 0 /\ L32 (2 ^ 32 - 1) /\ L32 (2 ^ 32) /\ word 0 /\ word (2 ^ 64 - 1) /\ word (M64 - 1).
Proof. unfold L32, word, M64. lia. Qed.
Lemma ex_freq_extreme :
  mds12_freq_list (repeat (2 ^ 32) 12) = repeat (160 * 2 ^ 32) 12 /\ mds12_freq_list_ok (repeat (2 ^ 32) 12) = true /\
  mds8_freq_list (repeat (2 ^ 32) 8) = repeat (96 * 2 ^ 32) 8 /\ mds8_freq_list_ok (repeat (2 ^ 32) 8) = true.
Proof. vm_compute. repeat split; reflexivity. Qed.
(* the state on which the unrepaired fold returned the internal word M + 1: the repaired one returns 1 *)
Lemma ex_mds_canonical : nth 0 (mds12_multiply ((M64 + 1) / 7 :: repeat 0 11)) 0 = 1.
Proof. vm_compute. reflexivity. Qed.

Lemma ex_sbox : exp7 M64 (inv_sbox64 M64 (M64 - 1)) = M64 - 1 /\ exp7 M64 (inv_sbox64 M64 0) = 0 /\ cube M62 (inv_sbox62 M62 5) = 5.
Proof. vm_compute. repeat split; reflexivity. Qed.

Lemma ex_msg_mwi : length (msg_merge_with_int (repeat 0 32) (2 ^ 64 - 1)) = 40%nat /\ length (msg_merge_with_int (repeat 0 24) 0) = 32%nat /\
  msg_merge_with_int [9] 258 = [9; 2; 1; 0; 0; 0; 0; 0; 0].
Proof. vm_compute. repeat split; reflexivity. Qed.
