(* C20 — uniqueness of quotient and remainder on COEFFICIENT LISTS and the exact-division theorems:
   a = q0 * b (coefficient-wise) => div a b = q0, remainder 0;   p = q * (x^a - b) => syn_div p a b = q, remainder 0;
   coefficient semantics of the `mul` model (convolution).  stdlib style. *)
From Coq Require Import List Arith Bool Lia Ring Field.
From VBase Require Import FieldOps.
From VModel Require Import Polynom.
From VProofs Require Import PolyBase PolyArith PolyCoeff PolyDiv.
Import ListNotations.

Section Exact.
Context {F : Type} (O : FOps F) (L : FLaws O).
Local Notation zero := (fzero O).
Local Notation one := (fone O).
Local Notation "a +f b" := (fadd O a b) (at level 50, left associativity).
Local Notation "a -f b" := (fsub O a b) (at level 50, left associativity).
Local Notation "a *f b" := (fmul O a b) (at level 40, left associativity).
Local Notation coeff := (coeff O).
Local Notation conv := (conv O).
Local Notation gsum := (gsum O).

Add Ring Fring : (FLaws_ring_theory O L).
Add Field Ffield : (FLaws_field_theory O L).

Lemma nth_repeat_zero_gen k i : nth i (repeat zero k) zero = zero.
Proof. revert i; induction k; destruct i; simpl; auto. Qed.

Lemma nth_skipn_add (l : list F) : forall a i, nth i (skipn a l) zero = nth (a + i) l zero.
Proof.
  induction l as [|h t IH]; intros a i. rewrite skipn_nil. destruct i, a; reflexivity.
  destruct a; simpl. reflexivity. apply IH.
Qed.

Lemma coeff_nil k : coeff [] k = zero.
Proof. unfold PolyCoeff.coeff. destruct k; reflexivity. Qed.

Lemma conv_high_deg q b m n k : (forall j, m < j -> coeff q j = zero) -> (forall j, n < j -> coeff b j = zero) ->
  m + n < k -> conv q b k = zero.
Proof.
  intros Hq Hb Hk. unfold PolyCoeff.conv. apply (gsum_zero O L). intros i Hi.
  destruct (Nat.le_gt_cases i m).
  - rewrite (Hb (k - i)) by lia. ring.
  - rewrite (Hq i) by lia. ring.
Qed.

(* ------------------------------------------------------------------ uniqueness of (q, r) *)
Lemma divmod_unique b n q1 q2 r1 r2 :
  coeff b n <> zero -> (forall j, n < j -> coeff b j = zero) ->
  (forall k, n <= k -> coeff r1 k = zero) -> (forall k, n <= k -> coeff r2 k = zero) ->
  (forall k, conv q1 b k +f coeff r1 k = conv q2 b k +f coeff r2 k) ->
  (forall k, coeff q1 k = coeff q2 k) /\ (forall k, coeff r1 k = coeff r2 k).
Proof.
  intros Hlead Hhigh Hr1 Hr2 Heq.
  assert (HD : forall k, coeff (sub O q1 q2) k = zero).
  { destruct (coeffs_dec O L (sub O q1 q2)) as [H|H]; [exact H|exfalso].
    destruct (proj1 (proj2 (degree_of_spec O L (sub O q1 q2))) H) as (_ & Hm).
    pose proof (proj1 (degree_of_spec O L (sub O q1 q2))) as Habove.
    set (m := degree_of O (sub O q1 q2)) in *.
    pose proof (conv_top O L (sub O q1 q2) b m n Habove Hhigh) as Ht.
    rewrite (conv_sub_l O L) in Ht.
    pose proof (Heq (m + n)) as E. rewrite (Hr1 (m + n)), (Hr2 (m + n)) in E by lia.
    assert (Hz : conv q1 b (m + n) -f conv q2 b (m + n) = zero).
    { transitivity ((conv q1 b (m + n) +f zero) -f (conv q2 b (m + n) +f zero)). ring. rewrite E. ring. }
    rewrite Hz in Ht. symmetry in Ht. apply (fmul_integral O L) in Ht.
    destruct Ht as [Ht|Ht]; [apply Hm; exact Ht | apply Hlead; exact Ht]. }
  assert (Hq : forall k, coeff q1 k = coeff q2 k).
  { intros k. specialize (HD k). unfold PolyCoeff.coeff in *. rewrite (sub_nth O L) in HD.
    now apply (fsub_eq_zero O L). }
  split; [exact Hq|]. intros k.
  pose proof (Heq k) as E. rewrite (conv_ext O q1 q2 b b k Hq (fun _ => eq_refl)) in E.
  transitivity ((conv q2 b k +f coeff r1 k) -f conv q2 b k). ring. rewrite E. ring.
Qed.

(* ------------------------------------------------------------------ exact long division *)
Theorem div_exact a b q0 :
  coeff b (degree_of O b) <> zero -> (exists j, coeff q0 j <> zero) ->
  (forall k, coeff a k = conv q0 b k) ->
  exists q aw, div_full O a b = Ok (q, aw) /\
    (forall k, coeff q k = coeff q0 k) /\
    (forall k, coeff (firstn (degree_of O b) aw) k = zero) /\
    degree_of O a = degree_of O q0 + degree_of O b /\
    length q = degree_of O q0 + 1.
Proof.
  intros Hlead Hq0 Ha.
  pose proof (proj1 (degree_of_spec O L b)) as Hbhigh.
  destruct (proj1 (proj2 (degree_of_spec O L q0)) Hq0) as (_ & Hq0top).
  pose proof (proj1 (degree_of_spec O L q0)) as Hq0high.
  set (n := degree_of O b) in *. set (m0 := degree_of O q0) in *.
  assert (Htop : coeff a (m0 + n) <> zero).
  { rewrite Ha, (conv_top O L q0 b m0 n Hq0high Hbhigh). now apply (fmul_nonzero O L). }
  assert (Hda : degree_of O a = m0 + n).
  { apply Nat.le_antisymm; [|now apply (degree_of_ge O L)].
    destruct (Nat.le_gt_cases (degree_of O a) (m0 + n)); auto. exfalso.
    destruct (proj1 (proj2 (degree_of_spec O L a)) (ex_intro (fun k => nth k a zero <> zero) (m0 + n) Htop)) as (_ & Hnz). apply Hnz.
    change (coeff a (degree_of O a) = zero). rewrite Ha. now apply (conv_high_deg q0 b m0 n). }
  assert (Hok : div O a b <> Panic) by (apply (div_total_iff O L); split; [fold n; lia|exact Hlead]).
  unfold div in Hok. destruct (div_full O a b) as [[q aw]|] eqn:E; [|simpl in Hok; congruence].
  exists q, aw. split; [reflexivity|].
  pose proof (div_coeff_spec O L a b q aw E) as Hc. fold n in Hc.
  destruct (divmod_unique b n q q0 (firstn n aw) [] Hlead Hbhigh) as (H1 & H2).
  - intros k Hk. unfold PolyCoeff.coeff. apply nth_overflow. rewrite firstn_length. lia.
  - intros k _. apply coeff_nil.
  - intros k. rewrite <- Hc, coeff_nil, Ha. ring.
  - split; [exact H1|]. split. { intros k. rewrite H2. apply coeff_nil. }
    split; [exact Hda|].
    destruct (div_full_spec O L a b q aw E) as (_ & _ & _ & _ & Hlen & _).
    rewrite Hlen. fold n. lia. intros ->. apply Htop. apply coeff_nil.
Qed.

(* ------------------------------------------------------------------ exact division by x^a - b, a >= 2 *)
Lemma sd_loop_pt a g : 1 <= a -> forall m s s', m + a <= length s ->
  for_down m (sd_body O a g) s = Ok s' ->
  length s' = length s /\
  forall k, coeff s' k = if k <? m then coeff s k +f g (coeff s' (k + a)) else coeff s k.
Proof.
  intros Ha. induction m as [|i IH]; intros s s' Hlen H.
  - simpl in H. inversion H; subst. split; [reflexivity|]. intros k. reflexivity.
  - set (v := nth i s zero +f g (nth (i + a) s zero)).
    assert (Hstep : sd_body O a g i s = Ok (upd s i v)).
    { unfold sd_body. rewrite (get_ok s i zero) by lia. cbn [bind].
      rewrite (get_ok s (i + a) zero) by lia. cbn [bind]. apply set_ok. lia. }
    cbn [for_down] in H. rewrite Hstep in H.
    destruct (IH (upd s i v) s' ltac:(rewrite upd_length; lia) H) as (Hl & Hp).
    split. { rewrite Hl. apply upd_length. }
    assert (Hge : forall k, i <= k -> coeff s' k = coeff (upd s i v) k).
    { intros k Hk. rewrite Hp. destruct (Nat.ltb_spec k i); [lia|reflexivity]. }
    intros k. destruct (Nat.lt_trichotomy k i) as [Hk|[->|Hk]].
    + rewrite Hp. destruct (Nat.ltb_spec k i), (Nat.ltb_spec k (S i)); try lia.
      unfold PolyCoeff.coeff at 1. rewrite nth_upd_other by lia. reflexivity.
    + destruct (Nat.ltb_spec i (S i)); [|lia]. rewrite (Hge i) by lia. rewrite (Hge (i + a)) by lia.
      unfold PolyCoeff.coeff. rewrite nth_upd_same by lia. rewrite nth_upd_other by lia. reflexivity.
    + destruct (Nat.ltb_spec k (S i)); [lia|]. rewrite (Hge k) by lia.
      unfold PolyCoeff.coeff. now rewrite nth_upd_other by lia.
Qed.

Theorem syn_div_exact_gen p a b q : 2 <= a -> b <> zero -> length q + a <= length p -> q <> [] ->
  (forall k, coeff p k = (if a <=? k then coeff q (k - a) else zero) -f b *f coeff q k) ->
  syn_div_in_place_full O p a b
  = Ok ((q ++ repeat zero (length p - a - length q)) ++ repeat zero a, repeat zero a).
Proof.
  intros Ha Hb Hlen Hq Hp.
  assert (Hlt : a < length p) by (destruct q; [congruence|simpl in Hlen; lia]).
  assert (Hfin : forall g, (forall v, g v = v *f b) -> forall p1,
            for_down (length p - a) (sd_body O a g) p = Ok p1 ->
            skipn a p1 ++ repeat zero a = (q ++ repeat zero (length p - a - length q)) ++ repeat zero a /\
            firstn a p1 = repeat zero a).
  { intros g Hg p1 Hp1.
    destruct (sd_loop_pt a g ltac:(lia) (length p - a) p p1 ltac:(lia) Hp1) as (Hl1 & Hpt).
    assert (Hval : forall d k, length p <= k + d -> coeff p1 k = if a <=? k then coeff q (k - a) else zero).
    { induction d as [|d IHd]; intros k Hk.
      - rewrite (coeff_overflow O p1) by lia. destruct (Nat.leb_spec a k); [|lia].
        symmetry. apply coeff_overflow. lia.
      - destruct (Nat.le_gt_cases (length p) k) as [Hge|Hlt'].
        { rewrite (coeff_overflow O p1) by lia. destruct (Nat.leb_spec a k); [|lia].
          symmetry. apply coeff_overflow. lia. }
        rewrite Hpt. destruct (Nat.ltb_spec k (length p - a)).
        + rewrite (IHd (k + a)) by lia. destruct (Nat.leb_spec a (k + a)); [|lia].
          replace (k + a - a) with k by lia. rewrite Hg, Hp. ring.
        + rewrite Hp. rewrite (coeff_overflow O q k) by lia. ring. }
    split.
    - f_equal. apply (list_ext _ _ zero).
      + rewrite skipn_length, app_length, repeat_length. lia.
      + rewrite skipn_length. intros i Hi. rewrite nth_skipn_add.
        change (nth (a + i) p1 zero) with (coeff p1 (a + i)).
        rewrite (Hval (length p) (a + i)) by lia. destruct (Nat.leb_spec a (a + i)); [|lia].
        replace (a + i - a) with i by lia. unfold PolyCoeff.coeff.
        destruct (Nat.lt_ge_cases i (length q)).
        * now rewrite app_nth1.
        * rewrite app_nth2 by assumption. rewrite (nth_overflow q) by assumption.
          symmetry. apply nth_repeat_zero_gen.
    - apply (list_ext _ _ zero).
      + rewrite firstn_length, repeat_length. lia.
      + rewrite firstn_length. intros i Hi. rewrite nth_firstn_lt by lia.
        change (nth i p1 zero) with (coeff p1 i). rewrite (Hval (length p) i) by lia.
        destruct (Nat.leb_spec a i); [lia|]. symmetry. apply nth_repeat_zero_gen. }
  unfold syn_div_in_place_full.
  destruct (Nat.eqb_spec a 0); [lia|]. rewrite (feqb_neq O L) by assumption.
  destruct (Nat.ltb_spec a (length p)); [|lia]. cbn [negb].
  destruct (Nat.eqb_spec a 1); [lia|].
  destruct (feqb O b one) eqn:E1.
  - apply (feqb_true O L) in E1.
    destruct (sd_loop O L a b (fun v => v) zero ltac:(lia) ltac:(intros; subst b; ring) (length p - a) p ltac:(lia))
      as (p1 & Hp1 & _).
    pose proof Hp1 as Hp1'. unfold sd_body in Hp1'. cbv beta in Hp1'. rewrite Hp1'. cbn [bind].
    destruct (Hfin (fun v => v) ltac:(intros; subst b; ring) p1 Hp1) as (A & B). now rewrite A, B.
  - destruct (sd_loop O L a b (fun v => v *f b) zero ltac:(lia) ltac:(reflexivity) (length p - a) p ltac:(lia))
      as (p1 & Hp1 & _).
    pose proof Hp1 as Hp1'. unfold sd_body in Hp1'. cbv beta in Hp1'. rewrite Hp1'. cbn [bind].
    destruct (Hfin (fun v => v *f b) ltac:(reflexivity) p1 Hp1) as (A & B). now rewrite A, B.
Qed.

(* ------------------------------------------------------------------ coefficient semantics of the `mul` model *)
Lemma gsum_extend T : forall k k', k <= k' -> (forall i, k <= i < k' -> T i = zero) -> gsum T k' = gsum T k.
Proof.
  intros k k' Hk. induction Hk as [|k' Hk IH]; intros H. reflexivity.
  cbn [PolyCoeff.gsum]. rewrite IH by (intros; apply H; lia). rewrite (H k') by lia. ring.
Qed.

Lemma mul_inner_pt a b i ai : get a i = Ok ai ->
  forall b2 b1 r, b = b1 ++ b2 -> i + length b <= length r ->
  exists r', for_up (length b1) (length b2) (mul_inner_body O a b i) r = Ok r' /\ length r' = length r /\
    forall k, coeff r' k = coeff r k +f
      (if (i + length b1 <=? k) && (k <? i + length b) then ai *f coeff b (k - i) else zero).
Proof.
  intros Hai. induction b2 as [|c b2 IH]; intros b1 r Hb Hlen.
  - exists r. split; [reflexivity|]. split; [reflexivity|]. intros k.
    rewrite Hb, app_nil_r. destruct (Nat.leb_spec (i + length b1) k), (Nat.ltb_spec k (i + length b1)); simpl; try lia; ring.
  - assert (Hc : get b (length b1) = Ok c) by (rewrite Hb; apply get_app_mid).
    assert (Hcb : coeff b (length b1) = c).
    { unfold PolyCoeff.coeff. rewrite Hb, app_nth2, Nat.sub_diag by lia. reflexivity. }
    assert (Hk : i + length b1 < length r).
    { rewrite Hb, app_length in Hlen. simpl in Hlen. lia. }
    assert (Hstep : mul_inner_body O a b i (length b1) r
                    = Ok (upd r (i + length b1) (nth (i + length b1) r zero +f ai *f c))).
    { unfold mul_inner_body. rewrite Hai, Hc. cbn [bind]. cbv zeta.
      apply (rmw_ok O r (i + length b1) (fun rij => rij +f ai *f c) Hk). }
    cbn [length for_up]. rewrite Hstep.
    destruct (IH (b1 ++ [c]) (upd r (i + length b1) (nth (i + length b1) r zero +f ai *f c)))
      as (r' & Hr' & Hl' & Hp').
    { rewrite Hb, <- app_assoc. reflexivity. }
    { rewrite upd_length. assumption. }
    exists r'. rewrite app_length in Hr', Hp'. simpl in Hr', Hp'. rewrite Nat.add_1_r in Hr', Hp'.
    split; [exact Hr'|]. split. { rewrite Hl'. apply upd_length. }
    intros k. rewrite Hp'. unfold PolyCoeff.coeff at 1.
    destruct (Nat.eq_dec k (i + length b1)) as [->|Hne].
    + rewrite nth_upd_same by assumption.
      assert (i + length b1 < i + length b) by (rewrite Hb, app_length; simpl; lia).
      destruct (Nat.leb_spec (i + S (length b1)) (i + length b1)), (Nat.leb_spec (i + length b1) (i + length b1)),
        (Nat.ltb_spec (i + length b1) (i + length b)); simpl; try lia.
      replace (i + length b1 - i) with (length b1) by lia. rewrite Hcb. unfold PolyCoeff.coeff. ring.
    + rewrite nth_upd_other by assumption.
      destruct (Nat.leb_spec (i + S (length b1)) k), (Nat.leb_spec (i + length b1) k), (Nat.ltb_spec k (i + length b));
        simpl; try lia; reflexivity.
Qed.

Definition mul_term (a b : list F) (k i : nat) : F :=
  if (i <=? k) && (k <? i + length b) then coeff a i *f coeff b (k - i) else zero.

Lemma mul_outer_pt b : forall a2 a1 a r, a = a1 ++ a2 -> length a + length b - 1 <= length r ->
  exists r', for_up (length a1) (length a2) (fun i r => for_up 0 (length b) (mul_inner_body O a b i) r) r = Ok r' /\
    length r' = length r /\
    forall k, coeff r' k = coeff r k +f
      gsum (fun i => if length a1 <=? i then mul_term a b k i else zero) (length a).
Proof.
  induction a2 as [|c a2 IH]; intros a1 a r Ha Hlen.
  - exists r. split; [reflexivity|]. split; [reflexivity|]. intros k.
    rewrite (gsum_zero O L). ring. intros i Hi. rewrite Ha, app_nil_r in Hi.
    destruct (Nat.leb_spec (length a1) i); [lia|reflexivity].
  - assert (Hc : get a (length a1) = Ok c) by (rewrite Ha; apply get_app_mid).
    assert (Hca : coeff a (length a1) = c).
    { unfold PolyCoeff.coeff. rewrite Ha, app_nth2, Nat.sub_diag by lia. reflexivity. }
    assert (Hla : length a1 < length a) by (rewrite Ha, app_length; simpl; lia).
    destruct (mul_inner_pt a b (length a1) c Hc b [] r eq_refl) as (r1 & Hr1 & Hl1 & Hp1).
    { lia. }
    cbn [length for_up]. simpl in Hr1. rewrite Hr1.
    destruct (IH (a1 ++ [c]) a r1) as (r' & Hr' & Hl' & Hp').
    { rewrite Ha, <- app_assoc. reflexivity. }
    { lia. }
    exists r'. rewrite app_length in Hr', Hp'. simpl in Hr', Hp'. rewrite Nat.add_1_r in Hr', Hp'.
    split; [exact Hr'|]. split. { lia. }
    intros k. rewrite Hp', Hp1. simpl (length []). rewrite Nat.add_0_r.
    rewrite (gsum_ext O (fun i => if length a1 <=? i then mul_term a b k i else zero)
               (fun i => (if S (length a1) <=? i then mul_term a b k i else zero)
                         +f (if i =? length a1 then mul_term a b k (length a1) else zero))).
    2: { intros i _. destruct (Nat.leb_spec (length a1) i), (Nat.leb_spec (S (length a1)) i), (Nat.eqb_spec i (length a1));
           try lia; subst; ring. }
    rewrite (gsum_add O L).
    rewrite (gsum_single O L (fun i => if i =? length a1 then mul_term a b k (length a1) else zero) (length a1)).
    2: { intros i _ Hi. destruct (Nat.eqb_spec i (length a1)); [lia|reflexivity]. }
    destruct (Nat.ltb_spec (length a1) (length a)); [|lia]. rewrite Nat.eqb_refl.
    change (mul_term a b k (length a1)) with
      (if (length a1 <=? k) && (k <? length a1 + length b) then coeff a (length a1) *f coeff b (k - length a1) else zero).
    rewrite Hca. ring.
Qed.

(* the crate's mul computes the convolution: r_k = sum_{i<=k} a_i b_{k-i} *)
Theorem mul_coeff a b r : mul O a b = Ok r -> forall k, coeff r k = conv a b k.
Proof.
  intros H k. rewrite (mul_unfold O) in H.
  destruct (mul_outer_pt b a [] a (repeat zero (length a + length b - 1)) eq_refl) as (r' & Hr' & _ & Hp').
  { rewrite repeat_length. lia. }
  simpl in Hr'. rewrite H in Hr'. inversion Hr'; subst r'. rewrite Hp'.
  unfold PolyCoeff.coeff at 1. rewrite nth_repeat_zero_gen. simpl (length []).
  set (N := Nat.max (length a) (S k)).
  set (T := fun i => if i <=? k then coeff a i *f coeff b (k - i) else zero).
  assert (E1 : gsum (fun i => if 0 <=? i then mul_term a b k i else zero) N
               = gsum (fun i => if 0 <=? i then mul_term a b k i else zero) (length a)).
  { apply gsum_extend. unfold N; lia. intros i Hi. simpl. unfold mul_term.
    rewrite (coeff_overflow O a i) by lia. destruct ((i <=? k) && (k <? i + length b)); ring. }
  assert (E2 : gsum T N = gsum T (S k)).
  { apply gsum_extend. unfold N; lia. intros i Hi. unfold T. destruct (Nat.leb_spec i k); [lia|reflexivity]. }
  transitivity (gsum T N).
  - rewrite <- E1. rewrite (gsum_ext O _ T). ring.
    intros i _. simpl. unfold mul_term, T.
    destruct (Nat.leb_spec i k), (Nat.ltb_spec k (i + length b)); simpl; try reflexivity.
    rewrite (coeff_overflow O b (k - i)) by lia. ring.
  - rewrite E2. unfold PolyCoeff.conv.
    apply (gsum_ext O). intros i Hi. unfold T. destruct (Nat.leb_spec i k); [reflexivity|lia].
Qed.

(* exact long division stated with the crate's own product *)
Corollary div_mul_exact q0 b a :
  coeff b (degree_of O b) <> zero -> (exists j, coeff q0 j <> zero) -> mul O q0 b = Ok a ->
  exists q aw, div_full O a b = Ok (q, aw) /\
    (forall k, coeff q k = coeff q0 k) /\ (forall k, coeff (firstn (degree_of O b) aw) k = zero) /\
    length q = degree_of O q0 + 1.
Proof.
  intros Hb Hq Hm. destruct (div_exact a b q0 Hb Hq (mul_coeff q0 b a Hm)) as (q & aw & H1 & H2 & H3 & _ & H5).
  exists q, aw. auto.
Qed.

(* the divisor x^a - b as a coefficient list, and the corollary with the crate's own product *)
Definition xa_minus_b (a : nat) (b : F) : list F := fneg O b :: repeat zero (a - 1) ++ [one].

Lemma coeff_xa_minus_b a b j : 1 <= a ->
  coeff (xa_minus_b a b) j = if j =? 0 then fneg O b else if j =? a then one else zero.
Proof.
  intros Ha. unfold xa_minus_b, PolyCoeff.coeff. destruct j as [|j]; [reflexivity|]. cbn [nth]. change (S j =? 0) with false. cbv iota.
  destruct (Nat.lt_ge_cases j (a - 1)).
  - rewrite app_nth1 by now rewrite repeat_length. rewrite nth_repeat_zero_gen.
    destruct (Nat.eqb_spec (S j) a); [lia|reflexivity].
  - rewrite app_nth2 by now rewrite repeat_length. rewrite repeat_length.
    destruct (Nat.eqb_spec (S j) a).
    + replace (j - (a - 1)) with 0 by lia. reflexivity.
    + destruct (j - (a - 1)) as [|d] eqn:E; [lia|]. simpl. now destruct d.
Qed.

Lemma conv_xa_minus_b q a b k : 1 <= a ->
  conv q (xa_minus_b a b) k = (if a <=? k then coeff q (k - a) else zero) -f b *f coeff q k.
Proof.
  intros Ha. unfold PolyCoeff.conv.
  rewrite (gsum_ext O _ (fun i => (if i =? k then fneg O b *f coeff q k else zero)
                                   +f (if (a <=? k) && (i =? k - a) then coeff q (k - a) else zero))).
  2: { intros i Hi. rewrite coeff_xa_minus_b by assumption.
       destruct (Nat.eqb_spec i k) as [Eik|Eik].
       - rewrite Eik, Nat.sub_diag. simpl (0 =? 0).
         destruct (Nat.leb_spec a k), (Nat.eqb_spec k (k - a)); simpl; try lia; ring.
       - destruct (Nat.eqb_spec (k - i) 0); [lia|].
         destruct (Nat.eqb_spec (k - i) a) as [Ea|Ea].
         + destruct (Nat.leb_spec a k); [|lia]. destruct (Nat.eqb_spec i (k - a)) as [Ei|Ei]; [|lia].
           simpl. rewrite Ei. ring.
         + destruct (Nat.leb_spec a k); simpl; [|ring].
           destruct (Nat.eqb_spec i (k - a)); [lia|ring]. }
  rewrite (gsum_add O L).
  rewrite (gsum_single O L (fun i => if i =? k then fneg O b *f coeff q k else zero) k)
    by (intros i _ Hi; destruct (Nat.eqb_spec i k); [lia|reflexivity]).
  rewrite (gsum_single O L (fun i => if (a <=? k) && (i =? k - a) then coeff q (k - a) else zero) (k - a))
    by (intros i _ Hi; destruct (Nat.eqb_spec i (k - a)); [lia|]; now rewrite andb_false_r).
  destruct (Nat.ltb_spec k (S k)); [|lia]. destruct (Nat.ltb_spec (k - a) (S k)); [|lia].
  rewrite !Nat.eqb_refl, andb_true_r. destruct (a <=? k); ring.
Qed.

Corollary syn_div_mul_exact q a b p : 2 <= a -> b <> zero -> q <> [] -> mul O q (xa_minus_b a b) = Ok p ->
  syn_div_in_place_full O p a b = Ok (q ++ repeat zero a, repeat zero a).
Proof.
  intros Ha Hb Hq Hm.
  assert (Hl : length p = length q + a).
  { rewrite (mul_length O L _ _ _ Hm). unfold xa_minus_b. simpl. rewrite app_length, repeat_length. simpl. lia. }
  rewrite (syn_div_exact_gen p a b q Ha Hb ltac:(lia) Hq).
  - replace (length p - a - length q) with 0 by lia. simpl. now rewrite app_nil_r.
  - intros k. rewrite (mul_coeff _ _ _ Hm). apply conv_xa_minus_b. lia.
Qed.

End Exact.
