(* f62 exponentiation (square-and-multiply over the bits of a u64 exponent, generated term
   f62_exp of Gen/F62.v) equals the integer power modulo M for every exponent. *)
From Coq Require Import ZArith Lia Zdiv Bool List Setoid Morphisms.
From VBase Require Import MachInt.
From VGen Require Import F62.
From VProofs Require Import F62Ops.
Open Scope Z_scope.

(* invariant rule for the ascending for loop *)
Lemma for_up_nat_ind {S : Type} (P : Z -> S -> Prop) (body : Z -> S -> S) lo :
  forall (n : nat) s, P lo s ->
  (forall i s, lo <= i < lo + Z.of_nat n -> P i s -> P (i + 1) (body i s)) ->
  P (lo + Z.of_nat n)
    (fold_left (fun acc i => body i acc) (map (fun i => lo + Z.of_nat i) (seq 0 n)) s).
Proof.
  induction n as [|n IH]; intros s H0 Hstep.
  - cbn. rewrite Z.add_0_r. exact H0.
  - rewrite seq_S, map_app, fold_left_app. cbn [map fold_left plus].
    rewrite Nat2Z.inj_succ. replace (lo + Z.succ (Z.of_nat n)) with (lo + Z.of_nat n + 1) by lia.
    apply Hstep; [lia|]. apply IH; [exact H0|].
    intros i s' Hi. apply Hstep. lia.
Qed.

Lemma for_up_ind {S : Type} (P : Z -> S -> Prop) (body : Z -> S -> S) lo hi s :
  lo <= hi -> P lo s ->
  (forall i s, lo <= i < hi -> P i s -> P (i + 1) (body i s)) ->
  P hi (for_up lo hi body s).
Proof.
  intros Hle H0 Hstep. unfold for_up, zrange.
  pose proof (for_up_nat_ind P body lo (Z.to_nat (hi - lo)) s H0) as H.
  replace (lo + Z.of_nat (Z.to_nat (hi - lo))) with hi in H by lia.
  apply H. exact Hstep.
Qed.

Lemma pow_mod_mul a e1 e2 : 0 <= e1 -> 0 <= e2 ->
  ((a ^ e1) mod M62 * ((a ^ e2) mod M62)) mod M62 = (a ^ (e1 + e2)) mod M62.
Proof.
  intros H1 H2. rewrite <- Z.mul_mod by (unfold M62; lia). now rewrite Z.pow_add_r.
Qed.

Lemma mod_pow2_succ p i : 0 <= i -> p mod 2 ^ (i + 1) = p mod 2 ^ i + 2 ^ i * ((p / 2 ^ i) mod 2).
Proof.
  intros Hi. rewrite Z.pow_add_r, Z.pow_1_r by lia.
  apply Z.rem_mul_r; [apply Z.pow_nonzero; lia|lia].
Qed.

Theorem f62_exp_spec a p : repr62 a -> 0 <= p < 2^64 ->
  repr62 (f62_exp a p) /\ val62 (f62_exp a p) = (val62 a ^ p) mod M62.
Proof.
  intros Ha Hp. unfold f62_exp. cbv zeta.
  destruct (Z.eqb_spec p 0) as [->|Hp0].
  { split; [exact repr62_ONE|]. rewrite val62_ONE. reflexivity. }
  rewrite f62_eq_spec by (exact Ha || exact repr62_ZERO). rewrite val62_ZERO.
  destruct (Z.eqb_spec (val62 a) 0) as [Hz|Hnz].
  { split; [exact repr62_ZERO|]. rewrite val62_ZERO, Hz, Z.pow_0_l by lia. reflexivity. }
  set (A := val62 a).
  assert (HA : 0 <= A < M62) by apply val62_range.
  (* the loop bound *)
  assert (Hlog : 0 <= Z.log2 p < 64).
  { split; [apply Z.log2_nonneg|]. apply Z.log2_lt_pow2; lia. }
  assert (Hhi : wrap 32 (64 - clz 64 p) = Z.log2 p + 1).
  { unfold clz. destruct (Z.leb_spec p 0) as [H|H]; [lia|].
    replace (64 - (64 - (Z.log2 p + 1))) with (Z.log2 p + 1) by ring.
    apply wrap_small. lia. }
  rewrite Hhi.
  set (body := fun (i : Z) '(b, r) =>
      (f62_mul b b, if Z.land (shr p i) 1 =? 1 then f62_mul r (f62_mul b b) else r)).
  set (r0 := if Z.land p 1 =? 1 then a else f62_ONE).
  pose (P := fun (i : Z) (s : Z * Z) =>
      repr62 (fst s) /\ repr62 (snd s) /\
      val62 (fst s) = (A ^ (2 ^ (i - 1))) mod M62 /\ val62 (snd s) = (A ^ (p mod 2 ^ i)) mod M62).
  assert (HP : P (Z.log2 p + 1) (for_up 1 (Z.log2 p + 1) body (a, r0))).
  { apply for_up_ind; [lia| |].
    - (* initially *)
      unfold P, r0. cbn [fst snd]. rewrite land_1_mod2.
      change (2 ^ (1 - 1)) with 1. change (2 ^ 1) with 2. rewrite Z.pow_1_r.
      fold A. rewrite (Z.mod_small A) by exact HA.
      split; [exact Ha|].
      assert (Hm : p mod 2 = 0 \/ p mod 2 = 1) by (pose proof (Z.mod_pos_bound p 2); lia).
      destruct Hm as [Hm|Hm]; rewrite Hm; cbn [Z.eqb Pos.eqb].
      + split; [exact repr62_ONE|]. split; [reflexivity|]. rewrite val62_ONE. reflexivity.
      + split; [exact Ha|]. split; [reflexivity|]. rewrite Z.pow_1_r. fold A. symmetry. apply Z.mod_small; exact HA.
    - (* step *)
      intros i [b r] Hi (Hb & Hr & Hvb & Hvr). cbn [fst snd] in *.
      unfold P, body. cbn [fst snd].
      destruct (f62_mul_spec b b Hb Hb) as [Hb2 Hvb2].
      assert (Hvb2' : val62 (f62_mul b b) = (A ^ (2 ^ (i + 1 - 1))) mod M62).
      { rewrite Hvb2, Hvb. rewrite pow_mod_mul by (apply Z.pow_nonneg; lia).
        f_equal. f_equal. replace (i + 1 - 1) with (i - 1 + 1) by ring.
        rewrite Z.pow_add_r by lia. change (2 ^ 1) with 2. ring. }
      rewrite land_1_mod2. unfold shr. rewrite (mod_pow2_succ p i) by lia.
      assert (Hm : (p / 2 ^ i) mod 2 = 0 \/ (p / 2 ^ i) mod 2 = 1)
        by (pose proof (Z.mod_pos_bound (p / 2 ^ i) 2); lia).
      assert (Hpm : 0 <= p mod 2 ^ i) by (apply Z.mod_pos_bound, Z.pow_pos_nonneg; lia).
      destruct Hm as [Hm|Hm]; rewrite Hm; cbn [Z.eqb Pos.eqb].
      + split; [exact Hb2|]. split; [exact Hr|]. split; [exact Hvb2'|].
        rewrite Hvr. f_equal. f_equal. ring.
      + destruct (f62_mul_spec r (f62_mul b b) Hr Hb2) as [Hr2 Hvr2].
        split; [exact Hb2|]. split; [exact Hr2|]. split; [exact Hvb2'|].
        rewrite Hvr2, Hvr, Hvb2'. rewrite pow_mod_mul by (try apply Z.pow_nonneg; lia).
        f_equal. f_equal. replace (i + 1 - 1) with i by ring. ring. }
  destruct (for_up 1 (Z.log2 p + 1) body (a, r0)) as [b r].
  destruct HP as (_ & Hr & _ & Hvr). cbn [fst snd] in *.
  split; [exact Hr|]. rewrite Hvr. f_equal. f_equal.
  apply Z.mod_small. split; [lia|].
  replace (Z.log2 p + 1) with (Z.succ (Z.log2 p)) by lia. apply Z.log2_spec. lia.
Qed.
