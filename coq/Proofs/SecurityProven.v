(* C18: the proven security estimate is non-decreasing in queries / grinding / extension degree / collision
   resistance, for ANY float type whose operations are monotone in the arguments listed below (Section
   hypotheses; they become explicit premises of the theorems once the Section is closed).  Order-theoretic proof
   through the saturating casts, min, `x - 1 or 0`, and the max_by_key over the proximity parameter m. *)
From VBase Require Import MachInt.
From VGen Require Import Security.
From VModel Require Import SecurityModel.
Open Scope Z_scope.

Section ProvenMono.
  Variable F : Type.
  Variables fadd fsub fmul fdiv fpow : F -> F -> F.
  Variables fneg fsqrt fceil flog2 : F -> F.
  Variable of_Z : Z -> F.
  Variable to_u64 : F -> Z.
  Variables c_half c_quarter c_1_5 : F.

  Variable fle : F -> F -> Prop.          (* the order on floats *)
  Variable unit_base : F -> Prop.         (* "0 < b <= 1": the bases for which b^x does not grow with x *)

  Hypothesis fle_refl : forall x, fle x x.
  (* u32/u64/usize -> f64 conversion is monotone *)
  Hypothesis of_Z_mono : forall a b, a <= b -> fle (of_Z a) (of_Z b).
  (* the saturating cast `as u64` is monotone *)
  Hypothesis to_u64_mono : forall x y, fle x y -> to_u64 x <= to_u64 y.
  (* x - c is monotone in x, antitone in c;  c + x is monotone in x *)
  Hypothesis fsub_mono_l : forall a a' c, fle a a' -> fle (fsub a c) (fsub a' c).
  Hypothesis fsub_anti_r : forall a c c', fle c c' -> fle (fsub a c') (fsub a c).
  Hypothesis fadd_mono_r : forall a c c', fle c c' -> fle (fadd a c) (fadd a c').
  (* for a base b in the unit range, q |-> log2 (b ^ q) is antitone over the integer exponents the code can use
     (num_queries is 1..255): this is log2 monotone + b^x antitone in x, stated exactly on the range where it is used
     (and checked exhaustively on binary64 for every reachable base by checks/c18.py) *)
  Hypothesis query_chain_anti : forall b q q', unit_base b -> 1 <= q -> q <= q' -> q' <= 255 ->
    fle (flog2 (fpow b (of_Z q'))) (flog2 (fpow b (of_Z q))).

  Local Notation psm_core := (psm_core F fadd fsub fmul fdiv fpow fneg fsqrt fceil flog2 of_Z to_u64 c_half c_1_5).
  Local Notation psm := (proven_security_protocol_for_m F fadd fsub fmul fdiv fpow fneg fsqrt fceil flog2 of_Z to_u64 c_half c_1_5).
  Local Notation query_base := (psm_query_base F fadd fsub fmul fdiv fsqrt fceil of_Z c_half).
  Local Notation upper_m := (compute_upper_m F fadd fmul fdiv fsqrt fceil of_Z to_u64 c_quarter).
  Local Notation gps := (get_proven_security F fadd fsub fmul fdiv fpow fneg fsqrt fceil flog2 of_Z to_u64 c_half c_quarter c_1_5).

  Lemma dec_or_zero_mono x y : x <= y -> dec_or_zero x <= dec_or_zero y.
  Proof. unfold dec_or_zero. intros H. destruct (Z.ltb_spec x 1), (Z.ltb_spec y 1); lia. Qed.

  Lemma dec_or_zero_nonneg x : 0 <= dec_or_zero x.
  Proof. unfold dec_or_zero. destruct (Z.ltb_spec x 1); lia. Qed.

  Lemma int_shape_mono a1 a2 a3 a4 b1 b2 b3 b4 :
    a1 <= b1 -> a2 <= b2 -> a3 <= b3 -> a4 <= b4 ->
    (if Z.min a1 a2 <? 1 then 0 else dec_or_zero (Z.min (Z.min (Z.min a1 a2 - 1) a3) a4)) <=
    (if Z.min b1 b2 <? 1 then 0 else dec_or_zero (Z.min (Z.min (Z.min b1 b2 - 1) b3) b4)).
  Proof.
    intros H1 H2 H3 H4.
    destruct (Z.ltb_spec (Z.min a1 a2) 1), (Z.ltb_spec (Z.min b1 b2) 1).
    - lia.
    - apply dec_or_zero_nonneg.
    - lia.
    - apply dec_or_zero_mono. lia.
  Qed.

  (* the per-m estimate is monotone in (E, G) and, given the power inequality, in Q *)
  Lemma psm_core_mono E E' Q Q' G G' b tl m :
    fle E E' -> fle G G' ->
    fle (flog2 (fpow (query_base b tl m) Q')) (flog2 (fpow (query_base b tl m) Q)) ->
    psm_core E Q G b tl m <= psm_core E' Q' G' b tl m.
  Proof.
    intros HE HG HP.
    unfold SecurityModel.psm_core, psm_query_base, psm_theta_plus in *. cbv zeta in *.
    apply int_shape_mono.
    - apply to_u64_mono, fsub_mono_l, HE.
    - eapply Z.le_trans.
      + apply to_u64_mono, fsub_mono_l, HG.
      + apply to_u64_mono, fsub_anti_r, HP.
    - apply to_u64_mono, fadd_mono_r, HE.
    - apply to_u64_mono, fadd_mono_r, HE.
  Qed.

  Lemma psm_core_nonneg E Q G b tl m : 0 <= psm_core E Q G b tl m.
  Proof.
    unfold SecurityModel.psm_core. cbv zeta.
    match goal with |- 0 <= (if ?c then _ else _) => destruct c end; [lia | apply dec_or_zero_nonneg].
  Qed.

  (* ---- max_by_key ---- *)
  Lemma max_by_key_aux (key : Z -> Z) : forall l best,
    match fold_left (fun best a => match best with
                                   | None => Some a
                                   | Some b => if key a <? key b then Some b else Some a
                                   end) l best with
    | None => best = None /\ l = []
    | Some m => (best = Some m \/ In m l) /\ (forall a, In a l -> key a <= key m) /\
                (forall b, best = Some b -> key b <= key m)
    end.
  Proof.
    induction l as [|a l IH]; intros best; cbn [fold_left].
    - destruct best as [b|].
      + split; [left; reflexivity | split; [intros a [] | intros b' E; inversion E; lia]].
      + split; reflexivity.
    - set (best' := match best with None => Some a | Some b => if key a <? key b then Some b else Some a end).
      specialize (IH best').
      destruct (fold_left _ l best') as [m|] eqn:R.
      + destruct IH as [Hin [Hall Hbest]].
        assert (Ka : key a <= key m).
        { subst best'. destruct best as [b|].
          - destruct (Z.ltb_spec (key a) (key b)).
            + specialize (Hbest b eq_refl). lia.
            + apply (Hbest a eq_refl).
          - apply (Hbest a eq_refl). }
        split; [ | split].
        * destruct Hin as [Hin | Hin]; [ | right; right; exact Hin].
          subst best'. destruct best as [b|].
          -- destruct (key a <? key b); inversion Hin; subst; [left; reflexivity | right; left; reflexivity].
          -- inversion Hin. right. left. reflexivity.
        * intros x [<- | Hx]; [exact Ka | apply Hall, Hx].
        * intros b Eb. subst best. subst best'. cbn in Hbest.
          destruct (Z.ltb_spec (key a) (key b)).
          -- apply (Hbest b eq_refl).
          -- specialize (Hbest a eq_refl). lia.
      + destruct IH as [Hb _]. subst best'. destruct best as [b|]; [destruct (key a <? key b) | ]; discriminate.
  Qed.

  Lemma max_by_key_spec key l m : max_by_key key l = Some m ->
    In m l /\ forall a, In a l -> key a <= key m.
  Proof.
    unfold max_by_key. intros H. pose proof (max_by_key_aux key l None) as A. rewrite H in A.
    destruct A as [[C | Hin] [Hall _]]; [discriminate | split; assumption].
  Qed.

  Lemma max_by_key_none key l : max_by_key key l = None <-> l = [].
  Proof.
    unfold max_by_key. split.
    - intros H. pose proof (max_by_key_aux key l None) as A. rewrite H in A. apply A.
    - intros ->. reflexivity.
  Qed.

  Lemma max_by_key_mono key key' l m m' :
    (forall a, In a l -> key a <= key' a) ->
    max_by_key key l = Some m -> max_by_key key' l = Some m' -> key m <= key' m'.
  Proof.
    intros Hle H H'. apply max_by_key_spec in H. apply max_by_key_spec in H'.
    destruct H as [Hin _], H' as [_ Hall']. specialize (Hall' m Hin). specialize (Hle m Hin). lia.
  Qed.

  (* ---- get_proven_security ---- *)
  Lemma gps_mono o o' bits tl cr cr' v v' :
    0 <= cr <= cr' -> cr' < 2 ^ 32 ->
    (forall m, In m (zrange 3 (upper_m tl)) -> psm o bits tl m <= psm o' bits tl m) ->
    gps o bits tl cr = Some v -> gps o' bits tl cr' = Some v' -> v <= v'.
  Proof.
    intros Hcr Hcr' Hle. unfold SecurityModel.get_proven_security. cbv zeta.
    destruct (max_by_key (psm o bits tl) _) as [m|] eqn:M; [ | discriminate].
    destruct (max_by_key (psm o' bits tl) _) as [m'|] eqn:M'; [ | discriminate].
    intros E E'. inversion E. inversion E'. subst v v'.
    pose proof (max_by_key_mono _ _ _ _ _ Hle M M') as K.
    assert (N : 0 <= psm o bits tl m) by apply psm_core_nonneg.
    assert (N' : 0 <= psm o' bits tl m') by apply psm_core_nonneg.
    rewrite !wrap_small; lia.
  Qed.

  (* the estimate is defined for o iff it is for o': the range of m depends on the trace length only *)
  Lemma gps_defined_same o o' bits bits' tl cr cr' :
    gps o bits tl cr = None <-> gps o' bits' tl cr' = None.
  Proof.
    unfold SecurityModel.get_proven_security. cbv zeta.
    destruct (max_by_key (psm o bits tl) _) as [m|] eqn:M;
      destruct (max_by_key (psm o' bits' tl) _) as [m'|] eqn:M'; split; intros H; try discriminate; try reflexivity.
    - apply max_by_key_none in M'. rewrite M' in M. discriminate.
    - apply max_by_key_none in M. rewrite M in M'. discriminate.
  Qed.

  Definition bits_ok (bits : Z) : Prop := 0 <= bits /\ bits * 3 < 2 ^ 32.

  Lemma ext_bits_mono bits e e' : bits_ok bits -> fe_degree e <= fe_degree e' ->
    fle (of_Z (wrap 32 (bits * fe_degree e))) (of_Z (wrap 32 (bits * fe_degree e'))).
  Proof.
    intros [H0 H3] Hd. apply of_Z_mono.
    assert (1 <= fe_degree e <= 3) by (destruct e; cbn; lia).
    assert (1 <= fe_degree e' <= 3) by (destruct e'; cbn; lia).
    rewrite !wrap_small; nia.
  Qed.

  Theorem proven_monotone_queries o o' bits tl cr v v' :
    0 <= cr < 2 ^ 32 ->
    po_blowup_factor o' = po_blowup_factor o -> po_grinding_factor o' = po_grinding_factor o ->
    po_field_extension o' = po_field_extension o ->
    1 <= po_num_queries o -> po_num_queries o <= po_num_queries o' -> po_num_queries o' <= 255 ->
    (forall m, In m (zrange 3 (upper_m tl)) -> unit_base (query_base (po_blowup_factor o) tl m)) ->
    gps o bits tl cr = Some v -> gps o' bits tl cr = Some v' -> v <= v'.
  Proof.
    intros Hcr Eb Eg Ee Hq1 Hq Hq2 Hu. apply gps_mono; try lia.
    intros m Hm. unfold SecurityModel.proven_security_protocol_for_m. rewrite Eb, Eg, Ee.
    apply psm_core_mono; try apply fle_refl.
    apply query_chain_anti; [apply Hu, Hm | assumption ..].
  Qed.

  Theorem proven_monotone_grinding o o' bits tl cr v v' :
    0 <= cr < 2 ^ 32 ->
    po_blowup_factor o' = po_blowup_factor o -> po_num_queries o' = po_num_queries o ->
    po_field_extension o' = po_field_extension o ->
    po_grinding_factor o <= po_grinding_factor o' ->
    gps o bits tl cr = Some v -> gps o' bits tl cr = Some v' -> v <= v'.
  Proof.
    intros Hcr Eb Eq Ee Hg. apply gps_mono; try lia.
    intros m Hm. unfold SecurityModel.proven_security_protocol_for_m. rewrite Eb, Eq, Ee.
    apply psm_core_mono; try apply fle_refl. apply of_Z_mono, Hg.
  Qed.

  Theorem proven_monotone_degree o o' bits tl cr v v' :
    0 <= cr < 2 ^ 32 -> bits_ok bits ->
    po_blowup_factor o' = po_blowup_factor o -> po_num_queries o' = po_num_queries o ->
    po_grinding_factor o' = po_grinding_factor o ->
    fe_degree (po_field_extension o) <= fe_degree (po_field_extension o') ->
    gps o bits tl cr = Some v -> gps o' bits tl cr = Some v' -> v <= v'.
  Proof.
    intros Hcr Hb Eb Eq Eg Hd. apply gps_mono; try lia.
    intros m Hm. unfold SecurityModel.proven_security_protocol_for_m. rewrite Eb, Eq, Eg.
    apply psm_core_mono; try apply fle_refl. apply ext_bits_mono; assumption.
  Qed.

  Theorem proven_monotone_cr o bits tl cr cr' v v' :
    0 <= cr <= cr' -> cr' < 2 ^ 32 ->
    gps o bits tl cr = Some v -> gps o bits tl cr' = Some v' -> v <= v'.
  Proof. intros Hcr Hcr'. apply gps_mono; try lia. Qed.

  (* the result never exceeds the collision resistance *)
  Theorem proven_le_cr o bits tl cr v : 0 <= cr < 2 ^ 32 -> gps o bits tl cr = Some v -> 0 <= v <= cr.
  Proof.
    intros Hcr. unfold SecurityModel.get_proven_security. cbv zeta.
    destruct (max_by_key _ _) as [m|]; [ | discriminate]. intros E. inversion E.
    assert (N : 0 <= psm o bits tl m) by apply psm_core_nonneg.
    rewrite wrap_small; lia.
  Qed.
End ProvenMono.

(* ------------------------------------------------------------------------------------------------ *)
(* Non-vacuity: the hypotheses are satisfiable together (F := Z with integer stand-ins for the operations), the
   estimate is defined there, and it moves. *)
Module ZInst.
  Definition zpow (b x : Z) : Z := if x <=? 0 then 1 else b ^ x.
  Definition zgps := get_proven_security Z Z.add Z.sub Z.mul Z.div zpow Z.opp Z.sqrt (fun x => x) Z.log2
                       (fun x => x) (fun x => Z.max 0 (Z.min x (2 ^ 64 - 1))) 0 1 1.
  Definition unit_base (b : Z) : Prop := 0 <= b <= 1.

  Lemma zpow_anti b x y : unit_base b -> x <= y -> zpow b y <= zpow b x.
  Proof.
    unfold unit_base, zpow. intros Hb Hxy.
    destruct (Z.leb_spec x 0), (Z.leb_spec y 0); try lia.
    - assert (b = 0 \/ b = 1) as [-> | ->] by lia.
      + rewrite Z.pow_0_l by lia. lia.
      + rewrite Z.pow_1_l by lia. lia.
    - assert (b = 0 \/ b = 1) as [-> | ->] by lia.
      + rewrite !Z.pow_0_l by lia. lia.
      + rewrite !Z.pow_1_l by lia. lia.
  Qed.

  Lemma hyps_satisfiable :
    (forall x : Z, x <= x) /\
    (forall a b : Z, a <= b -> (fun x => x) a <= (fun x => x) b) /\
    (forall x y : Z, x <= y -> Z.max 0 (Z.min x (2 ^ 64 - 1)) <= Z.max 0 (Z.min y (2 ^ 64 - 1))) /\
    (forall x : Z, 0 <= Z.max 0 (Z.min x (2 ^ 64 - 1)) < 2 ^ 64) /\
    (forall a a' c : Z, a <= a' -> a - c <= a' - c) /\
    (forall a c c' : Z, c <= c' -> a - c' <= a - c) /\
    (forall a c c' : Z, c <= c' -> a + c <= a + c') /\
    (forall b q q' : Z, unit_base b -> 1 <= q -> q <= q' -> q' <= 255 ->
       Z.log2 (zpow b ((fun x => x) q')) <= Z.log2 (zpow b ((fun x => x) q))).
  Proof.
    repeat split; intros; try lia.
    apply Z.log2_le_mono. apply zpow_anti; assumption.
  Qed.

  Example zgps_defined_and_moves :
    zgps (mkProofOptions 30 8 0 FeCubic 8 127) 64 1024 100 = Some 0 /\
    zgps (mkProofOptions 30 8 20 FeCubic 8 127) 64 1024 100 = Some 18 /\
    zgps (mkProofOptions 30 8 20 FeCubic 8 127) 64 1024 10 = Some 10.
  Proof. vm_compute. repeat split. Qed.
End ZInst.
