(* C01 — non-vacuity of the instantiated capstone `stark_complete` (Proofs/StarkInst.v): a concrete instance over Z/17
   in which EVERY hypothesis holds — Merkle model of C10 with D = Z, FFT interpolation of C09 over the coset 3*<4>
   (constraint evaluation domain of 4 points), the symbolic transcript of C04, a transparent FRI. *)
From Coq Require Import List Arith Bool ZArith Lia Ring Field.
From VBase Require Import FieldOps ZpOps.
From VModel Require Import Stark.
From VModel Require FFT Transcript.
From VProofs Require Import NumTheoryFermat NumTheoryPrime ZpLaws StarkPoly StarkDeep StarkComplete StarkInst StarkExamples.
From VProofs Require FFTSpec FFTEval FFTOffset TranscriptExamples.
From VProps Require C09.
Import ListNotations.
Open Scope nat_scope.

Definition T2 : list (Zp 17%Z) := [e17 5%Z; fzero O17].       (* one constant column, trace length 2 *)
Definition g2 : Zp 17%Z := e17 16%Z.                          (* trace domain generator, order 2 *)
Definition w4 : Zp 17%Z := e17 4%Z.                           (* CE domain generator, order 4; g2 = w4^2 *)
Definition lde4 : list (Zp 17%Z) := [e17 3%Z; e17 12%Z; e17 14%Z; e17 5%Z].   (* 3 * <4> *)
Definition coin2 : @Coin (Zp 17%Z) := mkCoin (e17 6%Z) [e17 7%Z] [e17 11%Z] [e17 3%Z; e17 5%Z].
Definition air2 (x : Zp 17%Z) (cur nxt : list (Zp 17%Z)) : Zp 17%Z :=
  fadd O17
    (fmul O17 (fmul O17 (fsub O17 (nth 0 nxt (fzero O17)) (nth 0 cur (fzero O17))) (pprod O17 (exempt O17 g2 2 1) x))
              (finv O17 (fsub O17 (fpow O17 x 2) (fone O17))))
    (fmul O17 (fsub O17 (nth 0 cur (fzero O17)) (e17 5%Z)) (finv O17 (fsub O17 x (fone O17)))).

Lemma T2_eval x : peval O17 T2 x = e17 5%Z.
Proof. unfold T2. cbn [Stark.peval]. ring. Qed.

Definition rou2 (k : nat) : Zp 17%Z := match k with 2 => w4 | 1 => g2 | _ => fone O17 end.
Definition itw2 : list (Zp 17%Z) := match FFT.get_inv_twiddles O17 4 rou2 (2 ^ 2) with Some l => l | None => [] end.
Definition fri_v (pf : list (Zp 17%Z)) (_ : nat) (xs evs : list (Zp 17%Z)) : bool := leqb evs (map (peval O17 pf) xs).
Lemma ex_depth : 1 <= 2 <= 62. Proof. lia. Qed.
Lemma ex_len : length lde4 = 2 ^ 2. Proof. reflexivity. Qed.
Lemma ex_ta : 2 <= 4. Proof. lia. Qed.
Lemma ex_rou : rou2 2 = w4. Proof. reflexivity. Qed.
Lemma ex_root : FFTSpec.root_cond O17 2 w4. Proof. cbn [FFTSpec.root_cond]. zp_eq. Qed.
Lemma ex_get : FFT.get_inv_twiddles O17 4 rou2 (2 ^ 2) = Some itw2.
Proof.
  destruct (VProps.C09.C09_get_inv_twiddles _ O17 L17 4 rou2 1 w4 ex_ta ex_rou ex_root) as (itw' & E & _).
  unfold itw2. rewrite E. reflexivity.
Qed.
Lemma ex_off : e17 3%Z <> fzero O17. Proof. intros E. zp_neq E. Qed.
Lemma ex_ninv : fmul O17 (FFTSpec.two_pow_f O17 2) (FFTOffset.n_inv O17 2) = fone O17. Proof. zp_eq. Qed.
Lemma ex_fri : forall d xs, length d = 2 -> last d (fzero O17) = fzero O17 -> incl xs lde4 -> xs <> [] -> length xs <= 255 ->
  fri_v d (2 - 2) xs (map (peval O17 d) xs) = true.
Proof. intros d xs _ _ _ _ _. apply leqb_refl. Qed.

Example stark_complete_instance :
  exists pf,
    prove O17 Z (Opening Z) (list (Zp 17%Z)) (commit O17 Z 0%Z Z.add (fun _ => 0%Z) lde4) (open_prove O17 Z 0%Z Z.add (fun _ => 0%Z) lde4)
          (fun d _ => d) air2 (interp_ce O17 4 itw2 1 w4 (e17 3%Z))
          (mkParams 2 g2 1 false true) (coin_prover (fun _ => coin2) TranscriptExamples.s0) [T2] = Done pf /\
    verify O17 Z (Opening Z) (list (Zp 17%Z)) (open_ok O17 Z Z.eqb Z.add (fun _ => 0%Z) lde4)
           fri_v air2
           (mkParams 2 g2 1 false true) (coin_verifier (fun _ => coin2) TranscriptExamples.s0) pf = None.
Proof.
  apply (stark_complete O17 L17 Z Z.eqb Z.eqb_eq 0%Z Z.add (fun _ => 0%Z) lde4 2 ex_depth ex_len
           4 rou2 itw2 1 w4 (e17 3%Z) ex_ta ex_rou ex_root ex_get ex_off ex_ninv
           (list (Zp 17%Z)) (fun d _ => d) fri_v air2 (fun _ => coin2) 2 1 2 g2 ex_fri true TranscriptExamples.s0 [T2] 1 [] [([], [fone O17])]).
  all: cbn [coin_prover c_z c_xs coin2].
  - (* primitive_root g2 2 *) split; [zp_eq|]. intros i j Hi Hj E.
    destruct i as [|[|i]]; destruct j as [|[|j]]; try lia; try reflexivity; zp_neq E.
  - intros E. zp_neq E.
  - lia.
  - lia.
  - reflexivity.
  - lia.
  - discriminate.
  - repeat constructor.
  - lia.
  - intros i _. reflexivity.
  - simpl; lia.
  - constructor; [|constructor]. cbn [fst snd]. split; [repeat constructor; intros []|]. split.
    + intros r [<-|[]]. apply (In_domain O17). exists 0. split; [lia | reflexivity].
    + split; [intros r _; reflexivity | simpl; lia].
  - intros x _. unfold air2, combined. cbn [evals map nth bsum Stark.peval]. rewrite !T2_eval. ring.
  - intros H. apply (In_domain O17) in H. destruct H as (i & Hi & E). destruct i as [|[|i]]; [zp_neq E | zp_neq E | lia].
  - intros E. zp_neq E.
  - intros E. zp_neq E.
  - intros x [<-|[<-|[]]]; unfold lde4; simpl; tauto.
  - constructor; [intros [E|[]]; zp_neq E | constructor; [intros [] | constructor]].
  - discriminate.
  - simpl; lia.
  - intros x [<-|[<-|[]]]; split; intros E; zp_neq E.
Qed.
