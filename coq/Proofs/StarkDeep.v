(* C01 — the DEEP composition polynomial: the prover's construction (prover/src/composer/mod.rs) evaluates to
   what the verifier recomputes from the queried rows and the OOD frame (verifier/src/composer.rs), its
   quotients are polynomials, and its degree is AT MOST n - 2 (not always equal).  stdlib style. *)
From Coq Require Import List Arith Bool Lia Ring Field.
From VBase Require Import FieldOps.
From VModel Require Import Stark.
From VProofs Require Import StarkPoly.
Import ListNotations.

Section Deep.
Context {F : Type} (O : FOps F) (L : FLaws O).
Local Notation zero := (fzero O).
Local Notation one := (fone O).
Local Notation "a +f b" := (fadd O a b) (at level 50, left associativity).
Local Notation "a -f b" := (fsub O a b) (at level 50, left associativity).
Local Notation "a *f b" := (fmul O a b) (at level 40, left associativity).
Local Notation peval := (peval O).
Local Notation fpow := (fpow O).
Local Notation syn1 := (syn1 O).
Local Notation padd := (padd O).
Local Notation pscale := (pscale O).
Local Notation sub_const := (sub_const O).
Local Notation evals := (evals O).
Local Notation dot := (dot O).
Local Notation lincomb := (lincomb O).

Add Ring Fring2 : (FLaws_ring_theory O L).
Add Field Ffield2 : (FLaws_field_theory O L).

(* ------------------------------------------------------------------ list-polynomial operations *)
Lemma peval_padd : forall a b x, peval (padd a b) x = peval a x +f peval b x.
Proof. induction a as [|a0 a IH]; intros [|b0 b] x; simpl; try ring. rewrite IH. ring. Qed.
Lemma padd_length : forall a b, length (padd a b) = Nat.max (length a) (length b).
Proof. induction a as [|a0 a IH]; intros [|b0 b]; simpl; try reflexivity. now rewrite IH. Qed.
Lemma peval_pscale k p x : peval (pscale k p) x = peval p x *f k.
Proof. induction p; simpl; [ring | rewrite IHp; ring]. Qed.
Lemma pscale_length k p : length (pscale k p) = length p.
Proof. apply map_length. Qed.
Lemma peval_sub_const p c x : p <> [] -> peval (sub_const p c) x = peval p x -f c.
Proof. destruct p; [congruence|]. intros _. simpl. ring. Qed.
Lemma sub_const_length p c : length (sub_const p c) = length p.
Proof. destruct p; reflexivity. Qed.

Lemma last_padd : forall a b, length a = length b -> a <> [] -> last (padd a b) zero = last a zero +f last b zero.
Proof.
  induction a as [|a0 a IH]; intros [|b0 b] Hl Hn; try congruence; try (simpl in Hl; discriminate).
  destruct a as [|a1 a]; destruct b as [|b1 b]; try (simpl in Hl; discriminate).
  - reflexivity.
  - change (padd (a0 :: a1 :: a) (b0 :: b1 :: b)) with ((a0 +f b0) :: padd (a1 :: a) (b1 :: b)).
    assert (E : padd (a1 :: a) (b1 :: b) <> []) by (simpl; discriminate).
    destruct (padd (a1 :: a) (b1 :: b)) as [|u v] eqn:Eu; [congruence|].
    change (last ((a0 +f b0) :: u :: v) zero) with (last (u :: v) zero). rewrite <- Eu.
    rewrite IH by (simpl in *; try lia; discriminate). reflexivity.
Qed.
Lemma last_pscale k : forall p, last (pscale k p) zero = last p zero *f k.
Proof.
  induction p as [|c t IH]; [simpl; ring|]. destruct t as [|c1 t1]; [reflexivity|].
  change (pscale k (c :: c1 :: t1)) with ((c *f k) :: pscale k (c1 :: t1)).
  change (pscale k (c1 :: t1)) with ((c1 *f k) :: pscale k t1) in *.
  change (last (c *f k :: c1 *f k :: pscale k t1) zero) with (last (c1 *f k :: pscale k t1) zero).
  rewrite IH. reflexivity.
Qed.

(* ------------------------------------------------------------------ degree_of *)
Lemma allz_false_nonempty p : allz O p = false -> p <> [].
Proof. destruct p; simpl; congruence. Qed.

(* if the top coefficient is zero the degree is at most length - 2 *)
Lemma degree_of_top_zero : forall p, last p zero = zero -> degree_of O p <= length p - 2.
Proof.
  induction p as [|c t IH]; intros Hl; [simpl; lia|].
  cbn [Stark.degree_of]. destruct (allz O t) eqn:Ez; [lia|].
  destruct t as [|c1 t1]; [simpl in Ez; discriminate|].
  change (last (c :: c1 :: t1) zero) with (last (c1 :: t1) zero) in Hl.
  specialize (IH Hl).
  destruct t1 as [|c2 t2].
  - simpl in Hl. subst c1. simpl in Ez. rewrite (feqb_refl O L) in Ez. discriminate.
  - simpl in *. lia.
Qed.
Lemma degree_of_lt_length : forall p, p <> [] -> degree_of O p < length p.
Proof.
  induction p as [|c t IH]; intros Hn; [congruence|].
  cbn [Stark.degree_of]. destruct (allz O t) eqn:Ez; [simpl; lia|].
  specialize (IH (allz_false_nonempty t Ez)). simpl. lia.
Qed.

(* ------------------------------------------------------------------ linear combinations *)
Lemma lincomb_eval x : forall gs ps acc, peval (lincomb gs ps acc) x = peval acc x +f dot gs (evals ps x).
Proof.
  induction gs as [|g gs IH]; intros ps acc; [simpl; ring|].
  destruct ps as [|p ps]; [simpl; ring|].
  cbn [Stark.lincomb Stark.evals map Stark.dot]. fold (evals ps x). rewrite IH, peval_padd, peval_pscale. ring.
Qed.
Lemma lincomb_length n : forall gs ps acc, Forall (fun p => length p = n) ps -> length acc = n ->
  length (lincomb gs ps acc) = n.
Proof.
  induction gs as [|g gs IH]; intros ps acc Hps Hacc; [exact Hacc|].
  destruct ps as [|p ps]; [exact Hacc|]. inversion Hps; subst.
  cbn [Stark.lincomb]. apply IH; [assumption|]. rewrite padd_length, pscale_length. lia.
Qed.
Lemma lincomb_nonempty : forall gs ps acc, acc <> [] -> lincomb gs ps acc <> [].
Proof.
  induction gs as [|g gs IH]; intros ps acc H; [exact H|]. destruct ps as [|p ps]; [exact H|].
  cbn [Stark.lincomb]. apply IH. destruct acc; [congruence|]. destruct (pscale g p); simpl; discriminate.
Qed.

Lemma dot_sub x z : forall Ts gs,
  dot gs (map (fun p => fst p -f snd p) (combine (evals Ts x) (evals Ts z))) = dot gs (evals Ts x) -f dot gs (evals Ts z).
Proof.
  induction Ts as [|T Ts IH]; intros [|g gs]; simpl; try ring. unfold Stark.evals in *. rewrite IH. ring.
Qed.

(* ------------------------------------------------------------------ the trace part *)
Section TracePart.
Variables (n : nat) (g z : F) (gam : list F) (Ts : list (list F)).
Hypothesis Hn : 0 < n.

Let A (x : F) : F := dot gam (evals Ts x).
Let t (v : list F) : list F := sub_const (lincomb gam Ts (repeat zero n)) (dot gam v).

Lemma t_eval v x : peval (t v) x = A x -f dot gam v.
Proof.
  unfold t, A. rewrite peval_sub_const.
  - rewrite lincomb_eval, (peval_repeat_zero O L). ring.
  - apply lincomb_nonempty. destruct n; [lia | simpl; discriminate].
Qed.

(* (T(x) - T(w)) / (x - w) is a polynomial: the quotient computed by syn_div_in_place *)
Lemma deep_trace_quotient w x :
  (x -f w) *f peval (fst (syn1 (t (evals Ts w)) w)) x = A x -f A w.
Proof.
  rewrite <- (syn1_quotient O L), !t_eval. unfold A. ring.
Qed.

Theorem deep_trace_eval x : x <> z -> x <> z *f g ->
  peval (deep_trace O n g z gam Ts (evals Ts z) (evals Ts (z *f g))) x
  = v_trace O g z x gam (evals Ts x) (evals Ts z) (evals Ts (z *f g)).
Proof.
  intros H1 H2. unfold deep_trace, v_trace. fold (t (evals Ts z)) (t (evals Ts (z *f g))).
  rewrite peval_padd, !dot_sub. fold (A x) (A z) (A (z *f g)).
  pose proof (deep_trace_quotient z x) as Q1. pose proof (deep_trace_quotient (z *f g) x) as Q2.
  rewrite <- Q1, <- Q2.
  apply (fsub_neq_zero O L) in H1, H2. field. split; assumption.
Qed.

Hypothesis HTs : Forall (fun p => length p = n) Ts.

Lemma t_length v : length (t v) = n.
Proof. unfold t. rewrite sub_const_length. apply lincomb_length; [exact HTs | apply repeat_length]. Qed.

Lemma syn1_shape p w : length p = n -> length (fst (syn1 p w)) = n /\ last (fst (syn1 p w)) zero = zero.
Proof.
  intros Hp. destruct (syn1 p w) as [q c] eqn:E. destruct (syn1_spec O L w p q c E) as (_ & H2 & _ & H4).
  simpl. split; [lia|]. apply H4. destruct p; [simpl in Hp; lia | discriminate].
Qed.

Lemma deep_trace_shape cur nxt :
  length (deep_trace O n g z gam Ts cur nxt) = n /\ last (deep_trace O n g z gam Ts cur nxt) zero = zero.
Proof.
  unfold deep_trace. fold (t cur) (t nxt).
  destruct (syn1_shape (t cur) z (t_length cur)) as [L1 Z1].
  destruct (syn1_shape (t nxt) (z *f g) (t_length nxt)) as [L2 Z2].
  split. { rewrite padd_length, L1, L2. lia. }
  rewrite last_padd, Z1, Z2; [ring | lia |].
  destruct (fst (syn1 (t cur) z)); [simpl in L1; lia | discriminate].
Qed.
End TracePart.

(* ------------------------------------------------------------------ the constraint part *)
Lemma deep_constraints_eval z x : x <> z -> forall dl Hs acc,
  peval (deep_constraints O z dl Hs (evals Hs z) acc) x
  = peval acc x +f (dot dl (evals Hs x) -f dot dl (evals Hs z)) *f finv O (x -f z).
Proof.
  intros Hx. induction dl as [|d dl IH]; intros Hs acc. { simpl. ring. }
  destruct Hs as [|H Hs]. { simpl. ring. }
  cbn [Stark.evals map Stark.deep_constraints Stark.dot]. fold (evals Hs z) (evals Hs x).
  rewrite IH, peval_padd, peval_pscale.
  assert (E : (x -f z) *f peval (fst (syn1 (sub_const H (peval H z)) z)) x = peval H x -f peval H z).
  { rewrite <- (syn1_quotient O L). destruct H as [|h0 H].
    - simpl. ring.
    - rewrite !peval_sub_const by discriminate. ring. }
  apply (fsub_neq_zero O L) in Hx.
  assert (E2 : peval (fst (syn1 (sub_const H (peval H z)) z)) x = (peval H x -f peval H z) *f finv O (x -f z)).
  { rewrite <- E. field. exact Hx. }
  rewrite E2. ring.
Qed.

Lemma deep_constraints_shape n z : 0 < n -> forall dl Hs hz acc,
  Forall (fun p => length p = n) Hs -> length acc = n -> last acc zero = zero ->
  length (deep_constraints O z dl Hs hz acc) = n /\ last (deep_constraints O z dl Hs hz acc) zero = zero.
Proof.
  intros Hn. induction dl as [|d dl IH]; intros Hs hz acc HF Hl Hz. { simpl. auto. }
  destruct Hs as [|H Hs]. { simpl. auto. }
  destruct hz as [|h hz]. { simpl. auto. }
  pose proof (Forall_inv HF) as HH. pose proof (Forall_inv_tail HF) as HHs'. cbn beta in HH. cbn [Stark.deep_constraints].
  destruct (syn1_shape n Hn (sub_const H h) z) as [L1 Z1]. { rewrite sub_const_length. exact HH. }
  apply IH; [assumption | |].
  - rewrite padd_length, pscale_length, L1. lia.
  - rewrite last_padd, last_pscale, Z1, Hz; [ring | now rewrite pscale_length, L1 |].
    destruct acc; [simpl in Hl; lia | discriminate].
Qed.

(* ------------------------------------------------------------------ the whole DEEP polynomial *)
Section Whole.
Variables (n : nat) (g : F) (c : @Coin F) (Ts Hs : list (list F)).
Hypothesis Hn : 0 < n.
Let z := c_z c.
Let D := deep_poly O n g c Ts Hs (evals Ts z) (evals Ts (z *f g)) (evals Hs z).

(* query_consistency: what the verifier recomputes at a queried x from the opened rows and the OOD frame is the
   value of the prover's DEEP polynomial at x *)
Theorem query_consistency x : x <> z -> x <> z *f g ->
  peval D x = v_deep O g c x (evals Ts x) (evals Hs x) (evals Ts z) (evals Ts (z *f g)) (evals Hs z).
Proof.
  intros H1 H2. unfold D, deep_poly, v_deep, v_constraints. fold z.
  rewrite (deep_constraints_eval z x H1), (deep_trace_eval n g z (c_gamma c) Ts Hn x H1 H2), dot_sub. reflexivity.
Qed.

Hypothesis HTs : Forall (fun p => length p = n) Ts.
Hypothesis HHs : Forall (fun p => length p = n) Hs.

Theorem deep_shape cur nxt hz :
  length (deep_poly O n g c Ts Hs cur nxt hz) = n /\ last (deep_poly O n g c Ts Hs cur nxt hz) zero = zero.
Proof.
  unfold deep_poly. destruct (deep_trace_shape n g (c_z c) (c_gamma c) Ts Hn HTs cur nxt) as [L1 Z1].
  apply (deep_constraints_shape n); assumption.
Qed.

(* deep_degree_le: the degree is at most n - 2 ... *)
Theorem deep_degree_le cur nxt hz : degree_of O (deep_poly O n g c Ts Hs cur nxt hz) <= n - 2.
Proof. destruct (deep_shape cur nxt hz) as [L1 Z1]. rewrite <- L1 at 2. now apply degree_of_top_zero. Qed.

(* ... so the repaired assertion never fires *)
Corollary deep_assert_lax_holds cur nxt hz : deep_assert O false n (deep_poly O n g c Ts Hs cur nxt hz) = true.
Proof. unfold deep_assert. apply Nat.leb_le. apply deep_degree_le. Qed.
End Whole.


(* ------------------------------------------------------------------ degenerate (constant) traces *)
(* The DEEP polynomial of a trace all of whose columns are constant (and whose composition columns are
   constant, e.g. zero) is the ZERO polynomial, whatever the coin says: its degree is 0, not n - 2. *)
Definition zeros (p : list F) : Prop := Forall (eq zero) p.
Definition tail_zeros (p : list F) : Prop := zeros (tl p).

Lemma zeros_padd : forall a b, zeros a -> zeros b -> zeros (padd a b).
Proof.
  induction a as [|a0 a IH]; intros [|b0 b] Ha Hb; simpl; auto.
  inversion Ha; inversion Hb; subst. constructor; [ring | now apply IH].
Qed.
Lemma zeros_pscale k p : zeros p -> zeros (pscale k p).
Proof. induction 1; simpl; constructor; [subst; ring | assumption]. Qed.
Lemma tail_zeros_padd a b : tail_zeros a -> tail_zeros b -> tail_zeros (padd a b).
Proof. destruct a, b; simpl; auto. unfold tail_zeros. simpl. apply zeros_padd. Qed.
Lemma tail_zeros_pscale k p : tail_zeros p -> tail_zeros (pscale k p).
Proof. destruct p; simpl; auto. unfold tail_zeros. simpl. apply zeros_pscale. Qed.
Lemma zeros_tail_zeros p : zeros p -> tail_zeros p.
Proof. destruct 1; [constructor | assumption]. Qed.
Lemma zeros_repeat n : zeros (repeat zero n).
Proof. induction n; simpl; constructor; auto. Qed.
Lemma tail_zeros_lincomb : forall gs ps acc, Forall tail_zeros ps -> tail_zeros acc -> tail_zeros (lincomb gs ps acc).
Proof.
  induction gs as [|g gs IH]; intros ps acc Hps Hacc; [exact Hacc|]. destruct ps as [|p ps]; [exact Hacc|].
  inversion Hps; subst. cbn [Stark.lincomb]. apply IH; [assumption|]. apply tail_zeros_padd; [assumption|]. now apply tail_zeros_pscale.
Qed.
Lemma syn1_zeros r : forall p, zeros p -> zeros (fst (syn1 p r)) /\ snd (syn1 p r) = zero.
Proof.
  induction p as [|h t IH]; intros Hp; [simpl; split; [constructor | reflexivity]|].
  inversion Hp; subst. destruct (IH H2) as [Z1 Z2]. cbn [Stark.syn1]. destruct (syn1 t r) as [t' c]. simpl in *. subst c.
  split; [constructor; [reflexivity | assumption] | ring].
Qed.
Lemma syn1_tail_zeros r p : tail_zeros p -> zeros (fst (syn1 p r)).
Proof.
  destruct p as [|h t]; [constructor|]. unfold tail_zeros. simpl. intros Ht.
  destruct (syn1_zeros r t Ht) as [Z1 Z2]. destruct (syn1 t r) as [t' c]. simpl in *. subst c. constructor; [reflexivity | assumption].
Qed.
Lemma tail_zeros_sub_const p c : tail_zeros p -> tail_zeros (sub_const p c).
Proof. destruct p; simpl; auto. Qed.
Lemma zeros_allz p : zeros p -> allz O p = true.
Proof. induction 1; simpl; [reflexivity|]. subst. rewrite (feqb_refl O L). assumption. Qed.
Lemma zeros_degree p : zeros p -> degree_of O p = 0.
Proof. destruct 1; [reflexivity|]. cbn [Stark.degree_of]. now rewrite zeros_allz. Qed.

Lemma zeros_deep_constraints z : forall dl Hs hz acc, Forall tail_zeros Hs -> zeros acc -> zeros (deep_constraints O z dl Hs hz acc).
Proof.
  induction dl as [|d dl IH]; intros Hs hz acc HF Ha; [exact Ha|]. destruct Hs as [|H Hs]; [exact Ha|]. destruct hz as [|h hz]; [exact Ha|].
  inversion HF; subst. cbn [Stark.deep_constraints]. apply IH; [assumption|].
  apply zeros_padd; [assumption|]. apply zeros_pscale, syn1_tail_zeros, tail_zeros_sub_const. assumption.
Qed.

Theorem deep_constant_columns_zero n g (c : @Coin F) Ts Hs cur nxt hz :
  Forall tail_zeros Ts -> Forall tail_zeros Hs -> zeros (deep_poly O n g c Ts Hs cur nxt hz).
Proof.
  intros HT HH. unfold deep_poly. apply zeros_deep_constraints; [assumption|]. unfold deep_trace.
  apply zeros_padd; apply syn1_tail_zeros, tail_zeros_sub_const, tail_zeros_lincomb; try assumption;
    apply zeros_tail_zeros, zeros_repeat.
Qed.

(* deep_degree_eq_refuted, general form: for EVERY trace length n >= 3, every coin and every trace with constant
   columns and constant composition columns the snapshot's `assert_eq!(n - 2, degree)` fails *)
Theorem deep_assert_strict_fires n g (c : @Coin F) Ts Hs cur nxt hz : 3 <= n ->
  Forall tail_zeros Ts -> Forall tail_zeros Hs ->
  degree_of O (deep_poly O n g c Ts Hs cur nxt hz) = 0 /\ deep_assert O true n (deep_poly O n g c Ts Hs cur nxt hz) = false.
Proof.
  intros Hn HT HH. pose proof (zeros_degree _ (deep_constant_columns_zero n g c Ts Hs cur nxt hz HT HH)) as E.
  split; [exact E|]. unfold deep_assert. rewrite E. apply Nat.eqb_neq. lia.
Qed.

(* zero padding does not change degree_of (the debug assertion of `segment` looks at the padded interpolant) *)
Lemma allz_app_zeros k : forall a, allz O (a ++ repeat zero k) = allz O a.
Proof.
  induction a as [|c t IH]; simpl.
  - induction k; simpl; [reflexivity|]. now rewrite (feqb_refl O L).
  - now rewrite IH.
Qed.
Lemma degree_of_app_zeros k : forall a, degree_of O (a ++ repeat zero k) = degree_of O a.
Proof.
  induction a as [|c t IH].
  - simpl. apply zeros_degree. apply zeros_repeat.
  - cbn [app Stark.degree_of]. rewrite allz_app_zeros, IH. reflexivity.
Qed.

End Deep.
