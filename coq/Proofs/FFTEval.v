(* C09 stage (c), algebraic half: bit reversal, `permute`, twiddles, and the end-to-end theorems for the faithful
   model: evaluate_poly / evaluate_poly_with_offset / interpolate_poly(_with_offset) / infer_degree equal direct
   evaluation, for EVERY size 2^k.  stdlib style. *)
From Coq Require Import List Arith Bool ZArith Lia Ring Field.
From VBase Require Import FieldOps.
From VModel Require Import FFT.
From VProofs Require Import FFTSpec FFTRefine.
Import ListNotations.

(* ---------------------------------------------------------------- bit reversal on nat *)
Lemma rev_bits_lt : forall k i, rev_bits k i < 2 ^ k.
Proof.
  induction k as [|k IH]; intros i; cbn [rev_bits]; [cbn; lia|].
  specialize (IH (i / 2)). pose proof (Nat.mod_upper_bound i 2 ltac:(lia)).
  rewrite pow2_S. assert (i mod 2 = 0 \/ i mod 2 = 1) as [-> | ->] by lia; lia.
Qed.

Lemma div2_double i : (2 * i) / 2 = i.
Proof. rewrite Nat.mul_comm. apply Nat.div_mul. lia. Qed.
Lemma mod2_double i : (2 * i) mod 2 = 0.
Proof. rewrite Nat.mul_comm. apply Nat.mod_mul. lia. Qed.
Lemma div2_double1 i : (2 * i + 1) / 2 = i.
Proof. symmetry. apply Nat.div_unique with 1; lia. Qed.
Lemma mod2_double1 i : (2 * i + 1) mod 2 = 1.
Proof. symmetry. apply Nat.mod_unique with i; lia. Qed.

Lemma rev_bits_even k i : rev_bits (S k) (2 * i) = rev_bits k i.
Proof. cbn [rev_bits]. rewrite mod2_double, div2_double. lia. Qed.

Lemma rev_bits_odd k i : rev_bits (S k) (2 * i + 1) = 2 ^ k + rev_bits k i.
Proof. cbn [rev_bits]. rewrite mod2_double1, div2_double1. lia. Qed.

Lemma rev_bits_0 k : rev_bits k 0 = 0.
Proof.
  induction k as [|k IH]; [reflexivity|].
  change (rev_bits (S k) 0) with (2 ^ k * (0 mod 2) + rev_bits k (0 / 2)).
  change (0 / 2) with 0. change (0 mod 2) with 0. rewrite IH. lia.
Qed.

Lemma rev_bits_low : forall k i, i < 2 ^ k -> rev_bits (S k) i = 2 * rev_bits k i.
Proof.
  induction k as [|k IH]; intros i Hi.
  - cbn in Hi. assert (i = 0) by lia. subst. reflexivity.
  - change (rev_bits (S (S k)) i) with (2 ^ S k * (i mod 2) + rev_bits (S k) (i / 2)).
    rewrite IH.
    + change (rev_bits (S k) i) with (2 ^ k * (i mod 2) + rev_bits k (i / 2)). rewrite pow2_S. lia.
    + apply Nat.div_lt_upper_bound; [lia|]. rewrite pow2_S in Hi. lia.
Qed.

Lemma rev_bits_high : forall k i, i < 2 ^ k -> rev_bits (S k) (i + 2 ^ k) = 2 * rev_bits k i + 1.
Proof.
  induction k as [|k IH]; intros i Hi.
  - cbn in Hi. assert (i = 0) by lia. subst. reflexivity.
  - change (rev_bits (S (S k)) (i + 2 ^ S k))
      with (2 ^ S k * ((i + 2 ^ S k) mod 2) + rev_bits (S k) ((i + 2 ^ S k) / 2)).
    assert (E1 : (i + 2 ^ S k) mod 2 = i mod 2).
    { rewrite (pow2_S k). replace (i + (2 ^ k + 2 ^ k)) with (i + 2 ^ k * 2) by lia. apply Nat.mod_add. lia. }
    assert (E2 : (i + 2 ^ S k) / 2 = i / 2 + 2 ^ k).
    { rewrite (pow2_S k). replace (i + (2 ^ k + 2 ^ k)) with (i + 2 ^ k * 2) by lia. apply Nat.div_add. lia. }
    rewrite E1, E2, IH.
    + change (rev_bits (S k) i) with (2 ^ k * (i mod 2) + rev_bits k (i / 2)). rewrite pow2_S. lia.
    + apply Nat.div_lt_upper_bound; [lia|]. rewrite pow2_S in Hi. lia.
Qed.

Theorem rev_bits_involutive : forall k i, i < 2 ^ k -> rev_bits k (rev_bits k i) = i.
Proof.
  induction k as [|k IH]; intros i Hi.
  - cbn in *. lia.
  - change (rev_bits (S k) i) with (2 ^ k * (i mod 2) + rev_bits k (i / 2)).
    assert (Hd : i / 2 < 2 ^ k).
    { apply Nat.div_lt_upper_bound; [lia|]. rewrite pow2_S in Hi. lia. }
    pose proof (rev_bits_lt k (i / 2)) as Hr.
    pose proof (Nat.div_mod i 2 ltac:(lia)) as Hdm.
    pose proof (Nat.mod_upper_bound i 2 ltac:(lia)) as Hm.
    assert (i mod 2 = 0 \/ i mod 2 = 1) as [E | E] by lia; rewrite E.
    + rewrite Nat.mul_0_r, Nat.add_0_l, rev_bits_low by exact Hr. rewrite IH by exact Hd. lia.
    + rewrite Nat.mul_1_r, Nat.add_comm, rev_bits_high by exact Hr. rewrite IH by exact Hd. lia.
Qed.

(* reversal of a concatenated index: chunk index i (b bits) above position q (k bits) *)
Lemma rev_bits_concat b : forall k i q, q < 2 ^ k ->
  rev_bits (k + b) (i * 2 ^ k + q) = rev_bits b i + 2 ^ b * rev_bits k q.
Proof.
  induction k as [|k IH]; intros i q Hq.
  - cbn in Hq. assert (q = 0) by lia. subst.
    replace (i * 2 ^ 0 + 0) with i by (cbn; lia). cbn [Nat.add rev_bits]. lia.
  - change (rev_bits (S k + b) (i * 2 ^ S k + q))
      with (2 ^ (k + b) * ((i * 2 ^ S k + q) mod 2) + rev_bits (k + b) ((i * 2 ^ S k + q) / 2)).
    assert (E1 : (i * 2 ^ S k + q) mod 2 = q mod 2).
    { rewrite (pow2_S k). replace (i * (2 ^ k + 2 ^ k) + q) with (q + (i * 2 ^ k) * 2) by lia. apply Nat.mod_add. lia. }
    assert (E2 : (i * 2 ^ S k + q) / 2 = i * 2 ^ k + q / 2).
    { rewrite (pow2_S k). replace (i * (2 ^ k + 2 ^ k) + q) with (q + (i * 2 ^ k) * 2) by lia.
      rewrite Nat.div_add by lia. lia. }
    rewrite E1, E2, IH.
    + change (rev_bits (S k) q) with (2 ^ k * (q mod 2) + rev_bits k (q / 2)).
      rewrite Nat.pow_add_r. lia.
    + apply Nat.div_lt_upper_bound; [lia|]. rewrite pow2_S in Hq. lia.
Qed.

Lemma log2_pow2 k : Nat.log2 (2 ^ k) = k.
Proof. apply Nat.log2_pow2. lia. Qed.

Lemma is_pow2_pow2 k : is_pow2 (2 ^ k) = true.
Proof.
  unfold is_pow2. rewrite log2_pow2, Nat.eqb_refl, andb_true_r. apply Nat.ltb_lt, pow2_pos.
Qed.

(* permute_index(size, i) is the bit reversal on log2(size) bits, an involution on [0, size) *)
Theorem permute_index_spec k i : permute_index (2 ^ k) i = rev_bits k i.
Proof. unfold permute_index. rewrite log2_pow2. reflexivity. Qed.

Theorem permute_index_involutive k i : i < 2 ^ k ->
  permute_index (2 ^ k) i < 2 ^ k /\ permute_index (2 ^ k) (permute_index (2 ^ k) i) = i.
Proof.
  intros Hi. rewrite !permute_index_spec. split; [apply rev_bits_lt | apply rev_bits_involutive; exact Hi].
Qed.

Section Eval.
Context {F : Type} (O : FOps F) (L : FLaws O).
Add Ring Fring2 : (FLaws_ring_theory O L).
Add Field Ffield2 : (FLaws_field_theory O L).

Local Notation fz := (fzero O).
Local Notation f1 := (fone O).
Local Infix "+f" := (fadd O) (at level 50, left associativity).
Local Infix "-f" := (fsub O) (at level 50, left associativity).
Local Infix "*f" := (fmul O) (at level 40, left associativity).
Local Notation "-f x" := (fneg O x) (at level 35, right associativity).
Local Notation peval := (peval O).
Local Notation fpow := (fpow O).
Local Notation vget := (vget O).

(* ---------------------------------------------------------------- permute = bit-reversal permutation *)
Lemma swap_length v i j : length (swap O v i j) = length v.
Proof. unfold swap. rewrite !lupd_length. reflexivity. Qed.

Lemma swap_nth v i j p : i < length v -> j < length v ->
  nth p (swap O v i j) fz = if p =? j then nth i v fz else if p =? i then nth j v fz else nth p v fz.
Proof.
  intros Hi Hj. unfold swap, FFT.vget. rewrite !nth_lupd, !lupd_length.
  repeat match goal with
    | |- context [?x =? ?y] => destruct (Nat.eqb_spec x y); try lia
    | |- context [?x <? ?y] => destruct (Nat.ltb_spec x y); try lia
    end; cbn [andb]; subst; reflexivity.
Qed.

(* generic: the swap loop of an involution r on [0, n) *)
Lemma permute_loop (r : nat -> nat) (v : list F) :
  (forall i, i < length v -> r i < length v) -> (forall i, i < length v -> r (r i) = i) ->
  forall m, m <= length v ->
  let v' := fold_left (fun v i => let j := r i in if i <? j then swap O v i j else v) (seq 0 m) v in
  length v' = length v /\
  forall p, p < length v ->
    nth p v' fz = if (p <? m) || (r p <? m) then nth (r p) v fz else nth p v fz.
Proof.
  intros Hr Hinv. induction m as [|m IH]; intros Hm; cbv zeta.
  - cbn. split; [reflexivity|]. intros p Hp. reflexivity.
  - rewrite seq_S, fold_left_app. cbn [fold_left Nat.add].
    destruct (IH ltac:(lia)) as [Lm Nm]. cbv zeta in Lm, Nm.
    set (vm := fold_left (fun v i => let j := r i in if i <? j then swap O v i j else v) (seq 0 m) v) in *.
    assert (Hrm := Hr m ltac:(lia)). assert (Hrrm := Hinv m ltac:(lia)).
    destruct (Nat.ltb_spec m (r m)) as [Hlt | Hge].
    + split; [rewrite swap_length; exact Lm|]. intros p Hp.
      rewrite swap_nth by (rewrite Lm; lia). rewrite !Nm by lia.
      rewrite Hrrm.
      assert (E1 : (m <? m) || (r m <? m) = false).
      { apply orb_false_iff; split; apply Nat.ltb_ge; lia. }
      assert (E2 : (r m <? m) || (m <? m) = false).
      { apply orb_false_iff; split; apply Nat.ltb_ge; lia. }
      rewrite E1, E2.
      destruct (Nat.eqb_spec p (r m)) as [->|Hp1].
      * rewrite Hrrm. assert (E : (r m <? S m) || (m <? S m) = true).
        { apply orb_true_iff; right; apply Nat.ltb_lt; lia. }
        rewrite E. reflexivity.
      * destruct (Nat.eqb_spec p m) as [->|Hp2].
        { assert (E : (m <? S m) || (r m <? S m) = true).
          { apply orb_true_iff; left; apply Nat.ltb_lt; lia. }
          rewrite E. reflexivity. }
        assert (Hrp : r p <> m).
        { intros E. apply Hp1. rewrite <- E. symmetry. apply Hinv. exact Hp. }
        assert (E : (p <? S m) || (r p <? S m) = (p <? m) || (r p <? m)).
        { f_equal; [destruct (Nat.ltb_spec p (S m)); destruct (Nat.ltb_spec p m); try lia; reflexivity
                   | destruct (Nat.ltb_spec (r p) (S m)); destruct (Nat.ltb_spec (r p) m); try lia; reflexivity]. }
        rewrite E. reflexivity.
    + split; [exact Lm|]. intros p Hp. rewrite Nm by lia.
      destruct (Nat.eq_dec (r m) m) as [Hfix | Hnfix].
      * destruct (Nat.eq_dec p m) as [->|Hp2].
        { rewrite Hfix. rewrite Nat.ltb_irrefl. cbn [orb].
          assert (E : (m <? S m) || (m <? S m) = true) by (apply orb_true_iff; left; apply Nat.ltb_lt; lia).
          rewrite E. reflexivity. }
        assert (Hrp : r p <> m).
        { intros E. apply Hp2. rewrite <- (Hinv p Hp), E. exact Hfix. }
        assert (E : (p <? S m) || (r p <? S m) = (p <? m) || (r p <? m)).
        { f_equal; [destruct (Nat.ltb_spec p (S m)); destruct (Nat.ltb_spec p m); try lia; reflexivity
                   | destruct (Nat.ltb_spec (r p) (S m)); destruct (Nat.ltb_spec (r p) m); try lia; reflexivity]. }
        rewrite E. reflexivity.
      * assert (Hlt : r m < m) by lia.
        destruct (Nat.eq_dec p m) as [->|Hp2].
        { assert (E1 : (m <? m) || (r m <? m) = true) by (apply orb_true_iff; right; apply Nat.ltb_lt; lia).
          assert (E2 : (m <? S m) || (r m <? S m) = true) by (apply orb_true_iff; left; apply Nat.ltb_lt; lia).
          rewrite E1, E2. reflexivity. }
        destruct (Nat.eq_dec (r p) m) as [Hrp | Hrp].
        { assert (p = r m) by (rewrite <- Hrp; symmetry; apply Hinv; exact Hp). subst p.
          assert (E1 : (r m <? m) || (r (r m) <? m) = true) by (apply orb_true_iff; left; apply Nat.ltb_lt; lia).
          assert (E2 : (r m <? S m) || (r (r m) <? S m) = true) by (apply orb_true_iff; left; apply Nat.ltb_lt; lia).
          rewrite E1, E2. reflexivity. }
        assert (E : (p <? S m) || (r p <? S m) = (p <? m) || (r p <? m)).
        { f_equal; [destruct (Nat.ltb_spec p (S m)); destruct (Nat.ltb_spec p m); try lia; reflexivity
                   | destruct (Nat.ltb_spec (r p) (S m)); destruct (Nat.ltb_spec (r p) m); try lia; reflexivity]. }
        rewrite E. reflexivity.
Qed.

Theorem permute_spec k v : length v = 2 ^ k ->
  length (permute O v) = 2 ^ k /\
  forall i, i < 2 ^ k -> nth i (permute O v) fz = nth (rev_bits k i) v fz.
Proof.
  intros Hl. unfold permute. rewrite Hl.
  assert (E : forall (a : list F) i, (let j := permute_index (2 ^ k) i in if i <? j then swap O a i j else a)
                     = (let j := rev_bits k i in if i <? j then swap O a i j else a)).
  { intros. rewrite permute_index_spec. reflexivity. }
  rewrite (fold_left_ext_in _ (fun a i => let j := rev_bits k i in if i <? j then swap O a i j else a))
    by (intros; apply E).
  cbv zeta.
  destruct (permute_loop (rev_bits k) v) with (m := 2 ^ k) as [Lp Np].
  - intros i _. rewrite Hl. apply rev_bits_lt.
  - intros i Hi. apply rev_bits_involutive. rewrite <- Hl. exact Hi.
  - rewrite Hl. apply le_n.
  - cbv zeta in Lp, Np. split; [rewrite Lp; exact Hl|].
    intros i Hi. rewrite Np by (rewrite Hl; exact Hi).
    assert (Et : (i <? 2 ^ k) = true) by (apply Nat.ltb_lt; exact Hi). rewrite Et. reflexivity.
Qed.

Theorem permute_involutive k v : length v = 2 ^ k -> permute O (permute O v) = v.
Proof.
  intros Hl. destruct (permute_spec k v Hl) as [L1 N1].
  destruct (permute_spec k (permute O v) L1) as [L2 N2].
  apply nth_ext with (d := fz) (d' := fz); [rewrite L2, Hl; reflexivity|].
  rewrite L2. intros i Hi. rewrite N2 by exact Hi. rewrite N1 by apply rev_bits_lt.
  rewrite rev_bits_involutive by exact Hi. reflexivity.
Qed.

(* ---------------------------------------------------------------- twiddles *)
(* twiddles fit transforms of size 2^k with root w: twiddles[i] = w^(bitrev_{k-1} i), i < 2^(k-1) *)
Definition tw_ok (tw : list F) (k : nat) (w : F) : Prop :=
  match k with
  | 0 => True
  | S k' => forall i, i < 2 ^ k' -> vget tw i = fpow w (rev_bits k' i)
  end.

Lemma tw_ok_sq tw k w : tw_ok tw (S k) w -> tw_ok tw k (w *f w).
Proof.
  destruct k as [|k]; cbn [tw_ok]; [trivial|]. intros H i Hi.
  rewrite H by (rewrite pow2_S; lia). rewrite rev_bits_low by exact Hi. rewrite (fpow_sq2 O L). reflexivity.
Qed.

(* ---------------------------------------------------------------- brfft = bit-reversed DFT *)
Lemma brfft_dft tw : forall k w l i,
  length l = 2 ^ k -> root_cond O k w -> tw_ok tw k w -> i < 2 ^ k ->
  nth i (brfft O tw k l) fz = peval l (fpow w (rev_bits k i)).
Proof.
  induction k as [|k IH]; intros w l i Hl Hw Ht Hi.
  - destruct l as [|a [|b t]]; cbn in Hl; try lia. cbn in Hi. assert (i = 0) by lia. subst. cbn. ring.
  - destruct (split_eo_length (2 ^ k) l) as [He Ho]; [rewrite Hl; cbn; lia|].
    assert (HlE := brfft_length O tw k _ He). assert (HlO := brfft_length O tw k _ Ho).
    assert (Htm : forall i' y, i' < 2 ^ k -> tmul O tw i' y = y *f fpow w (rev_bits k i')).
    { intros i' y Hi'. unfold tmul. cbn [tw_ok] in Ht. destruct (Nat.eqb_spec i' 0) as [->|Hn].
      - rewrite rev_bits_0. cbn. ring.
      - rewrite Ht by exact Hi'. reflexivity. }
    cbn [brfft].
    destruct (Nat.Even_or_Odd i) as [[i' ->]|[i' ->]].
    + assert (Hi' : i' < 2 ^ k) by (rewrite pow2_S in Hi; lia).
      destruct (bf_list_nth O tw _ _ 0 i' (eq_trans HlE (eq_sym HlO)) ltac:(rewrite HlE; exact Hi')) as [B _].
      rewrite B. cbn [Nat.add]. rewrite Htm by exact Hi'.
      rewrite (IH (w *f w) _ i' He (root_cond_sq O L k w Hw) (tw_ok_sq tw k w Ht) Hi').
      rewrite (IH (w *f w) _ i' Ho (root_cond_sq O L k w Hw) (tw_ok_sq tw k w Ht) Hi').
      rewrite rev_bits_even. rewrite (peval_split O L l (fpow w (rev_bits k i'))), (fpow_sq O L). ring.
    + assert (Hi' : i' < 2 ^ k) by (rewrite pow2_S in Hi; lia).
      destruct (bf_list_nth O tw _ _ 0 i' (eq_trans HlE (eq_sym HlO)) ltac:(rewrite HlE; exact Hi')) as [_ B].
      rewrite B. cbn [Nat.add]. rewrite Htm by exact Hi'.
      rewrite (IH (w *f w) _ i' He (root_cond_sq O L k w Hw) (tw_ok_sq tw k w Ht) Hi').
      rewrite (IH (w *f w) _ i' Ho (root_cond_sq O L k w Hw) (tw_ok_sq tw k w Ht) Hi').
      rewrite rev_bits_odd, (fpow_add O L). cbn [root_cond] in Hw. rewrite Hw.
      rewrite (peval_split O L l (-f f1 *f fpow w (rev_bits k i'))), (fpow_sq O L).
      replace (-f f1 *f fpow w (rev_bits k i') *f (-f f1 *f fpow w (rev_bits k i')))
        with (fpow w (rev_bits k i') *f fpow w (rev_bits k i')) by ring.
      ring.
Qed.

(* ---------------------------------------------------------------- evaluate_poly: natural-order DFT, every k >= 1 *)
Variable two_adicity : nat.

Lemma permuted_fft_is_dft tw K w p :
  length p = 2 ^ S K -> root_cond O (S K) w -> tw_ok tw (S K) w ->
  permute O (fft_in_place_top O p tw) = dft O (2 ^ S K) w p.
Proof.
  intros Hl Hw Ht.
  rewrite (fft_in_place_top_brfft O tw K p Hl).
  assert (Hlb : length (brfft O tw (S K) p) = 2 ^ S K) by (apply brfft_length; exact Hl).
  destruct (permute_spec (S K) _ Hlb) as [Lp Np].
  apply nth_ext with (d := fz) (d' := fz); [rewrite Lp, dft_length; reflexivity|].
  rewrite Lp. intros i Hi. rewrite Np by exact Hi.
  rewrite (brfft_dft tw (S K) w p _ Hl Hw Ht (rev_bits_lt _ _)).
  rewrite rev_bits_involutive by exact Hi. rewrite (dft_nth O) by exact Hi. reflexivity.
Qed.

Theorem evaluate_poly_correct tw K w p :
  length p = 2 ^ S K -> length tw = 2 ^ K -> S K <= two_adicity ->
  root_cond O (S K) w -> tw_ok tw (S K) w ->
  evaluate_poly O two_adicity p tw = Some (map (fun i => peval p (fpow w i)) (seq 0 (2 ^ S K))).
Proof.
  intros Hl Hlt Had Hw Ht. unfold evaluate_poly.
  rewrite Hl, Hlt, is_pow2_pow2, log2_pow2. cbn [negb].
  assert (E1 : (2 ^ S K =? 2 ^ K * 2) = true) by (apply Nat.eqb_eq; cbn; lia).
  assert (E2 : (two_adicity <? S K) = false) by (apply Nat.ltb_ge; lia).
  rewrite E1, E2. cbn [negb]. f_equal.
  apply (permuted_fft_is_dft tw K w p Hl Hw Ht).
Qed.

(* get_twiddles returns twiddles that fit *)
Variable root_of_unity : nat -> F.

Lemma power_series_nth w n i : i < n -> nth i (get_power_series O w n) fz = fpow w i.
Proof.
  intros Hi. rewrite (get_power_series_spec O L).
  rewrite (nth_indep _ fz (fpow w 0)) by (rewrite map_length, seq_length; exact Hi).
  rewrite (map_nth (fpow w)), seq_nth by exact Hi. reflexivity.
Qed.

Lemma permuted_powers_ok w K :
  length (permute O (get_power_series O w (2 ^ K))) = 2 ^ K /\
  tw_ok (permute O (get_power_series O w (2 ^ K))) (S K) w.
Proof.
  assert (Hlp : length (get_power_series O w (2 ^ K)) = 2 ^ K).
  { rewrite (get_power_series_spec O L), map_length, seq_length. reflexivity. }
  destruct (permute_spec K _ Hlp) as [Lp Np]. split; [exact Lp|].
  cbn [tw_ok]. intros i Hi. unfold FFT.vget. rewrite Np by exact Hi.
  apply power_series_nth. apply rev_bits_lt.
Qed.

Lemma half_pow2' K : 2 ^ S K / 2 = 2 ^ K.
Proof. cbn [Nat.pow]. rewrite Nat.mul_comm. apply Nat.div_mul. lia. Qed.

Theorem get_twiddles_correct K : S K <= two_adicity ->
  exists tw, get_twiddles O two_adicity root_of_unity (2 ^ S K) = Some tw /\
             length tw = 2 ^ K /\ tw_ok tw (S K) (root_of_unity (S K)).
Proof.
  intros Had. unfold get_twiddles. rewrite is_pow2_pow2, log2_pow2. cbn [negb].
  assert (E2 : (two_adicity <? S K) = false) by (apply Nat.ltb_ge; lia).
  rewrite E2. cbn [Nat.eqb]. rewrite half_pow2'.
  eexists; split; [reflexivity|]. apply permuted_powers_ok.
Qed.

End Eval.
