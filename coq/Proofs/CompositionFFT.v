(* C17 — the capstone with the interpolation step discharged from C09: `CompositionPoly::new` interpolates with
   fft::get_inv_twiddles + fft::interpolate_poly_with_offset (the faithful index-level FFT model coq/Model/FFT.v), and
   C09's round-trip theorem (Proofs/FFTOffset.v interpolate_evaluate_with_offset = C09_interpolate_with_offset_spec)
   replaces the two interpolation hypotheses of composition_is_definition_partial.  stdlib style. *)
From Coq Require Import List Arith Bool Lia Ring Field ZArith.
From VBase Require Import FieldOps.
From VModel Require Import Composition.
From VModel Require FFT.
From VProofs Require FFTSpec FFTEval FFTOffset FFTSegments.
From VProofs Require Import CompositionBase CompositionIndex CompositionVerifier CompositionTable.
Import ListNotations.

Section Bridge.
Context {F : Type} (O : FOps F) (L : FLaws O).
Add Ring Fr : (FLaws_ring_theory O L).

Local Notation fz := (fzero O).
Local Notation f1 := (fone O).
Local Infix "*f" := (fmul O) (at level 40, left associativity).

(* the two developments use the same polynomial semantics (the definitions are convertible) *)
Lemma peval_fft p x : FFT.peval O p x = peval O p x.
Proof. reflexivity. Qed.
Lemma fpow_fft x k : FFT.fpow O x k = cpow O x k.
Proof. reflexivity. Qed.

(* CompositionPoly::new: fft::interpolate_poly_with_offset(&mut trace, &inv_twiddles, domain.offset()) — a panic of the
   FFT model (None) is mapped to the empty list, which the theorems below exclude *)
Definition interp_fft (two_adicity : nat) (itw : list F) (offset : F) (evals : list F) : list F :=
  match FFT.interpolate_poly_with_offset O two_adicity evals itw offset with Some c => c | None => [] end.

Variable n ceb : nat.
Variable offset : F.
Variable rou : nat -> F.
Local Notation ce_size := (ce_size n ceb).
Local Notation wce := (wce n ceb rou).
Variable two_adicity K : nat.
Variable itw : list F.
Variable winv : F.
Hypothesis ce_pow2 : ce_size = 2 ^ S K.                               (* the ce domain size is a power of two >= 2 *)
Hypothesis K_adic : S K <= two_adicity.
Hypothesis wce_root : FFTSpec.root_cond O (S K) wce.                      (* w_ce^(|ce|/2) = -1: primitive |ce|-th root *)
Hypothesis winv_spec : wce *f winv = f1.
Hypothesis itw_len : length itw = 2 ^ K.
Hypothesis itw_ok : FFTEval.tw_ok O itw (S K) winv.                  (* what fft::get_inv_twiddles returns (C09_get_inv_twiddles) *)
Hypothesis offset_nz : offset <> fz.
Hypothesis n_invertible : FFTSpec.two_pow_f O (S K) *f FFTOffset.n_inv O (S K) = f1.   (* odd characteristic *)

Lemma interp_fft_roundtrip : forall p, length p = ce_size ->
  interp_fft two_adicity itw offset (map (fun i => peval O p (ce_x O n ceb offset rou i)) (seq 0 ce_size)) = p.
Proof.
  intros p Hp. unfold interp_fft.
  assert (E : map (fun i => peval O p (ce_x O n ceb offset rou i)) (seq 0 ce_size)
              = map (fun i => FFT.peval O p (offset *f FFT.fpow O wce i)) (seq 0 (2 ^ S K))).
  { rewrite ce_pow2. apply map_ext. intros i.
    transitivity (peval O p (offset *f cpow O wce i)); [f_equal; unfold ce_x; ring | reflexivity]. }
  rewrite E.
  rewrite (FFTOffset.interpolate_evaluate_with_offset O L two_adicity itw K wce winv offset p); try assumption.
  - reflexivity.
  - now rewrite <- ce_pow2.
Qed.

(* the generator's order follows from root_cond *)
Lemma wce_order_from_root : cpow O wce ce_size = f1.
Proof.
  rewrite ce_pow2. cbn [FFTSpec.root_cond] in wce_root. change (cpow O wce (2 ^ K) = fneg O f1) in wce_root.
  replace (2 ^ S K) with (2 ^ K + 2 ^ K) by (cbn; lia).
  rewrite (cpow_add O L), wce_root. ring.
Qed.
End Bridge.

(* ------------------------------------------------------------------ the capstone, both prover paths *)
Section Capstone.
Context {F : Type} (O : FOps F) (L : FLaws O).
Local Notation fz := (fzero O).
Local Notation f1 := (fone O).
Local Infix "*f" := (fmul O) (at level 40, left associativity).

Variable n ceb ldeb r : nat.
Variable offset : F.
Variable rou : nat -> F.
Variable wlde ginv : F.
Hypothesis n_pos : n <> 0.
Hypothesis ceb_pos : ceb <> 0.
Hypothesis r_pos : r <> 0.
Hypothesis ldeb_eq : ldeb = ceb * r.
Local Notation ce_size := (ce_size n ceb).
Local Notation wce := (wce n ceb rou).
Hypothesis wlde_order : cpow O wlde (lde_size n ldeb) = f1.
Hypothesis wlde_wce : cpow O wlde r = wce.
Hypothesis wlde_g : cpow O wlde ldeb = gtrace n rou.
Hypothesis ginv_spec : ginv *f gtrace n rou = f1.

Variable num_main : nat.
Variable tmain : list F -> list F -> list F -> list F.
Variable taux : list F -> list F -> list F -> list F -> list F -> list F -> list F.
Variable ppolys : list (list F).
Variable exemptions : nat.
Variable tcoef : list F.
Variable main_groups aux_groups : list (@BGroup F).
Variable rands : list F.
Variable tpolys apolys lde_main lde_aux : list (list F).
Hypothesis tmain_len : forall cur nxt pv, length (tmain cur nxt pv) = num_main.
Hypothesis exemptions_le : exemptions <= n.
Hypothesis poly_len_pos : forall p, In p ppolys -> length p <> 0.
Hypothesis poly_len_div_n : forall p, In p ppolys -> length p * (n / length p) = n.
Hypothesis poly_len_div_max : forall p, In p ppolys -> exists q, fold_left Nat.max (map (@length F) ppolys) 0 = length p * q.
Hypothesis rou_compat : forall p, In p ppolys -> rou (length p * ceb) = cpow O wce (n / length p).
Hypothesis main_ok : forall g, In g main_groups ->
  div_ok n ceb (bg_div g) /\ forall c, In c (bg_cs g) -> bc_ok O n ceb ginv tpolys c.
Hypothesis lde_main_ok : lde_rows_of O n ldeb offset wlde lde_main tpolys.

(* interpolation: the FFT model with what get_inv_twiddles returns *)
Variable two_adicity K : nat.
Variable rouk : nat -> F.                                       (* B::get_root_of_unity by log2 of the size *)
Variable itw : list F.
Hypothesis ce_pow2 : ce_size = 2 ^ S K.
Hypothesis K_adic : S K <= two_adicity.
Hypothesis rouk_ce : rouk (S K) = wce.
Hypothesis wce_root : FFTSpec.root_cond O (S K) wce.
Hypothesis itw_get : FFT.get_inv_twiddles O two_adicity rouk (2 ^ S K) = Some itw.   (* fft::get_inv_twiddles(trace.len()) *)
Hypothesis offset_nz : offset <> fz.
Hypothesis n_invertible : FFTSpec.two_pow_f O (S K) *f FFTOffset.n_inv O (S K) = f1.

Local Notation winv := (FFT.fpow O wce (2 ^ S K - 1)).
Lemma itw_facts : length itw = 2 ^ K /\ FFTEval.tw_ok O itw (S K) winv /\ wce *f winv = f1.
Proof.
  destruct (FFTOffset.get_inv_twiddles_correct O L two_adicity rouk K wce K_adic rouk_ce wce_root) as [itw' [E [H1 [H2 H3]]]].
  rewrite itw_get in E. inversion E; subst itw'. auto.
Qed.

(* "deg comp_def < |ce|": a coefficient list for comp_def off the divisor zeros *)
Variable good : F -> Prop.
Variable q : list F.
Variable num_cols : nat.
Hypothesis ce_good : forall i, i < ce_size -> good (ce_x O n ceb offset rou i).
Hypothesis q_len_ce : length q <= ce_size.
Hypothesis q_len_cols : length q <= num_cols * n.
Hypothesis n_lt_ce : n < ce_size.

Local Notation comp_def has_aux :=
  (comp_def O n rou tmain taux ppolys exemptions tcoef main_groups aux_groups rands has_aux tpolys apolys).
Local Notation evaluate has_aux :=
  (evaluate O n ceb ldeb offset rou num_main tmain taux ppolys exemptions tcoef main_groups aux_groups rands has_aux
            lde_main lde_aux (fun _ v => v)).
Local Notation interp := (interp_fft O two_adicity itw offset).

Section WithAux.
Hypothesis aux_ok : forall g, In g aux_groups ->
  div_ok n ceb (bg_div g) /\ forall c, In c (bg_cs g) -> bc_ok O n ceb ginv apolys c.
Hypothesis lde_aux_ok : lde_rows_of O n ldeb offset wlde lde_aux apolys.
Hypothesis q_is_def : forall z, good z -> peval O q z = comp_def true z.

Theorem composition_is_definition_aux :
  exists evals cols,
    evaluate true = Some evals
    /\ composition_poly_new n interp evals num_cols = Some cols
    /\ (forall z, recombine O n (cp_evaluate_at O cols z) z = peval O q z)
    /\ (forall z, good z -> recombine O n (cp_evaluate_at O cols z) z = comp_def true z).
Proof.
  apply (composition_core O L n ceb ldeb r offset rou n_pos ceb_pos r_pos ldeb_eq num_main tmain taux ppolys exemptions
           tcoef main_groups aux_groups rands tpolys apolys lde_main lde_aux exemptions_le interp good q num_cols true);
    try assumption.
  - apply (evaluate_spec_aux O L n ceb ldeb r offset rou wlde ginv); assumption.
  - destruct itw_facts as [H1 [H2 H3]].
    apply (interp_fft_roundtrip O L n ceb offset rou two_adicity K itw winv); assumption.
Qed.
End WithAux.

Section MainOnly.
Hypothesis aux_empty : aux_groups = [].
Hypothesis q_is_def : forall z, good z -> peval O q z = comp_def false z.

Theorem composition_is_definition_main :
  exists evals cols,
    evaluate false = Some evals
    /\ composition_poly_new n interp evals num_cols = Some cols
    /\ (forall z, recombine O n (cp_evaluate_at O cols z) z = peval O q z)
    /\ (forall z, good z -> recombine O n (cp_evaluate_at O cols z) z = comp_def false z).
Proof.
  apply (composition_core O L n ceb ldeb r offset rou n_pos ceb_pos r_pos ldeb_eq num_main tmain taux ppolys exemptions
           tcoef main_groups aux_groups rands tpolys apolys lde_main lde_aux exemptions_le interp good q num_cols false);
    try assumption.
  - apply (evaluate_spec_main O L n ceb ldeb r offset rou wlde ginv); try assumption.
    intros g Hg. rewrite aux_empty in Hg. destruct Hg.
  - destruct itw_facts as [H1 [H2 H3]].
    apply (interp_fft_roundtrip O L n ceb offset rou two_adicity K itw winv); assumption.
Qed.
End MainOnly.
End Capstone.

(* ------------------------------------------------------------------ the LDE-rows hypothesis from C09_segments_spec *)
Section LdeRows.
Context {F : Type} (O : FOps F) (L : FLaws O).
Add Ring Fr2 : (FLaws_ring_theory O L).
Local Notation fz := (fzero O).

(* RowMatrix::row(r): the elements_per_row values of row r, as read by DefaultTraceLde::read_main_trace_frame_into *)
Definition rows_of_matrix (M : @FFT.RowMatrix F) : list (list F) :=
  map (fun r => map (fun c => match FFT.rm_get O M c r with Some v => v | None => fz end)
                    (seq 0 (FFT.rm_elements_per_row M)))
      (seq 0 (FFT.rm_num_rows M)).

Lemma lde_rows_from_matrix n ldeb offset wlde polys M :
  FFT.rm_num_rows M = lde_size n ldeb -> FFT.rm_elements_per_row M = length polys ->
  (forall c r, c < length polys -> r < lde_size n ldeb ->
     FFT.rm_get O M c r = Some (FFT.peval O (nth c polys []) (fmul O offset (FFT.fpow O wlde r)))) ->
  lde_rows_of O n ldeb offset wlde (rows_of_matrix M) polys.
Proof.
  intros Hr Hc Hget. unfold rows_of_matrix. rewrite Hr, Hc. split; [now rewrite map_length, seq_length|].
  intros j Hj. rewrite nth_error_map, (nth_error_nth' (seq 0 (lde_size n ldeb)) 0) by (now rewrite seq_length).
  rewrite seq_nth by assumption. cbn [option_map Nat.add]. f_equal.
  apply nth_ext with (d := fz) (d' := fz); [now rewrite !map_length, seq_length|].
  rewrite map_length, seq_length. intros c Hcl.
  rewrite (nth_indep _ fz ((fun c0 => match FFT.rm_get O M c0 j with Some v => v | None => fz end) 0))
    by (now rewrite map_length, seq_length).
  rewrite (map_nth (fun c0 => match FFT.rm_get O M c0 j with Some v => v | None => fz end) (seq 0 (length polys)) 0 c).
  rewrite seq_nth by assumption. cbn [Nat.add]. rewrite (Hget c j Hcl Hj).
  rewrite (nth_indep _ fz ((fun T => peval O T (fmul O (cpow O wlde j) offset)) [])) by (now rewrite map_length).
  rewrite (map_nth (fun T => peval O T (fmul O (cpow O wlde j) offset)) polys [] c).
  change (FFT.peval O (nth c polys []) (fmul O offset (FFT.fpow O wlde j)))
    with (peval O (nth c polys []) (fmul O offset (cpow O wlde j))).
  f_equal. ring.
Qed.

(* the matrix RowMatrix::evaluate_polys_over builds (DefaultTraceLde::new -> build_trace_commitment) has these rows *)
Theorem lde_rows_from_segments (root_of_unity : nat -> F) (Nseg : nat) (polys : list (list F)) (tw : list F) (K b : nat)
  (wlde offset : F) (n ldeb : nat) :
  n = 2 ^ S K -> ldeb = 2 ^ b ->
  0 < Nseg -> polys <> [] -> (forall p, In p polys -> length p = 2 ^ S K) -> length tw = 2 ^ K -> 0 < b ->
  root_of_unity (S K + b) = wlde -> FFTSpec.root_cond O (S K + b) wlde -> FFTEval.tw_ok O tw (S K) (FFT.fpow O wlde (2 ^ b)) ->
  exists M, FFT.evaluate_polys_over O root_of_unity Nseg polys tw offset (2 ^ b) = Some M /\
            lde_rows_of O n ldeb offset wlde (rows_of_matrix M) polys.
Proof.
  intros Hn Hl HN Hp Hlen Htw Hb Hr Hroot Hok.
  destruct (FFTSegments.segments_correct O L root_of_unity Nseg polys tw K b wlde offset HN Hp Hlen Htw Hb Hr Hroot Hok)
    as [M [HM [Hrows [Hcols Hget]]]].
  exists M. split; [exact HM|].
  assert (E : lde_size n ldeb = 2 ^ (S K + b)) by (unfold lde_size; rewrite Hn, Hl, Nat.pow_add_r; reflexivity).
  apply lde_rows_from_matrix; [now rewrite E | exact Hcols |].
  intros c r Hc Hrr. apply Hget; [exact Hc | now rewrite <- E].
Qed.
End LdeRows.
