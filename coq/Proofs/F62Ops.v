(* f62 (M = 2^62 - 111*2^39 + 1, Montgomery form with R = 2^64, lazy range [0, 2M)):
   the generated terms of Gen/F62.v (from math/src/field/f62/mod.rs) against integer
   arithmetic modulo M.  mul / add / sub / neg / double / new / as_int / eq / normalize
   and the published constants.  exp is in F62Exp.v, inversion in F62Inv.v. *)
From Coq Require Import ZArith Lia Zdiv Bool Setoid Morphisms.
From VBase Require Import MachInt ZpOps.
From VGen Require Import F62.
Open Scope Z_scope.

Definition M62 : Z := 4611624995532046337.
Lemma M62_eq : f62_M = M62. Proof. reflexivity. Qed.
Lemma M62_val : M62 = 2^62 - 111 * 2^39 + 1. Proof. reflexivity. Qed.
Lemma M62_P62 : M62 = P62. Proof. reflexivity. Qed.
Lemma M62_pos : 0 < M62. Proof. reflexivity. Qed.

(* internal words live in the lazy range [0, 2M) *)
Definition repr62 (x : Z) : Prop := 0 <= x < 2 * M62.
(* 2^-64 mod M *)
Definition Rinv62 : Z := 1152890993361043456.
Lemma Rinv62_ok : (2^64 * Rinv62) mod M62 = 1. Proof. reflexivity. Qed.
(* the residue denoted by an internal word *)
Definition val62 (x : Z) : Z := (x * Rinv62) mod M62.

Lemma zmod_eq a b q r : 0 <= r < b -> a = q * b + r -> a mod b = r.
Proof. intros H ->. rewrite Z.add_comm, Z.mod_add by lia. apply Z.mod_small; lia. Qed.
Lemma zdiv_eq a b q r : 0 <= r < b -> a = q * b + r -> a / b = q.
Proof. intros H ->. symmetry. apply (Z.div_unique _ b q r); lia. Qed.

(* ---------- congruences modulo M62 (sealed relation with setoid structure) ---------- *)
Inductive eqM62 (a b : Z) : Prop := eqM62_intro : a mod M62 = b mod M62 -> eqM62 a b.
Notation "a ==m b" := (eqM62 a b) (at level 70, no associativity).

Lemma eqM62_iff a b : a ==m b <-> a mod M62 = b mod M62.
Proof. split; [intros [H]; exact H|apply eqM62_intro]. Qed.
#[global] Instance eqM62_equiv : Equivalence eqM62.
Proof. split; [intros x|intros x y H|intros x y z H1 H2]; rewrite eqM62_iff in *; congruence. Qed.
#[global] Instance add_eqM62 : Proper (eqM62 ==> eqM62 ==> eqM62) Z.add.
Proof. intros a b H c d H'. rewrite eqM62_iff in *. rewrite (Zplus_mod a), (Zplus_mod b), H, H'. reflexivity. Qed.
#[global] Instance sub_eqM62 : Proper (eqM62 ==> eqM62 ==> eqM62) Z.sub.
Proof. intros a b H c d H'. rewrite eqM62_iff in *. rewrite (Zminus_mod a), (Zminus_mod b), H, H'. reflexivity. Qed.
#[global] Instance mul_eqM62 : Proper (eqM62 ==> eqM62 ==> eqM62) Z.mul.
Proof. intros a b H c d H'. rewrite eqM62_iff in *. rewrite (Zmult_mod a), (Zmult_mod b), H, H'. reflexivity. Qed.
#[global] Instance opp_eqM62 : Proper (eqM62 ==> eqM62) Z.opp.
Proof. intros a b H. change (- a) with (0 - a). change (- b) with (0 - b). now rewrite H. Qed.

Lemma eqm_refl_eq a b : a = b -> a ==m b.
Proof. intros ->. reflexivity. Qed.
Lemma eqm_M_0 : M62 ==m 0. Proof. apply eqM62_iff. reflexivity. Qed.
Lemma eqm_R_Rinv : 2^64 * Rinv62 ==m 1. Proof. apply eqM62_iff. reflexivity. Qed.
Lemma eqm_mod a : a mod M62 ==m a.
Proof. apply eqM62_iff. apply Z.mod_mod. unfold M62; lia. Qed.
Lemma eqm_val x : val62 x ==m x * Rinv62.
Proof. apply eqm_mod. Qed.
Lemma eqm_val_R x : val62 x * 2^64 ==m x.
Proof.
  rewrite eqm_val. replace (x * Rinv62 * 2^64) with (x * (2^64 * Rinv62)) by ring.
  rewrite eqm_R_Rinv. now rewrite Z.mul_1_r.
Qed.
Lemma eqm_add_kM a k : a + k * M62 ==m a.
Proof. apply eqM62_iff. apply Z.mod_add. unfold M62; lia. Qed.
Lemma eqm_small a b : 0 <= a < M62 -> 0 <= b < M62 -> a ==m b -> a = b.
Proof. rewrite eqM62_iff. intros Ha Hb H. rewrite !Z.mod_small in H by assumption. exact H. Qed.
Lemma eqm_to_mod a b : 0 <= b < M62 -> a ==m b -> a mod M62 = b.
Proof. rewrite eqM62_iff. intros Hb H. rewrite H. apply Z.mod_small; exact Hb. Qed.

Lemma val62_range x : 0 <= val62 x < M62.
Proof. apply Z.mod_pos_bound, M62_pos. Qed.

(* val62 identifies exactly the words that are congruent modulo M *)
Lemma val62_eq_iff a b : val62 a = val62 b <-> a ==m b.
Proof.
  split; intros H.
  - rewrite <- (eqm_val_R a), <- (eqm_val_R b), H. reflexivity.
  - apply eqm_small; try apply val62_range. rewrite !eqm_val, H. reflexivity.
Qed.

Lemma val62_mod x : val62 (x mod M62) = val62 x.
Proof. apply val62_eq_iff, eqm_mod. Qed.

Lemma val62_zero_iff x : val62 x = 0 <-> x mod M62 = 0.
Proof.
  change 0 with (val62 0) at 1. rewrite val62_eq_iff, eqM62_iff. reflexivity.
Qed.

(* ---------- Montgomery multiplication ---------- *)
(* U = -M^-1 mod 2^64 *)
Definition Ucoef62 : Z := 1152890993361043456.
Lemma U62_ok : f62_U * M62 + 1 = Ucoef62 * 2^64. Proof. reflexivity. Qed.

(* master fact: for 0 <= a*b < 2^64*M, mul(a,b) = (a*b + q*M) / 2^64 exactly, with q < 2^64;
   hence mul(a,b) < 2M and mul(a,b) * 2^64 == a*b (mod M).
   (The bound is what the algorithm needs for the lazy range: the result is < M*(a*b/(2^64 M) + 1).) *)
Lemma fn_mul_core a b : 0 <= a -> 0 <= b -> a * b < 2^64 * M62 ->
  exists q, 0 <= q < 2^64 /\ f62_fn_mul a b * 2^64 = a * b + q * M62.
Proof.
  intros Ha Hb Hab. unfold f62_fn_mul.
  set (z := a * b) in *.
  assert (Hz : 0 <= z < 2^64 * M62) by (unfold z; nia).
  assert (Hw : wrap 128 z = z) by (apply wrap_small; unfold M62 in *; lia).
  rewrite Hw.
  set (zl := wrap 64 z).
  assert (Hzl : 0 <= zl < 2^64) by (apply wrap_range; lia).
  assert (Hw2 : wrap 128 (zl * f62_U) = zl * f62_U) by (apply wrap_small; unfold f62_U; lia).
  rewrite Hw2.
  set (q := wrap 64 (zl * f62_U)).
  assert (Hq : 0 <= q < 2^64) by (apply wrap_range; lia).
  assert (Hw3 : wrap 128 (q * f62_M) = q * M62) by (apply wrap_small; unfold f62_M, M62; lia).
  rewrite Hw3.
  assert (Hw4 : wrap 128 (z + q * M62) = z + q * M62) by (apply wrap_small; unfold M62 in *; lia).
  rewrite Hw4.
  (* the sum is divisible by 2^64 *)
  assert (Hdiv : z + q * M62 = (z / 2^64 + zl * Ucoef62 - (zl * f62_U) / 2^64 * M62) * 2^64).
  { pose proof (Z.div_mod z (2^64) ltac:(lia)) as E1.
    pose proof (Z.div_mod (zl * f62_U) (2^64) ltac:(lia)) as E2.
    fold (wrap 64 z) in E1. fold zl in E1. fold (wrap 64 (zl * f62_U)) in E2. fold q in E2.
    pose proof U62_ok as E3.
    set (zh := z / 2^64) in *. set (t := (zl * f62_U) / 2^64) in *.
    assert (E4 : zl * (f62_U * M62 + 1) = zl * (Ucoef62 * 2^64)) by (now rewrite E3).
    assert (E5 : q * M62 = zl * f62_U * M62 - 2^64 * t * M62) by (rewrite E2; ring).
    rewrite E5. rewrite E1 at 1.
    replace (zl * f62_U * M62) with (zl * (f62_U * M62 + 1) - zl) by ring.
    rewrite E4. ring. }
  set (r := z / 2^64 + zl * Ucoef62 - (zl * f62_U) / 2^64 * M62) in *.
  assert (Hsh : shr (z + q * M62) 64 = r).
  { unfold shr. rewrite Hdiv. apply Z.div_mul. lia. }
  rewrite Hsh.
  assert (Hr : 0 <= r < 2 * M62) by (unfold M62 in *; nia).
  assert (Hw5 : wrap 64 r = r) by (apply wrap_small; unfold M62 in *; lia).
  rewrite Hw5. exists q. split; [exact Hq|]. lia.
Qed.

Lemma fn_mul_spec a b : 0 <= a -> 0 <= b -> a * b < 2^64 * M62 ->
  repr62 (f62_fn_mul a b) /\ f62_fn_mul a b * 2^64 ==m a * b.
Proof.
  intros Ha Hb Hab. destruct (fn_mul_core a b Ha Hb Hab) as (q & Hq & E). split.
  - unfold repr62, M62 in *. nia.
  - rewrite E. apply eqm_add_kM.
Qed.

Lemma fn_mul_val a b : 0 <= a -> 0 <= b -> a * b < 2^64 * M62 ->
  val62 (f62_fn_mul a b) = (val62 a * val62 b) mod M62.
Proof.
  intros Ha Hb Hab. destruct (fn_mul_spec a b Ha Hb Hab) as [_ Hc].
  apply eqm_small; [apply val62_range|apply Z.mod_pos_bound, M62_pos|].
  rewrite eqm_mod, !eqm_val.
  transitivity (f62_fn_mul a b * 2^64 * Rinv62 * Rinv62).
  - replace (f62_fn_mul a b * 2^64 * Rinv62 * Rinv62) with (f62_fn_mul a b * Rinv62 * (2^64 * Rinv62)) by ring.
    rewrite eqm_R_Rinv. now rewrite Z.mul_1_r.
  - rewrite Hc. apply eqm_refl_eq. ring.
Qed.

Lemma fn_mul_ok_gen a b : 0 <= a -> 0 <= b -> a * b < 2^64 * M62 -> f62_fn_mul_ok a b = true.
Proof.
  intros Ha Hb Hab. unfold f62_fn_mul_ok, in_u.
  set (z := a * b) in *.
  assert (Hz : 0 <= z < 2^64 * M62) by (unfold z; nia).
  assert (Hw : wrap 128 z = z) by (apply wrap_small; unfold M62 in *; lia).
  cbv zeta. rewrite Hw.
  set (zl := wrap 64 z).
  assert (Hzl : 0 <= zl < 2^64) by (apply wrap_range; lia).
  assert (Hw2 : wrap 128 (zl * f62_U) = zl * f62_U) by (apply wrap_small; unfold f62_U; lia).
  rewrite Hw2.
  set (q := wrap 64 (zl * f62_U)).
  assert (Hq : 0 <= q < 2^64) by (apply wrap_range; lia).
  assert (Hw3 : wrap 128 (q * f62_M) = q * M62) by (apply wrap_small; unfold f62_M, M62; lia).
  rewrite Hw3.
  assert (H1 : 0 <= zl * f62_U < 2^128) by (unfold f62_U; lia).
  assert (H2 : 0 <= q * f62_M < 2^128) by (unfold f62_M; lia).
  assert (H3 : 0 <= z + q * M62 < 2^128) by (unfold M62 in *; lia).
  assert (H0 : 0 <= z < 2^128) by (unfold M62 in *; lia).
  repeat (apply andb_true_iff; split); lia.
Qed.

Theorem f62_mul_spec a b : repr62 a -> repr62 b ->
  repr62 (f62_mul a b) /\ val62 (f62_mul a b) = (val62 a * val62 b) mod M62.
Proof.
  unfold repr62. intros Ha Hb. unfold f62_mul.
  assert (Hab : a * b < 2^64 * M62) by (unfold M62 in *; nia).
  split; [apply fn_mul_spec; lia|apply fn_mul_val; lia].
Qed.

Theorem f62_mul_ok_spec a b : repr62 a -> repr62 b -> f62_mul_ok a b = true.
Proof.
  unfold repr62. intros Ha Hb. unfold f62_mul_ok.
  apply fn_mul_ok_gen; unfold M62 in *; nia.
Qed.

(* ---------- normalize ---------- *)
Theorem f62_normalize_spec x : repr62 x ->
  f62_normalize x = x mod M62 /\ 0 <= f62_normalize x < M62 /\ val62 (f62_normalize x) = val62 x
  /\ f62_normalize_ok x = true.
Proof.
  unfold repr62. intros Hx.
  assert (E : f62_normalize x = x mod M62).
  { unfold f62_normalize. rewrite M62_eq. destruct (Z.geb_spec x M62) as [H|H].
    - rewrite wrap_small by (unfold M62 in *; lia). symmetry. apply (zmod_eq _ _ 1); lia.
    - symmetry. apply Z.mod_small; lia. }
  split; [exact E|]. split; [rewrite E; apply Z.mod_pos_bound, M62_pos|].
  split; [rewrite E; apply val62_mod|].
  unfold f62_normalize_ok, in_u. rewrite M62_eq. destruct (Z.geb_spec x M62) as [H|H]; [|reflexivity].
  apply andb_true_iff; unfold M62 in *; split; lia.
Qed.

(* ---------- add / double / sub / neg ---------- *)
(* common tail of add and double: z - (z >> 62) * M *)
Lemma lazy_red z : 0 <= z < 4 * M62 ->
  let r := wrap 64 (z - wrap 64 (shr z 62 * f62_M)) in
  0 <= r < 2 * M62 /\ r ==m z /\ in_u 64 (shr z 62 * f62_M) = true
  /\ in_u 64 (z - wrap 64 (shr z 62 * f62_M)) = true.
Proof.
  intros Hz. cbv zeta. rewrite M62_eq.
  set (q := shr z 62).
  assert (Hq : 0 <= q <= 3).
  { unfold q, shr. split; [apply Z.div_pos; lia|]. apply Z.lt_succ_r, Z.div_lt_upper_bound; unfold M62 in *; lia. }
  assert (Hzq : z = q * 2^62 + z mod 2^62).
  { unfold q, shr. pose proof (Z.div_mod z (2^62) ltac:(lia)). lia. }
  assert (Hrem : 0 <= z mod 2^62 < 2^62) by (apply Z.mod_pos_bound; lia).
  assert (Hw : wrap 64 (q * M62) = q * M62) by (apply wrap_small; unfold M62; lia).
  rewrite Hw.
  assert (Hr : 0 <= z - q * M62 < 2 * M62) by (unfold M62 in *; lia).
  rewrite wrap_small by (unfold M62 in *; lia).
  split; [exact Hr|]. split.
  - replace (z - q * M62) with (z + (- q) * M62) by ring. apply eqm_add_kM.
  - unfold in_u. split; apply andb_true_iff; unfold M62 in *; split; lia.
Qed.

Theorem f62_add_spec a b : repr62 a -> repr62 b ->
  repr62 (f62_add a b) /\ val62 (f62_add a b) = (val62 a + val62 b) mod M62.
Proof.
  unfold repr62. intros Ha Hb. unfold f62_add, f62_fn_add. cbv zeta.
  assert (Hw : wrap 64 (a + b) = a + b) by (apply wrap_small; unfold M62 in *; lia).
  rewrite Hw.
  destruct (lazy_red (a + b) ltac:(lia)) as (Hr & Hc & _). cbv zeta in Hr, Hc.
  split; [exact Hr|].
  apply eqm_small; [apply val62_range|apply Z.mod_pos_bound, M62_pos|].
  rewrite eqm_mod, !eqm_val, Hc. apply eqm_refl_eq. ring.
Qed.

Theorem f62_add_ok_spec a b : repr62 a -> repr62 b -> f62_add_ok a b = true.
Proof.
  unfold repr62. intros Ha Hb. unfold f62_add_ok, f62_fn_add_ok. cbv zeta.
  assert (Hw : wrap 64 (a + b) = a + b) by (apply wrap_small; unfold M62 in *; lia).
  rewrite Hw.
  destruct (lazy_red (a + b) ltac:(lia)) as (_ & _ & H1 & H2).
  rewrite H1, H2. unfold in_u.
  repeat (apply andb_true_iff; split); unfold M62 in *; lia.
Qed.

Lemma shl64_1 a : 0 <= a < 2 * M62 -> shl 64 a 1 = 2 * a.
Proof. intros Ha. unfold shl. rewrite Z.mod_small; unfold M62 in *; lia. Qed.

Theorem f62_double_spec a : repr62 a ->
  repr62 (f62_double a) /\ val62 (f62_double a) = (2 * val62 a) mod M62.
Proof.
  unfold repr62. intros Ha. unfold f62_double. cbv zeta. rewrite shl64_1 by exact Ha.
  destruct (lazy_red (2 * a) ltac:(lia)) as (Hr & Hc & _). cbv zeta in Hr, Hc.
  split; [exact Hr|].
  apply eqm_small; [apply val62_range|apply Z.mod_pos_bound, M62_pos|].
  rewrite eqm_mod, !eqm_val, Hc. apply eqm_refl_eq. ring.
Qed.

Theorem f62_double_ok_spec a : repr62 a -> f62_double_ok a = true.
Proof.
  unfold repr62. intros Ha. unfold f62_double_ok. cbv zeta. rewrite shl64_1 by exact Ha.
  destruct (lazy_red (2 * a) ltac:(lia)) as (_ & _ & H1 & H2).
  rewrite H1, H2. reflexivity.
Qed.

Lemma fn_sub_eq a b : repr62 a -> repr62 b ->
  f62_fn_sub a b = (if a <? b then 2 * M62 - b + a else a - b) /\ f62_fn_sub_ok a b = true.
Proof.
  unfold repr62. intros Ha Hb. unfold f62_fn_sub, f62_fn_sub_ok, in_u. rewrite M62_eq.
  assert (Hw : wrap 64 (2 * M62) = 2 * M62) by reflexivity.
  rewrite Hw.
  destruct (Z.ltb_spec a b) as [H|H].
  - assert (Hw2 : wrap 64 (2 * M62 - b) = 2 * M62 - b) by (apply wrap_small; unfold M62 in *; lia).
    rewrite Hw2. split; [apply wrap_small; unfold M62 in *; lia|].
    repeat (apply andb_true_iff; split); unfold M62 in *; lia.
  - split; [apply wrap_small; unfold M62 in *; lia|].
    apply andb_true_iff; unfold M62 in *; split; lia.
Qed.

Theorem f62_sub_spec a b : repr62 a -> repr62 b ->
  repr62 (f62_sub a b) /\ val62 (f62_sub a b) = (val62 a - val62 b) mod M62.
Proof.
  intros Ha Hb. unfold f62_sub. destruct (fn_sub_eq a b Ha Hb) as [E _]. rewrite E.
  unfold repr62 in *.
  assert (Hc : (if a <? b then 2 * M62 - b + a else a - b) ==m a - b).
  { destruct (a <? b); [|reflexivity].
    replace (2 * M62 - b + a) with (a - b + 2 * M62) by ring. apply eqm_add_kM. }
  split; [destruct (Z.ltb_spec a b); lia|].
  apply eqm_small; [apply val62_range|apply Z.mod_pos_bound, M62_pos|].
  rewrite eqm_mod, !eqm_val, Hc. apply eqm_refl_eq. ring.
Qed.

Theorem f62_sub_ok_spec a b : repr62 a -> repr62 b -> f62_sub_ok a b = true.
Proof. intros Ha Hb. unfold f62_sub_ok. apply (fn_sub_eq a b Ha Hb). Qed.

Lemma repr62_0 : repr62 0. Proof. unfold repr62, M62; lia. Qed.

Theorem f62_neg_spec a : repr62 a ->
  repr62 (f62_neg a) /\ val62 (f62_neg a) = (- val62 a) mod M62.
Proof.
  intros Ha. unfold f62_neg. destruct (f62_sub_spec 0 a repr62_0 Ha) as [Hr Hv].
  unfold f62_sub in *. split; [exact Hr|]. rewrite Hv. reflexivity.
Qed.

Theorem f62_neg_ok_spec a : repr62 a -> f62_neg_ok a = true.
Proof. intros Ha. unfold f62_neg_ok. apply (fn_sub_eq 0 a repr62_0 Ha). Qed.

(* ---------- new / as_int / eq ---------- *)
Theorem f62_new_spec v : 0 <= v < 2^64 ->
  repr62 (f62_new v) /\ val62 (f62_new v) = v mod M62.
Proof.
  intros Hv. unfold f62_new. cbv zeta.
  assert (Hab : v * f62_R2 < 2^64 * M62) by (unfold f62_R2, M62; nia).
  destruct (fn_mul_spec v f62_R2 ltac:(lia) ltac:(unfold f62_R2; lia) Hab) as [Hr Hc].
  split; [exact Hr|].
  apply eqm_small; [apply val62_range|apply Z.mod_pos_bound, M62_pos|].
  rewrite eqm_mod, eqm_val.
  transitivity (f62_fn_mul v f62_R2 * 2^64 * Rinv62 * Rinv62).
  - replace (f62_fn_mul v f62_R2 * 2^64 * Rinv62 * Rinv62)
      with (f62_fn_mul v f62_R2 * Rinv62 * (2^64 * Rinv62)) by ring.
    rewrite eqm_R_Rinv. now rewrite Z.mul_1_r.
  - rewrite Hc. replace (v * f62_R2 * Rinv62 * Rinv62) with (v * (f62_R2 * Rinv62 * Rinv62)) by ring.
    assert (E : f62_R2 * Rinv62 * Rinv62 ==m 1) by (apply eqM62_iff; reflexivity).
    rewrite E. now rewrite Z.mul_1_r.
Qed.

Theorem f62_new_ok_spec v : 0 <= v < 2^64 -> f62_new_ok v = true.
Proof.
  intros Hv. unfold f62_new_ok. apply fn_mul_ok_gen; unfold f62_R2, M62; nia.
Qed.

Theorem f62_as_int_spec x : repr62 x -> f62_as_int x = val62 x.
Proof.
  unfold repr62. intros Hx. unfold f62_as_int. cbv zeta.
  assert (Hab : x * 1 < 2^64 * M62) by (unfold M62 in *; lia).
  destruct (fn_mul_spec x 1 ltac:(lia) ltac:(lia) Hab) as [Hr Hc].
  destruct (f62_normalize_spec _ Hr) as (E & _). rewrite E.
  apply eqm_to_mod; [apply val62_range|].
  rewrite eqm_val.
  transitivity (f62_fn_mul x 1 * (2^64 * Rinv62)).
  - rewrite eqm_R_Rinv. now rewrite Z.mul_1_r.
  - rewrite Z.mul_assoc, Hc. apply eqm_refl_eq. ring.
Qed.

Theorem f62_as_int_canonical x : repr62 x -> 0 <= f62_as_int x < M62.
Proof. intros Hx. rewrite f62_as_int_spec by exact Hx. apply val62_range. Qed.

Theorem f62_as_int_ok_spec x : repr62 x -> f62_as_int_ok x = true.
Proof.
  unfold repr62. intros Hx. unfold f62_as_int_ok. cbv zeta.
  assert (Hab : x * 1 < 2^64 * M62) by (unfold M62 in *; lia).
  rewrite fn_mul_ok_gen by lia.
  destruct (fn_mul_spec x 1 ltac:(lia) ltac:(lia) Hab) as [Hr _].
  apply (f62_normalize_spec _ Hr).
Qed.

Corollary f62_as_int_new v : 0 <= v < 2^64 -> f62_as_int (f62_new v) = v mod M62.
Proof.
  intros Hv. destruct (f62_new_spec v Hv) as [Hr Hval].
  rewrite f62_as_int_spec by exact Hr. exact Hval.
Qed.

(* equality identifies exactly the equal residues (the words may differ by M) *)
Theorem f62_eq_spec a b : repr62 a -> repr62 b -> f62_eq a b = (val62 a =? val62 b).
Proof.
  intros Ha Hb. unfold f62_eq.
  destruct (f62_normalize_spec a Ha) as (Ea & _). destruct (f62_normalize_spec b Hb) as (Eb & _).
  rewrite Ea, Eb.
  destruct (Z.eqb_spec (val62 a) (val62 b)) as [H|H].
  - apply Z.eqb_eq. apply val62_eq_iff, eqM62_iff in H. exact H.
  - apply Z.eqb_neq. intros E. apply H, val62_eq_iff, eqM62_iff. exact E.
Qed.

Theorem f62_eq_ok_spec a b : repr62 a -> repr62 b -> f62_eq_ok a b = true.
Proof.
  intros Ha Hb. unfold f62_eq_ok.
  destruct (f62_normalize_spec a Ha) as (_ & _ & _ & Ea). destruct (f62_normalize_spec b Hb) as (_ & _ & _ & Eb).
  now rewrite Ea, Eb.
Qed.

(* two words of the lazy range denote the same residue iff equal or differing by M *)
Theorem val62_inj_lazy a b : repr62 a -> repr62 b ->
  (val62 a = val62 b <-> (a = b \/ a = b + M62 \/ b = a + M62)).
Proof.
  unfold repr62. intros Ha Hb. rewrite val62_eq_iff, eqM62_iff. split.
  - intros H.
    assert (E : (a - b) mod M62 = 0).
    { rewrite Zminus_mod, H, Z.sub_diag. reflexivity. }
    apply Z.mod_divide in E; [|unfold M62; lia]. destruct E as [k E].
    assert (Hk : -2 < k < 2) by (unfold M62 in *; nia).
    assert (Hk3 : k = -1 \/ k = 0 \/ k = 1) by lia.
    destruct Hk3 as [Hk3|[Hk3|Hk3]]; subst k; lia.
  - intros [H|[H|H]]; rewrite H; [reflexivity| |].
    + replace (b + M62) with (b + 1 * M62) by ring. apply Z.mod_add. unfold M62; lia.
    + replace (a + M62) with (a + 1 * M62) by ring. symmetry. apply Z.mod_add. unfold M62; lia.
Qed.

(* ---------- zpow_mod (Base/ZpOps.v) is the modular power ---------- *)
Lemma zpow_mod_pos_pow p a e : 0 < p -> zpow_mod_pos p a e = (a ^ Zpos e) mod p.
Proof.
  intros Hp. induction e as [e IH|e IH|]; cbn [zpow_mod_pos]; cbv zeta.
  - rewrite IH, Pos2Z.inj_xI, Z.pow_add_r, Z.pow_1_r, Z.pow_twice_r by lia.
    rewrite <- Z.mul_mod by lia. now rewrite Z.mul_mod_idemp_l by lia.
  - rewrite IH, Pos2Z.inj_xO, Z.pow_twice_r. now rewrite <- Z.mul_mod by lia.
  - now rewrite Z.pow_1_r.
Qed.

Lemma zpow_mod_pow p a e : 0 < p -> 0 <= e -> zpow_mod p a e = (a ^ e) mod p.
Proof.
  intros Hp He. destruct e as [|e|e]; cbn [zpow_mod]; [reflexivity|apply zpow_mod_pos_pow; exact Hp|lia].
Qed.

(* ---------- constants ---------- *)
Lemma f62_modulus_def : f62_MODULUS = 2^62 - 111 * 2^39 + 1 /\ f62_MODULUS = M62 /\ f62_MODULUS_BITS = 62
  /\ 2^61 <= M62 < 2^62.
Proof. repeat split; discriminate. Qed.

Lemma f62_R2_def : f62_R2 = 2^128 mod M62. Proof. reflexivity. Qed.
Lemma f62_R3_def : f62_R3 = 2^192 mod M62. Proof. reflexivity. Qed.
Lemma f62_U_def : (f62_U * M62 + 1) mod 2^64 = 0 /\ 0 <= f62_U < 2^64.
Proof. split; [reflexivity|split; [discriminate|reflexivity]]. Qed.

Lemma f62_ZERO_word : f62_ZERO = 0. Proof. vm_compute. reflexivity. Qed.
Lemma f62_ONE_word : f62_ONE = 2^64 mod M62. Proof. vm_compute. reflexivity. Qed.
Lemma val62_ZERO : val62 f62_ZERO = 0. Proof. vm_compute. reflexivity. Qed.
Lemma val62_ONE : val62 f62_ONE = 1. Proof. vm_compute. reflexivity. Qed.
Lemma repr62_ZERO : repr62 f62_ZERO. Proof. rewrite f62_ZERO_word. exact repr62_0. Qed.
Lemma repr62_ONE : repr62 f62_ONE.
Proof. unfold repr62. vm_compute. split; [discriminate|reflexivity]. Qed.

Lemma f62_generator_val : val62 f62_GENERATOR = 3 /\ repr62 f62_GENERATOR.
Proof. split; [vm_compute; reflexivity|]. unfold repr62. vm_compute. split; [discriminate|reflexivity]. Qed.

Lemma f62_Mm1_factored : M62 - 1 = 2^39 * 13 * 17 * 37957. Proof. reflexivity. Qed.

(* 3 is a primitive root: 3^(M-1) = 1 and 3^((M-1)/q) <> 1 for each prime q | M-1 *)
Lemma f62_generator_order :
  3 ^ (M62 - 1) mod M62 = 1 /\
  3 ^ ((M62 - 1) / 2) mod M62 <> 1 /\ 3 ^ ((M62 - 1) / 13) mod M62 <> 1 /\
  3 ^ ((M62 - 1) / 17) mod M62 <> 1 /\ 3 ^ ((M62 - 1) / 37957) mod M62 <> 1.
Proof.
  rewrite <- !zpow_mod_pow by (vm_compute; try reflexivity; discriminate).
  repeat split; vm_compute; try reflexivity; discriminate.
Qed.

Lemma f62_two_adicity :
  f62_TWO_ADICITY = 39 /\ (M62 - 1) mod 2^39 = 0 /\ Z.odd ((M62 - 1) / 2^39) = true.
Proof. repeat split. Qed.

Lemma f62_root_def :
  repr62 f62_TWO_ADIC_ROOT_OF_UNITY /\
  val62 f62_TWO_ADIC_ROOT_OF_UNITY = f62_G /\
  val62 f62_TWO_ADIC_ROOT_OF_UNITY = 3 ^ ((M62 - 1) / 2^39) mod M62.
Proof.
  split; [unfold repr62; vm_compute; split; [discriminate|reflexivity]|].
  split; [vm_compute; reflexivity|].
  rewrite <- zpow_mod_pow by (vm_compute; try reflexivity; discriminate).
  vm_compute. reflexivity.
Qed.

(* the root has order exactly 2^39: w^(2^39) = 1 and w^(2^38) = -1 *)
Lemma f62_root_order :
  f62_G ^ (2^39) mod M62 = 1 /\ f62_G ^ (2^38) mod M62 = M62 - 1.
Proof.
  rewrite <- !zpow_mod_pow by (vm_compute; try reflexivity; discriminate).
  split; vm_compute; reflexivity.
Qed.

(* ---------- bit tests used by exp and inv ---------- *)
Lemma land_1_mod2 x : Z.land x 1 = x mod 2.
Proof. change 1 with (Z.ones 1) at 1. rewrite Z.land_ones by lia. reflexivity. Qed.

(* ---------- further exported forms ---------- *)
Lemma fn_mul_spec_mod a b : 0 <= a -> 0 <= b -> a * b < 2^64 * M62 ->
  repr62 (f62_fn_mul a b) /\ (f62_fn_mul a b * 2^64) mod M62 = (a * b) mod M62 /\
  val62 (f62_fn_mul a b) = (val62 a * val62 b) mod M62 /\ f62_fn_mul_ok a b = true.
Proof.
  intros Ha Hb Hab. destruct (fn_mul_spec a b Ha Hb Hab) as [Hr Hc].
  split; [exact Hr|]. split; [apply eqM62_iff in Hc; exact Hc|].
  split; [apply fn_mul_val; assumption|apply fn_mul_ok_gen; assumption].
Qed.

(* canonical serialization identifies exactly the equal residues *)
Theorem f62_as_int_inj a b : repr62 a -> repr62 b ->
  (f62_as_int a = f62_as_int b <-> val62 a = val62 b).
Proof. intros Ha Hb. rewrite !f62_as_int_spec by assumption. reflexivity. Qed.

Theorem f62_try_from_u64_spec v : 0 <= v < 2^64 ->
  match f62_try_from_u64 v with
  | None => M62 <= v
  | Some e => v < M62 /\ repr62 e /\ val62 e = v
  end /\ f62_try_from_u64_ok v = true.
Proof.
  intros Hv. unfold f62_try_from_u64, f62_try_from_u64_ok. rewrite M62_eq.
  destruct (Z.geb_spec v M62) as [H|H]; [split; [exact H|reflexivity]|].
  destruct (f62_new_spec v Hv) as [Hr Hval].
  split; [|apply f62_new_ok_spec; exact Hv].
  split; [exact H|]. split; [exact Hr|]. rewrite Hval. apply Z.mod_small; lia.
Qed.

(* non-vacuity of the hypotheses used above *)
Example repr62_nonempty : repr62 0 /\ repr62 M62 /\ repr62 (2 * M62 - 1) /\ ~ repr62 (2 * M62).
Proof. unfold repr62, M62. repeat split; lia. Qed.
Example val62_two_words : val62 1 = val62 (M62 + 1) /\ 1 <> M62 + 1 /\ f62_eq 1 (M62 + 1) = true.
Proof. split; [vm_compute; reflexivity|]. split; [discriminate|vm_compute; reflexivity]. Qed.
