(* C19 — the stored internal word of a drawn f62 / f128 element (composition with the C07 theorems about the
   generated Gen/F62.v, Gen/F128.v).  stdlib style.
     f62 : try_from(&[u8]) / read_from store BaseElement::new(v): a word in [0, 2M) whose as_int is v.
     f128: they store BaseElement(v): the identity representation, v < M. *)
From VBase Require Import MachInt.
From VGen Require F62 F128.
From VModel Require Import ToyHash Coin.
From VProofs Require Import Coin CoinProps.
From VProofs Require F62Ops F128Limbs F128Ops.
Open Scope Z_scope.

Section Fields.
  Variable D : Type.
  Variable merge_with_int : D -> Z -> D.
  Variable dbytes : D -> list Z.
  Hypothesis Hbytes : forall d, Forall (fun b => 0 <= b < 256) (dbytes d).

  Local Notation draw := (coin_draw D merge_with_int dbytes).

  Theorem draw_f62_internal deg c c' e : draw (fk_f62 deg) c = (c', Ok e) ->
    Forall (fun v => F62Ops.repr62 (F62.f62_new v) /\ F62.f62_as_int (F62.f62_new v) = v /\
                     F62Ops.val62 (F62.f62_new v) = v) e.
  Proof.
    intros H. destruct (draw_valid_nonneg D merge_with_int dbytes _ _ _ _ Hbytes H) as [_ Hr].
    eapply Forall_impl; [|exact Hr]. cbn. intros v Hv. change mod_f62 with F62Ops.M62 in Hv.
    assert (Hv64 : 0 <= v < 2 ^ 64) by (unfold F62Ops.M62 in Hv; lia).
    destruct (F62Ops.f62_new_spec v Hv64) as [H1 H2].
    split; [exact H1|]. split.
    - rewrite (F62Ops.f62_as_int_new v Hv64). apply Z.mod_small. exact Hv.
    - etransitivity; [exact H2|]. apply Z.mod_small. exact Hv.
  Qed.

  Theorem draw_f128_internal deg c c' e : draw (fk_f128 deg) c = (c', Ok e) ->
    Forall (fun v => F128Ops.repr128 v /\ F128.f128_as_int v = v /\ F128.f128_new v = v /\
                     F128.f128_try_from_u128 v = Some v) e.
  Proof.
    intros H. destruct (draw_valid_nonneg D merge_with_int dbytes _ _ _ _ Hbytes H) as [_ Hr].
    eapply Forall_impl; [|exact Hr]. cbn. intros v Hv. change mod_f128 with F128Limbs.M in Hv.
    assert (Hv128 : 0 <= v < 2 ^ 128) by (unfold F128Limbs.M in Hv; lia).
    split; [exact Hv|]. split; [apply F128Ops.f128_as_int_spec|]. split.
    - rewrite (F128Ops.f128_new_spec v Hv128). apply Z.mod_small. exact Hv.
    - rewrite (F128Ops.f128_try_from_u128_spec v Hv128).
      replace (v <? F128Limbs.M) with true by (symmetry; apply Z.ltb_lt; lia). reflexivity.
  Qed.
End Fields.
