(* C17 — round 7 (B): the Lagrange-kernel terms are POLYNOMIALS, and the capstone with the Lagrange terms.
   For the kernel column polynomial L and constraint k (idx = k - 1): the numerator polynomial
       N_idx(x) = r[v-1-idx] * L(x) - (1 - r[v-1-idx]) * L(g^(2^(v-1-idx)) * x)
   vanishes on the subgroup of size 2^idx (C16_lagrange_honest_numerators_vanish for the honest column), hence by C01's
   vanish_divisible  N_idx = (x^(2^idx) - 1) * q_idx  as polynomials; likewise L(x) - prod(1 - r_i) = (x - 1) * q_b.
   Therefore lag_def agrees off the divisor zeros with ONE coefficient list, and the committed columns of an AIR with a
   Lagrange kernel column recombine to comp_def + lag_def.  stdlib style; arbitrary field with FLaws. *)
From Coq Require Import List Arith Bool Lia Ring Field ZArith.
From VBase Require Import MachInt FieldOps.
From VModel Require Import Composition CompositionLagrange.
From VModel Require Stark Enforce EnforceLagrange.
From VProofs Require StarkPoly StarkDeep.
From VProofs Require Import CompositionBase CompositionIndex CompositionVerifier CompositionTable CompositionLagrange.
Import ListNotations.
Local Open Scope nat_scope.

Lemma in_firstn_In {A} (w : A) : forall j l, In w (firstn j l) -> In w l.
Proof. induction j; intros l H; simpl in H; [tauto|]. destruct l; simpl in *; [tauto|]. destruct H; [now left | right; now apply IHj]. Qed.

Section LagPoly.
Context {F : Type} (O : FOps F) (L : FLaws O).
Add Ring Fr : (FLaws_ring_theory O L).
Add Field Ff : (FLaws_field_theory O L).
Local Notation fz := (fzero O).
Local Notation f1 := (fone O).
Local Infix "+f" := (fadd O) (at level 50, left associativity).
Local Infix "-f" := (fsub O) (at level 50, left associativity).
Local Infix "*f" := (fmul O) (at level 40, left associativity).
Local Notation cpow := (cpow O).
Local Notation peval := (peval O).
Local Notation rsum := (rsum O).

(* p(c * x) as a coefficient list *)
Fixpoint pdilate (c : F) (p : list F) : list F :=
  match p with [] => [] | a :: t => a :: Stark.pscale O c (pdilate c t) end.
Lemma pdilate_length c : forall p, length (pdilate c p) = length p.
Proof. induction p; simpl; [reflexivity|]. unfold Stark.pscale. now rewrite map_length, IHp. Qed.
Lemma peval_pdilate c : forall p x, peval (pdilate c p) x = peval p (c *f x).
Proof.
  induction p; intros x; simpl; [reflexivity|].
  change (Composition.peval O (Stark.pscale O c (pdilate c p)) x) with (Stark.peval O (Stark.pscale O c (pdilate c p)) x).
  rewrite (StarkDeep.peval_pscale O L). change (Stark.peval O (pdilate c p) x) with (peval (pdilate c p) x).
  rewrite IHp. ring.
Qed.

(* a * p - b * q as a coefficient list *)
Definition plin (a : F) (p : list F) (b : F) (q : list F) : list F :=
  Stark.padd O (Stark.pscale O a p) (Stark.pscale O (fneg O b) q).
Lemma peval_plin a p b q x : peval (plin a p b q) x = a *f peval p x -f b *f peval q x.
Proof.
  unfold plin. change (Composition.peval O) with (Stark.peval O).
  rewrite (StarkDeep.peval_padd O L), !(StarkDeep.peval_pscale O L). ring.
Qed.
Lemma plin_length a p b q : length (plin a p b q) = Nat.max (length p) (length q).
Proof. unfold plin. rewrite (StarkDeep.padd_length O). unfold Stark.pscale. now rewrite !map_length. Qed.

Variable n v : nat.
Variable g : F.
Hypothesis n_eq : n = 2 ^ v.
Hypothesis g_prim : StarkPoly.primitive_root O g n.
Variable Lp : list F.                         (* the kernel column polynomial *)
Variable rr : list F.                         (* r_0 .. r_(v-1) *)
Hypothesis rr_len : length rr = v.

(* the numerator of constraint idx + 1 as a polynomial *)
Definition lag_numer_poly (idx : nat) : list F :=
  let rk := nth (v - 1 - idx) rr fz in
  plin rk Lp (f1 -f rk) (pdilate (cpow g (2 ^ (v - 1 - idx))) Lp).

Lemma lag_numer_poly_eval idx x :
  peval (lag_numer_poly idx) x
  = nth (v - 1 - idx) rr fz *f peval Lp x -f (f1 -f nth (v - 1 - idx) rr fz) *f peval Lp (cpow g (2 ^ (v - 1 - idx)) *f x).
Proof. unfold lag_numer_poly. cbv zeta. now rewrite peval_plin, peval_pdilate. Qed.

(* the generator of the subgroup of size 2^idx *)
Definition hsub (idx : nat) : F := cpow g (2 ^ (v - idx)).

Lemma hsub_primitive idx : idx <= v -> StarkPoly.primitive_root O (hsub idx) (2 ^ idx).
Proof.
  intros Hi. destruct g_prim as [Hgn Hinj]. unfold hsub.
  assert (E : 2 ^ (v - idx) * 2 ^ idx = n) by (rewrite n_eq, <- Nat.pow_add_r; f_equal; lia).
  split.
  - change (Stark.fpow O) with cpow. rewrite <- (cpow_mul O L), E. exact Hgn.
  - intros i j Hi' Hj' H. change (Stark.fpow O) with cpow in H. rewrite <- !(cpow_mul O L) in H.
    pose proof (Nat.pow_nonzero 2 (v - idx) ltac:(lia)) as Hnz.
    assert (E2 : 2 ^ (v - idx) * i = 2 ^ (v - idx) * j) by (apply Hinj; [nia | nia | exact H]).
    nia.
Qed.

(* validity of the kernel column: numerator idx vanishes on the subgroup of size 2^idx (what
   C16_lagrange_honest_numerators_vanish proves for the honest column, rows j * n / 2^idx) *)
Hypothesis numer_vanishes : forall idx j, idx < v -> j < 2 ^ idx ->
  peval (lag_numer_poly idx) (cpow (hsub idx) j) = fz.
(* .. and the first cell is the asserted value *)
Hypothesis first_cell : peval Lp f1 = EnforceLagrange.lag_assertion_value O rr.

(* each Lagrange transition term is a polynomial: N_idx = (x^(2^idx) - 1) * q_idx *)
Theorem lagrange_term_is_poly idx : idx < v ->
  exists q, length q = length Lp - 2 ^ idx /\
            forall x, peval (lag_numer_poly idx) x = (cpow x (2 ^ idx) -f f1) *f peval q x.
Proof.
  intros Hi. pose proof (hsub_primitive idx ltac:(lia)) as Hh.
  destruct (StarkPoly.vanish_divisible O L (Stark.domain O (hsub idx) (2 ^ idx)) (lag_numer_poly idx)) as [q [Hl Hq]].
  - eapply StarkPoly.domain_NoDup; [exact Hh | lia].
  - intros r0 Hr. apply StarkPoly.In_domain in Hr. destruct Hr as [j [Hj ->]]. now apply numer_vanishes.
  - exists q. split.
    + rewrite Hl, StarkPoly.domain_length. unfold lag_numer_poly. cbv zeta.
      now rewrite plin_length, pdilate_length, Nat.max_id.
    + intros x. change (Composition.peval O) with (Stark.peval O). rewrite Hq.
      rewrite (StarkPoly.domain_vanishing O L (hsub idx) (2 ^ idx) Hh) by (pose proof (Nat.pow_nonzero 2 idx); lia).
      reflexivity.
Qed.

(* the boundary term: L(x) - prod(1 - r_i) = (x - 1) * q_b *)
Lemma peval_sub_const p a x : peval (Stark.sub_const O p a) x = peval p x -f (match p with [] => fz | _ => a end).
Proof. destruct p; simpl; ring. Qed.

Theorem lagrange_boundary_is_poly :
  exists q, length q = length Lp - 1 /\
            forall x, peval Lp x -f EnforceLagrange.lag_assertion_value O rr = (x -f f1) *f peval q x.
Proof.
  set (a := EnforceLagrange.lag_assertion_value O rr).
  assert (Hsc : forall x, peval (Stark.sub_const O Lp a) x = peval Lp x -f a).
  { intros x. rewrite peval_sub_const. destruct Lp eqn:E; [|reflexivity].
    assert (Ha : fz = a) by (unfold a; rewrite <- first_cell; reflexivity). rewrite <- Ha. reflexivity. }
  destruct (StarkPoly.vanish_divisible O L [f1] (Stark.sub_const O Lp a)) as [q [Hl Hq]].
  - constructor; [intros [] | constructor].
  - intros r0 [<-|[]]. change (Stark.peval O) with peval. rewrite Hsc. unfold a. rewrite first_cell. ring.
  - exists q. split.
    + rewrite Hl. destruct Lp; reflexivity.
    + intros x. rewrite <- Hsc. specialize (Hq x). change (Stark.peval O) with peval in Hq. rewrite Hq.
      cbn [Stark.pprod]. ring.
Qed.
(* ---------------------------------------------------------------- lag_def is ONE polynomial off the divisor zeros *)
Variable rou : nat -> F.
Hypothesis g_is : g = gtrace n rou.
Variable t : EnforceLagrange.LagTC (F := F).
Variable lb : F.
Local Notation lag_def := (lag_def O n rou v Lp t rr lb).

Definition lag_good (x : F) : Prop := x <> f1 /\ forall idx, idx < v -> cpow x (2 ^ idx) <> f1.

Lemma lag_frame_0 x : nth 0 (lag_frame O n rou v Lp x) fz = peval Lp x.
Proof. reflexivity. Qed.
Lemma lag_frame_nth x idx : idx < v ->
  nth (v - idx) (lag_frame O n rou v Lp x) fz = peval Lp (cpow g (2 ^ (v - 1 - idx)) *f x).
Proof.
  intros Hi. unfold lag_frame. replace (v - idx) with (S (v - 1 - idx)) by lia. cbn [nth].
  rewrite (nth_indep _ fz ((fun i => peval Lp (cpow (gtrace n rou) (2 ^ i) *f x)) 0)) by (rewrite map_length, seq_length; lia).
  rewrite (map_nth (fun i => peval Lp (cpow (gtrace n rou) (2 ^ i) *f x)) (seq 0 v) 0 (v - 1 - idx)), seq_nth by lia.
  now rewrite g_is.
Qed.

Lemma lag_num_poly x idx : idx < v ->
  lag_num O v t rr (lag_frame O n rou v Lp x) idx = nth idx (EnforceLagrange.l_coef t) fz *f peval (lag_numer_poly idx) x.
Proof. intros Hi. unfold lag_num. now rewrite lag_frame_0, (lag_frame_nth x idx Hi), lag_numer_poly_eval. Qed.

Lemma lag_sum_is_poly : forall m, m <= v ->
  exists Q, length Q <= length Lp /\ forall x, lag_good x ->
    rsum (map (fun idx => lag_num O v t rr (lag_frame O n rou v Lp x) idx *f finv O (cpow x (2 ^ idx) -f f1)) (seq 0 m)) = peval Q x.
Proof.
  induction m; intros Hm.
  - exists []. split; [simpl; lia|]. reflexivity.
  - destruct (IHm ltac:(lia)) as [Q [HQl HQ]]. destruct (lagrange_term_is_poly m ltac:(lia)) as [q [Hql Hq]].
    exists (Stark.padd O Q (Stark.pscale O (nth m (EnforceLagrange.l_coef t) fz) q)). split.
    + rewrite (StarkDeep.padd_length O), (StarkDeep.pscale_length O). lia.
    + intros x Hx. rewrite seq_S, map_app, (rsum_app O L), (HQ x Hx). cbn [map Nat.add Composition.rsum fold_right].
      change (Composition.peval O) with (Stark.peval O).
      rewrite (StarkDeep.peval_padd O L), (StarkDeep.peval_pscale O L). change (Stark.peval O) with peval.
      rewrite (lag_num_poly x m ltac:(lia)), Hq.
      assert (Hnz : cpow x (2 ^ m) -f f1 <> fz).
      { intros E. apply (proj2 Hx m ltac:(lia)). transitivity ((cpow x (2 ^ m) -f f1) +f f1); [ring | rewrite E; ring]. }
      field. exact Hnz.
Qed.

(* lag_def(x) = Q_l(x) wherever no Lagrange divisor vanishes *)
Theorem lag_def_is_poly :
  exists Q, length Q <= length Lp /\ forall x, lag_good x -> lag_def x = peval Q x.
Proof.
  destruct (lag_sum_is_poly v (le_n v)) as [Q [HQl HQ]]. destruct lagrange_boundary_is_poly as [qb [Hbl Hb]].
  exists (Stark.padd O Q (Stark.pscale O lb qb)). split.
  - rewrite (StarkDeep.padd_length O), (StarkDeep.pscale_length O). lia.
  - intros x Hx. unfold CompositionLagrange.lag_def, lag_def_on. rewrite (HQ x Hx), lag_frame_0, Hb.
    change (Composition.peval O) with (Stark.peval O).
    rewrite (StarkDeep.peval_padd O L), (StarkDeep.peval_pscale O L). change (Stark.peval O) with peval.
    assert (Hnz : x -f f1 <> fz).
    { intros E. apply (proj1 Hx). transitivity ((x -f f1) +f f1); [ring | rewrite E; ring]. }
    field. exact Hnz.
Qed.
End LagPoly.

(* ------------------------------------------------------------------ the capstone with the Lagrange terms *)
Section LagCapstone.
Context {F : Type} (O : FOps F) (L : FLaws O).
Add Ring Fr2 : (FLaws_ring_theory O L).
Local Notation fz := (fzero O).
Local Infix "+f" := (fadd O) (at level 50, left associativity).
Local Notation peval := (peval O).

Variable n ceb : nat.
Variable offset : F.
Variable rou : nat -> F.
Hypothesis n_pos : n <> 0.
Local Notation ce_size := (ce_size n ceb).
Local Notation ce_x := (ce_x O n ceb offset rou).
Variable interp : list F -> list F.
Hypothesis interp_roundtrip : forall p, length p = ce_size -> interp (map (fun i => peval p (ce_x i)) (seq 0 ce_size)) = p.
Variable num_cols : nat.
Hypothesis n_lt_ce : n < ce_size.

(* generic core: ANY pointwise definition d that agrees with a short coefficient list on a set containing the ce coset *)
Lemma composition_core_gen (d : F -> F) (good : F -> Prop) (q : list F) :
  (forall z, good z -> peval q z = d z) -> (forall i, i < ce_size -> good (ce_x i)) ->
  length q <= ce_size -> length q <= num_cols * n ->
  exists cols, composition_poly_new n interp (map (fun i => d (ce_x i)) (seq 0 ce_size)) num_cols = Some cols
    /\ (forall z, recombine O n (cp_evaluate_at O cols z) z = peval q z)
    /\ (forall z, good z -> recombine O n (cp_evaluate_at O cols z) z = d z).
Proof.
  intros Hq Hce Hl1 Hl2.
  set (evals := map (fun i => d (ce_x i)) (seq 0 ce_size)).
  assert (Hlen : length evals = ce_size) by (unfold evals; now rewrite map_length, seq_length).
  set (qpad := q ++ repeat fz (ce_size - length q)).
  assert (Hh : interp evals = qpad).
  { rewrite <- (interp_roundtrip qpad) by (unfold qpad; rewrite app_length, repeat_length; lia).
    f_equal. unfold evals. apply map_ext_in. intros i Hi. apply in_seq in Hi.
    unfold qpad. rewrite (peval_pad O L). symmetry. apply Hq, Hce. lia. }
  destruct (segment_some n n_pos num_cols (interp evals)) as [cols Hcols].
  exists cols. split.
  { unfold composition_poly_new. rewrite Hlen. apply Nat.ltb_lt in n_lt_ce. now rewrite n_lt_ce. }
  assert (Hre : forall z, recombine O n (cp_evaluate_at O cols z) z = peval q z).
  { intros z. rewrite (column_split_recombine_gen O L n n_pos num_cols _ z cols Hcols), Hh. unfold qpad.
    rewrite firstn_app, (firstn_all2 q) by exact Hl2.
    rewrite (peval_app O L), (peval_all_zero O L (firstn _ _)); [ring|].
    intros w Hw. apply in_firstn_In in Hw. now apply repeat_spec in Hw. }
  split; [exact Hre|]. intros z Hz. now rewrite Hre, Hq.
Qed.

(* composition_is_definition_lagrange_partial.
   cdef = comp_def of the AIR, ldef = lag_def.  Hypotheses and where each comes from:
     ev      : the table with the Lagrange hook is cdef + ldef over the ce coset        (C17_table_with_lagrange)
     Qc      : cdef agrees with a coefficient list off the trace domain (validity)      (comp_def_is_poly / C01)
     Ql      : ldef agrees with a coefficient list off the Lagrange divisor zeros       (C17_lag_def_is_poly, from the
               vanishing of the numerators on their subgroups: C16_lagrange_honest_numerators_vanish)
     interp_roundtrip                                                                  (C09, CompositionFFT.interp_fft_roundtrip)
   Conclusion: CompositionPoly::new succeeds on what evaluate returns and the committed columns recombine to
   Qc + Ql at EVERY z and to cdef(z) + ldef(z) at every z where both are defined. *)
Theorem composition_is_definition_lagrange_partial
  (cdef ldef : F -> F) (goodc goodl : F -> Prop) (Qc Ql : list F) (ev : option (list F)) :
  ev = Some (map (fun i => cdef (ce_x i) +f ldef (ce_x i)) (seq 0 ce_size)) ->
  (forall z, goodc z -> peval Qc z = cdef z) -> (forall z, goodl z -> peval Ql z = ldef z) ->
  (forall i, i < ce_size -> goodc (ce_x i) /\ goodl (ce_x i)) ->
  Nat.max (length Qc) (length Ql) <= ce_size -> Nat.max (length Qc) (length Ql) <= num_cols * n ->
  exists evals cols, ev = Some evals /\ composition_poly_new n interp evals num_cols = Some cols
    /\ (forall z, recombine O n (cp_evaluate_at O cols z) z = peval (Stark.padd O Qc Ql) z)
    /\ (forall z, goodc z -> goodl z -> recombine O n (cp_evaluate_at O cols z) z = cdef z +f ldef z).
Proof.
  intros Hev HQc HQl Hce Hl1 Hl2.
  destruct (composition_core_gen (fun z => cdef z +f ldef z) (fun z => goodc z /\ goodl z) (Stark.padd O Qc Ql))
    as [cols [H1 [H2 H3]]].
  - intros z [Hc Hl]. change (Composition.peval O) with (Stark.peval O). rewrite (StarkDeep.peval_padd O L).
    change (Stark.peval O) with peval. now rewrite HQc, HQl.
  - exact Hce.
  - now rewrite (StarkDeep.padd_length O).
  - now rewrite (StarkDeep.padd_length O).
  - eexists. exists cols. split; [exact Hev|]. split; [exact H1|]. split; [exact H2|]. intros z Hc Hl. apply H3. now split.
Qed.
End LagCapstone.
