(* C17 — the prover's evaluation table: every row of DefaultConstraintEvaluator::evaluate is the definition
   `comp_def` at x_i = offset * w_ce^i (table_row_spec / evaluate_spec), and the capstone
   composition_is_definition_partial.  stdlib style; arbitrary field with FLaws, arbitrary sizes. *)
From Coq Require Import List Arith Bool Lia Ring Field ZArith.
From VBase Require Import FieldOps.
From VModel Require Import Composition.
From VProofs Require Import CompositionBase CompositionIndex CompositionVerifier.
Import ListNotations.

Section Table.
Context {F : Type} (O : FOps F) (L : FLaws O).
Add Ring Fr : (FLaws_ring_theory O L).
Add Field Ff : (FLaws_field_theory O L).

Local Notation fz := (fzero O).
Local Notation f1 := (fone O).
Local Infix "+f" := (fadd O) (at level 50, left associativity).
Local Infix "-f" := (fsub O) (at level 50, left associativity).
Local Infix "*f" := (fmul O) (at level 40, left associativity).
Local Infix "/f" := (fdiv O) (at level 40, left associativity).
Local Notation cpow := (cpow O).
Local Notation peval := (peval O).
Local Notation rsum := (rsum O).
Local Notation rprod := (rprod O).
Local Notation lincomb := (lincomb O).

(* ---------------------------------------------------------------- field facts with the convention inv 0 = 0 *)
Lemma feq_dec (a b : F) : {a = b} + {a <> b}.
Proof.
  destruct (feqb O a b) eqn:E.
  - left. now apply (fl_eqb_spec O L).
  - right. intros H. apply (fl_eqb_spec O L) in H. congruence.
Qed.

Lemma finv_div a p : finv O (a /f p) = finv O a *f p.
Proof.
  destruct (feq_dec a fz) as [->|Ha].
  - rewrite (fl_div_def O L). replace (fz *f finv O p) with fz by ring. rewrite (fl_inv_0 O L). ring.
  - destruct (feq_dec p fz) as [->|Hp].
    + rewrite (fl_div_def O L), (fl_inv_0 O L). replace (a *f fz) with fz by ring. rewrite (fl_inv_0 O L). ring.
    + field. split; assumption.
Qed.

Lemma acc_opt_map {A B} (f : B -> option F) (k : A -> B) : forall l init,
  acc_opt O f (map k l) init = acc_opt O (fun c => f (k c)) l init.
Proof. unfold acc_opt. induction l; intros; simpl; [reflexivity | apply IHl]. Qed.

Lemma rsum_filter3 {A} (h : A -> F) (p1 p2 p3 : A -> bool) : forall l,
  (forall x, In x l -> (p1 x = true /\ p2 x = false /\ p3 x = false) \/ (p1 x = false /\ p2 x = true /\ p3 x = false)
                       \/ (p1 x = false /\ p2 x = false /\ p3 x = true)) ->
  rsum (map h (filter p1 l)) +f rsum (map h (filter p2 l)) +f rsum (map h (filter p3 l)) = rsum (map h l).
Proof.
  induction l as [|a l IH]; intros H; simpl; [ring|].
  assert (IH' := IH (fun x Hx => H x (or_intror Hx))).
  destruct (H a (or_introl eq_refl)) as [[-> [-> ->]]|[[-> [-> ->]]|[-> [-> ->]]]]; simpl; rewrite <- IH'; ring.
Qed.

(* ---------------------------------------------------------------- the setting *)
Variable n ceb ldeb r : nat.
Variable offset : F.
Variable rou : nat -> F.
Variable wlde ginv : F.
Hypothesis n_pos : n <> 0.
Hypothesis ceb_pos : ceb <> 0.
Hypothesis r_pos : r <> 0.
Hypothesis ldeb_eq : ldeb = ceb * r.                        (* the ce blowup divides the LDE blowup *)
Local Notation ce_size := (ce_size n ceb).
Local Notation lde_size := (lde_size n ldeb).
Local Notation wce := (wce n ceb rou).
Local Notation gtrace := (gtrace n rou).
(* root-of-unity relations (get_root_of_unity): w_lde generates the LDE domain, w_lde^r = w_ce, w_lde^ldeb = g *)
Hypothesis wlde_order : cpow wlde lde_size = f1.
Hypothesis wlde_wce : cpow wlde r = wce.
Hypothesis wlde_g : cpow wlde ldeb = gtrace.
Hypothesis ginv_spec : ginv *f gtrace = f1.

Local Notation ce_x := (ce_x O n ceb offset rou).

Lemma lde_size_eq : lde_size = ce_size * r.
Proof. unfold Composition.lde_size, Composition.ce_size. rewrite ldeb_eq. lia. Qed.

Lemma ce_to_lde_blowup_eq : ce_to_lde_blowup n ceb ldeb = r.
Proof.
  unfold ce_to_lde_blowup. rewrite lde_size_eq, Nat.mul_comm. apply Nat.div_mul. unfold Composition.ce_size. nia.
Qed.

Lemma wce_order : cpow wce ce_size = f1.
Proof.
  rewrite <- wlde_wce, <- (cpow_mul O L).
  replace (r * ce_size) with lde_size by (rewrite lde_size_eq; lia). exact wlde_order.
Qed.

Lemma gtrace_compat : cpow wce ceb = gtrace.
Proof. rewrite <- wlde_wce, <- (cpow_mul O L), <- wlde_g, ldeb_eq. f_equal. lia. Qed.

(* the AIR *)
Variable num_main num_aux : nat.
Variable tmain : list F -> list F -> list F -> list F.
Variable taux : list F -> list F -> list F -> list F -> list F -> list F -> list F.
Variable ppolys : list (list F).
Variable exemptions : nat.
Variable tcoef : list F.
Variable main_groups aux_groups : list (@BGroup F).
Variable rands : list F.
Variable tpolys apolys : list (list F).
Variable lde_main lde_aux : list (list F).

Hypothesis tmain_len : forall cur nxt pv, length (tmain cur nxt pv) = num_main.
Hypothesis exemptions_le : exemptions <= n.

(* periodic columns: what Air::get_periodic_column_polys asserts *)
Local Notation max_size := (fold_left Nat.max (map (@length F) ppolys) 0).
Hypothesis poly_len_pos : forall p, In p ppolys -> length p <> 0.
Hypothesis poly_len_div_n : forall p, In p ppolys -> length p * (n / length p) = n.
Hypothesis poly_len_div_max : forall p, In p ppolys -> exists q, max_size = length p * q.
Hypothesis rou_compat : forall p, In p ppolys -> rou (length p * ceb) = cpow wce (n / length p).

(* boundary constraints: what BoundaryConstraint::new / ConstraintDivisor::from_assertion produce *)
Definition bc_ok (polys : list (list F)) (c : @BC F) : Prop :=
  bc_col c < length polys /\ length (bc_poly c) <> 0 /\ bc_xoff c = cpow ginv (bc_first c) /\ bc_first c < n
  /\ length (bc_poly c) * (ce_size / length (bc_poly c)) = ce_size.
Definition div_ok (d : @Div F) : Prop := dv_ex d = [] /\ dv_a d <> 0 /\ dv_a d * (ce_size / dv_a d) = ce_size.
Hypothesis main_ok : forall g, In g main_groups -> div_ok (bg_div g) /\ forall c, In c (bg_cs g) -> bc_ok tpolys c.
Hypothesis aux_ok : forall g, In g aux_groups -> div_ok (bg_div g) /\ forall c, In c (bg_cs g) -> bc_ok apolys c.

(* the trace LDE holds the trace polynomials evaluated over the LDE coset (C09) *)
Definition lde_rows_of (lde polys : list (list F)) : Prop :=
  length lde = lde_size /\
  forall j, j < lde_size -> nth_error lde j = Some (map (fun T => peval T (cpow wlde j *f offset)) polys).
Hypothesis lde_main_ok : lde_rows_of lde_main tpolys.
Hypothesis lde_aux_ok : lde_rows_of lde_aux apolys.

(* ---------------------------------------------------------------- frames *)
Lemma lde_size_pos : lde_size <> 0.
Proof. unfold Composition.lde_size. rewrite ldeb_eq. nia. Qed.

Lemma read_frame_spec lde polys step : lde_rows_of lde polys -> step < ce_size ->
  read_frame ldeb lde (step * r)
  = Some (map (fun T => peval T (ce_x step)) polys, map (fun T => peval T (gtrace *f ce_x step)) polys).
Proof.
  intros [Hlen Hrows] Hstep. unfold read_frame. rewrite Hlen.
  pose proof lde_size_pos as Hp. destruct lde_size eqn:E; [congruence|]. rewrite <- E in *.
  assert (H1 : step * r < lde_size) by (rewrite lde_size_eq; nia).
  assert (H2 : (step * r + ldeb) mod lde_size < lde_size) by (apply Nat.mod_upper_bound; assumption).
  rewrite (Hrows _ H1), (Hrows _ H2). f_equal. f_equal.
  - apply map_ext. intros T. f_equal. unfold CompositionIndex.ce_x.
    rewrite (Nat.mul_comm step), (cpow_mul O L), wlde_wce. reflexivity.
  - apply map_ext. intros T. f_equal. unfold CompositionIndex.ce_x.
    rewrite (cpow_mod O L) by assumption.
    rewrite (cpow_add O L), (Nat.mul_comm step), (cpow_mul O L), wlde_wce, wlde_g. ring.
Qed.

(* ---------------------------------------------------------------- periodic table (also for no periodic columns) *)
Lemma ptable_spec : exists t, ptable_new O n ceb offset rou ppolys = Some t /\
  forall step, pt_get_row t step = Some (def_periodic O n ppolys (ce_x step)).
Proof.
  destruct ppolys as [|p0 pt] eqn:E.
  - eexists; split; [reflexivity|]. intros; reflexivity.
  - rewrite <- E in *.
    destruct (periodic_row_spec O L n ceb offset rou n_pos ceb_pos wce_order ppolys) as [t [Ht Hrow]]; try assumption.
    + rewrite E; discriminate.
    + exists t; split; [exact Ht|]. exact Hrow.
Qed.

(* ---------------------------------------------------------------- boundary groups *)
(* one constraint's contribution to its group's numerator *)
Definition bterm (polys : list (list F)) (x : F) (c : @BC F) : F :=
  bc_cc c *f bc_evaluate_at O c x (peval (nth (bc_col c) polys []) x).

Definition AG : Type := (@Div F * list (@BC F) * list (@BC F))%type.
Definition realize (ag : AG) : @PGroup F :=
  match ag with
  | (d, m, a) =>
    mkPG d (map (single_new O) (filter is_single m)) (map small_new (filter is_small m))
         (map (large_new O n ceb offset rou) (filter is_large m))
         (map (single_new O) (filter is_single a)) (map small_new (filter is_small a))
         (map (large_new O n ceb offset rou) (filter is_large a))
  end.
Fixpoint ag_merge (ps : list AG) (g : @BGroup F) : list AG :=
  match ps with
  | [] => [(bg_div g, [], bg_cs g)]
  | (d, m, a) :: t => if div_eqb O d (bg_div g) then (d, m, a ++ bg_cs g) :: t else (d, m, a) :: ag_merge t g
  end.
Definition ags : list AG := fold_left ag_merge aux_groups (map (fun g => (bg_div g, bg_cs g, [])) main_groups).

Lemma pg_merge_realize : forall ps g,
  pg_merge O n ceb offset rou (map realize ps) g = map realize (ag_merge ps g).
Proof.
  induction ps as [|[[d m] a] t IH]; intros g; simpl.
  - reflexivity.
  - destruct (div_eqb O d (bg_div g)); simpl.
    + f_equal. unfold pg_add_aux. simpl. now rewrite !filter_app, !map_app.
    + f_equal. apply IH.
Qed.

Lemma prover_groups_realize : prover_groups O n ceb offset rou main_groups aux_groups = map realize ags.
Proof.
  unfold prover_groups, ags.
  assert (E : map (pg_from_main O n ceb offset rou) main_groups
              = map realize (map (fun g => (bg_div g, bg_cs g, [])) main_groups)).
  { rewrite map_map. apply map_ext. intros g. reflexivity. }
  rewrite E. generalize (map (fun g : BGroup => (bg_div g, bg_cs g, @nil (@BC F))) main_groups).
  assert (G : forall gs l, fold_left (pg_merge O n ceb offset rou) gs (map realize l) = map realize (fold_left ag_merge gs l)).
  { induction gs as [|g gs IH]; intros l; simpl; [reflexivity|]. rewrite pg_merge_realize. apply IH. }
  apply G.
Qed.

Lemma classes_exclusive (c : @BC F) :
  (is_single c = true /\ is_small c = false /\ is_large c = false)
  \/ (is_single c = false /\ is_small c = true /\ is_large c = false)
  \/ (is_single c = false /\ is_small c = false /\ is_large c = true).
Proof.
  unfold is_small, is_large. destruct (is_single c); simpl; [tauto|].
  destruct (length (bc_poly c) <? SMALL_POLY_DEGREE); simpl; tauto.
Qed.

(* the three loops over one segment's constraints *)
Lemma segment_loops polys cs step acc : step < ce_size ->
  (forall c, In c cs -> bc_ok polys c) ->
  let state := map (fun T => peval T (ce_x step)) polys in
  acc_opt O (fun c => large_eval O c state step) (map (large_new O n ceb offset rou) (filter is_large cs))
    (acc_opt O (fun c => small_eval O c state (ce_x step)) (map small_new (filter is_small cs))
       (acc_opt O (fun c => single_eval O c state) (map (single_new O) (filter is_single cs)) (Some acc)))
  = Some (acc +f rsum (map (bterm polys (ce_x step)) cs)).
Proof.
  intros Hstep Hok state.
  assert (Hrepr : forall c, In c cs ->
     small_eval O (small_new c) state (ce_x step) = Some (bterm polys (ce_x step) c)
     /\ large_eval O (large_new O n ceb offset rou c) state step = Some (bterm polys (ce_x step) c)
     /\ (length (bc_poly c) = 1 -> single_eval O (single_new O c) state = Some (bterm polys (ce_x step) c))).
  { intros c Hc. destruct (Hok c Hc) as [H1 [H2 [H3 [H4 H5]]]].
    apply (boundary_repr_equiv O L n ceb offset rou n_pos ceb_pos wce_order gtrace_compat ginv ginv_spec c state
             (peval (nth (bc_col c) polys []) (ce_x step))); try assumption.
    unfold state. rewrite nth_error_map, (nth_error_nth' polys [] H1). reflexivity. }
  rewrite !acc_opt_map.
  rewrite (acc_opt_some O L _ (bterm polys (ce_x step))).
  2:{ intros c Hc. apply filter_In in Hc. destruct Hc as [Hc Hs]. apply (proj2 (proj2 (Hrepr c Hc))).
      unfold is_single in Hs. now apply Nat.eqb_eq in Hs. }
  rewrite (acc_opt_some O L _ (bterm polys (ce_x step))).
  2:{ intros c Hc. apply filter_In in Hc. apply (proj1 (Hrepr c (proj1 Hc))). }
  rewrite (acc_opt_some O L _ (bterm polys (ce_x step))).
  2:{ intros c Hc. apply filter_In in Hc. apply (proj1 (proj2 (Hrepr c (proj1 Hc)))). }
  f_equal. rewrite <- (rsum_filter3 (bterm polys (ce_x step)) is_single is_small is_large cs).
  - ring.
  - intros c _. apply classes_exclusive.
Qed.

Definition ag_ok (ag : AG) : Prop :=
  match ag with (d, m, a) => div_ok d /\ (forall c, In c m -> bc_ok tpolys c) /\ (forall c, In c a -> bc_ok apolys c) end.
Definition ag_num (x : F) (ag : AG) : F :=
  match ag with (d, m, a) => rsum (map (bterm tpolys x) m) +f rsum (map (bterm apolys x) a) end.
Definition ag_div (ag : AG) : @Div F := match ag with (d, _, _) => d end.

Lemma pg_evaluate_all_spec ag step : step < ce_size -> ag_ok ag ->
  pg_evaluate_all O (realize ag) (def_cur O tpolys (ce_x step)) (def_acur O apolys (ce_x step)) step (ce_x step)
  = Some (ag_num (ce_x step) ag).
Proof.
  intros Hstep Hok. destruct ag as [[d m] a]. destruct Hok as [_ [Hm Ha]].
  unfold pg_evaluate_all, pg_evaluate_main, realize, def_cur, def_acur.
  cbn [pg_main_single pg_main_small pg_main_large pg_aux_single pg_aux_small pg_aux_large].
  rewrite (segment_loops tpolys m step fz Hstep Hm).
  rewrite (segment_loops apolys a step _ Hstep Ha).
  f_equal. unfold ag_num. ring.
Qed.

Lemma pg_evaluate_main_spec ag step : step < ce_size -> ag_ok ag ->
  pg_evaluate_main O (realize ag) (def_cur O tpolys (ce_x step)) step (ce_x step)
  = Some (rsum (map (bterm tpolys (ce_x step)) (snd (fst ag)))).
Proof.
  intros Hstep Hok. destruct ag as [[d m] a]. destruct Hok as [_ [Hm Ha]].
  unfold pg_evaluate_main, realize, def_cur. cbn [pg_main_single pg_main_small pg_main_large fst snd].
  rewrite (segment_loops tpolys m step fz Hstep Hm). f_equal. ring.
Qed.

(* merging preserves well-formedness and the sum of the quotients *)
Lemma ag_merge_ok : forall ps g, Forall ag_ok ps -> div_ok (bg_div g) -> (forall c, In c (bg_cs g) -> bc_ok apolys c) ->
  Forall ag_ok (ag_merge ps g).
Proof.
  induction ps as [|[[d m] a] t IH]; intros g Hps Hd Hc; simpl.
  - constructor; [|constructor]. simpl. split; [exact Hd|]. split; [intros c0 []| exact Hc].
  - inversion Hps as [|? ? Hh Ht]; subst. destruct (div_eqb O d (bg_div g)).
    + constructor; [|exact Ht]. destruct Hh as [H1 [H2 H3]]. split; [exact H1|]. split; [exact H2|].
      intros c0 Hin. apply in_app_or in Hin. destruct Hin; [now apply H3 | now apply Hc].
    + constructor; [exact Hh | now apply IH].
Qed.

Lemma ags_ok : Forall ag_ok ags.
Proof.
  unfold ags.
  assert (H0 : Forall ag_ok (map (fun g => (bg_div g, bg_cs g, [])) main_groups)).
  { apply Forall_forall. intros ag Hag. apply in_map_iff in Hag. destruct Hag as [g [<- Hg]].
    destruct (main_ok g Hg) as [Hd Hc]. simpl. split; [exact Hd|]. split; [exact Hc | intros c0 []]. }
  revert H0. generalize (map (fun g : BGroup => (bg_div g, bg_cs g, @nil (@BC F))) main_groups).
  assert (G : forall gs, (forall g, In g gs -> div_ok (bg_div g) /\ forall c, In c (bg_cs g) -> bc_ok apolys c) ->
              forall l, Forall ag_ok l -> Forall ag_ok (fold_left ag_merge gs l)).
  { induction gs as [|g gs IH]; intros Haux l Hl; simpl; [exact Hl|].
    apply IH; [intros g' Hg'; apply Haux; now right|].
    destruct (Haux g (or_introl eq_refl)) as [Hd Hc]. now apply ag_merge_ok. }
  apply G. exact aux_ok.
Qed.

(* the factor 1 / (x^a - b) of a boundary divisor *)
Definition dfac (x : F) (d : @Div F) : F := finv O (cpow x (dv_a d) -f dv_b d).

Lemma div_eqb_dfac d e x : div_eqb O d e = true -> dfac x d = dfac x e.
Proof.
  unfold div_eqb, dfac. intros H. apply andb_prop in H. destruct H as [H _].
  apply andb_prop in H. destruct H as [H _]. apply andb_prop in H. destruct H as [Ha Hb].
  apply Nat.eqb_eq in Ha. apply (fl_eqb_spec O L) in Hb. now rewrite Ha, Hb.
Qed.

Definition ags_sum (x : F) (l : list AG) : F := rsum (map (fun ag => ag_num x ag *f dfac x (ag_div ag)) l).

Lemma ag_merge_sum x : forall ps g,
  ags_sum x (ag_merge ps g) = ags_sum x ps +f rsum (map (bterm apolys x) (bg_cs g)) *f dfac x (bg_div g).
Proof.
  unfold ags_sum. induction ps as [|[[d m] a] t IH]; intros g; simpl.
  - ring.
  - destruct (div_eqb O d (bg_div g)) eqn:E; simpl.
    + rewrite map_app, (rsum_app O L), <- (div_eqb_dfac d (bg_div g) x E). ring.
    + rewrite IH. ring.
Qed.

Lemma ags_sum_spec x :
  ags_sum x ags = rsum (map (fun g => rsum (map (bterm tpolys x) (bg_cs g)) *f dfac x (bg_div g)) main_groups)
                  +f rsum (map (fun g => rsum (map (bterm apolys x) (bg_cs g)) *f dfac x (bg_div g)) aux_groups).
Proof.
  unfold ags.
  assert (H0 : ags_sum x (map (fun g => (bg_div g, bg_cs g, [])) main_groups)
               = rsum (map (fun g => rsum (map (bterm tpolys x) (bg_cs g)) *f dfac x (bg_div g)) main_groups)).
  { unfold ags_sum. rewrite map_map. apply (rsum_map_ext O). intros g _. simpl. ring. }
  rewrite <- H0. generalize (map (fun g : BGroup => (bg_div g, bg_cs g, @nil (@BC F))) main_groups).
  assert (G : forall gs l, ags_sum x (fold_left ag_merge gs l)
              = ags_sum x l +f rsum (map (fun g => rsum (map (bterm apolys x) (bg_cs g)) *f dfac x (bg_div g)) gs)).
  { induction gs as [|g gs IH]; intros l; simpl; [ring|]. rewrite IH, ag_merge_sum. ring. }
  apply G.
Qed.

(* a group's quotient in the definition *)
Lemma def_group_bterm polys g x :
  def_group O polys g x = rsum (map (bterm polys x) (bg_cs g)) *f dfac x (bg_div g).
Proof.
  unfold def_group, dfac. rewrite (rsum_div O L), (fl_div_def O L). f_equal.
  apply (rsum_map_ext O). intros c _. unfold bterm, bc_evaluate_at. now rewrite (bc_value_def O L).
Qed.


(* ---------------------------------------------------------------- division by the divisors (acc_column) *)
Lemma mapM_map {A B C} (f : B -> option C) (k : A -> B) : forall l, mapM f (map k l) = mapM (fun a => f (k a)) l.
Proof. induction l; simpl; [reflexivity | now rewrite IHl]. Qed.

Definition inv_evals (d : @Div F) : list F :=
  map (fun xa => finv O (xa -f dv_b d))
      (map (fun i => cpow (cpow wce i) (dv_a d) *f cpow offset (dv_a d)) (seq 0 (ce_size / dv_a d))).

Lemma get_inv_evaluation_spec d : dv_a d <> 0 -> get_inv_evaluation O n ceb offset rou d = Some (inv_evals d).
Proof.
  intros Ha. unfold get_inv_evaluation. destruct (dv_a d) eqn:E; [congruence|]. rewrite <- E.
  rewrite (mapM_some _ (fun i => cpow (cpow wce i) (dv_a d) *f cpow offset (dv_a d))).
  - reflexivity.
  - intros i _. apply (get_ce_x_power_at_spec O L n ceb rou n_pos ceb_pos wce_order).
Qed.

Lemma acc_factor_spec d i : i < ce_size -> dv_a d <> 0 -> dv_a d * (ce_size / dv_a d) = ce_size ->
  acc_factor O n ceb offset rou d (inv_evals d) i = Some (dfac (ce_x i) d *f div_exemptions_at O d (ce_x i)).
Proof.
  intros Hi Ha Hdiv. unfold acc_factor, inv_evals. rewrite !map_length, seq_length.
  set (m := ce_size / dv_a d) in *.
  assert (Hm : m <> 0) by (intros Hm0; rewrite Hm0 in Hdiv; pose proof (ce_size_pos n ceb n_pos ceb_pos); lia).
  destruct m eqn:Em; [congruence|]. rewrite <- Em in *.
  assert (Hj : i mod m < m) by (apply Nat.mod_upper_bound; assumption).
  rewrite !nth_error_map, (nth_error_nth' (seq 0 m) 0) by (now rewrite seq_length).
  rewrite seq_nth by assumption. cbn [option_map Nat.add].
  assert (E : finv O (cpow (cpow wce (i mod m)) (dv_a d) *f cpow offset (dv_a d) -f dv_b d) = dfac (ce_x i) d).
  { unfold dfac, CompositionIndex.ce_x. rewrite (cpow_mul_base O L). f_equal. f_equal. f_equal.
    rewrite <- !(cpow_mul O L).
    rewrite (Nat.div_mod i m Hm) at 2.
    replace ((m * (i / m) + i mod m) * dv_a d) with (ce_size * (i / m) + i mod m * dv_a d) by (rewrite <- Hdiv; lia).
    rewrite (cpow_add O L), (cpow_mul O L wce ce_size (i / m)), wce_order, (cpow_one O L). ring. }
  rewrite E. destruct (dv_ex d) eqn:Eex.
  - f_equal. unfold div_exemptions_at. rewrite Eex. simpl. ring.
  - rewrite (get_ce_x_at_spec O L n ceb offset rou i Hi). reflexivity.
Qed.

Lemma combine_row_spec (fac : @Div F -> F) divs i row :
  (forall dz, In dz divs -> acc_factor O n ceb offset rou (fst dz) (snd dz) i = Some (fac (fst dz))) ->
  combine_row O n ceb offset rou divs i row
  = Some (rsum (map (fun vd => fst vd *f fac (fst (snd vd))) (combine row divs))).
Proof.
  intros H. unfold combine_row.
  rewrite (acc_opt_some O L _ (fun vd => fst vd *f fac (fst (snd vd)))).
  - f_equal. ring.
  - intros [v dz] Hin. apply in_combine_r in Hin. cbn [fst snd]. now rewrite (H dz Hin).
Qed.

Lemma combine_map_map {A B C} (f : A -> B) (g : A -> C) : forall l, combine (map f l) (map g l) = map (fun x => (f x, g x)) l.
Proof. induction l; simpl; [reflexivity | now rewrite IHl]. Qed.

(* ---------------------------------------------------------------- the whole table: evaluate_spec *)
Local Notation comp_def has_aux :=
  (comp_def O n rou tmain taux ppolys exemptions tcoef main_groups aux_groups rands has_aux tpolys apolys).

Lemma tdiv_ok : dv_a (tdiv O n rou exemptions) <> 0
  /\ dv_a (tdiv O n rou exemptions) * (ce_size / dv_a (tdiv O n rou exemptions)) = ce_size.
Proof.
  unfold tdiv, div_from_transition. cbn [dv_a]. split; [exact n_pos|].
  unfold Composition.ce_size. rewrite (Nat.mul_comm n ceb), Nat.div_mul by exact n_pos. lia.
Qed.

Lemma tdiv_factor x :
  dfac x (tdiv O n rou exemptions) *f div_exemptions_at O (tdiv O n rou exemptions) x
  = finv O (def_tdiv O n rou exemptions x).
Proof.
  unfold def_tdiv. rewrite finv_div. unfold dfac, tdiv, div_from_transition, div_exemptions_at. cbn [dv_a dv_b dv_ex].
  rewrite (fold_mul_rprod O L (fun e => x -f e)), map_map. ring.
Qed.

Lemma ag_factor x ag : ag_ok ag ->
  dfac x (ag_div ag) *f div_exemptions_at O (ag_div ag) x = dfac x (ag_div ag).
Proof.
  destruct ag as [[d m] a]. intros [[Hex _] _]. cbn [ag_div]. unfold div_exemptions_at. rewrite Hex. simpl. ring.
Qed.

(* table_row_spec + combine: with an auxiliary segment, the i-th value returned by
   DefaultConstraintEvaluator::evaluate is comp_def at x_i = w_ce^i * offset, for every i < |ce domain| *)
Theorem evaluate_spec_aux :
  evaluate O n ceb ldeb offset rou num_main tmain taux ppolys exemptions tcoef main_groups aux_groups rands true
           lde_main lde_aux (fun _ v => v)
  = Some (map (fun i => comp_def true (ce_x i)) (seq 0 ce_size)).
Proof.
  unfold evaluate. destruct ptable_spec as [t [Ht Hrow]]. rewrite Ht.
  rewrite prover_groups_realize.
  set (divisors := tdiv O n rou exemptions :: map (@pg_div F) (map realize ags)).
  rewrite (mapM_some _ (fun d => (d, inv_evals d))).
  2:{ intros d Hd. rewrite get_inv_evaluation_spec; [reflexivity|].
      destruct Hd as [<-|Hd]; [apply tdiv_ok|].
      rewrite map_map in Hd. apply in_map_iff in Hd. destruct Hd as [[[d' m] a] [<- Hin]].
      pose proof (proj1 (Forall_forall _ _) ags_ok _ Hin) as [[_ [Ha _]] _]. exact Ha. }
  apply mapM_some. intros i Hi. apply in_seq in Hi. destruct Hi as [_ Hi]. cbn [Nat.add] in Hi.
  unfold eval_row. rewrite ce_to_lde_blowup_eq.
  rewrite (read_frame_spec lde_main tpolys i lde_main_ok Hi), (read_frame_spec lde_aux apolys i lde_aux_ok Hi).
  rewrite (get_ce_x_at_spec O L n ceb offset rou i Hi).
  unfold evaluate_main_transition, evaluate_aux_transition. rewrite Hrow.
  rewrite mapM_map.
  rewrite (mapM_some _ (ag_num (ce_x i))).
  2:{ intros ag Hag. apply (pg_evaluate_all_spec ag i Hi). exact (proj1 (Forall_forall _ _) ags_ok _ Hag). }
  set (fac := fun d : @Div F => dfac (ce_x i) d *f div_exemptions_at O d (ce_x i)).
  rewrite (combine_row_spec fac).
  2:{ intros [d zs] Hin. apply in_map_iff in Hin. destruct Hin as [d' [E Hd]]. inversion E; subst d' zs. cbn [fst snd].
      destruct Hd as [<-|Hd]; [apply acc_factor_spec; [exact Hi | apply tdiv_ok | apply tdiv_ok]|].
      rewrite map_map in Hd. apply in_map_iff in Hd. destruct Hd as [[[d' m] a] [<- Hin]].
      pose proof (proj1 (Forall_forall _ _) ags_ok _ Hin) as [[_ [Ha Hb]] _].
      apply acc_factor_spec; assumption. }
  f_equal. unfold divisors. rewrite !map_map. cbn [map combine fst snd].
  rewrite (map_map (fun x : AG => pg_div (realize x))).
  rewrite combine_map_map, map_map. cbn [fst snd].
  change (rsum (?v :: ?l)) with (v +f rsum l).
  (* the boundary part *)
  assert (Eb : rsum (map (fun ag => ag_num (ce_x i) ag *f fac (pg_div (realize ag))) ags)
               = def_boundary O main_groups aux_groups true tpolys apolys (ce_x i)).
  { unfold def_boundary. rewrite (rsum_map_ext O _ (fun ag => ag_num (ce_x i) ag *f dfac (ce_x i) (ag_div ag))).
    - fold (ags_sum (ce_x i) ags). rewrite ags_sum_spec. f_equal; apply (rsum_map_ext O); intros g _;
        now rewrite def_group_bterm.
    - intros ag Hag. pose proof (proj1 (Forall_forall _ _) ags_ok _ Hag) as Hok. unfold fac.
      replace (pg_div (realize ag)) with (ag_div ag) by (destruct ag as [[? ?] ?]; reflexivity).
      now rewrite (ag_factor _ ag Hok). }
  rewrite Eb. unfold Composition.comp_def. f_equal.
  (* the transition part *)
  unfold fac. rewrite tdiv_factor. unfold def_transition, def_constraints.
  rewrite (rsum_div O L), (fl_div_def O L). f_equal.
  rewrite combine_app_l, map_app, (rsum_app O L), tmain_len.
  fold (main_coef num_main tcoef). fold (aux_coef num_main tcoef).
  now rewrite <- !(lincomb_rsum O L).
Qed.

(* the same, stated row by row (table_row_spec) *)
Corollary table_row_spec_aux : forall evals i, i < ce_size ->
  evaluate O n ceb ldeb offset rou num_main tmain taux ppolys exemptions tcoef main_groups aux_groups rands true
           lde_main lde_aux (fun _ v => v) = Some evals ->
  nth_error evals i = Some (comp_def true (ce_x i)).
Proof.
  intros evals i Hi H. rewrite evaluate_spec_aux in H. inversion H; subst evals.
  rewrite nth_error_map, (nth_error_nth' (seq 0 ce_size) 0) by (now rewrite seq_length).
  now rewrite seq_nth.
Qed.


(* ---------------------------------------------------------------- single-segment path (evaluate_fragment_main) *)
Section MainOnly.
Hypothesis aux_empty : aux_groups = [].        (* no auxiliary segment: get_boundary_constraints returns no aux groups *)

Lemma ags_main_only : ags = map (fun g => (bg_div g, bg_cs g, [])) main_groups.
Proof. unfold ags. rewrite aux_empty. reflexivity. Qed.

(* table_row_spec for the single-segment code path: evaluate_fragment_main reads only the main frame, merges the main
   transition constraints with the FIRST num_main coefficients and evaluates the boundary groups with evaluate_main *)
Theorem evaluate_spec_main :
  evaluate O n ceb ldeb offset rou num_main tmain taux ppolys exemptions tcoef main_groups aux_groups rands false
           lde_main lde_aux (fun _ v => v)
  = Some (map (fun i => comp_def false (ce_x i)) (seq 0 ce_size)).
Proof.
  unfold evaluate. destruct ptable_spec as [t [Ht Hrow]]. rewrite Ht.
  rewrite prover_groups_realize.
  set (divisors := tdiv O n rou exemptions :: map (@pg_div F) (map realize ags)).
  rewrite (mapM_some _ (fun d => (d, inv_evals d))).
  2:{ intros d Hd. rewrite get_inv_evaluation_spec; [reflexivity|].
      destruct Hd as [<-|Hd]; [apply tdiv_ok|].
      rewrite map_map in Hd. apply in_map_iff in Hd. destruct Hd as [[[d' m] a] [<- Hin]].
      pose proof (proj1 (Forall_forall _ _) ags_ok _ Hin) as [[_ [Ha _]] _]. exact Ha. }
  apply mapM_some. intros i Hi. apply in_seq in Hi. destruct Hi as [_ Hi]. cbn [Nat.add] in Hi.
  unfold eval_row. rewrite ce_to_lde_blowup_eq.
  rewrite (read_frame_spec lde_main tpolys i lde_main_ok Hi).
  rewrite (get_ce_x_at_spec O L n ceb offset rou i Hi).
  unfold evaluate_main_transition. rewrite Hrow.
  rewrite mapM_map.
  rewrite (mapM_some _ (fun ag : AG => rsum (map (bterm tpolys (ce_x i)) (snd (fst ag))))).
  2:{ intros ag Hag. apply (pg_evaluate_main_spec ag i Hi). exact (proj1 (Forall_forall _ _) ags_ok _ Hag). }
  set (fac := fun d : @Div F => dfac (ce_x i) d *f div_exemptions_at O d (ce_x i)).
  rewrite (combine_row_spec fac).
  2:{ intros [d zs] Hin. apply in_map_iff in Hin. destruct Hin as [d' [E Hd]]. inversion E; subst d' zs. cbn [fst snd].
      destruct Hd as [<-|Hd]; [apply acc_factor_spec; [exact Hi | apply tdiv_ok | apply tdiv_ok]|].
      rewrite map_map in Hd. apply in_map_iff in Hd. destruct Hd as [[[d' m] a] [<- Hin]].
      pose proof (proj1 (Forall_forall _ _) ags_ok _ Hin) as [[_ [Ha Hb]] _].
      apply acc_factor_spec; assumption. }
  f_equal. unfold divisors. rewrite !map_map. cbn [map combine fst snd].
  rewrite (map_map (fun x : AG => pg_div (realize x))).
  rewrite combine_map_map, map_map. cbn [fst snd].
  change (rsum (?v :: ?l)) with (v +f rsum l).
  (* the boundary part *)
  assert (Eb : rsum (map (fun ag : AG => rsum (map (bterm tpolys (ce_x i)) (snd (fst ag))) *f fac (pg_div (realize ag))) ags)
               = def_boundary O main_groups aux_groups false tpolys apolys (ce_x i)).
  { unfold def_boundary. rewrite ags_main_only, map_map. cbn [fst snd].
    transitivity (rsum (map (fun g => def_group O tpolys g (ce_x i)) main_groups)); [|ring].
    apply (rsum_map_ext O). intros g Hg. rewrite def_group_bterm. cbn [realize pg_div].
    destruct (main_ok g Hg) as [[Hex _] _]. unfold fac, div_exemptions_at. rewrite Hex. simpl. ring. }
  rewrite Eb. unfold Composition.comp_def. f_equal.
  (* the transition part *)
  unfold fac. rewrite tdiv_factor. unfold def_transition, def_constraints.
  rewrite app_nil_r, (rsum_div O L), (fl_div_def O L). f_equal.
  set (t1 := tmain _ _ _).
  assert (E : combine t1 tcoef = combine t1 (main_coef num_main tcoef)).
  { unfold main_coef. unfold t1 at 2. rewrite <- (tmain_len (def_cur O tpolys (ce_x i)) (def_nxt O n rou tpolys (ce_x i))
                                                   (def_periodic O n ppolys (ce_x i))).
    fold t1. rewrite <- (app_nil_r t1) at 1. rewrite combine_app_l. simpl. now rewrite app_nil_r. }
  rewrite E, <- (lincomb_rsum O L). reflexivity.
Qed.
End MainOnly.

(* ---------------------------------------------------------------- capstone *)
Lemma peval_all_zero l z : (forall v, In v l -> v = fz) -> peval l z = fz.
Proof.
  induction l as [|a l IH]; intros H; simpl; [reflexivity|].
  rewrite (H a (or_introl eq_refl)), IH by (intros v Hv; apply H; now right). ring.
Qed.

Lemma in_firstn {A} (v : A) : forall j l, In v (firstn j l) -> In v l.
Proof. induction j; intros l H; simpl in H; [tauto|]. destruct l; simpl in *; [tauto|]. destruct H; [now left | right; now apply IHj]. Qed.

Lemma peval_pad q0 k z : peval (q0 ++ repeat fz k) z = peval q0 z.
Proof.
  rewrite (peval_app O L), (peval_all_zero (repeat fz k)) by (intros v Hv; now apply repeat_spec in Hv). ring.
Qed.

Section Capstone.
(* `interp` stands for fft::interpolate_poly_with_offset over the ce coset.  The only fact needed about it is the round
   trip "interpolating the evaluations of a polynomial with |ce| coefficients over the ce coset returns that polynomial"
   (C09_interpolate_with_offset_spec; discharged in Proofs/CompositionFFT.v). *)
Variable interp : list F -> list F.
(* deg comp_def < |ce domain|, in the only form that makes sense for a rational function: a coefficient list q with
   at most min(|ce|, num_cols * n) coefficients agrees with comp_def wherever no divisor vanishes (`good`), in
   particular on the ce coset (this is where validity of the trace enters: C16 / C01_air_quotient_exists) *)
Variable good : F -> Prop.
Variable q : list F.
Variable num_cols : nat.
Variable has_aux : bool.
Hypothesis q_is_def : forall z, good z -> peval q z = comp_def has_aux z.
Hypothesis ce_good : forall i, i < ce_size -> good (ce_x i).
Hypothesis q_len_ce : length q <= ce_size.
Hypothesis q_len_cols : length q <= num_cols * n.
Hypothesis n_lt_ce : n < ce_size.                       (* CompositionPoly::new's assert: ce blowup >= 2 *)
Hypothesis evaluate_is_def :
  evaluate O n ceb ldeb offset rou num_main tmain taux ppolys exemptions tcoef main_groups aux_groups rands has_aux
           lde_main lde_aux (fun _ v => v) = Some (map (fun i => comp_def has_aux (ce_x i)) (seq 0 ce_size)).

Section RoundTrip.
Hypothesis interp_roundtrip : forall p, length p = ce_size ->
  interp (map (fun i => peval p (ce_x i)) (seq 0 ce_size)) = p.

Lemma composition_core :
  exists evals cols,
    evaluate O n ceb ldeb offset rou num_main tmain taux ppolys exemptions tcoef main_groups aux_groups rands has_aux
             lde_main lde_aux (fun _ v => v) = Some evals
    /\ composition_poly_new n interp evals num_cols = Some cols
    /\ (forall z, recombine O n (cp_evaluate_at O cols z) z = peval q z)
    /\ (forall z, good z -> recombine O n (cp_evaluate_at O cols z) z = comp_def has_aux z).
Proof.
  set (evals := map (fun i => comp_def has_aux (ce_x i)) (seq 0 ce_size)).
  assert (Hlen : length evals = ce_size) by (unfold evals; now rewrite map_length, seq_length).
  set (qpad := q ++ repeat fz (ce_size - length q)).
  assert (Hh : interp evals = qpad).
  { rewrite <- (interp_roundtrip qpad) by (unfold qpad; rewrite app_length, repeat_length; lia).
    f_equal. unfold evals. apply map_ext_in. intros i Hi. apply in_seq in Hi.
    unfold qpad. rewrite peval_pad. symmetry. apply q_is_def, ce_good. lia. }
  destruct (segment_some n n_pos num_cols (interp evals)) as [cols Hcols].
  exists evals, cols. split; [exact evaluate_is_def|]. split.
  { unfold composition_poly_new. rewrite Hlen. apply Nat.ltb_lt in n_lt_ce. now rewrite n_lt_ce. }
  assert (Hre : forall z, recombine O n (cp_evaluate_at O cols z) z = peval q z).
  { intros z. rewrite (column_split_recombine_gen O L n n_pos num_cols _ z cols Hcols), Hh. unfold qpad.
    rewrite firstn_app, (firstn_all2 q) by exact q_len_cols.
    rewrite (peval_app O L), (peval_all_zero (firstn _ _)); [ring|].
    intros v Hv. apply in_firstn in Hv. now apply repeat_spec in Hv. }
  split; [exact Hre|]. intros z Hz. now rewrite Hre, q_is_def.
Qed.
End RoundTrip.

(* the round trip follows from "interpolation returns a polynomial with the given evaluations" + uniqueness *)
Hypothesis interp_evals : forall evals, length evals = ce_size ->
  length (interp evals) = ce_size /\ forall i, i < ce_size -> peval (interp evals) (ce_x i) = nth i evals fz.
Hypothesis interp_unique : forall p1 p2, length p1 = ce_size -> length p2 = ce_size ->
  (forall i, i < ce_size -> peval p1 (ce_x i) = peval p2 (ce_x i)) -> p1 = p2.

Lemma roundtrip_from_unique : forall p, length p = ce_size ->
  interp (map (fun i => peval p (ce_x i)) (seq 0 ce_size)) = p.
Proof.
  intros p Hp. set (ev := map (fun i => peval p (ce_x i)) (seq 0 ce_size)).
  assert (Hl : length ev = ce_size) by (unfold ev; now rewrite map_length, seq_length).
  destruct (interp_evals ev Hl) as [Hil Hiv]. apply interp_unique; [exact Hil | exact Hp|].
  intros i Hi. rewrite (Hiv i Hi). unfold ev.
  rewrite (nth_indep _ fz (peval p (ce_x 0))) by (now rewrite map_length, seq_length).
  rewrite (map_nth (fun i0 => peval p (ce_x i0)) (seq 0 ce_size) 0 i), seq_nth by assumption. reflexivity.
Qed.
End Capstone.

Section CapstoneAux.
Variable interp : list F -> list F.
Hypothesis interp_evals : forall evals, length evals = ce_size ->
  length (interp evals) = ce_size /\ forall i, i < ce_size -> peval (interp evals) (ce_x i) = nth i evals fz.
Hypothesis interp_unique : forall p1 p2, length p1 = ce_size -> length p2 = ce_size ->
  (forall i, i < ce_size -> peval p1 (ce_x i) = peval p2 (ce_x i)) -> p1 = p2.
Variable good : F -> Prop.
Variable q : list F.
Variable num_cols : nat.
Hypothesis q_is_def : forall z, good z -> peval q z = comp_def true z.
Hypothesis ce_good : forall i, i < ce_size -> good (ce_x i).
Hypothesis q_len_ce : length q <= ce_size.
Hypothesis q_len_cols : length q <= num_cols * n.
Hypothesis n_lt_ce : n < ce_size.

Theorem composition_is_definition_partial :
  exists evals cols,
    evaluate O n ceb ldeb offset rou num_main tmain taux ppolys exemptions tcoef main_groups aux_groups rands true
             lde_main lde_aux (fun _ v => v) = Some evals
    /\ composition_poly_new n interp evals num_cols = Some cols
    /\ (forall z, recombine O n (cp_evaluate_at O cols z) z = peval q z)
    /\ (forall z, good z -> recombine O n (cp_evaluate_at O cols z) z = comp_def true z).
Proof.
  apply (composition_core interp good q num_cols true q_is_def ce_good q_len_ce q_len_cols n_lt_ce evaluate_spec_aux).
  apply (roundtrip_from_unique interp interp_evals interp_unique).
Qed.
End CapstoneAux.

End Table.
