(* C18: lemmas about the conjectured security estimate (generated term), num_modulus_bits,
   AcceptableOptions::validate and the order of checks of verify().  stdlib style (lia). *)
From VBase Require Import MachInt.
From VGen Require Import Security.
From VModel Require Import SecurityModel.
Open Scope Z_scope.

(* ------------------------------------------------------------------------------------------------ *)
(* The parameter space of the property. *)
Definition valid_blowup (b : Z) : Prop := In b [2; 4; 8; 16; 32; 64; 128].
Definition valid_bits (bits : Z) : Prop := bits = 62 \/ bits = 64 \/ bits = 128.

Record in_space (o : ProofOptions) (bits tl cr : Z) : Prop := mk_in_space {
  sp_q : 1 <= po_num_queries o <= 255;
  sp_b : valid_blowup (po_blowup_factor o);
  sp_g : 0 <= po_grinding_factor o <= 32;
  sp_bits : valid_bits bits;
  sp_tl : exists k, 3 <= k <= 32 /\ tl = 2 ^ k;
  sp_cr : 96 <= cr <= 128 }.

Lemma pow32 : 2 ^ 32 = 4294967296. Proof. reflexivity. Qed.

Lemma valid_blowup_pow b : valid_blowup b -> exists j, 1 <= j <= 7 /\ b = 2 ^ j.
Proof.
  unfold valid_blowup. cbn [In]. intros H.
  repeat (destruct H as [H | H]; [subst b | ]); try contradiction.
  - exists 1; split; [lia | reflexivity].
  - exists 2; split; [lia | reflexivity].
  - exists 3; split; [lia | reflexivity].
  - exists 4; split; [lia | reflexivity].
  - exists 5; split; [lia | reflexivity].
  - exists 6; split; [lia | reflexivity].
  - exists 7; split; [lia | reflexivity].
Qed.

Lemma fe_degree_range e : 1 <= fe_degree e <= 3.
Proof. destruct e; cbn; lia. Qed.

(* query security with the grinding contribution (added only from the floor of 80 bits) *)
Definition query_security (q lb g : Z) : Z := if 80 <=? q * lb then q * lb + g else q * lb.

(* ------------------------------------------------------------------------------------------------ *)
(* Closed form of the generated term whenever no checked operation fails (any inputs). *)
Lemma conj_closed o bits tl cr :
  0 <= bits * fe_degree (po_field_extension o) < 2 ^ 32 ->
  0 <= Z.log2 tl + Z.log2 (po_blowup_factor o) < 2 ^ 32 ->
  0 <= po_num_queries o < 2 ^ 32 ->
  0 <= Z.log2 (po_blowup_factor o) * po_num_queries o < 2 ^ 32 ->
  0 <= query_security (po_num_queries o) (Z.log2 (po_blowup_factor o)) (po_grinding_factor o) < 2 ^ 32 ->
  sec_get_conjectured_security o bits tl cr =
  Z.min (Z.max 0 (Z.min (Z.max 0 (bits * fe_degree (po_field_extension o) - (Z.log2 tl + Z.log2 (po_blowup_factor o))))
                        (query_security (po_num_queries o) (Z.log2 (po_blowup_factor o)) (po_grinding_factor o)) - 1)) cr.
Proof.
  intros H1 H2 H3 H4 H5.
  cbv beta zeta delta [sec_get_conjectured_security sec_GRINDING_CONTRIBUTION_FLOOR].
  rewrite (wrap_small 32 (po_num_queries o)) by exact H3.
  rewrite (wrap_small 32 (bits * _)) by exact H1.
  rewrite (wrap_small 32 (Z.log2 tl + _)) by exact H2.
  rewrite (wrap_small 32 (Z.log2 _ * _)) by exact H4.
  rewrite Z.geb_leb.
  unfold query_security in *.
  rewrite (Z.mul_comm (po_num_queries o)) in *.
  destruct (80 <=? Z.log2 (po_blowup_factor o) * po_num_queries o) eqn:E.
  - rewrite (wrap_small 32 (_ + _)) by exact H5. reflexivity.
  - reflexivity.
Qed.

(* the side condition of the generated term, as a proposition *)
Lemma conj_ok_intro o bits tl cr :
  0 <= bits * fe_degree (po_field_extension o) < 2 ^ 32 ->
  0 < tl -> 0 < po_blowup_factor o ->
  0 <= Z.log2 tl + Z.log2 (po_blowup_factor o) < 2 ^ 32 ->
  0 <= po_num_queries o < 2 ^ 32 ->
  0 <= Z.log2 (po_blowup_factor o) * po_num_queries o < 2 ^ 32 ->
  0 <= query_security (po_num_queries o) (Z.log2 (po_blowup_factor o)) (po_grinding_factor o) < 2 ^ 32 ->
  sec_get_conjectured_security_ok o bits tl cr = true.
Proof.
  intros H1 Htl Hb H2 H3 H4 H5.
  cbv beta zeta delta [sec_get_conjectured_security_ok sec_GRINDING_CONTRIBUTION_FLOOR].
  rewrite (wrap_small 32 (po_num_queries o)) by exact H3.
  rewrite (wrap_small 32 (Z.log2 _ * _)) by exact H4.
  rewrite Z.geb_leb.
  unfold query_security in H5. rewrite (Z.mul_comm (po_num_queries o)) in H5.
  assert (I : forall x, 0 <= x < 2 ^ 32 -> in_u 32 x = true).
  { intros x Hx. unfold in_u. apply andb_true_intro. split; [apply Z.leb_le | apply Z.ltb_lt]; lia. }
  rewrite (I _ H1), (I _ H2), (I _ H4).
  assert (T1 : (0 <? tl) = true) by (apply Z.ltb_lt; exact Htl).
  assert (T2 : (0 <? po_blowup_factor o) = true) by (apply Z.ltb_lt; exact Hb).
  rewrite T1, T2. cbn [andb].
  destruct (80 <=? Z.log2 (po_blowup_factor o) * po_num_queries o) eqn:E.
  - apply I. exact H5.
  - reflexivity.
Qed.

(* ------------------------------------------------------------------------------------------------ *)
(* Facts available in the parameter space. *)
Lemma space_facts o bits tl cr : in_space o bits tl cr ->
  exists k j, 3 <= k <= 32 /\ 1 <= j <= 7 /\ tl = 2 ^ k /\ po_blowup_factor o = 2 ^ j /\
              Z.log2 tl = k /\ Z.log2 (po_blowup_factor o) = j /\ Z.log2 (tl * po_blowup_factor o) = k + j.
Proof.
  intros [Hq Hb Hg Hbits [k [Hk Htl]] Hcr].
  destruct (valid_blowup_pow _ Hb) as [j [Hj Hbj]].
  exists k, j. repeat split; try lia; try assumption.
  - subst tl. apply Z.log2_pow2. lia.
  - rewrite Hbj. apply Z.log2_pow2. lia.
  - rewrite Htl, Hbj, <- Z.pow_add_r by lia. apply Z.log2_pow2. lia.
Qed.

Lemma space_bounds o bits tl cr k j : in_space o bits tl cr ->
  3 <= k <= 32 -> 1 <= j <= 7 ->
  62 <= bits * fe_degree (po_field_extension o) <= 384 /\
  1 <= j * po_num_queries o <= 1785.
Proof.
  intros [Hq Hb Hg Hbits _ Hcr] Hk Hj.
  pose proof (fe_degree_range (po_field_extension o)) as Hd.
  split.
  - destruct Hbits as [-> | [-> | ->]]; lia.
  - split; nia.
Qed.

Lemma conj_no_wrap o bits tl cr : in_space o bits tl cr -> sec_get_conjectured_security_ok o bits tl cr = true.
Proof.
  intros H. destruct (space_facts _ _ _ _ H) as (k & j & Hk & Hj & Htl & Hbj & Lk & Lj & _).
  destruct (space_bounds _ _ _ _ k j H Hk Hj) as [B1 B2].
  pose proof H as [Hq Hb Hg _ _ _].
  apply conj_ok_intro; rewrite ?Lk, ?Lj, ?pow32.
  - lia.
  - subst tl. apply Z.pow_pos_nonneg; lia.
  - rewrite Hbj. apply Z.pow_pos_nonneg; lia.
  - lia.
  - lia.
  - lia.
  - unfold query_security. rewrite (Z.mul_comm _ j). destruct (80 <=? j * po_num_queries o); lia.
Qed.

Lemma conj_formula o bits tl cr : in_space o bits tl cr ->
  sec_get_conjectured_security o bits tl cr =
  Z.min (Z.min (bits * fe_degree (po_field_extension o) - Z.log2 (tl * po_blowup_factor o))
               (query_security (po_num_queries o) (Z.log2 (po_blowup_factor o)) (po_grinding_factor o)) - 1) cr.
Proof.
  intros H. destruct (space_facts _ _ _ _ H) as (k & j & Hk & Hj & Htl & Hbj & Lk & Lj & Lkj).
  destruct (space_bounds _ _ _ _ k j H Hk Hj) as [B1 B2].
  pose proof H as [Hq Hb Hg _ _ _].
  assert (Q : 1 <= query_security (po_num_queries o) j (po_grinding_factor o) <= 1817).
  { unfold query_security. rewrite (Z.mul_comm _ j). destruct (80 <=? j * po_num_queries o); lia. }
  rewrite conj_closed; rewrite ?Lk, ?Lj, ?Lkj, ?pow32; try lia.
Qed.

(* the level is a number of bits between 0 and the collision resistance *)
Lemma conj_range o bits tl cr : in_space o bits tl cr -> 0 <= sec_get_conjectured_security o bits tl cr <= cr.
Proof.
  intros H. rewrite (conj_formula _ _ _ _ H).
  destruct (space_facts _ _ _ _ H) as (k & j & Hk & Hj & Htl & Hbj & Lk & Lj & Lkj).
  destruct (space_bounds _ _ _ _ k j H Hk Hj) as [B1 B2].
  pose proof H as [Hq Hb Hg _ _ Hcr].
  assert (Q : 1 <= query_security (po_num_queries o) j (po_grinding_factor o)).
  { unfold query_security. rewrite (Z.mul_comm _ j). destruct (80 <=? j * po_num_queries o); lia. }
  rewrite Lkj, Lj. lia.
Qed.

(* ------------------------------------------------------------------------------------------------ *)
(* Monotonicity over the whole parameter space. *)
Lemma query_security_mono q q' lb g g' :
  0 <= lb -> q <= q' -> 0 <= g <= g' -> query_security q lb g <= query_security q' lb g'.
Proof.
  intros Hlb Hq Hg. unfold query_security.
  assert (q * lb <= q' * lb) by (apply Z.mul_le_mono_nonneg_r; lia).
  destruct (Z.leb_spec 80 (q * lb)), (Z.leb_spec 80 (q' * lb)); lia.
Qed.

Lemma conj_monotone_gen o o' bits tl cr cr' :
  in_space o bits tl cr -> in_space o' bits tl cr' ->
  po_blowup_factor o' = po_blowup_factor o ->
  po_num_queries o <= po_num_queries o' ->
  po_grinding_factor o <= po_grinding_factor o' ->
  fe_degree (po_field_extension o) <= fe_degree (po_field_extension o') ->
  cr <= cr' ->
  sec_get_conjectured_security o bits tl cr <= sec_get_conjectured_security o' bits tl cr'.
Proof.
  intros H H' Eb Hq Hg Hd Hcr.
  rewrite (conj_formula _ _ _ _ H), (conj_formula _ _ _ _ H'). rewrite Eb.
  destruct (space_facts _ _ _ _ H) as (k & j & Hk & Hj & Htl & Hbj & Lk & Lj & Lkj).
  pose proof H as [_ _ Hg0 Hbits _ _].
  assert (M : query_security (po_num_queries o) (Z.log2 (po_blowup_factor o)) (po_grinding_factor o) <=
              query_security (po_num_queries o') (Z.log2 (po_blowup_factor o)) (po_grinding_factor o')).
  { apply query_security_mono; rewrite ?Lj; lia. }
  assert (D : bits * fe_degree (po_field_extension o) <= bits * fe_degree (po_field_extension o')).
  { apply Z.mul_le_mono_nonneg_l; [destruct Hbits as [-> | [-> | ->]]; lia | exact Hd]. }
  lia.
Qed.

Lemma conj_monotone_queries o o' bits tl cr :
  in_space o bits tl cr -> in_space o' bits tl cr ->
  po_blowup_factor o' = po_blowup_factor o -> po_grinding_factor o' = po_grinding_factor o ->
  po_field_extension o' = po_field_extension o ->
  po_num_queries o <= po_num_queries o' ->
  sec_get_conjectured_security o bits tl cr <= sec_get_conjectured_security o' bits tl cr.
Proof. intros H H' Eb Eg Ee Hq. apply conj_monotone_gen; try assumption; rewrite ?Eg, ?Ee; lia. Qed.

Lemma conj_monotone_grinding o o' bits tl cr :
  in_space o bits tl cr -> in_space o' bits tl cr ->
  po_blowup_factor o' = po_blowup_factor o -> po_num_queries o' = po_num_queries o ->
  po_field_extension o' = po_field_extension o ->
  po_grinding_factor o <= po_grinding_factor o' ->
  sec_get_conjectured_security o bits tl cr <= sec_get_conjectured_security o' bits tl cr.
Proof. intros H H' Eb Eq Ee Hg. apply conj_monotone_gen; try assumption; rewrite ?Eq, ?Ee; lia. Qed.

Lemma conj_monotone_degree o o' bits tl cr :
  in_space o bits tl cr -> in_space o' bits tl cr ->
  po_blowup_factor o' = po_blowup_factor o -> po_num_queries o' = po_num_queries o ->
  po_grinding_factor o' = po_grinding_factor o ->
  fe_degree (po_field_extension o) <= fe_degree (po_field_extension o') ->
  sec_get_conjectured_security o bits tl cr <= sec_get_conjectured_security o' bits tl cr.
Proof. intros H H' Eb Eq Eg Hd. apply conj_monotone_gen; try assumption; rewrite ?Eq, ?Eg; lia. Qed.

Lemma conj_monotone_cr o bits tl cr cr' :
  in_space o bits tl cr -> in_space o bits tl cr' -> cr <= cr' ->
  sec_get_conjectured_security o bits tl cr <= sec_get_conjectured_security o bits tl cr'.
Proof. intros H H' Hc. apply conj_monotone_gen; try assumption; try reflexivity; lia. Qed.

(* A seeded-bug guard: grinding does NOT count below the floor, and counts from the floor on. *)
Lemma conj_grinding_threshold o bits tl cr : in_space o bits tl cr ->
  let qs := po_num_queries o * Z.log2 (po_blowup_factor o) in
  (qs < 80 -> sec_get_conjectured_security o bits tl cr =
              Z.min (Z.min (bits * fe_degree (po_field_extension o) - Z.log2 (tl * po_blowup_factor o)) qs - 1) cr) /\
  (80 <= qs -> sec_get_conjectured_security o bits tl cr =
              Z.min (Z.min (bits * fe_degree (po_field_extension o) - Z.log2 (tl * po_blowup_factor o))
                           (qs + po_grinding_factor o) - 1) cr).
Proof.
  intros H qs. rewrite (conj_formula _ _ _ _ H). unfold query_security. fold qs.
  split; intros Hq; destruct (Z.leb_spec 80 qs); try lia; reflexivity.
Qed.

(* ------------------------------------------------------------------------------------------------ *)
(* Where the estimate saturates instead of wrapping: outside the stated space (untrusted contexts read from
   bytes: any claimed modulus, trace lengths up to 2^63) the repaired code returns the formula clamped at 0. *)
Lemma conj_hostile_no_panic o bits tl cr :
  0 <= bits <= 2040 -> (exists k, 0 <= k <= 63 /\ tl = 2 ^ k) -> valid_blowup (po_blowup_factor o) ->
  1 <= po_num_queries o <= 255 -> 0 <= po_grinding_factor o <= 32 ->
  sec_get_conjectured_security_ok o bits tl cr = true /\
  sec_get_conjectured_security o bits tl cr =
  Z.min (Z.max 0 (Z.min (Z.max 0 (bits * fe_degree (po_field_extension o) - Z.log2 (tl * po_blowup_factor o)))
                        (query_security (po_num_queries o) (Z.log2 (po_blowup_factor o)) (po_grinding_factor o)) - 1)) cr.
Proof.
  intros Hbits [k [Hk Htl]] Hb Hq Hg.
  destruct (valid_blowup_pow _ Hb) as [j [Hj Hbj]].
  pose proof (fe_degree_range (po_field_extension o)) as Hd.
  assert (Lk : Z.log2 tl = k) by (subst tl; apply Z.log2_pow2; lia).
  assert (Lj : Z.log2 (po_blowup_factor o) = j) by (rewrite Hbj; apply Z.log2_pow2; lia).
  assert (Lkj : Z.log2 (tl * po_blowup_factor o) = k + j).
  { rewrite Htl, Hbj, <- Z.pow_add_r by lia. apply Z.log2_pow2. lia. }
  assert (B1 : 0 <= bits * fe_degree (po_field_extension o) <= 6120) by nia.
  assert (B2 : 1 <= j * po_num_queries o <= 1785) by nia.
  assert (Q : 1 <= query_security (po_num_queries o) j (po_grinding_factor o) <= 1817).
  { unfold query_security. rewrite (Z.mul_comm _ j). destruct (80 <=? j * po_num_queries o); lia. }
  split.
  - apply conj_ok_intro; rewrite ?Lk, ?Lj, ?pow32; try lia.
  - rewrite conj_closed; rewrite ?Lk, ?Lj, ?Lkj, ?pow32; try lia.
Qed.

(* everything Proof::from_bytes can produce: monotone as well (the clamped formula is monotone) *)
Definition deserialisable (o : ProofOptions) (bits tl : Z) : Prop :=
  0 <= bits <= 2040 /\ (exists k, 0 <= k <= 63 /\ tl = 2 ^ k) /\ valid_blowup (po_blowup_factor o) /\
  1 <= po_num_queries o <= 255 /\ 0 <= po_grinding_factor o <= 32.

Lemma conj_monotone_deserialisable o o' bits tl cr cr' :
  deserialisable o bits tl -> deserialisable o' bits tl ->
  po_blowup_factor o' = po_blowup_factor o ->
  po_num_queries o <= po_num_queries o' ->
  po_grinding_factor o <= po_grinding_factor o' ->
  fe_degree (po_field_extension o) <= fe_degree (po_field_extension o') ->
  cr <= cr' ->
  sec_get_conjectured_security o bits tl cr <= sec_get_conjectured_security o' bits tl cr'.
Proof.
  intros (Hb & Ht & Hv & Hq & Hg) (Hb' & Ht' & Hv' & Hq' & Hg') Eb Mq Mg Md Mc.
  destruct (conj_hostile_no_panic o bits tl cr Hb Ht Hv Hq Hg) as [_ ->].
  destruct (conj_hostile_no_panic o' bits tl cr' Hb' Ht' Hv' Hq' Hg') as [_ ->].
  rewrite Eb.
  destruct (valid_blowup_pow _ Hv) as [j [Hj Hbj]].
  assert (Lj : Z.log2 (po_blowup_factor o) = j) by (rewrite Hbj; apply Z.log2_pow2; lia).
  assert (M : query_security (po_num_queries o) (Z.log2 (po_blowup_factor o)) (po_grinding_factor o) <=
              query_security (po_num_queries o') (Z.log2 (po_blowup_factor o)) (po_grinding_factor o')).
  { apply query_security_mono; rewrite ?Lj; lia. }
  assert (D : bits * fe_degree (po_field_extension o) <= bits * fe_degree (po_field_extension o')).
  { apply Z.mul_le_mono_nonneg_l; [lia | exact Md]. }
  lia.
Qed.

(* ------------------------------------------------------------------------------------------------ *)
(* num_modulus_bits = bit length of the little-endian value. *)
Definition bitlen (v : Z) : Z := if v <=? 0 then 0 else Z.log2 v + 1.

Definition byte (b : Z) : Prop := 0 <= b < 256.

Lemma clz8_bitlen b : byte b -> b <> 0 -> 8 - clz 8 b = Z.log2 b + 1.
Proof.
  intros Hb Hz. unfold clz. destruct (Z.leb_spec b 0); [unfold byte in Hb; lia | lia].
Qed.

Lemma of_le_bytes_app a b : of_le_bytes (a ++ b) = of_le_bytes a + 256 ^ Z.of_nat (length a) * of_le_bytes b.
Proof.
  induction a as [|x a IH]; cbn [app of_le_bytes length].
  - change (Z.of_nat 0) with 0. rewrite Z.pow_0_r. lia.
  - rewrite IH, Nat2Z.inj_succ, Z.pow_succ_r by lia. ring.
Qed.

Lemma of_le_bytes_range l : Forall byte l -> 0 <= of_le_bytes l < 256 ^ Z.of_nat (length l).
Proof.
  induction 1 as [|x l Hx _ IH]; cbn [of_le_bytes length].
  - change (Z.of_nat 0) with 0. rewrite Z.pow_0_r. lia.
  - rewrite Nat2Z.inj_succ, Z.pow_succ_r by lia. unfold byte in Hx. lia.
Qed.

(* scanning from the most significant byte: `hi` are the bytes already seen to be zero *)
Lemma nmb_scan_spec : forall (r : list Z) (nb : Z),
  Forall byte r -> nb = 8 * Z.of_nat (length r) -> nb < 2 ^ 32 ->
  nmb_scan r nb = bitlen (of_le_bytes (rev r)).
Proof.
  induction r as [|b r IH]; intros nb Hall Hnb Hlt.
  - reflexivity.
  - inversion Hall as [|? ? Hb Hr]; subst.
    cbn [nmb_scan rev]. rewrite of_le_bytes_app. cbn [of_le_bytes]. rewrite rev_length.
    cbn [length] in *. rewrite Nat2Z.inj_succ in *.
    pose proof (of_le_bytes_range (rev r) (Forall_rev Hr)) as Rg. rewrite rev_length in Rg.
    assert (P : 0 < 256 ^ Z.of_nat (length r)) by (apply Z.pow_pos_nonneg; lia).
    destruct (Z.eqb_spec b 0) as [-> | Hnz]; cbn [negb].
    + rewrite IH; [ | exact Hr | | ].
      * f_equal. lia.
      * rewrite wrap_small; lia.
      * rewrite wrap_small; lia.
    + assert (Hb' : 1 <= b <= 255) by (unfold byte in Hb; lia).
      pose proof (clz8_bitlen b Hb Hnz) as C.
      assert (L0 : 0 <= Z.log2 b <= 7).
      { split; [apply Z.log2_nonneg | ]. assert (Z.log2 b < 8); [ | lia]. apply Z.log2_lt_pow2; lia. }
      rewrite wrap_small by lia.
      unfold bitlen.
      set (n := Z.of_nat (length r)) in *.
      set (v := of_le_bytes (rev r)) in *.
      assert (E : 256 ^ n = 2 ^ (8 * n)) by (rewrite Z.pow_mul_r by lia; reflexivity).
      destruct (Z.leb_spec (v + 256 ^ n * (b + 256 * 0)) 0); [nia | ].
      replace (v + 256 ^ n * (b + 256 * 0)) with (b * 2 ^ (8 * n) + v) by (rewrite E; ring).
      assert (LL : Z.log2 (b * 2 ^ (8 * n) + v) = Z.log2 b + 8 * n).
      { apply Z.log2_unique; [lia | ].
        pose proof (Z.log2_spec b ltac:(lia)) as [S1 S2].
        rewrite Z.pow_add_r by lia. rewrite <- E in *.
        replace (Z.succ (Z.log2 b + 8 * n)) with (Z.succ (Z.log2 b) + 8 * n) by lia.
        rewrite Z.pow_add_r by lia. rewrite <- E. nia. }
      rewrite LL. lia.
Qed.

Lemma num_modulus_bits_spec bytes : Forall byte bytes -> num_modulus_bits_ok bytes = true ->
  num_modulus_bits bytes = bitlen (of_le_bytes bytes).
Proof.
  intros Hall Hok. unfold num_modulus_bits_ok in Hok. apply Z.ltb_lt in Hok.
  unfold num_modulus_bits.
  rewrite (wrap_small 32 (Z.of_nat _)) by lia.
  rewrite wrap_small by lia.
  rewrite nmb_scan_spec; [rewrite rev_involutive; reflexivity | apply Forall_rev; exact Hall | rewrite rev_length; lia | lia].
Qed.

Lemma num_modulus_bits_f62 : num_modulus_bits (fd_modulus f62_desc) = 62. Proof. vm_compute. reflexivity. Qed.
Lemma num_modulus_bits_f64 : num_modulus_bits (fd_modulus f64_desc) = 64. Proof. vm_compute. reflexivity. Qed.
Lemma num_modulus_bits_f128 : num_modulus_bits (fd_modulus f128_desc) = 128. Proof. vm_compute. reflexivity. Qed.

(* ------------------------------------------------------------------------------------------------ *)
(* Policy. *)
Lemma fe_eqb_eq a b : fe_eqb a b = true <-> a = b.
Proof. destruct a, b; cbn; split; intros H; try reflexivity; try discriminate. Qed.

Lemma po_eqb_eq a b : po_eqb a b = true <-> a = b.
Proof.
  destruct a as [q1 b1 g1 e1 f1 r1], b as [q2 b2 g2 e2 f2 r2]. unfold po_eqb. cbn [po_num_queries po_blowup_factor
    po_grinding_factor po_field_extension po_fri_folding_factor po_fri_remainder_max_degree].
  rewrite !andb_true_iff, !Z.eqb_eq, fe_eqb_eq.
  split.
  - intros [[[[[-> ->] ->] ->] ->] ->]. reflexivity.
  - intros H. inversion H. subst. repeat split.
Qed.

Lemma bytes_eqb_eq a : forall b, bytes_eqb a b = true <-> a = b.
Proof.
  induction a as [|x a IH]; intros [|y b]; cbn [bytes_eqb]; split; intros H; try reflexivity; try discriminate.
  - apply andb_true_iff in H. destruct H as [H1 H2]. apply Z.eqb_eq in H1. apply IH in H2. subst. reflexivity.
  - inversion H. subst. apply andb_true_iff. split; [apply Z.eqb_refl | apply IH; reflexivity].
Qed.

Lemma option_set_member s c :
  existsb (fun o => po_eqb o (cx_options c)) s = true <-> In (cx_options c) s.
Proof.
  rewrite existsb_exists. split.
  - intros [o [Hin He]]. apply po_eqb_eq in He. subst. exact Hin.
  - intros Hin. exists (cx_options c). split; [exact Hin | apply po_eqb_eq; reflexivity].
Qed.

Lemma validate_spec_conj lc lp l c s : lc c = Some s ->
  (l <= s -> validate lc lp (MinConjecturedSecurity l) c = Accept) /\
  (s < l -> validate lc lp (MinConjecturedSecurity l) c = Reject (InsufficientConjecturedSecurity l s)).
Proof. intros E. cbn [validate]. rewrite E. split; intros HH; destruct (Z.ltb_spec s l); try lia; reflexivity. Qed.

Lemma validate_spec_proven lc lp l c s : lp c = Some s ->
  (l <= s -> validate lc lp (MinProvenSecurity l) c = Accept) /\
  (s < l -> validate lc lp (MinProvenSecurity l) c = Reject (InsufficientProvenSecurity l s)).
Proof. intros E. cbn [validate]. rewrite E. split; intros HH; destruct (Z.ltb_spec s l); try lia; reflexivity. Qed.

Lemma validate_spec_set lc lp set c :
  (In (cx_options c) set -> validate lc lp (OptionSet set) c = Accept) /\
  (~ In (cx_options c) set -> validate lc lp (OptionSet set) c = Reject UnacceptableProofOptions).
Proof.
  cbn [validate]. pose proof (option_set_member set c) as M.
  destruct (existsb (fun o => po_eqb o (cx_options c)) set); cbn [negb]; split; intros H; try reflexivity.
  - exfalso. apply H. apply M. reflexivity.
  - apply M in H. discriminate.
Qed.

(* what `validate = Accept` means, per mode *)
Definition policy_satisfied (lc lp : Context -> option Z) (a : AcceptableOptions) (c : Context) : Prop :=
  match a with
  | MinConjecturedSecurity l => exists s, lc c = Some s /\ l <= s
  | MinProvenSecurity l => exists s, lp c = Some s /\ l <= s
  | OptionSet set => In (cx_options c) set
  end.

Lemma validate_accept_iff lc lp a c : validate lc lp a c = Accept <-> policy_satisfied lc lp a c.
Proof.
  destruct a as [l | l | set]; cbn [validate policy_satisfied].
  - destruct (lc c) as [s|]; [ | split; [discriminate | intros [s [E _]]; discriminate]].
    destruct (Z.ltb_spec s l) as [Hlt | Hge]; split; intros HH; try discriminate.
    + destruct HH as [s' [E Hs]]. inversion E. subst. lia.
    + exists s. split; [reflexivity | lia].
    + reflexivity.
  - destruct (lp c) as [s|]; [ | split; [discriminate | intros [s [E _]]; discriminate]].
    destruct (Z.ltb_spec s l) as [Hlt | Hge]; split; intros HH; try discriminate.
    + destruct HH as [s' [E Hs]]. inversion E. subst. lia.
    + exists s. split; [reflexivity | lia].
    + reflexivity.
  - pose proof (option_set_member set c) as M.
    destruct (existsb (fun o => po_eqb o (cx_options c)) set); cbn [negb]; split; intros H; try discriminate.
    + apply M. reflexivity.
    + reflexivity.
    + apply M in H. discriminate.
Qed.

(* a rejection by validate never mentions anything but the policy errors *)
Lemma validate_reject_policy lc lp a c e : validate lc lp a c = Reject e ->
  (exists l s, e = InsufficientConjecturedSecurity l s /\ s < l /\ lc c = Some s /\ a = MinConjecturedSecurity l) \/
  (exists l s, e = InsufficientProvenSecurity l s /\ s < l /\ lp c = Some s /\ a = MinProvenSecurity l) \/
  (e = UnacceptableProofOptions /\ exists set, a = OptionSet set /\ ~ In (cx_options c) set).
Proof.
  destruct a as [l | l | set]; cbn [validate].
  - destruct (lc c) as [s|] eqn:E; [ | discriminate]. destruct (Z.ltb_spec s l); [ | discriminate].
    intros HH. inversion HH. left. exists l, s. repeat split; try reflexivity; lia.
  - destruct (lp c) as [s|] eqn:E; [ | discriminate]. destruct (Z.ltb_spec s l); [ | discriminate].
    intros HH. inversion HH. right. left. exists l, s. repeat split; try reflexivity; lia.
  - pose proof (option_set_member set c) as M.
    destruct (existsb (fun o => po_eqb o (cx_options c)) set); cbn [negb]; [discriminate | ].
    intros H. inversion H. right. right. split; [reflexivity | ]. exists set. split; [reflexivity | ].
    intros Hin. apply M in Hin. discriminate.
Qed.

Definition field_wf_b (air : FieldDesc) : bool := negb (to_elements_panics (fd_elem_bytes air) (fd_modulus air)).

(* ---- verify(): order of the checks ---- *)
Lemma foreign_field_refused air lc lp acc c rest :
  cx_modulus c <> fd_modulus air -> verify_decision air lc lp acc c rest = Reject InconsistentBaseField.
Proof.
  intros Hne. unfold verify_decision.
  destruct (bytes_eqb (fd_modulus air) (cx_modulus c)) eqn:E; [ | reflexivity].
  apply bytes_eqb_eq in E. congruence.
Qed.

Lemma accepted_implies_level air lc lp acc c rest :
  verify_decision air lc lp acc c rest = Accept ->
  cx_modulus c = fd_modulus air /\ policy_satisfied lc lp acc c /\
  ext_supported air (po_field_extension (cx_options c)) = None /\ rest = Accept.
Proof.
  unfold verify_decision.
  destruct (bytes_eqb (fd_modulus air) (cx_modulus c)) eqn:E; cbn [negb]; [ | discriminate].
  apply bytes_eqb_eq in E.
  destruct (validate lc lp acc c) eqn:V; try discriminate.
  destruct (to_elements_panics _ _); [discriminate | ].
  destruct (ext_supported _ _) eqn:X; [discriminate | ].
  intros R. repeat split; try congruence. apply validate_accept_iff. exact V.
Qed.

(* converse: nothing else than the listed conditions is needed for acceptance (the model does not over-reject) *)
Lemma accept_complete air lc lp acc c :
  cx_modulus c = fd_modulus air -> field_wf_b air = true -> policy_satisfied lc lp acc c ->
  ext_supported air (po_field_extension (cx_options c)) = None ->
  verify_decision air lc lp acc c Accept = Accept.
Proof.
  intros E W P X. unfold verify_decision.
  assert (B : bytes_eqb (fd_modulus air) (cx_modulus c) = true) by (apply bytes_eqb_eq; congruence).
  rewrite B. cbn [negb]. apply validate_accept_iff in P. rewrite P.
  unfold field_wf_b in W. rewrite E. apply negb_true_iff in W. rewrite W, X. reflexivity.
Qed.

(* if the policy refuses, the outcome is fixed before the context is used for the seed and before the rest of the
   verification is consulted *)
Lemma policy_checked_before_use air lc lp acc c e :
  validate lc lp acc c = Reject e ->
  forall rest, verify_decision air lc lp acc c rest = Reject InconsistentBaseField \/
               verify_decision air lc lp acc c rest = Reject e.
Proof.
  intros V rest. unfold verify_decision.
  destruct (bytes_eqb (fd_modulus air) (cx_modulus c)); cbn [negb]; [right | left; reflexivity].
  rewrite V. reflexivity.
Qed.

Lemma policy_refusal_independent_of_rest air lc lp acc c :
  validate lc lp acc c <> Accept ->
  forall rest rest', verify_decision air lc lp acc c rest = verify_decision air lc lp acc c rest' /\
                     verify_decision air lc lp acc c rest <> Accept.
Proof.
  intros V rest rest'. unfold verify_decision.
  destruct (bytes_eqb (fd_modulus air) (cx_modulus c)); cbn [negb]; [ | split; [reflexivity | discriminate]].
  destruct (validate lc lp acc c) eqn:E; [contradiction | split; [reflexivity | discriminate] ..].
Qed.

(* well-formed field description: the two halves of the modulus fit into an element *)
Definition field_wf (air : FieldDesc) : Prop := to_elements_panics (fd_elem_bytes air) (fd_modulus air) = false.

Lemma verify_no_panic air lc lp acc c rest :
  field_wf air -> (forall c', lc c' <> None) -> (forall c', lp c' <> None) -> rest <> Panic ->
  verify_decision air lc lp acc c rest <> Panic.
Proof.
  intros W Hc Hp Hr. unfold verify_decision.
  destruct (bytes_eqb (fd_modulus air) (cx_modulus c)) eqn:E; cbn [negb]; [ | discriminate].
  apply bytes_eqb_eq in E. rewrite <- E. unfold field_wf in W. rewrite W.
  destruct (validate lc lp acc c) eqn:V; try discriminate.
  - destruct (ext_supported _ _); [discriminate | exact Hr].
  - exfalso. destruct acc as [l | l | set]; cbn [validate] in V.
    + destruct (lc c) eqn:L; [destruct (_ <? _); discriminate | exact (Hc c L)].
    + destruct (lp c) eqn:L; [destruct (_ <? _); discriminate | exact (Hp c L)].
    + destruct (negb _); discriminate.
Qed.

Lemma field_wf_f62 : field_wf f62_desc. Proof. reflexivity. Qed.
Lemma field_wf_f64 : field_wf f64_desc. Proof. reflexivity. Qed.
Lemma field_wf_f128 : field_wf f128_desc. Proof. reflexivity. Qed.

(* the pre-repair order let a foreign modulus reach to_elements: an f64 AIR, a context claiming the 16-byte f128
   modulus, any policy that accepts -> Panic instead of a refusal *)
Lemma foreign_field_panicked_before_fix :
  exists c rest, cx_modulus c <> fd_modulus f64_desc /\
    verify_decision_before_fix f64_desc (fun _ => Some 0) (fun _ => Some 0) (MinConjecturedSecurity 0) c rest = Panic /\
    verify_decision f64_desc (fun _ => Some 0) (fun _ => Some 0) (MinConjecturedSecurity 0) c rest = Reject InconsistentBaseField.
Proof.
  exists (mkContext 8 (fd_modulus f128_desc) (mkProofOptions 1 2 0 FeNone 2 0)), Accept.
  split; [discriminate | split; vm_compute; reflexivity].
Qed.
