(* C02 — the verifier's decision: what acceptance implies; the counting lemmas behind the out-of-domain
   check and the random linear combination; the statement is bound into the coin seed.
   Generic over every [FOps F] with [FLaws]. *)
From Coq Require Import List Arith Bool Lia Ring Field ZArith.
From VBase Require Import FieldOps.
From VModel Require Import Soundness.
From VProofs Require Import SoundnessPoly SoundnessEnforce.
Import ListNotations.

Section Verifier.
Context {F : Type} (O : FOps F) (L : FLaws O).
Local Notation zero := (fzero O).
Local Notation one := (fone O).
Local Infix "+f" := (fadd O) (at level 50, left associativity).
Local Infix "-f" := (fsub O) (at level 50, left associativity).
Local Infix "*f" := (fmul O) (at level 40, left associativity).
Add Ring Fr3 : (FLaws_ring_theory O L).
Add Field Ff3 : (FLaws_field_theory O L).

Local Notation fpow := (fpow O).
Local Notation peval := (peval O).
Local Notation coeff := (coeff O).
Local Notation padd := (padd O).
Local Notation pscale := (pscale O).
Local Notation pmul := (pmul O).
Local Notation peqv := (peqv O).
Local Notation pdivides := (pdivides O).
Local Notation pnonzero := (pnonzero O).

Variable eval_trans : list F -> list F -> list F -> list F.
Variable eval_aux_trans : list F -> list F -> list F -> list F -> list F -> list F -> list F.

(* ------------------------------------------------------------------ acceptance *)
Definition ood_equation (A : AirDesc) (C : Coins) (P : ProofObj) : Prop :=
  evaluate_constraints O eval_trans eval_aux_trans A C P = ood_reduce O (air_n A) (c_z C) 0 (p_ood_evals P).

Theorem verify_accept_implies E A C P :
  verify_model O eval_trans eval_aux_trans E A C P = Accept ->
  e_modulus E = p_modulus P /\
  (exists o, In o (e_acceptable E) /\ zlist_eqb (p_options P) o = true) /\
  (air_lagrange A <> None -> e_gkr_ok E = true) /\
  ood_equation A C P /\
  e_fri_commit_ok E = true /\ e_pow_ok E = true /\
  e_trace_auth E = true /\ e_cons_auth E = true /\
  e_fri E (deep_evaluations O A C P) = true.
Proof.
  unfold verify_model, ood_equation, ood_equation_b.
  destruct (Z.eqb (e_modulus E) (p_modulus P)) eqn:E1; cbn [negb]; [|discriminate].
  destruct (existsb (zlist_eqb (p_options P)) (e_acceptable E)) eqn:E2; cbn [negb]; [|discriminate].
  assert (Hg : (if match air_lagrange A with Some _ => negb (e_gkr_ok E) | None => false end then true else false) = false ->
               air_lagrange A <> None -> e_gkr_ok E = true).
  { destruct (air_lagrange A); [destruct (e_gkr_ok E); cbn; auto; discriminate|intros _ H; now elim H]. }
  destruct (match air_lagrange A with Some _ => negb (e_gkr_ok E) | None => false end) eqn:EG; [discriminate|].
  specialize (Hg eq_refl).
  destruct (feqb O _ _) eqn:E3; cbn [negb]; [|discriminate].
  destruct (e_fri_commit_ok E); cbn [negb]; [|discriminate].
  destruct (e_pow_ok E); cbn [negb]; [|discriminate].
  destruct (e_trace_auth E); cbn [negb]; [|discriminate].
  destruct (e_cons_auth E); cbn [negb]; [|discriminate].
  destruct (e_fri E _) eqn:E4; cbn [negb]; [|discriminate].
  intros _. repeat split; auto.
  - now apply Z.eqb_eq.
  - apply existsb_exists in E2. destruct E2 as [o [H1 H2]]. now exists o.
  - now apply (fl_eqb_spec O L).
Qed.

(* conversely every failed check is named: the verdict is Accept exactly when all checks pass *)
Theorem verify_accept_iff E A C P :
  verify_model O eval_trans eval_aux_trans E A C P = Accept <->
  (Z.eqb (e_modulus E) (p_modulus P) && existsb (zlist_eqb (p_options P)) (e_acceptable E) &&
   match air_lagrange A with Some _ => e_gkr_ok E | None => true end &&
   ood_equation_b O eval_trans eval_aux_trans A C P && e_fri_commit_ok E && e_pow_ok E && e_trace_auth E && e_cons_auth E &&
   e_fri E (deep_evaluations O A C P) = true).
Proof.
  unfold verify_model.
  destruct (Z.eqb _ _); cbn [negb andb]; [|split; discriminate].
  destruct (existsb _ _); cbn [negb andb]; [|split; discriminate].
  destruct (air_lagrange A); [destruct (e_gkr_ok E)|]; cbn [negb andb]; try (split; discriminate).
  all: destruct (ood_equation_b _ _ _ _ _ _); cbn [negb andb]; [|split; discriminate].
  all: destruct (e_fri_commit_ok E); cbn [negb andb]; [|split; discriminate].
  all: destruct (e_pow_ok E); cbn [negb andb]; [|split; discriminate].
  all: destruct (e_trace_auth E); cbn [negb andb]; [|split; discriminate].
  all: destruct (e_cons_auth E); cbn [negb andb]; [|split; discriminate].
  all: destruct (e_fri E _); cbn [negb andb]; split; auto; discriminate.
Qed.

(* the value attached to a query position is the DEEP quotient of the opened row against the OOD frame.
   col_terms with a shifted identity index map is the dot product with the coefficients from that offset on
   (an index beyond the coefficient list reads zero, a dot product stops at the shorter list: the same value) *)
Definition diffs (row ood : list F) : list F := map (fun vo => fst vo -f snd vo) (combine row ood).

Lemma nth_skipn_shift {A} (l : list A) k i d : nth i (skipn k l) d = nth (k + i) l d.
Proof.
  revert l; induction k as [|k IH]; intros l; cbn [skipn plus]; [reflexivity|].
  destruct l as [|a l]; [now destruct i|]. cbn [nth]. apply IH.
Qed.

Lemma skipn_S_cons {A} (l : list A) k c r : skipn k l = c :: r -> skipn (S k) l = r.
Proof.
  revert l; induction k as [|k IH]; intros l E.
  - cbn in E. subst. reflexivity.
  - destruct l as [|a l]; [discriminate|]. cbn [skipn] in E. apply IH in E. exact E.
Qed.

Lemma dot_nil_r cs : dot O cs [] = zero.
Proof. now destruct cs. Qed.

Lemma col_terms_ext cc idx idx' i row ood :
  (forall j, idx (i + j) = idx' (i + j)) -> col_terms O cc idx i row ood = col_terms O cc idx' i row ood.
Proof.
  revert i ood; induction row as [|v row IH]; intros i [|o ood] H; cbn [col_terms]; try reflexivity.
  assert (Hi : idx i = idx' i) by (specialize (H 0); now rewrite Nat.add_0_r in H).
  rewrite Hi. f_equal. apply IH. intros j. replace (S i + j) with (i + S j) by lia. apply H.
Qed.

Lemma col_terms_dot cc k i row ood :
  col_terms O cc (fun j => k + j) i row ood = dot O (skipn (k + i) cc) (diffs row ood).
Proof.
  revert i ood; induction row as [|v row IH]; intros i [|o ood]; unfold diffs; cbn [col_terms combine map];
    try (now rewrite dot_nil_r).
  rewrite IH. fold (diffs row ood).
  destruct (skipn (k + i) cc) as [|c r] eqn:E.
  - assert (Hn : nth (k + i) cc zero = zero).
    { rewrite <- (Nat.add_0_r (k + i)), <- nth_skipn_shift, E. reflexivity. }
    rewrite Hn. replace (k + S i) with (S (k + i)) by lia.
    assert (E2 : skipn (S (k + i)) cc = []).
    { apply skipn_all2. assert (Hl : length (skipn (k + i) cc) = 0) by now rewrite E.
      rewrite skipn_length in Hl. lia. }
    rewrite E2. cbn [dot]. ring.
  - assert (Hn : nth (k + i) cc zero = c).
    { rewrite <- (Nat.add_0_r (k + i)), <- nth_skipn_shift, E. reflexivity. }
    assert (E2 : skipn (k + S i) cc = r).
    { replace (k + S i) with (S (k + i)) by lia. now apply skipn_S_cons with (c := c). }
    rewrite Hn, E2. cbn [dot fst snd]. ring.
Qed.

Lemma col_terms_main_dot cc row ood :
  col_terms O cc (fun i => i) 0 row ood = dot O cc (diffs row ood).
Proof.
  rewrite (col_terms_ext cc (fun i => i) (fun j => 0 + j) 0 row ood) by reflexivity.
  rewrite col_terms_dot. reflexivity.
Qed.

(* numerator of the auxiliary columns of one frame row *)
Definition aux_dot (C : Coins) (w : nat) (ar ood : list F) : F := dot O (skipn w (cc_deep_trace C)) (diffs ar ood).

Lemma deep_trace_at_spec C P zg row arow x :
  x -f c_z C <> zero -> x -f zg <> zero ->
  deep_trace_at O C P zg row arow x =
  match p_aux P, arow with
  | Some ax, Some ar =>
      fdiv O (dot O (cc_deep_trace C) (diffs row (p_ood_cur P)) +f aux_dot C (length row) ar (ax_cur ax)) (x -f c_z C) +f
      fdiv O (dot O (cc_deep_trace C) (diffs row (p_ood_next P)) +f aux_dot C (length row) ar (ax_next ax)) (x -f zg)
  | _, _ =>
      fdiv O (dot O (cc_deep_trace C) (diffs row (p_ood_cur P))) (x -f c_z C) +f
      fdiv O (dot O (cc_deep_trace C) (diffs row (p_ood_next P))) (x -f zg)
  end.
Proof.
  intros H1 H2. unfold deep_trace_at, deep_trace_at_gen, aux_dot. rewrite !col_terms_main_dot.
  destruct (p_aux P) as [ax|]; [destruct arow as [ar|]|].
  - unfold deep_coeff_index_aux.
    rewrite !(col_terms_dot (cc_deep_trace C) (length row) 0), Nat.add_0_r. field. split; assumption.
  - field. split; assumption.
  - field. split; assumption.
Qed.

Lemma deep_evaluations_length A C P :
  length (p_q_trace P) = length (c_xs C) -> length (p_q_cons P) = length (c_xs C) ->
  length (deep_evaluations O A C P) = length (c_xs C).
Proof. intros H1 H2. unfold deep_evaluations. rewrite map_length, !combine_length, seq_length. lia. Qed.

Lemma nth_error_combine {X Y} (a : list X) (b : list Y) q u v :
  nth_error a q = Some u -> nth_error b q = Some v -> nth_error (combine a b) q = Some (u, v).
Proof.
  revert b q; induction a as [|u0 a IH]; intros b q0 Ha Hb; destruct q0; destruct b; cbn in *; try discriminate.
  - now inversion Ha; inversion Hb.
  - now apply IH.
Qed.

Lemma deep_evaluations_nth A C P q rt rc x :
  nth_error (p_q_trace P) q = Some rt -> nth_error (p_q_cons P) q = Some rc -> nth_error (c_xs C) q = Some x ->
  nth_error (deep_evaluations O A C P) q =
  Some (deep_trace_at O C P (c_z C *f air_g A) rt (cut_aux_row A (aux_row_at P q)) x +f
        deep_lagrange_at O A C P (c_z C *f air_g A) (aux_row_at P q) x +f deep_cons_at O C P rc x).
Proof.
  unfold deep_evaluations. intros H1 H2 H3.
  rewrite nth_error_map.
  assert (Hq : q < length (p_q_trace P)) by (apply nth_error_Some; rewrite H1; discriminate).
  assert (Hs : nth_error (seq 0 (length (p_q_trace P))) q = Some q).
  { rewrite (nth_error_nth' _ 0) by (now rewrite seq_length). now rewrite seq_nth. }
  rewrite (nth_error_combine _ _ q q (rt, rc, x) Hs
             (nth_error_combine _ _ q (rt, rc) x (nth_error_combine _ _ q rt rc H1 H2) H3)).
  reflexivity.
Qed.

(* ------------------------------------------------------------------ the out-of-domain check
   sum_i z^(i*n) * H_i(z) is the evaluation of the composition polynomial H = sum_i X^(i*n) * H_i *)
Definition pshift (m : nat) (p : list F) : list F := repeat zero m ++ p.
Fixpoint combine_cols (n i : nat) (hs : list (list F)) : list F :=
  match hs with [] => [] | h :: r => padd (pshift (i * n) h) (combine_cols n (S i) r) end.

Lemma peval_pshift m p x : peval (pshift m p) x = fpow x m *f peval p x.
Proof.
  unfold pshift. induction m as [|m IH]; cbn [repeat app Soundness.peval Soundness.fpow].
  - ring.
  - rewrite IH. ring.
Qed.

Theorem ood_reduce_is_evaluation n z hs i :
  ood_reduce O n z i (map (fun h => peval h z) hs) = peval (combine_cols n i hs) z.
Proof.
  revert i; induction hs as [|h r IH]; intros i; cbn [map ood_reduce combine_cols].
  - reflexivity.
  - rewrite (peval_padd O L), peval_pshift, IH. reflexivity.
Qed.

(* Counting: let H be the committed composition polynomial, Nn the combined numerator and Dd the divisor, all
   as polynomials.  If H * Dd - Nn is not the zero polynomial (the quotient relation is not an identity), at most
   deg-many points z (outside the zeros of Dd) satisfy the out-of-domain equation H(z) = Nn(z) / Dd(z). *)
Definition relation_poly (H Nn Dd : list F) : list F := padd (pmul H Dd) (pscale (fneg O one) Nn).

Theorem ood_counting_partial (H Nn Dd : list F) (D : nat) (zs : list F) :
  pnonzero (relation_poly H Nn Dd) -> length (relation_poly H Nn Dd) <= S D ->
  NoDup zs ->
  (forall z, In z zs -> peval Dd z <> zero /\ peval H z = fdiv O (peval Nn z) (peval Dd z)) ->
  length zs <= D.
Proof.
  intros Hnz Hlen Hnd Hz. apply (roots_bound O L (relation_poly H Nn Dd) D zs Hnz Hlen Hnd).
  intros z Hin. destruct (Hz z Hin) as [Hd He].
  unfold relation_poly. rewrite (peval_padd O L), (peval_pmul O L), (peval_pscale O L), He. field. exact Hd.
Qed.

(* if the relation IS an identity the equation holds at every point outside the zeros of Dd (completeness side) *)
Theorem ood_identity_everywhere (H Nn Dd : list F) z :
  (forall i, coeff (relation_poly H Nn Dd) i = zero) -> peval Dd z <> zero ->
  peval H z = fdiv O (peval Nn z) (peval Dd z).
Proof.
  intros Hz Hd.
  assert (E : peval (relation_poly H Nn Dd) z = zero).
  { rewrite (peqv_peval O L (relation_poly H Nn Dd) []); [reflexivity|].
    intros i. rewrite Hz. unfold Soundness.coeff. now destruct i. }
  unfold relation_poly in E. rewrite (peval_padd O L), (peval_pmul O L), (peval_pscale O L) in E.
  assert (E2 : peval H z *f peval Dd z = peval Nn z).
  { apply (fsub_eq_zero O L). rewrite <- E. ring. }
  rewrite <- E2. field. exact Hd.
Qed.

(* ------------------------------------------------------------------ acceptance, read on polynomials.
   If the out-of-domain frame sent by the prover consists of evaluations of polynomials for which the transition
   constraints evaluate to N_j(z) (what an honest frame of composed numerators N_j gives) and the H_i(z) are
   evaluations of the committed columns H_i, then the accepted out-of-domain equation is the polynomial relation
   H(z) = (sum_j alpha_j N_j)(z) / D(z) + boundary terms, with D the vanishing polynomial of the enforced steps. *)
Lemma dot_peval_lincomb cc (Ns : list (list F)) z :
  dot O cc (map (fun p => peval p z) Ns) = peval (lincomb O cc Ns) z.
Proof.
  revert Ns; induction cc as [|c cc IH]; intros [|p Ns]; cbn [dot map lincomb Soundness.peval]; try reflexivity.
  rewrite (peval_padd O L), (peval_pscale O L), IH. reflexivity.
Qed.

Theorem accept_gives_polynomial_relation E A C P (Ns Hs : list (list F)) :
  verify_model O eval_trans eval_aux_trans E A C P = Accept ->
  0 < air_n A -> NoDup (domain O (air_g A) (air_n A)) -> fpow (air_g A) (air_n A) = one ->
  ~ In (c_z C) (trans_exempt O (air_g A) (air_n A) (air_k A)) ->
  eval_trans (p_ood_cur P) (p_ood_next P) (periodic_at O A (c_z C)) = map (fun p => peval p (c_z C)) Ns ->
  p_ood_evals P = map (fun h => peval h (c_z C)) Hs ->
  peval (combine_cols (air_n A) 0 Hs) (c_z C) =
  fdiv O (peval (lincomb O (firstn (air_nt_main A) (cc_trans C)) Ns) (c_z C) +f
          match p_aux P with
          | None => zero
          | Some ax => dot O (skipn (air_nt_main A) (cc_trans C))
                         (eval_aux_trans (p_ood_cur P) (p_ood_next P) (ax_cur ax) (ax_next ax)
                                         (periodic_at O A (c_z C)) (c_aux_rands C))
          end)
         (peval (trans_divisor_poly O (air_g A) (air_n A) (air_k A)) (c_z C))
  +f eval_boundary_part O A C P +f eval_lagrange_part O A C P.
Proof.
  intros Hacc Hn Hnd Hg Hz Hfr Hev.
  destruct (verify_accept_implies E A C P Hacc) as [_ [_ [_ [Hood _]]]].
  unfold ood_equation, evaluate_constraints, evaluate_constraints_gen, eval_transition_part in Hood.
  fold (eval_lagrange_part O A C P) in Hood.
  rewrite Hev, ood_reduce_is_evaluation in Hood. rewrite <- Hood.
  rewrite Hfr, dot_peval_lincomb.
  rewrite (SoundnessEnforce.trans_divisor_eval_spec O L (air_g A) (air_n A) Hnd (air_k A) (c_z C) Hn Hg Hz).
  destruct (p_aux P) as [ax|]; [reflexivity|].
  f_equal. f_equal. f_equal. ring.
Qed.

(* ------------------------------------------------------------------ the random linear combination (ALI)
   On every line in the direction of a non-divisible polynomial p1 at most ONE coefficient makes the
   combination divisible.  (Fibering F^k over the other k-1 coordinates gives |good| <= |F|^(k-1).) *)
Theorem ali_fiber_unique (d p0 p1 : list F) (a b : F) :
  ~ pdivides d p1 ->
  pdivides d (padd p0 (pscale a p1)) -> pdivides d (padd p0 (pscale b p1)) -> a = b.
Proof.
  intros Hn Ha Hb. destruct (feq_dec O L a b) as [E|E]; [exact E|]. exfalso. apply Hn.
  assert (Hab : a -f b <> zero) by (intros H; apply E; now apply (fsub_eq_zero O L)).
  pose proof (pdivides_padd O L d _ _ Ha (pdivides_pscale O L d (fneg O one) _ Hb)) as Hd.
  apply (pdivides_pscale O L d (finv O (a -f b))) in Hd.
  eapply (pdivides_peqv O); [|exact Hd].
  intros i. rewrite (coeff_pscale O L), (coeff_padd O L), (coeff_pscale O L), !(coeff_padd O L), !(coeff_pscale O L).
  field. exact Hab.
Qed.

Corollary ali_counting_line (d p0 p1 : list F) (good : list F) :
  ~ pdivides d p1 -> NoDup good ->
  (forall a, In a good -> pdivides d (padd p0 (pscale a p1))) -> length good <= 1.
Proof.
  intros Hn Hnd Hg. destruct good as [|a [|b r]]; cbn [length]; try lia.
  exfalso. inversion Hnd as [|? ? Hnotin _]; subst. apply Hnotin. left.
  symmetry. apply (ali_fiber_unique d p0 p1 a b Hn); apply Hg; cbn; auto.
Qed.

End Verifier.

(* ------------------------------------------------------------------ the statement is bound into the seed *)
Section Seed.
Context {F : Type} (O : FOps F).
Open Scope Z_scope.

(* E::from(u32) is injective on u32 values (true for fields with more than 2^32 elements) *)
Hypothesis Hinj : forall a b, 0 <= a < 2^32 -> 0 <= b < 2^32 -> fofz O a = fofz O b -> a = b.

Definition u8 (x : Z) : Prop := 0 <= x < 256.
Definition shape_ok (s : Shape) : Prop :=
  u8 (sh_width s) /\ 0 <= sh_len s < 2^32 /\
  match sh_aux s with None => True | Some (aw, ar) => u8 aw /\ u8 ar end.
Definition opts_ok (o : Opts) : Prop :=
  u8 (o_queries o) /\ u8 (o_blowup o) /\ 0 <= o_grinding o < 2^32 /\ u8 (o_ext o) /\ u8 (o_fold o) /\ u8 (o_rem o).

Lemma tinfo_buf_range s : shape_ok s -> 0 <= tinfo_buf s < 2^32.
Proof.
  unfold shape_ok, tinfo_buf, u8. destruct s as [w [[aw ar]|] l]; cbn; intros; lia.
Qed.

Lemma tinfo_buf_inj s s' : shape_ok s -> shape_ok s' -> sh_len s = sh_len s' -> tinfo_buf s = tinfo_buf s' -> s = s'.
Proof.
  unfold shape_ok, tinfo_buf, u8. destruct s as [w [[aw ar]|] l], s' as [w' [[aw' ar']|] l']; cbn; intros H H' El E.
  - assert (w = w' /\ aw = aw' /\ ar = ar') as [-> [-> ->]] by lia. now subst.
  - exfalso. lia.
  - exfalso. lia.
  - assert (w = w') as -> by lia. now subst.
Qed.

Lemma opt_buf_range o : opts_ok o -> 0 <= opt_buf o < 2^32.
Proof. unfold opts_ok, opt_buf, u8. intros. lia. Qed.

Theorem seed_binds_statement s m1 m2 o pub s' m1' m2' o' pub' :
  shape_ok s -> shape_ok s' -> opts_ok o -> opts_ok o' ->
  seed_of O s m1 m2 o pub = seed_of O s' m1' m2' o' pub' ->
  s = s' /\ m1 = m1' /\ m2 = m2' /\ o = o' /\ pub = pub'.
Proof.
  intros Hs Hs' Ho Ho' E. unfold seed_of in E. cbn [app] in E.
  injection E as E1 E2 E3 E4 E5 E6 E7 E8 E9.
  pose proof (tinfo_buf_range s Hs). pose proof (tinfo_buf_range s' Hs').
  pose proof (opt_buf_range o Ho). pose proof (opt_buf_range o' Ho').
  apply Hinj in E1; [|assumption|assumption].
  assert (El : sh_len s = sh_len s') by (apply Hinj; [apply Hs|apply Hs'|exact E2]).
  apply Hinj in E5; [|assumption|assumption].
  unfold opts_ok, u8 in Ho, Ho'.
  apply Hinj in E6; [|lia|lia]. apply Hinj in E7; [|lia|lia]. apply Hinj in E8; [|lia|lia].
  repeat split; auto.
  - now apply tinfo_buf_inj.
  - destruct o as [q b gr e f r], o' as [q' b' gr' e' f' r']. cbn in *. unfold opt_buf in E5. cbn in E5.
    assert (e = e' /\ f = f' /\ r = r') as [-> [-> ->]] by lia. now subst.
Qed.

(* the family's public inputs: assertion value lists with a length prefix *)
Theorem flat_avals_inj (a b : list (list F)) :
  Forall (fun l => Z.of_nat (length l) < 2^32) a -> Forall (fun l => Z.of_nat (length l) < 2^32) b ->
  length a = length b -> flat_avals O a = flat_avals O b -> a = b.
Proof.
  revert b; induction a as [|x a IH]; intros [|y b] Ha Hb Hl E; cbn in *; try discriminate; [reflexivity|].
  inversion Ha; inversion Hb; subst. injection E as E1 E2.
  apply Hinj in E1; [|lia|lia]. apply Nat2Z.inj in E1.
  assert (Hxy : x = y /\ flat_avals O a = flat_avals O b).
  { clear -E1 E2. revert y E1 E2. induction x as [|u x IHx]; intros [|v y] E1 E2; cbn in *; try discriminate; [now split|].
    injection E2 as -> E2. destruct (IHx y ltac:(lia) E2) as [-> R]. now split. }
  destruct Hxy as [-> R]. f_equal. apply IH; auto.
Qed.
End Seed.
