(* C02 (round 5) — the Lagrange kernel part of the verifier's out-of-domain equation.
   (1) explicit form of eval_lagrange_part (evaluator.rs section 3 through C16's model of air/src/air/lagrange/*, put in
       closed form with C16's lag_new_spec and C17's verifier_lagrange_agrees): ALL log2(n) transition terms
       coef_idx * (r_(v-1-idx) c_0 - (1 - r_(v-1-idx)) c_(v-idx)) / (z^(2^idx) - 1) and the boundary term;
   (2) the seeded variant with the LAST transition constraint dropped (one divisor fewer, the zip of evaluate_and_combine
       stops early): a frame changed in the entry that only the last constraint reads gives the same value — REFUTED that
       this variant rejects it — while the real equation changes;
   (3) instances over the 64-bit field: an accepting run with a Lagrange kernel column, RejGkr, RejOod. *)
From Coq Require Import List Arith Bool Lia Ring Field ZArith.
From VBase Require Import MachInt FieldOps ZpOps.
From VModel Require Import Soundness.
From VModel Require Enforce EnforceLagrange Composition.
From VProofs Require Import ZpLaws SoundnessPoly SoundnessEnforce SoundnessVerifier.
From VProofs Require EnforceLagrangeProofs CompositionLagrange.
Import ListNotations.
Local Open Scope nat_scope.

Section Lag.
Context {F : Type} (O : FOps F) (L : FLaws O).
Local Notation zero := (fzero O).
Local Notation one := (fone O).
Local Infix "+f" := (fadd O) (at level 50, left associativity).
Local Infix "-f" := (fsub O) (at level 50, left associativity).
Local Infix "*f" := (fmul O) (at level 40, left associativity).
Add Ring Fr7 : (FLaws_ring_theory O L).

(* transition term idx (constraint k = idx + 1) of the Lagrange kernel constraints on a frame c at the point x *)
Definition lag_term (v : nat) (coefs rr c : list F) (x : F) (idx : nat) : F :=
  nth idx coefs zero *f
  (nth (v - 1 - idx) rr zero *f nth 0 c zero -f (one -f nth (v - 1 - idx) rr zero) *f nth (v - idx) c zero)
  *f finv O (fpow O x (2 ^ idx) -f one).
Definition lag_boundary_term (rr c : list F) (lb x : F) : F :=
  (nth 0 c zero -f EnforceLagrange.lag_assertion_value O rr) *f lb *f finv O (x -f one).

Lemma cpow_fpow x n : Composition.cpow O x n = fpow O x n.
Proof. induction n as [|n IH]; cbn; [reflexivity|now rewrite IH]. Qed.

Lemma rsum_fsum l : Composition.rsum O l = fsum O l.
Proof. reflexivity. Qed.

Lemma lag_new_divisors (coefs : list F) idx : idx < length coefs ->
  nth idx (map (fun i : Z => EnforceLagrangeProofs.lag_div O (i + 1)) (zrange 0 (Z.of_nat (length coefs)))) (Enforce.mkD [] []) =
  Enforce.mkD [((2 ^ Z.of_nat idx)%Z, one)] [].
Proof.
  intros Hi. unfold zrange. rewrite map_map, Z.sub_0_r, Nat2Z.id.
  match goal with |- nth _ (map ?f _) _ = _ => set (ff := f) end.
  rewrite (nth_indep _ _ (ff 0)) by (now rewrite map_length, seq_length).
  rewrite (map_nth ff), seq_nth by exact Hi. unfold ff, EnforceLagrangeProofs.lag_div.
  replace (0 + Z.of_nat (0 + idx) + 1 - 1)%Z with (Z.of_nat idx) by lia. reflexivity.
Qed.

Theorem eval_lagrange_part_explicit (A : AirDesc) (C : Coins) (P : ProofObj) fr lc v :
  p_lagrange P = Some fr -> c_lagrange C = Some lc ->
  length fr = S v -> length (lg_rands lc) = v -> length (lg_cc_trans lc) = v -> v < 64 ->
  eval_lagrange_part O A C P =
  fsum O (map (lag_term v (lg_cc_trans lc) (lg_rands lc) fr (c_z C)) (seq 0 v)) +f
  lag_boundary_term (lg_rands lc) fr (lg_cc_bnd lc) (c_z C).
Proof.
  intros Hfr Hlc Hl Hr Hc Hv.
  unfold eval_lagrange_part, eval_lagrange_part_gen. rewrite Hfr, Hlc.
  rewrite (EnforceLagrangeProofs.lag_new_spec O 0%Z) by lia.
  set (t := EnforceLagrange.mkLTC _ _).
  assert (Hdl : length (EnforceLagrange.l_div t) = v).
  { unfold t. cbn [EnforceLagrange.l_div]. rewrite map_length. unfold zrange. rewrite map_length, seq_length. lia. }
  destruct (CompositionLagrange.verifier_lagrange_agrees O L 1 1 1 1 ltac:(lia) ltac:(lia) ltac:(lia) ltac:(lia) v
              (repeat zero (Composition.lde_size 1 1)) (repeat_length _ _) t (lg_rands lc) (lg_cc_bnd lc)
              Hc Hr Hdl (fun idx Hi => eq_trans (f_equal (fun l => nth idx l _) eq_refl)
                                          (lag_new_divisors (lg_cc_trans lc) idx ltac:(rewrite Hc; exact Hi))) Hv fr (c_z C) Hl) as [E1 E2].
  rewrite E1, E2. rewrite rsum_fsum. f_equal.
Qed.

(* the seeded variant: LagrangeKernelTransitionConstraints::new builds one divisor fewer *)
Definition lag_new_dropped (coefs : list F) : option (EnforceLagrange.LagTC (F := F)) :=
  match EnforceLagrange.lag_new O coefs with
  | Some t => Some (EnforceLagrange.mkLTC (EnforceLagrange.l_coef t) (removelast (EnforceLagrange.l_div t)))
  | None => None
  end.
End Lag.

(* ------------------------------------------------------------------ instances over the 64-bit field *)
Section Instances.
Local Notation O := F64_ops.
Local Notation Fe := (Zp P64).
Definition e7 (v : nat) : Fe := fofz O (Z.of_nat v).
Definition g4 : Fe := fofz O 281474976710656%Z.          (* 2^48: a generator of the trace domain of length 4 in the 64-bit field *)

Definition lt_e (cur next pers : list Fe) : list Fe := lagfam_trans O cur next pers.
Definition la_e (mc mn ac an pers rands : list Fe) : list Fe := lagfam_aux_trans O mc mn ac an pers rands.
(* trace length 4 (v = 2), one main column, two auxiliary columns, the second one is the Lagrange kernel column *)
Definition air_l : @AirDesc Fe :=
  mkAir 4 1 g4 [] [mkBGroup 0 1 [mkBCons 0 [e7 0] (e7 1)]] 1 [mkBGroup 0 1 [mkBCons 0 [e7 0] (e7 1)]] (Some 1).
Definition lagc : @LagCoins Fe := mkLagCoins [e7 61; e7 67] [e7 71; e7 73] (e7 79) (e7 83).
Definition coins_l : @Coins Fe := mkCoins [e7 23] [e7 11; e7 29] [e7 13; e7 31] (e7 5) [e7 17; e7 37; e7 41] [e7 19] [e7 3; e7 6] (Some lagc).
Definition env_l (gkr : bool) : @Env Fe := mkEnv 7 [[1%Z; 2%Z]] gkr true true true true (fun _ => true).
Definition proof_l0 (frame evals : list Fe) : @ProofObj Fe :=
  mkProof 7 [1%Z; 2%Z] [e7 21] [e7 34] evals [[e7 1]; [e7 2]] [[e7 8]; [e7 9]]
          (Some (mkAuxOpen [e7 43] [e7 47] [[e7 5; e7 55]; [e7 6; e7 66]])) (Some frame).
Definition frame_l : list Fe := [e7 50; e7 51; e7 52].
(* entry 1 = c(g z): read by the LAST transition constraint (k = v = 2) only *)
Definition frame_l' : list Fe := [e7 50; e7 99; e7 52].
Definition proof_l : @ProofObj Fe := proof_l0 frame_l [evaluate_constraints O lt_e la_e air_l coins_l (proof_l0 frame_l [])].
Definition proof_l' : @ProofObj Fe := proof_l0 frame_l' (p_ood_evals proof_l).

Example verify_lagrange_instance :
  verify_model O lt_e la_e (env_l true) air_l coins_l proof_l = Accept /\
  verify_model O lt_e la_e (env_l false) air_l coins_l proof_l = RejGkr /\
  verify_model O lt_e la_e (env_l true) air_l coins_l proof_l' = RejOod /\
  length (deep_evaluations O air_l coins_l proof_l) = 2.
Proof. repeat split; vm_compute; reflexivity. Qed.

(* the Lagrange terms do enter: the value differs from the one of the same proof without Lagrange frame *)
Example lagrange_part_nonzero : eval_lagrange_part O air_l coins_l proof_l <> fzero O.
Proof. intros H. apply (f_equal (@zp_val P64)) in H. vm_compute in H. discriminate. Qed.

(* frame_l' violates ONLY constraint v = 2 relative to frame_l: numerator 1 is unchanged, numerator 2 changes *)
Example frames_differ_in_last_constraint_only :
  EnforceLagrange.lag_raw O frame_l' (lg_rands lagc) 1 = EnforceLagrange.lag_raw O frame_l (lg_rands lagc) 1 /\
  EnforceLagrange.lag_raw O frame_l' (lg_rands lagc) 2 <> EnforceLagrange.lag_raw O frame_l (lg_rands lagc) 2 /\
  EnforceLagrange.lag_boundary_numerator O (lg_rands lagc) frame_l' (lg_cc_bnd lagc) =
  EnforceLagrange.lag_boundary_numerator O (lg_rands lagc) frame_l (lg_cc_bnd lagc).
Proof.
  split; [reflexivity|]. split; [|reflexivity].
  intros H. apply (f_equal (option_map (@zp_val P64))) in H. vm_compute in H. discriminate.
Qed.

(* REFUTED for the variant with the last constraint dropped: "a frame that violates a Lagrange transition constraint changes
   the out-of-domain value".  The variant gives proof_l' the value of proof_l (so the OOD equation that holds for proof_l
   holds for proof_l'), the real equation does not. *)
Theorem dropped_last_constraint_refuted :
  evaluate_constraints_gen O lt_e la_e (lag_new_dropped O) air_l coins_l proof_l' =
  evaluate_constraints_gen O lt_e la_e (lag_new_dropped O) air_l coins_l proof_l /\
  evaluate_constraints O lt_e la_e air_l coins_l proof_l' <> evaluate_constraints O lt_e la_e air_l coins_l proof_l.
Proof.
  split.
  - apply zp_val_inj. vm_compute. reflexivity.
  - intros H. apply (f_equal (@zp_val P64)) in H. vm_compute in H. discriminate.
Qed.
End Instances.
